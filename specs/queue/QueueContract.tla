--------------------------- MODULE QueueContract ---------------------------
(* Contract of property C08, stated over observable data only: item ids,     *)
(* their attributes (priority / deadline / flow), the order in which items   *)
(* were accepted, what a pop returned, counters the components publish, the  *)
(* number of items between "start of service" and "end of service", the      *)
(* concurrency limit in force, and simulated time.  No mechanism (no notify, *)
(* poll, deliver events) appears here.  These operators are the only thing   *)
(* whose falsity on an execution of the real code may produce a VIOLATION.    *)
(*                                                                           *)
(* Statement clauses:                                                        *)
(*  (a) every offered item is exactly one of rejected-and-counted, waiting,  *)
(*      in service, completed exactly once          -> LegalMove, Counted    *)
(*  (b) work in service never exceeds the concurrency limit -> StartOK       *)
(*  (c) no simulated time passes while an item waits and the worker has free *)
(*      capacity for it                              -> IdleWait             *)
(*  (d) items leave a queue in the order its policy defines -> LeavesInOrder,*)
(*      FairShareOK                                                          *)
(*  (e) a policy never holds more than its capacity, and                     *)
(*      enqueued = dequeued + dropped + held         -> CapacityOK, Conserved*)
EXTENDS Naturals, Integers, Sequences, FiniteSets

Inf == 999999          \* "unbounded" capacity / "no limit"

Max2(a, b) == IF a >= b THEN a ELSE b
InSeq(s, x) == \E k \in 1..Len(s) : s[k] = x
Pos(s, x) == IF InSeq(s, x) THEN CHOOSE k \in 1..Len(s) : s[k] = x ELSE 0
Remove(s, x) == SelectSeq(s, LAMBDA y : y # x)
SeqSet(s) == { s[k] : k \in 1..Len(s) }

\* ---- (a) life cycle of one offered item -----------------------------------
\* "new" = not yet offered.  "transit" = handed out by the queue, service not yet begun
\* (still waiting from the item's point of view).
Statuses == {"new", "rejected", "waiting", "transit", "inservice", "done"}
LegalMove(from, to) ==
    \/ from = "new"       /\ to \in {"rejected", "waiting", "inservice"}
    \/ from = "waiting"   /\ to \in {"transit", "inservice", "rejected"}
    \/ from = "transit"   /\ to \in {"inservice", "rejected", "waiting"}
    \/ from = "inservice" /\ to = "done"
\* rejected-and-counted: the component's published rejection counters cover every rejected item
Counted(nRejectedItems, publishedRejections) == publishedRejections >= nRejectedItems

\* ---- (b) ------------------------------------------------------------------
\* An item may begin service only if afterwards the number in service does not exceed the limit
\* (the limit in force now, or the one in force when the item was taken from the queue: a limit
\* lowered between dequeue and start at one instant is read in favour of the code).
StartOK(nInServiceAfter, limitNow, limitAtDequeue) == nInServiceAfter <= Max2(limitNow, limitAtDequeue)

\* ---- (c) ------------------------------------------------------------------
\* Evaluated whenever simulated time is about to advance (or the run is over for good):
\* TRUE = the clause is violated.
IdleWait(nWaitingServable, nInService, limit) == nWaitingServable > 0 /\ nInService < limit

\* ---- (d) order ---------------------------------------------------------------
\* held: ids in acceptance order before the pop; ret: the id returned; rest: ids still held
\* afterwards (items the policy itself discarded, e.g. expired deadlines, are in neither).
\* P[i] = priority value or deadline, F[i] = flow.  No remaining item may have been due before ret.
LeavesInOrder(kind, held, ret, rest, P, F) ==
    /\ InSeq(held, ret)
    /\ \A y \in rest :
         CASE kind = "fifo" -> Pos(held, y) > Pos(held, ret)
           [] kind = "lifo" -> Pos(held, y) < Pos(held, ret)
           [] kind \in {"prio", "deadline"} ->
                 P[y] > P[ret] \/ (P[y] = P[ret] /\ Pos(held, y) > Pos(held, ret))
           [] kind \in {"fair", "wfair"} -> F[y] = F[ret] => Pos(held, y) > Pos(held, ret)
           [] OTHER -> TRUE

\* fair share (round robin): ov[g][f] = number of items of flow f handed out since flow g was
\* last served or became backlogged, counted only while g stays backlogged.  One round lets
\* flow f overtake a backlogged flow g at most weight(f) times.
FairShareOK(ov, W, NF) == \A g \in 1..NF, f \in 1..NF : ov[g][f] <= W[f]

\* ---- (e) ------------------------------------------------------------------
CapacityOK(len, cap) == len <= cap
Conserved(enq, deq, drp, heldN) == enq = deq + drp + heldN
=============================================================================
