------------------------------ MODULE QueuePipe ------------------------------
(* Implementation-shaped model of one queue-fronted worker of                  *)
(* happysimulator.components: Queue (queue.py) + QueueDriver (queue_driver.py) *)
(* + worker (QueuedResource adapter: Server with FixedConcurrency, or the      *)
(* ShiftedServer of industrial/shift_schedule.py), running on the engine's     *)
(* event heap, so that same-instant events are ordered by creation index as in *)
(* core/event.py (`(time, _sort_index)`).                                      *)
(*                                                                             *)
(* One action (branch of Step) per handler:                                    *)
(*   hop  harness forwarder entity: re-emits the item as a NEW event, same time *)
(*   off  QueuedResource.handle_event -> Queue._handle_enqueue (was_empty =>    *)
(*        QueueNotifyEvent); first event at a ShiftedServer also schedules the  *)
(*        next _ShiftChange (daemon)                                            *)
(*   ntf  QueueDriver._handle_notify   (target.has_capacity() => QueuePollEvent) *)
(*   pol  Queue._handle_poll           (policy.pop() => QueueDeliverEvent)       *)
(*   dlv  QueueDriver._handle_delivery (retarget the SAME payload event, which   *)
(*        keeps its original sort index, time = now, completion hook attached)   *)
(*   wrk  worker start: Server.handle_queued_event first segment (acquire or     *)
(*        count requests_rejected) / ShiftedServer (`_active += 1`)              *)
(*   res  generator resumes after the service time: release, completion hook     *)
(*        (has_capacity() => QueuePollEvent)                                     *)
(*   shf  ShiftedServer._handle_shift_change                                     *)
(*                                                                             *)
(* Dev = {} is the protocol as the contract needs it; the deviations describe   *)
(* what the pinned code does instead:                                           *)
(*  "poll_once_per_notify"   the driver polls once per notify / completion and   *)
(*        never again after a start, although capacity and work remain           *)
(*  "poll_ignores_inflight"  has_capacity() does not count polls / deliveries    *)
(*        still in the heap, so a notify-poll and a hook-poll can both be issued *)
(*        for one free slot                                                      *)
(*  "capacity_raise_no_wake" raising the limit does not wake the driver          *)
(*  "shifted_ignores_policy" ShiftedServer.__init__ says `policy or FIFOQueue()`: *)
(*        a policy object is falsy while empty, so the configured policy (order   *)
(*        and capacity) is replaced by an unbounded FIFO                          *)
EXTENDS QueueContract, TLC

CONSTANTS Dev,
          KeepLog,  \* FALSE: the ghost log stays empty (pure model checking)
          Kinds, Limits, Caps, Pols, NItems, Ticks, Hops, Svcs, Prios, ShiftTs, ShiftLs

VARIABLES sc,       \* scenario [wk, lim, cap, pol, arr : Seq([t,h,s,p]), sh : [t,l]]
          heap,     \* set of events [t, idx, k, i, h, d]
          ctr,      \* next sort index
          clock,
          pq,       \* ids held by the policy, acceptance order
          active,   \* concurrency_model.active / _active
          limit,    \* concurrency limit / _current_capacity
          inited,   \* ShiftedServer._initialized
          status,   \* ghost: item -> Statuses
          eidx,     \* sort index of the event object that carried item i into the component
          lpop,     \* ghost: limit in force when item i was dequeued
          log,      \* ghost: observable records <<op, item, t, active, limit, depth>>
          cnt,      \* [accepted, dropped, completed, rejected] as the components count them
          over,     \* ghost: some start broke clause (b)
          illegal,  \* ghost: some item made a move outside its life cycle (clause (a))
          misorder, \* ghost: some item left the queue out of the configured policy's order (d)
          fin       \* the run is over (no primary event left); marks terminal states in dumps
vars == <<sc, heap, ctr, clock, pq, active, limit, inited, status, eidx, lpop, log, cnt, over, illegal, misorder, fin>>

Has(d) == d \in Dev
N == Len(sc.arr)
Ev(t, idx, k, i, h, d) == [t |-> t, idx |-> idx, k |-> k, i |-> i, h |-> h, d |-> d]
Less(a, b) == a.t < b.t \/ (a.t = b.t /\ a.idx < b.idx)
MinEv == CHOOSE e \in heap : \A o \in heap : o = e \/ Less(e, o)
RunnableH(h) == { e \in h : ~e.d } # {}
Runnable == RunnableH(heap)    \* auto-termination: only daemon events left => stop
InS == { i \in 1..N : status[i] = "inservice" }

ArrRec == [t : Ticks, h : Hops, s : Svcs, p : Prios]
ScenarioSet ==
    { s \in [wk : Kinds, lim : Limits, cap : Caps, pol : Pols,
             arr : UNION { [1..n -> ArrRec] : n \in NItems }, sh : [t : ShiftTs, l : ShiftLs]] :
        /\ s.wk = "server" => s.sh = [t |-> 0, l |-> 0] /\ s.lim >= 1
        /\ s.wk = "shifted" => (\A j \in 1..Len(s.arr) : s.arr[j].s = s.arr[1].s) /\ (s.sh.t = 0 => s.sh.l = 0)
        /\ s.pol # "prio" => \A j \in 1..Len(s.arr) : s.arr[j].p = 0 }

\* machine start for a given scenario: every arrival event is created up front, in item order
Start(s) ==
    [heap |-> { Ev(s.arr[j].t, j - 1, IF s.arr[j].h > 0 THEN "hop" ELSE "off", j, s.arr[j].h, FALSE)
                : j \in 1..Len(s.arr) },
     ctr |-> Len(s.arr), limit |-> s.lim,
     status |-> [j \in 1..Len(s.arr) |-> "new"],
     zeros |-> [j \in 1..Len(s.arr) |-> 0],
     cnt |-> [accepted |-> 0, dropped |-> 0, completed |-> 0, rejected |-> 0]]
InitFor(s) ==
    /\ sc = s
    /\ heap = Start(s).heap /\ ctr = Start(s).ctr /\ clock = 0 /\ pq = <<>> /\ active = 0
    /\ limit = Start(s).limit /\ inited = FALSE
    /\ status = Start(s).status /\ eidx = Start(s).zeros /\ lpop = Start(s).zeros
    /\ log = <<>> /\ cnt = Start(s).cnt /\ over = FALSE /\ illegal = FALSE /\ misorder = FALSE
    /\ fin = ~RunnableH(Start(s).heap)
\* the same, as the post-state of an action (used by QueueTrace to load the next scenario)
LoadFor(s) ==
    /\ sc' = s
    /\ heap' = Start(s).heap /\ ctr' = Start(s).ctr /\ clock' = 0 /\ pq' = <<>> /\ active' = 0
    /\ limit' = Start(s).limit /\ inited' = FALSE
    /\ status' = Start(s).status /\ eidx' = Start(s).zeros /\ lpop' = Start(s).zeros
    /\ log' = <<>> /\ cnt' = Start(s).cnt /\ over' = FALSE /\ illegal' = FALSE /\ misorder' = FALSE
    /\ fin' = ~RunnableH(Start(s).heap)

Init == \E s \in ScenarioSet : InitFor(s)

\* polls, deliveries and work events of this pipeline that are still in the heap
Inflight(hp) == Cardinality({ e \in hp : e.k \in {"pol", "dlv", "wrk"} })
CanPoll(act, lim, hp) ==
    IF Has("poll_ignores_inflight") THEN act < lim ELSE act + Inflight(hp) < lim

Discarded == sc.wk = "shifted" /\ Has("shifted_ignores_policy")
EffPol == IF Discarded THEN "fifo" ELSE sc.pol       \* the policy object actually installed
EffCap == IF Discarded THEN Inf ELSE sc.cap
PrioOf == [j \in 1..N |-> sc.arr[j].p]
PopChoice(q) ==
    CASE EffPol = "fifo" -> q[1]
      [] EffPol = "lifo" -> q[Len(q)]
      [] EffPol = "prio" ->
            q[CHOOSE k \in 1..Len(q) : \A j \in 1..Len(q) :
                 sc.arr[q[k]].p < sc.arr[q[j]].p \/ (sc.arr[q[k]].p = sc.arr[q[j]].p /\ k <= j)]

Logged(op, i, t, a, l, d) == IF KeepLog THEN Append(log, <<op, i, t, a, l, d>>) ELSE log
Poll(t, idx) == Ev(t, idx, "pol", 0, 0, FALSE)
Move(i, to) == /\ status' = [status EXCEPT ![i] = to]
               /\ illegal' = (illegal \/ ~LegalMove(status[i], to))

Hop(e, hp) ==
    /\ heap' = hp \cup {Ev(e.t, ctr, IF e.h > 1 THEN "hop" ELSE "off", e.i, e.h - 1, FALSE)}
    /\ ctr' = ctr + 1
    /\ UNCHANGED <<pq, active, limit, inited, status, eidx, lpop, log, cnt, over, illegal, misorder>>

Off(e, hp) ==
    LET first == sc.wk = "shifted" /\ ~inited
        mkShift == first /\ sc.sh.t > 0 /\ e.t < sc.sh.t
        c0 == IF mkShift THEN ctr + 1 ELSE ctr
        shiftEv == IF mkShift THEN {Ev(sc.sh.t, ctr, "shf", 0, 0, TRUE)} ELSE {}
        wasEmpty == pq = <<>>
        full == Len(pq) >= EffCap
    IN /\ inited' = (inited \/ first)
       /\ eidx' = [eidx EXCEPT ![e.i] = e.idx]
       /\ IF full
          THEN /\ pq' = pq
               /\ Move(e.i, "rejected")
               /\ cnt' = [cnt EXCEPT !.dropped = @ + 1]
               /\ log' = Logged("rej", e.i, e.t, active, limit, Len(pq))
               /\ heap' = hp \cup shiftEv /\ ctr' = c0
          ELSE /\ pq' = Append(pq, e.i)
               /\ Move(e.i, "waiting")
               /\ cnt' = [cnt EXCEPT !.accepted = @ + 1]
               /\ log' = Logged("psh", e.i, e.t, active, limit, Len(pq) + 1)
               /\ heap' = hp \cup shiftEv \cup (IF wasEmpty THEN {Ev(e.t, c0, "ntf", 0, 0, FALSE)} ELSE {})
               /\ ctr' = IF wasEmpty THEN c0 + 1 ELSE c0
       /\ UNCHANGED <<active, limit, lpop, over, misorder>>

Ntf(e, hp) ==
    /\ IF CanPoll(active, limit, hp)
       THEN heap' = hp \cup {Poll(e.t, ctr)} /\ ctr' = ctr + 1
       ELSE heap' = hp /\ ctr' = ctr
    /\ UNCHANGED <<pq, active, limit, inited, status, eidx, lpop, log, cnt, over, illegal, misorder>>

Pol(e, hp) ==
    /\ IF pq = <<>>
       THEN /\ log' = Logged("pop0", 0, e.t, active, limit, 0)
            /\ heap' = hp /\ ctr' = ctr
            /\ UNCHANGED <<pq, status, lpop, illegal, misorder>>
       ELSE LET x == PopChoice(pq) IN
            /\ pq' = Remove(pq, x)
            /\ misorder' = (misorder \/ ~LeavesInOrder(sc.pol, pq, x, SeqSet(pq) \ {x}, PrioOf, PrioOf))
            /\ Move(x, "transit")
            /\ lpop' = [lpop EXCEPT ![x] = limit]
            /\ log' = Logged("pop", x, e.t, active, limit, Len(pq) - 1)
            /\ heap' = hp \cup {Ev(e.t, ctr, "dlv", x, 0, FALSE)} /\ ctr' = ctr + 1
    /\ UNCHANGED <<active, limit, inited, eidx, cnt, over>>

\* the payload event object is re-used: it keeps the sort index it was created with
Dlv(e, hp) ==
    /\ heap' = hp \cup {Ev(e.t, eidx[e.i], "wrk", e.i, 0, FALSE)}
    /\ UNCHANGED <<ctr, pq, active, limit, inited, status, eidx, lpop, log, cnt, over, illegal, misorder>>

Wrk(e, hp) ==
    IF sc.wk = "server" /\ active >= limit
    THEN \* acquire() failed after the dequeue: counted in requests_rejected, item discarded;
         \* the completion hook finds no capacity
         /\ Move(e.i, "rejected")
         /\ cnt' = [cnt EXCEPT !.rejected = @ + 1]
         /\ log' = Logged("rjq", e.i, e.t, active, limit, Len(pq))
         /\ heap' = hp /\ ctr' = ctr + 1
         /\ UNCHANGED <<pq, active, limit, inited, eidx, lpop, over, misorder>>
    ELSE LET repoll == ~Has("poll_once_per_notify") /\ pq # <<>> /\ CanPoll(active + 1, limit, hp) IN
         /\ active' = active + 1
         /\ Move(e.i, "inservice")
         /\ over' = (over \/ ~StartOK(Cardinality(InS) + 1, limit, lpop[e.i]))
         /\ log' = Logged("sta", e.i, e.t, active + 1, limit, Len(pq))
         /\ heap' = hp \cup {Ev(e.t + sc.arr[e.i].s, ctr, "res", e.i, 0, FALSE)}
                       \cup (IF repoll THEN {Poll(e.t, ctr + 1)} ELSE {})
         /\ ctr' = ctr + 2
         /\ UNCHANGED <<pq, limit, inited, eidx, lpop, cnt, misorder>>

Res(e, hp) ==
    /\ active' = active - 1
    /\ Move(e.i, "done")
    /\ cnt' = [cnt EXCEPT !.completed = @ + 1]
    /\ log' = Logged("fin", e.i, e.t, active - 1, limit, Len(pq))
    /\ IF CanPoll(active - 1, limit, hp)
       THEN heap' = hp \cup {Poll(e.t, ctr)} /\ ctr' = ctr + 1
       ELSE heap' = hp /\ ctr' = ctr
    /\ UNCHANGED <<pq, limit, inited, eidx, lpop, over, misorder>>

Shf(e, hp) ==
    LET wake == ~Has("capacity_raise_no_wake") /\ pq # <<>> /\ CanPoll(active, sc.sh.l, hp) IN
    /\ limit' = sc.sh.l
    /\ log' = Logged("lim", 0, e.t, active, sc.sh.l, Len(pq))
    /\ IF wake THEN heap' = hp \cup {Poll(e.t, ctr)} /\ ctr' = ctr + 1
       ELSE heap' = hp /\ ctr' = ctr
    /\ UNCHANGED <<pq, active, inited, status, eidx, lpop, cnt, over, illegal, misorder>>

Step ==
    /\ Runnable
    /\ LET e == MinEv
           hp == heap \ {e}
       IN /\ clock' = e.t
          /\ CASE e.k = "hop" -> Hop(e, hp)
               [] e.k = "off" -> Off(e, hp)
               [] e.k = "ntf" -> Ntf(e, hp)
               [] e.k = "pol" -> Pol(e, hp)
               [] e.k = "dlv" -> Dlv(e, hp)
               [] e.k = "wrk" -> Wrk(e, hp)
               [] e.k = "res" -> Res(e, hp)
               [] e.k = "shf" -> Shf(e, hp)
    /\ fin' = ~RunnableH(heap')
    /\ UNCHANGED sc

Next == Step
Spec == Init /\ [][Next]_vars
FairSpec == Spec /\ WF_vars(Step)

\* ---- contract (C08) on the model's observable state ---------------------------
With(s) == { i \in 1..N : status[i] = s }
Count(op, i) == Cardinality({ k \in 1..Len(log) : log[k][1] = op /\ log[k][2] = i })

\* (a) every offered item is in exactly one class, and the published counters agree with it
InvPartition ==
    /\ cnt.accepted + cnt.dropped = N - Cardinality(With("new"))
    /\ SeqSet(pq) = With("waiting") /\ Len(pq) = Cardinality(With("waiting"))
    /\ active = Cardinality(InS)
    /\ cnt.completed = Cardinality(With("done"))
    /\ Counted(Cardinality(With("rejected")), cnt.dropped + cnt.rejected)
    /\ Cardinality(With("transit")) = Cardinality({ e \in heap : e.k \in {"dlv", "wrk"} })
InvOnce == ~illegal /\ (KeepLog => \A i \in 1..N : Count("sta", i) <= 1 /\ Count("fin", i) <= 1 /\ Count("pop", i) <= 1)
\* (d) order of the configured policy, (e) its capacity
InvOrder == ~misorder
InvCapacity == CapacityOK(Len(pq), sc.cap)
\* (b)
InvLimit == ~over
\* (c) time is about to advance (or the run is over for good) => nobody waits next to a free slot
InvNoIdleWait ==
    (~Runnable \/ MinEv.t > clock) => ~IdleWait(Len(pq), Cardinality(InS), limit)
\* nothing is lost: when the run is over every item is rejected, done, or still queued
InvNoLoss == ~Runnable => \A i \in 1..N : status[i] \in {"rejected", "done", "waiting"}
\* the Server never admits beyond its limit, whatever the driver does (as-code property)
InvServerWithinLimit == sc.wk = "server" => active <= limit
\* liveness form of "never strand work" (Server: the limit is constant and >= 1)
Settles == <>[](\A i \in 1..N : status[i] \in {"rejected", "done"})
=============================================================================
