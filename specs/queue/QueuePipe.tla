------------------------------ MODULE QueuePipe ------------------------------
(* Implementation-shaped model of one queue-fronted worker of                  *)
(* happysimulator.components: Queue (queue.py) + QueueDriver (queue_driver.py) *)
(* + worker (QueuedResource adapter: Server with FixedConcurrency, or the      *)
(* ShiftedServer of industrial/shift_schedule.py), running on the engine's     *)
(* event heap, so that same-instant events are ordered by creation index as in *)
(* core/event.py (`(time, _sort_index)`).                                      *)
(*                                                                             *)
(* The machine state is one record m; StepF(s, m) pops the earliest event and   *)
(* runs its handler.  One branch of StepF per handler:                          *)
(*   hop  harness forwarder entity: re-emits the item as a NEW event, same time *)
(*   off  QueuedResource.handle_event -> Queue._handle_enqueue (was_empty =>    *)
(*        QueueNotifyEvent); first event at a ShiftedServer also schedules the  *)
(*        next _ShiftChange (daemon)                                            *)
(*   ntf  QueueDriver._handle_notify   (target.has_capacity() => QueuePollEvent) *)
(*   pol  Queue._handle_poll           (policy.pop() => QueueDeliverEvent)       *)
(*   dlv  QueueDriver._handle_delivery (retarget the SAME payload event, which   *)
(*        keeps its original sort index, time = now, completion hook attached)   *)
(*   wrk  worker start: Server.handle_queued_event first segment (acquire or     *)
(*        count requests_rejected) / ShiftedServer (`_active += 1`)              *)
(*   res  generator resumes after the service time: release, completion hook     *)
(*        (has_capacity() => QueuePollEvent)                                     *)
(*   shf  ShiftedServer._handle_shift_change                                     *)
(*                                                                             *)
(* Dev = {} is the repaired protocol (see reports/fixes/C08_*.diff): the driver  *)
(* keeps at most one poll in flight (sent -> fetched item started at the target, *)
(* or the queue answered with an empty delivery), re-checks after every start    *)
(* through a self-notification emitted behind the forwarded payload, and a shift *)
(* change that adds capacity notifies the driver.  The deviations describe what  *)
(* the pinned code does instead (with exactly one of the first two switched on   *)
(* the other half is modelled by counting the events in flight / by a re-poll at *)
(* the start, which is enough to show that each alone breaks the contract):      *)
(*  "poll_once_per_notify"   the driver polls once per notify / completion and   *)
(*        never again after a start, although capacity and work remain           *)
(*  "poll_ignores_inflight"  has_capacity() does not count polls / deliveries    *)
(*        still in the heap, so a notify-poll and a hook-poll can both be issued *)
(*        for one free slot                                                      *)
(*  "capacity_raise_no_wake" a shift change that raises the capacity does not    *)
(*        wake the driver                                                        *)
(*  "set_limit_no_wake"      neither does DynamicConcurrency.set_limit (a passive *)
(*        object without any reference to the driver)                            *)
(*  "shifted_ignores_policy" ShiftedServer.__init__ says `policy or FIFOQueue()`: *)
(*        a policy object is falsy while empty, so the configured policy (order   *)
(*        and capacity) is replaced by an unbounded FIFO                          *)
EXTENDS Policies, TLC

CONSTANTS Dev,      \* (PDev of Policies.tla stays {} here)
          KeepLog,  \* FALSE: the ghost log stays empty (pure model checking)
          Kinds, Limits, Caps, Pols, NItems, Ticks, Hops, Svcs, Prios, Flows, ShiftTs, ShiftLs, Dyns

VARIABLES sc,       \* scenario [wk, lim, prm (policy parameters, see Policies.tla), W (flow weights),
                    \*           arr : Seq([t,h,s,p,f]), sh : [t,l] (one shift change, ShiftedServer),
                    \*           dyn : Seq([t,l]) (set_limit calls on a Server's DynamicConcurrency),
                    \*           rt (1: the forwarders re-emit the same event object),
                    \*           endt (0: no end_time, the run stops when only daemon events are left;
                    \*                 > 0: end_time, every event up to that instant is delivered)]
          m         \* machine state, a record:
                    \*   heap     set of events [t, idx, k, i, h, d]
                    \*   ctr      next sort index            clock
                    \*   ps       state of the installed policy (Policies.tla); ps.h = ids held, acceptance order
                    \*   active   concurrency_model.active / _active
                    \*   limit    concurrency limit / _current_capacity
                    \*   inited   ShiftedServer._initialized
                    \*   eidx     sort index of the event object that carried item i into the component
                    \*   cnt      [accepted, dropped, completed, rejected] as the components count them
                    \*  ghosts:
                    \*   status   item -> Statuses         lpop  limit in force when item i was dequeued
                    \*   log      observable records <<op, item, t, active, limit, depth>>
                    \*   over     some start broke clause (b)
                    \*   illegal  some item made a move outside its life cycle (clause (a))
                    \*   misorder some item left the queue out of the configured policy's order (d)
                    \*   fin      the run is over (no primary event left); marks terminal states in dumps
vars == <<sc, m>>

Has(d) == d \in Dev
Ev(t, idx, k, i, h, d) == [t |-> t, idx |-> idx, k |-> k, i |-> i, h |-> h, d |-> d]
Less(a, b) == a.t < b.t \/ (a.t = b.t /\ a.idx < b.idx)
MinOf(hp) == CHOOSE e \in hp : \A o \in hp : o = e \/ Less(e, o)
RunnableH(hp) == { e \in hp : ~e.d } # {}     \* auto-termination: only daemon events left => stop
\* the engine keeps popping: without end_time while a primary event is left, with end_time while an
\* event not later than it is left (the one later event the loop still delivers is not observed)
AliveH(s, hp) == IF s.endt = 0 THEN RunnableH(hp) ELSE hp # {} /\ MinOf(hp).t <= s.endt
InSOf(mm) == { i \in DOMAIN mm.status : mm.status[i] = "inservice" }

ArrRec == [t : Ticks, h : Hops, s : Svcs, p : Prios, f : Flows]
NFl == Cardinality(Flows)
PrmOf(k, c) == [kind |-> k, cap |-> c, pfc |-> Inf, mxf |-> Inf, thr |-> Inf, bm |-> 0]
ScenarioSet ==
    { s \in [wk : Kinds, lim : Limits, prm : { PrmOf(k, c) : k \in Pols, c \in Caps }, W : {[f \in 1..NFl |-> 1]},
             arr : UNION { [1..n -> ArrRec] : n \in NItems }, sh : [t : ShiftTs, l : ShiftLs],
             dyn : Dyns, rt : {0}, endt : {0}] :
        /\ s.wk = "server" => s.sh = [t |-> 0, l |-> 0] /\ s.lim >= 1
        /\ s.wk = "shifted" => (\A j \in 1..Len(s.arr) : s.arr[j].s = s.arr[1].s) /\ (s.sh.t = 0 => s.sh.l = 0)
                               /\ s.dyn = <<>>
        /\ s.prm.kind \notin {"prio", "deadline"} => \A j \in 1..Len(s.arr) : s.arr[j].p = 0
        /\ s.prm.kind \notin {"fair", "wfair"} => \A j \in 1..Len(s.arr) : s.arr[j].f = 1 }

\* machine start for a given scenario: every arrival event is created up front, in item order, then the
\* set_limit events (daemon)
Start(s) ==
    LET n == Len(s.arr)
        hp == { Ev(s.arr[j].t, j - 1, IF s.arr[j].h > 0 THEN "hop" ELSE "off", j, s.arr[j].h, FALSE) : j \in 1..n }
              \cup { Ev(s.dyn[k].t, n + k - 1, "dyn", 0, k, TRUE) : k \in 1..Len(s.dyn) }
        zeros == [j \in 1..n |-> 0]
    IN [heap |-> hp, ctr |-> n + Len(s.dyn), clock |-> 0, ps |-> PInit(Len(s.W)), active |-> 0, limit |-> s.lim,
        inited |-> FALSE, status |-> [j \in 1..n |-> "new"], eidx |-> zeros, lpop |-> zeros,
        log |-> <<>>, cnt |-> [accepted |-> 0, dropped |-> 0, completed |-> 0, rejected |-> 0],
        over |-> FALSE, illegal |-> FALSE, misorder |-> FALSE, fin |-> ~AliveH(s, hp),
        pif |-> FALSE, rchk |-> -1]       \* repaired driver: poll in flight, index of its pending re-check

NoDyn == {<<>>}
OneRaise == {<<[t |-> 1, l |-> 2]>>}       \* set_limit(2) at tick 1
Init == \E s \in ScenarioSet : sc = s /\ m = Start(s)

\* polls, deliveries and work events of this pipeline that are still in the heap
Inflight(hp) == Cardinality({ e \in hp : e.k \in {"pol", "dlv", "wrk"} })
CanPoll(act, lim, hp) ==
    IF Has("poll_ignores_inflight") THEN act < lim ELSE act + Inflight(hp) < lim
\* both driver defects repaired: QueueDriver._poll_if_ready with the _poll_in_flight flag
DriverFixed == ~Has("poll_once_per_notify") /\ ~Has("poll_ignores_inflight")
\* mm with the poll appended (or unchanged): act/lim are the values has_capacity() sees
PollIfReady(mm, hp, t, act, lim) ==
    IF DriverFixed
    THEN IF ~mm.pif /\ act < lim
         THEN [mm EXCEPT !.heap = hp \cup {Ev(t, mm.ctr, "pol", 0, 0, FALSE)}, !.ctr = @ + 1, !.pif = TRUE]
         ELSE [mm EXCEPT !.heap = hp]
    ELSE IF CanPoll(act, lim, hp)
         THEN [mm EXCEPT !.heap = hp \cup {Ev(t, mm.ctr, "pol", 0, 0, FALSE)}, !.ctr = @ + 1]
         ELSE [mm EXCEPT !.heap = hp]

Discarded(s) == s.wk = "shifted" /\ Has("shifted_ignores_policy")
\* parameters of the policy object actually installed
EffPrm(s) == IF Discarded(s) THEN [s.prm EXCEPT !.kind = "fifo", !.cap = Inf, !.thr = Inf] ELSE s.prm
POf(s) == [j \in 1..Len(s.arr) |-> s.arr[j].p]
FOf(s) == [j \in 1..Len(s.arr) |-> s.arr[j].f]
Depth(mm) == Len(mm.ps.h)

Logged(mm, op, i, t, a, l, d) == IF KeepLog THEN Append(mm.log, <<op, i, t, a, l, d>>) ELSE mm.log
Poll(t, idx) == Ev(t, idx, "pol", 0, 0, FALSE)
\* life-cycle move of item i (ghost)
Moved(mm, i, to) == [mm EXCEPT !.status[i] = to, !.illegal = @ \/ ~LegalMove(mm.status[i], to)]

\* forwarder: a new event (next sort index), or with rt = 1 the same event object (index kept)
HopF(s, mm, e, hp) ==
    IF s.rt = 1
    THEN [mm EXCEPT !.heap = hp \cup {Ev(e.t, e.idx, IF e.h > 1 THEN "hop" ELSE "off", e.i, e.h - 1, FALSE)}]
    ELSE [mm EXCEPT !.heap = hp \cup {Ev(e.t, mm.ctr, IF e.h > 1 THEN "hop" ELSE "off", e.i, e.h - 1, FALSE)},
                    !.ctr = @ + 1]

OffF(s, mm, e, hp) ==
    LET first == s.wk = "shifted" /\ ~mm.inited
        mkShift == first /\ s.sh.t > 0 /\ e.t < s.sh.t
        c0 == IF mkShift THEN mm.ctr + 1 ELSE mm.ctr
        shiftEv == IF mkShift THEN {Ev(s.sh.t, mm.ctr, "shf", 0, 0, TRUE)} ELSE {}
        wasEmpty == mm.ps.h = <<>>
        r == PPush(EffPrm(s), s.W, mm.ps, e.i, FOf(s), FALSE)
        m1 == [mm EXCEPT !.inited = @ \/ first, !.eidx[e.i] = e.idx, !.ps = r.st]
    IN IF ~r.acc
       THEN [Moved(m1, e.i, "rejected") EXCEPT
                !.cnt.dropped = @ + 1,
                !.log = Logged(mm, "rej", e.i, e.t, mm.active, mm.limit, Depth(mm)),
                !.heap = hp \cup shiftEv, !.ctr = c0]
       ELSE [Moved(m1, e.i, "waiting") EXCEPT
                !.cnt.accepted = @ + 1,
                !.log = Logged(mm, "psh", e.i, e.t, mm.active, mm.limit, Depth(mm) + 1),
                !.heap = hp \cup shiftEv \cup (IF wasEmpty THEN {Ev(e.t, c0, "ntf", 0, 0, FALSE)} ELSE {}),
                !.ctr = IF wasEmpty THEN c0 + 1 ELSE c0]

\* a notification from the queue (h = 0) or the driver's own re-check behind a forwarded payload (h = 1)
NtfF(s, mm, e, hp) ==
    LET m1 == IF DriverFixed /\ e.h = 1 /\ e.idx = mm.rchk THEN [mm EXCEPT !.pif = FALSE, !.rchk = -1] ELSE mm
    IN PollIfReady(m1, hp, e.t, mm.active, mm.limit)

\* policy.pop(): may discard expired entries (DeadlineQueue), which the policy counts itself (ps.x)
PolF(s, mm, e, hp) ==
    LET r == PPop(EffPrm(s), s.W, mm.ps, POf(s), FOf(s), e.t)
        x == r.ret
        st1 == [j \in DOMAIN mm.status |-> IF j \in r.gone THEN "rejected" ELSE mm.status[j]]
        m1 == [mm EXCEPT !.ps = r.st, !.status = st1]
    IN IF x = 0
       THEN [m1 EXCEPT !.log = Logged(mm, "pop0", 0, e.t, mm.active, mm.limit, Len(r.st.h)),
                       \* repaired queue: an empty delivery settles the poll
                       !.heap = IF DriverFixed THEN hp \cup {Ev(e.t, mm.ctr, "dlv", 0, 0, FALSE)} ELSE hp,
                       !.ctr = IF DriverFixed THEN @ + 1 ELSE @]
       ELSE [Moved(m1, x, "transit") EXCEPT
                !.misorder = @ \/ ~LeavesInOrder(s.prm.kind, mm.ps.h, x, SeqSet(r.st.h), POf(s), FOf(s)),
                !.lpop[x] = mm.limit,
                !.log = Logged(mm, "pop", x, e.t, mm.active, mm.limit, Len(r.st.h)),
                !.heap = hp \cup {Ev(e.t, mm.ctr, "dlv", x, 0, FALSE)}, !.ctr = @ + 1]

\* the payload event object is re-used: it keeps the sort index it was created with
DlvF(s, mm, e, hp) ==
    IF e.i = 0 THEN [mm EXCEPT !.heap = hp, !.pif = FALSE]
    ELSE IF DriverFixed
    THEN [mm EXCEPT !.heap = hp \cup {Ev(e.t, mm.eidx[e.i], "wrk", e.i, 0, FALSE), Ev(e.t, mm.ctr, "ntf", 0, 1, FALSE)},
                    !.rchk = mm.ctr, !.ctr = @ + 1]
    ELSE [mm EXCEPT !.heap = hp \cup {Ev(e.t, mm.eidx[e.i], "wrk", e.i, 0, FALSE)}]

WrkF(s, mm, e, hp) ==
    IF s.wk = "server" /\ mm.active >= mm.limit
    THEN \* acquire() failed after the dequeue: counted in requests_rejected, item discarded;
         \* the completion hook finds no capacity
         [Moved(mm, e.i, "rejected") EXCEPT
             !.cnt.rejected = @ + 1,
             !.log = Logged(mm, "rjq", e.i, e.t, mm.active, mm.limit, Depth(mm)),
             !.heap = hp, !.ctr = @ + 1]
    ELSE LET repoll == ~DriverFixed /\ ~Has("poll_once_per_notify") /\ mm.ps.h # <<>>
                       /\ CanPoll(mm.active + 1, mm.limit, hp) IN
         [Moved(mm, e.i, "inservice") EXCEPT
             !.active = @ + 1,
             !.over = @ \/ ~StartOK(Cardinality(InSOf(mm)) + 1, mm.limit, mm.lpop[e.i]),
             !.log = Logged(mm, "sta", e.i, e.t, mm.active + 1, mm.limit, Depth(mm)),
             !.heap = hp \cup {Ev(e.t + s.arr[e.i].s, mm.ctr, "res", e.i, 0, FALSE)}
                         \cup (IF repoll THEN {Poll(e.t, mm.ctr + 1)} ELSE {}),
             !.ctr = @ + 2]

ResF(s, mm, e, hp) ==
    LET m1 == [Moved(mm, e.i, "done") EXCEPT
                  !.active = @ - 1,
                  !.cnt.completed = @ + 1,
                  !.log = Logged(mm, "fin", e.i, e.t, mm.active - 1, mm.limit, Depth(mm))]
    IN PollIfReady(m1, hp, e.t, mm.active - 1, mm.limit)

\* repaired: added capacity with work queued => QueueNotifyEvent to the driver
Wake(mm, hp, t, nl, off) ==
    LET wake == off /\ nl > mm.limit /\ mm.ps.h # <<>> IN
    [mm EXCEPT
        !.limit = nl,
        !.log = IF nl # mm.limit THEN Logged(mm, "lim", 0, t, mm.active, nl, Depth(mm)) ELSE @,
        !.heap = IF wake THEN hp \cup {Ev(t, mm.ctr, "ntf", 0, 0, FALSE)} ELSE hp,
        !.ctr = IF wake THEN @ + 1 ELSE @]

ShfF(s, mm, e, hp) == Wake(mm, hp, e.t, s.sh.l, ~Has("capacity_raise_no_wake"))

\* harness entity calling DynamicConcurrency.set_limit (Server); same wake-up question as a shift change
DynF(s, mm, e, hp) == Wake(mm, hp, e.t, s.dyn[e.h].l, ~Has("set_limit_no_wake"))

\* pop the earliest event (time, then creation index) and run its handler
StepF(s, mm) ==
    LET e == MinOf(mm.heap)
        hp == mm.heap \ {e}
        m0 == [mm EXCEPT !.clock = e.t]
        r == CASE e.k = "hop" -> HopF(s, m0, e, hp)
               [] e.k = "off" -> OffF(s, m0, e, hp)
               [] e.k = "ntf" -> NtfF(s, m0, e, hp)
               [] e.k = "pol" -> PolF(s, m0, e, hp)
               [] e.k = "dlv" -> DlvF(s, m0, e, hp)
               [] e.k = "wrk" -> WrkF(s, m0, e, hp)
               [] e.k = "res" -> ResF(s, m0, e, hp)
               [] e.k = "shf" -> ShfF(s, m0, e, hp)
               [] e.k = "dyn" -> DynF(s, m0, e, hp)
    IN [r EXCEPT !.fin = ~AliveH(s, r.heap)]

\* the whole run in one evaluation (used by QueueTrace.tla)
RECURSIVE RunAll(_, _)
RunAll(s, mm) == IF AliveH(s, mm.heap) THEN RunAll(s, StepF(s, mm)) ELSE mm

Runnable == AliveH(sc, m.heap)
Step == Runnable /\ m' = StepF(sc, m) /\ UNCHANGED sc
Next == Step
Spec == Init /\ [][Next]_vars
FairSpec == Spec /\ WF_vars(Step)

\* ---- contract (C08) on the model's observable state ---------------------------
N == Len(sc.arr)
InS == InSOf(m)
With(st) == { i \in 1..N : m.status[i] = st }
Count(op, i) == Cardinality({ k \in 1..Len(m.log) : m.log[k][1] = op /\ m.log[k][2] = i })

\* (a) every offered item is in exactly one class, and the published counters agree with it
InvPartition ==
    /\ m.cnt.accepted + m.cnt.dropped = N - Cardinality(With("new"))
    /\ SeqSet(m.ps.h) = With("waiting") /\ Len(m.ps.h) = Cardinality(With("waiting"))
    /\ m.active = Cardinality(InS)
    /\ m.cnt.completed = Cardinality(With("done"))
    /\ Counted(Cardinality(With("rejected")), m.cnt.dropped + m.cnt.rejected + m.ps.x)
    /\ Cardinality(With("transit")) = Cardinality({ e \in m.heap : e.k \in {"dlv", "wrk"} /\ e.i # 0 })
InvOnce == ~m.illegal /\ (KeepLog => \A i \in 1..N : Count("sta", i) <= 1 /\ Count("fin", i) <= 1 /\ Count("pop", i) <= 1)
\* (d) order of the configured policy, (e) its capacity
InvOrder == ~m.misorder
InvCapacity == CapacityOK(Len(m.ps.h), sc.prm.cap)
\* (b)
InvLimit == ~m.over
\* (c) time is about to advance (or the run is over for good) => nobody waits next to a free slot
\* (deadline policy: only entries still valid at the next instant count as waiting)
ServableAt(t) == IF sc.prm.kind = "deadline"
                 THEN Cardinality({ k \in 1..Len(m.ps.h) : sc.arr[m.ps.h[k]].p >= t }) ELSE Len(m.ps.h)
InvNoIdleWait ==
    /\ (Runnable /\ MinOf(m.heap).t > m.clock) => ~IdleWait(ServableAt(MinOf(m.heap).t), Cardinality(InS), m.limit)
    /\ ~Runnable => ~IdleWait(ServableAt(m.clock), Cardinality(InS), m.limit)
\* nothing is lost: when the run is over every item is rejected, done, or still queued
InvNoLoss == ~Runnable => \A i \in 1..N : m.status[i] \in {"rejected", "done", "waiting"}
\* the Server never admits beyond its limit, whatever the driver does (as-code property)
InvServerWithinLimit == sc.wk = "server" => m.active <= m.limit
\* liveness form of "never strand work" (Server: the limit is constant and >= 1)
Settles == <>[](\A i \in 1..N : m.status[i] \in {"rejected", "done"})
=============================================================================
