------------------------------ MODULE Policies ------------------------------
(* Implementation-shaped sequence machines of the queue policies of            *)
(* happysimulator.components.queue_policy / queue_policies / industrial.balking *)
(* One operator per public call (push / pop), same bookkeeping as the code:    *)
(*   FIFOQueue, LIFOQueue  : deque, capacity test `len >= capacity` on push    *)
(*   PriorityQueue         : heap of (priority, insert_order)  -> stable       *)
(*   DeadlineQueue         : heap of (deadline_ns, insert_order); pop discards *)
(*                           every entry with deadline < now, counting expired *)
(*   FairQueue             : OrderedDict flow -> deque; pop serves the first   *)
(*                           flow, moves it to the end, deletes it when empty  *)
(*   WeightedFairQueue     : same with credits (deficit round robin)           *)
(*   BalkingQueue          : wrapper, rejects when inner depth >= threshold    *)
(* A policy state is [h, fl, cr, x, b]:                                        *)
(*   h  ids held, in acceptance order      fl active flows in round-robin order *)
(*   cr credits per flow (wfair)           x  drops the policy reports itself   *)
(*   b  balked count                                                            *)
(* Parameters prm = [kind, cap, pfc, mxf, thr, bm]; W = weights per flow.       *)
(* PDev holds hypothetical deviations used only to show that the contract      *)
(* invariants of PoliciesMC are not vacuous.                                    *)
EXTENDS QueueContract

CONSTANT PDev

CountF(h, F, f) == Cardinality({ k \in 1..Len(h) : F[h[k]] = f })
FirstOf(h, F, f) == h[CHOOSE k \in 1..Len(h) : F[h[k]] = f /\ \A j \in 1..(k - 1) : F[h[j]] # f]
\* heap order (value, insertion position); "prio_unstable" breaks ties the wrong way round
MinBy(s, P) ==
    LET k == CHOOSE k \in 1..Len(s) : \A j \in 1..Len(s) :
                 P[s[k]] < P[s[j]] \/ (P[s[k]] = P[s[j]] /\
                    (IF "prio_unstable" \in PDev THEN k >= j ELSE k <= j))
    IN s[k]

PInit(nf) == [h |-> <<>>, fl |-> <<>>, cr |-> [f \in 1..nf |-> 0], x |-> 0, b |-> 0]

Wt(W, f) == IF W[f] < 1 THEN 1 ELSE W[f]

\* ---- push: returns [st, acc, balk] ------------------------------------------
InnerPush(prm, W, st, i, F) ==
    LET k == prm.kind
        f == F[i]
        no == [st |-> st, acc |-> FALSE]
        capLim == IF "cap_off_by_one" \in PDev THEN prm.cap + 1 ELSE prm.cap
    IN
    IF k \in {"fifo", "lifo", "prio", "deadline"} THEN
        IF Len(st.h) >= capLim THEN no
        ELSE [st |-> [st EXCEPT !.h = Append(@, i)], acc |-> TRUE]
    ELSE IF k = "fair" THEN
        IF ~InSeq(st.fl, f) /\ prm.mxf # Inf /\ Len(st.fl) >= prm.mxf THEN no
        ELSE IF CountF(st.h, F, f) >= prm.pfc THEN no
        ELSE [st |-> [st EXCEPT !.h = Append(@, i),
                                !.fl = IF InSeq(st.fl, f) THEN @ ELSE Append(@, f)],
              acc |-> TRUE]
    ELSE \* wfair
        IF Len(st.h) >= capLim THEN no
        ELSE IF CountF(st.h, F, f) >= prm.pfc THEN no
        ELSE [st |-> [st EXCEPT !.h = Append(@, i),
                                !.fl = IF InSeq(st.fl, f) THEN @ ELSE Append(@, f),
                                !.cr = IF InSeq(st.fl, f) THEN @ ELSE [@ EXCEPT ![f] = Wt(W, f)]],
              acc |-> TRUE]

\* BalkingQueue.push; bm = 0: balk_probability 0.0, 1: 1.0 (deterministic).  bm = 2 (random) is
\* resolved by the caller with the observed outcome `balks`.
PPush(prm, W, st, i, F, balks) ==
    IF prm.thr # Inf /\ Len(st.h) >= prm.thr /\ (prm.bm = 1 \/ (prm.bm = 2 /\ balks))
    THEN [st |-> [st EXCEPT !.b = @ + 1], acc |-> FALSE]
    ELSE InnerPush(prm, W, st, i, F)

\* ---- pop: returns [st, ret, gone]  (ret = 0: None; gone = ids discarded by the policy) ------
PPop(prm, W, st, P, F, now) ==
    LET k == prm.kind
        none == [st |-> st, ret |-> 0, gone |-> {}]
    IN
    IF k = "fifo" THEN
        IF st.h = <<>> THEN none
        ELSE [st |-> [st EXCEPT !.h = Tail(@)], ret |-> st.h[1], gone |-> {}]
    ELSE IF k = "lifo" THEN
        IF st.h = <<>> THEN none
        ELSE [st |-> [st EXCEPT !.h = SubSeq(@, 1, Len(@) - 1)], ret |-> st.h[Len(st.h)], gone |-> {}]
    ELSE IF k = "prio" THEN
        IF st.h = <<>> THEN none
        ELSE LET r == MinBy(st.h, P) IN [st |-> [st EXCEPT !.h = Remove(@, r)], ret |-> r, gone |-> {}]
    ELSE IF k = "deadline" THEN
        LET live == SelectSeq(st.h, LAMBDA y : P[y] >= now)
            ex == { y \in SeqSet(st.h) : P[y] < now }
            nx == IF "expired_not_counted" \in PDev THEN st.x ELSE st.x + Cardinality(ex)
        IN IF live = <<>> THEN [st |-> [st EXCEPT !.h = <<>>, !.x = nx], ret |-> 0, gone |-> ex]
           ELSE LET r == MinBy(live, P)
                IN [st |-> [st EXCEPT !.h = Remove(live, r), !.x = nx], ret |-> r, gone |-> ex]
    ELSE IF k = "fair" THEN
        IF st.fl = <<>> THEN none
        ELSE LET f == st.fl[1]
                 r == FirstOf(st.h, F, f)
                 h1 == Remove(st.h, r)
                 fl1 == IF CountF(h1, F, f) > 0
                        THEN (IF "fair_no_rotate" \in PDev THEN st.fl ELSE Append(Tail(st.fl), f))
                        ELSE Tail(st.fl)
             IN [st |-> [st EXCEPT !.h = h1, !.fl = fl1], ret |-> r, gone |-> {}]
    ELSE \* wfair
        IF st.fl = <<>> THEN none
        ELSE LET f == st.fl[1]
                 r == FirstOf(st.h, F, f)
                 h1 == Remove(st.h, r)
                 c1 == st.cr[f] - 1
                 exhausted == c1 <= 0
                 fl1 == IF exhausted THEN Append(Tail(st.fl), f) ELSE st.fl
                 cr1 == [st.cr EXCEPT ![f] = IF exhausted THEN Wt(W, f) ELSE c1]
                 fl2 == IF CountF(h1, F, f) > 0 THEN fl1 ELSE Remove(fl1, f)
             IN [st |-> [st EXCEPT !.h = h1, !.fl = fl2, !.cr = cr1], ret |-> r, gone |-> {}]

\* ---- contract ghost for fair share: ov[g][f] ----------------------------------------------
OvInit(nf) == [g \in 1..nf |-> [f \in 1..nf |-> 0]]
\* after handing out item r of flow fr; hBefore = held before the pop, hAfter = after
OvPop(ov, nf, F, fr, hBefore, hAfter) ==
    [g \in 1..nf |->
        IF g = fr \/ CountF(hBefore, F, g) = 0 THEN [f \in 1..nf |-> 0]
        ELSE [f \in 1..nf |-> IF f = fr THEN ov[g][f] + 1 ELSE ov[g][f]]]
\* after accepting an item of flow fp into held hBefore
OvPush(ov, nf, F, fp, hBefore) ==
    [g \in 1..nf |-> IF g = fp /\ CountF(hBefore, F, g) = 0 THEN [f \in 1..nf |-> 0] ELSE ov[g]]
=============================================================================
