----------------------------- MODULE PoliciesMC -----------------------------
(* Exhaustive exploration of the policy machines of Policies.tla under every  *)
(* push / pop / tick sequence of bounded length, with the C08 policy clauses   *)
(* (d) order, fair share and (e) capacity, conservation as invariants.         *)
(* `hist` records each call and its result; maximal histories are replayed on  *)
(* the real policy objects by harness/families/c08.py (spec -> code).          *)
EXTENDS Policies, TLC

CONSTANTS MaxOps,     \* number of calls in one history
          MaxP,       \* priorities / deadlines 0..MaxP
          NF,         \* flows 1..NF
          MaxNow,     \* clock range for the deadline policy
          ParamSet,   \* policy configurations explored
          WSet        \* weight vectors (wfair)

VARIABLES prm, W, st, P, F, now, hist, n, enq, deq, ov, bad
vars == <<prm, W, st, P, F, now, hist, n, enq, deq, ov, bad>>

Ones == [f \in 1..NF |-> 1]
\* capacity as the policy object reports it (FairQueue: max_flows * per_flow_capacity)
RepCap(p) == IF p.kind = "fair"
             THEN (IF p.mxf = Inf \/ p.pfc = Inf THEN Inf ELSE p.mxf * p.pfc)
             ELSE p.cap

Init ==
    /\ prm \in ParamSet
    /\ W \in (IF prm.kind = "wfair" THEN WSet ELSE {Ones})
    /\ st = PInit(NF) /\ P = <<>> /\ F = <<>> /\ now = 0 /\ hist = <<>> /\ n = 0
    /\ enq = 0 /\ deq = 0 /\ ov = OvInit(NF) /\ bad = ""

Flowed == prm.kind \in {"fair", "wfair"}
Valued == prm.kind \in {"prio", "deadline"}

Push(p, f) ==
    /\ n < MaxOps
    /\ (Valued \/ p = 0) /\ (Flowed \/ f = 1)
    /\ LET i == Len(P) + 1
           P1 == Append(P, p)
           F1 == Append(F, f)
           r == PPush(prm, W, st, i, F1, FALSE)
       IN /\ P' = P1 /\ F' = F1 /\ st' = r.st
          /\ enq' = IF r.acc THEN enq + 1 ELSE enq
          /\ ov' = IF r.acc /\ Flowed THEN OvPush(ov, NF, F1, f, st.h) ELSE ov
          /\ hist' = Append(hist, <<"psh", p, f, IF r.acc THEN 1 ELSE 0, Len(r.st.h)>>)
    /\ n' = n + 1
    /\ UNCHANGED <<prm, W, now, deq, bad>>

Pop ==
    /\ n < MaxOps
    /\ LET r == PPop(prm, W, st, P, F, now)
           ov1 == IF r.ret # 0 /\ Flowed THEN OvPop(ov, NF, F, F[r.ret], st.h, r.st.h) ELSE ov
       IN /\ st' = r.st
          /\ deq' = IF r.ret # 0 THEN deq + 1 ELSE deq
          /\ ov' = ov1
          /\ bad' = IF bad # "" THEN bad
                    ELSE IF r.ret # 0 /\ ~LeavesInOrder(prm.kind, st.h, r.ret, SeqSet(r.st.h), P, F) THEN "order"
                    ELSE IF Flowed /\ ~FairShareOK(ov1, W, NF) THEN "fair"
                    ELSE ""
          /\ hist' = Append(hist, <<"pop", r.ret, Len(r.st.h), r.st.x>>)
    /\ n' = n + 1
    /\ UNCHANGED <<prm, W, P, F, now, enq>>

Tick ==
    /\ prm.kind = "deadline" /\ n < MaxOps /\ now < MaxNow
    /\ now' = now + 1 /\ n' = n + 1
    /\ hist' = Append(hist, <<"tick">>)
    /\ UNCHANGED <<prm, W, st, P, F, enq, deq, ov, bad>>

Next == (\E p \in 0..MaxP, f \in 1..NF : Push(p, f)) \/ Pop \/ Tick
Spec == Init /\ [][Next]_vars

InvOrder == bad # "order"                                              \* (d)
InvFairShare == bad # "fair"                                           \* (d) fair share
InvCapacity == CapacityOK(Len(st.h), RepCap(prm))                      \* (e)
InvConservation == Conserved(enq, deq, st.x, Len(st.h))                \* (e)
\* machine sanity: flows listed are exactly the backlogged ones, credits stay positive
InvFlows == Flowed => /\ SeqSet(st.fl) = { F[st.h[k]] : k \in 1..Len(st.h) }
                      /\ \A f \in SeqSet(st.fl) : prm.kind = "wfair" => st.cr[f] >= 1

\* ---- configurations (substituted from the cfg) ------------------------------
Prm(k, c, pfc, mxf, thr, bm) == [kind |-> k, cap |-> c, pfc |-> pfc, mxf |-> mxf, thr |-> thr, bm |-> bm]
MCBasic == { Prm(k, c, Inf, Inf, Inf, 0) : k \in {"fifo", "lifo", "prio", "deadline"}, c \in {2, Inf} }
MCFair == { Prm("fair", Inf, pfc, mxf, Inf, 0) : pfc \in {1, 2, Inf}, mxf \in {2, Inf} }
MCWFair == { Prm("wfair", c, pfc, Inf, Inf, 0) : c \in {3, Inf}, pfc \in {2, Inf} }
MCBalk == { Prm(k, 3, Inf, Inf, thr, bm) : k \in {"fifo", "prio"}, thr \in {1, 2}, bm \in {0, 1} }
MCAll == MCBasic \cup MCFair \cup MCWFair \cup MCBalk
MCWeights == { <<2, 1, 1>>, <<1, 2, 3>>, <<1, 1, 1>> }
MCWeights2 == { <<2, 1>>, <<1, 3>> }
=============================================================================
