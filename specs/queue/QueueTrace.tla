------------------------------ MODULE QueueTrace ------------------------------
(* Trace validation for C08.  Input: IOEnv.TRACE_FILE = JSON array of          *)
(* executions recorded from the real code by harness/families/c08_world.py.     *)
(* One trace = the observable life of one queue-fronted component (or of one    *)
(* bare policy object):                                                        *)
(*   [ id, prm |-> [kind, cap, pfc, mxf, thr, bm], rcap (capacity the policy     *)
(*     object reports), W (flow weights), P, F (per item: priority/deadline,     *)
(*     flow), wt (capacity units an item occupies), disc, lim0, idle, order, cnt,  *)
(*     sink, allof (which clauses apply), hassc, sc, cut (1: the run was stopped  *)
(*     by end_time, the observed log is a prefix of the machine's)               *)
(*     (scenario for the QueuePipe machine), fin |-> <<accepted, completed>>,    *)
(*     log |-> << <<op, item, t, active, limit, depth, x, c>>, ... >> ]          *)
(*   op: psh (push accepted)  rej (push refused)  pop / pop0 (pop -> item/None)  *)
(*       drp (accepted item discarded by the policy itself, e.g. CoDel)          *)
(*       sta (service begins) rjq (discarded after dequeue, counted)             *)
(*       req (handed back to the queue) fin (service ends) snk (reached the      *)
(*       downstream entity) lim (limit changed) end (item field 1 = the run      *)
(*       ended because no event was left)                                        *)
(*   x = drops the policy reports itself, c = all rejections the component       *)
(*   publishes (queue.stats_dropped + requests_rejected/reneged/... + x).        *)
(*                                                                             *)
(* Per trace three judgements, one short line each (TLC wraps long tuples)       *)
(*   <<"V", id, verdict, pos>>  <<"M", id, mverdict, mpos>>  <<"Q", id, qverdict, qpos>> *)
(* verdict  = "ACCEPT" or the first "PROP:<clause>" of QueueContract that is     *)
(*            false on the OBSERVED execution (only this can become a VIOLATION) *)
(* mverdict = "OK" or the first "MODEL:<what>" where the observation differs     *)
(*            from the Policies machine stepped along the observed calls, or a   *)
(*            published counter differs from the observed count = drift.         *)
(* qverdict = "OK" or the first "MODEL:pipe_..." where the observed log differs   *)
(*            from the log of the QueuePipe machine run on the same scenario     *)
(*            (state-checked comparison, record by record) = drift.              *)
(* The spec is total: every trace gets its three lines; one TLC step per trace    *)
(* (the machine run and the walk over the log are recursive folds).              *)
EXTENDS QueuePipe, Policies, Json, IOUtils

\* the JSON file is parsed once (TInit) and kept in a TLC register; an operator defined as
\* JsonDeserialize(IOEnv...) would be re-evaluated, i.e. the file re-parsed, at every reference
Traces == TLCGet(1)
NT == Len(Traces)

VARIABLE ti       \* trace index; one trace is judged per step (machine run and log walk are folded)
tvars == <<sc, m, ti>>

EmptySc == [wk |-> "server", lim |-> 1, prm |-> PrmOf("fifo", Inf), W |-> <<1>>, arr |-> <<>>,
            sh |-> [t |-> 0, l |-> 0], dyn |-> <<>>, rt |-> 0, endt |-> 0]

W0(T) ==
    [st |-> [i \in 1..Len(T.P) |-> "new"], oh |-> <<>>, ps |-> PInit(Len(T.W)),
     lp |-> [i \in 1..Len(T.P) |-> 0], ov |-> OvInit(Len(T.W)),
     enq |-> 0, deq |-> 0, nrej |-> 0, nS |-> 0, sunk |-> {}, tl |-> 0, lim |-> T.lim0,
     mdl |-> T.nomodel = 0,   \* the Policies machine still follows the observation (CoDel/RED/AdaptiveLIFO: none)
     obs |-> TRUE]     \* the held list reconstructed from the observation is reliable

TInit == /\ TLCSet(1, JsonDeserialize(IOEnv.TRACE_FILE))
         /\ sc = EmptySc /\ m = Start(EmptySc) /\ ti = 1

\* ---------------------------------------------------------------------------
\* one observed record
\* The Policies machine (MODEL layer) follows the policy object that is actually installed: with the
\* known deviation "shifted_ignores_policy" a component built with `policy or FIFOQueue()` (disc = 1)
\* runs an unbounded FIFO.  The contract (PROP layer) is always judged against the configured T.prm.
MPrm(T) == IF T.disc = 1 /\ Has("shifted_ignores_policy")
           THEN [T.prm EXCEPT !.kind = "fifo", !.cap = Inf, !.thr = Inf] ELSE T.prm
Kind(T) == T.prm.kind
IsDl(T) == Kind(T) = "deadline"
Flowed(T) == Kind(T) \in {"fair", "wfair"}
Servable(T, ww, tnext) ==
    IF IsDl(T) THEN Cardinality({ k \in 1..Len(ww.oh) : T.P[ww.oh[k]] >= tnext }) ELSE Len(ww.oh)
Expired(T, ww, t, keep) ==
    IF IsDl(T) THEN { y \in SeqSet(ww.oh) : T.P[y] < t } \ {keep} ELSE {}
First(a, b) == IF a # "" THEN a ELSE b
First3(a, b, c) == First(a, First(b, c))
First4(a, b, c, d) == First(a, First3(b, c, d))

Out(ww, pv, mv) == [w |-> ww, pv |-> pv, mv |-> mv]
Mdl(ww, mv) == IF ww.mdl THEN mv ELSE ""

Apply(T, ww, r) ==
    LET op == r[1]  i == r[2]  t == r[3]  a == r[4]  lm == r[5]  d == r[6]  x == r[7]  c == r[8]
        w0 == [ww EXCEPT !.tl = t, !.lim = lm]
    IN
    CASE op = "psh" ->
        LET pm == PPush(MPrm(T), T.W, ww.ps, i, T.F, FALSE)
            pv == First3(IF ww.st[i] # "new" THEN "PROP:offered_item_seen_twice" ELSE "",
                         IF ~CapacityOK(d, T.rcap) THEN "PROP:capacity" ELSE "",
                         IF ~Conserved(ww.enq + 1, ww.deq, x, d) THEN "PROP:conservation" ELSE "")
            mv == IF ~pm.acc THEN "MODEL:push_accepted_model_refuses"
                  ELSE IF Len(pm.st.h) # d THEN "MODEL:depth" ELSE ""
        IN Out([w0 EXCEPT !.st[i] = "waiting", !.oh = Append(@, i), !.enq = @ + 1,
                          !.ps = IF ww.mdl /\ pm.acc THEN pm.st ELSE @,
                          !.ov = IF Flowed(T) THEN OvPush(@, Len(T.W), T.F, T.F[i], ww.oh) ELSE @,
                          !.mdl = @ /\ mv = ""], pv, Mdl(ww, mv))
      [] op = "rej" ->
        LET pm == PPush(MPrm(T), T.W, ww.ps, i, T.F, TRUE)
            pv == First4(IF ww.st[i] # "new" THEN "PROP:offered_item_seen_twice" ELSE "",
                         IF T.cnt = 1 /\ ~Counted(ww.nrej + 1, c) THEN "PROP:reject_not_counted" ELSE "",
                         IF ~Conserved(ww.enq, ww.deq, x, d) THEN "PROP:conservation" ELSE "",
                         IF ~CapacityOK(d, T.rcap) THEN "PROP:capacity" ELSE "")
            mv == IF pm.acc THEN "MODEL:push_refused_model_accepts" ELSE ""
        IN Out([w0 EXCEPT !.st[i] = "rejected", !.nrej = @ + 1,
                          !.ps = IF ww.mdl /\ ~pm.acc THEN pm.st ELSE @, !.mdl = @ /\ mv = ""], pv, Mdl(ww, mv))
      [] op = "pop" ->
        LET ex == Expired(T, ww, t, i)
            rest == (SeqSet(ww.oh) \ ex) \ {i}
            oh1 == SelectSeq(ww.oh, LAMBDA y : y \in rest)
            ov1 == IF Flowed(T) /\ InSeq(ww.oh, i) THEN OvPop(ww.ov, Len(T.W), T.F, T.F[i], ww.oh, oh1) ELSE ww.ov
            pm == PPop(MPrm(T), T.W, ww.ps, T.P, T.F, t)
            held == ww.st[i] = "waiting" /\ InSeq(ww.oh, i)
            pv == First(IF ~held THEN "PROP:dequeued_item_not_waiting" ELSE "",
                  First4(IF T.order = 1 /\ ww.obs /\ ~LeavesInOrder(Kind(T), ww.oh, i, rest, T.P, T.F)
                            THEN "PROP:order" ELSE "",
                         IF T.order = 1 /\ ww.obs /\ Flowed(T) /\ ~FairShareOK(ov1, T.W, Len(T.W))
                            THEN "PROP:fair_share" ELSE "",
                         IF ~Conserved(ww.enq, ww.deq + 1, x, d) THEN "PROP:conservation" ELSE "",
                         First(IF T.cnt = 1 /\ ~Counted(ww.nrej + Cardinality(ex), c) THEN "PROP:reject_not_counted" ELSE "",
                               IF ~CapacityOK(d, T.rcap) THEN "PROP:capacity" ELSE "")))
            mv == IF pm.ret # i THEN "MODEL:pop_choice"
                  ELSE IF Len(pm.st.h) # d THEN "MODEL:depth"
                  ELSE IF pm.st.x # x THEN "MODEL:drop_count" ELSE ""
        IN Out([w0 EXCEPT !.st = [j \in DOMAIN ww.st |-> IF j = i THEN "transit"
                                                        ELSE IF j \in ex THEN "rejected" ELSE ww.st[j]],
                          !.oh = oh1, !.ov = ov1, !.deq = @ + 1, !.nrej = @ + Cardinality(ex),
                          !.lp[i] = lm, !.obs = @ /\ (T.nomodel = 1 \/ Len(oh1) = d),
                          !.ps = IF ww.mdl /\ mv = "" THEN pm.st ELSE @, !.mdl = @ /\ mv = ""], pv, Mdl(ww, mv))
      [] op = "pop0" ->
        LET ex == Expired(T, ww, t, 0)
            oh1 == SelectSeq(ww.oh, LAMBDA y : y \notin ex)
            pm == PPop(MPrm(T), T.W, ww.ps, T.P, T.F, t)
            pv == First(IF ~Conserved(ww.enq, ww.deq, x, d) THEN "PROP:conservation" ELSE "",
                        IF T.cnt = 1 /\ ~Counted(ww.nrej + Cardinality(ex), c) THEN "PROP:reject_not_counted" ELSE "")
            mv == IF pm.ret # 0 THEN "MODEL:pop_none_model_has_item"
                  ELSE IF Len(pm.st.h) # d THEN "MODEL:depth"
                  ELSE IF pm.st.x # x THEN "MODEL:drop_count" ELSE ""
        IN Out([w0 EXCEPT !.st = [j \in DOMAIN ww.st |-> IF j \in ex THEN "rejected" ELSE ww.st[j]],
                          !.oh = oh1, !.nrej = @ + Cardinality(ex), !.obs = @ /\ Len(oh1) = d,
                          !.ps = IF ww.mdl /\ mv = "" THEN pm.st ELSE @, !.mdl = @ /\ mv = ""], pv, Mdl(ww, mv))
      [] op = "drp" ->
        LET pv == First(IF ww.st[i] # "waiting" THEN "PROP:dropped_item_not_waiting" ELSE "",
                        IF T.cnt = 1 /\ ~Counted(ww.nrej + 1, c) THEN "PROP:reject_not_counted" ELSE "")
        IN Out([w0 EXCEPT !.st[i] = "rejected", !.nrej = @ + 1, !.oh = Remove(@, i)], pv, "")
      [] op = "sta" ->
        LET from == ww.st[i]
            lpi == IF from = "transit" THEN ww.lp[i] ELSE lm
            pv == First(IF ~LegalMove(from, "inservice") THEN "PROP:started_twice_or_after_completion" ELSE "",
                        IF ~StartOK(ww.nS + T.wt[i], lm, lpi) THEN "PROP:limit" ELSE "")
            mv == IF a # ww.nS + T.wt[i] THEN "MODEL:active_count" ELSE ""
        IN Out([w0 EXCEPT !.st[i] = "inservice", !.nS = @ + T.wt[i], !.oh = Remove(@, i)], pv, mv)
      [] op = "rjq" ->
        LET from == ww.st[i]
            pv == First(IF ~LegalMove(from, "rejected") THEN "PROP:discarded_item_not_waiting" ELSE "",
                        IF T.cnt = 1 /\ ~Counted(ww.nrej + 1, c) THEN "PROP:reject_not_counted" ELSE "")
        IN Out([w0 EXCEPT !.st[i] = "rejected", !.nrej = @ + 1, !.oh = Remove(@, i)], pv, "")
      [] op = "req" ->
        LET pv == IF ~LegalMove(ww.st[i], "waiting") \/ ww.st[i] = "new" THEN "PROP:requeued_item_not_in_transit" ELSE ""
        IN Out([w0 EXCEPT !.st[i] = "waiting", !.oh = Append(Remove(@, i), i), !.deq = @ - 1,
                          !.ps = [@ EXCEPT !.h = Append(Remove(@, i), i)]], pv, "")
      [] op = "fin" ->
        LET pv == IF ww.st[i] # "inservice" THEN "PROP:completed_twice_or_never_started" ELSE ""
            mv == IF a # ww.nS - T.wt[i] THEN "MODEL:active_count" ELSE ""
        IN Out([w0 EXCEPT !.st[i] = "done", !.nS = @ - T.wt[i]], pv, mv)
      [] op = "snk" ->
        LET pv == IF i \in ww.sunk THEN "PROP:delivered_downstream_twice" ELSE ""
            mv == IF ww.st[i] # "done" THEN "MODEL:downstream_before_completion" ELSE ""
        IN Out([w0 EXCEPT !.sunk = @ \cup {i}], pv, mv)
      [] op = "lim" -> Out(w0, "", "")
      [] op = "end" ->
        LET quiet == i = 1
            pv == First4(IF T.idle = 1 /\ quiet /\ ww.obs /\ IdleWait(Servable(T, ww, t), ww.nS, ww.lim)
                            THEN "PROP:stranded" ELSE "",
                         IF quiet /\ \E j \in DOMAIN ww.st : ww.st[j] \in {"transit", "inservice"}
                            THEN "PROP:lost" ELSE "",
                         IF quiet /\ T.sink = 1 /\ \E j \in DOMAIN ww.st : ww.st[j] = "done" /\ j \notin ww.sunk
                            THEN "PROP:lost_after_service" ELSE "",
                         IF T.cnt = 1 /\ ~Counted(ww.nrej, c) THEN "PROP:reject_not_counted" ELSE "")
            mv == IF T.fin[1] >= 0 /\ (T.fin[1] # ww.enq \/ T.fin[2] # Cardinality({ j \in DOMAIN ww.st : ww.st[j] = "done" }))
                  THEN "MODEL:published_counters"
                  ELSE IF quiet /\ T.allof = 1 /\ \E j \in DOMAIN ww.st : ww.st[j] = "new" THEN "MODEL:item_never_offered" ELSE ""
        IN Out(w0, pv, mv)
      [] OTHER -> Out(w0, "", "MODEL:unknown_record")

\* clause (c) at a clock advance in front of record r (state = after the previous record)
IdleBefore(T, ww, r) ==
    IF T.idle = 1 /\ r[3] > ww.tl /\ ww.obs /\ IdleWait(Servable(T, ww, r[3]), ww.nS, ww.lim)
    THEN "PROP:idle_wait" ELSE ""

\* comparison with the QueuePipe machine (first six fields of every record except "snk"/"end");
\* k = number of comparable records up to and including r
PipeDiff(T, mlog, r, k) ==
    IF T.hassc = 0 \/ r[1] \in {"snk", "end"} THEN ""
    ELSE IF k > Len(mlog) THEN "MODEL:pipe_log_shorter"
    ELSE IF mlog[k] # <<r[1], r[2], r[3], r[4], r[5], r[6]>> THEN "MODEL:pipe_log" ELSE ""

\* fold over the observed log; acc = [v, vp, mv, mp, qv, qp], c = comparable records so far
RECURSIVE Walk(_, _, _, _, _, _)
Walk(T, mlog, k, c, ww, acc) ==
    IF acc.v # "" \/ k > Len(T.log)
    THEN IF acc.v = "" /\ acc.qv = "" /\ T.hassc = 1 /\ T.cut = 0 /\ c # Len(mlog)
         THEN [acc EXCEPT !.qv = "MODEL:pipe_log_longer", !.qp = k]
         ELSE acc
    ELSE LET r == T.log[k]
             c1 == IF r[1] \in {"snk", "end"} THEN c ELSE c + 1
             pre == IdleBefore(T, ww, r)
             o == Apply(T, ww, r)
             pv == First(pre, o.pv)
             qv == PipeDiff(T, mlog, r, c1)
         IN Walk(T, mlog, k + 1, c1, o.w,
                 [v |-> pv, vp |-> IF pv # "" THEN k ELSE 0,
                  mv |-> First(acc.mv, o.mv), mp |-> IF acc.mv = "" /\ o.mv # "" THEN k ELSE acc.mp,
                  qv |-> First(acc.qv, qv), qp |-> IF acc.qv = "" /\ qv # "" THEN k ELSE acc.qp])

\* (dbg = 1: also print the machine's log, for diagnosing drift)
Judge(T) ==
    LET mlog == IF T.hassc = 1 THEN RunAll(T.sc, Start(T.sc)).log ELSE <<>>
    IN IF T.dbg = 1 /\ ~PrintT(<<"D", T.id, mlog>>) THEN [v |-> "", vp |-> 0, mv |-> "", mp |-> 0, qv |-> "", qp |-> 0] ELSE
       Walk(T, mlog, 1, 0, W0(T), [v |-> "", vp |-> 0, mv |-> "", mp |-> 0, qv |-> "", qp |-> 0])

OrOk(x, ok) == IF x = "" THEN ok ELSE x

TNext ==
    /\ ti <= NT
    /\ LET T == Traces[ti]
           j == Judge(T)
       IN /\ PrintT(<<"V", T.id, OrOk(j.v, "ACCEPT"), j.vp>>)
          /\ PrintT(<<"M", T.id, OrOk(j.mv, "OK"), j.mp>>)
          /\ PrintT(<<"Q", T.id, OrOk(j.qv, "OK"), j.qp>>)
    /\ ti' = ti + 1
    /\ UNCHANGED <<sc, m>>

TSpec == TInit /\ [][TNext]_tvars
=============================================================================
