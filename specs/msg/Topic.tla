------------------------------- MODULE Topic -------------------------------
(* Implementation-shaped model of                                           *)
(*   happysimulator/components/messaging/topic.py  (Topic)                  *)
(* as pure functions on a state record, shared by TopicMC.tla (exhaustive)  *)
(* and TopicTrace.tla (trace validation).                                   *)
(*                                                                          *)
(*   TSub, TUnsub   subscribe() / unsubscribe()  (a subscription keeps its  *)
(*                  dict position when it is re-activated)                  *)
(*   TPub           publish(): first segment - count the message, snapshot  *)
(*                  the active subscribers, start the first latency wait    *)
(*   TStep          publish(): after each latency wait create one delivery  *)
(*                  event; after the last one the generator returns the     *)
(*                  whole list to the engine                                *)
(*   TPubSync       publish_sync(): all delivery events at once             *)
(*   TRecv/TDiscard what the engine does with a delivery event              *)
(*                                                                          *)
(* Deviation "stale_now_after_yield" (REAL, pinned code): every delivery    *)
(* event is stamped with the instant read before the first latency wait, so *)
(* with a non-zero latency all of them lie in the past when the generator   *)
(* returns them and the engine discards them.  With Dev = {} the events are *)
(* stamped with the instant at which they are handed to the engine.         *)
(* Hypothetical deviations for the sensitivity runs:                        *)
(*  "fanout_skips_last"   the last active subscriber is left out            *)
(*  "resubscribe_duplicates" re-subscribing adds a second subscription      *)
EXTENDS Naturals, Integers, Sequences, FiniteSets, TLC

CONSTANTS Dev

Stale == "stale_now_after_yield" \in Dev

InSeq(x, s) == \E i \in 1..Len(s) : s[i] = x
RemoveAt(s, i) == SubSeq(s, 1, i - 1) \o SubSeq(s, i + 1, Len(s))
FirstIdx(s, P(_)) == IF \E i \in 1..Len(s) : P(s[i])
                     THEN CHOOSE i \in 1..Len(s) : P(s[i]) /\ \A j \in 1..(i - 1) : ~P(s[j])
                     ELSE 0
SeqSet(s) == { s[i] : i \in 1..Len(s) }
RECURSIVE Filter(_, _)
Filter(s, S) == IF s = <<>> THEN <<>> ELSE (IF Head(s) \in S THEN <<Head(s)>> ELSE <<>>) \o Filter(Tail(s), S)
Count(s, x) == Cardinality({ i \in 1..Len(s) : s[i] = x })

InitT(lat, order0) ==
    [ lat |-> lat, clock |-> 0, npub |-> 0,
      order |-> order0,           \* keys of _subscriptions in dict order
      active |-> SeqSet(order0),  \* those with .active
      ndel |-> 0,                 \* stats.messages_delivered
      procs |-> <<>>,             \* running publish generators [k, t0, todo, made, due]
      mail |-> <<>>,              \* delivery events in the heap [k, c, t]
      got |-> <<>>,               \* receptions <<k, c>>
      want |-> <<>>,              \* per publish: [A: subscribers active at publish time, fin: hand-over tick or -1]
      lost |-> 0 ]

Targets(tp) ==
    LET a == Filter(tp.order, tp.active) IN
    IF "fanout_skips_last" \in Dev /\ Len(a) > 0 THEN SubSeq(a, 1, Len(a) - 1) ELSE a

TSub(tp, c) ==
    IF InSeq(c, tp.order) /\ "resubscribe_duplicates" \notin Dev THEN [tp EXCEPT !.active = @ \cup {c}]
    ELSE [tp EXCEPT !.order = Append(@, c), !.active = @ \cup {c}]
TUnsub(tp, c) == IF InSeq(c, tp.order) THEN [tp EXCEPT !.active = @ \ {c}] ELSE tp

TPub(tp) ==
    LET k == tp.npub + 1
        todo == Targets(tp)
        A == SeqSet(Filter(tp.order, tp.active))
    IN IF todo = <<>>
       THEN [tp EXCEPT !.npub = k, !.want = Append(@, [A |-> A, fin |-> tp.clock])]
       ELSE [tp EXCEPT !.npub = k, !.want = Append(@, [A |-> A, fin |-> -1]),
                       !.procs = Append(@, [k |-> k, t0 |-> tp.clock, todo |-> todo, made |-> <<>>,
                                            due |-> tp.clock + tp.lat])]

\* proc i resumes after a latency wait
TStep(tp, i) ==
    LET p == tp.procs[i]
        made == Append(p.made, Head(p.todo))
        rest == Tail(p.todo)
    IN IF rest # <<>>
       THEN [tp EXCEPT !.ndel = @ + 1,
                       !.procs[i] = [p EXCEPT !.todo = rest, !.made = made, !.due = tp.clock + tp.lat]]
       ELSE LET stamp == IF Stale THEN p.t0 ELSE tp.clock IN
            [tp EXCEPT !.ndel = @ + 1, !.procs = RemoveAt(@, i),
                       !.mail = @ \o [j \in 1..Len(made) |-> [k |-> p.k, c |-> made[j], t |-> stamp]],
                       !.want[p.k].fin = tp.clock]

TPubSync(tp) ==
    LET k == tp.npub + 1
        todo == Targets(tp)
    IN [tp EXCEPT !.npub = k, !.ndel = @ + Len(todo),
                  !.want = Append(@, [A |-> SeqSet(Filter(tp.order, tp.active)), fin |-> tp.clock]),
                  !.mail = @ \o [j \in 1..Len(todo) |-> [k |-> k, c |-> todo[j], t |-> tp.clock]]]

TRecv(tp, i) == [tp EXCEPT !.mail = RemoveAt(@, i), !.got = Append(@, <<tp.mail[i].k, tp.mail[i].c>>)]
TDiscard(tp, i) == [tp EXCEPT !.mail = RemoveAt(@, i), !.lost = @ + 1]

TUrgent(tp) == tp.mail # <<>> \/ \E i \in 1..Len(tp.procs) : tp.procs[i].due <= tp.clock
TSetClock(tp, t) == [tp EXCEPT !.clock = t]

\* ---- contract (C19, topic clause): every published message reaches every subscriber
\* active at publish time exactly once
AtMostOnce(tp) == \A k \in 1..tp.npub : \A c \in tp.want[k].A : Count(tp.got, <<k, c>>) <= 1
AllReached(tp) == \A k \in 1..tp.npub :
    (tp.want[k].fin # -1 /\ tp.want[k].fin < tp.clock) => \A c \in tp.want[k].A : Count(tp.got, <<k, c>>) = 1
=============================================================================
