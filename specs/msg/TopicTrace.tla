----------------------------- MODULE TopicTrace -----------------------------
(* Trace validation for the topic clause of C19.  Input (IOEnv.TRACE_FILE): *)
(*   [ id, lat, order0 |-> <<c..>>,                                         *)
(*     log |-> << [a, t, k, c, x, o] ... >> ]                               *)
(* o = [ord: subscription order (all), act: active subscribers in order,    *)
(*      st: <<messages_published, messages_delivered>>]                     *)
(* actions "sub"(c) "unsub"(c) "pub"(k, x=1 generator / 2 publish_sync)     *)
(* "step"(k: a latency segment of publish k ended) "recv"(k,c) "disc"(k,c)  *)
(* "end"(x=1 heap exhausted).                                               *)
(* Verdict line <<"V", id, verdict, pos>> and <<"C", id, conformance, cpos>> as in          *)
(* MQueueTrace: PROP = the topic clause is false on the observed execution  *)
(* (subscribers active at publish time are read from the observed state     *)
(* just before the publish), MODEL = drift from Topic.tla.                  *)
EXTENDS Topic, Json, IOUtils

Traces == JsonDeserialize(IOEnv.TRACE_FILE)
NT == Len(Traces)

VARIABLES ti, l, tp, o, bad, badpos, kbad, kpos, drift, driftpos
vars == <<ti, l, tp, o, bad, badpos, kbad, kpos, drift, driftpos>>

Obs0(T) == [ord |-> T.order0, act |-> T.order0, st |-> <<0, 0>>]
O0(T) == [want |-> <<>>, got |-> <<>>, lost |-> {}, prev |-> Obs0(T)]
Dummy == [lat |-> 0, order0 |-> <<>>]
TrOr(i) == IF i <= NT THEN Traces[i] ELSE Dummy

ApplyM(tt, r) ==
    CASE r.a = "sub" -> [s |-> TSub(tt, r.c), d |-> ""]
      [] r.a = "unsub" -> [s |-> TUnsub(tt, r.c), d |-> ""]
      [] r.a = "pub" ->
           [s |-> IF r.x = 2 THEN TPubSync(tt) ELSE TPub(tt),
            d |-> IF r.k = tt.npub + 1 THEN "" ELSE "MODEL:publish_ordinal"]
      [] r.a = "step" ->
           LET i == FirstIdx(tt.procs, LAMBDA p : p.k = r.k /\ p.due = tt.clock) IN
           IF i = 0 THEN [s |-> tt, d |-> "MODEL:step_unexpected"] ELSE [s |-> TStep(tt, i), d |-> ""]
      [] r.a = "recv" ->
           LET i == FirstIdx(tt.mail, LAMBDA e : e.k = r.k /\ e.c = r.c /\ e.t = tt.clock) IN
           IF i = 0 THEN [s |-> tt, d |-> "MODEL:recv_unexpected"] ELSE [s |-> TRecv(tt, i), d |-> ""]
      [] r.a = "disc" ->
           LET i == FirstIdx(tt.mail, LAMBDA e : e.k = r.k /\ e.c = r.c /\ e.t < tt.clock) IN
           IF i = 0 THEN [s |-> tt, d |-> "MODEL:discard_unexpected"] ELSE [s |-> TDiscard(tt, i), d |-> ""]
      [] r.a = "end" ->
           [s |-> tt, d |-> IF r.x = 1 /\ (tt.procs # <<>> \/ tt.mail # <<>>) THEN "MODEL:ended_with_pending_events" ELSE ""]
      [] OTHER -> [s |-> tt, d |-> "MODEL:unknown_record"]

StateDiff(tt, N) ==
    IF tt.order # N.ord THEN "MODEL:state_subscriptions"
    ELSE IF tt.active # SeqSet(N.act) THEN "MODEL:state_active"
    ELSE IF N.st # <<tt.npub, tt.ndel>> THEN "MODEL:state_stats"
    ELSE ""

\* Signature of the known defect "stale_now_after_yield": the engine dropped the delivery event of publish k
\* for a subscriber active at publish time, and the event carried the instant of the publish call itself
\* although the topic waits a non-zero latency per subscriber.  Every other loss stays a violation.
Wanted(oo, r) == r.k <= Len(oo.want) /\ r.c \in oo.want[r.k].A
StaleDiscard(oo, r, lat) == r.a = "disc" /\ Wanted(oo, r) /\ lat > 0 /\ r.x = oo.want[r.k].t0 /\ r.x < r.t

ApplyO(oo, r, lat) ==
    CASE r.a = "pub" -> [o |-> [oo EXCEPT !.want = Append(@, [A |-> SeqSet(oo.prev.act), t0 |-> r.t])], b |-> ""]
      [] r.a = "recv" ->
           [o |-> [oo EXCEPT !.got = Append(@, <<r.k, r.c>>)],
            b |-> IF Wanted(oo, r) /\ Count(oo.got, <<r.k, r.c>>) >= 1
                  THEN "PROP:topic_message_delivered_twice" ELSE ""]
      [] r.a = "disc" ->
           IF ~Wanted(oo, r) THEN [o |-> oo, b |-> ""]
           ELSE [o |-> [oo EXCEPT !.lost = @ \cup {<<r.k, r.c>>}],
                 b |-> IF StaleDiscard(oo, r, lat) THEN "" ELSE "PROP:topic_delivery_event_discarded"]
      [] r.a = "end" ->
           [o |-> oo,
            b |-> IF r.x = 1 /\ \E k \in 1..Len(oo.want) : \E c \in oo.want[k].A :
                                   Count(oo.got, <<k, c>>) = 0 /\ <<k, c>> \notin oo.lost
                  THEN "PROP:topic_message_not_received" ELSE ""]
      [] OTHER -> [o |-> oo, b |-> ""]

Start(i) ==
    /\ tp' = InitT(TrOr(i).lat, TrOr(i).order0) /\ o' = O0(TrOr(i))
    /\ ti' = i /\ l' = 1 /\ bad' = "" /\ badpos' = 0 /\ kbad' = "" /\ kpos' = 0 /\ drift' = "" /\ driftpos' = 0

Init ==
    /\ ti = 1 /\ l = 1 /\ bad = "" /\ badpos = 0 /\ kbad = "" /\ kpos = 0 /\ drift = "" /\ driftpos = 0
    /\ tp = InitT(TrOr(1).lat, TrOr(1).order0) /\ o = O0(TrOr(1))

Step ==
    LET T == Traces[ti]
        r == T.log[l]
        ao == ApplyO(o, r, T.lat)
        dt == IF r.t < tp.clock THEN "MODEL:time_backwards"
              ELSE IF r.t > tp.clock /\ TUrgent(tp) THEN "MODEL:internal_event_skipped" ELSE ""
        am == ApplyM(TSetClock(tp, r.t), r)
        d == IF dt # "" THEN dt ELSE IF am.d # "" THEN am.d ELSE StateDiff(am.s, r.o)
    IN /\ o' = [ao.o EXCEPT !.prev = r.o]
       /\ IF bad = "" /\ ao.b # "" THEN bad' = ao.b /\ badpos' = l ELSE UNCHANGED <<bad, badpos>>
       /\ IF kbad = "" /\ StaleDiscard(o, r, T.lat)
          THEN kbad' = "PROP:topic_delivery_discarded_stale_stamp" /\ kpos' = l ELSE UNCHANGED <<kbad, kpos>>
       /\ IF drift # "" THEN UNCHANGED <<tp, drift, driftpos>>
          ELSE IF d # "" THEN drift' = d /\ driftpos' = l /\ UNCHANGED tp
          ELSE tp' = am.s /\ UNCHANGED <<drift, driftpos>>
       /\ l' = l + 1 /\ ti' = ti

Finish ==
    LET v == IF bad # "" THEN bad ELSE IF kbad # "" THEN kbad ELSE IF drift # "" THEN drift ELSE "ACCEPT"
        pos == IF bad # "" THEN badpos ELSE IF kbad # "" THEN kpos ELSE IF drift # "" THEN driftpos ELSE l - 1
    IN /\ PrintT(<<"V", Traces[ti].id, v, pos>>) /\ PrintT(<<"C", Traces[ti].id, IF drift = "" THEN "OK" ELSE drift, driftpos>>)
       /\ Start(ti + 1)

Next == ti <= NT /\ IF l > Len(Traces[ti].log) THEN Finish ELSE Step

Spec == Init /\ [][Next]_vars
=============================================================================
