---------------------------- MODULE StreamTrace ----------------------------
(* Trace validation for the event-log / consumer-group clauses of C19.      *)
(* Input (IOEnv.TRACE_FILE): array of                                       *)
(*  [ id, cfg |-> [np, nc, nk, alat, rlat, plat, rdelay, strat,             *)
(*                 ret |-> [kind, n, every]],                               *)
(*    log |-> << [a, t, c, p, k, x, y, res, o] ... >> ]                     *)
(* partitions are 1-based (partition id + 1), consumers 1..nc, keys 1..nk.  *)
(* actions: "areq"(k) "ado"(k, p, x=offset of the appended record)          *)
(*  "rreq"(p, x=offset, y=max) "rdo"(p, x, y, res=<<<<p,off>>..>>) "ret"    *)
(*  "jreq"(c) "jdo"(c) "lreq"(c) "ldo"(c) "preq"(c, y=max)                  *)
(*  "pdo"(c, y, res=<<<<p,off>>..>>) "com"(c, res=<<<<p,off>>..>>) "end"    *)
(* o = observed state after the step: [hw, len, first (first retained       *)
(*  offset, -1 if none) per partition, mem sorted members,                  *)
(*  asg <<<<c, <<p..>>>>..>>, gen, com <<offsets per partition>> per c]     *)
(* Verdict line <<"V", id, verdict, pos>> and <<"C", id, conformance, cpos>>.               *)
EXTENDS Stream, Json, IOUtils

Traces == JsonDeserialize(IOEnv.TRACE_FILE)
NT == Len(Traces)

VARIABLES ti, l, s, o, bad, badpos, drift, driftpos
vars == <<ti, l, s, o, bad, badpos, drift, driftpos>>

DummyCfg == [np |-> 1, nc |-> 1, nk |-> 1, alat |-> 0, rlat |-> 0, plat |-> 0, rdelay |-> 0, strat |-> "range",
             ret |-> [kind |-> "none", n |-> 0, every |-> 1]]
CfgAt(i) == IF i <= NT THEN Traces[i].cfg ELSE DummyCfg
S0(i) == InitS(CfgAt(i), [k \in 1..CfgAt(i).nk |-> 0])
O0(i) == [napp |-> [p \in 1..CfgAt(i).np |-> 0], kp |-> [k \in 1..CfgAt(i).nk |-> 0],
          com |-> [c \in 1..CfgAt(i).nc |-> [p \in 1..CfgAt(i).np |-> 0]]]

PerPart(res, p) == LET rr == SelectSeq(res, LAMBDA r : r[1] = p) IN [k \in 1..Len(rr) |-> rr[k][2]]
AsgFun(a) == [c \in { a[i][1] : i \in 1..Len(a) } |->
                SeqSet((a[CHOOSE i \in 1..Len(a) : a[i][1] = c])[2])]

PendIdx(ss, kind, a) == FirstIdx(ss.pend, LAMBDA w : w.kind = kind /\ w.a = a /\ w.due = ss.clock)

ApplyM(ss, r) ==
    CASE r.a = "areq" -> [s |-> AppendReq(ss, r.k), d |-> ""]
      [] r.a = "ado" ->
           LET i == PendIdx(ss, "append", r.k) IN
           IF i = 0 THEN [s |-> ss, d |-> "MODEL:append_unexpected"]
           ELSE IF r.p \notin 1..ss.cfg.np THEN [s |-> ss, d |-> "MODEL:partition_out_of_range"]
           ELSE [s |-> AppendDo(ss, i, r.p), d |-> IF r.x = ss.hw[r.p] THEN "" ELSE "MODEL:append_offset"]
      [] r.a = "ret" ->
           LET i == FirstIdx(ss.pend, LAMBDA w : w.kind = "ret" /\ w.due = ss.clock) IN
           IF i = 0 THEN [s |-> ss, d |-> "MODEL:retention_unexpected"] ELSE [s |-> Ret(ss, i), d |-> ""]
      [] r.a = "rreq" -> [s |-> ReadReq(ss, r.p, r.x, r.y), d |-> ""]
      [] r.a = "rdo" ->
           LET i == FirstIdx(ss.pend, LAMBDA w : w.kind = "read" /\ w.a = r.p /\ w.b = r.x /\ w.c = r.y /\ w.due = ss.clock) IN
           IF i = 0 THEN [s |-> ss, d |-> "MODEL:read_unexpected"]
           ELSE [s |-> ReadDo(ss, i), d |-> IF ReadResult(ss, i) = PerPart(r.res, r.p) /\ Len(r.res) = Len(ReadResult(ss, i))
                                            THEN "" ELSE "MODEL:read_result"]
      [] r.a = "jreq" -> [s |-> JoinReq(ss, r.c), d |-> ""]
      [] r.a = "lreq" -> [s |-> LeaveReq(ss, r.c), d |-> ""]
      [] r.a \in {"jdo", "ldo"} ->
           LET i == PendIdx(ss, IF r.a = "jdo" THEN "join" ELSE "leave", r.c) IN
           IF i = 0 THEN [s |-> ss, d |-> "MODEL:rebalance_unexpected"] ELSE [s |-> RebalanceDo(ss, i), d |-> ""]
      [] r.a = "preq" -> [s |-> PollReq(ss, r.c, r.y), d |-> ""]
      [] r.a = "pdo" ->
           LET i == FirstIdx(ss.pend, LAMBDA w : w.kind = "poll" /\ w.a = r.c /\ w.b = r.y /\ w.due = ss.clock) IN
           IF i = 0 THEN [s |-> ss, d |-> "MODEL:poll_unexpected"]
           ELSE [s |-> PollDo(ss, i), d |-> IF PollResult(ss, i) = r.res THEN "" ELSE "MODEL:poll_result"]
      [] r.a = "com" -> [s |-> Commit(ss, r.c, r.res), d |-> ""]
      [] r.a = "end" -> [s |-> ss, d |-> ""]
      [] OTHER -> [s |-> ss, d |-> "MODEL:unknown_record"]

StateDiff(ss, N) ==
    LET np == ss.cfg.np IN
    IF N.hw # [p \in 1..np |-> ss.hw[p]] THEN "MODEL:state_high_watermark"
    ELSE IF N.len # [p \in 1..np |-> Len(ss.recs[p])] THEN "MODEL:state_record_count"
    ELSE IF N.first # [p \in 1..np |-> IF ss.recs[p] = <<>> THEN -1 ELSE ss.recs[p][1].off] THEN "MODEL:state_first_offset"
    ELSE IF SeqSet(N.mem) # ss.members THEN "MODEL:state_members"
    ELSE IF AsgFun(N.asg) # ss.asg THEN "MODEL:state_assignments"
    ELSE IF N.gen # ss.gen THEN "MODEL:state_generation"
    ELSE IF N.com # [c \in 1..ss.cfg.nc |-> [p \in 1..np |-> ss.com[c][p]]] THEN "MODEL:state_committed"
    ELSE ""

\* ---- contract on the observed execution ---------------------------------------
OneOwnerObs(N, np) ==
    N.mem # <<>> =>
        /\ \A i \in 1..Len(N.asg) : N.asg[i][1] \in SeqSet(N.mem)
        /\ \A p \in 1..np : Cardinality({ i \in 1..Len(N.asg) : p \in SeqSet(N.asg[i][2]) }) = 1
        /\ \A i \in 1..Len(N.asg) : \A p \in 1..np : Cardinality({ j \in 1..Len(N.asg[i][2]) : N.asg[i][2][j] = p }) <= 1

ApplyO(oo, r, cfg) ==
    LET N == r.o
        bcom == IF \E c \in 1..cfg.nc : \E p \in 1..cfg.np : N.com[c][p] < oo.com[c][p]
                THEN "PROP:committed_offset_moved_backwards" ELSE ""
        o1 == [oo EXCEPT !.com = [c \in 1..cfg.nc |-> [p \in 1..cfg.np |-> N.com[c][p]]]]
    IN
    CASE r.a = "ado" ->
           IF r.p \notin 1..cfg.np THEN [o |-> o1, b |-> "PROP:key_changed_partition"]
           ELSE [o |-> [o1 EXCEPT !.napp[r.p] = @ + 1, !.kp[r.k] = IF @ = 0 THEN r.p ELSE @],
                 b |-> IF r.x # oo.napp[r.p] THEN "PROP:offset_not_next_in_partition"
                       ELSE IF oo.kp[r.k] \notin {0, r.p} THEN "PROP:key_changed_partition"
                       ELSE bcom]
      [] r.a \in {"rdo", "pdo"} ->
           [o |-> o1, b |-> IF \E p \in 1..cfg.np : ~Consecutive(PerPart(r.res, p))
                            THEN "PROP:returned_offsets_not_consecutive" ELSE bcom]
      [] r.a \in {"jdo", "ldo"} ->
           [o |-> o1, b |-> IF ~OneOwnerObs(N, cfg.np) THEN "PROP:partition_without_single_owner" ELSE bcom]
      [] OTHER -> [o |-> o1, b |-> bcom]

Start(i) ==
    /\ s' = S0(i) /\ o' = O0(i)
    /\ ti' = i /\ l' = 1 /\ bad' = "" /\ badpos' = 0 /\ drift' = "" /\ driftpos' = 0

Init ==
    /\ ti = 1 /\ l = 1 /\ bad = "" /\ badpos = 0 /\ drift = "" /\ driftpos = 0
    /\ s = S0(1) /\ o = O0(1)

Step ==
    LET T == Traces[ti]
        r == T.log[l]
        ao == ApplyO(o, r, T.cfg)
        dt == IF r.t < s.clock THEN "MODEL:time_backwards"
              ELSE IF r.t > s.clock /\ SUrgent(s) THEN "MODEL:internal_event_skipped" ELSE ""
        am == ApplyM(SSetClock(s, r.t), r)
        d == IF dt # "" THEN dt ELSE IF am.d # "" THEN am.d ELSE StateDiff(am.s, r.o)
    IN /\ o' = ao.o
       /\ IF bad = "" /\ ao.b # "" THEN bad' = ao.b /\ badpos' = l ELSE UNCHANGED <<bad, badpos>>
       /\ IF drift # "" THEN UNCHANGED <<s, drift, driftpos>>
          ELSE IF d # "" THEN drift' = d /\ driftpos' = l /\ UNCHANGED s
          ELSE s' = am.s /\ UNCHANGED <<drift, driftpos>>
       /\ l' = l + 1 /\ ti' = ti

Finish ==
    LET v == IF bad # "" THEN bad ELSE IF drift # "" THEN drift ELSE "ACCEPT"
        pos == IF bad # "" THEN badpos ELSE IF drift # "" THEN driftpos ELSE l - 1
    IN /\ PrintT(<<"V", Traces[ti].id, v, pos>>) /\ PrintT(<<"C", Traces[ti].id, IF drift = "" THEN "OK" ELSE drift, driftpos>>)
       /\ Start(ti + 1)

Next == ti <= NT /\ IF l > Len(Traces[ti].log) THEN Finish ELSE Step

Spec == Init /\ [][Next]_vars
=============================================================================
