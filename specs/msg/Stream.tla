------------------------------- MODULE Stream -------------------------------
(* Implementation-shaped model of                                           *)
(*   happysimulator/components/streaming/event_log.py      (EventLog)       *)
(*   happysimulator/components/streaming/consumer_group.py (ConsumerGroup)  *)
(* as pure functions on one state record (shared by StreamMC.tla and        *)
(* StreamTrace.tla).  One operator per handler segment:                     *)
(*   AppendReq / AppendDo   "Append": wait append_latency, then _do_append  *)
(*   ReadReq / ReadDo       "Read": wait read_latency, then _do_read        *)
(*   Ret                    "RetentionCheck": _apply_retention, reschedule  *)
(*   JoinReq / JoinDo       "Join": register, wait rebalance_delay,         *)
(*                          _rebalance()                                    *)
(*   LeaveReq / LeaveDo     "Leave": drop member and its assignment, wait,  *)
(*                          _rebalance()                                    *)
(*   PollReq / PollDo       "Poll": wait poll_latency, read assigned        *)
(*                          partitions from the committed offsets           *)
(*   Commit                 "Commit": overwrite the committed offsets       *)
(* Partitions are 1..np here (partition id + 1); consumers are 1..nc.       *)
(* The key -> partition function is data: the exhaustive model fixes an     *)
(* arbitrary one, the trace validator learns it from the observed records.  *)
(*                                                                          *)
(* Hypothetical deviations (sensitivity of the contract invariants):        *)
(*  "offset_from_length"   _do_append numbers a record by len(records)      *)
(*  "key_hash_unstable"    the partition of a key depends on the log size   *)
(*  "join_resets_offsets"  Join forgets the member's committed offsets      *)
(*  plus the two of Assign.tla                                              *)
EXTENDS Assign

InSeq(x, s) == \E i \in 1..Len(s) : s[i] = x
RemoveAt(s, i) == SubSeq(s, 1, i - 1) \o SubSeq(s, i + 1, Len(s))
FirstIdx(s, P(_)) == IF \E i \in 1..Len(s) : P(s[i])
                     THEN CHOOSE i \in 1..Len(s) : P(s[i]) /\ \A j \in 1..(i - 1) : ~P(s[j])
                     ELSE 0
SeqSet(s) == { s[i] : i \in 1..Len(s) }
Take(s, n) == SubSeq(s, 1, IF n < Len(s) THEN (IF n < 0 THEN 0 ELSE n) ELSE Len(s))
Drop(s, n) == SubSeq(s, n + 1, Len(s))

\* cfg: [np, nc, nk, alat, rlat, plat, rdelay, strat, ret: [kind ("none","size","time"), n, every]]
\* kp: key -> partition (1..np) or 0 = not yet known
InitS(cfg, kp) ==
    [ cfg |-> cfg, clock |-> 0, kp |-> kp,
      recs |-> [p \in 1..cfg.np |-> <<>>],     \* Partition.records as [off, key, ts]
      hw |-> [p \in 1..cfg.np |-> 0],          \* Partition.high_watermark
      napp |-> [p \in 1..cfg.np |-> 0],        \* ghost: appends so far
      retSched |-> FALSE,
      pend |-> <<>>,                           \* waiting second segments [kind, due, a, b, c]
      members |-> {}, asg |-> << >>, gen |-> 0, prev |-> << >>,
      com |-> [c \in 1..cfg.nc |-> [p \in 1..cfg.np |-> 0]],
      okOff |-> TRUE, okKey |-> TRUE, okOwner |-> TRUE, okCom |-> TRUE, okRead |-> TRUE ]

Wait(s, kind, lat, a, b, c) ==
    [s EXCEPT !.pend = Append(@, [kind |-> kind, due |-> s.clock + lat, a |-> a, b |-> b, c |-> c])]

\* ---- EventLog ---------------------------------------------------------------
AppendReq(s, key) == Wait(s, "append", s.cfg.alat, key, 0, 0)

PartOf(s, key) ==
    IF "key_hash_unstable" \in Dev THEN ((s.kp[key] + s.napp[1]) % s.cfg.np) + 1 ELSE s.kp[key]

\* pid: the partition the code chose (trace) / PartOf (model checking)
AppendDo(s, i, pid) ==
    LET key == s.pend[i].a
        off == IF "offset_from_length" \in Dev THEN Len(s.recs[pid]) ELSE s.hw[pid]
        s1 == [s EXCEPT !.pend = RemoveAt(@, i),
                        !.recs[pid] = Append(@, [off |-> off, key |-> key, ts |-> s.clock]),
                        !.hw[pid] = @ + 1, !.napp[pid] = @ + 1,
                        !.okOff = @ /\ off = s.napp[pid],
                        !.okKey = @ /\ s.kp[key] \in {0, pid},
                        !.kp[key] = IF @ = 0 THEN pid ELSE @]
    IN IF ~s.retSched /\ s.cfg.ret.kind # "none"
       THEN Wait([s1 EXCEPT !.retSched = TRUE], "ret", 0, 0, 0, 0)
       ELSE s1

Retain(s, rs) ==
    IF s.cfg.ret.kind = "size" THEN Drop(rs, IF Len(rs) > s.cfg.ret.n THEN Len(rs) - s.cfg.ret.n ELSE 0)
    ELSE SelectSeq(rs, LAMBDA r : s.clock - r.ts <= s.cfg.ret.n)   \* max_age = n + 1/2 ticks

Ret(s, i) ==
    Wait([s EXCEPT !.pend = RemoveAt(@, i), !.recs = [p \in 1..s.cfg.np |-> Retain(s, s.recs[p])]],
         "ret", s.cfg.ret.every, 0, 0, 0)

DoRead(s, p, off, max) ==
    IF p \notin 1..s.cfg.np THEN <<>>
    ELSE Take(SelectSeq(s.recs[p], LAMBDA r : r.off >= off), max)

ReadReq(s, p, off, max) == Wait(s, "read", s.cfg.rlat, p, off, max)
ReadResult(s, i) == LET w == s.pend[i] rr == DoRead(s, w.a, w.b, w.c) IN [k \in 1..Len(rr) |-> rr[k].off]
ReadDo(s, i) == [s EXCEPT !.pend = RemoveAt(@, i)]

\* ---- ConsumerGroup ----------------------------------------------------------
Rebalance(s) ==
    LET a == Strategy(s.cfg.strat, s.cfg.np - 0, s.members, s.prev)
        \* Assign.tla numbers partitions 0..np-1; shift to 1..np
        a1 == [m \in DOMAIN a |-> { p + 1 : p \in a[m] }]
    IN [s EXCEPT !.gen = @ + 1, !.asg = a1,
                 !.prev = IF s.cfg.strat = "sticky" THEN a ELSE @,
                 !.okOwner = @ /\ OneOwner(s.cfg.np, s.members, a)]

JoinReq(s, c) ==
    Wait([s EXCEPT !.members = @ \cup {c},
                   !.com[c] = IF "join_resets_offsets" \in Dev THEN [p \in 1..s.cfg.np |-> 0] ELSE @],
         "join", s.cfg.rdelay, c, 0, 0)
LeaveReq(s, c) ==
    Wait([s EXCEPT !.members = @ \ {c}, !.asg = [m \in (DOMAIN @) \ {c} |-> @[m]]],
         "leave", s.cfg.rdelay, c, 0, 0)
RebalanceDo(s, i) == Rebalance([s EXCEPT !.pend = RemoveAt(@, i)])

PollReq(s, c, max) == Wait(s, "poll", s.cfg.plat, c, max, 0)
RECURSIVE PollParts(_, _, _, _, _)
PollParts(s, c, ps, max, acc) ==
    IF ps = <<>> \/ max - Len(acc) <= 0 THEN acc
    ELSE LET p == Head(ps)
             rr == DoRead(s, p, s.com[c][p], max - Len(acc))
         IN PollParts(s, c, Tail(ps), max, acc \o [k \in 1..Len(rr) |-> <<p, rr[k].off>>])
PollResult(s, i) ==
    LET w == s.pend[i] IN
    IF w.a \in DOMAIN s.asg THEN PollParts(s, w.a, SortedSeq(s.asg[w.a]), w.b, <<>>) ELSE <<>>
PollDo(s, i) == [s EXCEPT !.pend = RemoveAt(@, i)]

\* offs: sequence of <<p, off>>
RECURSIVE CommitAll(_, _, _)
CommitAll(com, c, offs) ==
    IF offs = <<>> THEN com ELSE CommitAll([com EXCEPT ![c][Head(offs)[1]] = Head(offs)[2]], c, Tail(offs))
Commit(s, c, offs) == [s EXCEPT !.com = CommitAll(@, c, offs)]

\* committed offsets never move backwards (evaluated between consecutive states)
ComMonotone(s1, s2) == \A c \in 1..s1.cfg.nc : \A p \in 1..s1.cfg.np : s2.com[c][p] >= s1.com[c][p]
\* offsets returned by one read of one partition are consecutive and increasing
Consecutive(offs) == \A k \in 1..(Len(offs) - 1) : offs[k + 1] = offs[k] + 1

SUrgent(s) == \E i \in 1..Len(s.pend) : s.pend[i].due <= s.clock
SSetClock(s, t) == [s EXCEPT !.clock = t]
=============================================================================
