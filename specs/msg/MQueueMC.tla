----------------------------- MODULE MQueueMC -----------------------------
(* Exhaustive exploration of MQueue.tla: the environment publishes, polls,  *)
(* acknowledges, rejects, times out, subscribes and unsubscribes in every   *)
(* order and at every tick; the engine's internal events (latency           *)
(* continuation, delivery event, redelivery timer) fire at their instants,  *)
(* in every order relative to same-instant environment calls.               *)
EXTENDS MQueue

CONSTANTS NC,        \* consumers 1..NC
          MaxMsg,    \* publishes
          MaxOps,    \* environment calls
          MaxT,      \* last tick
          Lat, RDel, MaxR, Cap, HasDLQ

VARIABLES q, ops,
          act     \* history: the action just taken (hidden by VIEW View except when the graph is dumped)
vars == <<q, ops, act>>
View == <<q, ops>>

Cfg == [lat |-> Lat, rdel |-> RDel, maxr |-> MaxR, cap |-> Cap, dlq |-> HasDLQ]

Init == /\ ops = 0 /\ act = <<"Init">>
        /\ \E k \in 0..NC : q = InitQ(Cfg, [i \in 1..k |-> i])

\* an environment call that changes something
Env(q2, a) == ops < MaxOps /\ q2 # q /\ q' = q2 /\ ops' = ops + 1 /\ act' = a

EPub == q.npub < MaxMsg /\ Env(Pub(q), <<"EPub">>)
EPoll == Env(Poll(q), <<"EPoll">>)
EAck(m) == m \in q.known /\ Env(Ack(q, m), <<"EAck", m>>)
ERej(m, r) == m \in q.known /\ Env(Rej(q, m, r), <<"ERej", m, r>>)
ETimeout(m) == Env(Timeout(q, m), <<"ETimeout", m>>)
ESub(c) == Env(Sub(q, c), <<"ESub", c>>)
EUnsub(c) == Env(Unsub(q, c), <<"EUnsub", c>>)

Internal == UNCHANGED ops /\ act' = <<"I">>
IEmit(i) == q.wire[i].due = q.clock /\ q' = Emit(q, i) /\ Internal
IRecv(i) == q.mail[i].t = q.clock /\ q' = Recv(q, i) /\ Internal
IDiscard(i) == q.mail[i].t < q.clock /\ q' = Discard(q, i) /\ Internal
IFire(i) == q.timers[i].due = q.clock /\ q' = Fire(q, i) /\ Internal
Tick == ~Urgent(q) /\ q.clock < MaxT /\ q' = SetClock(q, q.clock + 1) /\ UNCHANGED ops /\ act' = <<"Tick">>

Next ==
    \/ EPub \/ EPoll
    \/ \E m \in 1..q.npub : EAck(m) \/ ETimeout(m) \/ \E r \in BOOLEAN : ERej(m, r)
    \/ \E c \in 1..NC : ESub(c) \/ EUnsub(c)
    \/ \E i \in 1..Len(q.wire) : IEmit(i)
    \/ \E i \in 1..Len(q.mail) : IRecv(i) \/ IDiscard(i)
    \/ \E i \in 1..Len(q.timers) : IFire(i)
    \/ Tick

Spec == Init /\ [][Next]_vars

\* ---- contract invariants (one per clause of the statement) -----------------
InvAccounted == Accounted(q)              \* stays accounted for, never lost
InvReach == Reached(q)                    \* every delivery reaches the consumer at the delivery instant
InvNoPhantom == q.okRecv                  \* ... and consumers receive nothing else
InvSubscribed == q.okSub                  \* ... a subscribed consumer
InvRedeliver == Redelivered(q) /\ q.okFire  \* every requested redelivery is carried out
InvFirstOrder == q.okOrder                \* first deliveries follow publish order
InvLimit == q.okLimit                     \* the redelivery limit moves a message to the DLQ
InvAfterAck == q.okAfterAck               \* nothing is delivered again after it was acknowledged
\* model sanity (not contract): the code's derived counters
InvShape == /\ q.infl \subseteq q.live
            /\ \A i \in 1..Len(q.dlq) : q.dlq[i] \notin q.live
=============================================================================
