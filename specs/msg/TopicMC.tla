------------------------------ MODULE TopicMC ------------------------------
(* Exhaustive exploration of Topic.tla: subscribe / unsubscribe / publish   *)
(* (generator and synchronous form) in every order and at every tick, with  *)
(* the publish generators' latency segments and the engine's deliveries     *)
(* interleaved in every order within an instant.                            *)
EXTENDS Topic

CONSTANTS NC, MaxPub, MaxOps, MaxT, Lat

VARIABLES tp, ops,
          act     \* history: the action just taken (hidden by VIEW View except when the graph is dumped)
vars == <<tp, ops, act>>
View == <<tp, ops>>

Init == ops = 0 /\ act = <<"Init">> /\ \E k \in 0..NC : tp = InitT(Lat, [i \in 1..k |-> i])

Env(t2, a) == ops < MaxOps /\ t2 # tp /\ tp' = t2 /\ ops' = ops + 1 /\ act' = a
EPub == tp.npub < MaxPub /\ Env(TPub(tp), <<"EPub">>)
EPubSync == tp.npub < MaxPub /\ Env(TPubSync(tp), <<"EPubSync">>)
ESub(c) == Env(TSub(tp, c), <<"ESub", c>>)
EUnsub(c) == Env(TUnsub(tp, c), <<"EUnsub", c>>)
Internal == UNCHANGED ops /\ act' = <<"I">>
IStep(i) == tp.procs[i].due = tp.clock /\ tp' = TStep(tp, i) /\ Internal
IRecv(i) == tp.mail[i].t = tp.clock /\ tp' = TRecv(tp, i) /\ Internal
IDiscard(i) == tp.mail[i].t < tp.clock /\ tp' = TDiscard(tp, i) /\ Internal
Tick == ~TUrgent(tp) /\ tp.clock < MaxT /\ tp' = TSetClock(tp, tp.clock + 1) /\ UNCHANGED ops /\ act' = <<"Tick">>

Next ==
    \/ EPub \/ EPubSync
    \/ \E c \in 1..NC : ESub(c) \/ EUnsub(c)
    \/ \E i \in 1..Len(tp.procs) : IStep(i)
    \/ \E i \in 1..Len(tp.mail) : IRecv(i) \/ IDiscard(i)
    \/ Tick

Spec == Init /\ [][Next]_vars

InvAtMostOnce == AtMostOnce(tp)
InvAllReached == AllReached(tp)
=============================================================================
