------------------------------ MODULE AssignMC ------------------------------
(* All membership histories (join / leave / repeated rebalance) of bounded   *)
(* length over NC consumer names and 1..MaxNP partitions, for the three      *)
(* assignment strategies at once (Sticky carries its remembered result).     *)
EXTENDS Assign

CONSTANTS NC, MaxNP, MaxSteps

VARIABLES np, members, prev, steps, last,
          act     \* history: the membership change just made
vars == <<np, members, prev, steps, last, act>>

Init == /\ np \in 1..MaxNP /\ members = {} /\ prev = << >> /\ steps = 0 /\ act = <<"Init">>
        /\ last = [r |-> << >>, rr |-> << >>, st |-> << >>]

Change(M2, a) ==
    /\ steps < MaxSteps /\ act' = a
    /\ members' = M2 /\ steps' = steps + 1 /\ UNCHANGED np
    /\ LET st == StickyAssign(np, M2, prev) IN
       /\ last' = [r |-> RangeAssign(np, M2), rr |-> RRAssign(np, M2), st |-> st]
       /\ prev' = st

Join(c) == c \notin members /\ Change(members \cup {c}, <<"Join", c>>)
Leave(c) == c \in members /\ Change(members \ {c}, <<"Leave", c>>)
Again == members # {} /\ Change(members, <<"Again">>)

Next == (\E c \in 1..NC : Join(c) \/ Leave(c)) \/ Again
Spec == Init /\ [][Next]_vars

InvRange == OneOwner(np, members, last.r)
InvRoundRobin == OneOwner(np, members, last.rr)
InvSticky == OneOwner(np, members, last.st)
\* not demanded by the property, model sanity: every current member has an entry
InvKeys == members # {} => (DOMAIN last.r = members /\ DOMAIN last.rr = members /\ DOMAIN last.st = members)
=============================================================================
