------------------------------- MODULE Assign -------------------------------
(* The three partition assignment strategies of                             *)
(*   happysimulator/components/streaming/consumer_group.py:65-155           *)
(* as pure functions.  Partitions are 0..np-1, consumer names are small     *)
(* integers whose numeric order is the lexicographic order of the names the *)
(* harness uses ("c1" < "c2" < ...).  An assignment is a function           *)
(* member -> set of partitions (the code keeps sorted lists).               *)
(*                                                                          *)
(* Hypothetical deviations (sensitivity of the one-owner invariant):        *)
(*  "range_drops_remainder"  RangeAssignment forgets the n % c remainder    *)
(*  "sticky_keeps_departed"  StickyAssignment does not hand out the         *)
(*                           partitions of a member that left               *)
EXTENDS Naturals, Integers, Sequences, FiniteSets, TLC

CONSTANTS Dev

RECURSIVE SortedSeq(_)
SortedSeq(S) == IF S = {} THEN <<>>
                ELSE LET x == CHOOSE x \in S : \A y \in S : x <= y IN <<x>> \o SortedSeq(S \ {x})
Min2(a, b) == IF a < b THEN a ELSE b

\* RangeAssignment.assign(range(np), members)
RangeAssign(np, M) ==
    IF M = {} THEN << >>
    ELSE LET cs == SortedSeq(M)
             c == Len(cs)
             base == np \div c
             rem == IF "range_drops_remainder" \in Dev THEN 0 ELSE np % c
             start(i) == (i - 1) * base + Min2(i - 1, rem)
             count(i) == base + (IF i - 1 < rem THEN 1 ELSE 0)
         IN [m \in M |-> LET i == CHOOSE i \in 1..c : cs[i] = m
                         IN { p \in 0..(np - 1) : p >= start(i) /\ p < start(i) + count(i) }]

\* RoundRobinAssignment.assign
RRAssign(np, M) ==
    IF M = {} THEN << >>
    ELSE LET cs == SortedSeq(M)
             c == Len(cs)
         IN [m \in M |-> LET i == CHOOSE i \in 1..c : cs[i] = m
                         IN { p \in 0..(np - 1) : (p % c) + 1 = i }]

\* StickyAssignment.assign with its remembered previous result prev (a function on some member set)
RECURSIVE Distribute(_, _, _)
Distribute(res, cs, todo) ==
    IF todo = <<>> THEN res
    ELSE LET tgt == CHOOSE i \in 1..Len(cs) :
                       /\ \A j \in 1..Len(cs) : Cardinality(res[cs[i]]) <= Cardinality(res[cs[j]])
                       /\ \A j \in 1..(i - 1) : Cardinality(res[cs[j]]) > Cardinality(res[cs[i]])
         IN Distribute([res EXCEPT ![cs[tgt]] = @ \cup {Head(todo)}], cs, Tail(todo))

StickyAssign(np, M, prev) ==
    IF M = {} THEN << >>
    ELSE LET cs == SortedSeq(M)
             all == 0..(np - 1)
             kept == [m \in M |-> IF m \in DOMAIN prev THEN prev[m] \cap all ELSE {}]
             gone == IF "sticky_keeps_departed" \in Dev
                     THEN UNION { prev[m] : m \in (DOMAIN prev) \ M } ELSE {}
             assigned == UNION { kept[m] : m \in M }
             todo == SortedSeq((all \ assigned) \ gone)
         IN Distribute(kept, cs, todo)

Strategy(kind, np, M, prev) ==
    CASE kind = "range" -> RangeAssign(np, M)
      [] kind = "rr" -> RRAssign(np, M)
      [] kind = "sticky" -> StickyAssign(np, M, prev)

\* ---- contract: after a rebalance each partition belongs to exactly one member ----
OneOwner(np, M, asg) ==
    M # {} => /\ DOMAIN asg \subseteq M
              /\ \A p \in 0..(np - 1) : Cardinality({ m \in DOMAIN asg : p \in asg[m] }) = 1
=============================================================================
