---------------------------- MODULE MQueueTrace ----------------------------
(* Trace validation for the message-queue clauses of C19.                   *)
(* Input: IOEnv.TRACE_FILE = JSON array of executions of the real           *)
(* MessageQueue inside a real Simulation, recorded by                       *)
(* harness/families/c19_mq.py:                                              *)
(*   [ id, cfg |-> [lat, rdel, maxr, cap, dlq], subs0 |-> <<c..>>,          *)
(*     log |-> << [a, t, m, c, x, o] ... >> ]                               *)
(* a = action, t = tick, m = message ordinal, c = consumer, x = extra,      *)
(* o = the queue's observable state right after the step:                   *)
(*   [p pending ids, f in-flight ids, lv ids known to the queue, rs ids     *)
(*    with a redelivery scheduled, d DLQ ids, sb subscribed consumers,      *)
(*    cn delivery_count per ordinal, st <<published, delivered,             *)
(*    redelivered, acknowledged, dead_lettered>>, np successful publishes]  *)
(* actions: "sub" "unsub" "pub"(x=1 ok,0 full) "poll"(m,c,x = marked        *)
(* message, consumer, attempt; m=0 nothing) "fire"(m = timer's message,     *)
(* c,x = consumer, attempt; c=0 nothing) "emit"(m,c) "recv"(m,c,x=attempt   *)
(* shown to the consumer) "disc"(m,c,x: engine dropped the delivery event   *)
(* as past; x = the instant it was stamped with) "ack" "rej"(x=1 requeue)   *)
(* "tmo"(x=1 an event was returned) "end"(x=1 the run ended with an empty   *)
(* heap).                                                                   *)
(*                                                                          *)
(* Two independent judgements per trace, two lines                          *)
(*   <<"V", id, verdict, pos>>  and  <<"C", id, conformance, cpos>>         *)
(* verdict: "PROP:<clause>" if a clause of the statement is false on the    *)
(* OBSERVED execution (computed from the log and the observed states only;  *)
(* the first false clause other than the known-defect signature wins, then  *)
(* "PROP:delivery_discarded_stale_stamp" = the signature of the known       *)
(* defect, see StaleDiscard), else "MODEL:<what>" if the code left the      *)
(* MQueue.tla model (drift), else "ACCEPT".  conformance: "OK" or the first *)
(* model mismatch, judged against MQueue.tla with the constant Dev (the     *)
(* harness passes the deviations that are open known findings, i.e. the     *)
(* model of the code as it is).                                             *)
EXTENDS MQueue, Json, IOUtils

Traces == JsonDeserialize(IOEnv.TRACE_FILE)
NT == Len(Traces)

VARIABLES ti, l, q, o, bad, badpos, kbad, kpos, drift, driftpos
vars == <<ti, l, q, o, bad, badpos, kbad, kpos, drift, driftpos>>

CfgOf(T) == [lat |-> T.cfg.lat, rdel |-> T.cfg.rdel, maxr |-> T.cfg.maxr, cap |-> T.cfg.cap, dlq |-> T.cfg.dlq]

Obs0(T) == [p |-> <<>>, f |-> <<>>, lv |-> <<>>, rs |-> <<>>, d |-> <<>>, sb |-> T.subs0, cn |-> <<>>,
            st |-> <<0, 0, 0, 0, 0>>, np |-> 0, pc |-> 0, fc |-> 0]
O0(T) == [owed |-> <<>>, tmr |-> <<>>, ackd |-> {}, gone |-> {}, first |-> 0, marked |-> {}, env |-> SeqSet(T.subs0),
          ghost |-> {}, prev |-> Obs0(T)]

\* ---------------------------------------------------------------------------
\* model side: apply record r to model state qq (clock already advanced); result [q, d]
RECURSIVE SumRedeliv(_, _)
SumRedeliv(cn, i) == IF i > Len(cn) THEN 0 ELSE (IF cn[i] > 1 THEN cn[i] - 1 ELSE 0) + SumRedeliv(cn, i + 1)

MarkOf(q1, q2) == IF q2.cidx = q1.cidx THEN <<0, 0, 0>>
                  ELSE LET w == q2.wire[Len(q2.wire)] IN <<w.m, w.c, q2.cnt[w.m]>>

ApplyM(qq, r) ==
    IF r.m # 0 /\ r.a # "pub" /\ r.m > qq.npub THEN [q |-> qq, d |-> "MODEL:unknown_message"]
    ELSE
    CASE r.a = "pub" ->
           [q |-> Pub(qq), d |-> IF (r.x = 1) = ~Full(qq) THEN "" ELSE "MODEL:publish_result"]
      [] r.a = "poll" ->
           LET q2 == Poll(qq) mk == MarkOf(qq, q2) IN
           [q |-> q2, d |-> IF mk = <<r.m, r.c, r.x>> THEN "" ELSE "MODEL:poll_choice"]
      [] r.a = "fire" ->
           LET i == FirstIdx(qq.timers, LAMBDA tm : tm.m = r.m /\ tm.due = qq.clock) IN
           IF i = 0 THEN [q |-> qq, d |-> "MODEL:fire_without_timer"]
           ELSE LET q2 == Fire(qq, i) mk == MarkOf(qq, q2) IN
                [q |-> q2, d |-> IF (mk[1] = 0 /\ r.c = 0) \/ mk = <<r.m, r.c, r.x>> THEN ""
                                 ELSE "MODEL:redelivery_choice"]
      [] r.a = "emit" ->
           LET i == FirstIdx(qq.wire, LAMBDA w : w.m = r.m /\ w.c = r.c /\ w.due = qq.clock) IN
           IF i = 0 THEN [q |-> qq, d |-> "MODEL:emit_unexpected"] ELSE [q |-> Emit(qq, i), d |-> ""]
      [] r.a = "recv" ->
           LET i == FirstIdx(qq.mail, LAMBDA e : e.m = r.m /\ e.c = r.c /\ e.t = qq.clock) IN
           IF i = 0 THEN [q |-> qq, d |-> "MODEL:recv_unexpected"]
           ELSE [q |-> Recv(qq, i), d |-> IF qq.mail[i].att = r.x THEN "" ELSE "MODEL:recv_attempt_number"]
      [] r.a = "disc" ->
           LET i == FirstIdx(qq.mail, LAMBDA e : e.m = r.m /\ e.c = r.c /\ e.t < qq.clock) IN
           IF i = 0 THEN [q |-> qq, d |-> "MODEL:discard_unexpected"] ELSE [q |-> Discard(qq, i), d |-> ""]
      [] r.a = "ack" -> [q |-> Ack(qq, r.m), d |-> ""]
      [] r.a = "rej" -> [q |-> Rej(qq, r.m, r.x = 1), d |-> ""]
      [] r.a = "tmo" ->
           [q |-> Timeout(qq, r.m), d |-> IF (r.x = 1) = TimeoutArms(qq, r.m) THEN "" ELSE "MODEL:timeout_result"]
      [] r.a = "sub" -> [q |-> Sub(qq, r.c), d |-> ""]
      [] r.a = "unsub" -> [q |-> Unsub(qq, r.c), d |-> ""]
      [] r.a = "end" ->
           [q |-> qq, d |-> IF r.x = 1 /\ (qq.wire # <<>> \/ qq.mail # <<>> \/ qq.timers # <<>>)
                            THEN "MODEL:ended_with_pending_events" ELSE ""]
      [] OTHER -> [q |-> qq, d |-> "MODEL:unknown_record"]

\* first field of the observed state that differs from the model state
StateDiff(qq, N) ==
    IF qq.pend # N.p THEN "MODEL:state_pending"
    ELSE IF qq.infl # SeqSet(N.f) THEN "MODEL:state_in_flight"
    ELSE IF qq.live # SeqSet(N.lv) THEN "MODEL:state_messages"
    ELSE IF qq.rs # SeqSet(N.rs) THEN "MODEL:state_redelivery_scheduled"
    ELSE IF qq.dlq # N.d THEN "MODEL:state_dlq"
    ELSE IF qq.subs # N.sb THEN "MODEL:state_consumers"
    ELSE IF qq.cnt # N.cn THEN "MODEL:state_delivery_count"
    ELSE IF N.st # <<qq.npub, Cardinality({m \in 1..qq.npub : qq.cnt[m] >= 1}), SumRedeliv(qq.cnt, 1),
                     Cardinality(qq.ackd), Len(qq.dlq)>> THEN "MODEL:state_stats"
    ELSE ""

\* ---------------------------------------------------------------------------
\* contract side: the C19 message-queue clauses on what was observed.
\* oo = tracker, r = record, T = trace; result [o, b]   (b = "" or the first false clause)
LimitMoved(N, m, T) == m \notin SeqSet(N.lv) /\ (T.cfg.dlq => m \in SeqSet(N.d))
CntOf(P, m) == IF m <= Len(P.cn) THEN P.cn[m] ELSE 0

\* number of buckets (pending occurrences, in flight, acknowledged, dead-lettered, discarded without DLQ)
\* in which message m is accounted for on the observed state N
BucketsObs(N, ackd, gone, T, m) ==
    Occ(N.p, m) + B2N(m \in SeqSet(N.f)) + B2N(m \in ackd) + Occ(N.d, m) + B2N(~T.cfg.dlq /\ m \in gone)
\* the same equation on the public counters (pending_count, in_flight_count, stats)
CountersObs(N, gone, T) ==
    N.pc + N.fc + N.st[4] + (IF T.cfg.dlq THEN N.st[5] ELSE Cardinality(gone)) = N.st[1]
\* ghost: ids hit by the known defect "settle_leaves_pending_id" (judged separately, see SettleGhost)
AccountedObs(N, ackd, gone, ghost, T) ==
    IF \E m \in 1..N.np : BucketsObs(N, ackd, gone, T, m) = 0 THEN "PROP:message_lost"
    ELSE IF \E m \in (1..N.np) \ ghost : BucketsObs(N, ackd, gone, T, m) > 1 THEN "PROP:message_accounted_twice"
    ELSE IF ghost = {} /\ ~CountersObs(N, gone, T) THEN "PROP:counters_do_not_add_up"
    ELSE ""

\* Signature of the known defect "settle_leaves_pending_id" on an execution: acknowledge() / reject() was
\* called for a message whose id sat in the pending deque (after schedule_redelivery or a requeue) and the
\* deque kept every occurrence of it, so the message is now accounted for twice.
SettleGhost(oo, r) ==
    /\ r.a \in {"ack", "rej"}
    /\ r.m \in SeqSet(oo.prev.lv) /\ r.m \in SeqSet(oo.prev.p)
    /\ IF r.m \in SeqSet(r.o.lv) THEN Occ(r.o.p, r.m) > Occ(oo.prev.p, r.m)     \* requeued: a duplicate id
                                 ELSE Occ(r.o.p, r.m) >= 1                     \* settled: a stale id

\* The signature of the known defect "stale_now_after_yield" on a failing execution: the delivery event of an
\* owed delivery was dropped by the engine at its delivery instant because it carried the instant of the
\* delivery action (one latency earlier).  Reported separately so that every other loss stays a violation.
OwedIdx(oo, r) == FirstIdx(oo.owed, LAMBDA d : d.m = r.m /\ d.c = r.c /\ d.due = r.t)
StaleDiscard(oo, r, T) == r.a = "disc" /\ OwedIdx(oo, r) # 0 /\ T.cfg.lat > 0 /\ r.x = r.t - T.cfg.lat

MarkO(oo, m, c, t, T) ==
    LET P == oo.prev
        b == IF c \notin oo.env THEN "PROP:delivered_to_unsubscribed_consumer"
             ELSE IF m \in oo.ackd THEN "PROP:delivered_after_ack"
             ELSE IF m \notin oo.marked /\ m < oo.first THEN "PROP:first_delivery_order"
             ELSE ""
    IN [o |-> [oo EXCEPT !.owed = Append(@, [m |-> m, c |-> c, due |-> t + T.cfg.lat]),
                         !.marked = @ \cup {m},
                         !.first = IF m \in oo.marked THEN @ ELSE Max(@, m)],
        b |-> b]

ApplyO(oo, r, T) ==
    LET P == oo.prev
        N == r.o
        t == r.t
    IN
    CASE r.a = "poll" -> IF r.m = 0 THEN [o |-> oo, b |-> ""] ELSE MarkO(oo, r.m, r.c, t, T)
      [] r.a = "fire" ->
           LET k == FirstIdx(oo.tmr, LAMBDA tm : tm.m = r.m /\ tm.due = t)
               o1 == [oo EXCEPT !.tmr = IF k = 0 THEN @ ELSE RemoveAt(@, k)]
           IN IF r.c # 0 THEN MarkO(o1, r.m, r.c, t, T)
              ELSE [o |-> o1, b |-> IF r.m \in SeqSet(P.lv) /\ P.sb # <<>>
                                    THEN "PROP:redelivery_not_delivered" ELSE ""]
      [] r.a = "recv" ->
           LET k == FirstIdx(oo.owed, LAMBDA d : d.m = r.m /\ d.c = r.c /\ d.due = t) IN
           IF k = 0 THEN [o |-> oo, b |-> "PROP:unrequested_or_mistimed_delivery"]
           ELSE [o |-> [oo EXCEPT !.owed = RemoveAt(@, k)], b |-> ""]
      [] r.a = "disc" ->      \* the engine dropped a delivery event: that delivery will never be received
           LET k == OwedIdx(oo, r) IN
           IF k = 0 THEN [o |-> oo, b |-> ""]
           ELSE [o |-> [oo EXCEPT !.owed = RemoveAt(@, k)],
                 b |-> IF StaleDiscard(oo, r, T) THEN "" ELSE "PROP:delivery_event_discarded"]
      [] r.a = "sub" -> [o |-> [oo EXCEPT !.env = @ \cup {r.c}], b |-> ""]
      [] r.a = "unsub" -> [o |-> [oo EXCEPT !.env = @ \ {r.c}], b |-> ""]
      [] r.a = "ack" ->
           [o |-> IF r.m \in SeqSet(P.lv) THEN [oo EXCEPT !.ackd = @ \cup {r.m}] ELSE oo, b |-> ""]
      [] r.a = "rej" ->
           IF r.m \notin SeqSet(P.lv) THEN [o |-> oo, b |-> ""]
           ELSE [o |-> IF r.m \notin SeqSet(N.lv) THEN [oo EXCEPT !.gone = @ \cup {r.m}] ELSE oo,
                 b |-> IF r.x = 1 /\ CntOf(P, r.m) >= T.cfg.maxr /\ ~LimitMoved(N, r.m, T)
                       THEN "PROP:redelivery_limit_not_dead_lettered" ELSE ""]
      [] r.a = "tmo" ->
           LET o1 == IF r.x = 1 THEN [oo EXCEPT !.tmr = Append(@, [m |-> r.m, due |-> t + T.cfg.rdel])] ELSE oo
               o2 == IF r.m \in SeqSet(P.lv) /\ r.m \notin SeqSet(N.lv) THEN [o1 EXCEPT !.gone = @ \cup {r.m}] ELSE o1
           IN [o |-> o2,
               b |-> IF r.m \in SeqSet(P.f) /\ r.m \notin SeqSet(P.rs) /\ CntOf(P, r.m) >= T.cfg.maxr
                        /\ ~LimitMoved(N, r.m, T)
                     THEN "PROP:redelivery_limit_not_dead_lettered" ELSE ""]
      [] r.a = "end" ->
           [o |-> oo, b |-> IF r.x # 1 THEN ""
                            ELSE IF oo.owed # <<>> THEN "PROP:delivery_not_received"
                            ELSE IF oo.tmr # <<>> THEN "PROP:redelivery_not_fired" ELSE ""]
      [] OTHER -> [o |-> oo, b |-> ""]

\* time passes from the previous record to r.t: nothing owed may be left behind
TimeO(oo, t) ==
    IF \E i \in 1..Len(oo.owed) : oo.owed[i].due < t THEN "PROP:delivery_not_received"
    ELSE IF \E i \in 1..Len(oo.tmr) : oo.tmr[i].due < t THEN "PROP:redelivery_not_fired"
    ELSE ""

\* ---------------------------------------------------------------------------
Start(i) ==
    /\ q' = (IF i <= NT THEN InitQ(CfgOf(Traces[i]), Traces[i].subs0) ELSE InitQ([lat |-> 0, rdel |-> 1, maxr |-> 0, cap |-> 0, dlq |-> FALSE], <<>>))
    /\ o' = (IF i <= NT THEN O0(Traces[i]) ELSE [owed |-> <<>>, tmr |-> <<>>, ackd |-> {}, gone |-> {}, first |-> 0, marked |-> {}, env |-> {}, ghost |-> {}, prev |-> 0])
    /\ ti' = i /\ l' = 1 /\ bad' = "" /\ badpos' = 0 /\ kbad' = "" /\ kpos' = 0 /\ drift' = "" /\ driftpos' = 0

Init ==
    /\ ti = 1 /\ l = 1 /\ bad = "" /\ badpos = 0 /\ kbad = "" /\ kpos = 0 /\ drift = "" /\ driftpos = 0
    /\ q = (IF NT >= 1 THEN InitQ(CfgOf(Traces[1]), Traces[1].subs0) ELSE InitQ([lat |-> 0, rdel |-> 1, maxr |-> 0, cap |-> 0, dlq |-> FALSE], <<>>))
    /\ o = (IF NT >= 1 THEN O0(Traces[1]) ELSE [owed |-> <<>>, tmr |-> <<>>, ackd |-> {}, gone |-> {}, first |-> 0, marked |-> {}, env |-> {}, ghost |-> {}, prev |-> 0])

Step ==
    LET T == Traces[ti]
        r == T.log[l]
        \* contract
        bt == TimeO(o, r.t)
        ao == ApplyO(o, r, T)
        sg == SettleGhost(o, r)
        o2 == [ao.o EXCEPT !.prev = r.o, !.ghost = IF sg THEN @ \cup {r.m} ELSE @]
        bacc == AccountedObs(r.o, o2.ackd, o2.gone, o2.ghost, T)
        b == IF bt # "" THEN bt ELSE IF ao.b # "" THEN ao.b ELSE bacc
        \* model
        dt == IF r.t < q.clock THEN "MODEL:time_backwards"
              ELSE IF r.t > q.clock /\ Urgent(q) THEN "MODEL:internal_event_skipped" ELSE ""
        am == ApplyM(SetClock(q, r.t), r)
        ds == IF am.d # "" THEN am.d ELSE StateDiff(am.q, r.o)
        d == IF dt # "" THEN dt ELSE ds
    IN /\ o' = o2
       /\ IF bad = "" /\ b # "" THEN bad' = b /\ badpos' = l ELSE UNCHANGED <<bad, badpos>>
       /\ IF kbad = "" /\ StaleDiscard(o, r, T)
          THEN kbad' = "PROP:delivery_discarded_stale_stamp" /\ kpos' = l
          ELSE IF kbad = "" /\ sg
          THEN kbad' = "PROP:settled_message_left_in_pending" /\ kpos' = l ELSE UNCHANGED <<kbad, kpos>>
       /\ IF drift # "" THEN UNCHANGED <<q, drift, driftpos>>
          ELSE IF d # "" THEN drift' = d /\ driftpos' = l /\ UNCHANGED q
          ELSE q' = am.q /\ UNCHANGED <<drift, driftpos>>
       /\ l' = l + 1 /\ ti' = ti

Finish ==
    LET T == Traces[ti]
        v == IF bad # "" THEN bad ELSE IF kbad # "" THEN kbad ELSE IF drift # "" THEN drift ELSE "ACCEPT"
        pos == IF bad # "" THEN badpos ELSE IF kbad # "" THEN kpos ELSE IF drift # "" THEN driftpos ELSE l - 1
    IN /\ PrintT(<<"V", Traces[ti].id, v, pos>>) /\ PrintT(<<"C", Traces[ti].id, IF drift = "" THEN "OK" ELSE drift, driftpos>>)
       /\ Start(ti + 1)

Next == ti <= NT /\ IF l > Len(Traces[ti].log) THEN Finish ELSE Step

Spec == Init /\ [][Next]_vars
=============================================================================
