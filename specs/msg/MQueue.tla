------------------------------ MODULE MQueue ------------------------------
(* Implementation-shaped model of                                           *)
(*   happysimulator/components/messaging/message_queue.py  (MessageQueue)   *)
(*   happysimulator/components/messaging/dlq.py            (add_message)    *)
(* written as pure functions on one state record q, so that the same        *)
(* operators drive the exhaustive model (MQueueMC.tla) and the trace        *)
(* validator (MQueueTrace.tla).                                             *)
(*                                                                          *)
(* One operator per public call / generator segment of the Python code:     *)
(*   Pub          publish(): first segment (state change happens before the *)
(*                0.0001 s publish latency)                                 *)
(*   Poll         handle_event("poll") -> poll() -> _deliver_message(head)  *)
(*   Fire         handle_event("message_redelivery") -> _deliver_message(m) *)
(*   Deliver      _deliver_message(m), segment 1: mark in flight, count+1   *)
(*   Emit         _deliver_message(m), segment 2 (after the latency):       *)
(*                create the delivery event                                 *)
(*   Recv/Discard what the engine does with that event: hand it to the      *)
(*                consumer at its timestamp, or drop it as "time travel"    *)
(*                when the timestamp is earlier than the clock              *)
(*   Ack, Rej, Timeout   acknowledge(), reject(), schedule_redelivery()     *)
(*   Sub, Unsub   subscribe(), unsubscribe()                                *)
(*                                                                          *)
(* Message ids are publish ordinals 1,2,3,... (the code uses uuid4; the     *)
(* harness canonicalises).  Time is in integer ticks.                       *)
(*                                                                          *)
(* The model reproduces a shortcut of the code that the property does not   *)
(* forbid: a redelivery timer that fires while the message is in flight     *)
(* (because a poll re-delivered it first) delivers it once more.            *)
(*                                                                          *)
(* Deviations (constant Dev):                                               *)
(*  "stale_now_after_yield"  REAL, fixed in the repository (afb04e8):       *)
(*        segment 2 stamps the delivery event with the instant read before  *)
(*        the latency wait, so with a non-zero latency the engine discards  *)
(*        it.                                                               *)
(*  "settle_leaves_pending_id"  REAL: acknowledge() and reject() assume the *)
(*        message is in flight.  When it sits in the pending deque (after   *)
(*        schedule_redelivery() or an earlier requeue) they leave its id    *)
(*        there: the message is then pending AND acknowledged / dead-       *)
(*        lettered (or pending twice), and once the stale id reaches the    *)
(*        head poll() delivers nothing any more.                            *)
(*  hypothetical ones, used to show that each contract invariant can fail:  *)
(*  "requeue_at_limit"       reject() re-queues when count <= max           *)
(*  "poll_lifo"              poll() takes the newest pending message        *)
(*  "reject_forgets_requeue" reject(requeue) does not re-append             *)
(*  "ack_keeps_message"      acknowledge() does not forget the message      *)
(*  "unsubscribe_ignored"    unsubscribe() leaves the consumer in rotation  *)
(*  "timer_dropped"          the redelivery handler ignores the event       *)
EXTENDS Naturals, Integers, Sequences, FiniteSets, TLC

CONSTANTS Dev

Stale == "stale_now_after_yield" \in Dev

\* ---- helpers --------------------------------------------------------------
InSeq(x, s) == \E i \in 1..Len(s) : s[i] = x
RemoveAt(s, i) == SubSeq(s, 1, i - 1) \o SubSeq(s, i + 1, Len(s))
FirstIdx(s, P(_)) == IF \E i \in 1..Len(s) : P(s[i])
                     THEN CHOOSE i \in 1..Len(s) : P(s[i]) /\ \A j \in 1..(i - 1) : ~P(s[j])
                     ELSE 0
RemoveFirst(s, x) == LET i == FirstIdx(s, LAMBDA y : y = x) IN IF i = 0 THEN s ELSE RemoveAt(s, i)
SeqSet(s) == { s[i] : i \in 1..Len(s) }
Max(a, b) == IF a > b THEN a ELSE b

\* ---- state ----------------------------------------------------------------
\* cfg: [lat, rdel, maxr, cap (0 = unlimited), dlq (BOOLEAN)]
InitQ(cfg, subs0) ==
    [ cfg |-> cfg, clock |-> 0, npub |-> 0,
      live |-> {},            \* keys of _messages
      cnt |-> <<>>,           \* delivery_count per ordinal (kept after the message left)
      pend |-> <<>>,          \* _pending_queue (may hold stale / duplicate ids, as the code)
      infl |-> {},            \* keys of _in_flight
      rs |-> {},              \* _redelivery_scheduled
      subs |-> subs0,         \* _consumers
      cidx |-> 0,             \* _consumer_index
      dlq |-> <<>>,           \* DeadLetterQueue contents
      drop |-> {},            \* discarded by reject when no DLQ is configured
      ackd |-> {},            \* effectively acknowledged
      wire |-> <<>>,          \* deliveries inside the latency wait: [m, c, t0, due]
      mail |-> <<>>,          \* delivery events handed to the engine: [m, c, t, att]
      timers |-> <<>>,        \* redelivery events in the heap: [m, due]
      known |-> {},           \* messages some consumer has seen
      env |-> SeqSet(subs0),  \* consumers the environment has subscribed (ghost)
      \* contract ghosts
      owed |-> <<>>,          \* delivery actions not yet matched by a reception: [m, c, due]
      lastFirst |-> 0,
      okOrder |-> TRUE, okLimit |-> TRUE, okAfterAck |-> TRUE, okSub |-> TRUE, okRecv |-> TRUE,
      okFire |-> TRUE, lost |-> 0 ]

Full(q) == q.cfg.cap # 0 /\ Cardinality(q.live) >= q.cfg.cap

\* publish(): first segment
Pub(q) ==
    IF Full(q) THEN q
    ELSE LET m == q.npub + 1 IN
         [q EXCEPT !.npub = m, !.live = @ \cup {m}, !.cnt = Append(@, 0), !.pend = Append(@, m)]

\* _deliver_message(m), up to the yield
Deliver(q, m) ==
    IF m \notin q.live THEN q
    ELSE IF q.subs = <<>> THEN q
    ELSE LET c == q.subs[(q.cidx % Len(q.subs)) + 1]
             att == q.cnt[m] + 1
             due == q.clock + q.cfg.lat
         IN [q EXCEPT !.cidx = @ + 1, !.cnt[m] = att,
                      !.pend = RemoveFirst(@, m), !.infl = @ \cup {m},
                      !.wire = Append(@, [m |-> m, c |-> c, t0 |-> q.clock, due |-> due]),
                      !.owed = Append(@, [m |-> m, c |-> c, due |-> due]),
                      !.okAfterAck = @ /\ m \notin q.ackd,
                      !.okSub = @ /\ c \in q.env,
                      !.okOrder = @ /\ (att = 1 => m > q.lastFirst),
                      !.lastFirst = IF att = 1 THEN Max(@, m) ELSE @]

\* handle_event("poll")
Poll(q) ==
    IF q.pend = <<>> \/ q.subs = <<>> THEN q
    ELSE Deliver(q, IF "poll_lifo" \in Dev THEN q.pend[Len(q.pend)] ELSE Head(q.pend))

\* handle_event("message_redelivery") for timer i
Fire(q, i) ==
    LET m == q.timers[i].m
        q1 == [q EXCEPT !.timers = RemoveAt(@, i), !.rs = @ \ {m}]
        q2 == IF "timer_dropped" \in Dev THEN q1 ELSE Deliver(q1, m)
    IN [q2 EXCEPT !.okFire = @ /\ ((m \in q.live /\ q.subs # <<>>) => (q2.cnt[m] = q.cnt[m] + 1 /\ m \in q2.infl))]

\* _deliver_message segment 2 for wire entry i: the delivery event is created
Emit(q, i) ==
    LET w == q.wire[i]
        stamp == IF Stale THEN w.t0 ELSE q.clock
    IN [q EXCEPT !.wire = RemoveAt(@, i),
                 !.mail = Append(@, [m |-> w.m, c |-> w.c, t |-> stamp, att |-> q.cnt[w.m]])]

\* engine: event in the past is dropped ("time travel")
Discard(q, i) == [q EXCEPT !.mail = RemoveAt(@, i), !.lost = @ + 1]

\* engine: consumer c receives the delivery event
Recv(q, i) ==
    LET e == q.mail[i]
        k == FirstIdx(q.owed, LAMBDA d : d.m = e.m /\ d.c = e.c /\ d.due = q.clock)
    IN [q EXCEPT !.mail = RemoveAt(@, i), !.known = @ \cup {e.m},
                 !.owed = IF k = 0 THEN @ ELSE RemoveAt(@, k),
                 !.okRecv = @ /\ k # 0]

\* what acknowledge()/reject() do with an id that still sits in the pending deque
Unpend(s, m) == IF "settle_leaves_pending_id" \in Dev THEN s ELSE RemoveFirst(s, m)

Ack(q, m) ==
    IF m \notin q.live THEN q
    ELSE [q EXCEPT !.live = IF "ack_keeps_message" \in Dev THEN @ ELSE @ \ {m},
                   !.pend = Unpend(@, m),
                   !.infl = @ \ {m}, !.rs = @ \ {m}, !.ackd = @ \cup {m}]

DeadLetter(q, m) ==
    [q EXCEPT !.live = @ \ {m}, !.rs = @ \ {m},
              !.dlq = IF q.cfg.dlq THEN Append(@, m) ELSE @,
              !.drop = IF q.cfg.dlq THEN @ ELSE @ \cup {m}]

LimitOK(q2, m) == m \notin q2.live /\ (q2.cfg.dlq => InSeq(m, q2.dlq))

Rej(q, m, requeue) ==
    IF m \notin q.live THEN q
    ELSE LET q1 == [q EXCEPT !.infl = @ \ {m}]
             under == IF "requeue_at_limit" \in Dev THEN q.cnt[m] <= q.cfg.maxr ELSE q.cnt[m] < q.cfg.maxr
             q2 == IF requeue /\ under
                   THEN IF "reject_forgets_requeue" \in Dev THEN q1
                        ELSE IF InSeq(m, q1.pend) /\ "settle_leaves_pending_id" \notin Dev
                        THEN q1      \* already queued (scheduled redelivery / earlier requeue): stays where it is
                        ELSE [q1 EXCEPT !.pend = Append(@, m)]
                   ELSE DeadLetter([q1 EXCEPT !.pend = Unpend(@, m)], m)
         IN [q2 EXCEPT !.okLimit = @ /\ ((requeue /\ q.cnt[m] >= q.cfg.maxr) => LimitOK(q2, m))]

\* schedule_redelivery(m); TimeoutArms tells whether an event is returned
TimeoutArms(q, m) == m \in q.infl /\ m \notin q.rs /\ q.cnt[m] < q.cfg.maxr
Timeout(q, m) ==
    IF m \notin q.infl \/ m \in q.rs THEN q
    ELSE IF q.cnt[m] >= q.cfg.maxr
         THEN LET q2 == Rej(q, m, FALSE) IN [q2 EXCEPT !.okLimit = @ /\ LimitOK(q2, m)]
         ELSE [q EXCEPT !.rs = @ \cup {m}, !.infl = @ \ {m}, !.pend = <<m>> \o @,
                        !.timers = Append(@, [m |-> m, due |-> q.clock + q.cfg.rdel])]

Sub(q, c) == [q EXCEPT !.subs = IF InSeq(c, @) THEN @ ELSE Append(@, c), !.env = @ \cup {c}]
Unsub(q, c) == [q EXCEPT !.subs = IF "unsubscribe_ignored" \in Dev THEN @ ELSE RemoveFirst(@, c),
                         !.env = @ \ {c}]

\* something the engine must still do at the current instant
Urgent(q) == \/ \E i \in 1..Len(q.wire) : q.wire[i].due <= q.clock
             \/ q.mail # <<>>
             \/ \E i \in 1..Len(q.timers) : q.timers[i].due <= q.clock
SetClock(q, t) == [q EXCEPT !.clock = t]

\* ---- the contract (C19, message queue clauses) on the model state ----------
\* every published message is accounted for exactly once: pending, in flight, acknowledged or
\* dead-lettered (or, when no DLQ is configured, discarded by a terminal reject as documented)
Occ(s, x) == Cardinality({ i \in 1..Len(s) : s[i] = x })
B2N(b) == IF b THEN 1 ELSE 0
Buckets(q, m) == Occ(q.pend, m) + B2N(m \in q.infl) + B2N(m \in q.ackd) + Occ(q.dlq, m)
                 + B2N(~q.cfg.dlq /\ m \in q.drop)
Accounted(q) == \A m \in 1..q.npub : Buckets(q, m) = 1
\* every delivery action is matched by a reception at its delivery instant
Reached(q) == \A i \in 1..Len(q.owed) : q.owed[i].due >= q.clock
\* every requested redelivery fires at its instant
Redelivered(q) == \A i \in 1..Len(q.timers) : q.timers[i].due >= q.clock
=============================================================================
