------------------------------ MODULE StreamMC ------------------------------
(* Exhaustive exploration of Stream.tla: appends with every key -> partition *)
(* function, reads, retention sweeps, joins / leaves / polls / commits in    *)
(* every order and at every tick (overlapping rebalance delays included).    *)
EXTENDS Stream

CONSTANTS NP, NC, NK, MaxOps, MaxApp, MaxT, Strat, RetKind, RetN, RetEvery, ALat, RLat, PLat, RDelay

VARIABLES s, ops,
          act     \* history: the action just taken (hidden by VIEW View except when the graph is dumped)
vars == <<s, ops, act>>
View == <<s, ops>>

Cfg == [np |-> NP, nc |-> NC, nk |-> NK, alat |-> ALat, rlat |-> RLat, plat |-> PLat, rdelay |-> RDelay,
        strat |-> Strat, ret |-> [kind |-> RetKind, n |-> RetN, every |-> RetEvery]]

\* every key -> partition function, up to renaming of the first key's partition
Init == ops = 0 /\ act = <<"Init">> /\ \E kp \in [1..NK -> 1..NP] : kp[1] = 1 /\ s = InitS(Cfg, kp)

Waiting(kind, a) == \E i \in 1..Len(s.pend) : s.pend[i].kind = kind /\ s.pend[i].a = a

RECURSIVE Sum(_, _)
Sum(f, n) == IF n = 0 THEN 0 ELSE f[n] + Sum(f, n - 1)
Appending == Cardinality({ i \in 1..Len(s.pend) : s.pend[i].kind = "append" })

Step(s2) == s' = [s2 EXCEPT !.okCom = @ /\ ComMonotone(s, s2)]
Env(s2, a) == ops < MaxOps /\ Step(s2) /\ ops' = ops + 1 /\ act' = a

EAppend(k) == Sum(s.napp, NP) + Appending < MaxApp /\ Env(AppendReq(s, k), <<"EAppend", k>>)
ERead(p, off) == ~Waiting("read", p) /\ Env(ReadReq(s, p, off, 2), <<"ERead", p, off>>)
EJoin(c) == c \notin s.members /\ Env(JoinReq(s, c), <<"EJoin", c>>)
ELeave(c) == c \in s.members /\ Env(LeaveReq(s, c), <<"ELeave", c>>)
EPoll(c) == c \in s.members /\ ~Waiting("poll", c) /\ Env(PollReq(s, c, 2), <<"EPoll", c>>)
\* a well-behaved consumer commits forward only: the next offset or everything appended so far
ECommit(c, p, off) == /\ c \in s.members /\ off > s.com[c][p] /\ off \in {s.com[c][p] + 1, s.hw[p]}
                      /\ Env(Commit(s, c, <<<<p, off>>>>), <<"ECommit", c, p, off>>)

PerPart(res, p) == LET rr == SelectSeq(res, LAMBDA r : r[1] = p) IN [k \in 1..Len(rr) |-> rr[k][2]]

IDo(i) ==
    /\ s.pend[i].due = s.clock /\ UNCHANGED ops /\ act' = <<"I">>
    /\ LET w == s.pend[i] IN
       CASE w.kind = "append" -> Step(AppendDo(s, i, PartOf(s, w.a)))
         [] w.kind = "ret" -> Step(Ret(s, i))
         [] w.kind = "read" -> Step([ReadDo(s, i) EXCEPT !.okRead = @ /\ Consecutive(ReadResult(s, i))])
         [] w.kind \in {"join", "leave"} -> Step(RebalanceDo(s, i))
         [] w.kind = "poll" ->
              Step([PollDo(s, i) EXCEPT !.okRead = @ /\ \A p \in 1..NP : Consecutive(PerPart(PollResult(s, i), p))])

Tick == ~SUrgent(s) /\ s.clock < MaxT /\ s' = SSetClock(s, s.clock + 1) /\ UNCHANGED ops /\ act' = <<"Tick">>

Next ==
    \/ \E k \in 1..NK : EAppend(k)
    \/ \E p \in 1..NP, off \in 0..1 : ERead(p, off)
    \/ \E c \in 1..NC : EJoin(c) \/ ELeave(c) \/ EPoll(c)
    \/ \E c \in 1..NC, p \in 1..NP, off \in 1..MaxApp : ECommit(c, p, off)
    \/ \E i \in 1..Len(s.pend) : IDo(i)
    \/ Tick

Spec == Init /\ [][Next]_vars

\* ---- contract invariants ------------------------------------------------------
InvOffsets == s.okOff       \* offsets within a partition are gap-free and increasing (0,1,2,... in append order)
InvKey == s.okKey           \* a key always maps to the same partition
InvOwner == s.okOwner       \* after every rebalance each partition belongs to exactly one member
InvCommit == s.okCom        \* committed offsets never move backwards
InvRead == s.okRead         \* records returned by read / poll: consecutive increasing offsets per partition
\* structural: what is retained is a contiguous suffix ending at the high watermark
InvSuffix == \A p \in 1..NP :
    /\ s.hw[p] = s.napp[p]
    /\ \A k \in 1..Len(s.recs[p]) : s.recs[p][k].off = s.hw[p] - Len(s.recs[p]) + k - 1
=============================================================================
