------------------------------ MODULE LockCore ------------------------------
(* DistributedLock (distributed_lock.py): named locks with a holder, a FIFO   *)
(* of waiters, lease expiry events and one manager-wide fencing-token counter.*)
(* Constant module; the manager state is                                      *)
(*   locks : lock name -> [holder (0 = None), token, waiters Seq(<<req, fut>>)]*)
(*   next  : _next_token                                                      *)
(* every operation returns [st, res (futures resolved: <<fut, token | 0>>),   *)
(* grants (new grants <<lock, token, holder>> in order), ret].                *)
(* Deviation (plausible mutation, shows the contract is not vacuous):         *)
(*  "waiter_inherits_token": _wake_next_waiter hands the lock to the next     *)
(*  waiter under the previous fencing token instead of a fresh one.           *)
EXTENDS Integers, Sequences, FiniteSets, TLC

CONSTANTS Dev, MaxWaiters       \* MaxWaiters = 0: unlimited

NoLock == [holder |-> 0, token |-> 0, waiters |-> <<>>]
Init0 == [locks |-> <<>>, next |-> 1]
Put(f, k, v) == [x \in (DOMAIN f) \cup {k} |-> IF x = k THEN v ELSE f[x]]
LockOf(st, l) == IF l \in DOMAIN st.locks THEN st.locks[l] ELSE NoLock
Out(st, res, grants, ret) == [st |-> st, res |-> res, grants |-> grants, ret |-> ret]

\* _grant_lock
Grant(st, l, r, fresh) ==
    LET tok == IF fresh THEN st.next ELSE LockOf(st, l).token
        lk == [LockOf(st, l) EXCEPT !.holder = r, !.token = tok]
    IN [st |-> [st EXCEPT !.locks = Put(st.locks, l, lk), !.next = IF fresh THEN @ + 1 ELSE @], tok |-> tok]

\* acquire(l, r) with a new future f
Acquire(st, l, r, f) ==
    LET st1 == [st EXCEPT !.locks = Put(st.locks, l, LockOf(st, l))]      \* _get_or_create
        lk == LockOf(st, l)
    IN IF lk.holder = 0 THEN LET g == Grant(st1, l, r, TRUE) IN Out(g.st, << <<f, g.tok>> >>, << <<l, g.tok, r>> >>, g.tok)
       ELSE IF lk.holder = r THEN Out(st1, << <<f, lk.token>> >>, <<>>, lk.token)
       ELSE IF MaxWaiters > 0 /\ Len(lk.waiters) >= MaxWaiters THEN Out(st1, << <<f, 0>> >>, <<>>, 0)
       ELSE Out([st1 EXCEPT !.locks[l].waiters = Append(@, <<r, f>>)], <<>>, <<>>, -1)

\* try_acquire(l, r): ret = token or 0 (None)
TryAcquire(st, l, r) ==
    LET st1 == [st EXCEPT !.locks = Put(st.locks, l, LockOf(st, l))]
        lk == LockOf(st, l)
    IN IF lk.holder = 0 THEN LET g == Grant(st1, l, r, TRUE) IN Out(g.st, <<>>, << <<l, g.tok, r>> >>, g.tok)
       ELSE IF lk.holder = r THEN Out(st1, <<>>, <<>>, lk.token)
       ELSE Out(st1, <<>>, <<>>, 0)

\* _wake_next_waiter (futures of queued waiters are never resolved elsewhere, so the first one wins)
Wake(st, l) ==
    LET lk == st.locks[l] IN
    IF Len(lk.waiters) = 0 THEN Out(st, <<>>, <<>>, 0)
    ELSE LET w == Head(lk.waiters)
             st1 == [st EXCEPT !.locks[l].waiters = Tail(@)]
             g == Grant(st1, l, w[1], "waiter_inherits_token" \notin Dev)
         IN Out(g.st, << <<w[2], g.tok>> >>, << <<l, g.tok, w[1]>> >>, 0)

\* release(l, token): ret = 1 (True) / 0 (False)
Release(st, l, tok) ==
    IF l \notin DOMAIN st.locks \/ st.locks[l].holder = 0 \/ st.locks[l].token # tok THEN Out(st, <<>>, <<>>, 0)
    ELSE LET w == Wake([st EXCEPT !.locks[l].holder = 0], l) IN Out(w.st, w.res, w.grants, 1)

\* LockLeaseExpiry event carrying (l, token)
Expire(st, l, tok) ==
    IF l \notin DOMAIN st.locks \/ st.locks[l].holder = 0 \/ st.locks[l].token # tok THEN Out(st, <<>>, <<>>, 0)
    ELSE Wake([st EXCEPT !.locks[l].holder = 0], l)
=============================================================================
