--------------------------- MODULE PaxosContract ---------------------------
(* C12 contract for one consensus instance, over observable state only:       *)
(*   dec[i], dval[i]   is_decided / decided_value reported by node i          *)
(*   proposed          set of values ever passed to propose() by a client     *)
(*   futs              sequence of [owner, val]  (val = -1 while unresolved)  *)
(* Each predicate is one clause of the statement; nothing else can raise a    *)
(* VIOLATION.                                                                 *)
EXTENDS Integers, Sequences, FiniteSets

Pending == -1

\* "any two nodes that report a decided value for the same instance report the same value"
Agreement(dec, dval) ==
    \A i, j \in DOMAIN dec : (dec[i] /\ dec[j]) => dval[i] = dval[j]

\* "that value was proposed by some client"
Validity(dec, dval, proposed) ==
    \A i \in DOMAIN dec : dec[i] => dval[i] \in proposed

\* "a reported decision never changes"  (dec/dval before, dec2/dval2 after a step)
Stability(dec, dval, dec2, dval2) ==
    \A i \in DOMAIN dec : dec[i] => (dec2[i] /\ dval2[i] = dval[i])

\* "a proposer's future resolves with the decided value": a resolved future carries a value
\* that equals every decision reported by any node (safety reading: nothing is demanded of a
\* future that is still pending under an adversarial network)
FutureTruth(dec, dval, futs) ==
    \A k \in DOMAIN futs : futs[k].val # Pending =>
        \A i \in DOMAIN dec : dec[i] => dval[i] = futs[k].val

\* a resolved future value must itself be a proposed value (it is "the decided value")
FutureValid(futs, proposed) ==
    \A k \in DOMAIN futs : futs[k].val # Pending => futs[k].val \in proposed

\* Fault-free clause, evaluated at quiescence of a loss-free single-proposer run:
\* the value is decided at every node and the proposer's future carries it.
ProgressSingle(dec, dval, futs, v) ==
    /\ \A i \in DOMAIN dec : dec[i] /\ dval[i] = v
    /\ \A k \in DOMAIN futs : futs[k].val = v
=============================================================================
