---------------------------- MODULE MiscContract ----------------------------
(* C12 contract clauses for the leader-election component and the lock        *)
(* manager, over observable state only.                                       *)
EXTENDS Integers, Sequences, FiniteSets

\* "a leader-election component never reports two different leaders for the same term":
\* seen = set of <<current_term, current_leader>> pairs reported by any node at any time
\* (pairs with current_leader = None are not reports of a leader)
OneLeaderPerTerm(seen) == \A p, q \in seen : p[1] = q[1] => p[2] = q[2]

\* "distributed-lock fencing tokens strictly increase across grants": grants = sequence of
\* <<lock, token>> of the distinct grants in the order the manager issued them; fencing is per
\* resource, so the clause is read per lock name (the weaker reading; the code's single global
\* counter satisfies the stronger one too)
TokensIncrease(grants) ==
    \A i, j \in DOMAIN grants : (i < j /\ grants[i][1] = grants[j][1]) => grants[i][2] < grants[j][2]
=============================================================================
