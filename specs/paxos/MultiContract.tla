--------------------------- MODULE MultiContract ---------------------------
(* C12 contract for the slot-indexed protocols (Multi-Paxos, Flexible Paxos), *)
(* over observable state only: per node the public log (entries <<term,cmd>>) *)
(* and log.commit_index, the commands applied to its state machine, the       *)
(* submit() futures [cmd, idx] (idx = -1 while pending, else the index the    *)
(* future resolved with) and the set of commands clients submitted.           *)
(* A node "reports a decided value for slot s" iff s <= commit_index; the     *)
(* value is the command of log entry s.                                       *)
EXTENDS Integers, Sequences, FiniteSets

Pending == -1
Cmd(lg, s) == lg[s][2]

\* any two nodes that report a decided value for the same slot report the same value
Agreement(logs, commits) ==
    \A i, j \in DOMAIN logs : \A s \in 1..commits[i] :
        (s <= commits[j] /\ s <= Len(logs[i]) /\ s <= Len(logs[j])) => Cmd(logs[i], s) = Cmd(logs[j], s)

\* that value was proposed (submitted) by some client
Validity(logs, commits, submitted) ==
    \A i \in DOMAIN logs : \A s \in 1..commits[i] : s <= Len(logs[i]) => Cmd(logs[i], s) \in submitted

\* a reported decision never changes (nor disappears)
Stability(logs, commits, logs2, commits2) ==
    \A i \in DOMAIN logs : \A s \in 1..commits[i] :
        s <= Len(logs[i]) => (s <= commits2[i] /\ s <= Len(logs2[i]) /\ Cmd(logs2[i], s) = Cmd(logs[i], s))

\* a submit() future resolves with the decided value: the index it resolved with holds the
\* client's own command at every node that reports a decision for that index
FutureTruth(logs, commits, futs) ==
    \A k \in DOMAIN futs : futs[k].idx # Pending =>
        \A i \in DOMAIN logs : (futs[k].idx <= commits[i] /\ futs[k].idx <= Len(logs[i]) /\ futs[k].idx >= 1)
                                  => Cmd(logs[i], futs[k].idx) = futs[k].cmd

\* fault-free clause at quiescence: every command submitted to the established leader is decided
\* and applied at every node, and its future resolved
ProgressAll(logs, commits, apps, futs, cmds) ==
    /\ \A c \in cmds : \A i \in DOMAIN logs :
          /\ \E s \in 1..commits[i] : s <= Len(logs[i]) /\ Cmd(logs[i], s) = c
          /\ \E s \in DOMAIN apps[i] : apps[i][s] = c
    /\ \A k \in DOMAIN futs : futs[k].cmd \in cmds => futs[k].idx # Pending
=============================================================================
