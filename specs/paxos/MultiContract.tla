--------------------------- MODULE MultiContract ---------------------------
(* C12 contract for the slot-indexed protocols (Multi-Paxos, Flexible Paxos), *)
(* over observable state only: per node the public log (entries <<term,cmd,_>>)*)
(* and log.commit_index, the commands applied to its state machine, the       *)
(* submit() futures [cmd, idx] (idx = -1 while pending, else the index the    *)
(* future resolved with) and the set of commands clients submitted.           *)
(* A node "reports a decided value for slot s" iff s <= commit_index; the     *)
(* value is the command of log entry s.                                       *)
(* Every clause is given as the set of its violation instances (slots, or     *)
(* future numbers); the clause holds iff the set is empty.  The trace spec    *)
(* reports every instance once, so that a new violation in another slot is    *)
(* judged on its own and cannot hide behind an earlier one.                   *)
EXTENDS Integers, Sequences, FiniteSets

Pending == -1
Cmd(lg, s) == lg[s][2]
Reports(lg, cm, i, s) == s >= 1 /\ s <= cm[i] /\ s <= Len(lg[i])        \* node i reports a decision for slot s
Slots(cm) == UNION { 1..cm[i] : i \in DOMAIN cm }

\* any two nodes that report a decided value for the same slot report the same value
AgreementBad(logs, commits) ==
    { s \in Slots(commits) : \E i, j \in DOMAIN logs :
        Reports(logs, commits, i, s) /\ Reports(logs, commits, j, s) /\ Cmd(logs[i], s) # Cmd(logs[j], s) }
Agreement(logs, commits) == AgreementBad(logs, commits) = {}

\* that value was proposed (submitted) by some client
ValidityBad(logs, commits, submitted) ==
    { s \in Slots(commits) : \E i \in DOMAIN logs : Reports(logs, commits, i, s) /\ Cmd(logs[i], s) \notin submitted }
Validity(logs, commits, submitted) == ValidityBad(logs, commits, submitted) = {}

\* a reported decision never changes (nor disappears)
StabilityBad(logs, commits, logs2, commits2) ==
    { s \in Slots(commits) : \E i \in DOMAIN logs :
        Reports(logs, commits, i, s) /\ ~(Reports(logs2, commits2, i, s) /\ Cmd(logs2[i], s) = Cmd(logs[i], s)) }
Stability(logs, commits, logs2, commits2) == StabilityBad(logs, commits, logs2, commits2) = {}

\* a submit() future resolves with the decided value: the index it resolved with holds the
\* client's own command at every node that reports a decision for that index
FutureTruthBad(logs, commits, futs) ==
    { k \in DOMAIN futs : futs[k].idx # Pending /\ \E i \in DOMAIN logs :
        Reports(logs, commits, i, futs[k].idx) /\ Cmd(logs[i], futs[k].idx) # futs[k].cmd }
FutureTruth(logs, commits, futs) == FutureTruthBad(logs, commits, futs) = {}

\* fault-free clause at quiescence: every command submitted to the established leader is decided
\* and applied at every node, and its future resolved
ProgressAll(logs, commits, apps, futs, cmds) ==
    /\ \A c \in cmds : \A i \in DOMAIN logs :
          /\ \E s \in 1..commits[i] : s <= Len(logs[i]) /\ Cmd(logs[i], s) = c
          /\ \E s \in DOMAIN apps[i] : apps[i][s] = c
    /\ \A k \in DOMAIN futs : futs[k].cmd \in cmds => futs[k].idx # Pending
=============================================================================
