---------------------------- MODULE ElectionCore ----------------------------
(* LeaderElection (leader_election.py) with its three strategies              *)
(* (election_strategies.py: BullyStrategy, RingStrategy, RandomizedStrategy), *)
(* transcribed handler by handler.  Constant module, pure handlers            *)
(* (node state, message) -> [ns, out].  Members are 1..N (names e1..e5), every *)
(* node knows all members (itself included).                                  *)
(* Node state: leader (_current_leader, 0 = None), term (_current_term),      *)
(* inp (_election_in_progress).                                               *)
(* The code increments _current_term locally on every election it starts and  *)
(* on every victory it learns; terms of different nodes are therefore not     *)
(* comparable, but all strategies elect the highest member id, so no two      *)
(* different leaders are ever reported.  Deviation used to show that the      *)
(* contract is not vacuous: "ring_winner_is_initiator" (the ring token        *)
(* initiator announces itself instead of max(candidates)).                    *)
EXTENDS Integers, Sequences, FiniteSets, TLC

CONSTANTS N, Dev, Strategy      \* "bully" | "ring" | "random"

Nodes == 1..N
Msg(t, s, d, who, term, cands) == [t |-> t, src |-> s, dst |-> d, who |-> who, term |-> term, cands |-> cands]
InitNode == [leader |-> 0, term |-> 0, inp |-> FALSE]
R(ns, out) == [ns |-> ns, out |-> out]

Others(n) == [i \in 1..(N - 1) |-> IF i < n THEN i ELSE i + 1]
ToOthers(n, t, who, term, cands) == [i \in 1..(N - 1) |-> Msg(t, n, Others(n)[i], who, term, cands)]
Higher(n) == [i \in 1..(N - n) |-> n + i]
NextInRing(n) == (n % N) + 1
SeqMax(s) == CHOOSE x \in { s[i] : i \in DOMAIN s } : \A i \in DOMAIN s : s[i] <= x

\* strategy.get_election_messages(node, members, term)
ElectionMsgs(n, term) ==
    CASE Strategy = "bully" ->
           IF n = N THEN ToOthers(n, "victory", n, term, <<>>)
           ELSE [i \in 1..(N - n) |-> Msg("challenge", n, Higher(n)[i], n, term, <<>>)]
      [] Strategy = "ring" -> << Msg("token", n, NextInRing(n), n, term, <<n>>) >>
      [] OTHER -> ToOthers(n, "ballot", n, term, <<>>)

\* _start_election
StartElection(ns, n) ==
    LET t2 == ns.term + 1
        msgs == ElectionMsgs(n, t2)
        allVictory == Len(msgs) = 0 \/ \A i \in DOMAIN msgs : msgs[i].t = "victory"
    IN R([ns EXCEPT !.term = t2, !.inp = ~allVictory, !.leader = IF allVictory THEN n ELSE @], msgs)

\* _handle_timeout_check; stale = (now - last_leader_heartbeat > election_timeout)
HCheck(ns, n, stale) ==
    IF ns.leader = n THEN R(ns, ToOthers(n, "heartbeat", n, ns.term, <<>>))
    ELSE IF ~ns.inp /\ stale THEN StartElection(ns, n)
    ELSE R(ns, <<>>)

HHeartbeat(ns, n, m) ==
    IF m.term >= ns.term THEN R([ns EXCEPT !.leader = m.who, !.term = m.term, !.inp = FALSE], <<>>) ELSE R(ns, <<>>)

\* strategy.handle_election_message -> [resp, leader (0 = None), suppress, own]
Strat(n, m) ==
    CASE Strategy = "bully" /\ m.t = "challenge" ->
           IF n > m.who THEN [resp |-> << Msg("suppress", n, m.who, n, 0, <<>>) >>, leader |-> 0, suppress |-> FALSE, own |-> TRUE]
           ELSE [resp |-> <<>>, leader |-> 0, suppress |-> FALSE, own |-> FALSE]
      [] Strategy = "bully" /\ m.t = "suppress" -> [resp |-> <<>>, leader |-> 0, suppress |-> TRUE, own |-> FALSE]
      [] Strategy = "ring" /\ m.t = "token" ->
           IF m.who = n
           THEN LET w == IF "ring_winner_is_initiator" \in Dev THEN n ELSE SeqMax(m.cands)
                IN [resp |-> ToOthers(n, "victory", w, m.term, <<>>), leader |-> w, suppress |-> TRUE, own |-> FALSE]
           ELSE [resp |-> << Msg("token", n, NextInRing(n), m.who, m.term, Append(m.cands, n)) >>,
                 leader |-> 0, suppress |-> FALSE, own |-> FALSE]
      [] Strategy = "random" /\ m.t = "ballot" ->
           [resp |-> << Msg("ballotresp", n, m.who, n, m.term, <<>>) >>, leader |-> 0, suppress |-> FALSE, own |-> FALSE]
      [] m.t = "victory" -> [resp |-> <<>>, leader |-> m.who, suppress |-> TRUE, own |-> FALSE]
      [] OTHER -> [resp |-> <<>>, leader |-> 0, suppress |-> FALSE, own |-> FALSE]

\* _handle_election_message
HElection(ns, n, m) ==
    LET s == Strat(n, m)
        ns1 == IF s.leader # 0 THEN [ns EXCEPT !.leader = s.leader, !.term = @ + 1, !.inp = FALSE] ELSE ns
        e == IF s.own /\ ~ns1.inp THEN StartElection(ns1, n) ELSE R(ns1, <<>>)
        ns2 == IF s.suppress THEN [e.ns EXCEPT !.inp = FALSE] ELSE e.ns
    IN R(ns2, s.resp \o e.out)

Handle(ns, m) ==
    IF m.t = "heartbeat" THEN HHeartbeat(ns, m.dst, m) ELSE HElection(ns, m.dst, m)
=============================================================================
