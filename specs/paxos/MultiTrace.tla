----------------------------- MODULE MultiTrace -----------------------------
(* Trace validation for Multi-Paxos / Flexible Paxos (C12).                   *)
(* Input: IOEnv.TRACE_FILE = JSON array of executions recorded from real      *)
(* MultiPaxosNode / FlexiblePaxosNode objects:                                *)
(*  [ id, n, flex, q1, q2, dev, mode ("safety"|"progress"), pcmds (commands   *)
(*    that must be decided and applied everywhere at the end, progress mode), *)
(*    steps : << [a ("start"|"submit"|"forward"|"deliver"|"drop"), node, c,   *)
(*               m    <<t,src,dst,bn,bi,slot,cmd,ci,self,log>>,               *)
(*               post <<cur,leader,isL,log,commit,la,app,sfut,sacks,pend,p1>>,*)
(*               out  (messages/timers returned),                             *)
(*               futs (<<cmd, index the submit() future resolved with | -1>>)]*)
(* Per step: (1) observed cluster state updated, MultiContract evaluated on   *)
(* it -> "PROP:<clause>"; (2) MultiCore stepped alongside and compared ->     *)
(* "MODEL:<action>:<field>"; while in sync the deviations exercised by the    *)
(* step are collected.  Output: <<"P", id, clause, instance (slot), step, model *)
(* in sync, exercised>> once per violation instance, then <<"V", id, ACCEPT | PROP | *)
(* MODEL:.., pos>> and <<"M", id, first mismatch | "none", pos, exercised>>.  *)
EXTENDS Integers, Sequences, FiniteSets, TLC, Json, IOUtils, Bags, MultiContract

Traces == JsonDeserialize(IOEnv.TRACE_FILE)
NT == Len(Traces)

VARIABLES ti, l,
          mnode, mmsgs, mfuts, ms,                   \* model alongside; ms = [sync, mism, mpos, used]
          oLog, oCommit, oApp, oFuts, subm,          \* observed
          bad
vars == <<ti, l, mnode, mmsgs, mfuts, ms, oLog, oCommit, oApp, oFuts, subm, bad>>

Tr == Traces[IF ti <= NT THEN ti ELSE NT]
Range(s) == { s[i] : i \in DOMAIN s }
TDev == Range(Tr.dev)

C == INSTANCE MultiCore WITH N <- Tr.n, Dev <- TDev, Flex <- Tr.flex, Q1 <- Tr.q1, Q2 <- Tr.q2
CX(d) == INSTANCE MultiCore WITH N <- Tr.n, Dev <- TDev \ {d}, Flex <- Tr.flex, Q1 <- Tr.q1, Q2 <- Tr.q2

\* ---- JSON -> model representation ------------------------------------------
Dict(x) == [b \in { e[1] : e \in Range(x) } |-> (CHOOSE e \in Range(x) : e[1] = b)[2]]
E3(x) == [i \in 1..Len(x) |-> <<x[i][1], x[i][2], x[i][3]>>]
P2(x) == [i \in 1..Len(x) |-> <<x[i][1], x[i][2]>>]
\* comparable projection: post = <<cur,leader,isL,log,commit,la,app,sfut,sacks,pend,p1>>
ObsOf(p) == [cur |-> <<p[1][1], p[1][2]>>, leader |-> p[2], isL |-> p[3], log |-> E3(p[4]), commit |-> p[5],
             la |-> p[6], app |-> [i \in 1..Len(p[7]) |-> p[7][i]], sfut |-> Dict(p[8]), sacks |-> Dict(p[9]),
             pend |-> P2(p[10]), p1 |-> Dict(p[11])]
Proj(ns) == [cur |-> ns.cur, leader |-> ns.leader, isL |-> ns.isL, log |-> ns.log, commit |-> ns.commit,
             la |-> ns.la, app |-> ns.app, sfut |-> ns.sfut, sacks |-> ns.sacks, pend |-> ns.pend,
             p1 |-> [b \in DOMAIN ns.p1 |-> Len(ns.p1[b])]]
MsgOf(m) == [t |-> m[1], src |-> m[2], dst |-> m[3], bn |-> m[4], bi |-> m[5], slot |-> m[6], cmd |-> m[7],
             ci |-> m[8], self |-> m[9], log |-> E3(m[10])]
SeqBag(s) == LET RECURSIVE F(_) F(i) == IF i > Len(s) THEN EmptyBag ELSE SetToBag({s[i]}) (+) F(i + 1) IN F(1)
OutBag(o) == SeqBag([i \in 1..Len(o) |-> MsgOf(o[i])])

RECURSIVE Resolve(_, _, _)
Resolve(fs, res, i) ==
    IF i > Len(res) THEN fs
    ELSE LET f == res[i][1] IN
         Resolve(IF f # 0 /\ f <= Len(fs) /\ fs[f].idx = Pending THEN [fs EXCEPT ![f].idx = res[i][2]] ELSE fs, res, i + 1)

Fields == <<"cur", "leader", "isL", "log", "commit", "la", "app", "sfut", "sacks", "pend", "p1">>
FirstDiff(a, b) ==
    LET d == { i \in 1..Len(Fields) : a[Fields[i]] # b[Fields[i]] }
    IN IF d = {} THEN "" ELSE Fields[CHOOSE i \in d : \A j \in d : i <= j]

IsTick(m) == m.t = "hb" /\ m.self = 1
MS0 == [sync |-> TRUE, mism |-> "none", mpos |-> 0, used |-> {}]
Node0(n) == [cur |-> <<0, n>>, leader |-> 0, isL |-> FALSE, log |-> <<>>, commit |-> 0, la |-> 0, app |-> <<>>,
             sfut |-> <<>>, sacks |-> <<>>, pend |-> <<>>, p1 |-> <<>>, ackers |-> <<>>, hold |-> {}]

InitFor(T) ==
    /\ l = 1
    /\ mnode = [n \in 1..T.n |-> Node0(n)]
    /\ mmsgs = EmptyBag /\ mfuts = <<>> /\ ms = MS0
    /\ oLog = [n \in 1..T.n |-> <<>>] /\ oCommit = [n \in 1..T.n |-> 0] /\ oApp = [n \in 1..T.n |-> <<>>]
    /\ oFuts = <<>> /\ subm = {} /\ bad = {}

Init == ti = 1 /\ InitFor(Tr)

\* ---- contract on the observed execution -------------------------------------
\* exercised deviations as a bit mask over the positions in Tr.dev (TLC wraps long printed values)
RECURSIVE MaskOf(_, _)
MaskOf(u, i) == IF i > Len(Tr.dev) THEN 0 ELSE (IF Tr.dev[i] \in u THEN 2 ^ (i - 1) ELSE 0) + MaskOf(u, i + 1)

\* every violation instance (clause, slot | future number) is reported once, with the model status
\* AFTER this step:   <<"P", id, clause, instance, step, model still in sync, exercised deviations>>
Report(new, pos, st) == \A c \in new : PrintT(<<"P", Tr.id, c[1], c[2], pos, st.sync, MaskOf(st.used, 1)>>)
Tag(name, S) == { <<name, x>> : x \in S }

ObsStep(s) ==
    LET n == s.node
        touched == s.a # "drop"
        lg2 == IF touched THEN [oLog EXCEPT ![n] = E3(s.post[4])] ELSE oLog
        cm2 == IF touched THEN [oCommit EXCEPT ![n] = s.post[5]] ELSE oCommit
        ap2 == IF touched THEN [oApp EXCEPT ![n] = [i \in 1..Len(s.post[7]) |-> s.post[7][i]]] ELSE oApp
        sb2 == IF s.a \in {"submit", "forward"} THEN subm \cup {s.c} ELSE subm
        f2 == [k \in 1..Len(s.futs) |-> [cmd |-> s.futs[k][1], idx |-> s.futs[k][2]]]
        futChanged == { k \in 1..Len(oFuts) : oFuts[k].idx # Pending /\ ~(k <= Len(f2) /\ f2[k].idx = oFuts[k].idx) }
        falseNow == Tag("stability", StabilityBad(oLog, oCommit, lg2, cm2))
                    \cup Tag("agreement", AgreementBad(lg2, cm2))
                    \cup Tag("validity", ValidityBad(lg2, cm2, sb2))
                    \cup Tag("future_truth", FutureTruthBad(lg2, cm2, f2))
                    \cup Tag("future_changed", futChanged)
    IN /\ oLog' = lg2 /\ oCommit' = cm2 /\ oApp' = ap2 /\ oFuts' = f2 /\ subm' = sb2
       /\ bad' = bad \cup falseNow
       /\ Report(falseNow \ bad, l, ms')

\* ---- the implementation model stepped alongside -----------------------------
Fail(what) == /\ ms' = [ms EXCEPT !.sync = FALSE, !.mism = what, !.mpos = l]
              /\ UNCHANGED <<mnode, mmsgs, mfuts>>

Compare(tag, n, r, fs, obs, outb, s, consumed, exercised) ==
    IF Proj(r.ns) # obs THEN Fail("MODEL:" \o tag \o ":" \o FirstDiff(Proj(r.ns), obs))
    ELSE IF SeqBag(r.out) # outb THEN Fail("MODEL:" \o tag \o ":out")
    ELSE IF [k \in 1..Len(fs) |-> <<fs[k].cmd, fs[k].idx>>] # [k \in 1..Len(s.futs) |-> <<s.futs[k][1], s.futs[k][2]>>]
         THEN Fail("MODEL:" \o tag \o ":futs")
    ELSE /\ mnode' = [mnode EXCEPT ![n] = r.ns]
         /\ mmsgs' = ((mmsgs (-) consumed)
                        (-) (IF r.cancel THEN SetToBag({ x \in BagToSet(mmsgs) : IsTick(x) /\ x.dst = n }) ELSE EmptyBag))
                      (+) outb
         /\ mfuts' = fs /\ ms' = [ms EXCEPT !.used = @ \cup exercised]

\* a deviation is exercised by a step iff switching it off alone changes the observable outcome
\* (log entries compared without the tid component, which only the corrected acceptor fills in)
ProjD(ns) == [Proj(ns) EXCEPT !.log = [i \in 1..Len(ns.log) |-> <<ns.log[i][1], ns.log[i][2]>>]]
OutD(o) == [i \in 1..Len(o) |-> [o[i] EXCEPT !.log = [k \in 1..Len(@) |-> <<@[k][1], @[k][2]>>]]]
Differs(a, b) == ProjD(a.ns) # ProjD(b.ns) \/ OutD(a.out) # OutD(b.out) \/ a.res # b.res \/ a.cancel # b.cancel

ModelStep(s) ==
    IF ~ms.sync THEN UNCHANGED <<mnode, mmsgs, mfuts, ms>>
    ELSE
    \E n \in {s.node}, m \in {MsgOf(s.m)} :
    CASE s.a = "drop" ->
           IF ~BagIn(m, mmsgs) THEN Fail("MODEL:drop:unknown_message")
           ELSE /\ mmsgs' = mmsgs (-) SetToBag({m}) /\ UNCHANGED <<mnode, mfuts, ms>>
      [] s.a = "start" ->
           \E obs \in {ObsOf(s.post)}, outb \in {OutBag(s.out)}, r \in {C!Start(mnode[n], n)} :
           Compare("start", n, r, mfuts, obs, outb, s, EmptyBag, { d \in TDev : Differs(CX(d)!Start(mnode[n], n), r) })
      [] s.a = "submit" ->
           \E obs \in {ObsOf(s.post)}, outb \in {OutBag(s.out)},
              r \in {C!Submit(mnode[n], n, s.c, Len(mfuts) + 1)} :
           Compare("submit", n, r, Resolve(Append(mfuts, [cmd |-> s.c, idx |-> Pending]), r.res, 1), obs, outb, s,
                   EmptyBag, { d \in TDev : Differs(CX(d)!Submit(mnode[n], n, s.c, Len(mfuts) + 1), r) })
      [] s.a = "forward" ->
           \E obs \in {ObsOf(s.post)}, outb \in {OutBag(s.out)}, r \in {C!HForward(mnode[n], n, m)} :
           Compare("forward", n, r, Resolve(mfuts, r.res, 1), obs, outb, s, EmptyBag,
                   { d \in TDev : Differs(CX(d)!HForward(mnode[n], n, m), r) })
      [] s.a = "deliver" ->
           IF ~BagIn(m, mmsgs) THEN Fail("MODEL:" \o m.t \o ":unknown_message")
           ELSE IF m.dst # n THEN Fail("MODEL:" \o m.t \o ":wrong_node")
           ELSE \E obs \in {ObsOf(s.post)}, outb \in {OutBag(s.out)}, r \in {C!Handle(mnode[n], m)} :
                Compare(m.t, n, r, Resolve(mfuts, r.res, 1), obs, outb, s, SetToBag({m}),
                        { d \in TDev : Differs(CX(d)!Handle(mnode[n], m), r) })
      [] OTHER -> Fail("MODEL:unknown_action")

Finish(verdict, pos) ==
    /\ PrintT(<<"V", Tr.id, verdict, pos>>)
    /\ PrintT(<<"M", Tr.id, ms.mism, ms.mpos, MaskOf(ms.used, 1)>>)
    /\ ti' = ti + 1
    /\ IF ti < NT
       THEN LET T2 == Traces[ti + 1] IN
            /\ l' = 1
            /\ mnode' = [n \in 1..T2.n |-> Node0(n)]
            /\ mmsgs' = EmptyBag /\ mfuts' = <<>> /\ ms' = MS0
            /\ oLog' = [n \in 1..T2.n |-> <<>>] /\ oCommit' = [n \in 1..T2.n |-> 0]
            /\ oApp' = [n \in 1..T2.n |-> <<>>]
            /\ oFuts' = <<>> /\ subm' = {} /\ bad' = {}
       ELSE UNCHANGED <<l, mnode, mmsgs, mfuts, ms, oLog, oCommit, oApp, oFuts, subm, bad>>

ProgressFails == Tr.mode = "progress" /\ ~ProgressAll(oLog, oCommit, oApp, oFuts, Range(Tr.pcmds))
EndVerdict ==
    IF bad # {} \/ ProgressFails THEN "PROP"
    ELSE IF ms.mism # "none" THEN ms.mism
    ELSE "ACCEPT"

Next ==
    /\ ti <= NT
    /\ IF l > Len(Tr.steps)
       THEN /\ (ProgressFails => Report({<<"progress_established_leader", 0>>}, l - 1, ms))
            /\ Finish(EndVerdict, IF ms.mism # "none" THEN ms.mpos ELSE l - 1)
       ELSE \E s \in {Tr.steps[l]} : ModelStep(s) /\ ObsStep(s) /\ l' = l + 1 /\ ti' = ti

Spec == Init /\ [][Next]_vars
=============================================================================
