------------------------------- MODULE Multi -------------------------------
(* Model-checking wrapper around MultiCore: N nodes, a message pool (bag)     *)
(* with arbitrary delivery order (loss = never delivered), self-addressed     *)
(* heartbeat ticks in the same pool (any timing), clients that call start()   *)
(* on any candidate and submit() (+ _replicate_slot on a leader, as the       *)
(* repository's example does) on any node at any time.                        *)
(* The whole system state is one record S and every action is a pure step     *)
(* function on it, so that an exploration can start from the state reached by *)
(* a fixed schedule prefix (Prefix): the deep single-deviation counterexamples *)
(* are found exhaustively from a reachable mid-state at small cost.            *)
EXTENDS MultiCore, MultiContract, Bags

CONSTANTS Candidates,   \* nodes on which start() may be called
          Submitters,   \* nodes on which clients call submit()
          MaxBallot, MaxStarts, MaxCmds, MaxTicks,
          HB,           \* FALSE: heartbeat messages to peers are not sent (= never delivered)
          LeaderOnly,   \* TRUE: clients submit only to a node that reports is_leader
          QuietTicks,   \* TRUE: heartbeat ticks fire only while no message is in flight (delays are
                        \* bounded and much shorter than the heartbeat interval) and are not counted
          Prefix        \* schedule executed before the exploration starts (<<>> = none)

VARIABLE S
vars == <<S>>

SeqBag(s) == LET RECURSIVE F(_) F(i) == IF i > Len(s) THEN EmptyBag ELSE SetToBag({s[i]}) (+) F(i + 1) IN F(1)
KeepOut(out) == SelectSeq(out, LAMBDA m : HB \/ m.t # "hb" \/ m.self = 1)

RECURSIVE Resolve(_, _, _)
Resolve(fs, res, i) ==
    IF i > Len(res) THEN fs
    ELSE LET f == res[i][1] IN
         Resolve(IF f # NoFut /\ fs[f].idx = Pending THEN [fs EXCEPT ![f].idx = res[i][2]] ELSE fs, res, i + 1)

IsTick(m) == m.t = "hb" /\ m.self = 1
Timers(s, n) == { m \in BagToSet(s.msgs) : IsTick(m) /\ m.dst = n }

S0 == [node |-> [n \in Nodes |-> InitNode(n)], msgs |-> EmptyBag, futs |-> <<>>, submitted |-> {},
       nstart |-> 0, nticks |-> 0]

ApplyR(s, n, r, consumed) ==
    [s EXCEPT !.node[n] = r.ns,
              !.msgs = ((@ (-) consumed) (-) (IF r.cancel THEN SetToBag(Timers(s, n)) ELSE EmptyBag))
                         (+) SeqBag(KeepOut(r.out)),
              !.futs = Resolve(@, r.res, 1)]

PStart(s, n) == [ApplyR(s, n, Start(s.node[n], n), EmptyBag) EXCEPT !.nstart = @ + 1]
PSubmit(s, n) ==
    LET c == Len(s.futs) + 1
        s1 == [s EXCEPT !.futs = Append(@, [cmd |-> c, idx |-> Pending]), !.submitted = @ \cup {c}]
    IN ApplyR(s1, n, Submit(s.node[n], n, c, c), EmptyBag)
PDeliver(s, m) ==
    [ApplyR(s, m.dst, Handle(s.node[m.dst], m), SetToBag({m})) EXCEPT
        !.nticks = IF IsTick(m) /\ ~QuietTicks THEN @ + 1 ELSE @]

\* schedule prefixes: <<"start", n>>, <<"submit", n>>, <<"deliver", type, src, dst [, slot]>> (the prefixes
\* below only select messages that are unique in the pool)
PickMsg(s, c) == CHOOSE m \in BagToSet(s.msgs) : m.t = c[2] /\ m.src = c[3] /\ m.dst = c[4] /\ (Len(c) = 5 => m.slot = c[5])
RECURSIVE RunScript(_, _, _)
RunScript(s, sc, i) ==
    IF i > Len(sc) THEN s
    ELSE LET c == sc[i]
             s2 == CASE c[1] = "start"   -> PStart(s, c[2])
                     [] c[1] = "submit"  -> PSubmit(s, c[2])
                     [] c[1] = "deliver" -> PDeliver(s, PickMsg(s, c))
         IN RunScript(s2, sc, i + 1)

Elect(c, v) == << <<"start", c>>, <<"deliver", "prepare", c, v>>, <<"deliver", "promise", v, c>> >>
Commit(l, f) == << <<"submit", l>>, <<"deliver", "accept", l, f>>, <<"deliver", "accepted", f, l>> >>
PrefixNone == <<>>
PrefixLeader1 == Elect(1, 2)                                 \* n1 elected by n2's promise
PrefixLeader1Commit == Elect(1, 2) \o Commit(1, 2)           \* ... and one command decided through n2
PrefixTwoLeaders == Elect(1, 2) \o Elect(2, 3)               \* n1 elected by n2, then n2 elected by n3
\* n1 still believes it leads after adopting n2's ballot from an Accept (only with accept_keeps_leadership)
PrefixImpostor == PrefixTwoLeaders \o << <<"submit", 2>>, <<"deliver", "accept", 2, 1>>,
                                         <<"deliver", "accept", 2, 3>>, <<"deliver", "accepted", 3, 2>> >>
\* n3 (ballot (1,3)) holds an entry nobody saw; n1 is nacked once, then elected at (2,1) by n2
PrefixOrphan == Elect(3, 2) \o << <<"submit", 3>>, <<"start", 1>>, <<"deliver", "prepare", 1, 2>>,
                                  <<"deliver", "nack", 2, 1>> >> \o Elect(1, 2)
\* ... n1 submits two commands; only the Accept for slot 2 reaches n3 (which appends it after its orphan) and is acked
PrefixOrphanAck == PrefixOrphan \o << <<"submit", 1>>, <<"submit", 1>>, <<"deliver", "accept", 1, 3, 2>>,
                                      <<"deliver", "accepted", 3, 1, 2>> >>

Init == S = RunScript(S0, Prefix, 1)

ClientStart(n) ==
    /\ S.nstart < MaxStarts
    /\ S.node[n].cur[1] + 1 <= MaxBallot
    /\ S' = PStart(S, n)

ClientSubmit(n) ==
    /\ Len(S.futs) < MaxCmds
    /\ LeaderOnly => S.node[n].isL
    /\ S' = PSubmit(S, n)

Deliver(m) ==
    /\ BagIn(m, S.msgs)
    /\ IsTick(m) => IF QuietTicks THEN \A x \in BagToSet(S.msgs) : IsTick(x) ELSE S.nticks < MaxTicks
    /\ S' = PDeliver(S, m)

Next ==
    \/ \E n \in Candidates : ClientStart(n)
    \/ \E n \in Submitters : ClientSubmit(n)
    \/ \E m \in BagToSet(S.msgs) : Deliver(m)

Spec == Init /\ [][Next]_vars
DeliverSome == \E m \in BagToSet(S.msgs) : Deliver(m)
FairSpec == Spec /\ WF_vars(DeliverSome)

Logs(s) == [n \in Nodes |-> s.node[n].log]
Commits(s) == [n \in Nodes |-> s.node[n].commit]
Apps(s) == [n \in Nodes |-> s.node[n].app]

InvAgreement == Agreement(Logs(S), Commits(S))
InvValidity == Validity(Logs(S), Commits(S), S.submitted)
InvFutureTruth == FutureTruth(Logs(S), Commits(S), S.futs)
PropStability == [][Stability(Logs(S), Commits(S), Logs(S'), Commits(S'))]_vars

\* fault-free clause: with LeaderOnly (commands go to a node that reports is_leader), a single
\* candidate and no loss, every submitted command is eventually decided and applied everywhere
Progress == \A c \in 1..MaxCmds : (c \in S.submitted) ~> ProgressAll(Logs(S), Commits(S), Apps(S), S.futs, {c})
=============================================================================
