------------------------------ MODULE Election ------------------------------
(* Model-checking wrapper: N LeaderElection nodes, message bag with arbitrary *)
(* delivery order (loss = never delivered), timeout checks that may fire at   *)
(* any time with either outcome of the staleness test.  The strategy is       *)
(* chosen in the initial state, so one run covers Bully, Ring and Randomized. *)
(* seen = every <<term, leader>> ever reported by any node.                   *)
EXTENDS Integers, Sequences, FiniteSets, TLC, Bags, MiscContract

CONSTANTS N, Dev, Strategies, MaxTerm, MaxChecks

VARIABLES strat, node, msgs, seen, nchk
vars == <<strat, node, msgs, seen, nchk>>

INSTANCE ElectionCore WITH Strategy <- strat

SeqBag(s) == LET RECURSIVE F(_) F(i) == IF i > Len(s) THEN EmptyBag ELSE SetToBag({s[i]}) (+) F(i + 1) IN F(1)
Reports(nd) == { <<nd[n].term, nd[n].leader>> : n \in { k \in Nodes : nd[k].leader # 0 } }

Init == /\ strat \in Strategies
        /\ node = [n \in Nodes |-> InitNode] /\ msgs = EmptyBag /\ seen = {} /\ nchk = 0

Step(n, r, consumed) ==
    /\ r.ns.term <= MaxTerm
    /\ node' = [node EXCEPT ![n] = r.ns]
    /\ msgs' = (msgs (-) consumed) (+) SeqBag(r.out)
    /\ seen' = seen \cup Reports([node EXCEPT ![n] = r.ns])
    /\ UNCHANGED strat

Check(n, stale) == nchk < MaxChecks /\ nchk' = nchk + 1 /\ Step(n, HCheck(node[n], n, stale), EmptyBag)
Deliver(m) == BagIn(m, msgs) /\ Step(m.dst, Handle(node[m.dst], m), SetToBag({m})) /\ UNCHANGED nchk

Next == (\E n \in Nodes, st \in BOOLEAN : Check(n, st)) \/ (\E m \in BagToSet(msgs) : Deliver(m))
Spec == Init /\ [][Next]_vars

InvOneLeaderPerTerm == OneLeaderPerTerm(seen)
=============================================================================
