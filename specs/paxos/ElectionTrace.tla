--------------------------- MODULE ElectionTrace ---------------------------
(* Trace validation for LeaderElection (C12).  Input: JSON array of           *)
(*  [ id, n, strategy, dev, steps : << [a ("check"|"deliver"), node, stale,   *)
(*      m <<t,src,dst,who,term,cands>>, post <<leader,term,inp>>, out] >> ]   *)
(* Per step: the observed (term, leader) report of the handling node is added *)
(* to `seen` and OneLeaderPerTerm evaluated -> "PROP:one_leader_per_term";    *)
(* ElectionCore is stepped alongside -> "MODEL:<action>:<field>".             *)
EXTENDS Integers, Sequences, FiniteSets, TLC, Json, IOUtils, Bags, MiscContract

Traces == JsonDeserialize(IOEnv.TRACE_FILE)
NT == Len(Traces)
VARIABLES ti, l, mnode, mmsgs, sync, mism, mpos, seen, bad
vars == <<ti, l, mnode, mmsgs, sync, mism, mpos, seen, bad>>
Tr == Traces[IF ti <= NT THEN ti ELSE NT]
Range(s) == { s[i] : i \in DOMAIN s }
C == INSTANCE ElectionCore WITH N <- Tr.n, Dev <- Range(Tr.dev), Strategy <- Tr.strategy

MsgOf(m) == [t |-> m[1], src |-> m[2], dst |-> m[3], who |-> m[4], term |-> m[5], cands |-> [i \in 1..Len(m[6]) |-> m[6][i]]]
ObsOf(p) == [leader |-> p[1], term |-> p[2], inp |-> p[3]]
SeqBag(s) == LET RECURSIVE F(_) F(i) == IF i > Len(s) THEN EmptyBag ELSE SetToBag({s[i]}) (+) F(i + 1) IN F(1)
OutBag(o) == SeqBag([i \in 1..Len(o) |-> MsgOf(o[i])])
FirstDiff(a, b) == IF a.leader # b.leader THEN "leader" ELSE IF a.term # b.term THEN "term" ELSE IF a.inp # b.inp THEN "inp" ELSE ""

Init == /\ ti = 1 /\ l = 1 /\ mnode = [n \in 1..Tr.n |-> C!InitNode] /\ mmsgs = EmptyBag
        /\ sync = TRUE /\ mism = "none" /\ mpos = 0 /\ seen = {} /\ bad = ""

Fail(what) == sync' = FALSE /\ mism' = what /\ mpos' = l /\ UNCHANGED <<mnode, mmsgs>>
Compare(tag, n, r, obs, outb, consumed) ==
    IF r.ns # obs THEN Fail("MODEL:" \o tag \o ":" \o FirstDiff(r.ns, obs))
    ELSE IF SeqBag(r.out) # outb THEN Fail("MODEL:" \o tag \o ":out")
    ELSE mnode' = [mnode EXCEPT ![n] = r.ns] /\ mmsgs' = (mmsgs (-) consumed) (+) outb /\ UNCHANGED <<sync, mism, mpos>>

ModelStep(s) ==
    IF ~sync THEN UNCHANGED <<mnode, mmsgs, sync, mism, mpos>>
    ELSE \E n \in {s.node}, m \in {MsgOf(s.m)}, obs \in {ObsOf(s.post)}, outb \in {OutBag(s.out)} :
         CASE s.a = "check" -> \E r \in {C!HCheck(mnode[n], n, s.stale)} : Compare("check", n, r, obs, outb, EmptyBag)
           [] s.a = "deliver" ->
                IF ~BagIn(m, mmsgs) THEN Fail("MODEL:" \o m.t \o ":unknown_message")
                ELSE \E r \in {C!Handle(mnode[n], m)} : Compare(m.t, n, r, obs, outb, SetToBag({m}))
           [] OTHER -> Fail("MODEL:unknown_action")

ObsStep(s) ==
    LET s2 == IF s.post[1] # 0 THEN seen \cup {<<s.post[2], s.post[1]>>} ELSE seen
    IN seen' = s2 /\ bad' = IF ~OneLeaderPerTerm(s2) THEN "PROP:one_leader_per_term" ELSE ""

Finish(verdict, pos) ==
    /\ PrintT(<<"V", Tr.id, verdict, pos>>) /\ PrintT(<<"M", Tr.id, mism, mpos>>)
    /\ ti' = ti + 1 /\ l' = 1
    /\ mnode' = [n \in 1..(IF ti < NT THEN Traces[ti + 1].n ELSE 1) |-> [leader |-> 0, term |-> 0, inp |-> FALSE]]
    /\ mmsgs' = EmptyBag /\ sync' = TRUE /\ mism' = "none" /\ mpos' = 0 /\ seen' = {} /\ bad' = ""

Next ==
    /\ ti <= NT
    /\ IF bad # "" THEN Finish(bad, l - 1)
       ELSE IF l > Len(Tr.steps) THEN Finish(IF mism # "none" THEN mism ELSE "ACCEPT", IF mism # "none" THEN mpos ELSE l - 1)
       ELSE \E s \in {Tr.steps[l]} : ObsStep(s) /\ ModelStep(s) /\ l' = l + 1 /\ ti' = ti
Spec == Init /\ [][Next]_vars
=============================================================================
