----------------------------- MODULE LockTrace -----------------------------
(* Trace validation for DistributedLock (C12).  Input: JSON array of          *)
(*  [ id, dev, maxw, steps : << [a ("acquire"|"try"|"release"|"expire"), l,   *)
(*      r (requester | token), ret, post <<next, <<lock, holder, token,       *)
(*      <<waiter requesters>> >>...>>, grants << <<lock, token>> ... >>       *)
(*      (distinct grants observed so far, in order of first observation)] >> ]*)
(* Contract TokensIncrease on the observed grants -> "PROP:tokens_increase";  *)
(* LockCore stepped alongside -> "MODEL:<action>:<field>".                    *)
EXTENDS Integers, Sequences, FiniteSets, TLC, Json, IOUtils, MiscContract

Traces == JsonDeserialize(IOEnv.TRACE_FILE)
NT == Len(Traces)
VARIABLES ti, l, mst, mhist, mfut, sync, mism, mpos, bad
vars == <<ti, l, mst, mhist, mfut, sync, mism, mpos, bad>>
Tr == Traces[IF ti <= NT THEN ti ELSE NT]
Range(s) == { s[i] : i \in DOMAIN s }
C == INSTANCE LockCore WITH Dev <- Range(Tr.dev), MaxWaiters <- Tr.maxw

\* comparable projection of the manager state: next token, and per lock (holder, token, waiter names)
ProjM(s) == [next |-> s.next,
             locks |-> [k \in DOMAIN s.locks |-> <<s.locks[k].holder, s.locks[k].token,
                                                   [i \in 1..Len(s.locks[k].waiters) |-> s.locks[k].waiters[i][1]]>>]]
ProjO(p) == [next |-> p[1],
             locks |-> [k \in { e[1] : e \in Range(p[2]) } |->
                          LET e == CHOOSE e \in Range(p[2]) : e[1] = k IN <<e[2], e[3], [i \in 1..Len(e[4]) |-> e[4][i]]>>]]
Pairs(g) == [i \in 1..Len(g) |-> <<g[i][1], g[i][2]>>]

Init == ti = 1 /\ l = 1 /\ mst = C!Init0 /\ mhist = <<>> /\ mfut = 0 /\ sync = TRUE /\ mism = "none" /\ mpos = 0 /\ bad = ""

Fail(what) == sync' = FALSE /\ mism' = what /\ mpos' = l /\ UNCHANGED <<mst, mhist, mfut>>
Compare(tag, o, s, nf) ==
    IF ProjM(o.st) # ProjO(s.post) THEN Fail("MODEL:" \o tag \o ":state")
    ELSE IF s.a \in {"try", "release"} /\ o.ret # s.ret THEN Fail("MODEL:" \o tag \o ":return")
    ELSE IF mhist \o Pairs(o.grants) # Pairs(s.grants) THEN Fail("MODEL:" \o tag \o ":grants")
    ELSE mst' = o.st /\ mhist' = mhist \o Pairs(o.grants) /\ mfut' = nf /\ UNCHANGED <<sync, mism, mpos>>

ModelStep(s) ==
    IF ~sync THEN UNCHANGED <<mst, mhist, mfut, sync, mism, mpos>>
    ELSE CASE s.a = "acquire" -> \E o \in {C!Acquire(mst, s.l, s.r, mfut + 1)} : Compare("acquire", o, s, mfut + 1)
           [] s.a = "try"     -> \E o \in {C!TryAcquire(mst, s.l, s.r)} : Compare("try_acquire", o, s, mfut)
           [] s.a = "release" -> \E o \in {C!Release(mst, s.l, s.r)} : Compare("release", o, s, mfut)
           [] s.a = "expire"  -> \E o \in {C!Expire(mst, s.l, s.r)} : Compare("expire", o, s, mfut)
           [] OTHER -> Fail("MODEL:unknown_action")

ObsStep(s) == bad' = IF ~TokensIncrease(Pairs(s.grants)) THEN "PROP:tokens_increase" ELSE ""

Finish(verdict, pos) ==
    /\ PrintT(<<"V", Tr.id, verdict, pos>>) /\ PrintT(<<"M", Tr.id, mism, mpos>>)
    /\ ti' = ti + 1 /\ l' = 1 /\ mst' = [locks |-> <<>>, next |-> 1] /\ mhist' = <<>> /\ mfut' = 0
    /\ sync' = TRUE /\ mism' = "none" /\ mpos' = 0 /\ bad' = ""

Next ==
    /\ ti <= NT
    /\ IF bad # "" THEN Finish(bad, l - 1)
       ELSE IF l > Len(Tr.steps) THEN Finish(IF mism # "none" THEN mism ELSE "ACCEPT", IF mism # "none" THEN mpos ELSE l - 1)
       ELSE \E s \in {Tr.steps[l]} : ObsStep(s) /\ ModelStep(s) /\ l' = l + 1 /\ ti' = ti
Spec == Init /\ [][Next]_vars
=============================================================================
