------------------------------ MODULE MultiCore ------------------------------
(* Multi-Paxos (multi_paxos.py, MultiPaxosNode) and Flexible Paxos            *)
(* (flexible_paxos.py, FlexiblePaxosNode), transcribed handler by handler.    *)
(* The two classes are the same protocol up to: configurable phase-1/phase-2  *)
(* quorums (Flex), the handling of the self-addressed heartbeat tick, and the *)
(* MultiPaxosForward handler (Multi only).  Constant module: handlers are     *)
(* pure operators (node state, message) -> [ns, out, res, cancel].            *)
(*                                                                            *)
(* Encoding: nodes 1..N (n1..n5), ballot <<number, node>>, commands are       *)
(* positive integers, a log entry is <<term, command, tid>> where tid is the   *)
(* node part of the ballot it was accepted under (always 0 when the acceptor  *)
(* log handling is as coded: LogEntry.term is the ballot number only).        *)
(*                                                                            *)
(* Node state:  cur (_current_ballot), leader (_leader, 0 = None), isL        *)
(*  (_is_leader), log, commit (log.commit_index), la (_last_applied), app     *)
(*  (commands applied to the state machine, in order), sfut (_slot_futures),  *)
(*  sacks (_slot_acks), pend (_pending_commands), p1 (_phase1_responses:      *)
(*  ballot number -> sequence of promised logs), ackers (corrected design     *)
(*  only: slot -> [b: ballot the acks were collected under, s: acceptors]), hold *)
(*  (corrected design only: Accepts received ahead of a gap).                 *)
(*                                                                            *)
(* Deviations (Dev); each names what the code does, the other branch is the   *)
(* corrected design:                                                          *)
(*  "takeover_ignores_promised_entries"  _handle_promise/_become_leader: a    *)
(*     node becomes leader on every promise at or beyond the quorum, whatever *)
(*     its current ballot is by then, and never looks at the promised logs.   *)
(*     Corrected: exactly at the quorum, only if the ballot is still its own, *)
(*     adopting for every uncommitted slot the highest-term promised entry.   *)
(*  "slot_acks_ignore_ballot"  _handle_accepted counts Accepted messages per  *)
(*     slot number only (any ballot, any sender, leader or not) and commits   *)
(*     the whole prefix up to that slot.  Corrected: distinct acceptors of    *)
(*     the leader's current ballot, commit = longest prefix with a quorum.    *)
(*  "accept_keeps_leadership"  _handle_accept adopts a higher ballot without  *)
(*     clearing _is_leader.  Corrected: steps down.                           *)
(*  "accept_rewrites_log_blindly"  the acceptor's log handling as coded:      *)
(*     _handle_accept appends at the END of the log whatever the slot number  *)
(*     is, compares entries by ballot NUMBER only (two leaders can share a    *)
(*     number), truncates the log (and commit_index) on a mismatch, keeps the *)
(*     _slot_futures entry of a replaced slot, and followers commit whatever  *)
(*     entries they hold up to the leader's commit index.  Corrected: entries *)
(*     carry the full ballot, an Accept ahead of a gap is held back until the *)
(*     gap is filled, uncommitted slots are replaced in place (future dropped *)
(*     if the command changes), and only entries accepted under the           *)
(*     announcing ballot are committed.                                       *)
(*  "self_heartbeat_demotes_leader"  (Multi only) the self-addressed          *)
(*     heartbeat tick is handled like a peer's heartbeat.  Corrected (and     *)
(*     Flexible Paxos as coded): the tick re-sends heartbeats.                *)
(*  "commit_scan_stops_at_acked_slot"  (plausible mutation of the repaired     *)
(*     _handle_accepted) the prefix-commit scan stops at the slot of the ack   *)
(*     being processed: a later slot whose quorum completed earlier is never   *)
(*     committed (Progress).                                                  *)
EXTENDS Integers, Sequences, FiniteSets, TLC

CONSTANTS N, Dev,
          Flex,      \* TRUE: FlexiblePaxosNode, FALSE: MultiPaxosNode
          Q1, Q2     \* phase-1 / phase-2 quorum sizes (Multi: both the majority)

Nodes == 1..N
NoFut == 0
NoAcks == [b |-> <<0, 0>>, s |-> {}]

BLess(a, b) == a[1] < b[1] \/ (a[1] = b[1] /\ a[2] < b[2])
Put(f, k, v) == [x \in (DOMAIN f) \cup {k} |-> IF x = k THEN v ELSE f[x]]
Del(f, k) == [x \in (DOMAIN f) \ {k} |-> f[x]]
Get(f, k, d) == IF k \in DOMAIN f THEN f[k] ELSE d
Max(a, b) == IF a > b THEN a ELSE b
Min(a, b) == IF a < b THEN a ELSE b

NumOnly == "accept_rewrites_log_blindly" \in Dev
Entry(bn, bi, cmd) == <<bn, cmd, IF NumOnly THEN 0 ELSE bi>>
Under(e, bn, bi) == e[1] = bn /\ (NumOnly \/ e[3] = bi)          \* entry accepted under ballot (bn, bi)
ELess(a, b) == a[1] < b[1] \/ (a[1] = b[1] /\ a[3] < b[3])

\* message: t, src, dst, bn, bi (ballot), slot, cmd, ci (commit index), self (1 = own timer), log
Msg(t, s, d, bn, bi, slot, cmd, ci, self, lg) ==
    [t |-> t, src |-> s, dst |-> d, bn |-> bn, bi |-> bi, slot |-> slot, cmd |-> cmd, ci |-> ci,
     self |-> self, log |-> lg]
PeerSeq(n) == [i \in 1..(N - 1) |-> IF i < n THEN i ELSE i + 1]
Bcast(n, t, bn, bi, slot, cmd, ci) ==
    [i \in 1..(N - 1) |-> Msg(t, n, PeerSeq(n)[i], bn, bi, slot, cmd, ci, 0, <<>>)]

InitNode(n) == [cur |-> <<0, n>>, leader |-> 0, isL |-> FALSE, log |-> <<>>, commit |-> 0, la |-> 0,
                app |-> <<>>, sfut |-> <<>>, sacks |-> <<>>, pend |-> <<>>, p1 |-> <<>>, ackers |-> <<>>, hold |-> {}]

R(ns, out, res, cancel) == [ns |-> ns, out |-> out, res |-> res, cancel |-> cancel]
Noop(ns) == R(ns, <<>>, <<>>, FALSE)

\* _apply_committed for the entries (oldCommit, newCommit]: returns [ns, res]
RECURSIVE ApplyFrom(_, _, _, _)
ApplyFrom(ns, i, hi, res) ==
    IF i > hi THEN [ns |-> ns, res |-> res]
    ELSE IF i > ns.la
         THEN LET f == Get(ns.sfut, i, NoFut)
                  ns1 == [ns EXCEPT !.app = Append(@, ns.log[i][2]), !.la = i, !.sfut = Del(@, i)]
              IN ApplyFrom(ns1, i + 1, hi, IF i \in DOMAIN ns.sfut THEN Append(res, <<f, i>>) ELSE res)
         ELSE ApplyFrom(ns, i + 1, hi, res)

\* log.advance_commit(k) + _apply_committed
Advance(ns, k) ==
    IF k <= ns.commit THEN [ns |-> ns, res |-> <<>>]
    ELSE LET c2 == Min(k, Len(ns.log)) IN ApplyFrom([ns EXCEPT !.commit = c2], ns.commit + 1, c2, <<>>)

\* _assign_slot
Assign(ns, n, cmd, fut) ==
    LET slot == Len(ns.log) + 1 IN
    [ns EXCEPT !.log = Append(@, Entry(ns.cur[1], ns.cur[2], cmd)), !.sfut = Put(@, slot, fut),
               !.sacks = Put(@, slot, 1), !.ackers = Put(@, slot, [b |-> ns.cur, s |-> {n}])]

RECURSIVE AssignAll(_, _, _, _)
AssignAll(ns, n, pend, i) ==
    IF i > Len(pend) THEN ns ELSE AssignAll(Assign(ns, n, pend[i][1], pend[i][2]), n, pend, i + 1)

\* _replicate_slot
Replicate(ns, n, slot) ==
    IF slot < 1 \/ slot > Len(ns.log) THEN <<>>
    ELSE Bcast(n, "accept", ns.cur[1], ns.cur[2], slot, ns.log[slot][2], ns.commit)

RECURSIVE ReplicateFrom(_, _, _)
ReplicateFrom(ns, n, slot) ==
    IF slot > Len(ns.log) THEN <<>> ELSE Replicate(ns, n, slot) \o ReplicateFrom(ns, n, slot + 1)

\* _send_heartbeat: heartbeats to the peers + the self-addressed tick (previous tick cancelled)
Heartbeats(ns, n) ==
    Bcast(n, "hb", ns.cur[1], ns.cur[2], 0, 0, ns.commit)
      \o << Msg("hb", n, n, ns.cur[1], ns.cur[2], 0, 0, ns.commit, 1, <<>>) >>

\* highest-ballot entry promised for slot i (own log included); <<0,0,0>> if nobody has one
RECURSIVE BestAt(_, _, _, _)
BestAt(logs, i, k, best) ==
    IF k > Len(logs) THEN best
    ELSE IF Len(logs[k]) >= i /\ ELess(best, logs[k][i]) THEN BestAt(logs, i, k + 1, logs[k][i])
         ELSE BestAt(logs, i, k + 1, best)
MaxLen(logs) == LET S == { Len(logs[k]) : k \in 1..Len(logs) } IN
                IF S = {} THEN 0 ELSE CHOOSE x \in S : \A y \in S : y <= x

\* _become_leader
BecomeLeader(ns, n, bn) ==
    LET asCode == "takeover_ignores_promised_entries" \in Dev
        logs == Append(ns.p1[bn], ns.log)
        ml == MaxLen(logs)
        merged == [i \in 1..ml |-> IF i <= ns.commit THEN ns.log[i]
                                   ELSE Entry(ns.cur[1], ns.cur[2], BestAt(logs, i, 1, <<0, 0, 0>>)[2])]
        \* corrected: a future whose slot now holds another command is dropped
        keepF == { s \in DOMAIN ns.sfut : s <= Len(ns.log) /\ s <= ml /\ merged[s][2] = ns.log[s][2] }
        ns0 == IF asCode THEN ns
               ELSE [ns EXCEPT !.log = merged,
                               !.sfut = [s \in keepF |-> ns.sfut[s]],
                               !.sacks = [s \in (DOMAIN ns.sacks \cup (ns.commit + 1)..ml) |->
                                            IF s > ns.commit THEN 1 ELSE ns.sacks[s]],
                               !.ackers = [s \in (ns.commit + 1)..ml |-> [b |-> ns.cur, s |-> {n}]]]
        ns1 == [ns0 EXCEPT !.isL = TRUE, !.leader = n]
        ns2 == [AssignAll(ns1, n, ns1.pend, 1) EXCEPT !.pend = <<>>]
    IN R(ns2, Heartbeats(ns2, n) \o ReplicateFrom(ns2, n, ns2.commit + 1), <<>>, TRUE)

\* start() = _begin_phase1
Start(ns, n) ==
    LET bn == ns.cur[1] + 1
        ns1 == [ns EXCEPT !.cur = <<bn, n>>, !.p1 = Put(@, bn, << <<>> >>)]
        out == Bcast(n, "prepare", bn, n, 0, 0, 0)
    IN IF 1 >= Q1
       THEN LET b == BecomeLeader(ns1, n, bn) IN R(b.ns, out \o b.out, b.res, b.cancel)
       ELSE R(ns1, out, <<>>, FALSE)

\* client: f = node.submit(cmd); if node.is_leader: node._replicate_slot(node.log.last_index)
Submit(ns, n, cmd, fut) ==
    IF ~ns.isL THEN R([ns EXCEPT !.pend = Append(@, <<cmd, fut>>)], <<>>, <<>>, FALSE)
    ELSE LET ns1 == Assign(ns, n, cmd, fut) IN R(ns1, Replicate(ns1, n, Len(ns1.log)), <<>>, FALSE)

HPrepare(ns, n, m) ==
    LET b == <<m.bn, m.bi>> IN
    IF BLess(b, ns.cur)
    THEN R(ns, << Msg("nack", n, m.src, ns.cur[1], ns.cur[2], 0, 0, 0, 0, <<>>) >>, <<>>, FALSE)
    ELSE R([ns EXCEPT !.cur = b, !.isL = FALSE],
           << Msg("promise", n, m.src, m.bn, m.bi, 0, 0, ns.commit, 0, ns.log) >>, <<>>, FALSE)

HPromise(ns, n, m) ==
    IF m.bn \notin DOMAIN ns.p1 THEN Noop(ns)
    ELSE LET ns1 == [ns EXCEPT !.p1 = Put(@, m.bn, Append(ns.p1[m.bn], m.log))]
             k == Len(ns1.p1[m.bn])
         IN IF "takeover_ignores_promised_entries" \in Dev
            THEN IF k >= Q1 THEN BecomeLeader(ns1, n, m.bn) ELSE Noop(ns1)
            ELSE IF k = Q1 /\ ns.cur = <<m.bn, n>> THEN BecomeLeader(ns1, n, m.bn) ELSE Noop(ns1)

\* follower side of the commit index carried by Accept / Heartbeat
FollowerCommit(ns, ci, bn, bi) ==
    IF "accept_rewrites_log_blindly" \in Dev THEN Advance(ns, ci)
    ELSE LET ok == { k \in (ns.commit + 1)..Min(ci, Len(ns.log)) :
                        \A i \in (ns.commit + 1)..k : Under(ns.log[i], bn, bi) }
         IN IF ok = {} THEN [ns |-> ns, res |-> <<>>]
            ELSE Advance(ns, CHOOSE k \in ok : \A j \in ok : j <= k)

\* corrected design only: append the held-back Accepts of the current ballot that have become contiguous
RECURSIVE Drain(_, _, _)
Drain(ns, n, out) ==
    LET fit == { h \in ns.hold : h[3] = Len(ns.log) + 1 /\ <<h[1], h[2]>> = ns.cur }
    IN IF fit = {} THEN [ns |-> [ns EXCEPT !.hold = { h \in @ : ~BLess(<<h[1], h[2]>>, ns.cur) /\ h[3] > Len(ns.log) }],
                         out |-> out]
       ELSE LET h == CHOOSE h \in fit : TRUE IN
            Drain([ns EXCEPT !.log = Append(@, Entry(h[1], h[2], h[4])), !.hold = @ \ {h}], n,
                  Append(out, Msg("accepted", n, h[5], h[1], 0, h[3], 0, 0, 0, <<>>)))

HAccept(ns, n, m) ==
    LET b == <<m.bn, m.bi>> IN
    IF BLess(b, ns.cur)
    THEN R(ns, << Msg("nack", n, m.src, ns.cur[1], ns.cur[2], 0, 0, 0, 0, <<>>) >>, <<>>, FALSE)
    ELSE
    LET ns1 == [ns EXCEPT !.cur = b, !.leader = m.bi,
                          !.isL = IF "accept_keeps_leadership" \in Dev \/ m.bi = n THEN @ ELSE FALSE]
        ack == << Msg("accepted", n, m.src, m.bn, 0, m.slot, 0, 0, 0, <<>>) >>
    IN
    IF "accept_rewrites_log_blindly" \in Dev
    THEN LET ns2 == IF m.slot > Len(ns1.log) THEN [ns1 EXCEPT !.log = Append(@, Entry(m.bn, m.bi, m.cmd))]
                    ELSE IF m.slot >= 1 /\ ns1.log[m.slot][1] # m.bn
                         THEN [ns1 EXCEPT !.log = Append(SubSeq(@, 1, m.slot - 1), Entry(m.bn, m.bi, m.cmd)),
                                          !.commit = IF @ >= m.slot THEN m.slot - 1 ELSE @]
                         ELSE ns1
             a == FollowerCommit(ns2, m.ci, m.bn, m.bi)
         IN R(a.ns, ack, a.res, FALSE)
    ELSE IF m.slot < 1 THEN R(ns1, <<>>, <<>>, FALSE)
    ELSE IF m.slot > Len(ns1.log) + 1      \* gap: held back until the missing slots arrive (no ack yet)
    THEN R([ns1 EXCEPT !.hold = @ \cup {<<m.bn, m.bi, m.slot, m.cmd, m.src>>}], <<>>, <<>>, FALSE)
    ELSE LET changed == m.slot <= Len(ns1.log) /\ m.slot > ns1.commit /\ ns1.log[m.slot][2] # m.cmd
             ns2 == IF m.slot = Len(ns1.log) + 1 THEN [ns1 EXCEPT !.log = Append(@, Entry(m.bn, m.bi, m.cmd))]
                    ELSE IF m.slot <= ns1.commit THEN ns1
                    ELSE [ns1 EXCEPT !.log[m.slot] = Entry(m.bn, m.bi, m.cmd)]
             ns3 == IF changed THEN [ns2 EXCEPT !.sfut = Del(@, m.slot)] ELSE ns2
             d == Drain(ns3, n, <<>>)
             a == FollowerCommit(d.ns, m.ci, m.bn, m.bi)
         IN R(a.ns, ack \o d.out, a.res, FALSE)

RECURSIVE QuorumPrefix(_, _, _)
QuorumPrefix(ns, k, hi) ==
    IF k + 1 <= hi /\ Get(ns.ackers, k + 1, NoAcks).b = ns.cur
                   /\ Cardinality(Get(ns.ackers, k + 1, NoAcks).s) >= Q2
    THEN QuorumPrefix(ns, k + 1, hi) ELSE k

HAccepted(ns, n, m) ==
    IF "slot_acks_ignore_ballot" \in Dev
    THEN LET c == Get(ns.sacks, m.slot, 0) + 1
             ns1 == [ns EXCEPT !.sacks = Put(@, m.slot, c)]
         IN IF c >= Q2 /\ m.slot > ns.commit
            THEN LET a == Advance(ns1, m.slot) IN R(a.ns, <<>>, a.res, FALSE)
            ELSE Noop(ns1)
    ELSE IF ~(ns.isL /\ ns.cur = <<m.bn, n>> /\ m.slot >= 1 /\ m.slot <= Len(ns.log)) THEN Noop(ns)
    ELSE LET old == Get(ns.ackers, m.slot, NoAcks)
             \* acks collected under an older ballot do not count: start again from the leader itself
             s2 == (IF old.b = ns.cur THEN old.s ELSE {n}) \cup {m.src}
             ns1 == [ns EXCEPT !.ackers = Put(@, m.slot, [b |-> ns.cur, s |-> s2]),
                               !.sacks = Put(@, m.slot, Cardinality(s2))]
             hi == IF "commit_scan_stops_at_acked_slot" \in Dev THEN m.slot ELSE Len(ns1.log)
             a == Advance(ns1, QuorumPrefix(ns1, ns1.commit, hi))
         IN R(a.ns, <<>>, a.res, FALSE)

HHeartbeat(ns, n, m) ==
    LET b == <<m.bn, m.bi>>
        tick == m.self = 1 /\ (Flex \/ "self_heartbeat_demotes_leader" \notin Dev)
    IN IF tick
       THEN IF ns.isL THEN R(ns, Heartbeats(ns, n), <<>>, TRUE) ELSE Noop(ns)
       ELSE IF BLess(b, ns.cur) THEN Noop(ns)
       ELSE LET ns1 == [ns EXCEPT !.cur = b, !.leader = m.bi, !.isL = FALSE]
                a == FollowerCommit(ns1, m.ci, m.bn, m.bi)
            IN R(a.ns, <<>>, a.res, FALSE)

HNack(ns, n, m) ==
    IF BLess(ns.cur, <<m.bn, m.bi>>) THEN Noop([ns EXCEPT !.cur = <<m.bn, m.bi>>, !.isL = FALSE]) ELSE Noop(ns)

\* MultiPaxosForward (Multi only; Flexible Paxos has no such handler)
HForward(ns, n, m) ==
    IF Flex \/ ~ns.isL THEN Noop(ns)
    ELSE LET ns1 == Assign(ns, n, m.cmd, NoFut) IN R(ns1, Replicate(ns1, n, Len(ns1.log)), <<>>, FALSE)

Handle(ns, m) ==
    LET n == m.dst IN
    CASE m.t = "prepare"  -> HPrepare(ns, n, m)
      [] m.t = "promise"  -> HPromise(ns, n, m)
      [] m.t = "nack"     -> HNack(ns, n, m)
      [] m.t = "accept"   -> HAccept(ns, n, m)
      [] m.t = "accepted" -> HAccepted(ns, n, m)
      [] m.t = "hb"       -> HHeartbeat(ns, n, m)
      [] m.t = "forward"  -> HForward(ns, n, m)
      [] OTHER            -> Noop(ns)
=============================================================================
