-------------------------------- MODULE Lock --------------------------------
(* Model-checking wrapper for the lock manager: clients acquire / try_acquire *)
(* / release with the token they hold (or a stale one), lease-expiry events   *)
(* of any earlier grant fire at any time.  hist = grants in issue order.      *)
EXTENDS LockCore, MiscContract

CONSTANTS Locks, Clients, MaxOps
VARIABLES st, hist, nfut, nops
vars == <<st, hist, nfut, nops>>

Init == st = Init0 /\ hist = <<>> /\ nfut = 0 /\ nops = 0
Do(o) == st' = o.st /\ hist' = hist \o [i \in 1..Len(o.grants) |-> <<o.grants[i][1], o.grants[i][2]>>] /\ nops' = nops + 1
Tokens == { hist[i][2] : i \in DOMAIN hist }

Next ==
    /\ nops < MaxOps
    /\ \/ \E l \in Locks, c \in Clients : Do(Acquire(st, l, c, nfut + 1)) /\ nfut' = nfut + 1
       \/ \E l \in Locks, c \in Clients : Do(TryAcquire(st, l, c)) /\ UNCHANGED nfut
       \/ \E l \in Locks, t \in Tokens : Do(Release(st, l, t)) /\ UNCHANGED nfut
       \/ \E l \in Locks, t \in Tokens : Do(Expire(st, l, t)) /\ UNCHANGED nfut
Spec == Init /\ [][Next]_vars
InvTokensIncrease == TokensIncrease(hist)
=============================================================================
