----------------------------- MODULE PaxosTrace -----------------------------
(* Trace validation for single-decree Paxos (C12).                            *)
(* Input: IOEnv.TRACE_FILE = JSON array of executions recorded from real      *)
(* PaxosNode objects (direct drive or inside a real Simulation):              *)
(*  [ id, n (cluster size), dev (deviation names the model is run with),      *)
(*    mode ("safety" | "progress"), pval (value of the single proposal in     *)
(*    progress mode, else 0),                                                 *)
(*    steps : << [a ("propose"|"deliver"|"drop"), node, v,                    *)
(*               m  (message <<t,src,dst,bn,bi,an,ai,v>>),                    *)
(*               post (projection of the handling node after the step:        *)
(*                     <<prom,accB,accV,cur,p1,p2,pv,fut,dec,dval>>),          *)
(*               out  (messages/timers returned by the handler),              *)
(*               futs (value of every propose() future, -1 = pending)] >> ]   *)
(* Every step (1) updates the observed cluster state and evaluates the        *)
(* contract (PaxosContract) on it -> "PROP:<clause>", and (2) steps PaxosCore *)
(* alongside and compares node state, emitted messages and futures ->         *)
(* "MODEL:<action>:<field>" (drift).  While the model is in sync it also      *)
(* records which deviations were exercised (the step result differs when that *)
(* deviation alone is switched off).  Two lines per trace:                    *)
(*    <<"P", id, clause, step, model in sync, exercised>>  once per false clause *)
(*    <<"V", id, verdict, pos>>   verdict = ACCEPT | PROP | MODEL:..            *)
(*    <<"M", id, first model mismatch or "none", pos, exercised deviations>>  *)
EXTENDS Integers, Sequences, FiniteSets, TLC, Json, IOUtils, Bags, PaxosContract

Traces == JsonDeserialize(IOEnv.TRACE_FILE)
NT == Len(Traces)

VARIABLES ti, l,
          mnode, mmsgs, mfuts,        \* model state stepped alongside
          ms,                         \* [sync, mism, mpos, used]: model status
          oDec, oDval, oFuts, prop,   \* observed state
          bad                         \* contract clauses found false so far (each reported once)
vars == <<ti, l, mnode, mmsgs, mfuts, ms, oDec, oDval, oFuts, prop, bad>>

Tr == Traces[IF ti <= NT THEN ti ELSE NT]
Range(s) == { s[i] : i \in DOMAIN s }
TDev == Range(Tr.dev)

C == INSTANCE PaxosCore WITH N <- Tr.n, Dev <- TDev, Learn <- TRUE
CX(d) == INSTANCE PaxosCore WITH N <- Tr.n, Dev <- TDev \ {d}, Learn <- TRUE

\* ---- JSON -> model representation ------------------------------------------
B2(x) == <<x[1], x[2]>>
Dict(x, conv(_)) == [b \in { e[1] : e \in Range(x) } |-> conv((CHOOSE e \in Range(x) : e[1] = b)[2])]
Ident(x) == x
Resp(x) == [i \in 1..Len(x) |-> [ab |-> <<x[i][1], x[i][2]>>, av |-> x[i][3]]]
\* post = <<prom, accB, accV, cur, p1, p2, pv, fut, dec, dval>>,  message = <<t, src, dst, bn, bi, an, ai, v>>
NodeOf(p) == [prom |-> B2(p[1]), accB |-> B2(p[2]), accV |-> p[3], cur |-> p[4],
              p1 |-> Dict(p[5], Resp), p2 |-> Dict(p[6], Ident), pv |-> Dict(p[7], Ident),
              fut |-> Dict(p[8], Ident), dec |-> p[9], dval |-> p[10]]
MsgOf(m) == [t |-> m[1], src |-> m[2], dst |-> m[3], bn |-> m[4], bi |-> m[5], an |-> m[6], ai |-> m[7], v |-> m[8]]
SeqBag(s) == LET RECURSIVE F(_) F(i) == IF i > Len(s) THEN EmptyBag ELSE SetToBag({s[i]}) (+) F(i + 1) IN F(1)
OutBag(o) == SeqBag([i \in 1..Len(o) |-> MsgOf(o[i])])
FutVals(fs) == [k \in 1..Len(fs) |-> fs[k].val]

RECURSIVE Resolve(_, _, _)
Resolve(fs, res, i) ==
    IF i > Len(res) THEN fs
    ELSE Resolve(IF fs[res[i][1]].val = Pending THEN [fs EXCEPT ![res[i][1]].val = res[i][2]] ELSE fs, res, i + 1)

Fields == <<"prom", "accB", "accV", "cur", "p1", "p2", "pv", "fut", "dec", "dval">>
FirstDiff(a, b) ==
    LET d == { i \in 1..Len(Fields) : a[Fields[i]] # b[Fields[i]] }
    IN IF d = {} THEN "" ELSE Fields[CHOOSE i \in d : \A j \in d : i <= j]

MS0 == [sync |-> TRUE, mism |-> "none", mpos |-> 0, used |-> {}]

Init ==
    /\ ti = 1 /\ l = 1
    /\ mnode = [n \in 1..Tr.n |-> C!InitNode]
    /\ mmsgs = EmptyBag /\ mfuts = <<>> /\ ms = MS0
    /\ oDec = [n \in 1..Tr.n |-> FALSE] /\ oDval = [n \in 1..Tr.n |-> 0]
    /\ oFuts = <<>> /\ prop = {} /\ bad = {}

\* ---- contract on the observed execution -------------------------------------
\* exercised deviations as a bit mask over the positions in Tr.dev (TLC wraps long printed values)
RECURSIVE MaskOf(_, _)
MaskOf(u, i) == IF i > Len(Tr.dev) THEN 0 ELSE (IF Tr.dev[i] \in u THEN 2 ^ (i - 1) ELSE 0) + MaskOf(u, i + 1)

\* every clause found false for the first time is reported with the model status AFTER this step:
\*   <<"P", id, clause, step, model still in sync, exercised deviations>>
Report(new, pos, st) == \A c \in new : PrintT(<<"P", Tr.id, c, pos, st.sync, MaskOf(st.used, 1)>>)

ObsStep(s) ==
    LET n == s.node
        d2 == IF s.a = "drop" THEN oDec ELSE [oDec EXCEPT ![n] = s.post[9]]
        v2 == IF s.a = "drop" THEN oDval ELSE [oDval EXCEPT ![n] = s.post[10]]
        f2 == [k \in 1..Len(s.futs) |-> [owner |-> 0, val |-> s.futs[k]]]
        p2 == IF s.a = "propose" THEN prop \cup {s.v} ELSE prop
        futStable == \A k \in 1..Len(oFuts) : oFuts[k].val # Pending => (k <= Len(f2) /\ f2[k].val = oFuts[k].val)
        falseNow == (IF ~Stability(oDec, oDval, d2, v2) THEN {"stability"} ELSE {})
                    \cup (IF ~Agreement(d2, v2) THEN {"agreement"} ELSE {})
                    \cup (IF ~Validity(d2, v2, p2) THEN {"validity"} ELSE {})
                    \cup (IF ~FutureTruth(d2, v2, f2) THEN {"future_truth"} ELSE {})
                    \cup (IF ~FutureValid(f2, p2) THEN {"future_valid"} ELSE {})
                    \cup (IF ~futStable THEN {"future_changed"} ELSE {})
    IN /\ oDec' = d2 /\ oDval' = v2 /\ oFuts' = f2 /\ prop' = p2
       /\ bad' = bad \cup falseNow
       /\ Report(falseNow \ bad, l, ms')

\* ---- the implementation model stepped alongside -----------------------------
\* (values are bound with \E x \in {e} so that TLC evaluates each of them exactly once)
Fail(what) == /\ ms' = [ms EXCEPT !.sync = FALSE, !.mism = what, !.mpos = l]
              /\ UNCHANGED <<mnode, mmsgs, mfuts>>

Compare(tag, n, r, fs, obs, outb, s, consumed, exercised) ==
    IF r.ns # obs THEN Fail("MODEL:" \o tag \o ":" \o FirstDiff(r.ns, obs))
    ELSE IF SeqBag(r.out) # outb THEN Fail("MODEL:" \o tag \o ":out")
    ELSE IF FutVals(fs) # s.futs THEN Fail("MODEL:" \o tag \o ":futs")
    ELSE /\ mnode' = [mnode EXCEPT ![n] = r.ns]
         /\ mmsgs' = (mmsgs (-) consumed) (+) outb
         /\ mfuts' = fs /\ ms' = [ms EXCEPT !.used = @ \cup exercised]

ModelStep(s) ==
    IF ~ms.sync THEN UNCHANGED <<mnode, mmsgs, mfuts, ms>>
    ELSE
    \E n \in {s.node}, m \in {MsgOf(s.m)} :
    CASE s.a = "drop" ->
           IF ~BagIn(m, mmsgs) THEN Fail("MODEL:drop:unknown_message")
           ELSE /\ mmsgs' = mmsgs (-) SetToBag({m}) /\ UNCHANGED <<mnode, mfuts, ms>>
      [] s.a = "propose" ->
           \E obs \in {NodeOf(s.post)}, outb \in {OutBag(s.out)} :
           IF mnode[n].dec
           THEN Compare("propose_decided", n, [ns |-> mnode[n], out |-> <<>>, res |-> <<>>],
                        Append(mfuts, [owner |-> n, val |-> mnode[n].dval]), obs, outb, s, EmptyBag, {})
           ELSE \E r \in {C!Propose(mnode[n], n, s.v, Len(mfuts) + 1)} :
                Compare("propose", n, r, Append(mfuts, [owner |-> n, val |-> Pending]), obs, outb, s, EmptyBag,
                        { d \in TDev : CX(d)!Propose(mnode[n], n, s.v, Len(mfuts) + 1) # r })
      [] s.a = "deliver" ->
           IF ~BagIn(m, mmsgs) THEN Fail("MODEL:" \o m.t \o ":unknown_message")
           ELSE IF m.dst # n THEN Fail("MODEL:" \o m.t \o ":wrong_node")
           ELSE \E obs \in {NodeOf(s.post)}, outb \in {OutBag(s.out)}, r \in {C!Handle(mnode[n], m)} :
                Compare(m.t, n, r, Resolve(mfuts, r.res, 1), obs, outb, s, SetToBag({m}),
                        { d \in TDev : CX(d)!Handle(mnode[n], m) # r })
      [] OTHER -> Fail("MODEL:unknown_action")

Finish(verdict, pos) ==
    /\ PrintT(<<"V", Tr.id, verdict, pos>>)
    /\ PrintT(<<"M", Tr.id, ms.mism, ms.mpos, MaskOf(ms.used, 1)>>)
    /\ ti' = ti + 1
    /\ IF ti < NT
       THEN LET T2 == Traces[ti + 1] IN
            /\ l' = 1
            /\ mnode' = [n \in 1..T2.n |-> C!InitNode]
            /\ mmsgs' = EmptyBag /\ mfuts' = <<>> /\ ms' = MS0
            /\ oDec' = [n \in 1..T2.n |-> FALSE] /\ oDval' = [n \in 1..T2.n |-> 0]
            /\ oFuts' = <<>> /\ prop' = {} /\ bad' = {}
       ELSE UNCHANGED <<l, mnode, mmsgs, mfuts, ms, oDec, oDval, oFuts, prop, bad>>

ProgressFails == Tr.mode = "progress" /\ ~ProgressSingle(oDec, oDval, oFuts, Tr.pval)
EndVerdict ==
    IF bad # {} \/ ProgressFails THEN "PROP"
    ELSE IF ms.mism # "none" THEN ms.mism
    ELSE "ACCEPT"

Next ==
    /\ ti <= NT
    /\ IF l > Len(Tr.steps)
       THEN /\ (ProgressFails => Report({"progress_single_proposer"}, l - 1, ms))
            /\ Finish(EndVerdict, IF ms.mism # "none" THEN ms.mpos ELSE l - 1)
       ELSE \E s \in {Tr.steps[l]} : ModelStep(s) /\ ObsStep(s) /\ l' = l + 1 /\ ti' = ti

Spec == Init /\ [][Next]_vars
=============================================================================
