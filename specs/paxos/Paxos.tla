------------------------------- MODULE Paxos -------------------------------
(* Model-checking wrapper around PaxosCore: a cluster of N PaxosNode objects, *)
(* a message pool (bag) with arbitrary delivery order and optional loss, and  *)
(* clients that call propose(v)+start_phase1() on any proposer at any time.   *)
(* Timers (PaxosRetry) live in the same pool: any retry timing is allowed.    *)
EXTENDS PaxosCore, PaxosContract, Bags

CONSTANTS Proposers,     \* nodes on which clients call propose(); the k-th call overall proposes
                         \* the value k (values are opaque, distinct ones reveal the most)
          Once,          \* TRUE: at most one propose() per proposer
          MaxBallot,     \* bound on ballot numbers
          MaxProposals,  \* bound on the number of propose() calls
          Loss,          \* TRUE: any network message may be lost (for safety this adds nothing:
                         \* a lost message is one that is never delivered)
          Quiet          \* TRUE: clients call propose() only while no Prepare is in flight (a smaller
                         \* envelope: quick-tier run of the corrected design and the sensitivity run
                         \* of the restart deviation; the thorough tier explores Quiet = FALSE)
CONSTANT  Lost           \* set of <<type, src, dst>>: messages of that kind on that link are lost for
                         \* the whole run (e.g. a Prepare that its Accept overtakes for good)
CONSTANT  Cut            \* set of node pairs {a, b} that are partitioned for the whole run: messages
                         \* between them are never delivered (e.g. {{1,3}}; {} = fully connected)

VARIABLES node,      \* [Nodes -> node state]
          msgs,      \* bag of messages / timers in flight
          futs,      \* Seq([owner, val])
          proposed,  \* set of values passed to propose()
          used       \* proposers that have proposed
vars == <<node, msgs, futs, proposed, used>>
Values == 1..MaxProposals

SeqBag(s) == LET RECURSIVE F(_) F(i) == IF i > Len(s) THEN EmptyBag ELSE SetToBag({s[i]}) (+) F(i + 1) IN F(1)

RECURSIVE Resolve(_, _, _)
Resolve(fs, res, i) ==
    IF i > Len(res) THEN fs
    ELSE Resolve(IF fs[res[i][1]].val = Pending THEN [fs EXCEPT ![res[i][1]].val = res[i][2]] ELSE fs, res, i + 1)

LostNone == {}
\* n2 and n3 compete with the same ballot number; n3's Prepare never reaches n1 (its Accept does),
\* n2's Prepare never reaches n3
LostOvertake == {<<"prepare", 3, 1>>, <<"prepare", 2, 3>>}

Init ==
    /\ node = [n \in Nodes |-> InitNode]
    /\ msgs = EmptyBag
    /\ futs = <<>>
    /\ proposed = {}
    /\ used = {}

Apply(n, r, consumed) ==
    /\ node' = [node EXCEPT ![n] = r.ns]
    /\ msgs' = (msgs (-) consumed) (+) SeqBag(r.out)
    /\ futs' = Resolve(futs, r.res, 1)

\* client: f = node.propose(v); if not f.is_resolved: node.start_phase1()
ClientPropose(n, v) ==
    /\ Len(futs) < MaxProposals
    /\ Quiet => \A m \in BagToSet(msgs) : m.t # "prepare"
    /\ v = Len(futs) + 1
    /\ Once => n \notin used
    /\ used' = used \cup {n}
    /\ proposed' = proposed \cup {v}
    /\ IF node[n].dec
       THEN /\ futs' = Append(futs, [owner |-> n, val |-> node[n].dval])
            /\ UNCHANGED <<node, msgs>>
       ELSE LET f == Len(futs) + 1
                r == Propose(node[n], n, v, f)
            IN /\ r.ns.cur <= MaxBallot
               /\ node' = [node EXCEPT ![n] = r.ns]
               /\ msgs' = msgs (+) SeqBag(r.out)
               /\ futs' = Append(futs, [owner |-> n, val |-> Pending])

Deliver(m) ==
    /\ BagIn(m, msgs)
    /\ {m.src, m.dst} \notin Cut
    /\ <<m.t, m.src, m.dst>> \notin Lost
    /\ LET r == Handle(node[m.dst], m) IN
       /\ r.ns.cur <= MaxBallot
       /\ Apply(m.dst, r, SetToBag({m}))
    /\ UNCHANGED <<proposed, used>>

Drop(m) ==
    /\ Loss
    /\ BagIn(m, msgs)
    /\ m.t # "retry"
    /\ msgs' = msgs (-) SetToBag({m})
    /\ UNCHANGED <<node, futs, proposed, used>>

Next ==
    \/ \E n \in Proposers : ClientPropose(n, Len(futs) + 1)
    \/ \E m \in BagToSet(msgs) : Deliver(m)
    \/ \E m \in BagToSet(msgs) : Drop(m)

Spec == Init /\ [][Next]_vars
\* fault-free network with bounded delays: no loss, every message in flight is eventually delivered
\* (the pool is finite and every delivery consumes a message, so fairness of "some delivery" is enough)
DeliverSome == \E m \in BagToSet(msgs) : Deliver(m)
FairSpec == Spec /\ WF_vars(DeliverSome)

Dec == [n \in Nodes |-> node[n].dec]
DVal == [n \in Nodes |-> node[n].dval]

InvAgreement == Agreement(Dec, DVal)
InvValidity == Validity(Dec, DVal, proposed)
InvFutureTruth == FutureTruth(Dec, DVal, futs)
InvFutureValid == FutureValid(futs, proposed)
PropStability == [][Stability(Dec, DVal, [n \in Nodes |-> node'[n].dec], [n \in Nodes |-> node'[n].dval])]_vars

\* Fault-free clause (checked with Loss = FALSE, one proposer, MaxProposals = 1 under FairSpec):
\* once the single proposal has been made, every node eventually decides that value and the
\* future resolves with it.
Progress ==
    \A v \in Values : (proposed = {v}) ~> ProgressSingle(Dec, DVal, futs, v)

\* auxiliary (not part of the contract; used to classify findings): one value per ballot on the wire
OneValuePerBallot ==
    \A m1, m2 \in BagToSet(msgs) :
        (m1.t = "accept" /\ m2.t = "accept" /\ m1.bn = m2.bn /\ m1.bi = m2.bi) => m1.v = m2.v
=============================================================================
