----------------------------- MODULE PaxosCore -----------------------------
(* Single-decree Paxos as implemented by                                      *)
(* happysimulator/components/consensus/paxos.py (PaxosNode), transcribed      *)
(* handler by handler.  This is a constant module: every handler is a pure    *)
(* operator  (node state, message) -> [ns, out, res]  so that the same text   *)
(* drives the model-checking spec (Paxos.tla) and the trace spec              *)
(* (PaxosTrace.tla, where N and Dev are taken from the recorded execution).    *)
(*                                                                            *)
(* Encoding: nodes are 1..N (names n1..n5 in the code, same order), a ballot  *)
(* is <<number, node>>, None ballot = <<0,0>> (smaller than every real one),  *)
(* values are positive integers, Python None = 0.                             *)
(*                                                                            *)
(* Node state (one field per attribute of PaxosNode):                         *)
(*   prom, accB, accV     _promised_ballot, _accepted_ballot, _accepted_value *)
(*   cur                  _current_ballot.number (node part is always self)   *)
(*   p1  [number -> Seq([ab, av])]   _phase1_responses (keyed by NUMBER only) *)
(*   p2  [number -> count]           _phase2_responses                        *)
(*   pv  [number -> value]           _proposed_values                         *)
(*   fut [number -> future id]       _proposal_futures                        *)
(*   dec, dval                       _decided, _decided_value                 *)
(*                                                                            *)
(* Named deviations (Dev):                                                    *)
(*  "phase2_restart_on_late_promise"  _handle_promise starts phase 2 on EVERY *)
(*      promise at or beyond the quorum (code: `len(...) >= quorum_size`), so *)
(*      a late promise carrying an accepted value re-sends Accept for the     *)
(*      same ballot with a different value.  Without it: exactly at quorum.   *)
(*  "retry_keeps_stale_tallies"  _handle_retry deletes _proposed_values[old]  *)
(*      but leaves _phase1_responses[old] / _phase2_responses[old] alive, so  *)
(*      late Promise/Accepted messages for the abandoned ballot run phase 2 / *)
(*      decide with value None.  Without it: the abandoned ballot's phase-1   *)
(*      tally is dropped and Accepted for unknown ballots is ignored.          *)
(*  "adopt_by_ballot_number_only"  (plausible mutation, never in the pinned    *)
(*      code) _start_phase2 ranks the accepted ballots reported in promises by *)
(*      their NUMBER only: on a tie between two proposers the first promise    *)
(*      (the proposer's own) wins instead of the higher (number, node) pair.   *)
(*  "accept_does_not_raise_promise"  (plausible mutation) _handle_accept       *)
(*      stores the accepted ballot/value but leaves _promised_ballot alone: an *)
(*      Accept that overtakes its own Prepare is accepted without a promise,   *)
(*      and a stale Accept of a lower ballot later overwrites the chosen value.*)
EXTENDS Integers, Sequences, FiniteSets, TLC

CONSTANTS N, Dev,
          Learn    \* FALSE: the PaxosDecided broadcast is not sent (sound reduction for the
                   \* safety invariants: an undelivered Decided message is an arbitrarily delayed one)

NoVal == 0
NoB == <<0, 0>>
Nodes == 1..N
Quorum == (N \div 2) + 1

BLess(a, b) == a[1] < b[1] \/ (a[1] = b[1] /\ a[2] < b[2])
BGeq(a, b) == ~BLess(a, b)

\* dict helpers (functions with a dynamic finite domain)
Put(f, k, v) == [x \in (DOMAIN f) \cup {k} |-> IF x = k THEN v ELSE f[x]]
Del(f, k) == [x \in (DOMAIN f) \ {k} |-> f[x]]
Get(f, k, d) == IF k \in DOMAIN f THEN f[k] ELSE d

Msg(t, s, d, bn, bi, an, ai, v) ==
    [t |-> t, src |-> s, dst |-> d, bn |-> bn, bi |-> bi, an |-> an, ai |-> ai, v |-> v]

\* peers in list order (ascending, self excluded)
PeerSeq(n) == [i \in 1..(N - 1) |-> IF i < n THEN i ELSE i + 1]
Bcast(n, t, bn, bi, an, ai, v) == [i \in 1..(N - 1) |-> Msg(t, n, PeerSeq(n)[i], bn, bi, an, ai, v)]

InitNode == [prom |-> NoB, accB |-> NoB, accV |-> NoVal, cur |-> 0,
             p1 |-> <<>>, p2 |-> <<>>, pv |-> <<>>, fut |-> <<>>, dec |-> FALSE, dval |-> NoVal]

R(ns, out, res) == [ns |-> ns, out |-> out, res |-> res]

\* _handle_prepare_internal
SelfPromise(ns, n, bn) ==
    IF BGeq(<<bn, n>>, ns.prom)
    THEN LET ns1 == [ns EXCEPT !.prom = <<bn, n>>]
         IN IF bn \in DOMAIN ns.p1
            THEN [ns1 EXCEPT !.p1 = Put(ns.p1, bn, Append(ns.p1[bn], [ab |-> ns.accB, av |-> ns.accV]))]
            ELSE ns1
    ELSE ns

\* start_phase1 for the current ballot
StartPhase1(ns, n) ==
    R(SelfPromise(ns, n, ns.cur), Bcast(n, "prepare", ns.cur, n, 0, 0, NoVal), <<>>)

\* propose(v) (node not decided) followed by start_phase1(); f = id of the new future
Propose(ns, n, v, f) ==
    LET new == (IF ns.prom[1] > ns.cur THEN ns.prom[1] ELSE ns.cur) + 1
        ns1 == [ns EXCEPT !.cur = new, !.fut = Put(ns.fut, new, f), !.pv = Put(ns.pv, new, v),
                          !.p1 = Put(ns.p1, new, <<>>), !.p2 = Put(ns.p2, new, 0)]
    IN StartPhase1(ns1, n)

\* _decide
Decide(ns, n, bn, v) ==
    IF ns.dec THEN R(ns, <<>>, <<>>)
    ELSE R([ns EXCEPT !.dec = TRUE, !.dval = v],
           IF Learn THEN Bcast(n, "decided", 0, 0, 0, 0, v) ELSE <<>>,
           IF bn \in DOMAIN ns.fut THEN << <<ns.fut[bn], v>> >> ELSE <<>>)

\* highest accepted ballot among the responses, first one wins among equals
RECURSIVE Pick(_, _, _, _)
Pick(resp, i, hb, hv) ==
    IF i > Len(resp) THEN hv
    ELSE IF resp[i].ab # NoB /\ (IF "adopt_by_ballot_number_only" \in Dev THEN resp[i].ab[1] > hb[1]
                              ELSE hb = NoB \/ BLess(hb, resp[i].ab))
         THEN Pick(resp, i + 1, resp[i].ab, resp[i].av)
         ELSE Pick(resp, i + 1, hb, hv)

\* _start_phase2
StartPhase2(ns, n, bn) ==
    LET chosen == Pick(ns.p1[bn], 1, NoB, Get(ns.pv, bn, NoVal))
        ns1 == [ns EXCEPT !.pv = Put(ns.pv, bn, chosen)]
        ns2 == IF BGeq(<<bn, n>>, ns.prom)
               THEN [ns1 EXCEPT !.accB = <<bn, n>>, !.accV = chosen, !.p2 = Put(ns1.p2, bn, 1)]
               ELSE ns1
        out == Bcast(n, "accept", bn, n, 0, 0, chosen)
    IN IF Get(ns2.p2, bn, 0) >= Quorum
       THEN LET d == Decide(ns2, n, bn, chosen) IN R(d.ns, out \o d.out, d.res)
       ELSE R(ns2, out, <<>>)

HPrepare(ns, n, m) ==
    LET b == <<m.bn, m.bi>> IN
    IF BLess(b, ns.prom)
    THEN R(ns, << Msg("nack", n, m.src, m.bn, m.bi, ns.prom[1], ns.prom[2], NoVal) >>, <<>>)
    ELSE R([ns EXCEPT !.prom = b],
           << Msg("promise", n, m.src, m.bn, m.bi, ns.accB[1], ns.accB[2], ns.accV) >>, <<>>)

HPromise(ns, n, m) ==
    IF m.bn \notin DOMAIN ns.p1 THEN R(ns, <<>>, <<>>)
    ELSE LET ns1 == [ns EXCEPT !.p1 = Put(ns.p1, m.bn, Append(ns.p1[m.bn], [ab |-> <<m.an, m.ai>>, av |-> m.v]))]
             k == Len(ns1.p1[m.bn])
         IN IF (IF "phase2_restart_on_late_promise" \in Dev THEN k >= Quorum ELSE k = Quorum)
            THEN StartPhase2(ns1, n, m.bn)
            ELSE R(ns1, <<>>, <<>>)

\* PaxosRetry timers are kept in the message pool as t = "retry", src = dst = n, bn = original ballot
HNack(ns, n, m) ==
    LET ns1 == IF m.an > ns.cur THEN [ns EXCEPT !.cur = m.an] ELSE ns
    IN IF m.bn \in DOMAIN ns.pv
       THEN R(ns1, << Msg("retry", n, n, m.bn, 0, 0, 0, NoVal) >>, <<>>)
       ELSE R(ns1, <<>>, <<>>)

HRetry(ns, n, m) ==
    IF ns.dec \/ m.bn \notin DOMAIN ns.pv THEN R(ns, <<>>, <<>>)
    ELSE LET ob == m.bn
             new == ns.cur + 1
             f1 == IF ob \in DOMAIN ns.fut THEN Del(Put(ns.fut, new, ns.fut[ob]), ob) ELSE ns.fut
             ns1 == [ns EXCEPT !.cur = new, !.fut = f1,
                               !.pv = Del(Put(ns.pv, new, ns.pv[ob]), ob),
                               !.p1 = IF "retry_keeps_stale_tallies" \in Dev
                                      THEN Put(ns.p1, new, <<>>)
                                      ELSE Del(Put(ns.p1, new, <<>>), ob),
                               !.p2 = Put(ns.p2, new, 0)]
         IN StartPhase1(ns1, n)

HAccept(ns, n, m) ==
    LET b == <<m.bn, m.bi>> IN
    IF BLess(b, ns.prom)
    THEN R(ns, << Msg("nack", n, m.src, m.bn, m.bi, ns.prom[1], ns.prom[2], NoVal) >>, <<>>)
    ELSE R([ns EXCEPT !.prom = IF "accept_does_not_raise_promise" \in Dev THEN @ ELSE b, !.accB = b, !.accV = m.v],
           << Msg("accepted", n, m.src, m.bn, m.bi, 0, 0, NoVal) >>, <<>>)

HAccepted(ns, n, m) ==
    IF "retry_keeps_stale_tallies" \notin Dev /\ m.bn \notin DOMAIN ns.pv THEN R(ns, <<>>, <<>>)
    ELSE LET c == Get(ns.p2, m.bn, 0) + 1
             ns1 == [ns EXCEPT !.p2 = Put(ns.p2, m.bn, c)]
         IN IF c >= Quorum /\ ~ns.dec
            THEN Decide(ns1, n, m.bn, Get(ns.pv, m.bn, NoVal))
            ELSE R(ns1, <<>>, <<>>)

HDecided(ns, n, m) ==
    IF ns.dec THEN R(ns, <<>>, <<>>) ELSE R([ns EXCEPT !.dec = TRUE, !.dval = m.v], <<>>, <<>>)

MsgTypes == {"prepare", "promise", "nack", "retry", "accept", "accepted", "decided"}

\* handle_event dispatch at node n = m.dst
Handle(ns, m) ==
    LET n == m.dst IN
    CASE m.t = "prepare"  -> HPrepare(ns, n, m)
      [] m.t = "promise"  -> HPromise(ns, n, m)
      [] m.t = "nack"     -> HNack(ns, n, m)
      [] m.t = "retry"    -> HRetry(ns, n, m)
      [] m.t = "accept"   -> HAccept(ns, n, m)
      [] m.t = "accepted" -> HAccepted(ns, n, m)
      [] m.t = "decided"  -> HDecided(ns, n, m)
      [] OTHER            -> R(ns, <<>>, <<>>)
=============================================================================
