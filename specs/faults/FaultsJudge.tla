----------------------------- MODULE FaultsJudge -----------------------------
(* Trace validation for C06, contract part.  Every recorded execution of the   *)
(* real code carries its schedule (windows, jobs, probes, holds) and the       *)
(* observation logs act / snk / obs / msgs / hlog taken from the real          *)
(* Simulation.  The contract of Faults.tla is evaluated on the OBSERVED logs   *)
(* (the machine is not involved: sch is the recorded schedule, m is unused).   *)
(* Output per trace: one line <<"K", id, key, pos>> per distinct failing key    *)
(* and one line <<"V", id, verdict, pos>> with verdict "PROP:<key>" (keys of no *)
(* known class first) or "ACCEPT".  Model conformance (MODEL verdicts) is       *)
(* FaultsTrace.tla.                                                             *)
EXTENDS Naturals, Sequences, FiniteSets, TLC, Json, IOUtils
CONSTANTS Dev
Traces == JsonDeserialize(IOEnv.TRACE_FILE)
NT == Len(Traces)
VARIABLE ti
SchOf(T) == [dev |-> Dev, C |-> T.C, L0 |-> T.L0, H |-> T.H, wins |-> T.wins, groups |-> T.groups,
             jobs |-> T.jobs, probes |-> T.probes, holds |-> T.holds]
K == INSTANCE FaultsKeys WITH sch <- SchOf(Traces[ti]), m <- <<>>

Verdict(T) ==
    LET L == [act |-> T.act, snk |-> T.snk, obs |-> T.obs, msgs |-> T.msgs, hlog |-> T.hlog]
        ks == K!Keys(L)
        names == K!Names(ks)
        un == names \cap K!UNames
    IN /\ \A nm \in names : PrintT(<<"K", T.id, nm, K!PosOf(ks, nm)>>)
       /\ IF un # {} THEN LET nm == CHOOSE x \in un : TRUE IN PrintT(<<"V", T.id, "PROP:" \o nm, K!PosOf(ks, nm)>>)
          ELSE IF names # {} THEN LET nm == CHOOSE x \in names : TRUE
                                  IN PrintT(<<"V", T.id, "PROP:" \o nm, K!PosOf(ks, nm)>>)
          ELSE PrintT(<<"V", T.id, "ACCEPT", 0>>)

TInit == ti = 1
TNext == ti <= NT /\ Verdict(Traces[ti]) /\ ti' = ti + 1
TSpec == TInit /\ [][TNext]_ti
=============================================================================
