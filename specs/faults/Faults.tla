------------------------------- MODULE Faults -------------------------------
(* Fault injection on the event loop (property C06).                           *)
(* Transcribed from happysimulator/faults/{node,network,resource}_faults.py,   *)
(* faults/schedule.py + fault.py (FaultSchedule.start, FaultHandle.cancel),    *)
(* core/event.py (crash test in Event.invoke, none in ProcessContinuation.     *)
(* invoke), components/network/network.py (partition / Partition.heal /        *)
(* Network.handle_event), network/link.py (loss test, latency),                *)
(* components/resource.py (try_acquire / Grant.release) and                    *)
(* components/queued_resource.py + queue.py + queue_driver.py.                 *)
(* The heap (set of event records ordered by <<t, id>>, id = creation order)   *)
(* is shaped like the one of specs/engine/Process.tla.                         *)
(*                                                                             *)
(* A run is a *schedule* (variable sch, constant during the run): fault        *)
(* windows, workload jobs (plain handlers, generators, jobs of the queue-      *)
(* fronted server Q), probe observations (attribute samples + one message      *)
(* through the Network) and resource holds.  The machine m is deterministic    *)
(* once sch is fixed: one Pop per handler / generator segment.  In model-      *)
(* checking mode (FaultsMC.tla) TLC enumerates the schedules; in trace mode    *)
(* (FaultsTrace.tla) sch is read from a recorded real execution and m is the   *)
(* oracle for the observation logs.                                            *)
(*                                                                             *)
(* Time is an integer "fine tick": real ns = K*T + off, off in {-1,0,1}  <->   *)
(* 3K + off, so that instants 1 ns before / at / 1 ns after an edge are        *)
(* adjacent ticks; all delays are multiples of 3.                              *)
(*                                                                             *)
(* Deviations (sch.dev; {} is the intended design, all nine = the code as it   *)
(* is; the trace specs take sch.dev from the constant Dev):                    *)
(*  continuation_ignores_crash       ProcessContinuation.invoke has no crash   *)
(*                                   test: a generator in flight keeps running *)
(*  bool_flag_not_refcount           _crashed is a boolean: the end of any     *)
(*                                   window on e clears it                     *)
(*  queued_worker_ignores_crash      the flag is set on the QueuedResource,    *)
(*                                   its worker adapter never sees it          *)
(*  heal_removes_shared_pairs        Partition.heal subtracts its pairs from   *)
(*                                   the shared set                            *)
(*  lat_restore_captured_original    deactivate restores the latency captured  *)
(*  loss_restore_captured_original   at generate_events time (same for loss)   *)
(*  capacity_restore_captured_original   same for Resource._capacity           *)
(*  capacity_restore_adds_delta      available is clamped / incremented        *)
(*                                   without regard to units held              *)
(*  cancel_before_start_ineffective  FaultHandle.cancel() before               *)
(*                                   FaultSchedule.start() cancels nothing     *)
EXTENDS Naturals, Integers, Sequences, FiniteSets, TLC

CONSTANTS Dev            \* deviations in force when the schedule does not choose them itself (trace mode)

Inf == 999999          \* "never" (permanent crash)
Q == 9                 \* entity id of the queue-fronted server
EntDom == 1..20        \* plain nodes 1..8, Q = 9, network endpoints 11..14
EPs == 11..14
LinkDom == EPs \X EPs

VARIABLES m,           \* machine state (record, see InitM)
          sch          \* the schedule (record, see below)
vars == <<m, sch>>

\* sch = [dev, C, L0, H, wins, groups, jobs, probes, holds]
\*   dev       = set of deviation names in force during this run
\*   wins[w]   = [k, tg, s, e, x, cm, ct]
\*        k  in "crash","pause","part","lat","loss","cap"
\*        tg = <<entity>> | <<group index>> | <<src, dst>> | <<0>>
\*        x  = asymmetric flag (part) | extra latency ticks (lat) | reduced capacity (cap)
\*        cm = 0 not cancelled | 1 cancelled before Simulation() | 2 cancelled after Simulation(),
\*             before run() | 3 cancelled by a callback at ct < s
\*   groups[g] = [a, b] sequences of endpoints
\*   jobs[j]   = [e, t, ds, em]   segment 0 at t, segment i after delay ds[i]; em[i+1] = 1 iff
\*                                segment i emits an event to the sink
\*   probes[p] = [t, x, y]        sample attributes at t; if x # 0 also send a message x -> y
\*   holds[h]  = [t, a, d]        try_acquire(a) at t, release after d
NW == Len(sch.wins)
NJ == Len(sch.jobs)
NP == Len(sch.probes)
NH == Len(sch.holds)
Win(w) == sch.wins[w]
IsCrashK(k) == k \in {"crash", "pause"}

SeqRange(s) == { s[i] : i \in 1..Len(s) }
Max0(x) == IF x > 0 THEN x ELSE 0
Has(d) == d \in sch.dev

JobId(S, j) == 3 * Len(S.wins) + j

\* The event heap: a sequence of entries <<t, id, kind, a, b>> kept sorted by <<t, id>>
\* (id = creation order = Event._sort_index), earliest first.
Lt(x, y) == x[1] < y[1] \/ (x[1] = y[1] /\ x[2] < y[2])
\* number of entries before x (binary search)
RECURSIVE InsPos(_, _, _, _)
InsPos(h, x, lo, hi) ==
    IF lo >= hi THEN lo
    ELSE LET mid == (lo + hi) \div 2 IN
         IF Lt(h[mid + 1], x) THEN InsPos(h, x, mid + 1, hi) ELSE InsPos(h, x, lo, mid)
Ins(h, x) == LET i == InsPos(h, x, 0, Len(h)) IN SubSeq(h, 1, i) \o <<x>> \o SubSeq(h, i + 1, Len(h))

InitM(S) ==
    LET nw == Len(S.wins)  nj == Len(S.jobs)  np == Len(S.probes)  nh == Len(S.holds)
        ev(id, t, k, a) == <<t, id, k, a, 0>>
        keep(e) == e[1] # Inf
        fon  == [w \in 1..nw |-> ev(2 * w - 1, S.wins[w].s, "fon", w)]
        foff == SelectSeq([w \in 1..nw |-> ev(2 * w, S.wins[w].e, "foff", w)], keep)
        can  == SelectSeq([w \in 1..nw |-> ev(2 * nw + w, IF S.wins[w].cm = 3 THEN S.wins[w].ct ELSE Inf,
                                               "cancel", w)], keep)
        jb   == [j \in 1..nj |-> ev(3 * nw + j, S.jobs[j].t, "job", j)]
        pb   == [p \in 1..np |-> ev(3 * nw + nj + p, S.probes[p].t, "obs", p)]
        hd   == [h \in 1..nh |-> ev(3 * nw + nj + np + h, S.holds[h].t, "acq", h)]
    IN [ heap |-> SortSeq(fon \o foff \o can \o jb \o pb \o hd, Lt),
         ctr |-> 3 * nw + nj + np + nh, clock |-> 0,
         wcan |-> [w \in 1..nw |-> S.wins[w].cm = 2
                                   \/ (S.wins[w].cm = 1 /\ "cancel_before_start_ineffective" \notin S.dev)],
         open |-> {},                               \* windows activated and not yet deactivated
         flag |-> [e \in EntDom |-> FALSE],         \* entity._crashed
         ccnt |-> [e \in EntDom |-> 0],
         pset |-> {}, dset |-> {},                  \* Network._partitioned_pairs / _directed_partitions
         lat |-> [l \in LinkDom |-> 0],             \* extra latency in force on the link (0 = original)
         loss |-> [l \in LinkDom |-> FALSE],
         cap |-> S.C, avail |-> S.C, held |-> 0,
         qbuf |-> <<>>, qbusy |-> 0,
         act |-> <<>>,                              \* <<e, j, i, t>> segment i of job j ran on e at t
         snk |-> <<>>,                              \* <<e, j, i, t>> the sink received e's emission
         obs |-> <<>>,                              \* <<t, x, y, blocked, lossy, slow, cap, avail, held>>
         msgs |-> <<>>,                             \* <<p, t>> probe message p reached its receiver
         hlog |-> <<>> ]                            \* <<h, what, t>> 0 none, 1 got, 2 released, 3 release raised

Push(mm, t, k, a, b) == [mm EXCEPT !.heap = Ins(@, <<t, mm.ctr + 1, k, a, b>>), !.ctr = @ + 1]
PushId(mm, id, t, k, a, b) == [mm EXCEPT !.heap = Ins(@, <<t, id, k, a, b>>)]

\* ---- fault activation / deactivation closures --------------------------------
SymPairs(w) == LET g == sch.groups[Win(w).tg[1]] IN { {x, y} : x \in SeqRange(g.a), y \in SeqRange(g.b) }
DirPairs(w) == LET g == sch.groups[Win(w).tg[1]] IN SeqRange(g.a) \X SeqRange(g.b)
Link(w) == <<Win(w).tg[1], Win(w).tg[2]>>
OpenLike(mm, w) == { v \in mm.open \ {w} : Win(v).k = Win(w).k /\ Win(v).tg = Win(w).tg }
MaxOf(S) == CHOOSE x \in S : \A y \in S : x >= y
MinCap(ws) == IF ws = {} THEN sch.C
              ELSE LET xs == { Win(v).x : v \in ws } IN CHOOSE x \in xs : \A y \in xs : x <= y
CapWins(ws) == { v \in ws : Win(v).k = "cap" }
RECURSIVE SumX(_)       \* extras of a set of windows, added up
SumX(ws) == IF ws = {} THEN 0 ELSE LET v == CHOOSE v \in ws : TRUE IN Win(v).x + SumX(ws \ {v})

Activate(mm, w) ==
    LET k == Win(w).k
        m0 == [mm EXCEPT !.open = @ \cup {w}]
    IN CASE IsCrashK(k) ->
              LET e == Win(w).tg[1] IN [m0 EXCEPT !.flag[e] = TRUE, !.ccnt[e] = @ + 1]
         [] k = "part" ->
              IF Win(w).x = 1 THEN [m0 EXCEPT !.dset = @ \cup DirPairs(w)]
              ELSE [m0 EXCEPT !.pset = @ \cup SymPairs(w)]
         [] k = "lat" -> [m0 EXCEPT !.lat[Link(w)] = IF Has("lat_restore_captured_original") THEN Win(w).x
                                                     ELSE SumX(OpenLike(mm, w) \cup {w})]
         [] k = "loss" -> [m0 EXCEPT !.loss[Link(w)] = TRUE]
         [] k = "cap" ->
              LET nc == IF Has("capacity_restore_captured_original") THEN Win(w).x
                        ELSE MinCap(CapWins(m0.open))
                  na == IF Has("capacity_restore_adds_delta")
                        THEN (IF mm.avail > nc THEN nc ELSE mm.avail)
                        ELSE Max0(nc - mm.held)
              IN [m0 EXCEPT !.cap = nc, !.avail = na]

\* the worker of Q starts over after a restart (intended design only)
Kick(mm) == LET m1 == [mm EXCEPT !.qbusy = 0]
            IN IF m1.qbuf # <<>> THEN Push(m1, m1.clock, "qpoll", 0, 0) ELSE m1

Deactivate(mm, w) ==
    LET k == Win(w).k
        m0 == [mm EXCEPT !.open = @ \ {w}]
        others == OpenLike(mm, w)
    IN CASE IsCrashK(k) ->
              LET e == Win(w).tg[1]
                  c == mm.ccnt[e] - 1
                  f == IF Has("bool_flag_not_refcount") THEN FALSE ELSE c > 0
                  m1 == [m0 EXCEPT !.flag[e] = f, !.ccnt[e] = c]
              IN IF e = Q /\ ~f /\ mm.flag[e] /\ ~Has("queued_worker_ignores_crash") THEN Kick(m1) ELSE m1
         [] k = "part" ->
              IF Win(w).x = 1
              THEN LET keep == UNION { DirPairs(v) : v \in { u \in m0.open : Win(u).k = "part" /\ Win(u).x = 1 } }
                   IN [m0 EXCEPT !.dset = IF Has("heal_removes_shared_pairs") THEN @ \ DirPairs(w)
                                           ELSE (@ \ DirPairs(w)) \cup (keep \cap @)]
              ELSE LET keep == UNION { SymPairs(v) : v \in { u \in m0.open : Win(u).k = "part" /\ Win(u).x = 0 } }
                   IN [m0 EXCEPT !.pset = IF Has("heal_removes_shared_pairs") THEN @ \ SymPairs(w)
                                           ELSE (@ \ SymPairs(w)) \cup (keep \cap @)]
         [] k = "lat" ->
              [m0 EXCEPT !.lat[Link(w)] = IF Has("lat_restore_captured_original") THEN 0 ELSE SumX(others)]
         [] k = "loss" ->
              [m0 EXCEPT !.loss[Link(w)] = ~(Has("loss_restore_captured_original") \/ others = {})]
         [] k = "cap" ->
              LET nc == IF Has("capacity_restore_captured_original") THEN sch.C
                        ELSE MinCap(CapWins(m0.open))
                  na == IF Has("capacity_restore_adds_delta") THEN mm.avail + (nc - mm.cap)
                        ELSE Max0(nc - mm.held)
              IN [m0 EXCEPT !.cap = nc, !.avail = na]

\* ---- workload ---------------------------------------------------------------
Job(j) == sch.jobs[j]
\* one handler / generator segment of job j (segment 0 = handler entry)
RunSeg(mm, j, i) ==
    LET J == Job(j)
        now == mm.clock
        last == i = Len(J.ds)
        m0 == [mm EXCEPT !.act = Append(@, <<J.e, j, i, now>>)]
        m1 == IF J.e = Q THEN [m0 EXCEPT !.qbusy = IF last THEN 0 ELSE 1] ELSE m0
        m2 == IF J.em[i + 1] = 1 THEN Push(m1, now, "emit", j, i) ELSE m1
        m3 == IF ~last THEN Push(m2, now + J.ds[i + 1], "cont", j, i + 1) ELSE m2
    IN \* completion hook of the queue driver: poll again if the worker has capacity
       IF last /\ J.e = Q THEN Push(m3, now, "qpoll", 0, 0) ELSE m3

Blocked(mm, x, y) == {x, y} \in mm.pset \/ <<x, y>> \in mm.dset

ContDropped(mm, e) ==
    /\ mm.flag[e]
    /\ ~Has("continuation_ignores_crash")
    /\ (e = Q => ~Has("queued_worker_ignores_crash"))


Step(mm, ev) ==
    LET m0 == [mm EXCEPT !.heap = Tail(@), !.clock = ev[1]]
        now == ev[1]
        e == [k |-> ev[3], a |-> ev[4], b |-> ev[5]]
    IN CASE e.k = "fon" -> IF mm.wcan[e.a] THEN m0 ELSE Activate(m0, e.a)
         [] e.k = "foff" -> IF mm.wcan[e.a] THEN m0 ELSE Deactivate(m0, e.a)
         [] e.k = "cancel" -> [m0 EXCEPT !.wcan[e.a] = TRUE]
         [] e.k = "job" ->
              LET en == Job(e.a).e IN
              IF mm.flag[en] THEN m0                          \* Event.invoke: target crashed
              ELSE IF en = Q
                   THEN LET m1 == [m0 EXCEPT !.qbuf = Append(@, e.a)]      \* Queue._handle_enqueue
                        IN IF mm.qbuf = <<>> THEN Push(m1, now, "qnot", 0, 0) ELSE m1
                   ELSE RunSeg(m0, e.a, 0)
         [] e.k = "cont" -> IF ContDropped(mm, Job(e.a).e) THEN m0 ELSE RunSeg(m0, e.a, e.b)
         [] e.k = "emit" -> [m0 EXCEPT !.snk = Append(@, <<Job(e.a).e, e.a, e.b, now>>)]
         [] e.k = "qnot" -> IF mm.qbusy < 1 THEN Push(m0, now, "qpoll", 0, 0) ELSE m0
         [] e.k = "qpoll" ->
              IF mm.qbuf = <<>> THEN m0
              ELSE Push([m0 EXCEPT !.qbuf = Tail(@)], now, "qdlv", Head(mm.qbuf), 0)
         [] e.k = "qdlv" -> PushId(m0, JobId(sch, e.a), now, "qwork", e.a, 0)   \* same Event object re-used
         [] e.k = "qwork" ->
              IF mm.flag[Q] /\ ~Has("queued_worker_ignores_crash") THEN m0 ELSE RunSeg(m0, e.a, 0)
         [] e.k = "obs" ->
              LET P == sch.probes[e.a]
                  l == <<P.x, P.y>>
                  b2n(b) == IF b THEN 1 ELSE 0
                  o == IF P.x = 0 THEN <<now, 0, 0, 0, 0, 0, mm.cap, mm.avail, mm.held>>
                       ELSE <<now, P.x, P.y, b2n(Blocked(mm, P.x, P.y)), b2n(mm.loss[l]),
                              b2n(mm.lat[l] > 0), mm.cap, mm.avail, mm.held>>
                  m1 == [m0 EXCEPT !.obs = Append(@, o)]
              IN IF P.x = 0 THEN m1 ELSE Push(m1, now, "net", e.a, 0)
         [] e.k = "net" ->                                     \* Network.handle_event + link, first segment
              LET P == sch.probes[e.a]
                  l == <<P.x, P.y>>
              IN IF Blocked(mm, P.x, P.y) \/ mm.loss[l] THEN m0
                 ELSE Push(m0, now + sch.L0 + mm.lat[l], "netc", e.a, 0)
         [] e.k = "netc" -> Push(m0, now, "dlv", e.a, 0)      \* forwarded event to the egress
         [] e.k = "dlv" ->
              IF mm.flag[sch.probes[e.a].y] THEN m0
              ELSE [m0 EXCEPT !.msgs = Append(@, <<e.a, now>>)]
         [] e.k = "acq" ->                                     \* Resource.try_acquire
              LET h == sch.holds[e.a] IN
              IF mm.avail >= h.a
              THEN Push([m0 EXCEPT !.avail = @ - h.a, !.held = @ + h.a,
                                   !.hlog = Append(@, <<e.a, 1, now>>)], now + h.d, "rel", e.a, 0)
              ELSE [m0 EXCEPT !.hlog = Append(@, <<e.a, 0, now>>)]
         [] e.k = "rel" ->                                     \* Grant.release -> Resource._do_release
              LET h == sch.holds[e.a] IN
              IF Has("capacity_restore_adds_delta")
              THEN IF mm.avail + h.a > mm.cap
                   THEN [m0 EXCEPT !.held = @ - h.a, !.hlog = Append(@, <<e.a, 3, now>>)]
                   ELSE [m0 EXCEPT !.held = @ - h.a, !.avail = @ + h.a, !.hlog = Append(@, <<e.a, 2, now>>)]
              ELSE [m0 EXCEPT !.held = @ - h.a, !.avail = Max0(mm.cap - (mm.held - h.a)),
                              !.hlog = Append(@, <<e.a, 2, now>>)]

Pop == /\ m.heap # <<>>
       /\ Head(m.heap)[1] <= sch.H
       /\ m' = Step(m, Head(m.heap))
       /\ UNCHANGED sch
Done(mm) == IF mm.heap = <<>> THEN TRUE ELSE Head(mm.heap)[1] > sch.H

\* ===========================================================================
\* Contract C06 over the observation logs L = [act, snk, obs, msgs, hlog] of a finished run
\* (observable effects only; nothing below looks at flag/pset/lat/...).
\* A window cancelled before its activation (cm # 0) does not exist for the contract.
Live(w) == Win(w).cm = 0
Strict(w, t) == Win(w).s < t /\ t < Win(w).e
Weak(w, t) == Win(w).s <= t /\ t <= Win(w).e
CrashWins(e) == { w \in 1..NW : Live(w) /\ IsCrashK(Win(w).k) /\ Win(w).tg[1] = e }
PartCovers(w, x, y) ==
    /\ Win(w).k = "part"
    /\ LET g == sch.groups[Win(w).tg[1]] IN
         \/ x \in SeqRange(g.a) /\ y \in SeqRange(g.b)
         \/ Win(w).x = 0 /\ x \in SeqRange(g.b) /\ y \in SeqRange(g.a)
PartWins(x, y) == { w \in 1..NW : Live(w) /\ PartCovers(w, x, y) }
LinkWins(k, x, y) == { w \in 1..NW : Live(w) /\ Win(w).k = k /\ Win(w).tg = <<x, y>> }
CapWs == { w \in 1..NW : Live(w) /\ Win(w).k = "cap" }
SomeStrict(ws, t) == \E w \in ws : Strict(w, t)
SomeWeak(ws, t) == \E w \in ws : Weak(w, t)

RECURSIVE SumTo(_, _)
SumTo(ds, i) == IF i = 0 THEN 0 ELSE ds[i] + SumTo(ds, i - 1)
PT(j, i) == Job(j).t + SumTo(Job(j).ds, i)      \* planned instant of segment i of job j

\* (a) a crashed / paused entity executes nothing: no handler, no process step, no emission
\* (operators of the form UNION { LET ws == ... IN { ... } : key \in Keys } compute the windows of a key once)
CrashEnts == { Win(w).tg[1] : w \in { v \in 1..NW : Live(v) /\ IsCrashK(Win(v).k) } }
QuietBadIn(log, ent(_), time(_)) ==
    UNION { LET ws == CrashWins(e) IN { n \in 1..Len(log) : ent(log[n]) = e /\ SomeStrict(ws, time(log[n])) }
            : e \in CrashEnts }
QuietBadAct(L) == QuietBadIn(L.act, LAMBDA it : it[1], LAMBDA it : it[4])
QuietBadSnk(L) == QuietBadIn(L.snk, LAMBDA it : it[1], LAMBDA it : it[4])
QuietBadMsg(L) == QuietBadIn(L.msgs, LAMBDA it : sch.probes[it[1]].y, LAMBDA it : it[2])
CrashQuiet(L) == QuietBadAct(L) = {} /\ QuietBadSnk(L) = {} /\ QuietBadMsg(L) = {}

\* (b) processing outside the windows is what it is without faults; bystanders are unaffected.
\* Every logged activity is a planned one (right job, right instant, at most once) ...
Planned(it) == /\ it[2] \in 1..NJ /\ Job(it[2]).e = it[1] /\ it[3] \in 0..Len(Job(it[2]).ds)
               /\ (it[1] # Q => it[4] = PT(it[2], it[3]))
               /\ (it[1] = Q => it[4] >= PT(it[2], it[3]))
NoDup(s) == Cardinality({ <<s[n][1], s[n][2], s[n][3]>> : n \in 1..Len(s) }) = Len(s)
SpuriousAct(L) == { n \in 1..Len(L.act) : ~Planned(L.act[n]) }
SpuriousSnk(L) == { n \in 1..Len(L.snk) : ~(Planned(L.snk[n]) /\ Job(L.snk[n][2]).em[L.snk[n][3] + 1] = 1) }
\* ... and every planned segment whose whole history lies outside the windows of its entity ran
\* (plain nodes: no window touches [start of the job, planned instant]; Q: the job arrives after
\* the last window of Q has ended, service times depend on the queue)
DemandedIn(ws, j, i) ==
    IF Job(j).e = Q THEN \A w \in ws : Win(w).e < Job(j).t
    ELSE ws = {} \/ \A w \in ws : ~(Win(w).s <= PT(j, i) /\ Win(w).e >= Job(j).t)
Demanded(j, i) == DemandedIn(CrashWins(Job(j).e), j, i)
JobEnts == { Job(j).e : j \in 1..NJ }
SegsOf(e) == UNION { { <<j, i>> : i \in 0..Len(Job(j).ds) } : j \in { k \in 1..NJ : Job(k).e = e } }
JI(s) == { <<s[n][2], s[n][3]>> : n \in 1..Len(s) }
MissingAct(L) == LET ran == JI(L.act) IN
                 UNION { LET ws == CrashWins(e) IN { s \in SegsOf(e) \ ran : DemandedIn(ws, s[1], s[2]) }
                         : e \in JobEnts }
MissingSnk(L) == LET ems == JI(L.snk) IN
                 UNION { LET ws == CrashWins(e) IN
                         { s \in SegsOf(e) \ ems : Job(s[1]).em[s[2] + 1] = 1 /\ DemandedIn(ws, s[1], s[2]) }
                         : e \in JobEnts }
Unaffected(L) == SpuriousAct(L) = {} /\ SpuriousSnk(L) = {} /\ NoDup(L.act) /\ NoDup(L.snk)
Resumes(L) == MissingAct(L) = {} /\ MissingSnk(L) = {}

\* (c) partition / latency / loss / capacity in effect exactly while a window covering the target
\* is open: strictly inside some window => in effect; outside every (closed) window => not
EffBad(ws, t, on) == IF ws = {} THEN on ELSE (SomeStrict(ws, t) /\ ~on) \/ (~SomeWeak(ws, t) /\ on)
ObsLink(L) == { n \in 1..Len(L.obs) : L.obs[n][2] # 0 }
ObsPairs(L) == { <<L.obs[n][2], L.obs[n][3]>> : n \in ObsLink(L) }
PairOf(o) == <<o[2], o[3]>>
EffBadIn(L, wins(_), col) ==
    LET ol == ObsLink(L) IN
    UNION { LET ws == wins(pr) IN { n \in ol : PairOf(L.obs[n]) = pr /\ EffBad(ws, L.obs[n][1], L.obs[n][col] = 1) }
            : pr \in ObsPairs(L) }
PartBad(L) == EffBadIn(L, LAMBDA pr : PartWins(pr[1], pr[2]), 4)
LossBad(L) == EffBadIn(L, LAMBDA pr : LinkWins("loss", pr[1], pr[2]), 5)
LatBad(L)  == EffBadIn(L, LAMBDA pr : LinkWins("lat", pr[1], pr[2]), 6)
CapBad(L)  == LET cw == CapWs IN { n \in 1..Len(L.obs) : EffBad(cw, L.obs[n][1], L.obs[n][7] < sch.C) }
\* the same on the probe traffic itself: dropped while partitioned / lossy, delivered (once) when
\* nothing covers the pair and the receiver is never crashed, delayed iff a latency window is open
Senders == { p \in 1..NP : sch.probes[p].x # 0 }
SendPairs == { <<sch.probes[p].x, sch.probes[p].y>> : p \in Senders }
NoCrashAtAll(e) == \A w \in 1..NW : ~(IsCrashK(Win(w).k) /\ Win(w).tg[1] = e)
Delivered(L) == { L.msgs[n][1] : n \in 1..Len(L.msgs) }
\* probes whose message must not / must arrive but did / did not
MsgFateBad(L) ==
    LET dl == Delivered(L)  snd == Senders IN
    UNION { LET pw == PartWins(pr[1], pr[2])  lw == LinkWins("loss", pr[1], pr[2])  nc == NoCrashAtAll(pr[2]) IN
            { p \in snd :
                LET P == sch.probes[p] IN
                /\ P.x = pr[1] /\ P.y = pr[2]
                /\ \/ p \in dl /\ (SomeStrict(pw, P.t) \/ SomeStrict(lw, P.t))
                   \/ p \notin dl /\ nc /\ ~SomeWeak(pw, P.t) /\ ~SomeWeak(lw, P.t) }
            : pr \in SendPairs }
\* deliveries (positions in msgs) that are a second copy, or whose delay contradicts the latency windows
MsgDup(L) == Cardinality(Delivered(L)) # Len(L.msgs)
MsgDelayBad(L) ==
    UNION { LET dw == LinkWins("lat", pr[1], pr[2]) IN
            { n \in 1..Len(L.msgs) :
                LET P == sch.probes[L.msgs[n][1]]  dly == L.msgs[n][2] - P.t IN
                /\ P.x = pr[1] /\ P.y = pr[2]
                /\ IF dw = {} THEN dly # sch.L0
                   ELSE \/ SomeStrict(dw, P.t) /\ dly <= sch.L0
                        \/ ~SomeWeak(dw, P.t) /\ dly # sch.L0 }
            : pr \in SendPairs }
Traffic(L) == MsgFateBad(L) = {} /\ ~MsgDup(L) /\ MsgDelayBad(L) = {}

\* (d) once every window has ended the system is back to its configured state
LastEnd == LET es == { Win(w).e : w \in { v \in 1..NW : Live(v) } } IN IF es = {} THEN -1 ELSE MaxOf(es)
EndBad(L) == LET le == LastEnd IN
             { n \in 1..Len(L.obs) :
                 le < L.obs[n][1] /\ ~(L.obs[n][7] = sch.C /\ L.obs[n][8] + L.obs[n][9] = sch.C) }

\* ---- invariants of the model-checking mode (contract on the model's own logs) ----
ML == [act |-> m.act, snk |-> m.snk, obs |-> m.obs, msgs |-> m.msgs, hlog |-> m.hlog]
\* (the logs only grow, so a clause false at any point is false at the end of the run)
InvCrashQuiet == (Done(m) /\ sch.dev = {}) => CrashQuiet(ML)
InvUnaffected == (Done(m) /\ sch.dev = {}) => Unaffected(ML)
InvResumes == (Done(m) /\ sch.dev = {}) => Resumes(ML)
InvPartition == (Done(m) /\ sch.dev = {}) => PartBad(ML) = {}
InvLoss == (Done(m) /\ sch.dev = {}) => LossBad(ML) = {}
InvLatency == (Done(m) /\ sch.dev = {}) => LatBad(ML) = {}
InvCapacity == (Done(m) /\ sch.dev = {}) => CapBad(ML) = {}
InvTraffic == (Done(m) /\ sch.dev = {}) => Traffic(ML)
InvEndState == (Done(m) /\ sch.dev = {}) => EndBad(ML) = {}

Next == Pop
=============================================================================
