----------------------------- MODULE FaultsTrace -----------------------------
(* Trace validation for C06, conformance part.  The machine of Faults.tla (Dev  *)
(* as configured, normally the code as it is) is run on the recorded schedule   *)
(* and its logs are compared with the logs observed on the real Simulation.     *)
(* Output per trace: <<"V", id, "MODEL:<first differing log>" | "ACCEPT", 0>>.  *)
(* A difference is drift (the model is not the code), never a violation; the    *)
(* contract verdicts are FaultsJudge.tla.                                       *)
EXTENDS Faults, Json, IOUtils

Traces == JsonDeserialize(IOEnv.TRACE_FILE)
NT == Len(Traces)
VARIABLE ti
tvars == <<m, sch, ti>>

SchOf(T) == [dev |-> Dev, C |-> T.C, L0 |-> T.L0, H |-> T.H, wins |-> T.wins, groups |-> T.groups,
             jobs |-> T.jobs, probes |-> T.probes, holds |-> T.holds]
EmptySch == [dev |-> {}, C |-> 1, L0 |-> 0, H |-> 0, wins |-> <<>>, groups |-> <<>>, jobs |-> <<>>, probes |-> <<>>,
             holds |-> <<>>]

FirstDiffLog(T) ==
    IF T.act # m.act THEN "act" ELSE IF T.snk # m.snk THEN "snk" ELSE IF T.obs # m.obs THEN "obs"
    ELSE IF T.msgs # m.msgs THEN "msgs" ELSE IF T.hlog # m.hlog THEN "hlog" ELSE ""

Verdict(T) == LET d == FirstDiffLog(T) IN
              PrintT(<<"V", T.id, IF d = "" THEN "ACCEPT" ELSE "MODEL:" \o d, 0>>)

TInit ==
    /\ ti = 1
    /\ sch = IF NT = 0 THEN EmptySch ELSE SchOf(Traces[1])
    /\ m = InitM(sch)

TNext ==
    /\ ti <= NT
    /\ IF ~Done(m)
       THEN Pop /\ ti' = ti
       ELSE /\ Verdict(Traces[ti])
            /\ ti' = ti + 1
            /\ IF ti < NT
               THEN sch' = SchOf(Traces[ti + 1]) /\ m' = InitM(SchOf(Traces[ti + 1]))
               ELSE UNCHANGED <<m, sch>>

TSpec == TInit /\ [][TNext]_tvars
=============================================================================
