----------------------------- MODULE FaultsKeys -----------------------------
(* Classification of contract failures of Faults.tla (C06): every false clause  *)
(* on an observed execution gets a key <<name, position>> that says what failed *)
(* and, from facts of the schedule alone (what the code as it is does with the  *)
(* toggles of the windows), whether it belongs to a known defect class; names   *)
(* starting with "U:" belong to none.                                           *)
EXTENDS Faults

\* ---- what the code does with the toggles of the windows, from the schedule alone ----
\* A failure gets the key of a defect class X when it is what X produces, the rest of the code behaving
\* as the current model (sch.dev) says.  X's own behaviour is always the defective one ("B"): if X is an
\* open finding that is the truth, if X is not (fixed or never known) the key is a VIOLATION anyway.
\*
\* Windows the code runs: not cancelled, or cancelled before FaultSchedule.start() while that cancel is
\* without effect (sch.dev); CodeLiveB = under the cancel defect itself.
CodeLive(w) == Win(w).cm = 0 \/ (Win(w).cm = 1 /\ Has("cancel_before_start_ineffective"))
CodeLiveB(w) == Win(w).cm \in {0, 1}
Toggles(ws) == { <<Win(w).s, 2 * w - 1, TRUE>> : w \in ws }
               \cup { <<Win(w).e, 2 * w, FALSE>> : w \in { v \in ws : Win(v).e # Inf } }
\* value at t (for an event created after the fault events) of a flag / set membership / restored
\* attribute that every activation sets and every deactivation clears: the last toggle decides
OnB(ws, t) ==
    LET tg == { x \in Toggles(ws) : x[1] <= t } IN
    IF tg = {} THEN FALSE
    ELSE (CHOOSE x \in tg : \A y \in tg : y[1] < x[1] \/ (y[1] = x[1] /\ y[2] <= x[2]))[3]
\* the same under the current model: defective if the deviation is in force, else on while more
\* activations than deactivations have happened
OnD(ws, t, deviation) ==
    IF Has(deviation) THEN OnB(ws, t)
    ELSE LET tg == { x \in Toggles(ws) : x[1] <= t } IN
         Cardinality({ x \in tg : x[3] }) > Cardinality({ x \in tg : ~x[3] })
CCrash(e) == { w \in 1..NW : CodeLive(w) /\ IsCrashK(Win(w).k) /\ Win(w).tg[1] = e }
CPartSym(x, y) == { w \in 1..NW : CodeLive(w) /\ PartCovers(w, x, y) /\ Win(w).x = 0 }
CPartDir(x, y) == { w \in 1..NW : CodeLive(w) /\ PartCovers(w, x, y) /\ Win(w).x = 1 }
CLink(k, x, y) == { w \in 1..NW : CodeLive(w) /\ Win(w).k = k /\ Win(w).tg = <<x, y>> }
CCap == { w \in 1..NW : CodeLive(w) /\ Win(w).k = "cap" }
CrashB(e, t) == OnB(CCrash(e), t)
CrashD(e, t) == OnD(CCrash(e), t, "bool_flag_not_refcount")
PartB(x, y, t) == OnB(CPartSym(x, y), t) \/ OnB(CPartDir(x, y), t)
PartD(x, y, t) == OnD(CPartSym(x, y), t, "heal_removes_shared_pairs")
                  \/ OnD(CPartDir(x, y), t, "heal_removes_shared_pairs")
LossB(x, y, t) == OnB(CLink("loss", x, y), t)
LossD(x, y, t) == OnD(CLink("loss", x, y), t, "loss_restore_captured_original")
LatB(x, y, t) == OnB(CLink("lat", x, y), t)
CapB(t) == OnB(CCap, t)
\* some window cancelled before start() covers t (and would be in force under the cancel defect)
PreCrash(e) == { w \in 1..NW : Win(w).cm = 1 /\ IsCrashK(Win(w).k) /\ Win(w).tg[1] = e }
PrePart(x, y) == { w \in 1..NW : Win(w).cm = 1 /\ PartCovers(w, x, y) }
PreLink(k, x, y) == { w \in 1..NW : Win(w).cm = 1 /\ Win(w).k = k /\ Win(w).tg = <<x, y>> }
PreCap == { w \in 1..NW : Win(w).cm = 1 /\ Win(w).k = "cap" }
PreWeak(ws, t) == \E w \in ws : Weak(w, t)

ActKey(it) ==      \* it = <<e, j, i, t>> ran although a live window strictly covers t
    LET e == it[1]  j == it[2]  i == it[3]  t == it[4] IN
    IF e = Q
    THEN LET a == Job(j).t IN
         IF CrashD(Q, a) /\ CrashB(Q, a) THEN "U:queued_job_admitted_while_crashed"
         ELSE IF CrashD(Q, a) THEN "handler_runs_after_overlapping_window_end"
         ELSE IF i = 0 THEN "queued_item_served_while_crashed" ELSE "queued_worker_advances_while_crashed"
    ELSE IF i > 0 /\ CrashD(e, t) THEN "process_advances_while_crashed"
         ELSE IF ~CrashB(e, t) THEN "handler_runs_after_overlapping_window_end"
         ELSE IF i > 0 THEN "process_advances_while_crashed"
         ELSE "U:handler_ran_while_crash_flag_set"

MissKey(s) ==      \* s = <<j, i>> did not run although no live window touches its history
    LET e == Job(s[1]).e IN
    IF \E w \in PreCrash(e) :
          (IF e = Q THEN Win(w).s <= Job(s[1]).t ELSE Win(w).s <= PT(s[1], s[2]) /\ Win(w).e >= Job(s[1]).t)
    THEN "cancel_before_start_ineffective" ELSE "U:job_not_processed_outside_windows"

EffKey(live, pre, onB, t, on, healed, notin, outside) ==
    IF SomeStrict(live, t) /\ ~on
    THEN (IF ~onB THEN healed ELSE notin)
    ELSE (IF PreWeak(pre, t) THEN "cancel_before_start_ineffective" ELSE outside)

Got(L, h) == \E n \in 1..Len(L.hlog) : L.hlog[n][1] = h /\ L.hlog[n][2] = 1
HeldAcross(L) == \E w \in CCap : \E h \in 1..NH :
                    Got(L, h) /\ sch.holds[h].t <= Win(w).s /\ sch.holds[h].t + sch.holds[h].d >= Win(w).s
CapOverlap == \E v, w \in CCap : v # w /\ Win(v).s <= Win(w).e /\ Win(w).s <= Win(v).e

MsgFateKey(L, p) ==
    LET P == sch.probes[p]  x == P.x  y == P.y  t == P.t
        sp == SomeStrict(PartWins(x, y), t)  sl == SomeStrict(LinkWins("loss", x, y), t)
    IN IF p \in Delivered(L)
       THEN (IF sp /\ ~PartB(x, y, t) /\ ~LossD(x, y, t) THEN "partition_healed_while_window_open"
             ELSE IF sl /\ ~LossB(x, y, t) /\ ~PartD(x, y, t) THEN "loss_restored_while_window_open"
             ELSE IF ~PartB(x, y, t) /\ ~LossB(x, y, t)
                  THEN (IF sp THEN "partition_healed_while_window_open" ELSE "loss_restored_while_window_open")
             ELSE "U:message_delivered_through_active_fault")
       ELSE (IF PreWeak(PrePart(x, y) \cup PreLink("loss", x, y), t)
             THEN "cancel_before_start_ineffective" ELSE "U:message_lost_outside_windows")
MsgDelayKey(L, n) ==
    LET P == sch.probes[L.msgs[n][1]] IN
    IF SomeStrict(LinkWins("lat", P.x, P.y), P.t)
    THEN (IF ~LatB(P.x, P.y, P.t) THEN "latency_restored_while_window_open"
          ELSE "U:latency_not_applied_in_window")
    ELSE (IF PreWeak(PreLink("lat", P.x, P.y), P.t) THEN "cancel_before_start_ineffective"
          ELSE "U:latency_applied_outside_windows")

EndKey(L, n) ==
    IF L.obs[n][7] # sch.C
    THEN (IF PreWeak(PreCap, L.obs[n][1]) THEN "cancel_before_start_ineffective" ELSE "U:capacity_not_restored")
    ELSE IF HeldAcross(L) THEN "capacity_not_restored_after_hold_across_activation"
         ELSE IF CapOverlap THEN "capacity_not_restored_after_overlapping_windows"
              ELSE "U:available_not_restored"

Keys(L) ==
    { <<ActKey(L.act[n]), n>> : n \in QuietBadAct(L) }
    \cup { <<ActKey(L.snk[n]), n>> : n \in QuietBadSnk(L) }
    \cup { << (IF ~CrashB(sch.probes[L.msgs[n][1]].y, L.msgs[n][2])
               THEN "handler_runs_after_overlapping_window_end"
               ELSE "U:message_handled_while_crash_flag_set"), n>> : n \in QuietBadMsg(L) }
    \cup { <<"U:unplanned_activity", n>> : n \in SpuriousAct(L) }
    \cup { <<"U:unplanned_emission", n>> : n \in SpuriousSnk(L) }
    \cup (IF NoDup(L.act) /\ NoDup(L.snk) THEN {} ELSE { <<"U:activity_repeated", 0>> })
    \cup { <<MissKey(s), s[1]>> : s \in MissingAct(L) \cup MissingSnk(L) }
    \cup { <<EffKey(PartWins(L.obs[n][2], L.obs[n][3]), PrePart(L.obs[n][2], L.obs[n][3]),
                    PartB(L.obs[n][2], L.obs[n][3], L.obs[n][1]), L.obs[n][1], L.obs[n][4] = 1,
                    "partition_healed_while_window_open", "U:partition_not_in_effect_in_window",
                    "U:partition_in_effect_outside_windows"), n>> : n \in PartBad(L) }
    \cup { <<EffKey(LinkWins("loss", L.obs[n][2], L.obs[n][3]), PreLink("loss", L.obs[n][2], L.obs[n][3]),
                    LossB(L.obs[n][2], L.obs[n][3], L.obs[n][1]), L.obs[n][1], L.obs[n][5] = 1,
                    "loss_restored_while_window_open", "U:loss_not_in_effect_in_window",
                    "U:loss_in_effect_outside_windows"), n>> : n \in LossBad(L) }
    \cup { <<EffKey(LinkWins("lat", L.obs[n][2], L.obs[n][3]), PreLink("lat", L.obs[n][2], L.obs[n][3]),
                    LatB(L.obs[n][2], L.obs[n][3], L.obs[n][1]), L.obs[n][1], L.obs[n][6] = 1,
                    "latency_restored_while_window_open", "U:latency_not_in_effect_in_window",
                    "U:latency_in_effect_outside_windows"), n>> : n \in LatBad(L) }
    \cup { <<EffKey(CapWs, PreCap, CapB(L.obs[n][1]), L.obs[n][1], L.obs[n][7] < sch.C,
                    "capacity_restored_while_window_open", "U:capacity_not_reduced_in_window",
                    "U:capacity_reduced_outside_windows"), n>> : n \in CapBad(L) }
    \cup { <<MsgFateKey(L, p), p>> : p \in MsgFateBad(L) }
    \cup { <<MsgDelayKey(L, n), n>> : n \in MsgDelayBad(L) }
    \cup (IF MsgDup(L) THEN { <<"U:message_duplicated", 0>> } ELSE {})
    \cup { <<EndKey(L, n), n>> : n \in EndBad(L) }

Names(ks) == { k[1] : k \in ks }
PosOf(ks, name) == LET ps == { k[2] : k \in { q \in ks : q[1] = name } } IN CHOOSE p \in ps : \A r \in ps : p <= r

UNames == { "U:queued_job_admitted_while_crashed", "U:handler_ran_while_crash_flag_set",
            "U:job_not_processed_outside_windows", "U:message_delivered_through_active_fault",
            "U:message_duplicated", "U:message_lost_outside_windows", "U:latency_not_applied_in_window",
            "U:latency_applied_outside_windows", "U:capacity_not_restored", "U:available_not_restored",
            "U:message_handled_while_crash_flag_set", "U:unplanned_activity", "U:unplanned_emission",
            "U:activity_repeated", "U:partition_not_in_effect_in_window", "U:partition_in_effect_outside_windows",
            "U:loss_not_in_effect_in_window", "U:loss_in_effect_outside_windows",
            "U:latency_not_in_effect_in_window", "U:latency_in_effect_outside_windows",
            "U:capacity_not_reduced_in_window", "U:capacity_reduced_outside_windows" }

=============================================================================
