------------------------------ MODULE FaultsMC ------------------------------
(* Model-checking wrapper for Faults.tla: the space of schedules TLC explores.  *)
(* A schedule = up to MaxW windows drawn from the window space of the mode (all *)
(* start < end on the coarse grid 1..TMax, every overlap / nesting / adjacency  *)
(* shape, both creation orders) + a workload derived from the windows: jobs,    *)
(* probes and holds at the three fine ticks around every window edge            *)
(* (edge - 1 ns, edge, edge + 1 ns), generators in flight across every edge,    *)
(* a backlog in front of Q, units held across activations, and an observation   *)
(* after the last window.                                                       *)
EXTENDS Faults

CONSTANTS Mode,        \* "node" | "net" | "cap" | "queue" | "mixed"
          MaxW,        \* windows per schedule
          TMax,        \* coarse grid 1..TMax (fine tick = 3 * coarse)
          CancelModes  \* subset of 0..3

RECURSIVE SortSet(_)
SortSet(S) == IF S = {} THEN <<>>
              ELSE LET x == CHOOSE x \in S : \A y \in S : x <= y IN <<x>> \o SortSet(S \ {x})
RECURSIVE SeqOfSet(_)
SeqOfSet(S) == IF S = {} THEN <<>> ELSE LET x == CHOOSE x \in S : TRUE IN <<x>> \o SeqOfSet(S \ {x})
RECURSIVE Concat(_, _)
Concat(ss, i) == IF i > Len(ss) THEN <<>> ELSE ss[i] \o Concat(ss, i + 1)

Ivals == { iv \in { <<3 * a, 3 * b>> : a \in 1..TMax, b \in 1..TMax } : iv[1] < iv[2] }
W0(k, tg, iv, x) == [k |-> k, tg |-> tg, s |-> iv[1], e |-> iv[2], x |-> x, cm |-> 0, ct |-> 0]
WithCancel(ws) == { [w EXCEPT !.cm = c, !.ct = IF c = 3 THEN w.s - 2 ELSE 0] : w \in ws, c \in CancelModes }

NodeWins(es) == { W0("crash", <<e>>, iv, 0) : e \in es, iv \in Ivals }
                \cup { W0("crash", <<e>>, <<3 * a, Inf>>, 0) : e \in es, a \in 1..TMax }
PartWins0(gs, xs) == { W0("part", <<g>>, iv, x) : g \in gs, iv \in Ivals, x \in xs }
LatWins(ls, xs) == { W0("lat", l, iv, x) : l \in ls, iv \in Ivals, x \in xs }
LossWins(ls) == { W0("loss", l, iv, 0) : l \in ls, iv \in Ivals }
CapWins0(xs) == { W0("cap", <<0>>, iv, x) : iv \in Ivals, x \in xs }

WinSpace ==
    CASE Mode = "node" -> NodeWins({1, 2})
      [] Mode = "queue" -> NodeWins({Q})
      [] Mode = "part" -> PartWins0({1, 2}, {0, 1})
      [] Mode = "link" -> LatWins({<<11, 12>>}, {3, 6}) \cup LatWins({<<12, 11>>}, {3}) \cup LossWins({<<11, 12>>})
      [] Mode = "net" -> PartWins0({1, 2}, {0}) \cup PartWins0({1}, {1}) \cup LatWins({<<11, 12>>}, {3})
                         \cup LossWins({<<11, 12>>})
      [] Mode = "cap" -> CapWins0({1, 2})
      [] Mode = "mixed" -> NodeWins({1, 12}) \cup PartWins0({1}, {0}) \cup LatWins({<<11, 12>>}, {3})
                           \cup LossWins({<<11, 12>>}) \cup CapWins0({2}) \cup NodeWins({Q})

Groups == << [a |-> <<11>>, b |-> <<12>>], [a |-> <<11>>, b |-> <<12, 13>>] >>

\* ---- workload derived from the chosen windows ------------------------------
Edges(ws) == UNION { {ws[i].s, ws[i].e} : i \in 1..Len(ws) } \ {Inf}
LastEdge(ws) == IF Edges(ws) = {} THEN 3 ELSE MaxOf(Edges(ws))
Around(ws) == UNION { {x - 1, x, x + 1} : x \in Edges(ws) } \cup {LastEdge(ws) + 4}
Kinds(ws) == { ws[i].k : i \in 1..Len(ws) }
CrashTargets(ws) == { ws[i].tg[1] : i \in { n \in 1..Len(ws) : IsCrashK(ws[n].k) } }

Threes(n) == [i \in 1..n |-> 3]
Ones(n) == [i \in 1..n |-> 1]
NodeJobs(ws, e, gens) ==
    LET inst == SortSet(Around(ws))
        n == (LastEdge(ws) \div 3) + 2
    IN [i \in 1..Len(inst) |-> [e |-> e, t |-> inst[i], ds |-> <<>>, em |-> <<(IF e = 1 THEN 1 ELSE 0)>>]]
       \o [g \in 1..gens |-> [e |-> e, t |-> g - 1, ds |-> Threes(n), em |-> Ones(n + 1)]]
QJobs(ws) ==
    LET inst == SortSet(Around(ws) \cup { 3 * c : c \in 0..((LastEdge(ws) \div 3) + 1) })
    IN [i \in 1..Len(inst) |-> [e |-> Q, t |-> inst[i], ds |-> <<3>>, em |-> <<0, 1>>]]
TouchedPairs(ws) ==
    UNION { LET w == ws[i] IN
            CASE w.k = "part" -> LET g == Groups[w.tg[1]] IN
                                 (Range(g.a) \X Range(g.b)) \cup (Range(g.b) \X Range(g.a))
              [] w.k \in {"lat", "loss"} -> { <<w.tg[1], w.tg[2]>>, <<w.tg[2], w.tg[1]>> }
              [] OTHER -> {} : i \in 1..Len(ws) }
Probes(ws) ==
    LET inst == SortSet(Around(ws))
        prs == SeqOfSet(TouchedPairs(ws) \cup (IF 12 \in CrashTargets(ws) THEN {<<11, 12>>} ELSE {}))
        caps == IF "cap" \in Kinds(ws) THEN <<<<0, 0>>>> ELSE <<>>
        all == prs \o caps
    IN Concat([i \in 1..Len(inst) |-> [q \in 1..Len(all) |-> [t |-> inst[i], x |-> all[q][1], y |-> all[q][2]]]], 1)
       \o (IF TouchedPairs(ws) # {} THEN <<[t |-> 4, x |-> 13, y |-> 11], [t |-> LastEdge(ws) + 4, x |-> 13, y |-> 11]>>
           ELSE <<>>)
HoldSpace(ws) ==
    IF "cap" \notin Kinds(ws) THEN { <<>> }
    ELSE { <<>>,
           << [t |-> 1, a |-> 3, d |-> 6] >>,                              \* held across an early activation
           << [t |-> 1, a |-> 1, d |-> 3 * TMax + 6] >>,                   \* held across everything
           << [t |-> 4, a |-> 2, d |-> 3], [t |-> 5, a |-> 2, d |-> 6] >>,  \* acquired inside / around
           << [t |-> 2, a |-> 1, d |-> 3], [t |-> 7, a |-> 3, d |-> 3], [t |-> 8, a |-> 1, d |-> 9] >> }

Workload(ws, hs) ==
    LET tg == CrashTargets(ws)
        jobs == (IF Mode \in {"node"} THEN NodeJobs(ws, 1, 3) \o NodeJobs(ws, 2, 1)
                 ELSE IF 1 \in tg THEN NodeJobs(ws, 1, 2) \o NodeJobs(ws, 2, 1) ELSE <<>>)
                \o (IF Q \in tg THEN QJobs(ws) ELSE <<>>)
    IN [C |-> 4, L0 |-> 3, H |-> LastEdge(ws) + 15 + 3 * Len(jobs), wins |-> ws, groups |-> Groups,
        jobs |-> jobs, probes |-> Probes(ws), holds |-> hs]

WS == SeqOfSet(WithCancel(WinSpace))
Mono(f, n, dir) == \A i \in 1..(n - 1) : IF dir = 1 THEN f[i] <= f[i + 1] ELSE f[i] > f[i + 1]

Init ==
    /\ \E n \in 0..MaxW : \E f \in [1..n -> 1..Len(WS)] : \E dir \in {1, 2} :
         /\ Mono(f, n, dir)
         /\ (n <= 1 => dir = 1)
         /\ LET ws == [i \in 1..n |-> WS[f[i]]] IN
            \E hs \in HoldSpace(ws) : sch = Workload(ws, hs)
    /\ m = InitM(sch)

Spec == Init /\ [][Next]_vars
GenNext == FALSE /\ UNCHANGED vars
=============================================================================
