------------------------------ MODULE FaultsMC ------------------------------
(* Model-checking wrapper for Faults.tla: the space of schedules TLC explores.  *)
(* A schedule = up to maxw windows drawn from the window space of a mode (all   *)
(* start < end on the coarse grid 1..tmax, permanent crashes, every overlap /   *)
(* nesting / adjacency / identical-window shape, both creation orders, cancel   *)
(* modes) + a workload derived from the windows: jobs, probes and holds at the  *)
(* three fine ticks around every window edge (edge - 1 ns, edge, edge + 1 ns),  *)
(* generators in flight across every edge, a backlog in front of Q, units held  *)
(* across activations, and an observation after the last window.  Configs is a  *)
(* set of such spaces, each with the deviation sets to run it under; all of     *)
(* them are explored in one TLC run.  Runs with dev = {} are checked against    *)
(* the invariants of Faults.tla; finished runs with a deviation report the      *)
(* clauses they break (action Report, lines <<"S", dev, clause>>).              *)
EXTENDS Faults, SequencesExt

CONSTANTS Configs      \* set of [mode, maxw, tmax, cms, devs]: window space "mode", up to maxw windows on the
                       \* coarse grid 1..tmax, cancel modes cms, one run per deviation set in devs

SortSet(S) == SetToSortSeq(S, LAMBDA a, b : a < b)
SeqOfSet(S) == SetToSeq(S)
RECURSIVE Concat(_, _)
Concat(ss, i) == IF i > Len(ss) THEN <<>> ELSE ss[i] \o Concat(ss, i + 1)

Ivals(TMax) == { iv \in { <<3 * a, 3 * b>> : a \in 1..TMax, b \in 1..TMax } : iv[1] < iv[2] }
W0(k, tg, iv, x) == [k |-> k, tg |-> tg, s |-> iv[1], e |-> iv[2], x |-> x, cm |-> 0, ct |-> 0]
WithCancel(ws, CancelModes) == { [w EXCEPT !.cm = c, !.ct = IF c = 3 THEN w.s - 2 ELSE 0] : w \in ws, c \in CancelModes }

NodeWins(es, TMax) == { W0("crash", <<e>>, iv, 0) : e \in es, iv \in Ivals(TMax) }
                \cup { W0("crash", <<e>>, <<3 * a, Inf>>, 0) : e \in es, a \in 1..TMax }
PartWins0(gs, xs, TMax) == { W0("part", <<g>>, iv, x) : g \in gs, iv \in Ivals(TMax), x \in xs }
LatWins(ls, xs, TMax) == { W0("lat", l, iv, x) : l \in ls, iv \in Ivals(TMax), x \in xs }
LossWins(ls, TMax) == { W0("loss", l, iv, 0) : l \in ls, iv \in Ivals(TMax) }
CapWins0(xs, TMax) == { W0("cap", <<0>>, iv, x) : iv \in Ivals(TMax), x \in xs }

WinSpace(Mode, T) ==
    CASE Mode = "node" -> NodeWins({1, 2}, T)
      [] Mode = "queue" -> NodeWins({Q}, T)
      [] Mode = "part" -> PartWins0({1, 2}, {0, 1}, T)
      [] Mode = "link" -> LatWins({<<11, 12>>}, {3, 6}, T) \cup LatWins({<<12, 11>>}, {3}, T) \cup LossWins({<<11, 12>>}, T)
      [] Mode = "net" -> PartWins0({1, 2}, {0}, T) \cup PartWins0({1}, {1}, T) \cup LatWins({<<11, 12>>}, {3}, T)
                         \cup LossWins({<<11, 12>>}, T)
      [] Mode = "cap" -> CapWins0({1, 2}, T)
      [] Mode = "partS" -> PartWins0({1, 2}, {0}, T)
      [] Mode = "latS" -> LatWins({<<11, 12>>}, {3}, T)
      [] Mode = "lossS" -> LossWins({<<11, 12>>}, T)
      [] Mode = "capS" -> CapWins0({2}, T)
      [] Mode = "mixed" -> NodeWins({1, 12}, T) \cup PartWins0({1}, {0}, T) \cup LatWins({<<11, 12>>}, {3}, T)
                           \cup LossWins({<<11, 12>>}, T) \cup CapWins0({2}, T) \cup NodeWins({Q}, T)

Groups == << [a |-> <<11>>, b |-> <<12>>], [a |-> <<11>>, b |-> <<12, 13>>] >>

\* ---- workload derived from the chosen windows ------------------------------
Edges(ws) == UNION { {ws[i].s, ws[i].e} : i \in 1..Len(ws) } \ {Inf}
LastEdge(ws) == IF Edges(ws) = {} THEN 3 ELSE MaxOf(Edges(ws))
Around(ws) == UNION { {x - 1, x, x + 1} : x \in Edges(ws) } \cup {LastEdge(ws) + 4}
Kinds(ws) == { ws[i].k : i \in 1..Len(ws) }
CrashTargets(ws) == { ws[i].tg[1] : i \in { n \in 1..Len(ws) : IsCrashK(ws[n].k) } }

Threes(n) == [i \in 1..n |-> 3]
Ones(n) == [i \in 1..n |-> 1]
NodeJobs(ws, e, gens) ==
    LET inst == SortSet(Around(ws))
        n == (LastEdge(ws) \div 3) + 2
    IN [i \in 1..Len(inst) |-> [e |-> e, t |-> inst[i], ds |-> <<>>, em |-> <<(IF e = 1 THEN 1 ELSE 0)>>]]
       \o [g \in 1..gens |-> [e |-> e, t |-> g - 1, ds |-> Threes(n), em |-> Ones(n + 1)]]
QJobs(ws) ==
    LET inst == SortSet(Around(ws) \cup { 3 * c : c \in 0..((LastEdge(ws) \div 3) + 1) })
    IN [i \in 1..Len(inst) |-> [e |-> Q, t |-> inst[i], ds |-> <<3>>, em |-> <<0, 1>>]]
TouchedPairs(ws) ==
    UNION { LET w == ws[i] IN
            CASE w.k = "part" -> LET g == Groups[w.tg[1]] IN
                                 (SeqRange(g.a) \X SeqRange(g.b)) \cup (SeqRange(g.b) \X SeqRange(g.a))
              [] w.k \in {"lat", "loss"} -> { <<w.tg[1], w.tg[2]>>, <<w.tg[2], w.tg[1]>> }
              [] OTHER -> {} : i \in 1..Len(ws) }
Probes(ws) ==
    LET inst == SortSet(Around(ws))
        prs == SeqOfSet(TouchedPairs(ws) \cup (IF 12 \in CrashTargets(ws) THEN {<<11, 12>>} ELSE {}))
        caps == IF "cap" \in Kinds(ws) THEN <<<<0, 0>>>> ELSE <<>>
        all == prs \o caps
    IN Concat([i \in 1..Len(inst) |-> [q \in 1..Len(all) |-> [t |-> inst[i], x |-> all[q][1], y |-> all[q][2]]]], 1)
       \o (IF TouchedPairs(ws) # {} THEN <<[t |-> 4, x |-> 13, y |-> 11], [t |-> LastEdge(ws) + 4, x |-> 13, y |-> 11]>>
           ELSE <<>>)
HoldSpace(ws, TMax) ==
    IF "cap" \notin Kinds(ws) THEN { <<>> }
    ELSE { <<>>,
           << [t |-> 1, a |-> 3, d |-> 6] >>,                              \* held across an early activation
           << [t |-> 1, a |-> 1, d |-> 3 * TMax + 6] >>,                   \* held across everything
           << [t |-> 4, a |-> 2, d |-> 3], [t |-> 5, a |-> 2, d |-> 6] >>,  \* acquired inside / around
           << [t |-> 2, a |-> 1, d |-> 3], [t |-> 7, a |-> 3, d |-> 3], [t |-> 8, a |-> 1, d |-> 9] >> }

\* stacked latency windows add up: the horizon must leave room for the slowest probe message
RECURSIVE LatSum(_, _)
LatSum(ws, i) == IF i > Len(ws) THEN 0 ELSE (IF ws[i].k = "lat" THEN ws[i].x ELSE 0) + LatSum(ws, i + 1)
Workload(ws, hs, Mode, dv) ==
    LET tg == CrashTargets(ws)
        jobs == (IF Mode \in {"node"} THEN NodeJobs(ws, 1, 3) \o NodeJobs(ws, 2, 1)
                 ELSE IF 1 \in tg THEN NodeJobs(ws, 1, 2) \o NodeJobs(ws, 2, 1) ELSE <<>>)
                \o (IF Q \in tg THEN QJobs(ws) ELSE <<>>)
    IN [dev |-> dv, C |-> 4, L0 |-> 3, H |-> LastEdge(ws) + 15 + 3 * Len(jobs) + LatSum(ws, 1), wins |-> ws, groups |-> Groups,
        jobs |-> jobs, probes |-> Probes(ws), holds |-> hs]

Mono(f, n, dir) == \A i \in 1..(n - 1) : IF dir = 1 THEN f[i] <= f[i + 1] ELSE f[i] > f[i + 1]

Init ==
    /\ \E c \in Configs :
         LET WS == SeqOfSet(WithCancel(WinSpace(c.mode, c.tmax), c.cms)) IN
         \E n \in 0..c.maxw : \E f \in [1..n -> 1..Len(WS)] : \E dir \in {1, 2} :
           /\ Mono(f, n, dir)
           /\ (n <= 1 => dir = 1)
           /\ LET ws == [i \in 1..n |-> WS[f[i]]] IN
              \E hs \in HoldSpace(ws, c.tmax) : \E dv \in c.devs : sch = Workload(ws, hs, c.mode, dv)
    /\ m = InitM(sch)

\* a finished run under some deviation reports which contract clauses it breaks (sensitivity of the
\* invariants: every deviation alone must make a clause false somewhere in the bounded model)
Broken == { c \in { <<"InvCrashQuiet", CrashQuiet(ML)>>, <<"InvUnaffected", Unaffected(ML)>>,
                    <<"InvResumes", Resumes(ML)>>, <<"InvPartition", PartBad(ML) = {}>>,
                    <<"InvLoss", LossBad(ML) = {}>>, <<"InvLatency", LatBad(ML) = {}>>,
                    <<"InvCapacity", CapBad(ML) = {}>>, <<"InvTraffic", Traffic(ML)>>,
                    <<"InvEndState", EndBad(ML) = {}>> } : ~c[2] }
Report == /\ Done(m) /\ sch.dev # {}
          /\ \A c \in Broken : PrintT(<<"S", sch.dev, c[1]>>)
          /\ UNCHANGED vars
MCNext == Next \/ Report

Spec == Init /\ [][MCNext]_vars
GenNext == FALSE /\ UNCHANGED vars

\* ---- configurations (cfg files cannot write records) ------------------------
Cfg(mode, maxw, tmax, cms, devs) == [mode |-> mode, maxw |-> maxw, tmax |-> tmax, cms |-> cms, devs |-> devs]
Plain(mode, maxw, tmax) == Cfg(mode, maxw, tmax, {0}, {{}})
Sens == { Cfg("node", 1, 2, {0}, {{"continuation_ignores_crash"}}),
          Cfg("node", 2, 2, {0}, {{"bool_flag_not_refcount"}}),
          Cfg("queue", 1, 2, {0}, {{"queued_worker_ignores_crash"}}),
          Cfg("partS", 2, 3, {0}, {{"heal_removes_shared_pairs"}}),
          Cfg("latS", 2, 3, {0}, {{"lat_restore_captured_original"}}),
          Cfg("lossS", 2, 3, {0}, {{"loss_restore_captured_original"}}),
          Cfg("capS", 2, 3, {0}, {{"capacity_restore_captured_original"}, {"capacity_restore_adds_delta"}}),
          Cfg("mixed", 1, 2, {1}, {{"cancel_before_start_ineffective"}}) }
MCQuick == Sens \cup { Plain("node", 2, 3), Plain("node", 3, 2), Plain("queue", 2, 3), Plain("part", 2, 3),
                       Plain("link", 2, 2), Plain("cap", 2, 3), Plain("mixed", 2, 2),
                       Cfg("mixed", 1, 2, {0, 1, 2, 3}, {{}}) }
MCThorough == Sens \cup { Plain("node", 3, 3), Plain("node", 2, 5), Plain("queue", 3, 3), Plain("queue", 2, 4),
                          Plain("part", 3, 3), Plain("link", 3, 3), Plain("net", 2, 3), Plain("cap", 3, 3),
                          Plain("cap", 2, 4), Plain("mixed", 2, 3), Plain("mixed", 3, 2),
                          Cfg("mixed", 2, 2, {0, 1, 3}, {{}}), Cfg("node", 2, 3, {0, 1, 2, 3}, {{}}) }
GenQuick == { Plain("node", 2, 3), Plain("queue", 2, 3), Plain("part", 2, 3), Plain("link", 2, 2),
              Plain("cap", 2, 3), Plain("mixed", 2, 2), Cfg("mixed", 1, 3, {0, 1, 2, 3}, {{}}) }
GenThorough == { Plain("node", 3, 3), Plain("queue", 2, 4), Plain("part", 3, 3), Plain("link", 3, 3),
                 Plain("net", 2, 3), Plain("cap", 3, 3), Plain("mixed", 2, 3),
                 Cfg("mixed", 2, 2, {0, 1, 2, 3}, {{}}), Cfg("node", 2, 3, {0, 1, 2, 3}, {{}}) }
=============================================================================
