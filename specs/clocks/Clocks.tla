------------------------------- MODULE Clocks -------------------------------
(* Implementation-shaped model of happysimulator/core/logical_clocks.py      *)
(* (LamportClock, VectorClock, HybridLogicalClock) for property C18.         *)
(*                                                                           *)
(* A history is a sequence of events; every event belongs to a node, is a    *)
(* local event (tick/now), a send (send) or a receive of an earlier send     *)
(* (receive) and reads the node's physical clock once (HLC).  Physical       *)
(* readings are arbitrary per event (arbitrary skew, drift, even backward    *)
(* steps - a superset of what NodeClock models produce).  A message may be   *)
(* received any number of times by any node other than its sender.           *)
(*                                                                           *)
(* One action per public call:                                               *)
(*   Local(n,p)  = LamportClock.tick, VectorClock.tick, HLC.now              *)
(*   Send(n,p)   = LamportClock.send, VectorClock.send, HLC.send             *)
(*   Recv(n,s,p) = LamportClock.receive, VectorClock.receive, HLC.receive    *)
(* The ghost relation hb is the history's own happened-before relation       *)
(* (program order + send->receive, transitively closed).                     *)
(* Deviations (Dev) are hypothetical defects used for sensitivity runs only. *)
EXTENDS Naturals, Sequences, FiniteSets, TLC

CONSTANTS NN,        \* number of nodes
          MaxEv,     \* history length bound
          MaxPT,     \* physical readings 0..MaxPT
          Mems,      \* membership modes explored: subset of {"all", "prefix", "self"}
          Dev        \* set of deviation names

Nodes == 1..NN
VARIABLES lam, vc, hlc, ev, hb,
          mem,       \* membership mode of this behaviour (which node_ids every VectorClock was built with)
          vk         \* vk[n] = key set of VectorClock._vector at node n (grows on receive)
vars == <<lam, vc, hlc, ev, hb, mem, vk>>

\* node_ids a VectorClock is constructed with: the full list, the nodes that existed when n started
\* (lazily discovered / growing membership), or only n itself.  vc[n][k] = 0 for k outside vk[n]
\* (the code reads missing entries with .get(k, 0)).
InitKeys(m, n) == IF m = "all" THEN Nodes ELSE IF m = "prefix" THEN 1..n ELSE {n}

Max2(a, b) == IF a >= b THEN a ELSE b
Max3(a, b, c) == Max2(a, Max2(b, c))

(* ------------------------- the three algorithms ------------------------- *)
LamTick(l) == l + 1
LamRecv(l, r) == IF "lamport_recv_no_increment" \in Dev THEN Max2(l, r) ELSE Max2(l, r) + 1

VcTick(v, n) == [v EXCEPT ![n] = @ + 1]
VcRecv(v, n, r) ==
    LET m == [k \in DOMAIN v |-> Max2(v[k], r[k])]
    IN IF "vc_recv_no_increment" \in Dev THEN m ELSE [m EXCEPT ![n] = @ + 1]

\* hlc state = <<physical, logical>>
HlcNow(h, p) == IF p > h[1] THEN <<p, 0>> ELSE <<h[1], h[2] + 1>>
HlcRecv(h, p, r) ==
    IF "hlc_recv_ignores_remote" \in Dev THEN HlcNow(h, p)
    ELSE LET mx == Max3(p, h[1], r[1]) IN
         IF mx = h[1] /\ mx = r[1] THEN <<mx, Max2(h[2], r[2]) + 1>>
         ELSE IF mx = h[1] THEN <<mx, h[2] + 1>>
         ELSE IF mx = r[1] THEN <<mx, r[2] + 1>>
         ELSE <<mx, 0>>

(* ------------------------------ comparisons ----------------------------- *)
\* VectorClock.happened_before on full vectors (missing entries = 0)
VcLess(a, b) == (\A k \in DOMAIN a : a[k] <= b[k]) /\ (\E k \in DOMAIN a : a[k] < b[k])
\* ... as the code computes it from the two key sets ka, kb (union of the keys, missing = 0)
VcLessK(a, ka, b, kb) ==
    LET ks == IF "vc_compare_own_keys_only" \in Dev THEN ka ELSE ka \cup kb IN
    (\A k \in ks : a[k] <= b[k]) /\ (\E k \in ks : a[k] < b[k])
\* HLCTimestamp.__lt__ on (physical, logical, node)
HlcLess(a, b) == \/ a[1] < b[1]
                 \/ a[1] = b[1] /\ a[2] < b[2]
                 \/ a[1] = b[1] /\ a[2] = b[2] /\ a[3] < b[3]

(* -------------------------- happened-before ghost ------------------------ *)
\* new event j at node n caused by send s (0 = none), given history e and closed relation h
HbExtend(h, e, j, n, s) ==
    LET direct == { i \in 1..(j - 1) : e[i].n = n } \cup (IF s = 0 THEN {} ELSE {s})
        allp == direct \cup { x \in 1..(j - 1) : \E q \in direct : <<x, q>> \in h }
    IN h \cup { <<i, j>> : i \in allp }

(* --------------------------------- actions ------------------------------- *)
Init ==
    /\ lam = [n \in Nodes |-> 0]
    /\ vc = [n \in Nodes |-> [k \in Nodes |-> 0]]
    /\ hlc = [n \in Nodes |-> <<0, 0>>]
    /\ ev = <<>>
    /\ hb = {}
    /\ mem \in Mems
    /\ vk = [n \in Nodes |-> InitKeys(mem, n)]

AppendEv(n, kind, s, p, l, v, h) ==
    /\ lam' = [lam EXCEPT ![n] = l]
    /\ vc' = [vc EXCEPT ![n] = v]
    /\ hlc' = [hlc EXCEPT ![n] = h]
    /\ vk' = [vk EXCEPT ![n] = IF s = 0 THEN @ ELSE @ \cup ev[s].vk]
    /\ ev' = Append(ev, [n |-> n, k |-> kind, s |-> s, p |-> p, lam |-> l, vc |-> v,
                         vk |-> IF s = 0 THEN vk[n] ELSE vk[n] \cup ev[s].vk,
                         hlc |-> <<h[1], h[2], n>>])
    /\ hb' = HbExtend(hb, ev, Len(ev) + 1, n, s)
    /\ UNCHANGED mem

Local(n, p) ==
    /\ Len(ev) < MaxEv
    /\ AppendEv(n, "local", 0, p, LamTick(lam[n]), VcTick(vc[n], n), HlcNow(hlc[n], p))

Send(n, p) ==
    /\ Len(ev) < MaxEv
    /\ AppendEv(n, "send", 0, p, LamTick(lam[n]), VcTick(vc[n], n), HlcNow(hlc[n], p))

Recv(n, s, p) ==
    /\ Len(ev) < MaxEv
    /\ s \in 1..Len(ev) /\ ev[s].k = "send" /\ ev[s].n # n
    /\ AppendEv(n, "recv", s, p, LamRecv(lam[n], ev[s].lam), VcRecv(vc[n], n, ev[s].vc),
              HlcRecv(hlc[n], p, ev[s].hlc))

Next == \E n \in Nodes, p \in 0..MaxPT :
            \/ Local(n, p)
            \/ Send(n, p)
            \/ \E s \in 1..MaxEv : Recv(n, s, p)

Spec == Init /\ [][Next]_vars

(* -------------------- contract (property C18, clocks) -------------------- *)
\* "if a happened before b then the Lamport ... timestamps of a are smaller than those of b"
InvLamport == \A pr \in hb : ev[pr[1]].lam < ev[pr[2]].lam
\* "... and hybrid-logical timestamps of a are smaller than those of b"
InvHLC == \A pr \in hb : HlcLess(ev[pr[1]].hlc, ev[pr[2]].hlc)
\* "vector clocks order a before b exactly when a happened before b"
VcBefore(i, j) == VcLessK(ev[i].vc, ev[i].vk, ev[j].vc, ev[j].vk)
InvVCForward == \A pr \in hb : VcBefore(pr[1], pr[2])
InvVCBackward == \A i, j \in 1..Len(ev) : (i # j /\ VcBefore(i, j)) => <<i, j>> \in hb
\* the key-set based comparison is the comparison of the full vectors, entries outside the keys are 0
InvKeys == \A i \in 1..Len(ev) : \A k \in Nodes \ ev[i].vk : ev[i].vc[k] = 0
=============================================================================
