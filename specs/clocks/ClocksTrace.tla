---------------------------- MODULE ClocksTrace ----------------------------
(* Trace validation for the clock clauses of C18.                            *)
(* Input: IOEnv.TRACE_FILE = JSON array of executions of the real            *)
(* LamportClock / VectorClock / HybridLogicalClock objects:                  *)
(*   [ id |-> n, nn |-> number of nodes, z |-> rank of physical time 0,      *)
(*     ev  |-> << <<node, kind(0 local,1 send,2 recv), src event|0, pt>> >>, *)
(*     lam |-> << Lamport stamp of event i >>,                               *)
(*     vc  |-> << vector stamp of event i (nn counters, missing key = 0) >>, *)
(*     k0  |-> << node_ids (indices) VectorClock n was constructed with >>,  *)
(*     vk  |-> << key set of the vector of event i (sorted indices) >>,      *)
(*     hl  |-> << <<physical rank, logical, node>> of event i >>,            *)
(*     vm[i][j] = 1 iff the real vc_i.happened_before(vc_j) is true,        *)
(*     hm[i][j] = 1 iff the real HLCTimestamp hl_i < hl_j is true ]          *)
(* Physical readings are order-preserving ranks (the algorithm only compares *)
(* and maximises them).  hb is recomputed from ev alone.  One verdict line   *)
(* per trace: <<"V", id, verdict, pos>>, verdict = ACCEPT | PROP:<clause> |  *)
(* MODEL:<what>.  PROP = contract clause false on the observed stamps;       *)
(* MODEL = observed stamps differ from Clocks.tla (drift) or malformed input.*)
EXTENDS Clocks, Json, IOUtils

Traces == JsonDeserialize(IOEnv.TRACE_FILE)
NT == Len(Traces)

VARIABLES ti, l, bad, mbad, mpos
tvars == <<lam, vc, hlc, ev, hb, mem, vk, ti, l, bad, mbad, mpos>>

Tr == Traces[ti]
KindOf(k) == IF k = 0 THEN "local" ELSE IF k = 1 THEN "send" ELSE "recv"
SeqSet(q) == { q[i] : i \in 1..Len(q) }
\* results of the real comparisons, as 0/1 matrices
VLT(i, j) == Tr.vm[i][j] = 1
HLT(i, j) == Tr.hm[i][j] = 1

\* z = rank of physical time 0 (the initial HLC timestamp) among the trace's readings
Fresh(nn, z) ==
    /\ mem = "trace"
    /\ vk = [n \in 1..nn |-> IF NT = 0 THEN {n} ELSE SeqSet(Traces[1].k0[n])]
    /\ lam = [n \in 1..nn |-> 0]
    /\ vc = [n \in 1..nn |-> [k \in 1..nn |-> 0]]
    /\ hlc = [n \in 1..nn |-> <<z, 0>>]
    /\ ev = <<>> /\ hb = {}

TInit ==
    /\ ti = 1 /\ l = 1 /\ bad = "" /\ mbad = "" /\ mpos = 0
    /\ Fresh(IF NT = 0 THEN 1 ELSE Traces[1].nn, IF NT = 0 THEN 0 ELSE Traces[1].z)

\* contract on the observed stamps, pairs involving the new event j; h = hb including j
PropVerdict(j, h) ==
    IF \E i \in 1..(j - 1) : <<i, j>> \in h /\ ~(Tr.lam[i] < Tr.lam[j]) THEN "PROP:lamport_order"
    ELSE IF \E i \in 1..(j - 1) : <<i, j>> \in h /\ ~HLT(i, j) THEN "PROP:hlc_order"
    ELSE IF \E i \in 1..(j - 1) : <<i, j>> \in h /\ ~VLT(i, j) THEN "PROP:vc_misses_causal_pair"
    ELSE IF \E i \in 1..(j - 1) : (VLT(i, j) /\ <<i, j>> \notin h) \/ VLT(j, i)
         THEN "PROP:vc_orders_unrelated_pair"
    ELSE ""

\* drift: observed stamps / comparison results vs the model
ModelVerdict(j, ml, mv, mh, mk) ==
    IF Tr.lam[j] # ml THEN "MODEL:lamport_stamp"
    ELSE IF Tr.vc[j] # mv THEN "MODEL:vector_stamp"
    ELSE IF SeqSet(Tr.vk[j]) # mk THEN "MODEL:vector_keys"
    ELSE IF Tr.hl[j] # mh THEN "MODEL:hlc_stamp"
    ELSE IF \E i \in 1..(j - 1) : \/ VLT(i, j) # VcLess(Tr.vc[i], Tr.vc[j])
                                  \/ VLT(j, i) # VcLess(Tr.vc[j], Tr.vc[i])
         THEN "MODEL:happened_before_result"
    ELSE IF \E i \in 1..(j - 1) : \/ HLT(i, j) # HlcLess(Tr.hl[i], Tr.hl[j])
                                  \/ HLT(j, i) # HlcLess(Tr.hl[j], Tr.hl[i])
         THEN "MODEL:hlc_compare_result"
    ELSE ""

WellFormed(j) ==
    LET E == Tr.ev[j] IN
    /\ E[1] \in 1..Tr.nn /\ E[2] \in {0, 1, 2}
    /\ Len(Tr.lam) = Len(Tr.ev) /\ Len(Tr.vc) = Len(Tr.ev) /\ Len(Tr.hl) = Len(Tr.ev)
    /\ Len(Tr.vk) = Len(Tr.ev) /\ Len(Tr.k0) = Tr.nn
    /\ IF E[2] = 2 THEN E[3] \in 1..(j - 1) /\ Tr.ev[E[3]][2] = 1 /\ Tr.ev[E[3]][1] # E[1]
       ELSE E[3] = 0

StepEv(j) ==
    LET E == Tr.ev[j]
        n == E[1]
        k == E[2]
        s == E[3]
        p == E[4]
        ml == IF k = 2 THEN LamRecv(lam[n], ev[s].lam) ELSE LamTick(lam[n])
        mv == IF k = 2 THEN VcRecv(vc[n], n, ev[s].vc) ELSE VcTick(vc[n], n)
        mh == IF k = 2 THEN HlcRecv(hlc[n], p, ev[s].hlc) ELSE HlcNow(hlc[n], p)
        h2 == HbExtend(hb, ev, j, n, s)
        mk == IF s = 0 THEN vk[n] ELSE vk[n] \cup ev[s].vk
        mvd == ModelVerdict(j, ml, mv, <<mh[1], mh[2], n>>, mk)
    IN /\ AppendEv(n, KindOf(k), s, p, ml, mv, mh)
       /\ bad' = PropVerdict(j, h2)
       /\ IF mbad = "" /\ mvd # "" THEN mbad' = mvd /\ mpos' = j ELSE UNCHANGED <<mbad, mpos>>

Finish(verdict, pos) ==
    /\ PrintT(<<"V", Tr.id, verdict, pos>>)
    /\ PrintT(<<"M", Tr.id, mbad, mpos>>)
    /\ ti' = ti + 1 /\ l' = 1 /\ bad' = "" /\ mbad' = "" /\ mpos' = 0
    /\ lam' = [n \in 1..(IF ti < NT THEN Traces[ti + 1].nn ELSE 1) |-> 0]
    /\ vc' = [n \in 1..(IF ti < NT THEN Traces[ti + 1].nn ELSE 1) |->
                 [k \in 1..(IF ti < NT THEN Traces[ti + 1].nn ELSE 1) |-> 0]]
    /\ hlc' = [n \in 1..(IF ti < NT THEN Traces[ti + 1].nn ELSE 1) |->
                  <<(IF ti < NT THEN Traces[ti + 1].z ELSE 0), 0>>]
    /\ ev' = <<>> /\ hb' = {} /\ mem' = mem
    /\ vk' = [n \in 1..(IF ti < NT THEN Traces[ti + 1].nn ELSE 1) |->
                 IF ti < NT THEN SeqSet(Traces[ti + 1].k0[n]) ELSE {n}]

TNext ==
    /\ ti <= NT
    /\ IF bad # "" THEN Finish(bad, l - 1)
       ELSE IF l > Len(Tr.ev) THEN (IF mbad # "" THEN Finish(mbad, mpos) ELSE Finish("ACCEPT", l - 1))
       ELSE IF ~WellFormed(l) THEN Finish("MODEL:malformed_history", l)
       ELSE StepEv(l) /\ l' = l + 1 /\ ti' = ti

TSpec == TInit /\ [][TNext]_tvars
=============================================================================
