-------------------------------- MODULE Crdt --------------------------------
(* Implementation-shaped model of happysimulator/components/crdt for C18:    *)
(* GCounter ("G"), PNCounter ("PN"), LWWRegister ("LWW"), ORSet ("OR") as    *)
(* their Python state, and CRDTStore gossip (push / response of serialised   *)
(* state) when Store = TRUE.                                                 *)
(*                                                                           *)
(* Replica r holds one CRDT object (in store mode: the object under one key; *)
(* it does not exist until the first local write or the first merged remote  *)
(* state).  Fields of rep[r]:                                                *)
(*   has   object exists            nid  node id used by local updates       *)
(*   cnt   GCounter._counts / PNCounter._p      neg  PNCounter._n            *)
(*   reg   <<>> (never written) or <<value, <<phys, logical, node>>>>        *)
(*   ent   ORSet._entries: element -> set of tags <<node, seq>>              *)
(*   keys  elements that are keys of _entries (possibly with no tag)         *)
(*   seq   ORSet._seq               tomb tombstones (only in the corrected   *)
(*   design, i.e. without deviation orset_remove_without_tombstone)          *)
(*   know  GHOST: ids of the update operations this replica has received     *)
(*         (directly or transitively through merges)                         *)
(* ops is the GHOST log of update operations (the op-based reference).       *)
(*                                                                           *)
(* Plain-object actions: Inc Dec SetReg Add Rem (local updates), Merge(a,b)  *)
(* = a.merge(b), RoundTrip(r) = from_dict(to_dict()).  Store actions: the    *)
(* same updates as Write events, Tick(a,b) = _handle_gossip_tick pushing a's *)
(* serialised state to b, DeliverPush(i) = _handle_gossip_push (merge, reply *)
(* with own state), DeliverResp(i) = _handle_gossip_response.  Messages may  *)
(* be delivered in any order, never, or (Dup) more than once.                *)
(*                                                                           *)
(* Deviations in Dev:                                                        *)
(*   orset_remove_without_tombstone  ORSet.remove clears local tags, merge   *)
(*        is a plain union (code as it is); without it: tombstones           *)
(*   to_dict_stringifies_elements    ORSet.to_dict keys entries by str(e)    *)
(*   store_adopts_remote_node_id     CRDTStore._merge_remote_state installs  *)
(*        from_dict(remote) for an unknown key, keeping the remote node_id   *)
(*   gcounter_merge_adds, lww_merge_takes_remote, lww_merge_skips_none_value *)
(*        hypothetical (sensitivity runs only)                               *)
EXTENDS Naturals, Integers, Sequences, FiniteSets, TLC

CONSTANTS NR,        \* replicas 1..NR
          Kinds,     \* subset of {"G","PN","LWW","OR"} explored
          Elems,     \* OR-set elements; "#1" stands for the integer 1
          Vals,      \* LWW values; "none" stands for Python None (also the value of an
                     \* unwritten register), "@0" "@empty" "@False" for 0, "", False
          MaxSteps,  \* bound on the number of actions
          MaxInc,    \* increments 1..MaxInc
          MaxPhys,   \* LWW write timestamps <<0..MaxPhys, 0..MaxLog, replica>>
          MaxLog,
          Store,     \* TRUE: CRDTStore gossip; FALSE: plain objects
          Dup,       \* TRUE: a delivered gossip message stays deliverable
          DevC       \* deviations switched on (initial value of dev)

R == 1..NR
VARIABLES kind, rep, ops, net, nmsg, steps,
          dev        \* deviation set, constant along a behaviour (a variable so that the trace
                     \* spec can choose it per trace)
vars == <<kind, rep, ops, net, nmsg, steps, dev>>
Dev == dev

Str(e) == IF e = "#1" THEN "1" ELSE e
AllElems == Elems \cup { Str(e) : e \in Elems }

Max2(a, b) == IF a >= b THEN a ELSE b
Zero == [k \in R |-> 0]

Blank(r) == [has |-> FALSE, nid |-> r, cnt |-> Zero, neg |-> Zero, reg |-> <<>>,
             ent |-> [e \in AllElems |-> {}], keys |-> {}, seq |-> 0, tomb |-> {}, know |-> {}]
\* crdt_factory(self.name)
Ensure(S, r) == IF S.has THEN S ELSE [Blank(r) EXCEPT !.has = TRUE, !.know = S.know]

TsLess(a, b) == \/ a[1] < b[1]
                \/ a[1] = b[1] /\ a[2] < b[2]
                \/ a[1] = b[1] /\ a[2] = b[2] /\ a[3] < b[3]

(* ------------------------------ state merge ------------------------------ *)
MergeCnt(a, b) == IF "gcounter_merge_adds" \in Dev THEN [k \in R |-> a[k] + b[k]]
                  ELSE [k \in R |-> Max2(a[k], b[k])]

\* a register value may be any Python value, also None ("none") and other falsy ones; only a
\* register without timestamp counts as never written
MergeReg(a, b) ==
    IF b = <<>> \/ ("lww_merge_skips_none_value" \in Dev /\ b[1] = "none") THEN a
    ELSE IF "lww_merge_takes_remote" \in Dev THEN b
    ELSE IF a = <<>> \/ TsLess(a[2], b[2]) THEN b ELSE a

\* S.merge(T)  (S, T exist)
MergeInto(k, S, T) ==
    LET tb == IF "orset_remove_without_tombstone" \in Dev THEN {} ELSE S.tomb \cup T.tomb
    IN [S EXCEPT
          !.cnt = IF k \in {"G", "PN"} THEN MergeCnt(S.cnt, T.cnt) ELSE @,
          !.neg = IF k = "PN" THEN MergeCnt(S.neg, T.neg) ELSE @,
          !.reg = IF k = "LWW" THEN MergeReg(S.reg, T.reg) ELSE @,
          !.ent = IF k = "OR" THEN [e \in AllElems |-> (S.ent[e] \cup T.ent[e]) \ tb] ELSE @,
          !.keys = IF k = "OR" THEN S.keys \cup T.keys ELSE @,
          !.tomb = tb,
          !.know = S.know \cup T.know]

\* from_dict(to_dict(S))
Collide(S) == \E e, f \in S.keys : e # f /\ Str(e) = Str(f)
RT(k, S) ==
    IF k = "OR" /\ "to_dict_stringifies_elements" \in Dev
    THEN [S EXCEPT !.ent = [e \in AllElems |->
                               UNION { S.ent[f] : f \in { g \in S.keys : Str(g) = e } }],
                   !.keys = { Str(g) : g \in S.keys }]
    ELSE S

\* CRDTStore._merge_remote_state for the one key: T is the remote state as sent
Receive(k, S, r, T) ==
    IF ~T.has THEN [S EXCEPT !.know = @ \cup T.know]
    ELSE LET T2 == RT(k, T) IN
         IF S.has THEN MergeInto(k, S, T2)
         ELSE IF "store_adopts_remote_node_id" \in Dev
              THEN [T2 EXCEPT !.know = S.know \cup T.know]       \* keeps remote nid and seq
              ELSE MergeInto(k, Ensure(S, r), T2)

(* ------------------------------ local updates ---------------------------- *)
NewId == Len(ops) + 1

IncS(S, r, n) == LET E == Ensure(S, r) IN
    [E EXCEPT !.cnt[E.nid] = @ + n, !.know = @ \cup {NewId}]
DecS(S, r, n) == LET E == Ensure(S, r) IN
    [E EXCEPT !.neg[E.nid] = @ + n, !.know = @ \cup {NewId}]
SetS(S, r, v, ts) == LET E == Ensure(S, r) IN
    [E EXCEPT !.reg = IF E.reg = <<>> \/ TsLess(E.reg[2], ts) THEN <<v, ts>> ELSE @,
              !.know = @ \cup {NewId}]
AddS(S, r, e) == LET E == Ensure(S, r) IN
    [E EXCEPT !.ent[e] = @ \cup {<<E.nid, E.seq>>}, !.keys = @ \cup {e}, !.seq = @ + 1,
              !.know = @ \cup {NewId}]
RemS(S, r, e) == LET E == Ensure(S, r) IN
    [E EXCEPT !.ent[e] = {},
              !.tomb = IF "orset_remove_without_tombstone" \in Dev THEN @ ELSE @ \cup E.ent[e],
              !.know = @ \cup {NewId}]

\* adds of e observed by a remove issued at a replica that knows K
ObsAdds(K, e) == { i \in K : ops[i].k = "add" /\ ops[i].e = e }

OpRec(k, r, n, v, ts, e, obs) == [k |-> k, r |-> r, n |-> n, v |-> v, ts |-> ts, e |-> e, obs |-> obs]
NoTs == <<0, 0, 0>>

Step == steps' = steps + 1 /\ UNCHANGED dev
Budget == steps < MaxSteps

IncG(r, n) == kind \in {"G", "PN"} /\ n >= 1
IncE(r, n) == /\ rep' = [rep EXCEPT ![r] = IncS(@, r, n)]
              /\ ops' = Append(ops, OpRec("inc", r, n, "", NoTs, "", {}))
              /\ UNCHANGED <<kind, net, nmsg>>
DecG(r, n) == kind = "PN" /\ n >= 1
DecE(r, n) == /\ rep' = [rep EXCEPT ![r] = DecS(@, r, n)]
              /\ ops' = Append(ops, OpRec("dec", r, n, "", NoTs, "", {}))
              /\ UNCHANGED <<kind, net, nmsg>>
\* distinct writes carry distinct timestamps (HLC timestamps include the node id)
SetG(r, v, ts) == kind = "LWW" /\ \A i \in 1..Len(ops) : ops[i].ts # ts
SetE(r, v, ts) == /\ rep' = [rep EXCEPT ![r] = SetS(@, r, v, ts)]
                  /\ ops' = Append(ops, OpRec("set", r, 0, v, ts, "", {}))
                  /\ UNCHANGED <<kind, net, nmsg>>
AddG(r, e) == kind = "OR" /\ e \in AllElems
AddE(r, e) == /\ rep' = [rep EXCEPT ![r] = AddS(@, r, e)]
              /\ ops' = Append(ops, OpRec("add", r, 0, "", NoTs, e, {}))
              /\ UNCHANGED <<kind, net, nmsg>>
RemG(r, e) == kind = "OR" /\ e \in AllElems
RemE(r, e) == /\ rep' = [rep EXCEPT ![r] = RemS(@, r, e)]
              /\ ops' = Append(ops, OpRec("rem", r, 0, "", NoTs, e, ObsAdds(rep[r].know, e)))
              /\ UNCHANGED <<kind, net, nmsg>>

(* ------------------------------ plain objects ---------------------------- *)
MergeG(a, b) == rep[a].has /\ rep[b].has
MergeE(a, b) == /\ rep' = [rep EXCEPT ![a] = MergeInto(kind, @, rep[b])]
                /\ UNCHANGED <<kind, ops, net, nmsg>>
RoundTripG(r) == rep[r].has /\ ~Collide(rep[r])
RoundTripE(r) == /\ rep' = [rep EXCEPT ![r] = RT(kind, @)]
                 /\ UNCHANGED <<kind, ops, net, nmsg>>

(* ------------------------------ store gossip ----------------------------- *)
Msg(i) == CHOOSE m \in net : m.id = i
HasMsg(i, t) == \E m \in net : m.id = i /\ m.t = t
TickG(a, b) == a # b
TickE(a, b) == /\ net' = net \cup {[id |-> nmsg + 1, t |-> "push", src |-> a, dst |-> b, S |-> rep[a]]}
               /\ nmsg' = nmsg + 1
               /\ UNCHANGED <<kind, rep, ops>>
DeliverPushG(i) == HasMsg(i, "push") /\ ~Collide(Msg(i).S)
DeliverPushE(i) ==
    LET m == Msg(i)
        S2 == Receive(kind, rep[m.dst], m.dst, m.S)
    IN /\ rep' = [rep EXCEPT ![m.dst] = S2]
       /\ net' = (IF Dup THEN net ELSE net \ {m})
                 \cup {[id |-> nmsg + 1, t |-> "resp", src |-> m.dst, dst |-> m.src, S |-> S2]}
       /\ nmsg' = nmsg + 1
       /\ UNCHANGED <<kind, ops>>
DeliverRespG(i) == HasMsg(i, "resp") /\ ~Collide(Msg(i).S)
DeliverRespE(i) ==
    LET m == Msg(i) IN
    /\ rep' = [rep EXCEPT ![m.dst] = Receive(kind, @, m.dst, m.S)]
    /\ net' = (IF Dup THEN net ELSE net \ {m})
    /\ UNCHANGED <<kind, ops, nmsg>>

(* --------------------------------- machine ------------------------------- *)
Inc(r, n) == Budget /\ IncG(r, n) /\ IncE(r, n) /\ Step
Dec(r, n) == Budget /\ DecG(r, n) /\ DecE(r, n) /\ Step
SetReg(r, v, p, l) == Budget /\ SetG(r, v, <<p, l, r>>) /\ SetE(r, v, <<p, l, r>>) /\ Step
Add(r, e) == Budget /\ AddG(r, e) /\ AddE(r, e) /\ Step
Rem(r, e) == Budget /\ RemG(r, e) /\ RemE(r, e) /\ Step
Merge(a, b) == ~Store /\ Budget /\ MergeG(a, b) /\ MergeE(a, b) /\ Step
RoundTrip(r) == ~Store /\ Budget /\ RoundTripG(r) /\ RoundTripE(r) /\ Step
Tick(a, b) == Store /\ Budget /\ TickG(a, b) /\ TickE(a, b) /\ Step
DeliverPush(i) == Store /\ Budget /\ DeliverPushG(i) /\ DeliverPushE(i) /\ Step
DeliverResp(i) == Store /\ Budget /\ DeliverRespG(i) /\ DeliverRespE(i) /\ Step

Init ==
    /\ kind \in Kinds
    /\ rep = [r \in R |-> IF Store THEN Blank(r) ELSE [Blank(r) EXCEPT !.has = TRUE]]
    /\ ops = <<>> /\ net = {} /\ nmsg = 0 /\ steps = 0 /\ dev = DevC

Next ==
    \/ \E r \in R, n \in 1..MaxInc : Inc(r, n) \/ Dec(r, n)
    \/ \E r \in R, v \in Vals, p \in 0..MaxPhys, l \in 0..MaxLog : SetReg(r, v, p, l)
    \/ \E r \in R, e \in Elems : Add(r, e) \/ Rem(r, e)
    \/ \E a, b \in R : Merge(a, b) \/ Tick(a, b)
    \/ \E r \in R : RoundTrip(r)
    \/ \E i \in 1..MaxSteps : DeliverPush(i) \/ DeliverResp(i)

Spec == Init /\ [][Next]_vars

(* ---------------- reference values (op-based specification) -------------- *)
\* parameterised by the op log o so that the trace spec can apply them to ops'
RECURSIVE SumOpsO(_, _, _, _)
SumOpsO(o, K, k, i) == IF i = 0 THEN 0
                       ELSE (IF i \in K /\ o[i].k = k THEN o[i].n ELSE 0) + SumOpsO(o, K, k, i - 1)
SpecCounterO(o, K) == SumOpsO(o, K, "inc", Len(o)) - SumOpsO(o, K, "dec", Len(o))
\* e is in the set exactly when some add of e was not observed by a remove
SpecORO(o, K) == { e \in AllElems : \E i \in K :
                     /\ o[i].k = "add" /\ o[i].e = e
                     /\ ~\E j \in K : o[j].k = "rem" /\ o[j].e = e /\ i \in o[j].obs }
SpecLWWO(o, K) == LET W == { i \in K : o[i].k = "set" } IN
                  IF W = {} THEN "none"
                  ELSE o[CHOOSE i \in W : \A j \in W : j = i \/ TsLess(o[j].ts, o[i].ts)].v
SpecCounter(K) == SpecCounterO(ops, K)
SpecOR(K) == SpecORO(ops, K)
SpecLWW(K) == SpecLWWO(ops, K)

(* ------------------------ observable projections ------------------------- *)
RECURSIVE SumF(_, _)
SumF(f, i) == IF i = 0 THEN 0 ELSE f[i] + SumF(f, i - 1)
ValCounter(S) == SumF(S.cnt, NR) - SumF(S.neg, NR)
ValOR(S) == { e \in AllElems : S.ent[e] # {} }
ValLWW(S) == IF S.reg = <<>> THEN "none" ELSE S.reg[1]
\* the classes' __eq__
Eq(k, S, T) == CASE k = "G" -> S.cnt = T.cnt
                 [] k = "PN" -> S.cnt = T.cnt /\ S.neg = T.neg
                 [] k = "LWW" -> S.reg = T.reg
                 [] k = "OR" -> S.ent = T.ent

(* ---------------------- contract (property C18, CRDTs) ------------------- *)
Live == { r \in R : rep[r].has }
\* "counters equal increments minus decrements"
InvCounterValue == kind \in {"G", "PN"} =>
                      \A r \in Live : ValCounter(rep[r]) = SpecCounter(rep[r].know)
\* "an OR-set contains an element exactly when some add of it was not observed by a remove"
InvORValue == kind = "OR" => \A r \in Live : ValOR(rep[r]) = SpecOR(rep[r].know)
\* "an LWW register holds the write with the greatest timestamp"
InvLWWValue == kind = "LWW" => \A r \in Live : ValLWW(rep[r]) = SpecLWW(rep[r].know)
\* "replicas that have received the same updates are equal"
InvConverge == \A a, b \in Live : rep[a].know = rep[b].know => Eq(kind, rep[a], rep[b])
\* "merge is commutative, associative and idempotent"
InvMergeCommutative == \A a, b \in Live :
    Eq(kind, MergeInto(kind, rep[a], rep[b]), MergeInto(kind, rep[b], rep[a]))
InvMergeIdempotent == \A a \in Live : Eq(kind, MergeInto(kind, rep[a], rep[a]), rep[a])
InvMergeAssociative ==
    LET M == [a \in Live, b \in Live |-> MergeInto(kind, rep[a], rep[b])] IN
    \A a, b, c \in Live : Eq(kind, MergeInto(kind, M[a, b], rep[c]), MergeInto(kind, rep[a], M[b, c]))
=============================================================================
