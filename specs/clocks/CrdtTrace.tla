----------------------------- MODULE CrdtTrace -----------------------------
(* Trace validation for the CRDT clauses of C18.                             *)
(* Input: IOEnv.TRACE_FILE = JSON array of executions of the real GCounter / *)
(* PNCounter / LWWRegister / ORSet objects (plain, or inside CRDTStore       *)
(* entities gossiping under a real Simulation):                              *)
(*  [ id, kind ("G"|"PN"|"LWW"|"OR"), nr (replicas), store (BOOLEAN),        *)
(*    dev |-> deviations of Crdt.tla the model is run with for this trace,   *)
(*    el  |-> element names, the order of the ent arrays,                    *)
(*    steps |-> << [ a   |-> action, one of                                  *)
(*                    <<"inc",r,n>> <<"dec",r,n>> <<"set",r,v,p,l>>          *)
(*                    <<"add",r,e>> <<"rem",r,e>> <<"merge",a,b>> <<"rt",r>> *)
(*                    <<"tick",a,b>> <<"dpush",i>> <<"dresp",i>>,            *)
(*                   obs |-> per replica 1..nr the real object afterwards:   *)
(*                    [has, nid, cnt, neg, reg, ent, keys, seq, val],        *)
(*                   eq  |-> << <<a,b,real (a == b)>> ... >> ] >>,           *)
(*    laws |-> << <<name, a, b, c, held>> >> merge laws evaluated on copies  *)
(*             of the real final objects ]                                   *)
(* The ghost log (ops, know) is a function of the action sequence alone.     *)
(* Verdict per trace: <<"V", id, verdict, pos>>: ACCEPT | PROP:<clause>      *)
(* (contract clause false on the observed objects) | MODEL:<field> (observed *)
(* object differs from Crdt.tla with the configured Dev: drift).             *)
EXTENDS Crdt, Json, IOUtils

Traces == JsonDeserialize(IOEnv.TRACE_FILE)
NT == Len(Traces)

SeqSet(s) == { s[i] : i \in 1..Len(s) }
VARIABLES ti, l, bad, mbad, mpos, sbad, spos
tvars == <<kind, rep, ops, net, nmsg, steps, dev, ti, l, bad, mbad, mpos, sbad, spos>>

Tr == Traces[ti]


Load(T) ==
    /\ kind' = T.kind
    /\ rep' = [r \in R |-> IF T.store THEN Blank(r) ELSE [Blank(r) EXCEPT !.has = TRUE]]
    /\ ops' = <<>> /\ net' = {} /\ nmsg' = 0 /\ steps' = 0 /\ dev' = SeqSet(T.dev)

TInit ==
    /\ ti = 1 /\ l = 1 /\ bad = "" /\ mbad = "" /\ mpos = 0 /\ sbad = "" /\ spos = 0
    /\ kind = (IF NT = 0 THEN "G" ELSE Traces[1].kind)
    /\ rep = [r \in R |-> IF NT > 0 /\ Traces[1].store THEN Blank(r)
                          ELSE [Blank(r) EXCEPT !.has = TRUE]]
    /\ ops = <<>> /\ net = {} /\ nmsg = 0 /\ steps = 0
    /\ dev = (IF NT = 0 THEN {} ELSE SeqSet(Traces[1].dev))

(* --------------------------- apply one action ---------------------------- *)
InR(r) == r \in 1..Tr.nr
Apply(a) ==
    CASE a[1] = "inc" /\ InR(a[2]) /\ IncG(a[2], a[3]) -> IncE(a[2], a[3])
      [] a[1] = "dec" /\ InR(a[2]) /\ DecG(a[2], a[3]) -> DecE(a[2], a[3])
      [] a[1] = "set" /\ InR(a[2]) /\ SetG(a[2], a[3], <<a[4], a[5], a[2]>>)
            -> SetE(a[2], a[3], <<a[4], a[5], a[2]>>)
      [] a[1] = "add" /\ InR(a[2]) /\ AddG(a[2], a[3]) -> AddE(a[2], a[3])
      [] a[1] = "rem" /\ InR(a[2]) /\ RemG(a[2], a[3]) -> RemE(a[2], a[3])
      [] a[1] = "merge" /\ InR(a[2]) /\ InR(a[3]) /\ ~Tr.store /\ MergeG(a[2], a[3]) -> MergeE(a[2], a[3])
      [] a[1] = "rt" /\ InR(a[2]) /\ ~Tr.store /\ RoundTripG(a[2]) -> RoundTripE(a[2])
      [] a[1] = "tick" /\ InR(a[2]) /\ InR(a[3]) /\ Tr.store /\ TickG(a[2], a[3]) -> TickE(a[2], a[3])
      [] a[1] = "dpush" /\ Tr.store /\ DeliverPushG(a[2]) -> DeliverPushE(a[2])
      [] a[1] = "dresp" /\ Tr.store /\ DeliverRespG(a[2]) -> DeliverRespE(a[2])
      [] OTHER -> UNCHANGED <<kind, rep, ops, net, nmsg>>

Applicable(a) ==
    \/ a[1] = "inc" /\ InR(a[2]) /\ IncG(a[2], a[3])
    \/ a[1] = "dec" /\ InR(a[2]) /\ DecG(a[2], a[3])
    \/ a[1] = "set" /\ InR(a[2]) /\ SetG(a[2], a[3], <<a[4], a[5], a[2]>>)
    \/ a[1] = "add" /\ InR(a[2]) /\ AddG(a[2], a[3])
    \/ a[1] = "rem" /\ InR(a[2]) /\ RemG(a[2], a[3])
    \/ a[1] = "merge" /\ InR(a[2]) /\ InR(a[3]) /\ ~Tr.store /\ MergeG(a[2], a[3])
    \/ a[1] = "rt" /\ InR(a[2]) /\ ~Tr.store /\ RoundTripG(a[2])
    \/ a[1] = "tick" /\ InR(a[2]) /\ InR(a[3]) /\ Tr.store /\ TickG(a[2], a[3])
    \/ a[1] = "dpush" /\ Tr.store /\ DeliverPushG(a[2])
    \/ a[1] = "dresp" /\ Tr.store /\ DeliverRespG(a[2])

(* ------------------- contract on the observed objects -------------------- *)
\* rp, op = replica states and op log after the step (only their ghost parts know / ops are used)
ValOk(r, o, rp, op) ==
    CASE kind \in {"G", "PN"} -> o.val = SpecCounterO(op, rp[r].know)
      [] kind = "OR" -> SeqSet(o.val) = SpecORO(op, rp[r].know)
      [] kind = "LWW" -> o.val = SpecLWWO(op, rp[r].know)

PropVerdict(st, rp, op) ==
    LET O == st.obs IN
    IF \E r \in 1..Tr.nr : O[r].has /\ ~ValOk(r, O[r], rp, op)
    THEN (IF kind \in {"G", "PN"} THEN "PROP:counter_value"
          ELSE IF kind = "OR" THEN "PROP:orset_value" ELSE "PROP:lww_value")
    ELSE IF \E i \in 1..Len(st.eq) :
              /\ ~st.eq[i][3]
              /\ O[st.eq[i][1]].has /\ O[st.eq[i][2]].has
              /\ rp[st.eq[i][1]].know = rp[st.eq[i][2]].know
         THEN "PROP:converge"
    ELSE ""

LawVerdict ==
    IF \A i \in 1..Len(Tr.laws) : Tr.laws[i][5] THEN ""
    ELSE LET i == CHOOSE i \in 1..Len(Tr.laws) :
                     ~Tr.laws[i][5] /\ \A j \in 1..(i - 1) : Tr.laws[j][5]
         IN "PROP:merge_" \o Tr.laws[i][1]

(* ----------------------- drift: observed vs model ------------------------ *)
EntOf(o, e) == IF \E i \in 1..Len(Tr.el) : Tr.el[i] = e
               THEN SeqSet(o.ent[CHOOSE i \in 1..Len(Tr.el) : Tr.el[i] = e]) ELSE {}
RepDiff(o, S) ==
    IF o.has # S.has THEN "has"
    ELSE IF ~o.has THEN ""
    ELSE IF o.nid # S.nid THEN "node_id"
    ELSE IF kind \in {"G", "PN"} /\ o.cnt # S.cnt THEN "counts"
    ELSE IF kind = "PN" /\ o.neg # S.neg THEN "n_counts"
    ELSE IF kind = "LWW" /\ o.reg # S.reg THEN "register"
    ELSE IF kind = "OR" /\ \E e \in AllElems : EntOf(o, e) # S.ent[e] THEN "entries"
    ELSE IF kind \in {"G", "PN"} /\ o.val # ValCounter(S) THEN "value"
    ELSE IF kind = "LWW" /\ o.val # ValLWW(S) THEN "value"
    ELSE IF kind = "OR" /\ SeqSet(o.val) # ValOR(S) THEN "value"
    ELSE ""
\* bookkeeping fields that do not influence any observable by themselves: reported as drift, but a
\* mismatch there does not stop a registered deviation from explaining a contract failure
RepDiffSoft(o, S) ==
    IF ~o.has \/ ~S.has \/ kind # "OR" THEN ""
    ELSE IF SeqSet(o.keys) # S.keys THEN "entry_keys"
    ELSE IF o.seq # S.seq THEN "seq"
    ELSE ""
SoftVerdict(st, rp) ==
    IF \E r \in 1..Tr.nr : RepDiffSoft(st.obs[r], rp[r]) # ""
    THEN LET r == CHOOSE r \in 1..Tr.nr : RepDiffSoft(st.obs[r], rp[r]) # "" IN
         "MODEL:" \o RepDiffSoft(st.obs[r], rp[r])
    ELSE ""

ModelVerdict(st, rp) ==
    IF \E r \in 1..Tr.nr : RepDiff(st.obs[r], rp[r]) # ""
    THEN LET r == CHOOSE r \in 1..Tr.nr : RepDiff(st.obs[r], rp[r]) # "" IN
         "MODEL:" \o RepDiff(st.obs[r], rp[r])
    ELSE IF \E i \in 1..Len(st.eq) :
              /\ st.obs[st.eq[i][1]].has /\ st.obs[st.eq[i][2]].has
              /\ st.eq[i][3] # Eq(kind, rp[st.eq[i][1]], rp[st.eq[i][2]])
         THEN "MODEL:eq_result"
    ELSE ""

\* the model's own evaluation of the merge law recorded as Tr.laws[i]
ModelLaw(i) ==
    LET L == Tr.laws[i]
        A == rep[L[2]]
        B == rep[L[3]]
        C == rep[L[4]]
        M(x, y) == MergeInto(kind, x, y)
    IN CASE L[1] = "commutative" -> Eq(kind, M(A, B), M(B, A))
         [] L[1] = "idempotent" -> IF L[2] = L[3] THEN Eq(kind, M(A, A), A)
                                   ELSE Eq(kind, M(M(A, B), B), M(A, B))
         [] L[1] = "associative" -> Eq(kind, M(M(A, B), C), M(A, M(B, C)))
         [] OTHER -> TRUE
LawDrift == \E i \in 1..Len(Tr.laws) : Tr.laws[i][5] # ModelLaw(i)

(* --------------------------------- driver -------------------------------- *)
\* every trace also reports the first model mismatch: <<"M", id, what, pos>> ("" = none)
Finish(verdict, pos) ==
    /\ PrintT(<<"V", Tr.id, verdict, pos>>)
    /\ PrintT(<<"M", Tr.id, mbad, mpos>>)
    /\ ti' = ti + 1 /\ l' = 1 /\ bad' = "" /\ mbad' = "" /\ mpos' = 0 /\ sbad' = "" /\ spos' = 0
    /\ IF ti < NT THEN Load(Traces[ti + 1])
       ELSE UNCHANGED <<kind, rep, ops, net, nmsg, steps, dev>>

\* a failed merge law is reproduced by the model only if the model evaluates the laws alike
FinishLaw(verdict, pos) ==
    /\ PrintT(<<"V", Tr.id, verdict, pos>>)
    /\ PrintT(IF mbad = "" /\ LawDrift THEN <<"M", Tr.id, "MODEL:law_result", pos>>
              ELSE <<"M", Tr.id, mbad, mpos>>)
    /\ ti' = ti + 1 /\ l' = 1 /\ bad' = "" /\ mbad' = "" /\ mpos' = 0 /\ sbad' = "" /\ spos' = 0
    /\ IF ti < NT THEN Load(Traces[ti + 1])
       ELSE UNCHANGED <<kind, rep, ops, net, nmsg, steps, dev>>

Keep == UNCHANGED <<kind, rep, ops, net, nmsg>>
NoteModel(mv) == IF mbad = "" /\ mv # "" THEN mbad' = mv /\ mpos' = l ELSE UNCHANGED <<mbad, mpos>>
NoteSoft(sv) == IF sbad = "" /\ sv # "" THEN sbad' = sv /\ spos' = l ELSE UNCHANGED <<sbad, spos>>

TNext ==
    /\ ti <= NT
    /\ IF bad # "" THEN Finish(bad, l - 1)
       ELSE IF l > Len(Tr.steps)
            THEN (IF LawVerdict # "" THEN FinishLaw(LawVerdict, l - 1)
                  ELSE IF mbad # "" THEN Finish(mbad, mpos)
                  ELSE IF LawDrift THEN Finish("MODEL:law_result", l - 1)
                  ELSE IF sbad # "" THEN Finish(sbad, spos)
                  ELSE Finish("ACCEPT", l - 1))
       ELSE /\ IF Applicable(Tr.steps[l].a)
               THEN /\ Apply(Tr.steps[l].a)
                    /\ bad' = PropVerdict(Tr.steps[l], rep', ops')
                    /\ NoteModel(ModelVerdict(Tr.steps[l], rep'))
                    /\ NoteSoft(SoftVerdict(Tr.steps[l], rep'))
               ELSE /\ Keep
                    /\ bad' = PropVerdict(Tr.steps[l], rep, ops)
                    /\ NoteModel("MODEL:action_not_enabled")
                    /\ UNCHANGED <<sbad, spos>>
            /\ l' = l + 1 /\ UNCHANGED <<ti, steps, dev>>

TSpec == TInit /\ [][TNext]_tvars
=============================================================================
