----------------------------- MODULE EngineDet -----------------------------
(* C03, part 1: the tie-break of the event loop does not depend on what the  *)
(* interpreter did earlier.  Two copies of the engine run the same program;   *)
(* copy 1 starts in a fresh interpreter (module counter 0), copy 2 after       *)
(* arbitrary earlier activity (module counter G in 0..MaxG).  A program is a  *)
(* sequence of events [t, when, par]: when = "early" (created before the       *)
(* Simulation object exists), "pre" (created after it, before run()),          *)
(* "run" (created by the handler of event par).  2-safety invariant: both      *)
(* copies deliver the same sequence.                                           *)
(*                                                                             *)
(* Deviations (constant Dev):                                                  *)
(*  "ctor_resets_gctr": Simulation.__init__ restarts the module counter at 0   *)
(*     (what the code did before repo commit ef3eedf);                          *)
(*  "per_heap_counter_restart": events created inside run() draw indices from  *)
(*     a per-heap counter starting at 0 (before repo commit 3edd6a2).          *)
EXTENDS Naturals, Sequences, FiniteSets, TLC

CONSTANTS Dev, MaxEv, MaxT, MaxG

VARIABLES prog, phase, g0, st
vars == <<prog, phase, g0, st>>

NE == Len(prog)
L == 1..NE
T(i) == prog[i].t

\* one engine copy: idx (label -> sort index), ctr (module counter), hctr (heap counter),
\* heap, clock, delivered, made
Fresh(g) == [idx |-> [i \in L |-> 0], ctr |-> g, hctr |-> 0, heap |-> {}, clock |-> 0, delivered |-> <<>>,
             made |-> {}]

RECURSIVE SortedSeq(_)
SortedSeq(S) == IF S = {} THEN <<>>
                ELSE LET m == CHOOSE a \in S : \A b \in S : a <= b IN <<m>> \o SortedSeq(S \ {m})

RECURSIVE MakeG(_, _)
MakeG(s, q) ==       \* create with the module counter
    IF q = <<>> THEN s
    ELSE LET i == Head(q) IN
         MakeG([s EXCEPT !.idx[i] = s.ctr, !.ctr = s.ctr + 1, !.heap = @ \cup {i}, !.made = @ \cup {i}], Tail(q))
RECURSIVE MakeH(_, _)
MakeH(s, q) ==       \* create with the per-heap counter (deviation)
    IF q = <<>> THEN s
    ELSE LET i == Head(q) IN
         MakeH([s EXCEPT !.idx[i] = s.hctr, !.hctr = s.hctr + 1, !.heap = @ \cup {i}, !.made = @ \cup {i}], Tail(q))

Early == SortedSeq({ i \in L : prog[i].when = "early" })
Pre   == SortedSeq({ i \in L : prog[i].when = "pre" })
Kids(i) == SortedSeq({ j \in L : prog[j].when = "run" /\ prog[j].par = i })

Ctor(s) == IF "ctor_resets_gctr" \in Dev THEN [s EXCEPT !.ctr = 0] ELSE s
Build(g) == MakeG(Ctor(MakeG(Fresh(g), Early)), Pre)

\* heapq: smallest (t, idx); equal keys (only under a deviation) are broken by label here, any
\* fixed rule will do for showing that the two copies can differ
Less(s, i, j) == T(i) < T(j) \/ (T(i) = T(j) /\ s.idx[i] < s.idx[j])
              \/ (T(i) = T(j) /\ s.idx[i] = s.idx[j] /\ i < j)
MinOf(s) == CHOOSE i \in s.heap : \A j \in s.heap \ {i} : Less(s, i, j)

Step(s) ==
    LET i == MinOf(s)
        s1 == [s EXCEPT !.heap = @ \ {i}, !.clock = T(i), !.delivered = Append(@, i)]
    IN IF "per_heap_counter_restart" \in Dev THEN MakeH(s1, Kids(i)) ELSE MakeG(s1, Kids(i))

RECURSIVE Run(_)
Run(s) == IF s.heap = {} THEN s ELSE Run(Step(s))

Init == prog = <<>> /\ phase = "build" /\ g0 = 0 /\ st = <<>>

AddEv(t, w, par) ==
    /\ phase = "build" /\ NE < MaxEv
    /\ (w = "run") <=> (par # 0)
    /\ par <= NE
    /\ par # 0 => t >= T(par)
    /\ prog' = Append(prog, [t |-> t, when |-> w, par |-> par])
    /\ UNCHANGED <<phase, g0, st>>

Go(g) ==
    /\ phase = "build" /\ NE >= 1
    /\ g0' = g /\ phase' = "done"
    /\ st' = <<Run(Build(0)).delivered, Run(Build(g)).delivered>>
    /\ prog' = prog

Next == \/ \E t \in 0..MaxT, w \in {"early", "pre", "run"}, par \in 0..MaxEv : AddEv(t, w, par)
        \/ \E g \in 0..MaxG : Go(g)
Spec == Init /\ [][Next]_vars

\* same model => same deliveries, whatever happened earlier in the interpreter
InvSameOrder == phase = "done" => st[1] = st[2]
\* and ties are in creation order (C01 clause c) in both copies: early < pre < run-created
CreationRank(i) == i     \* labels of early/pre events are assigned in creation order by AddEv only
                         \* within one `when` class; the cross-class order is early, pre, run
=============================================================================
