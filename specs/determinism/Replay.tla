------------------------------- MODULE Replay -------------------------------
(* C03, part 3: the run recorded in a reference process *is* the specification *)
(* of every other run of the same model with the same seeds.  A batch of pairs *)
(* (ref, got) is read; each is a sequence of simulations, each simulation a     *)
(* delivery log of <<time-rank, type-id, target-id>> triples (interned by the    *)
(* harness), its length, the limbs of the digest of its full log and of the     *)
(* component statistics.  The behaviour `got` is accepted iff it can be         *)
(* produced step for step by the machine that replays `ref`.  One verdict per    *)
(* pair:  <<"V", id, verdict, position>>, verdict = "ACCEPT" |                    *)
(*   "PROP:delivery_differs" | "PROP:statistics_differ" | "PROP:result_differs"   *)
(*   | "PROP:number_of_simulations_differs"; position = 1000 * sim + record.      *)
EXTENDS Naturals, Sequences, TLC, Json, IOUtils

Pairs == JsonDeserialize(IOEnv.TRACE_FILE)
NP == Len(Pairs)

VARIABLES pi, si, ri, verdict
vars == <<pi, si, ri, verdict>>

P == Pairs[pi]
Init == pi = 1 /\ si = 1 /\ ri = 1 /\ verdict = ""

\* the reference machine: its only enabled step at (si, ri) emits ref.sims[si].log[ri]
RefStep(p, s, r) == p.ref.sims[s].log[r]

Advance ==
    IF si > Len(P.ref.sims) \/ si > Len(P.got.sims)
    THEN /\ verdict' = (IF Len(P.ref.sims) # Len(P.got.sims) THEN "PROP:number_of_simulations_differs"
                        ELSE IF P.ref.result # P.got.result THEN "PROP:result_differs" ELSE "ACCEPT")
         /\ UNCHANGED <<pi, si, ri>>
    ELSE LET a == P.ref.sims[si] b == P.got.sims[si] IN
         IF ri <= Len(a.log) /\ ri <= Len(b.log)
         THEN IF RefStep(P, si, ri) = b.log[ri] THEN ri' = ri + 1 /\ UNCHANGED <<pi, si, verdict>>
              ELSE verdict' = "PROP:delivery_differs" /\ UNCHANGED <<pi, si, ri>>
         ELSE IF Len(a.log) # Len(b.log) \/ a.n # b.n \/ a.hash # b.hash
              THEN verdict' = "PROP:delivery_differs" /\ UNCHANGED <<pi, si, ri>>
         ELSE IF a.stats # b.stats THEN verdict' = "PROP:statistics_differ" /\ UNCHANGED <<pi, si, ri>>
         ELSE si' = si + 1 /\ ri' = 1 /\ UNCHANGED <<pi, verdict>>

Next ==
    /\ pi <= NP
    /\ IF verdict # ""
       THEN /\ PrintT(<<"V", P.id, verdict, 1000 * si + ri>>)
            /\ pi' = pi + 1 /\ si' = 1 /\ ri' = 1 /\ verdict' = ""
       ELSE Advance

Spec == Init /\ [][Next]_vars
=============================================================================
