--------------------------- MODULE MapContract ---------------------------
(* Contract of property C14 (storage engines behave like a map), stated     *)
(* over an operation history only.  A history H is a sequence of records    *)
(*   [c, k, key, hi, val, inv, ret, res, rows]                              *)
(*   k    "put" | "del" | "get" | "scan"                                    *)
(*   key  key (put/del/get) or inclusive lower bound (scan); hi = exclusive *)
(*        upper bound of a scan                                             *)
(*   val  value written by a put (positive); res  value returned by a get   *)
(*        (0 = None/absent); rows = <<<<key, value>>, ...>> returned by scan*)
(*   inv, ret  simulated time of invocation / return (ret = -1: pending)    *)
(* Statement, clause by clause:                                             *)
(*  (R) every read returns the value of the latest write to that key that   *)
(*      completed before the read began, or of a write concurrent with it;  *)
(*  (D) deleted keys stay deleted  (a delete is a write of "absent" = 0);    *)
(*  (S) scans return exactly the live keys of the range in sorted order.    *)
(* Reading chosen where the statement is silent (always the permissive one):*)
(*  - "before" is strict in simulated time: operations that touch at one    *)
(*    instant count as concurrent;                                          *)
(*  - with overlapping writes "the latest completed write" is any completed *)
(*    write that is not followed by another write lying entirely between    *)
(*    its completion and the read's invocation;                             *)
(*  - a key never written (or only by writes not yet completed) reads absent*)
EXTENDS Naturals, Integers, Sequences, FiniteSets

Inf == 1000000000
Ret(o) == IF o.ret < 0 THEN Inf ELSE o.ret
IsWrite(o) == o.k \in {"put", "del"}
WVal(o) == IF o.k = "put" THEN o.val ELSE 0
Writes(H, key) == { i \in 1..Len(H) : IsWrite(H[i]) /\ H[i].key = key }

\* value v is an admissible answer for a read of `key` spanning [inv, ret]
Admissible(H, key, v, inv, ret) ==
    LET W == Writes(H, key) IN
    \/ \E w \in W : WVal(H[w]) = v /\ H[w].inv <= ret /\ inv <= Ret(H[w])           \* concurrent write
    \/ \E w \in W : /\ WVal(H[w]) = v /\ Ret(H[w]) < inv                             \* latest completed
                    /\ ~\E x \in W \ {w} : Ret(H[w]) < H[x].inv /\ Ret(H[x]) < inv
    \/ v = 0 /\ ~\E x \in W : Ret(H[x]) < inv                                       \* nothing completed yet

GetOK(H, i) == Admissible(H, H[i].key, H[i].res, H[i].inv, H[i].ret)

RowKeys(rows) == { rows[a][1] : a \in 1..Len(rows) }
RowVal(rows, key) == IF key \in RowKeys(rows)
                     THEN rows[CHOOSE a \in 1..Len(rows) : rows[a][1] = key][2] ELSE 0
ScanSorted(o) == \A a, b \in 1..Len(o.rows) : a < b => o.rows[a][1] < o.rows[b][1]
ScanInRange(o) == \A a \in 1..Len(o.rows) : o.key <= o.rows[a][1] /\ o.rows[a][1] < o.hi
ScanLive(o) == \A a \in 1..Len(o.rows) : o.rows[a][2] > 0
KeysOf(H) == { H[i].key : i \in { j \in 1..Len(H) : IsWrite(H[j]) } }
ScanContent(H, i) ==
    \A key \in KeysOf(H) \cup RowKeys(H[i].rows) :
        (H[i].key <= key /\ key < H[i].hi) => Admissible(H, key, RowVal(H[i].rows, key), H[i].inv, H[i].ret)

\* verdict for one completed operation: "" = fine
OpVerdict(H, i) ==
    LET o == H[i] IN
    IF o.ret < 0 THEN ""
    ELSE IF o.k = "get" THEN (IF GetOK(H, i) THEN "" ELSE "read_value")
    ELSE IF o.k = "scan" THEN
         (IF ~ScanSorted(o) THEN "scan_order"
          ELSE IF ~ScanInRange(o) THEN "scan_range"
          ELSE IF ~ScanLive(o) THEN "scan_dead_row"
          ELSE IF ~ScanContent(H, i) THEN "scan_content" ELSE "")
    ELSE ""

Bad(H) == { i \in 1..Len(H) : OpVerdict(H, i) # "" }
FirstBad(H) == CHOOSE i \in Bad(H) : \A j \in Bad(H) : i <= j

ReadsOK(H) == \A i \in 1..Len(H) : H[i].k = "get" => OpVerdict(H, i) = ""
ScansOK(H) == \A i \in 1..Len(H) : H[i].k = "scan" => OpVerdict(H, i) = ""
=========================================================================
