------------------------------- MODULE Txn -------------------------------
(* Implementation-shaped model of happysimulator/components/storage/         *)
(* transaction_manager.py (TransactionManager, StorageTransaction) over a    *)
(* store whose reads are atomic (KVStore).  One action per public call;      *)
(* each call has exactly one point at which it touches shared state:         *)
(*   begin  - first segment (snapshot_version := manager version)            *)
(*   read   - the store lookup at the end of KVStore.get (the key joins the  *)
(*            read set at the start of the same call; nothing looks at it in *)
(*            between), or the write buffer if the key was written before    *)
(*   write  - buffers locally                                                *)
(*   commit - first segment: _check_conflict (backward validation against    *)
(*            the commit log entries newer than the snapshot version), then  *)
(*            put_sync of the buffered writes and the log append             *)
(* TLC interleaves these points in every order.                              *)
(*                                                                           *)
(* Deviation "si_reads_latest_not_snapshot": StorageTransaction.read returns *)
(* the store's current value for every isolation level (what the code does); *)
(* absent = a SNAPSHOT_ISOLATION transaction reads the store as of its begin.*)
EXTENDS Naturals, Integers, Sequences, FiniteSets, TLC

\* ---- the manager as a state record S = [store, version, clog, tx] and one operator per call ----
Tx0(keys) == [st |-> "none", snap |-> 0, rs |-> {}, ws |-> <<>>, ext |-> <<>>, nops |-> 0,
              snapStore |-> [k \in keys |-> 0]]
InitS(keys, ntx, level) == [store |-> [k \in keys |-> 0], version |-> 0, clog |-> <<>>,
                            tx |-> [t \in 1..ntx |-> Tx0(keys)], level |-> level]
PutF(f, k, v) == [x \in DOMAIN f \cup {k} |-> IF x = k THEN v ELSE f[x]]

DoBegin(S, t) == [S EXCEPT !.tx[t].st = "active", !.tx[t].snap = S.version, !.tx[t].snapStore = S.store]

ReadValue(S, t, k, level, dev) ==
    IF k \in DOMAIN S.tx[t].ws THEN S.tx[t].ws[k]
    ELSE IF level = "si" /\ "si_reads_latest_not_snapshot" \notin dev THEN S.tx[t].snapStore[k]
    ELSE S.store[k]
DoRead(S, t, k, level, dev) ==
    LET v == ReadValue(S, t, k, level, dev) IN
    [S EXCEPT !.tx[t].rs = @ \cup {k}, !.tx[t].nops = @ + 1,
              !.tx[t].ext = IF k \in DOMAIN S.tx[t].ws THEN @ ELSE Append(@, <<k, v>>)]
DoWrite(S, t, k, v) == [S EXCEPT !.tx[t].ws = PutF(@, k, v), !.tx[t].nops = @ + 1]

\* _check_conflict: backward validation against commit-log entries newer than the snapshot version
Conflict(S, t, level) ==
    /\ level # "rc"
    /\ \E i \in 1..Len(S.clog) :
         /\ S.clog[i].ver > S.tx[t].snap /\ S.clog[i].tx # t
         /\ \/ DOMAIN S.tx[t].ws \cap S.clog[i].w # {}
            \/ level = "ser" /\ S.tx[t].rs \cap S.clog[i].w # {}
            \/ level = "ser" /\ DOMAIN S.tx[t].ws \cap S.clog[i].r # {}
DoCommit(S, t, level) ==
    IF Conflict(S, t, level) THEN [S EXCEPT !.tx[t].st = "aborted"]
    ELSE [S EXCEPT !.store = [k \in DOMAIN S.store |-> IF k \in DOMAIN S.tx[t].ws THEN S.tx[t].ws[k] ELSE S.store[k]],
                   !.version = @ + 1,
                   !.clog = Append(@, [tx |-> t, ver |-> S.version + 1, w |-> DOMAIN S.tx[t].ws, r |-> S.tx[t].rs]),
                   !.tx[t].st = "committed"]
DoAbort(S, t) == [S EXCEPT !.tx[t].st = "aborted"]

\* ---- model-checking mode -----------------------------------------------------------------
CONSTANTS Dev,
          NTx,       \* transactions 1..NTx
          TKeys,     \* set of keys
          MaxOpsTx,  \* reads+writes per transaction
          Levels     \* subset of {"ser", "si", "rc"}: the isolation level of all transactions of a run is
                     \* chosen from it in the initial state

VARIABLES S,         \* manager + store + transactions
          ev         \* ghost: events <<kind, t, key, value>> in the order of their atomic points
vars == <<S, ev>>

Init == (\E lv \in Levels : S = InitS(TKeys, NTx, lv)) /\ ev = <<>>
Level == S.level

Begin(t) == S.tx[t].st = "none" /\ S' = DoBegin(S, t) /\ ev' = Append(ev, <<"b", t, 0, 0>>)
Read(t, k) ==
    /\ S.tx[t].st = "active" /\ S.tx[t].nops < MaxOpsTx
    /\ S' = DoRead(S, t, k, Level, Dev)
    /\ ev' = Append(ev, <<"r", t, k, ReadValue(S, t, k, Level, Dev)>>)
Write(t, k) ==
    /\ S.tx[t].st = "active" /\ S.tx[t].nops < MaxOpsTx
    /\ LET v == 10 * t + S.tx[t].nops + 1 IN S' = DoWrite(S, t, k, v) /\ ev' = Append(ev, <<"w", t, k, v>>)
Commit(t) ==
    /\ S.tx[t].st = "active"
    /\ S' = DoCommit(S, t, Level)
    /\ ev' = Append(ev, <<"c", t, 0, IF Conflict(S, t, Level) THEN 0 ELSE 1>>)
Abort(t) == S.tx[t].st = "active" /\ S' = DoAbort(S, t) /\ ev' = Append(ev, <<"a", t, 0, 0>>)

Next == \E t \in 1..NTx : \/ Begin(t) \/ Commit(t) \/ Abort(t)
                          \/ \E k \in TKeys : Read(t, k) \/ Write(t, k)
Spec == Init /\ [][Next]_vars
View == S                                  \* the event log is a ghost
Finished == \A t \in 1..NTx : S.tx[t].st \in {"committed", "aborted"}

\* ---- contract: the two transaction clauses of C14, over observable data only -----
\* observable per committed transaction: its external reads <<key, value>>, its final writes; the
\* commit order; the store.
RECURSIVE Perms(_)
Perms(Q) == IF Q = {} THEN {<<>>} ELSE UNION { { <<x>> \o p : p \in Perms(Q \ {x}) } : x \in Q }

RECURSIVE SerialRun(_, _, _, _, _)
\* run transactions order[i..] serially from state s: every external read must see s; result = final
\* store, or <<>> (not a function on keys) when some read disagrees
SerialRun(order, i, s, ext, ws) ==
    IF i > Len(order) THEN [ok |-> TRUE, s |-> s]
    ELSE LET t == order[i] IN
         IF \E j \in 1..Len(ext[t]) : s[ext[t][j][1]] # ext[t][j][2] THEN [ok |-> FALSE, s |-> s]
         ELSE SerialRun(order, i + 1, [k \in DOMAIN s |-> IF k \in DOMAIN ws[t] THEN ws[t][k] ELSE s[k]], ext, ws)

\* (T1) committed SERIALIZABLE transactions are equivalent to some serial order
Serializable(C, ext, ws, init, final) ==
    \E order \in Perms(C) : LET r == SerialRun(order, 1, init, ext, ws) IN r.ok /\ r.s = final

\* store after the first v commits
RECURSIVE StoreAt(_, _, _, _)
StoreAt(corder, v, init, ws) ==
    IF v = 0 THEN init
    ELSE LET s == StoreAt(corder, v - 1, init, ws)  t == corder[v]
         IN [k \in DOMAIN s |-> IF k \in DOMAIN ws[t] THEN ws[t][k] ELSE s[k]]
\* (T2) a snapshot-isolation transaction reads from one consistent snapshot: some committed state
SnapshotReads(t, corder, ext, ws, init) ==
    \E v \in 0..Len(corder) : LET s == StoreAt(corder, v, init, ws) IN
        \A j \in 1..Len(ext[t]) : s[ext[t][j][1]] = ext[t][j][2]

Committed == { t \in 1..NTx : S.tx[t].st = "committed" }
COrder == [i \in 1..Len(S.clog) |-> S.clog[i].tx]
Ext == [t \in 1..NTx |-> S.tx[t].ext]
Ws == [t \in 1..NTx |-> S.tx[t].ws]
Init0 == [k \in TKeys |-> 0]

InvSerializable == Level = "ser" => Serializable(Committed, Ext, Ws, Init0, S.store)
InvSnapshot == Level = "si" => \A t \in Committed : SnapshotReads(t, COrder, Ext, Ws, Init0)
=========================================================================
