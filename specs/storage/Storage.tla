----------------------------- MODULE Storage -----------------------------
(* Implementation-shaped, timed model of the storage engines of property C14 *)
(*   happysimulator/components/storage/lsm_tree.py  (LSMTree + the three     *)
(*     compaction strategies), memtable.py, sstable.py,                      *)
(*   happysimulator/components/storage/btree.py     (BTree),                 *)
(*   happysimulator/components/datastore/kv_store.py (KVStore, no capacity). *)
(* Clients are generator processes of the real Simulation: each runs a       *)
(* script of operations, `yield think` before each one, then drives the      *)
(* operation's generator.  One TLA+ step = one engine delivery = one         *)
(* generator segment (code between two yields) of one client.  Time is       *)
(* explicit (integer ticks); the engine delivers the pending continuation    *)
(* with the least (time, creation sequence) (property C01), so the machine   *)
(* is deterministic once the scripts are fixed.  In model-checking mode the  *)
(* scripts are chosen by TLC step by step (all operation sequences, all      *)
(* think times / start offsets within the bounds); in trace mode             *)
(* (StorageTrace.tla) they are read from a recorded execution.               *)
(*                                                                           *)
(* Deviations (m.cfg.dev), each is what the code does; absent = the design   *)
(* that satisfies the contract:                                              *)
(*  "flush_clears_before_install": Memtable.flush() empties the rotated      *)
(*     memtable at flush start, so the immutable memtable that is meant to   *)
(*     serve reads during the SSTable write delay is empty.                  *)
(*  "compaction_concurrent_install": _compact is not serialised: a flush     *)
(*     install starts a compaction while another client's compaction is in   *)
(*     its write delay; both select the same inputs and install two outputs  *)
(*     holding the same keys into one level.  Then (a) the next compaction   *)
(*     into that level fills from the overlapping tables oldest-first with   *)
(*     "first one wins" and resurrects the older value, (b) on the deepest   *)
(*     level one output drops a tombstone while the other still holds the    *)
(*     old value.  Design (absent): one compaction at a time (a flush        *)
(*     install that finds one in flight does not start another) and the      *)
(*     overlapping tables are consulted newest-first.                        *)
(*  "reader_iter_skips_on_shrink": get/scan walk `reversed(level)` of the    *)
(*     live list across yields; when a compaction install shrinks the list   *)
(*     below the iterator's index the rest of the level is skipped.          *)
(*  "btree_reader_holds_stale_node": BTree.get keeps a node pointer across   *)
(*     its page-read yields; a split in between moves keys out of that node. *)
EXTENDS Naturals, Integers, Sequences, FiniteSets, TLC, MapContract

VARIABLES m,        \* machine state (record, see InitM)
          script    \* [1..NC -> Seq([th, k, key, hi, val])]
vars == <<m, script>>

TOMB == -1
NoSst == [id |-> 0, d |-> <<>>]

Max2(a, b) == IF a >= b THEN a ELSE b
Min2(a, b) == IF a <= b THEN a ELSE b
RECURSIVE Asc(_)
Asc(S) == IF S = {} THEN <<>>
          ELSE LET x == CHOOSE x \in S : \A y \in S : x <= y IN <<x>> \o Asc(S \ {x})
Rev(s) == [i \in 1..Len(s) |-> s[Len(s) + 1 - i]]
Put(f, k, v) == [x \in DOMAIN f \cup {k} |-> IF x = k THEN v ELSE f[x]]
Restrict(f, S) == [x \in DOMAIN f \cap S |-> f[x]]
Over(f, g) == [x \in DOMAIN f \cup DOMAIN g |-> IF x \in DOMAIN g THEN g[x] ELSE f[x]]   \* g overrides f
Fill(f, g) == Over(g, f)                                                              \* f wins
Size(f) == Cardinality(DOMAIN f)
InRange(S, lo, hi) == { k \in S : lo <= k /\ k < hi }
Pow(b, e) == IF e = 0 THEN 1 ELSE IF e = 1 THEN b ELSE IF e = 2 THEN b * b ELSE b * b * b
Pages(n) == Max2(1, n \div 16)

\* ---------------------------------------------------------------------------
\* machine

Cl0 == [pc |-> "idle", n |-> 0, t |-> 0, s |-> 0, h |-> 0, mid |-> 0, sst |-> NoSst, li |-> 0, ix |-> 0,
        rest |-> <<>>, mg |-> <<>>, sel |-> {}, ovl |-> {}, out |-> NoSst, sl |-> 0, tl |-> 0,
        node |-> 0, left |-> 0]

InitM(cfg, nc) ==
    [cfg |-> cfg, clk |-> 0, seq |-> 0,
     mem |-> <<>>, memid |-> 1, imm |-> <<>>, lv |-> [i \in 1..cfg.maxlev |-> <<>>], nid |-> 2, ncomp |-> 0,
     bt |-> [nodes |-> <<[leaf |-> TRUE, keys |-> <<>>, vals |-> <<>>, ch |-> <<>>]>>, root |-> 1, depth |-> 1],
     kv |-> <<>>,
     cl |-> [c \in 1..nc |-> Cl0], hist |-> <<>>]

NC == Len(script)
DevOn(mm, d) == d \in mm.cfg.dev

\* --- generic client helpers -------------------------------------------------
Wait(mm, c, pc, d) ==
    [mm EXCEPT !.cl[c].pc = pc, !.cl[c].t = mm.clk + d, !.cl[c].s = mm.seq + 1, !.seq = mm.seq + 1]
Finish(mm, c, res, rows) ==
    LET h == mm.cl[c].h IN
    [mm EXCEPT !.hist[h].ret = mm.clk, !.hist[h].res = res, !.hist[h].rows = rows,
               !.cl[c] = [Cl0 EXCEPT !.n = mm.cl[c].n]]

\* --- LSM: compaction strategies ----------------------------------------------
RECURSIVE KeyCount(_, _)
KeyCount(level, i) == IF i = 0 THEN 0 ELSE KeyCount(level, i - 1) + Size(level[i].d)
RECURSIVE Total(_, _)
Total(lv, i) == IF i = 0 THEN 0 ELSE Total(lv, i - 1) + Len(lv[i])
OverLimit(cfg, lv, i) == KeyCount(lv[i], Len(lv[i])) > cfg.base * Pow(cfg.ratio, i - 1)

ShouldCompact(cfg, lv) ==
    CASE cfg.strat = "st" -> \E i \in 1..Len(lv) : Len(lv[i]) >= cfg.thr
      [] cfg.strat = "lv" -> Len(lv[1]) >= cfg.thr \/ \E i \in 2..Len(lv) : OverLimit(cfg, lv, i)
      [] cfg.strat = "fifo" -> Total(lv, Len(lv)) > cfg.thr

\* source level (1-based), 0 = nothing to compact
SelectLevel(cfg, lv) ==
    CASE cfg.strat = "st" ->
           LET best == CHOOSE i \in 1..Len(lv) :
                          /\ \A j \in 1..Len(lv) : Len(lv[j]) <= Len(lv[i])
                          /\ \A j \in 1..(i - 1) : Len(lv[j]) < Len(lv[i])
           IN IF Len(lv[best]) = 0 THEN 0 ELSE best
      [] cfg.strat = "lv" ->
           IF Len(lv[1]) >= cfg.thr THEN 1
           ELSE LET over == { i \in 2..Len(lv) : OverLimit(cfg, lv, i) }
                IN IF over # {} THEN CHOOSE i \in over : \A j \in over : i <= j
                   ELSE IF Len(lv[1]) > 0 THEN 1 ELSE 0
      [] cfg.strat = "fifo" ->
           LET ne == { i \in 1..Len(lv) : Len(lv[i]) > 0 }
           IN IF ne = {} THEN 0 ELSE CHOOSE i \in ne : \A j \in ne : i >= j

MinK(d) == CHOOSE x \in DOMAIN d : \A y \in DOMAIN d : x <= y
MaxK(d) == CHOOSE x \in DOMAIN d : \A y \in DOMAIN d : x >= y
Overlaps(a, b) == DOMAIN a # {} /\ DOMAIN b # {} /\ MinK(a) <= MaxK(b) /\ MinK(b) <= MaxK(a)

RECURSIVE MergeOldToNew(_, _)          \* newer (later in the list) wins
MergeOldToNew(ssts, i) == IF i = 0 THEN <<>> ELSE Over(MergeOldToNew(ssts, i - 1), ssts[i].d)
RECURSIVE FillInOrder(_, _, _)         \* earlier in `ssts` wins, never overrides acc
FillInOrder(acc, ssts, i) == IF i > Len(ssts) THEN acc ELSE FillInOrder(Fill(acc, ssts[i].d), ssts, i + 1)
Ids(s) == { s[i].id : i \in 1..Len(s) }
Without(s, ids) == LET keep(x) == x.id \notin ids IN SelectSeq(s, keep)

\* --- LSM: write path ---------------------------------------------------------
\* _compact(): select, merge, and (if there is output) wait for the write latency
CompactStart(mm, c) ==
    LET cfg == mm.cfg
        sl == SelectLevel(cfg, mm.lv)
        busy == \E d \in DOMAIN mm.cl : d # c /\ mm.cl[d].pc = "compact"
    IN IF sl = 0 \/ (busy /\ ~DevOn(mm, "compaction_concurrent_install")) THEN Finish(mm, c, 0, <<>>)
       ELSE LET sel == mm.lv[sl]
                tl == Min2(sl + 1, cfg.maxlev)
                m0 == MergeOldToNew(sel, Len(sel))
                touches(t) == \E i \in 1..Len(sel) : Overlaps(t.d, sel[i].d)
                ovl == IF tl = sl THEN <<>> ELSE SelectSeq(mm.lv[tl], touches)
                m1 == IF DevOn(mm, "compaction_concurrent_install") THEN FillInOrder(m0, ovl, 1)
                      ELSE FillInOrder(m0, Rev(ovl), 1)
                m2 == IF tl = cfg.maxlev THEN Restrict(m1, { k \in DOMAIN m1 : m1[k] # TOMB }) ELSE m1
            IN IF DOMAIN m2 = {}
               THEN Finish([mm EXCEPT !.ncomp = @ + 1], c, 0, <<>>)
               ELSE Wait([mm EXCEPT !.nid = @ + 1, !.cl[c].sel = Ids(sel), !.cl[c].ovl = Ids(ovl),
                                    !.cl[c].out = [id |-> mm.nid, d |-> m2], !.cl[c].sl = sl, !.cl[c].tl = tl],
                         c, "compact", Pages(Size(m2)) * cfg.W)

CompactInstall(mm, c) ==
    LET k == mm.cl[c]
        lv1 == [mm.lv EXCEPT ![k.sl] = Without(@, k.sel)]
        lv2 == [lv1 EXCEPT ![k.tl] = Append(Without(@, k.ovl), k.out)]
    IN Finish([mm EXCEPT !.lv = lv2, !.ncomp = @ + 1], c, 0, <<>>)

\* _flush_memtable(): rotate, build the SSTable, wait for the write latency
FlushStart(mm, c) ==
    IF Size(mm.mem) = 0 THEN Finish(mm, c, 0, <<>>)
    ELSE LET sst == [id |-> mm.nid, d |-> mm.mem]
             kept == IF DevOn(mm, "flush_clears_before_install") THEN <<>> ELSE mm.mem
         IN Wait([mm EXCEPT !.imm = Append(@, [id |-> mm.memid, d |-> kept]), !.mem = <<>>,
                            !.memid = mm.nid + 1, !.nid = mm.nid + 2,
                            !.cl[c].sst = sst, !.cl[c].mid = mm.memid],
                 c, "flush", Pages(Size(mm.mem)) * mm.cfg.W)

FlushInstall(mm, c) ==
    LET k == mm.cl[c]
        notme(x) == x.id # k.mid
        m1 == [mm EXCEPT !.lv[1] = Append(@, k.sst), !.imm = SelectSeq(@, notme)]
    IN IF ShouldCompact(m1.cfg, m1.lv) THEN CompactStart(m1, c) ELSE Finish(m1, c, 0, <<>>)

LsmWriteBegin(mm, c, key, v) ==
    Wait([mm EXCEPT !.mem = Put(@, key, v), !.cl[c].mid = mm.memid], c, "put_mem", mm.cfg.ML)

\* `is_full` is evaluated on the memtable object that was written.  A memtable that has been rotated in the
\* meantime never triggers a second flush: the code's rotated memtable is already cleared (deviation
\* flush_clears_before_install), the design checks that the written memtable is still the active one.
LsmWriteAfterMem(mm, c) ==
    IF mm.cl[c].mid = mm.memid /\ Size(mm.mem) >= mm.cfg.memsize THEN FlushStart(mm, c) ELSE Finish(mm, c, 0, <<>>)

\* --- LSM: read path ----------------------------------------------------------
Maybe(cfg, d, key) == key \in DOMAIN d \/ <<DOMAIN d, key>> \in cfg.fp     \* bloom filter says "maybe"
Enter(mm, li) ==
    IF li > mm.cfg.maxlev THEN [li |-> li, ix |-> 0, rest |-> <<>>]
    ELSE [li |-> li, ix |-> Len(mm.lv[li]),
          rest |-> IF DevOn(mm, "reader_iter_skips_on_shrink") THEN <<>> ELSE Rev(mm.lv[li])]
\* next SSTable of `for level in levels: for sst in reversed(level)`
RECURSIVE Pull(_, _)
Pull(mm, it) ==
    IF it.li > mm.cfg.maxlev THEN [ok |-> FALSE, sst |-> NoSst, it |-> it]
    ELSE IF DevOn(mm, "reader_iter_skips_on_shrink")
         THEN IF 1 <= it.ix /\ it.ix <= Len(mm.lv[it.li])
              THEN [ok |-> TRUE, sst |-> mm.lv[it.li][it.ix], it |-> [it EXCEPT !.ix = @ - 1]]
              ELSE Pull(mm, Enter(mm, it.li + 1))
         ELSE IF Len(it.rest) > 0
              THEN [ok |-> TRUE, sst |-> Head(it.rest), it |-> [it EXCEPT !.rest = Tail(@), !.ix = @ - 1]]
              ELSE Pull(mm, Enter(mm, it.li + 1))

OutVal(v) == IF v = TOMB THEN 0 ELSE v

RECURSIVE GetLoop(_, _, _, _)
GetLoop(mm, c, key, it) ==
    LET p == Pull(mm, it) IN
    IF ~p.ok THEN Finish(mm, c, 0, <<>>)
    ELSE IF Maybe(mm.cfg, p.sst.d, key)
         THEN Wait([mm EXCEPT !.cl[c].sst = p.sst, !.cl[c].li = p.it.li, !.cl[c].ix = p.it.ix,
                              !.cl[c].rest = p.it.rest], c, "get_sst", 2 * mm.cfg.RL)
         ELSE GetLoop(mm, c, key, p.it)

RECURSIVE ImmLookup(_, _, _)
ImmLookup(imm, i, key) ==     \* reversed(immutable_memtables): first hit, 0 = none
    IF i = 0 THEN [hit |-> FALSE, v |-> 0]
    ELSE IF key \in DOMAIN imm[i].d THEN [hit |-> TRUE, v |-> imm[i].d[key]] ELSE ImmLookup(imm, i - 1, key)

LsmGetBegin(mm, c, key) ==
    IF key \in DOMAIN mm.mem THEN Finish(mm, c, OutVal(mm.mem[key]), <<>>)
    ELSE LET r == ImmLookup(mm.imm, Len(mm.imm), key) IN
         IF r.hit THEN Finish(mm, c, OutVal(r.v), <<>>)
         ELSE GetLoop(mm, c, key, Enter(mm, 1))

LsmGetAfterRead(mm, c, key) ==
    LET k == mm.cl[c] IN
    IF key \in DOMAIN k.sst.d THEN Finish(mm, c, OutVal(k.sst.d[key]), <<>>)
    ELSE GetLoop(mm, c, key, [li |-> k.li, ix |-> k.ix, rest |-> k.rest])

Rows(mg) == LET ks == Asc({ k \in DOMAIN mg : mg[k] # TOMB }) IN [i \in 1..Len(ks) |-> <<ks[i], mg[ks[i]]>>]

RECURSIVE ScanLoop(_, _, _, _, _, _)
ScanLoop(mm, c, lo, hi, it, mg) ==
    LET p == Pull(mm, it) IN
    IF ~p.ok THEN Finish(mm, c, 0, Rows(mg))
    ELSE LET n == Cardinality(InRange(DOMAIN p.sst.d, lo, hi)) IN
         IF n = 0 THEN ScanLoop(mm, c, lo, hi, p.it, mg)
         ELSE Wait([mm EXCEPT !.cl[c].sst = p.sst, !.cl[c].li = p.it.li, !.cl[c].ix = p.it.ix,
                              !.cl[c].rest = p.it.rest, !.cl[c].mg = mg],
                   c, "scan_sst", (1 + ((n + 15) \div 16)) * mm.cfg.RL)

RECURSIVE ImmCollect(_, _, _, _, _)
ImmCollect(imm, i, lo, hi, mg) ==
    IF i = 0 THEN mg
    ELSE ImmCollect(imm, i - 1, lo, hi, Fill(mg, Restrict(imm[i].d, InRange(DOMAIN imm[i].d, lo, hi))))

LsmScanBegin(mm, c, lo, hi) ==
    LET mg0 == Restrict(mm.mem, InRange(DOMAIN mm.mem, lo, hi))
        mg1 == ImmCollect(mm.imm, Len(mm.imm), lo, hi, mg0)
    IN ScanLoop(mm, c, lo, hi, Enter(mm, 1), mg1)

LsmScanAfterRead(mm, c, lo, hi) ==
    LET k == mm.cl[c]
        mg == Fill(k.mg, Restrict(k.sst.d, InRange(DOMAIN k.sst.d, lo, hi)))
    IN ScanLoop(mm, c, lo, hi, [li |-> k.li, ix |-> k.ix, rest |-> k.rest], mg)

\* --- B-tree ------------------------------------------------------------------
BisectLeft(keys, key) == Cardinality({ i \in 1..Len(keys) : keys[i] < key })      \* 0-based position
BisectRight(keys, key) == Cardinality({ i \in 1..Len(keys) : keys[i] <= key })
InsertAt(s, i, x) == SubSeq(s, 1, i) \o <<x>> \o SubSeq(s, i + 1, Len(s))         \* list.insert(i, x)
RemoveAt(s, i) == SubSeq(s, 1, i) \o SubSeq(s, i + 2, Len(s))                     \* list.pop(i)
Full(bt, n, order) == Len(bt.nodes[n].keys) >= order - 1

SplitChild(bt, p, ci) ==          \* _split_child(parent, child_idx)
    LET cid == bt.nodes[p].ch[ci + 1]
        ch == bt.nodes[cid]
        mid == Len(ch.keys) \div 2
        nid == Len(bt.nodes) + 1
        right == IF ch.leaf
                 THEN [leaf |-> TRUE, keys |-> SubSeq(ch.keys, mid + 1, Len(ch.keys)),
                       vals |-> SubSeq(ch.vals, mid + 1, Len(ch.vals)), ch |-> <<>>]
                 ELSE [leaf |-> FALSE, keys |-> SubSeq(ch.keys, mid + 2, Len(ch.keys)), vals |-> <<>>,
                       ch |-> SubSeq(ch.ch, mid + 2, Len(ch.ch))]
        left == IF ch.leaf
                THEN [ch EXCEPT !.keys = SubSeq(ch.keys, 1, mid), !.vals = SubSeq(ch.vals, 1, mid)]
                ELSE [ch EXCEPT !.keys = SubSeq(ch.keys, 1, mid), !.ch = SubSeq(ch.ch, 1, mid + 1)]
        sep == IF ch.leaf THEN right.keys[1] ELSE ch.keys[mid + 1]
        par == [bt.nodes[p] EXCEPT !.keys = InsertAt(@, ci, sep), !.ch = InsertAt(@, ci + 1, nid)]
    IN [bt EXCEPT !.nodes = Append([bt.nodes EXCEPT ![cid] = left, ![p] = par], right)]

RECURSIVE InsNF(_, _, _, _, _)
InsNF(bt, n, key, val, order) ==   \* _insert_non_full
    LET nd == bt.nodes[n] IN
    IF nd.leaf
    THEN LET idx == BisectLeft(nd.keys, key) IN
         IF idx < Len(nd.keys) /\ nd.keys[idx + 1] = key
         THEN [bt EXCEPT !.nodes[n].vals[idx + 1] = val]
         ELSE [bt EXCEPT !.nodes[n].keys = InsertAt(@, idx, key), !.nodes[n].vals = InsertAt(@, idx, val)]
    ELSE LET idx == BisectRight(nd.keys, key)
             child == nd.ch[idx + 1]
         IN IF Full(bt, child, order)
            THEN LET b1 == SplitChild(bt, n, idx)
                     idx2 == IF key >= b1.nodes[n].keys[idx + 1] THEN idx + 1 ELSE idx
                 IN InsNF(b1, b1.nodes[n].ch[idx2 + 1], key, val, order)
            ELSE InsNF(bt, child, key, val, order)

BtInsert(bt, key, val, order) ==   \* _insert
    IF Full(bt, bt.root, order)
    THEN LET nr == Len(bt.nodes) + 1
             b0 == [bt EXCEPT !.nodes = Append(@, [leaf |-> FALSE, keys |-> <<>>, vals |-> <<>>,
                                                    ch |-> <<bt.root>>])]
             b1 == SplitChild(b0, nr, 0)
             b2 == [b1 EXCEPT !.root = nr, !.depth = @ + 1]
         IN InsNF(b2, nr, key, val, order)
    ELSE InsNF(bt, bt.root, key, val, order)

RECURSIVE LeafFor(_, _, _)
LeafFor(bt, n, key) == IF bt.nodes[n].leaf THEN n
                       ELSE LeafFor(bt, bt.nodes[n].ch[BisectRight(bt.nodes[n].keys, key) + 1], key)
LeafGet(nd, key) == LET idx == BisectLeft(nd.keys, key) IN
                    IF idx < Len(nd.keys) /\ nd.keys[idx + 1] = key THEN nd.vals[idx + 1] ELSE 0
BtGetSync(bt, key) == LeafGet(bt.nodes[LeafFor(bt, bt.root, key)], key)
BtDelete(bt, key) ==               \* _delete: [bt, found]
    LET n == LeafFor(bt, bt.root, key)
        nd == bt.nodes[n]
        idx == BisectLeft(nd.keys, key)
    IN IF idx < Len(nd.keys) /\ nd.keys[idx + 1] = key
       THEN [bt |-> [bt EXCEPT !.nodes[n].keys = RemoveAt(@, idx), !.nodes[n].vals = RemoveAt(@, idx)],
             found |-> TRUE]
       ELSE [bt |-> bt, found |-> FALSE]

RECURSIVE BtScan(_, _, _, _), BtScanCh(_, _, _, _, _)
BtScan(bt, n, lo, hi) ==           \* _scan_node
    LET nd == bt.nodes[n] IN
    IF nd.leaf
    THEN LET first == { i \in 1..Len(nd.keys) : nd.keys[i] >= hi }
             stop == IF first = {} THEN Len(nd.keys) + 1 ELSE CHOOSE i \in first : \A j \in first : i <= j
             idxs == { i \in 1..(stop - 1) : nd.keys[i] >= lo }
             order == Asc(idxs)
         IN [j \in 1..Len(order) |-> <<nd.keys[order[j]], nd.vals[order[j]]>>]
    ELSE BtScanCh(bt, n, 0, lo, hi)
BtScanCh(bt, n, i, lo, hi) ==      \* children i.. (0-based)
    LET nd == bt.nodes[n] IN
    IF i >= Len(nd.ch) THEN <<>>
    ELSE LET hasLow == i > 0
             hasHigh == i < Len(nd.keys)
         IN IF hasHigh /\ nd.keys[i + 1] <= lo THEN BtScanCh(bt, n, i + 1, lo, hi)
            ELSE IF hasLow /\ nd.keys[i] >= hi THEN <<>>
            ELSE BtScan(bt, nd.ch[i + 1], lo, hi) \o BtScanCh(bt, n, i + 1, lo, hi)

BtGetStep(mm, c, key) ==           \* body of `for _ in range(depth)` after the yield
    LET k == mm.cl[c]
        nd == mm.bt.nodes[k.node]
    IN IF DevOn(mm, "btree_reader_holds_stale_node")
       THEN IF nd.leaf THEN Finish(mm, c, LeafGet(nd, key), <<>>)
            ELSE LET nxt == nd.ch[BisectRight(nd.keys, key) + 1] IN
                 IF k.left = 1 THEN Finish(mm, c, 0, <<>>)
                 ELSE Wait([mm EXCEPT !.cl[c].node = nxt, !.cl[c].left = @ - 1], c, "bget", mm.cfg.BR)
       ELSE IF k.left = 1 THEN Finish(mm, c, BtGetSync(mm.bt, key), <<>>)
            ELSE Wait([mm EXCEPT !.cl[c].left = @ - 1], c, "bget", mm.cfg.BR)

\* --- one engine delivery -------------------------------------------------------
Runnable(mm) == { c \in DOMAIN mm.cl : mm.cl[c].pc \notin {"idle", "done"} }
Earliest(mm) == CHOOSE c \in Runnable(mm) : \A d \in Runnable(mm) :
                    mm.cl[c].t < mm.cl[d].t \/ (mm.cl[c].t = mm.cl[d].t /\ mm.cl[c].s <= mm.cl[d].s)

Begin(mm, c, st) ==     \* the think delay elapsed: invoke operation st
    LET rec == [c |-> c, k |-> st.k, key |-> st.key, hi |-> st.hi, val |-> st.val, inv |-> mm.clk, ret |-> -1,
                res |-> 0, rows |-> <<>>]
        m1 == [mm EXCEPT !.hist = Append(@, rec), !.cl[c].n = @ + 1, !.cl[c].h = Len(mm.hist) + 1]
        e == mm.cfg.engine
    IN CASE e = "lsm" /\ st.k = "put" -> LsmWriteBegin(m1, c, st.key, st.val)
         [] e = "lsm" /\ st.k = "del" -> LsmWriteBegin(m1, c, st.key, TOMB)
         [] e = "lsm" /\ st.k = "get" -> LsmGetBegin(m1, c, st.key)
         [] e = "lsm" /\ st.k = "scan" -> LsmScanBegin(m1, c, st.key, st.hi)
         [] e = "btree" /\ st.k = "put" -> Wait(m1, c, "b_put_r", m1.bt.depth * m1.cfg.BR)
         [] e = "btree" /\ st.k = "del" -> Wait(m1, c, "b_del_r", m1.bt.depth * m1.cfg.BR)
         [] e = "btree" /\ st.k = "scan" -> Wait(m1, c, "b_scan_r", m1.bt.depth * m1.cfg.BR)
         [] e = "btree" /\ st.k = "get" ->
              Wait([m1 EXCEPT !.cl[c].node = m1.bt.root, !.cl[c].left = m1.bt.depth], c, "bget", m1.cfg.BR)
         [] e = "kv" /\ st.k = "get" -> Wait(m1, c, "kv", m1.cfg.KR)
         [] e = "kv" /\ st.k = "put" -> Wait(m1, c, "kv", m1.cfg.KW)
         [] e = "kv" /\ st.k = "del" -> Wait(m1, c, "kv", m1.cfg.KD)

Resume(mm, c, st) ==    \* a later segment of operation st
    LET pc == mm.cl[c].pc IN
    CASE pc = "put_mem" -> LsmWriteAfterMem(mm, c)
      [] pc = "flush" -> FlushInstall(mm, c)
      [] pc = "compact" -> CompactInstall(mm, c)
      [] pc = "get_sst" -> LsmGetAfterRead(mm, c, st.key)
      [] pc = "scan_sst" -> LsmScanAfterRead(mm, c, st.key, st.hi)
      [] pc = "bget" -> BtGetStep(mm, c, st.key)
      [] pc = "b_put_r" -> Wait([mm EXCEPT !.bt = BtInsert(@, st.key, st.val, mm.cfg.order)], c, "b_w", mm.cfg.BW)
      [] pc = "b_del_r" -> LET r == BtDelete(mm.bt, st.key) IN
                           IF r.found THEN Wait([mm EXCEPT !.bt = r.bt, !.cl[c].left = 1], c, "b_w", mm.cfg.BW)
                           ELSE Finish(mm, c, 0, <<>>)
      [] pc = "b_w" -> Finish(mm, c, mm.cl[c].left, <<>>)
      [] pc = "b_scan_r" -> LET rows == BtScan(mm.bt, mm.bt.root, st.key, st.hi)
                                extra == Len(rows) \div (mm.cfg.order - 1)
                            IN IF extra > 0 THEN Wait([mm EXCEPT !.cl[c].mg = rows], c, "b_scan_x", extra * mm.cfg.BR)
                               ELSE Finish(mm, c, 0, rows)
      [] pc = "b_scan_x" -> Finish(mm, c, 0, mm.cl[c].mg)
      [] pc = "kv" -> CASE st.k = "get" -> Finish(mm, c, IF st.key \in DOMAIN mm.kv THEN mm.kv[st.key] ELSE 0, <<>>)
                        [] st.k = "put" -> Finish([mm EXCEPT !.kv = Put(@, st.key, st.val)], c, 0, <<>>)
                        [] st.k = "del" ->
                             Finish([mm EXCEPT !.kv = Restrict(@, DOMAIN @ \ {st.key})], c,
                                    IF st.key \in DOMAIN mm.kv THEN 1 ELSE 0, <<>>)

\* deliver the earliest continuation
Deliver(mm, scr) ==
    LET c == Earliest(mm)
        m0 == [mm EXCEPT !.clk = mm.cl[c].t]
    IN IF mm.cl[c].pc = "start" THEN Begin(m0, c, scr[c][mm.cl[c].n + 1])
       ELSE Resume(m0, c, scr[c][mm.cl[c].n])

\* an idle client (start of the run, or its operation just returned) yields its next think time
Idle(mm) == { c \in DOMAIN mm.cl : mm.cl[c].pc = "idle" }
Schedule(mm, c, th) == Wait(mm, c, "start", th)
Stop(mm, c) == [mm EXCEPT !.cl[c].pc = "done"]
\* with complete scripts: resolve every idle client deterministically (lowest first)
RECURSIVE Settle(_, _)
Settle(mm, scr) ==
    IF Idle(mm) = {} THEN mm
    ELSE LET c == CHOOSE c \in Idle(mm) : \A d \in Idle(mm) : c <= d IN
         Settle(IF mm.cl[c].n < Len(scr[c]) THEN Schedule(mm, c, scr[c][mm.cl[c].n + 1].th) ELSE Stop(mm, c), scr)
AllDone(mm) == \A c \in DOMAIN mm.cl : mm.cl[c].pc = "done"

\* ---- model-checking mode: program space ------------------------------------------
CONSTANTS Cfgs,      \* set of configuration records
          MaxOps,    \* <<ops of client 1, ops of client 2, ...>>
          Kinds,     \* <<kinds client 1 may use, ...>>
          NK,        \* keys 1..NK
          Thinks,    \* <<think times client 1 may wait before an operation, ...>>
          Prefixes   \* set of script tuples every explored program must start with ({} = no restriction)

StepChoices(c, n) ==
    { [th |-> th, k |-> k, key |-> key, hi |-> 0, val |-> IF k = "put" THEN 100 * c + n ELSE 0] :
         th \in Thinks[c], k \in Kinds[c] \ {"scan"}, key \in 1..NK }
    \cup (IF "scan" \in Kinds[c] /\ m.cfg.engine # "kv"
          THEN { [th |-> th, k |-> "scan", key |-> 1, hi |-> NK + 1, val |-> 0] : th \in Thinks[c] }
               \cup { [th |-> th, k |-> "scan", key |-> 2, hi |-> NK + 1, val |-> 0] : th \in Thinks[c] }
          ELSE {})

Init ==
    /\ IF Prefixes = {} THEN script = [c \in 1..Len(MaxOps) |-> <<>>] ELSE script \in Prefixes
    /\ \E cfg \in Cfgs : m = InitM(cfg, Len(MaxOps))

Next ==
    IF Idle(m) # {}
    THEN LET c == CHOOSE c \in Idle(m) : \A d \in Idle(m) : c <= d IN
         IF m.cl[c].n < Len(script[c])                         \* step fixed by the prefix
         THEN m' = Schedule(m, c, script[c][m.cl[c].n + 1].th) /\ UNCHANGED script
         ELSE \/ /\ m.cl[c].n < MaxOps[c]
                 /\ \E s \in StepChoices(c, m.cl[c].n + 1) :
                       /\ script' = [script EXCEPT ![c] = Append(@, s)]
                       /\ m' = Schedule(m, c, s.th)
              \/ /\ m' = Stop(m, c) /\ UNCHANGED script
    ELSE /\ Runnable(m) # {}
         /\ m' = Deliver(m, script)
         /\ UNCHANGED script

Spec == Init /\ [][Next]_vars

\* ---- contract (C14) on the model's own history -------------------------------------
InvRead == ReadsOK(m.hist)
InvScan == ScansOK(m.hist)
=========================================================================
