---------------------------- MODULE StorageMC ----------------------------
(* Named model-checking envelopes for Storage.tla (selected by the harness   *)
(* through `CONSTANT X <- Name` substitutions).                              *)
EXTENDS Storage

CONSTANT Dev      \* deviations switched on in this run

Base == [engine |-> "lsm", memsize |-> 1, strat |-> "st", thr |-> 2, base |-> 1, ratio |-> 2, maxlev |-> 2,
         ML |-> 1, W |-> 2, RL |-> 1, order |-> 3, BR |-> 1, BW |-> 2, KR |-> 1, KW |-> 2, KD |-> 2,
         fp |-> {}, dev |-> Dev]

\* LSM: size-tiered, memtable of 1 and 2, two levels (tombstones dropped in L1) and three levels
LsmST == { [Base EXCEPT !.memsize = ms, !.maxlev = ml] : ms \in {1, 2}, ml \in {2, 3} }
LsmST1 == { [Base EXCEPT !.memsize = 1, !.maxlev = 2] }
LsmST2 == { [Base EXCEPT !.memsize = 2, !.maxlev = 2] }
LsmLV == { [Base EXCEPT !.strat = "lv", !.memsize = ms, !.maxlev = 3, !.base = 1, !.ratio = 2] : ms \in {1, 2} }
LsmLV1 == { [Base EXCEPT !.strat = "lv", !.memsize = 1, !.maxlev = 3, !.base = 4, !.ratio = 2] }
LsmFIFO == { [Base EXCEPT !.strat = "fifo", !.memsize = ms, !.thr = 1, !.maxlev = 3] : ms \in {1, 2} }
LsmAll == LsmST \cup LsmLV \cup LsmFIFO
\* a bloom filter false positive: the table {2} answers "maybe" for key 1 (multi-segment get)
LsmFP == { [Base EXCEPT !.memsize = 1, !.maxlev = 3, !.fp = {<<{2}, 1>>, <<{1}, 2>>}] }
P(th, key, val) == [th |-> th, k |-> "put", key |-> key, hi |-> 0, val |-> val]
\* quick-tier unions
LsmSTq == { [Base EXCEPT !.memsize = 1, !.maxlev = 2], [Base EXCEPT !.memsize = 2, !.maxlev = 3] }
LsmLFq == LsmLV1 \cup { [Base EXCEPT !.strat = "fifo", !.memsize = 1, !.thr = 1, !.maxlev = 3] }
QuickAll == LsmSTq \cup LsmLFq \cup { [Base EXCEPT !.engine = "btree", !.order = 3], [Base EXCEPT !.engine = "kv"] }
BTree3 == { [Base EXCEPT !.engine = "btree", !.order = 3] }
BTree4 == { [Base EXCEPT !.engine = "btree", !.order = 4] }
KV == { [Base EXCEPT !.engine = "kv"] }

Ops21 == <<2, 1>>
Ops32 == <<3, 2>>
Ops33 == <<3, 3>>
Ops22 == <<2, 2>>
Ops42 == <<4, 2>>
Ops52 == <<5, 2>>
Ops62 == <<6, 2>>
Ops43 == <<4, 3>>
Ops222 == <<2, 2, 2>>
Ops322 == <<3, 2, 2>>
Ops421 == <<4, 2, 1>>
All == {"put", "del", "get", "scan"}
KAll2 == <<All, All>>
KAll3 == <<All, All, All>>
KWR == <<{"put", "del"}, {"get", "scan", "put"}>>
KWWR == <<{"put", "del"}, {"put", "del"}, {"get", "scan"}>>
KPG == <<{"put"}, {"put", "get"}>>
KPPS == <<{"put"}, {"put"}, {"scan", "get"}>>
KNoScan2 == <<{"put", "del", "get"}, {"put", "del", "get"}>>
T01 == <<{0, 1}, {0, 1}>>
T012 == <<{0, 1, 2}, {0, 1, 2}>>
T01x3 == <<{0, 1}, {0, 1}, {0, 1}>>
T0_6 == <<{0}, {6}>>
T0_01 == <<{0}, {0, 1}>>
ConcPrefix == { << <<P(0, 2, 101), P(0, 1, 102)>>, <<>> >> }
T0_04 == <<{0}, {0, 4}>>
T0_0_01 == <<{0}, {0}, {0, 1}>>
\* targeted envelopes for the sensitivity runs
LsmLVconc == { [Base EXCEPT !.strat = "lv", !.memsize = 1, !.maxlev = 3, !.base = 8, !.ratio = 2, !.W = 3] }
\* variant (b) of compaction_concurrent_install: two levels, the concurrent writer deletes
LsmSTconc2 == { [Base EXCEPT !.memsize = 1, !.maxlev = 2, !.W = 3] }
KPG_D == <<{"put", "get"}, {"del"}>>
Ops51 == <<5, 1>>
KPG_P == <<{"put", "get"}, {"put"}>>
NoPrefix == {}
\* reader_iter_skips_on_shrink needs four SSTables in L0 while a compaction of the first two is in flight:
\* three writers (memtable of 2, write latency 8) are scripted, the reader (client 4) is explored.
IterPrefix == { << <<P(0, 1, 101), P(0, 2, 102), P(0, 1, 103), P(0, 2, 104)>>,
                   <<P(13, 3, 201), P(0, 1, 202)>>, <<P(16, 1, 301), P(0, 2, 302)>>, <<>> >> }
LsmIter == { [Base EXCEPT !.memsize = 2, !.maxlev = 2, !.W = 8] }
Ops4221 == <<4, 2, 2, 1>>
KIter == <<{"put"}, {"put"}, {"put"}, {"scan", "get"}>>
TIter == <<{0}, {0}, {0}, {24, 25, 26, 27, 28}>>
==========================================================================
