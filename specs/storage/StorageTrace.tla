--------------------------- MODULE StorageTrace ---------------------------
(* Trace validation for C14 (map clauses).  Input IOEnv.TRACE_FILE = JSON    *)
(* array of executions recorded from the real LSMTree / BTree / KVStore run  *)
(* inside a real Simulation by harness/families/c14_lib.py:                  *)
(*   [ id, cfg (engine configuration incl. bloom false positives `fp` and    *)
(*     the deviations `dev` the code is known to have), script (per client), *)
(*     hist (observed operation history: kind, key, value, invocation and    *)
(*     return time in ticks, result), final (projection of the final state) ]*)
(* For every trace the Storage machine is run on the same program, then one  *)
(* verdict line is printed:  <<"V", id, verdict, position, match>>           *)
(*   "PROP:<clause>"  a contract clause (MapContract) is false on the        *)
(*                    OBSERVED history (position = index of the operation);  *)
(*   "MODEL:hist" / "MODEL:state"  the contract holds on the observed        *)
(*                    history but it differs from the model's (drift);       *)
(*   "ACCEPT"         contract holds and the model reproduces the execution. *)
(*   match = 1 iff the model (with cfg.dev) reproduces the observed history  *)
(*   exactly - used to attribute a PROP verdict to a known deviation.        *)
EXTENDS Storage, Json, IOUtils

Traces == JsonDeserialize(IOEnv.TRACE_FILE)
NT == Len(Traces)
VARIABLE ti
tvars == <<m, script, ti>>

NoOps == <<>>      \* model-checking constants of Storage are unused here
Range(s) == { s[i] : i \in 1..Len(s) }
CfgOf(T) == [T.cfg EXCEPT !.fp = { <<Range(p[1]), p[2]>> : p \in Range(T.cfg.fp) }, !.dev = Range(T.cfg.dev)]
Start(T) == Settle(InitM(CfgOf(T), Len(T.script)), T.script)

Pairs(f) == LET ks == Asc(DOMAIN f) IN [i \in 1..Len(ks) |-> <<ks[i], f[ks[i]]>>]
RECURSIVE Nest(_, _)
Nest(bt, n) == LET nd == bt.nodes[n] IN
    [leaf |-> nd.leaf, keys |-> nd.keys, vals |-> nd.vals, ch |-> [i \in 1..Len(nd.ch) |-> Nest(bt, nd.ch[i])]]
Proj(mm) ==
    CASE mm.cfg.engine = "lsm" ->
           [mem |-> Pairs(mm.mem), imm |-> [i \in 1..Len(mm.imm) |-> Pairs(mm.imm[i].d)],
            lv |-> [l \in 1..Len(mm.lv) |-> [j \in 1..Len(mm.lv[l]) |-> Pairs(mm.lv[l][j].d)]]]
      [] mm.cfg.engine = "btree" -> [depth |-> mm.bt.depth, bt |-> Nest(mm.bt, mm.bt.root)]
      [] mm.cfg.engine = "kv" -> [kv |-> Pairs(mm.kv)]

RECURSIVE FirstDiff(_, _, _)
FirstDiff(a, b, i) ==
    IF i > Len(a) /\ i > Len(b) THEN 0
    ELSE IF i > Len(a) \/ i > Len(b) THEN i
    ELSE IF a[i] # b[i] THEN i ELSE FirstDiff(a, b, i + 1)

Verdict(T) ==
    LET obs == T.hist
        same == IF obs = m.hist THEN 1 ELSE 0
    IN IF Bad(obs) # {}
       THEN <<"PROP:" \o OpVerdict(obs, FirstBad(obs)), FirstBad(obs), same>>
       ELSE IF same = 0 THEN <<"MODEL:hist", FirstDiff(obs, m.hist, 1), 0>>
       ELSE IF T.final # Proj(m) THEN <<"MODEL:state", 0, 1>>
       ELSE <<"ACCEPT", 0, 1>>

TInit == ti = 1 /\ script = Traces[1].script /\ m = Start(Traces[1])

TNext ==
    /\ ti <= NT
    /\ IF ~AllDone(m)
       THEN m' = Settle(Deliver(m, script), script) /\ UNCHANGED <<script, ti>>
       ELSE /\ LET v == Verdict(Traces[ti]) IN PrintT(<<"V", Traces[ti].id, v[1], v[2], v[3]>>)
            /\ ti' = ti + 1
            /\ IF ti < NT THEN script' = Traces[ti + 1].script /\ m' = Start(Traces[ti + 1])
               ELSE UNCHANGED <<m, script>>

TSpec == TInit /\ [][TNext]_tvars
===========================================================================
