----------------------------- MODULE TxnTrace -----------------------------
(* Trace validation for the transaction clauses of C14.  Input: JSON array  *)
(* of executions of the real TransactionManager over a real KVStore inside a *)
(* real Simulation (harness/families/c14_txn.py):                            *)
(*   [ id, level ("ser"|"si"|"rc"), nk, ntx, dev (deviations the code is     *)
(*     known to have), ev (events <<kind, txn, key, value>> logged at their  *)
(*     atomic points: "b" begin, "r" read with the value returned, "w" write,*)
(*     "c" commit with 1 = committed / 0 = aborted by conflict, "a" abort),  *)
(*     final (store contents as <<key, value>> pairs) ]                      *)
(* One verdict line per trace:  <<"V", id, verdict, position, match>>        *)
(*   PROP:not_serializable / PROP:si_no_single_snapshot : the clause is      *)
(*     false on the OBSERVED reads, commits and final store;                 *)
(*   MODEL:ev / MODEL:state : contract holds but Txn.tla (with `dev`)        *)
(*     predicts another read value / commit outcome / final store (drift);   *)
(*   match = 1 iff the model reproduces the observed execution exactly.      *)
EXTENDS Txn, Json, IOUtils

Traces == JsonDeserialize(IOEnv.TRACE_FILE)
NTr == Len(Traces)
VARIABLE ti
tvars == <<S, ev, ti>>

Range(s) == { s[i] : i \in 1..Len(s) }

\* ---- what was observed (no model involved) -----------------------------------------------
OWrote(E, t, k, j) == \E i \in 1..(j - 1) : E[i][1] = "w" /\ E[i][2] = t /\ E[i][3] = k
RECURSIVE OExt(_, _, _)
OExt(E, t, j) ==        \* external reads of t among events 1..j, in order
    IF j = 0 THEN <<>>
    ELSE LET r == OExt(E, t, j - 1) IN
         IF E[j][1] = "r" /\ E[j][2] = t /\ ~OWrote(E, t, E[j][3], j) THEN Append(r, <<E[j][3], E[j][4]>>) ELSE r
RECURSIVE OWs(_, _, _)
OWs(E, t, j) ==
    IF j = 0 THEN <<>>
    ELSE LET w == OWs(E, t, j - 1) IN
         IF E[j][1] = "w" /\ E[j][2] = t THEN PutF(w, E[j][3], E[j][4]) ELSE w
OCommits(E) == SelectSeq(E, LAMBDA e : e[1] = "c" /\ e[4] = 1)
OOrder(E) == LET c == OCommits(E) IN [i \in 1..Len(c) |-> c[i][2]]
PairsToMap(keys, ps) == [k \in keys |-> IF \E i \in 1..Len(ps) : ps[i][1] = k
                                        THEN ps[CHOOSE i \in 1..Len(ps) : ps[i][1] = k][2] ELSE 0]

\* ---- the model run along the observed event order ------------------------------------------
RECURSIVE Replay(_, _, _, _, _)
Replay(s, E, i, level, dev) ==      \* [s, bad]: bad = first event the model disagrees with (0 = none)
    IF i > Len(E) THEN [s |-> s, bad |-> 0]
    ELSE LET e == E[i]  t == e[2] IN
         CASE e[1] = "b" -> IF s.tx[t].st # "none" THEN [s |-> s, bad |-> i]
                            ELSE Replay(DoBegin(s, t), E, i + 1, level, dev)
           [] e[1] = "r" -> IF s.tx[t].st # "active" \/ ReadValue(s, t, e[3], level, dev) # e[4]
                            THEN [s |-> s, bad |-> i]
                            ELSE Replay(DoRead(s, t, e[3], level, dev), E, i + 1, level, dev)
           [] e[1] = "w" -> IF s.tx[t].st # "active" THEN [s |-> s, bad |-> i]
                            ELSE Replay(DoWrite(s, t, e[3], e[4]), E, i + 1, level, dev)
           [] e[1] = "c" -> IF s.tx[t].st # "active" \/ (IF Conflict(s, t, level) THEN 0 ELSE 1) # e[4]
                            THEN [s |-> s, bad |-> i]
                            ELSE Replay(DoCommit(s, t, level), E, i + 1, level, dev)
           [] e[1] = "a" -> IF s.tx[t].st # "active" THEN [s |-> s, bad |-> i]
                            ELSE Replay(DoAbort(s, t), E, i + 1, level, dev)
           [] OTHER -> [s |-> s, bad |-> i]

Verdict(T) ==
    LET E == T.ev
        keys == 1..T.nk
        txs == 1..T.ntx
        init == [k \in keys |-> 0]
        final == PairsToMap(keys, T.final)
        ext == [t \in txs |-> OExt(E, t, Len(E))]
        ws == [t \in txs |-> OWs(E, t, Len(E))]
        order == OOrder(E)
        C == Range(order)
        r == Replay(InitS(keys, T.ntx, T.level), E, 1, T.level, Range(T.dev))
        same == IF r.bad = 0 /\ r.s.store = final THEN 1 ELSE 0
        badsi == { t \in C : ~SnapshotReads(t, order, ext, ws, init) }
    IN IF T.level = "ser" /\ ~Serializable(C, ext, ws, init, final) THEN <<"PROP:not_serializable", 0, same>>
       ELSE IF T.level = "si" /\ badsi # {}
            THEN <<"PROP:si_no_single_snapshot", CHOOSE t \in badsi : \A u \in badsi : t <= u, same>>
       ELSE IF r.bad # 0 THEN <<"MODEL:ev", r.bad, 0>>
       ELSE IF r.s.store # final THEN <<"MODEL:state", 0, 0>>
       ELSE <<"ACCEPT", 0, 1>>

TInit == ti = 1 /\ S = InitS({}, 0, "ser") /\ ev = <<>>
TNext ==
    /\ ti <= NTr
    /\ LET v == Verdict(Traces[ti]) IN PrintT(<<"V", Traces[ti].id, v[1], v[2], v[3]>>)
    /\ ti' = ti + 1
    /\ UNCHANGED <<S, ev>>
TSpec == TInit /\ [][TNext]_tvars
===========================================================================
