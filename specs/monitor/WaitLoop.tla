------------------------------ MODULE WaitLoop ------------------------------
(* C07, "time always advances or the run ends": the event loop with one holder *)
(* that releases a lock at instant Hold and NW waiters that want it.  A waiter  *)
(* either parks on a future that the release resolves (Dev = {}), or re-polls   *)
(* with a zero delay as `while not acquired: yield 0.0` does                    *)
(* ("zero_delay_poll" \in Dev).  The heap always delivers the earliest event,   *)
(* so a zero-delay poller at instant 0 is always earlier than the release at     *)
(* instant Hold: the clock freezes.                                              *)
EXTENDS Naturals, FiniteSets, TLC

CONSTANTS Dev, NW, Hold

VARIABLES clock, heap, held, waiting, served, polls
vars == <<clock, heap, held, waiting, served, polls>>

W == 1..NW
Poll == "zero_delay_poll" \in Dev

\* heap entries: [t, kind, w, seq]
Init == /\ clock = 0 /\ held = TRUE /\ waiting = {} /\ served = {} /\ polls = 0
        /\ heap = {[t |-> Hold, kind |-> "release", w |-> 0]} \cup { [t |-> 0, kind |-> "acquire", w |-> w] : w \in W }

Earliest(e) == e \in heap /\ \A o \in heap : e.t <= o.t

Deliver(e) ==
    /\ Earliest(e)
    /\ clock' = e.t
    /\ CASE e.kind = "acquire" ->
              IF ~held THEN /\ held' = TRUE /\ served' = served \cup {e.w} /\ heap' = heap \ {e}
                            /\ UNCHANGED <<waiting, polls>>
              ELSE IF Poll THEN /\ heap' = (heap \ {e}) \cup {[t |-> e.t, kind |-> "acquire", w |-> e.w]}
                                /\ polls' = (IF polls < 3 THEN polls + 1 ELSE polls)
                                /\ UNCHANGED <<held, waiting, served>>
              ELSE /\ waiting' = waiting \cup {e.w} /\ heap' = heap \ {e} /\ UNCHANGED <<held, served, polls>>
         [] e.kind = "release" ->
              /\ IF waiting # {} THEN LET w == CHOOSE w \in waiting : \A v \in waiting : w <= v IN
                                      /\ waiting' = waiting \ {w} /\ served' = served \cup {w} /\ held' = TRUE
                 ELSE held' = FALSE /\ UNCHANGED <<waiting, served>>
              /\ heap' = heap \ {e} /\ UNCHANGED polls
         [] OTHER -> FALSE

Next == \E e \in heap : Deliver(e)
Spec == Init /\ [][Next]_vars /\ WF_vars(Next)

\* simulated time reaches the release, i.e. it is not frozen by the waiters
TimeAdvances == <>(clock >= Hold)
\* a finite workload delivers a bounded number of events per instant
BoundedPerInstant == polls < 3
=============================================================================
