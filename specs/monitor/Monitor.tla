------------------------------- MODULE Monitor -------------------------------
(* C07 trace monitor.  Input: one record per real Simulation executed by a      *)
(* scenario, produced by the harness-side recorder:                              *)
(*   [id, n (deliveries), maxinst (largest number of deliveries at one instant), *)
(*    limit (spin guard), spun (guard fired), past (number of events a library    *)
(*    component pushed with a timestamp earlier than the clock at the push),      *)
(*    discards (events the engine dropped as "time travel")]                      *)
(* Verdict per record: <<"V", id, verdict, 0>>.                                   *)
EXTENDS Naturals, Sequences, TLC, Json, IOUtils

Recs == JsonDeserialize(IOEnv.TRACE_FILE)
VARIABLE i
Init == i = 1

EmitOK(r) == r.past = 0                       \* every emission is at or after the emission instant
Progress(r) == ~r.spun /\ r.maxinst <= r.limit  \* bounded deliveries at one simulated instant

Verdict(r) == IF ~EmitOK(r) THEN "PROP:emitted_into_the_past"
              ELSE IF ~Progress(r) THEN "PROP:frozen_clock"
              ELSE "ACCEPT"

Next == /\ i <= Len(Recs)
        /\ PrintT(<<"V", Recs[i].id, Verdict(Recs[i]), 0>>)
        /\ i' = i + 1
Spec == Init /\ [][Next]_i
==============================================================================
