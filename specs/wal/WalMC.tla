------------------------------ MODULE WalMC ------------------------------
(* Model-checking wrapper for Wal.tla: TLC chooses the configuration (sync   *)
(* policy x memtable size), the writers' scripts step by step (gap before    *)
(* each write, put/delete, key) and the crash point (Crash is enabled in     *)
(* every state of phase "run").  `script` and the delivery counter m.ev are  *)
(* history (needed to replay a behaviour on the real code) and are hidden    *)
(* from the fingerprint by the VIEW.                                         *)
EXTENDS Wal

CONSTANTS NW, NK, MaxOps, Gaps, Kinds, Policies, MemSizes, BatchN, PeriodT, WL, SL, ML, FL, Strat, Thr,
          MaxLev, Dev,
          FixedScript     \* <<>>: TLC chooses the scripts; else [1..NW -> Seq([gap, kind, key])] followed exactly

NoScript == <<>>
\* directed workload (found by TLC with NW=2, MaxOps=3, puts only) exhibiting "compaction_concurrent_install"
W(g, k) == [gap |-> g, kind |-> "put", key |-> k]
ScriptCompaction == << <<W(0, 1), W(1, 2), W(0, 1)>>, <<W(1, 2), W(1, 1), W(0, 1)>> >>
\* directed workload (found by TLC: 3 writers x 2 puts, 3 keys, gaps {0,5}, batch 2, memtable 2, SL=6) exhibiting
\* "inflight_counted_not_tracked": writer 2's append (key 3) is still in its sync when writer 1's second,
\* later and non-syncing append lands and fills the memtable
ScriptOvertake == << <<W(0, 2), W(0, 1)>>, <<W(5, 3)>>, <<W(0, 2)>> >>

MCCfgs == { [nw |-> NW, nk |-> NK, memsize |-> ms, policy |-> p, batch |-> BatchN, period |-> PeriodT,
             WL |-> WL, SL |-> SL, ML |-> ML, FL |-> FL, strat |-> Strat, thr |-> Thr, base |-> 1, ratio |-> 2,
             maxlev |-> MaxLev, dev |-> Dev] : ms \in MemSizes, p \in Policies }

Init == /\ \E c \in MCCfgs : m = InitM(c)
        /\ script = IF FixedScript = <<>> THEN [w \in 1..NW |-> <<>>] ELSE FixedScript

Running == m.phase = "run" /\ m.q # <<>>

\* the writer's loop asks for its next gap: TLC chooses it (or ends the script)
Scripted == FixedScript # <<>>
GapChoices(mm, w) ==
    IF Scripted THEN {IF mm.cl[w].n < Len(script[w]) THEN script[w][mm.cl[w].n + 1].gap ELSE STOP}
    ELSE IF mm.cl[w].n < MaxOps THEN Gaps \cup {STOP} ELSE {STOP}

SegStep(pcname) ==
    /\ Running /\ HeadPc(m) = pcname
    /\ LET w == HeadW(m)
           m1 == Seg(Pop(m), w)
       IN IF m1.cl[w].pc = "next"
          THEN \E g \in GapChoices(m1, w) :
                  /\ m' = Resume(m1, w, g)
                  /\ script' = IF g = STOP \/ Scripted THEN script
                               ELSE [script EXCEPT ![w] = Append(@, [gap |-> g, kind |-> "", key |-> 0])]
          ELSE m' = m1 /\ UNCHANGED script

Start == SegStep("start")                 \* the writer's start event: runs to its first `yield gap`
OpBegin ==                                \* after the gap: put()/delete() up to wal.append's first yield
    /\ Running /\ HeadPc(m) = "gap"
    /\ LET w == HeadW(m) IN
       IF Scripted
       THEN LET e == script[w][m.cl[w].n + 1] IN m' = Begin(Pop(m), w, e.kind, e.key) /\ UNCHANGED script
       ELSE \E kind \in Kinds, key \in 1..NK :
               /\ m' = Begin(Pop(m), w, kind, key)
               /\ script' = [script EXCEPT ![w][m.cl[w].n + 1].kind = kind, ![w][m.cl[w].n + 1].key = key]
WalWritten == SegStep("wr")               \* write latency over: sync per policy, else memtable put
WalSynced == SegStep("sy")                \* sync latency over: synced_up_to := seq; memtable put
MemPutReturns == SegStep("mp")            \* memtable latency over: is_full? rotate + start flush
FlushInstalls == SegStep("fl")            \* SSTable written: install in L0, truncate log, maybe compaction
CompactInstalls == SegStep("co")          \* compaction output written: swap tables

Crash == m.phase = "run" /\ m' = CrashM(m) /\ UNCHANGED script
Recover == m.phase \in {"crashed", "rec1"} /\ m' = RecoverM(m) /\ UNCHANGED script

Next == Start \/ OpBegin \/ WalWritten \/ WalSynced \/ MemPutReturns \/ FlushInstalls \/ CompactInstalls
        \/ Crash \/ Recover
NextNoCrash == Start \/ OpBegin \/ WalWritten \/ WalSynced \/ MemPutReturns \/ FlushInstalls \/ CompactInstalls

Spec == Init /\ [][Next]_vars

View == <<[m EXCEPT !.ev = 0]>>
===========================================================================
