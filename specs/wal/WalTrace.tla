----------------------------- MODULE WalTrace -----------------------------
(* Trace validation for C15.  One trace = one workload (configuration +      *)
(* writer scripts) executed on the real LSMTree + WriteAheadLog inside a     *)
(* real Simulation, once per crash position k in T.pos: the simulation is    *)
(* rebuilt, stepped k deliveries, the pre-crash state is projected, then     *)
(* crash(), recover_from_crash(), get_sync of every key, recover again,      *)
(* get_sync again (T.obs[i] for k = T.pos[i]).  T.ops is the workload's own  *)
(* log of the writes it invoked (kind, key, value, log sequence, which       *)
(* writes had returned before).                                              *)
(*                                                                           *)
(* The model (Wal.tla, deterministic once the scripts are fixed) is run      *)
(* along the same scripts.  At every recorded position                       *)
(*   - the CONTRACT (WalContract!Judge) is evaluated on the OBSERVED data    *)
(*     only: verdict "PROP:<clause>" = the real execution violates C15;      *)
(*   - the model's state, its post-crash log / memtable and its reads are    *)
(*     compared with the observed ones: "MODEL:<field>" = drift.             *)
(* Output: one line <<"K", id, k, prop, model, key, self>> per position that *)
(* is not ("ok","ok") (self = the contract evaluated on the MODEL's own      *)
(* data at that position, used to attribute a failure to a deviation), and   *)
(* exactly one summary line <<"V", id, verdict, k>>                          *)
(* A trace with selfscan = 1 carries no observations: the model alone is run *)
(* along the scripts and its own contract verdict is taken at EVERY position *)
(* (counterfactual runs used to attribute a failure to a deviation); output  *)
(* <<"S", id, number of failing positions, first one, its clause>>.          *)
(* per trace: ACCEPT, or the first PROP verdict, or the first MODEL one.     *)
EXTENDS Wal, Json, IOUtils

Traces == JsonDeserialize(IOEnv.TRACE_FILE)
NT == Len(Traces)
VARIABLES ti, pi, acc
tvars == <<m, script, ti, pi, acc>>

SeqSet(s) == { s[i] : i \in 1..Len(s) }
RECURSIVE Asc(_)
Asc(S) == IF S = {} THEN <<>>
          ELSE LET x == CHOOSE x \in S : \A y \in S : x <= y IN <<x>> \o Asc(S \ {x})
MapSeq(f) == LET ks == Asc(DOMAIN f) IN [i \in 1..Len(ks) |-> <<ks[i], f[ks[i]]>>]

CfgOf(T) == [T.cfg EXCEPT !.dev = SeqSet(@)]
DummyCfg == [nw |-> 0, nk |-> 0, memsize |-> 1, policy |-> "every", batch |-> 1, period |-> 1, WL |-> 1, SL |-> 1,
             ML |-> 1, FL |-> 1, strat |-> "st", thr |-> 2, base |-> 1, ratio |-> 2, maxlev |-> 1, dev |-> {}]
Acc0 == [p |-> "ok", pk |-> 0, mo |-> "ok", mk |-> 0]

TInit ==
    /\ ti = 1 /\ pi = 1 /\ acc = Acc0
    /\ IF NT = 0 THEN m = InitM(DummyCfg) /\ script = <<>>
       ELSE m = InitM(CfgOf(Traces[1])) /\ script = Traces[1].script

\* one delivery of the model, choices read from the script
TStep(mm, sc) ==
    LET w == HeadW(mm)
        p == Pop(mm)
    IN IF HeadPc(mm) = "gap"
       THEN LET e == sc[w][mm.cl[w].n + 1] IN Begin(p, w, e.kind, e.key)
       ELSE LET m1 == Seg(p, w) IN
            IF m1.cl[w].pc = "next"
            THEN Resume(m1, w, IF m1.cl[w].n < Len(sc[w]) THEN sc[w][m1.cl[w].n + 1].gap ELSE STOP)
            ELSE m1

\* --- projections of the model state, in the shape the harness records ---------------
ProjWal(mm) == [i \in 1..Len(mm.ent) |-> mm.ent[i].seq]
ProjImm(mm) == [i \in 1..Len(mm.imm) |-> Size(mm.imm[i].d)]
ProjLv(mm) == [l \in 1..Len(mm.lv) |-> [i \in 1..Len(mm.lv[l]) |-> MapSeq(mm.lv[l][i].d)]]
OpsAgree(mm, T) ==
    /\ Len(mm.ops) <= Len(T.ops)
    /\ \A j \in 1..Len(mm.ops) :
         LET a == mm.ops[j]  b == T.ops[j] IN
         a.w = b.w /\ a.kind = b.kind /\ a.key = b.key /\ a.val = b.val /\ a.seq = b.seq /\ a.bef = SeqSet(b.bef)

\* first field in which the real code disagrees with the model at this position ("ok" = none)
ModelDiff(mm, T, O) ==
    IF O.nops # Len(mm.ops) THEN "nops"
    ELSE IF ~OpsAgree(mm, T) THEN "ops"
    ELSE IF O.next # mm.next THEN "next_sequence"
    ELSE IF O.dur # mm.dur THEN "sync_completions"
    ELSE IF O.synced # mm.synced THEN "synced_up_to"
    ELSE IF O.wss # mm.wss THEN "writes_since_sync"
    ELSE IF O.wal # ProjWal(mm) THEN "wal_entries"
    ELSE IF O.mem # MapSeq(mm.mem) THEN "memtable"
    ELSE IF O.imm # ProjImm(mm) THEN "immutable_memtables"
    ELSE IF O.lv # ProjLv(mm) THEN "levels"
    ELSE LET p1 == PostCrash1(mm)
             p2 == RecoverM(p1)
         IN IF O.walc # ProjWal(p1) THEN "wal_after_crash"
            ELSE IF O.mem1 # MapSeq(p1.mem) THEN "memtable_after_recovery"
            ELSE IF O.r1 # p1.r1 THEN "reads_after_recovery"
            ELSE IF O.r2 # p2.r2 THEN "reads_after_second_recovery"
            ELSE "ok"

\* --- the contract on the observed execution ------------------------------------------------
ObsOps(T, n) ==
    [j \in 1..n |-> [kind |-> T.ops[j].kind, key |-> T.ops[j].key, val |-> T.ops[j].val, seq |-> T.ops[j].seq,
                     bef |-> SeqSet(T.ops[j].bef)]]
PropVerdict(T, O) == Judge(ObsOps(T, O.nops), O.dur, 1..T.cfg.nk, O.r1, O.r2)
PropKey(T, O) == BadKey(ObsOps(T, O.nops), O.dur, 1..T.cfg.nk, O.r1, O.r2)

\* the contract on the model's own run (same scripts, crash at the same position)
SelfVerdict(mm) ==
    LET p1 == PostCrash1(mm)
        p2 == RecoverM(p1)
    IN Judge(mm.ops, mm.dur, KeysOf(mm), p1.r1, p2.r2)

Note(T, k, pv, mv, key) ==
    /\ IF pv = "ok" /\ mv = "ok" THEN TRUE
       ELSE PrintT(<<"K", T.id, k, pv, mv, key, IF mv = "no_such_position" THEN "none" ELSE SelfVerdict(m)>>)
    /\ acc' = [p |-> IF acc.p = "ok" THEN pv ELSE acc.p, pk |-> IF acc.p = "ok" THEN k ELSE acc.pk,
               mo |-> IF acc.mo = "ok" THEN mv ELSE acc.mo, mk |-> IF acc.mo = "ok" THEN k ELSE acc.mk]

Load(i) == m' = InitM(CfgOf(Traces[i])) /\ script' = Traces[i].script

Finish(T, v) ==
    /\ PrintT(<<"V", T.id, v[1], v[2]>>)
    /\ ti' = ti + 1 /\ pi' = 1 /\ acc' = Acc0
    /\ IF ti < NT THEN Load(ti + 1) ELSE UNCHANGED <<m, script>>

\* counterfactual run: the model's own verdict at every position of its own run
SelfScan(T) ==
    LET sv == SelfVerdict(m)
        a1 == IF sv = "ok" THEN acc
              ELSE [acc EXCEPT !.p = IF acc.p = "ok" THEN sv ELSE @, !.pk = IF acc.p = "ok" THEN m.ev ELSE @,
                               !.mk = @ + 1]
    IN IF m.q # <<>>
       THEN m' = TStep(m, script) /\ acc' = a1 /\ UNCHANGED <<script, ti, pi>>
       ELSE /\ PrintT(<<"S", T.id, a1.mk, a1.pk, a1.p>>)
            /\ Finish(T, <<"ACCEPT", 0>>)

TNext ==
    /\ ti <= NT
    /\ LET T == Traces[ti] IN
       IF T.selfscan = 1 THEN SelfScan(T)
       ELSE IF pi <= Len(T.pos)
       THEN LET k == T.pos[pi]
                O == T.obs[pi]
            IN IF k = m.ev
               THEN /\ Note(T, k, PropVerdict(T, O), ModelDiff(m, T, O), PropKey(T, O))
                    /\ pi' = pi + 1 /\ UNCHANGED <<m, script, ti>>
               ELSE IF k > m.ev /\ m.q # <<>>
               THEN m' = TStep(m, script) /\ UNCHANGED <<script, ti, pi, acc>>
               ELSE \* the model has no such position (its run is shorter): contract only
                    /\ Note(T, k, PropVerdict(T, O), "no_such_position", PropKey(T, O))
                    /\ pi' = pi + 1 /\ UNCHANGED <<m, script, ti>>
       ELSE LET more == IF T.full = 1 /\ m.q # <<>> /\ acc.mo = "ok" THEN "model_has_more_deliveries" ELSE acc.mo
                v == IF acc.p # "ok" THEN <<"PROP:" \o acc.p, acc.pk>>
                     ELSE IF more # "ok" THEN <<"MODEL:" \o more, acc.mk>>
                     ELSE <<"ACCEPT", 0>>
            IN Finish(T, v)

TSpec == TInit /\ [][TNext]_tvars
===========================================================================
