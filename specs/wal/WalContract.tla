--------------------------- MODULE WalContract ---------------------------
(* Contract of property C15, over observable data only.                     *)
(*                                                                           *)
(*   ops   sequence of the writes (put / delete) INVOKED before the crash,   *)
(*         in invocation order; ops[j] =                                     *)
(*           [kind |-> "put" | "del", key, val, seq, bef]                    *)
(*         val  = the value written (unique per put; TOMB for a delete),     *)
(*         seq  = the write-ahead-log sequence number of the write,          *)
(*         bef  = set of indices of the writes that had RETURNED to their    *)
(*                caller before this one was invoked (real-time order).      *)
(*   dur   highest log sequence whose WAL sync had COMPLETED before the      *)
(*         crash (0 = none): write j is "durably acknowledged" iff           *)
(*         ops[j].seq <= dur (its own sync, or a later append's sync that    *)
(*         covers it, had completed).                                        *)
(*   r     function key -> value read by get_sync after crash + recovery     *)
(*         (ABSENT = None).                                                  *)
(*                                                                           *)
(* "Latest" is judged by real-time order only: write a is overwritten by     *)
(* write b iff same key and a returned before b was invoked.  Writes that    *)
(* overlap in time may be applied in either order (the statement does not    *)
(* fix it), exactly as in the map contract of C14.                           *)
EXTENDS Integers, Sequences, FiniteSets

ABSENT == 0
TOMB == -1

OpsOn(ops, k) == { j \in 1..Len(ops) : ops[j].key = k }
DurableOn(ops, dur, k) == { j \in OpsOn(ops, k) : ops[j].seq >= 1 /\ ops[j].seq <= dur }

\* j's value has been overwritten / deleted by a durably acknowledged later write
Superseded(ops, dur, j) ==
    \E d \in DurableOn(ops, dur, ops[j].key) : d # j /\ j \in ops[d].bef

\* writes whose value the recovered store may legitimately show for key k:
\* a latest durable write, or any write later than / concurrent with it
Admissible(ops, dur, k) == { j \in OpsOn(ops, k) : ~Superseded(ops, dur, j) }

\* clause 3: no value that was never written appears
NeverWrittenOK(ops, k, r) ==
    r # ABSENT => \E j \in OpsOn(ops, k) : ops[j].kind = "put" /\ ops[j].val = r

\* clause 1: every durably acknowledged write is readable (with its latest durable value
\* or a later write's value): the key may read as absent only because of a delete that is
\* itself admissible
DurableOK(ops, dur, k, r) ==
    (r = ABSENT /\ DurableOn(ops, dur, k) # {})
        => \E j \in Admissible(ops, dur, k) : ops[j].kind = "del"

\* clauses 1+2: the value shown is not one that a durable later write overwrote or deleted
NoResurrectOK(ops, dur, k, r) ==
    (r # ABSENT /\ \E j \in OpsOn(ops, k) : ops[j].kind = "put" /\ ops[j].val = r)
        => \E j \in Admissible(ops, dur, k) : ops[j].kind = "put" /\ ops[j].val = r

\* clause 4: recovering twice = recovering once (readable state)
IdempotentOK(r1, r2) == r1 = r2

\* first failing clause for the reads r1 (after one recovery) / r2 (after two); "ok" if none
Judge(ops, dur, keys, r1, r2) ==
    IF \E k \in keys : ~NeverWrittenOK(ops, k, r1[k]) THEN "never_written"
    ELSE IF \E k \in keys : ~DurableOK(ops, dur, k, r1[k]) THEN "durable_lost"
    ELSE IF \E k \in keys : ~NoResurrectOK(ops, dur, k, r1[k]) THEN "stale_resurrected"
    ELSE IF ~IdempotentOK(r1, r2) THEN "not_idempotent"
    ELSE "ok"

\* a key on which Judge's clause fails (0 if none), for reporting
BadKey(ops, dur, keys, r1, r2) ==
    LET bad == { k \in keys : ~NeverWrittenOK(ops, k, r1[k]) \/ ~DurableOK(ops, dur, k, r1[k])
                               \/ ~NoResurrectOK(ops, dur, k, r1[k]) \/ r1[k] # r2[k] }
    IN IF bad = {} THEN 0 ELSE CHOOSE k \in bad : \A x \in bad : k <= x
===========================================================================
