------------------------------- MODULE Wal -------------------------------
(* Implementation-shaped, timed model for property C15 of                   *)
(*   happysimulator/components/storage/wal.py      (WriteAheadLog, policies) *)
(*   happysimulator/components/storage/lsm_tree.py (put/delete write path,   *)
(*       _flush_memtable, _compact, crash, recover_from_crash, get_sync)     *)
(*   happysimulator/components/storage/memtable.py (put, is_full, flush).    *)
(*                                                                           *)
(* Writers are generator processes of the real Simulation: each runs a       *)
(* script of writes, `yield gap` before each one, then `yield from           *)
(* lsm.put/delete`.  One TLA+ step in phase "run" = one engine delivery =    *)
(* one generator segment (the code between two yields) of one writer.  Time  *)
(* is explicit: m.q is the engine's heap, kept as the sequence of pending    *)
(* continuations ordered by (time, creation order) with delays relative to   *)
(* now (property C01: equal timestamps are delivered in creation order), so  *)
(* the machine is deterministic once the scripts are fixed.  In              *)
(* model-checking mode (WalMC.tla) TLC chooses the scripts step by step; in  *)
(* trace mode (WalTrace.tla) they come from a recorded real execution.       *)
(*                                                                           *)
(* Crash is enabled in EVERY state of phase "run" (WalMC!Crash): every       *)
(* position between two deliveries of every interleaving is a crash point.   *)
(*                                                                           *)
(* Deviations (m.cfg.dev).  Absent = the design that satisfies the contract. *)
(*  (Repository state: the three "what the code did" deviations below were   *)
(*  real defects, repaired in /repo by ea0d52f, 0423f12, 5d617c0; the        *)
(*  harness switches a deviation on only while known_findings lists it open.)*)
(*  "truncate_bound_read_after_delay"  (what the code did) _flush_memtable   *)
(*     truncates the log up to next_sequence-1 read AFTER the SSTable write  *)
(*     delay: entries appended meanwhile (their data is in the NEW memtable  *)
(*     or still on its way to it) are dropped from the log.                  *)
(*  "truncate_bound_at_rotation"  the obvious but insufficient repair: the   *)
(*     bound next_sequence-1 is read when the memtable is rotated; appends   *)
(*     in flight at that moment (logged, not yet applied to a memtable) land *)
(*     in the new memtable and are still truncated.                          *)
(*     Design (Dev = {}): bound = (lowest in-flight sequence) - 1 at         *)
(*     rotation, next_sequence-1 if nothing is in flight.                    *)
(*  "inflight_counted_not_tracked"  the in-flight appends are only COUNTED   *)
(*     and the bound is next_sequence - 1 - count, which assumes they are    *)
(*     the newest log entries.  Under the batch / periodic policies a later  *)
(*     append that skips the sync overtakes an earlier one still in its      *)
(*     sync; if its landing fills the memtable, the rotation truncates the   *)
(*     overtaken (older, still in flight) entry.                             *)
(*  "compaction_concurrent_install"  (what the code did, shared with C14)    *)
(*     _compact is not serialised: a second _compact may start (from another *)
(*     writer's flush install) while one is waiting for its write latency.   *)
(*     Both select overlapping inputs; at install time the overlap set       *)
(*     chosen earlier may already have been replaced (tables removed "if     *)
(*     present"), so (a) a level >= 1 ends up holding one key in two tables  *)
(*     and the next compaction into it, which fills in the overlapping       *)
(*     tables OLDEST first with "first one wins", re-emits the older value   *)
(*     as the newest table; (b) a delete marker is dropped at the deepest    *)
(*     level although an older value of the key survives in a table the      *)
(*     compaction did not merge.  Either way an overwritten / deleted value  *)
(*     is readable again (with or without a crash).  Design: one compaction  *)
(*     at a time (a _compact that finds one in flight returns), overlapping  *)
(*     tables filled in newest first.                                        *)
(*  "flush_clears_before_install"  (what the code did, shared with C14)      *)
(*     Memtable.flush() empties the rotated memtable at flush start.         *)
(*     Harmless for C15 (crash() drops immutable memtables anyway).          *)
(*  "crash_drops_synced_tail"  crash keeps seq < synced_up_to.               *)
(*  "recover_newest_first"  recovery replays the log newest entry first.     *)
(*  "recover_tombstone_as_value"  a replayed delete marker loses its         *)
(*     identity and reads back as a value.                                   *)
(*  "recover_consumes_log"  recovery builds a fresh memtable and empties the *)
(*     log, so a second recovery reads differently.                          *)
EXTENDS Integers, Sequences, FiniteSets, TLC, WalContract

VARIABLES m,        \* machine state (record, see InitM)
          script    \* [1..NW -> Seq([gap, kind, key])]
vars == <<m, script>>

STOP == -1          \* "gap" value meaning: the writer's script ends here

Max2(a, b) == IF a >= b THEN a ELSE b
Min2(a, b) == IF a <= b THEN a ELSE b
Put(f, k, v) == [x \in DOMAIN f \cup {k} |-> IF x = k THEN v ELSE f[x]]
Restrict(f, S) == [x \in DOMAIN f \cap S |-> f[x]]
Over(f, g) == [x \in DOMAIN f \cup DOMAIN g |-> IF x \in DOMAIN g THEN g[x] ELSE f[x]]   \* g overrides f
Fill(f, g) == Over(g, f)                                                              \* f wins
Size(f) == Cardinality(DOMAIN f)
Rev(s) == [i \in 1..Len(s) |-> s[Len(s) + 1 - i]]
Pow(b, e) == IF e = 0 THEN 1 ELSE IF e = 1 THEN b ELSE IF e = 2 THEN b * b ELSE b * b * b
Pages(n) == Max2(1, n \div 16)
MinOf(S) == CHOOSE x \in S : \A y \in S : x <= y

\* ---------------------------------------------------------------------------
\* machine

Cl0 == [pc |-> "start", n |-> 0, o |-> 0, kind |-> "", key |-> 0, val |-> 0, seq |-> 0, mid |-> 0,
        fid |-> 0, fd |-> <<>>, bound |-> 0, sl |-> 0, tl |-> 0, sel |-> {}, ovl |-> {}, out |-> <<>>, oid |-> 0]

\* cfg = [nw, nk, memsize, policy, batch, period, WL, SL, ML, FL, strat, thr, base, ratio, maxlev, dev]
InitM(cfg) ==
    [cfg |-> cfg, ev |-> 0, phase |-> "run",
     q |-> [w \in 1..cfg.nw |-> [w |-> w, d |-> 0]],      \* the writers' start events, all at t = 0
     cl |-> [w \in 1..cfg.nw |-> Cl0],
     ent |-> <<>>, next |-> 1, synced |-> 0, wss |-> 0, age |-> 0,
     mem |-> <<>>, memid |-> 1, imm |-> <<>>, lv |-> [i \in 1..cfg.maxlev |-> <<>>], nid |-> 2, ncomp |-> 0,
     ops |-> <<>>, ret |-> {}, dur |-> 0, r1 |-> <<>>, r2 |-> <<>>]

DevOn(mm, d) == d \in mm.cfg.dev
KeysOf(mm) == 1..mm.cfg.nk

\* --- the engine's heap ---------------------------------------------------------
\* a continuation created now for `now + d` goes behind every pending one due at or before that
Insert(q, e) ==
    LET pos == Cardinality({ i \in 1..Len(q) : q[i].d <= e.d })
    IN SubSeq(q, 1, pos) \o <<e>> \o SubSeq(q, pos + 1, Len(q))
Advance(q) == [i \in 1..(Len(q) - 1) |-> [q[i + 1] EXCEPT !.d = @ - q[1].d]]

HeadW(mm) == mm.q[1].w
HeadPc(mm) == mm.cl[HeadW(mm)].pc

\* pop the head delivery: the clock moves by its delay (only the periodic policy looks at the clock)
Pop(mm) ==
    [mm EXCEPT !.q = Advance(mm.q), !.ev = @ + 1,
               !.age = IF mm.cfg.policy = "periodic" THEN Min2(mm.cfg.period, @ + mm.q[1].d) ELSE 0]

Yield(mm, w, pc, d) == [mm EXCEPT !.cl[w].pc = pc, !.q = Insert(mm.q, [w |-> w, d |-> d])]

\* the operation's generator returned: control is back in the writer's loop, which needs its next gap
Ret(mm, w) ==
    [mm EXCEPT !.ret = @ \cup {mm.cl[w].o}, !.cl[w] = [Cl0 EXCEPT !.pc = "next", !.n = mm.cl[w].n + 1]]
\* the writer's loop: `yield gap` before the next operation, or the script is exhausted
Resume(mm, w, g) ==
    IF g = STOP THEN [mm EXCEPT !.cl[w].pc = "done"] ELSE Yield(mm, w, "gap", g)

\* --- compaction strategies -----------------------------------------------------
RECURSIVE KeyCount(_, _)
KeyCount(level, i) == IF i = 0 THEN 0 ELSE KeyCount(level, i - 1) + Size(level[i].d)
RECURSIVE Total(_, _)
Total(lv, i) == IF i = 0 THEN 0 ELSE Total(lv, i - 1) + Len(lv[i])
OverLimit(cfg, lv, i) == KeyCount(lv[i], Len(lv[i])) > cfg.base * Pow(cfg.ratio, i - 1)

ShouldCompact(cfg, lv) ==
    CASE cfg.strat = "st" -> \E i \in 1..Len(lv) : Len(lv[i]) >= cfg.thr
      [] cfg.strat = "lv" -> Len(lv[1]) >= cfg.thr \/ \E i \in 2..Len(lv) : OverLimit(cfg, lv, i)
      [] cfg.strat = "fifo" -> Total(lv, Len(lv)) > cfg.thr

\* source level (1-based), 0 = nothing to compact
SelectLevel(cfg, lv) ==
    CASE cfg.strat = "st" ->
           LET best == CHOOSE i \in 1..Len(lv) :
                          /\ \A j \in 1..Len(lv) : Len(lv[j]) <= Len(lv[i])
                          /\ \A j \in 1..(i - 1) : Len(lv[j]) < Len(lv[i])
           IN IF Len(lv[best]) = 0 THEN 0 ELSE best
      [] cfg.strat = "lv" ->
           IF Len(lv[1]) >= cfg.thr THEN 1
           ELSE LET over == { i \in 2..Len(lv) : OverLimit(cfg, lv, i) }
                IN IF over # {} THEN MinOf(over)
                   ELSE IF Len(lv[1]) > 0 THEN 1 ELSE 0
      [] cfg.strat = "fifo" ->
           LET ne == { i \in 1..Len(lv) : Len(lv[i]) > 0 }
           IN IF ne = {} THEN 0 ELSE CHOOSE i \in ne : \A j \in ne : i >= j

MinK(d) == CHOOSE x \in DOMAIN d : \A y \in DOMAIN d : x <= y
MaxK(d) == CHOOSE x \in DOMAIN d : \A y \in DOMAIN d : x >= y
Overlaps(a, b) == DOMAIN a # {} /\ DOMAIN b # {} /\ MinK(a) <= MaxK(b) /\ MinK(b) <= MaxK(a)

RECURSIVE MergeOldToNew(_, _)          \* later in the list wins
MergeOldToNew(ssts, i) == IF i = 0 THEN <<>> ELSE Over(MergeOldToNew(ssts, i - 1), ssts[i].d)
RECURSIVE FillInOrder(_, _, _)         \* earlier in `ssts` wins, never overrides acc
FillInOrder(acc, ssts, i) == IF i > Len(ssts) THEN acc ELSE FillInOrder(Fill(acc, ssts[i].d), ssts, i + 1)
Ids(s) == { s[i].id : i \in 1..Len(s) }
Without(s, ids) == LET keep(x) == x.id \notin ids IN SelectSeq(s, keep)

\* --- write-ahead log -------------------------------------------------------------
ShouldSync(mm) ==
    CASE mm.cfg.policy = "every" -> TRUE
      [] mm.cfg.policy = "batch" -> mm.wss >= mm.cfg.batch
      [] mm.cfg.policy = "periodic" -> mm.age >= mm.cfg.period

Truncate(ent, upTo) == LET keep(e) == e.seq > upTo IN SelectSeq(ent, keep)

\* sequences logged by an append that has not yet reached its memtable put
InFlight(mm) == { mm.cl[x].seq : x \in { y \in 1..mm.cfg.nw : mm.cl[y].pc \in {"wr", "sy"} } }

\* --- segments of put / delete ------------------------------------------------------
\* put()/delete() up to the first yield of wal.append: bookkeeping, sequence number, log entry
Begin(mm, w, kind, key) ==
    LET o == Len(mm.ops) + 1
        seq == mm.next
        val == IF kind = "put" THEN o ELSE TOMB
        m1 == [mm EXCEPT !.ops = Append(@, [w |-> w, kind |-> kind, key |-> key, val |-> val, seq |-> seq,
                                           bef |-> mm.ret]),
                         !.ent = Append(@, [seq |-> seq, key |-> key, val |-> val]),
                         !.next = @ + 1, !.wss = @ + 1,
                         !.cl[w].o = o, !.cl[w].kind = kind, !.cl[w].key = key, !.cl[w].val = val,
                         !.cl[w].seq = seq]
    IN Yield(m1, w, "wr", mm.cfg.WL)

\* Memtable.put up to its yield: the value is in the active memtable (captured: mid)
MemPut(mm, w) ==
    Yield([mm EXCEPT !.mem = Put(@, mm.cl[w].key, mm.cl[w].val), !.cl[w].mid = mm.memid], w, "mp", mm.cfg.ML)

\* after the write latency: the policy decides
AfterWrite(mm, w) == IF ShouldSync(mm) THEN Yield(mm, w, "sy", mm.cfg.SL) ELSE MemPut(mm, w)

\* after the sync latency: this append's sequence is durable (ghost dur: independent of `synced`)
Synced(mm, w) ==
    MemPut([mm EXCEPT !.synced = mm.cl[w].seq, !.dur = Max2(@, mm.cl[w].seq), !.wss = 0, !.age = 0], w)

\* _compact(): select, merge, and (if there is output) wait for the write latency
CompactStart(mm, w) ==
    LET cfg == mm.cfg
        sl == SelectLevel(cfg, mm.lv)
        busy == \E x \in 1..cfg.nw : x # w /\ mm.cl[x].pc = "co"
    IN IF sl = 0 \/ (busy /\ ~DevOn(mm, "compaction_concurrent_install")) THEN Ret(mm, w)
       ELSE LET sel == mm.lv[sl]
                tl == Min2(sl + 1, cfg.maxlev)
                m0 == MergeOldToNew(sel, Len(sel))
                touches(t) == \E i \in 1..Len(sel) : Overlaps(t.d, sel[i].d)
                ovl == IF tl = sl THEN <<>> ELSE SelectSeq(mm.lv[tl], touches)
                m1 == IF DevOn(mm, "compaction_concurrent_install") THEN FillInOrder(m0, ovl, 1)
                      ELSE FillInOrder(m0, Rev(ovl), 1)
                m2 == IF tl = cfg.maxlev THEN Restrict(m1, { k \in DOMAIN m1 : m1[k] # TOMB }) ELSE m1
            IN IF DOMAIN m2 = {}
               THEN Ret([mm EXCEPT !.ncomp = @ + 1], w)
               ELSE Yield([mm EXCEPT !.nid = @ + 1, !.cl[w].sel = Ids(sel), !.cl[w].ovl = Ids(ovl),
                                     !.cl[w].out = m2, !.cl[w].oid = mm.nid, !.cl[w].sl = sl, !.cl[w].tl = tl],
                          w, "co", Pages(Size(m2)) * cfg.FL)

CompactInstall(mm, w) ==
    LET k == mm.cl[w]
        lv1 == [mm.lv EXCEPT ![k.sl] = Without(@, k.sel)]
        lv2 == [lv1 EXCEPT ![k.tl] = Append(Without(@, k.ovl), [id |-> k.oid, d |-> k.out])]
    IN Ret([mm EXCEPT !.lv = lv2, !.ncomp = @ + 1], w)

\* _flush_memtable(): rotate, build the SSTable, wait for the write latency
FlushStart(mm, w) ==
    IF Size(mm.mem) = 0 THEN Ret(mm, w)
    ELSE LET kept == IF DevOn(mm, "flush_clears_before_install") THEN <<>> ELSE mm.mem
             infl == InFlight(mm)
             bound == IF DevOn(mm, "truncate_bound_at_rotation") \/ infl = {} THEN mm.next - 1
                      ELSE IF DevOn(mm, "inflight_counted_not_tracked") THEN mm.next - 1 - Cardinality(infl)
                      ELSE MinOf(infl) - 1
         IN Yield([mm EXCEPT !.imm = Append(@, [id |-> mm.memid, d |-> kept]), !.mem = <<>>,
                             !.memid = mm.nid + 1, !.nid = mm.nid + 2,
                             !.cl[w].fid = mm.nid, !.cl[w].fd = mm.mem, !.cl[w].mid = mm.memid,
                             !.cl[w].bound = bound],
                  w, "fl", Pages(Size(mm.mem)) * mm.cfg.FL)

\* after the SSTable write delay: install in L0, drop the immutable memtable, truncate the log
FlushInstall(mm, w) ==
    LET k == mm.cl[w]
        notme(x) == x.id # k.mid
        bound == IF DevOn(mm, "truncate_bound_read_after_delay") THEN mm.next - 1 ELSE k.bound
        m1 == [mm EXCEPT !.lv[1] = Append(@, [id |-> k.fid, d |-> k.fd]), !.imm = SelectSeq(@, notme),
                         !.ent = Truncate(@, bound)]
    IN IF ShouldCompact(m1.cfg, m1.lv) THEN CompactStart(m1, w) ELSE Ret(m1, w)

\* after Memtable.put's latency: `return self.is_full` of the captured memtable; a flush is started only
\* if that memtable is still the active one (`is_full and memtable is self._memtable`).  The code before
\* 5d617c0 had no identity test but emptied the rotated memtable at flush start, so a rotated memtable was
\* never full either: the same rule describes both.
MemPutDone(mm, w) ==
    IF mm.cl[w].mid = mm.memid /\ Size(mm.mem) >= mm.cfg.memsize THEN FlushStart(mm, w) ELSE Ret(mm, w)

\* the segment run by the head delivery (pc "gap" needs the operation, see Begin)
Seg(mm, w) ==
    CASE mm.cl[w].pc = "start" -> [mm EXCEPT !.cl[w].pc = "next"]
      [] mm.cl[w].pc = "wr" -> AfterWrite(mm, w)
      [] mm.cl[w].pc = "sy" -> Synced(mm, w)
      [] mm.cl[w].pc = "mp" -> MemPutDone(mm, w)
      [] mm.cl[w].pc = "fl" -> FlushInstall(mm, w)
      [] mm.cl[w].pc = "co" -> CompactInstall(mm, w)

\* --- read path, crash, recovery ------------------------------------------------------
OutVal(v) == IF v = TOMB THEN ABSENT ELSE v

RECURSIVE ImmLookup(_, _, _)
ImmLookup(imm, i, key) ==     \* reversed(immutable_memtables): first hit
    IF i = 0 THEN [hit |-> FALSE, v |-> 0]
    ELSE IF key \in DOMAIN imm[i].d THEN [hit |-> TRUE, v |-> imm[i].d[key]] ELSE ImmLookup(imm, i - 1, key)

RECURSIVE SstLookup(_, _, _, _)
SstLookup(lv, li, ix, key) ==  \* for level in levels: for sst in reversed(level): first hit
    IF li > Len(lv) THEN ABSENT
    ELSE IF ix = 0 THEN SstLookup(lv, li + 1, IF li + 1 <= Len(lv) THEN Len(lv[li + 1]) ELSE 0, key)
    ELSE IF key \in DOMAIN lv[li][ix].d THEN OutVal(lv[li][ix].d[key])
    ELSE SstLookup(lv, li, ix - 1, key)

GetSync(mm, key) ==
    IF key \in DOMAIN mm.mem THEN OutVal(mm.mem[key])
    ELSE LET r == ImmLookup(mm.imm, Len(mm.imm), key) IN
         IF r.hit THEN OutVal(r.v) ELSE SstLookup(mm.lv, 1, Len(mm.lv[1]), key)

ReadAll(mm) == [k \in KeysOf(mm) |-> GetSync(mm, k)]

\* LSMTree.crash() + WriteAheadLog.crash(); the suspended generators are abandoned
CrashM(mm) ==
    LET keep(e) == IF DevOn(mm, "crash_drops_synced_tail") THEN e.seq < mm.synced ELSE e.seq <= mm.synced
    IN [mm EXCEPT !.phase = "crashed", !.mem = <<>>, !.imm = <<>>,
                  !.ent = SelectSeq(@, keep), !.wss = 0, !.age = 0, !.q = <<>>,
                  !.cl = [w \in 1..mm.cfg.nw |-> [Cl0 EXCEPT !.pc = "dead"]]]

RECURSIVE Replay(_, _, _)
Replay(mem, ent, i) == IF i > Len(ent) THEN mem ELSE Replay(Put(mem, ent[i].key, ent[i].val), ent, i + 1)

\* LSMTree.recover_from_crash(): replay the surviving log, in sequence order, into the memtable
RecoverM(mm) ==
    LET e0 == IF DevOn(mm, "recover_newest_first") THEN Rev(mm.ent) ELSE mm.ent
        e1 == IF DevOn(mm, "recover_tombstone_as_value")
              THEN [i \in 1..Len(e0) |-> [e0[i] EXCEPT !.val = IF @ = TOMB THEN -2 ELSE @]] ELSE e0
        base == IF DevOn(mm, "recover_consumes_log") THEN <<>> ELSE mm.mem
        m1 == [mm EXCEPT !.mem = Replay(base, e1, 1),
                         !.ent = IF DevOn(mm, "recover_consumes_log") THEN <<>> ELSE @]
    IN IF mm.phase = "crashed" THEN [m1 EXCEPT !.phase = "rec1", !.r1 = ReadAll(m1)]
       ELSE [m1 EXCEPT !.phase = "rec2", !.r2 = ReadAll(m1)]

\* what get_sync would read after crash + one / two recoveries, as a function of a run state
PostCrash1(mm) == RecoverM(CrashM(mm))
PostCrash2(mm) == RecoverM(PostCrash1(mm))

\* --- contract on the model's own state -------------------------------------------------
InvNeverWritten == m.phase \in {"rec1", "rec2"} => \A k \in KeysOf(m) : NeverWrittenOK(m.ops, k, m.r1[k])
InvDurable == m.phase \in {"rec1", "rec2"} => \A k \in KeysOf(m) : DurableOK(m.ops, m.dur, k, m.r1[k])
InvNoResurrect == m.phase \in {"rec1", "rec2"} => \A k \in KeysOf(m) : NoResurrectOK(m.ops, m.dur, k, m.r1[k])
InvIdempotent == m.phase = "rec2" => IdempotentOK(m.r1, m.r2)
\* model sanity (not contract): synced_up_to never lags behind a completed sync (hypothesis
\* "sync_marks_own_seq_only": `synced_up_to = seq` could move backwards under concurrent appends)
InvSyncMonotone == m.phase = "run" => m.synced = m.dur
===========================================================================
