----------------------------- MODULE Preempt -----------------------------
(* C09, industrial/preemptible_resource.py: PreemptibleResource with       *)
(* priorities (lower value = more important) and preemption.                *)
(* Worker processes: acquire(amount, priority, preempt); hold d; release(). *)
(* The holder releases its grant unconditionally when its hold is over,     *)
(* also when the grant was taken away in the meantime (try/finally style    *)
(* clean-up; PreemptibleGrant.release is documented as idempotent).         *)
(* One action = one engine delivery to a worker process:                    *)
(*   Start(w)   acquire: fits -> granted; else, with preempt, evict active  *)
(*              grants of strictly lower importance, least important first, *)
(*              until it fits (_try_preempt: the victim's capacity returns  *)
(*              to `avail`, the victim's grant is marked preempted AND      *)
(*              released); fits now -> granted; else queued by (priority,   *)
(*              arrival)                                                    *)
(*   Resume(w)  the process observes its grant and starts its hold          *)
(*   Finish(w)  hold over: grant.release() -- no-op for an evicted grant;   *)
(*              otherwise capacity returns and the queue head(s) that fit   *)
(*              are granted (_wake_waiters, priority order, head-of-line)   *)
(*   Tick       clock jumps to the next due delivery                        *)
(* Deviation "preempted_grant_releasable" (hypothetical): _do_preempt does  *)
(* not mark the grant released, so the victim's release() returns the       *)
(* capacity a second time.                                                  *)
EXTENDS Integers, Sequences, FiniteSets, TLC

CONSTANTS NW, Caps, MaxPrio, MaxArr, Holds, Dev

W == 1..NW
INF == 99

VARIABLES sc, now, pc, due, r, h
vars == <<sc, now, pc, due, r, h>>
\* sc: [cap, amt, prio, pre, arr, hold];  pc: "init"|"blocked"|"woken"|"holding"|"done"
\* r: the resource [avail, act (active grants, in grant order), waitq (sorted by priority, then arrival)]
\* h: [evicted (workers whose grant was taken away), term]

Scenarios == UNION { [cap : {c}, amt : [W -> 1..c], prio : [W -> 0..MaxPrio], pre : [W -> BOOLEAN],
                      arr : [W -> 0..MaxArr], hold : [W -> Holds]] : c \in Caps }

Init ==
    /\ sc \in Scenarios
    /\ now = 0
    /\ pc = [w \in W |-> "init"]
    /\ due = [w \in W |-> sc.arr[w]]
    /\ r = [avail |-> sc.cap, act |-> <<>>, waitq |-> <<>>]
    /\ h = [evicted |-> {}, term |-> FALSE]

SeqSet(s) == { s[i] : i \in 1..Len(s) }
Remove(s, x) == SelectSeq(s, LAMBDA e : e # x)

\* evict candidates (strictly less important than w), least important first, until `need` fits
RECURSIVE Evict(_, _, _, _)
Evict(rr, ev, w, need) ==
    LET cand == { g \in SeqSet(rr.act) : sc.prio[g] > sc.prio[w] } IN
    IF rr.avail >= need \/ cand = {} THEN [r |-> rr, ev |-> ev]
    ELSE LET g == CHOOSE g \in cand : \A x \in cand : sc.prio[g] >= sc.prio[x]
         IN Evict([rr EXCEPT !.avail = @ + sc.amt[g], !.act = Remove(@, g)], ev \cup {g}, w, need)

\* insert into the priority queue: behind everybody at least as important
Insert(q, w) ==
    LET k == Cardinality({ i \in 1..Len(q) : sc.prio[q[i]] <= sc.prio[w] })
    IN SubSeq(q, 1, k) \o <<w>> \o SubSeq(q, k + 1, Len(q))

RECURSIVE Wake(_, _)
Wake(rr, acc) ==
    IF rr.waitq = <<>> THEN [r |-> rr, woken |-> acc]
    ELSE LET x == Head(rr.waitq) IN
         IF rr.avail >= sc.amt[x]
         THEN Wake([rr EXCEPT !.avail = @ - sc.amt[x], !.waitq = Tail(@), !.act = Append(@, x)], acc \cup {x})
         ELSE [r |-> rr, woken |-> acc]

Start(w) ==
    /\ pc[w] = "init" /\ due[w] = now
    /\ LET a == sc.amt[w]
           e == IF r.avail < a /\ sc.pre[w] THEN Evict(r, {}, w, a) ELSE [r |-> r, ev |-> {}]
       IN /\ h' = [h EXCEPT !.evicted = @ \cup e.ev]
          /\ IF e.r.avail >= a
             THEN /\ r' = [e.r EXCEPT !.avail = @ - a, !.act = Append(@, w)]
                  /\ pc' = [pc EXCEPT ![w] = "woken"] /\ due' = due
             ELSE /\ r' = [e.r EXCEPT !.waitq = Insert(@, w)]
                  /\ pc' = [pc EXCEPT ![w] = "blocked"] /\ due' = [due EXCEPT ![w] = INF]
    /\ UNCHANGED <<sc, now>>

Resume(w) ==
    /\ pc[w] = "woken" /\ due[w] = now
    /\ pc' = [pc EXCEPT ![w] = "holding"] /\ due' = [due EXCEPT ![w] = now + sc.hold[w]]
    /\ UNCHANGED <<sc, now, r, h>>

Finish(w) ==
    /\ pc[w] = "holding" /\ due[w] = now
    /\ LET noop == w \in h.evicted /\ "preempted_grant_releasable" \notin Dev
           res == IF noop THEN [r |-> r, woken |-> {}]
                  ELSE Wake([r EXCEPT !.avail = @ + sc.amt[w], !.act = Remove(@, w)], {})
       IN /\ r' = res.r
          /\ pc' = [x \in W |-> IF x = w THEN "done" ELSE IF x \in res.woken THEN "woken" ELSE pc[x]]
          /\ due' = [x \in W |-> IF x = w THEN INF ELSE IF x \in res.woken THEN now ELSE due[x]]
    /\ UNCHANGED <<sc, now, h>>

Tick ==
    /\ \A w \in W : due[w] # now
    /\ \E w \in W : due[w] < INF
    /\ now' = CHOOSE t \in { due[w] : w \in W } : \A w \in W : t <= due[w]
    /\ UNCHANGED <<sc, pc, due, r, h>>

Quiet == \A w \in W : due[w] = INF
Term == Quiet /\ ~h.term /\ h' = [h EXCEPT !.term = TRUE] /\ UNCHANGED <<sc, now, pc, due, r>>
Next == (\E w \in W : Start(w) \/ Resume(w) \/ Finish(w)) \/ Tick \/ Term
Spec == Init /\ [][Next]_vars /\ WF_vars(Next)

--------------------------------------------------------------------------
(* Contract (counting clauses; the queueing discipline is by priority, not arrival) *)
\* holders = granted, not released, not evicted (the evicted worker no longer holds anything)
Holders == { w \in W : pc[w] \in {"woken", "holding"} /\ w \notin h.evicted }
RECURSIVE SumA(_)
SumA(S) == IF S = {} THEN 0 ELSE LET x == CHOOSE x \in S : TRUE IN sc.amt[x] + SumA(S \ {x})
InvNoOverAdmit == SumA(Holders) <= sc.cap
InvConservation == SumA(Holders) + r.avail = sc.cap
InvAvailBound == r.avail >= 0 /\ r.avail <= sc.cap
\* at the end everything is back
InvAllReturned == (\A w \in W : pc[w] = "done") => r.avail = sc.cap
EventuallyQuiet == <>h.term
===========================================================================
