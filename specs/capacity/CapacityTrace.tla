-------------------------- MODULE CapacityTrace --------------------------
(* Trace validation for C09 (counted primitives).                           *)
(* Input: IOEnv.TRACE_FILE = JSON array of executions recorded from the     *)
(* real primitives inside a real Simulation (harness/families/c09_world.py):*)
(*   [ id, kind ("fifo"|"rwlock"|"bulkhead"|"try"), cap, qmax, nr,          *)
(*     pl   TRUE iff the primitive-level grant is observable (Resource:     *)
(*          future.is_resolved; limiters: return value); otherwise the      *)
(*          grant is seen when the acquiring process resumes ("got"),       *)
(*     full TRUE: all clauses + model following; FALSE: counting clauses    *)
(*          only (ThreadPool's worker slots, PreemptibleResource with        *)
(*          priorities/preemption, whose queueing discipline is not FIFO),   *)
(*     log  << <<op, r, a, m, flag, avail, nwait>>, ... >> ]                 *)
(* r = request id (1..nr, in request order), a = amount, m = mode,          *)
(* avail / nwait = the primitive's public counters sampled after the step.  *)
(*   "req"   r calls acquire(a); flag 0 = granted at once, 1 = queued        *)
(*           (the public waiter count went up / the future is unresolved),  *)
(*           2 = refused (bulkhead full, limiter full)                       *)
(*   "grant" primitive-level grant of r observed (only when pl)             *)
(*   "got"   the acquiring process of r continues past its acquire           *)
(*   "rel"   r releases                                                      *)
(*   "xrel"  r called release() again on a grant that was already released  *)
(*           or taken away by preemption (documented no-op)                  *)
(*   "tmo"   queued request r gave up (bulkhead queue timeout)               *)
(*   "poll"  the engine delivered an event to the process of r while r was  *)
(*           blocked, and r stayed blocked                                   *)
(*   "d"     end of an engine delivery that produced records                 *)
(*   "q"     the clock is about to advance (state at the end of an instant)  *)
(*   "end"   the run ended normally (event heap exhausted)                   *)
(* Every record is (1) fed to the implementation-shaped model (CapOps) whose *)
(* counters must equal the sampled ones (else MODEL: drift) and (2) judged   *)
(* by the contract clauses of C09 on the observed data alone (PROP:).        *)
(* One verdict line per trace: <<"V", id, verdict, position>>.               *)
EXTENDS CapOps, TLC, Json, IOUtils

Traces == JsonDeserialize(IOEnv.TRACE_FILE)
NT == Len(Traces)

VARIABLES ti, l, p, mh, o, v
vars == <<ti, l, p, mh, o, v>>

Tr == Traces[ti]
R(T) == 1..T.nr

P0(T) == NewPrim(T.kind, T.cap, T.qmax, {})
MH0(T) == [r \in R(T) |-> 0]
O0(T) == [am |-> [r \in R(T) |-> 0], md |-> [r \in R(T) |-> "x"], ph |-> [r \in R(T) |-> "idle"],
          border |-> <<>>, streak |-> 0, la |-> T.cap]
V0 == [prop |-> "", ppos |-> 0, drift |-> "", dpos |-> 0]
Dummy == [id |-> 0, kind |-> "fifo", cap |-> 1, qmax |-> 0, nr |-> 0, pl |-> FALSE, full |-> TRUE, log |-> <<>>]
T1 == IF NT = 0 THEN Dummy ELSE Traces[1]

Init == ti = 1 /\ l = 1 /\ p = P0(T1) /\ mh = MH0(T1) /\ o = O0(T1) /\ v = V0

RECURSIVE Sum(_, _)
Sum(f, S) == IF S = {} THEN 0 ELSE LET x == CHOOSE x \in S : TRUE IN f[x] + Sum(f, S \ {x})

Held(oo, T) == { r \in R(T) : oo.ph[r] = "held" }

\* ---- observed state update ------------------------------------------------
ObsStep(oo, T, rec) ==
    LET op == rec[1]  r == rec[2]
        o1 == [oo EXCEPT !.streak = IF op = "poll" THEN @ + 1 ELSE 0, !.la = rec[6]]   \* la = last sampled avail
    IN CASE op = "req" ->
              [o1 EXCEPT !.am[r] = rec[3], !.md[r] = rec[4],
                         !.ph[r] = IF rec[5] = 2 THEN "gone" ELSE "wait",
                         !.border = IF rec[5] = 1 THEN Append(@, r) ELSE @]
         [] op = "grant" -> IF T.pl THEN [o1 EXCEPT !.ph[r] = "held"] ELSE o1
         [] op = "got" -> IF T.pl THEN o1 ELSE [o1 EXCEPT !.ph[r] = "held"]
         [] op = "rel" -> [o1 EXCEPT !.ph[r] = "done"]
         [] op = "tmo" -> [o1 EXCEPT !.ph[r] = "gone"]
         [] OTHER -> o1

\* ---- contract (C09 clauses on observed data only) -------------------------
BlockedWaiting(oo) == { i \in 1..Len(oo.border) : oo.ph[oo.border[i]] = "wait" }
GrantedIdx(oo) == { i \in 1..Len(oo.border) : oo.ph[oo.border[i]] \in {"held", "done"} }
FifoOk(oo) == \A i \in BlockedWaiting(oo) : \A j \in GrantedIdx(oo) : j < i
\* r was just re-delivered and is still blocked although a later-queued request has been granted
PolledBehind(oo, r) == \E i \in BlockedWaiting(oo) : oo.border[i] = r /\ \E j \in GrantedIdx(oo) : j > i
OldestWaitingIdx(oo) == CHOOSE i \in BlockedWaiting(oo) : \A k \in BlockedWaiting(oo) : i <= k
Need(oo, T, r) == IF T.kind = "rwlock" /\ oo.md[r] = "r" THEN 1 ELSE oo.am[r]

Contract(o0, oo, T, rec) ==
    LET op == rec[1]  r == rec[2]  avail == rec[6]
        H == Held(oo, T)
        held == Sum(oo.am, H)
        frozen == op = "poll" /\ oo.streak > 2 * T.nr + 2
        \* points at which the observed holders are exactly the primitive's holders: end of an instant,
        \* end of a delivery when grants are observed at primitive level, and a detected poll cycle
        \* (every blocked process has looked at its wake-up flag since the last change)
        boundary == op \in {"q", "end"} \/ (op = "d" /\ T.pl) \/ frozen
    IN IF op = "grant" /\ T.pl /\ o0.ph[r] = "held" THEN "PROP:granted_twice"
       ELSE IF op = "xrel" /\ avail # o0.la THEN "PROP:repeated_release_returns_capacity"
       ELSE IF held > T.cap THEN "PROP:over_admit"
       ELSE IF T.kind = "rwlock" /\ \E w \in H : oo.md[w] = "w" /\ H # {w} THEN "PROP:writer_not_exclusive"
       ELSE IF avail < 0 THEN "PROP:available_negative"
       ELSE IF avail > T.cap THEN "PROP:available_above_capacity"
       ELSE IF held + avail > T.cap THEN "PROP:held_plus_available_above_capacity"
       ELSE IF boundary /\ held + avail # T.cap THEN "PROP:held_plus_available_below_capacity"
       ELSE IF T.full /\ boundary /\ ~FifoOk(oo) THEN "PROP:fifo_order"
       ELSE IF T.full /\ op = "poll" /\ PolledBehind(oo, r) THEN "PROP:fifo_order"
       ELSE IF T.full /\ boundary /\ BlockedWaiting(oo) # {}
               /\ avail >= Need(oo, T, oo.border[OldestWaitingIdx(oo)])
            THEN "PROP:waiter_not_granted_when_capacity_allows"
       ELSE IF frozen THEN "PROP:clock_frozen_by_waiter"
       ELSE IF T.full /\ op = "end" /\ \E x \in R(T) : oo.ph[x] = "wait" THEN "PROP:waiter_never_served"
       ELSE ""

\* ---- implementation-shaped model following ---------------------------------
SeqSet(s) == { s[i] : i \in 1..Len(s) }
AmtIn(pp, r) == LET i == CHOOSE i \in 1..Len(pp.waitq) : pp.waitq[i][1] = r IN pp.waitq[i][2]

\* returns [p, mh, d]  (d = "" or a MODEL: reason)
ModelStep(pp, hh, oo0, T, rec) ==
    LET op == rec[1]  r == rec[2] IN
    CASE op = "req" ->
           LET a == rec[3]
               res == PAcquire(pp, r, a, rec[4])
               exp == IF res.res = "grant" THEN 0 ELSE IF res.res = "queue" THEN 1 ELSE 2
           IN [p |-> res.p, mh |-> IF res.res = "grant" THEN [hh EXCEPT ![r] = a] ELSE hh,
               d |-> IF exp # rec[5] THEN "MODEL:admission_decision" ELSE ""]
      [] op = "rel" ->
           IF hh[r] = 0 THEN [p |-> pp, mh |-> hh, d |-> "MODEL:release_by_non_holder"]
           ELSE LET res == PRelease(pp, hh[r])
                    ws == SeqSet(res.woken)
                IN [p |-> res.p,
                    mh |-> [x \in DOMAIN hh |-> IF x = r THEN 0 ELSE IF x \in ws THEN AmtIn(pp, x) ELSE hh[x]],
                    d |-> ""]
      [] op = "tmo" ->
           [p |-> PWithdraw(pp, r), mh |-> hh, d |-> IF InQueue(pp, r) THEN "" ELSE "MODEL:timeout_of_unqueued"]
      [] op \in {"grant", "got"} ->
           [p |-> pp, mh |-> hh, d |-> IF hh[r] = 0 THEN "MODEL:grant_not_predicted" ELSE ""]
      [] op = "q" ->
           [p |-> pp, mh |-> hh,
            d |-> IF \E x \in DOMAIN hh : hh[x] > 0 /\ oo0.ph[x] = "wait" THEN "MODEL:grant_not_delivered_in_instant"
                  ELSE ""]
      [] OTHER -> [p |-> pp, mh |-> hh, d |-> ""]

Counters(pp, rec) ==
    IF pp.avail # rec[6] THEN "MODEL:available_counter"
    ELSE IF rec[7] >= 0 /\ Len(pp.waitq) # rec[7] THEN "MODEL:waiter_counter" ELSE ""

Load(i) == /\ p' = P0(Traces[i]) /\ mh' = MH0(Traces[i]) /\ o' = O0(Traces[i]) /\ v' = V0

Finish ==
    /\ PrintT(<<"V", Tr.id, IF v.prop # "" THEN v.prop ELSE IF v.drift # "" THEN v.drift ELSE "ACCEPT",
                IF v.prop # "" THEN v.ppos ELSE IF v.drift # "" THEN v.dpos ELSE l - 1>>)
    /\ ti' = ti + 1 /\ l' = 1
    /\ IF ti < NT THEN Load(ti + 1) ELSE UNCHANGED <<p, mh, o, v>>

StepRec ==
    LET T == Tr
        rec == T.log[l]
        o1 == ObsStep(o, T, rec)
        cv == Contract(o, o1, T, rec)
        ms == IF v.drift = "" /\ T.full THEN ModelStep(p, mh, o1, T, rec) ELSE [p |-> p, mh |-> mh, d |-> ""]
        dv == IF v.drift # "" \/ ~T.full THEN ""
              ELSE IF ms.d # "" THEN ms.d ELSE Counters(ms.p, rec)
    IN /\ o' = o1 /\ p' = ms.p /\ mh' = ms.mh
       /\ v' = [prop |-> cv, ppos |-> IF cv # "" THEN l ELSE 0,
                drift |-> IF v.drift # "" THEN v.drift ELSE dv,
                dpos |-> IF v.drift # "" THEN v.dpos ELSE IF dv # "" THEN l ELSE 0]
       /\ l' = l + 1 /\ ti' = ti

Next ==
    /\ ti <= NT
    /\ IF v.prop # "" \/ l > Len(Tr.log) THEN Finish ELSE StepRec

Spec == Init /\ [][Next]_vars
===========================================================================
