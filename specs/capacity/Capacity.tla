----------------------------- MODULE Capacity -----------------------------
(* C09: workers (generator processes: acquire; hold d; release) competing   *)
(* for one capacity primitive on the event loop.                            *)
(*                                                                          *)
(* A scenario sc gives every worker its amount, mode, arrival instant and   *)
(* hold time; TLC enumerates all scenarios within the bounds and, for each, *)
(* every order in which the engine may deliver the events that are due at   *)
(* the same instant (the real engine picks one of them, FIFO by creation).  *)
(* One action = one delivery of the engine to a worker process:             *)
(*   Start(w)   the start event: the worker calls acquire                   *)
(*              -> granted at once (the process continues in a later        *)
(*                 delivery at the same instant: pre-resolved SimFuture /   *)
(*                 `yield 0.0`), queued (process parked), or refused        *)
(*   Resume(w)  the process observes its grant and starts its hold          *)
(*   Finish(w)  the hold is over: release, wake loop; woken processes are   *)
(*              resumed at the same instant                                 *)
(*   Poll(w)    only with deviation "zero_delay_poll" (sync/mutex.py:160    *)
(*              and siblings): a blocked waiter is not parked but           *)
(*              re-delivered at the same instant; when nothing else is due  *)
(*              at this instant the clock can never advance                 *)
(*   Tick       nothing is due now: the clock jumps to the next due time    *)
(* The contract (the Inv.. predicates at the end) talks about observable    *)
(* things only: who holds how much, the public counter `avail`, request    *)
(* order, grant order, the clock.                                           *)
EXTENDS CapOps, TLC

CONSTANTS NW,       \* number of workers
          Cfgs,     \* set of primitive configurations [kind, cap, qmax, maxamt, maxhold] explored in one run
          MaxArr, Dev

W == 1..NW
INF == 99
Polling == "zero_delay_poll" \in Dev

VARIABLES sc,    \* scenario [cfg, amt, mode, arr, hold : [W -> ...]]
          now,   \* clock
          pc,    \* [W -> "init" | "blocked" | "woken" | "holding" | "done" | "rejected"]
          due,   \* [W -> time of the worker's next delivery, INF = parked / finished]
          p,     \* the primitive (CapOps record)
          h      \* history: [border, granted, gt, frozen, term]
vars == <<sc, now, pc, due, p, h>>

Modes(c) == IF c.kind = "rwlock" THEN {"r", "w"} ELSE {"x"}
ScenariosOf(c) == [cfg : {c}, amt : [W -> 1..c.maxamt], mode : [W -> Modes(c)], arr : [W -> 0..MaxArr],
                   hold : [W -> 0..c.maxhold]]
Scenarios == UNION { ScenariosOf(c) : c \in Cfgs }
Kind == sc.cfg.kind
Cap == sc.cfg.cap
A(w) == IF Kind = "rwlock" THEN (IF sc.mode[w] = "w" THEN Cap ELSE 1) ELSE sc.amt[w]

Init ==
    /\ sc \in Scenarios
    /\ now = 0
    /\ pc = [w \in W |-> "init"]
    /\ due = [w \in W |-> sc.arr[w]]
    /\ p = NewPrim(sc.cfg.kind, sc.cfg.cap, sc.cfg.qmax, Dev)
    /\ h = [border |-> <<>>, granted |-> {}, gt |-> [w \in W |-> -1], frozen |-> FALSE, term |-> FALSE]

SeqSet(s) == { s[i] : i \in 1..Len(s) }

Start(w) ==
    /\ pc[w] = "init" /\ due[w] = now
    /\ LET r == PAcquire(p, w, A(w), sc.mode[w]) IN
       /\ p' = r.p
       /\ CASE r.res = "grant" ->
                 /\ pc' = [pc EXCEPT ![w] = "woken"]
                 /\ due' = due
                 /\ h' = [h EXCEPT !.gt[w] = now]
            [] r.res = "queue" ->
                 /\ pc' = [pc EXCEPT ![w] = "blocked"]
                 /\ due' = [due EXCEPT ![w] = IF Polling THEN now ELSE INF]
                 /\ h' = [h EXCEPT !.border = Append(@, w)]
            [] OTHER ->
                 /\ pc' = [pc EXCEPT ![w] = "rejected"]
                 /\ due' = [due EXCEPT ![w] = INF]
                 /\ h' = h
    /\ UNCHANGED <<sc, now>>

Resume(w) ==
    /\ pc[w] = "woken" /\ due[w] = now
    /\ pc' = [pc EXCEPT ![w] = "holding"]
    /\ due' = [due EXCEPT ![w] = now + sc.hold[w]]
    /\ UNCHANGED <<sc, now, p, h>>

Finish(w) ==
    /\ pc[w] = "holding" /\ due[w] = now
    /\ LET r == PRelease(p, A(w))
           ws == SeqSet(r.woken)
       IN /\ p' = r.p
          /\ pc' = [x \in W |-> IF x = w THEN "done" ELSE IF x \in ws THEN "woken" ELSE pc[x]]
          /\ due' = [x \in W |-> IF x = w THEN INF ELSE IF x \in ws THEN now ELSE due[x]]
          /\ h' = [h EXCEPT !.granted = @ \cup ws,
                            !.gt = [x \in W |-> IF x \in ws THEN now ELSE @[x]]]
    /\ UNCHANGED <<sc, now>>

\* zero-delay poll of a blocked waiter when only such polls are due at this instant:
\* every poll re-creates itself at the same instant, so this state repeats forever
Poll(w) ==
    /\ Polling /\ ~h.frozen
    /\ pc[w] = "blocked" /\ due[w] = now
    /\ \A x \in W : due[x] = now => pc[x] = "blocked"
    /\ h' = [h EXCEPT !.frozen = TRUE]
    /\ UNCHANGED <<sc, now, pc, due, p>>

Tick ==
    /\ \A w \in W : due[w] # now
    /\ \E w \in W : due[w] < INF
    /\ now' = CHOOSE t \in { due[w] : w \in W } : \A w \in W : t <= due[w]
    /\ UNCHANGED <<sc, pc, due, p, h>>

AllOver == \A w \in W : pc[w] \in {"done", "rejected"}
Term == AllOver /\ ~h.term /\ h' = [h EXCEPT !.term = TRUE] /\ UNCHANGED <<sc, now, pc, due, p>>

Next == (\E w \in W : Start(w) \/ Resume(w) \/ Finish(w) \/ Poll(w)) \/ Tick \/ Term
Spec == Init /\ [][Next]_vars /\ WF_vars(Next)

--------------------------------------------------------------------------
(* Contract *)
Holders == { w \in W : pc[w] \in {"woken", "holding"} }     \* granted and not yet released
RECURSIVE SumA(_)
SumA(S) == IF S = {} THEN 0 ELSE LET x == CHOOSE x \in S : TRUE IN A(x) + SumA(S \ {x})

\* (a) never more outstanding amount than the limit; a writer excludes everyone
InvNoOverAdmit ==
    /\ SumA(Holders) <= Cap
    /\ Kind = "rwlock" => \A w \in Holders : sc.mode[w] = "w" => Holders = {w}
\* (b) held plus available equals capacity
InvConservation == SumA(Holders) + p.avail = Cap
\* (c) a release never pushes the counter above capacity (nor an acquire below zero)
InvAvailBound == p.avail >= 0 /\ p.avail <= Cap
\* (d) blocked acquirers are granted in arrival order, each at most once ...
InvFifo ==
    /\ \A i, j \in 1..Len(h.border) : i < j /\ h.border[j] \in h.granted => h.border[i] \in h.granted
    /\ \A i, j \in 1..Len(h.border) : i # j => h.border[i] # h.border[j]
\* ... as soon as capacity allows: after every delivery the oldest blocked acquirer does not fit
Waiting == { w \in W : pc[w] = "blocked" }
OldestWaiting == LET i == CHOOSE i \in 1..Len(h.border) :
                              /\ h.border[i] \in Waiting
                              /\ \A k \in 1..(i - 1) : h.border[k] \notin Waiting
                 IN h.border[i]
InvPrompt == Waiting # {} => p.avail < A(OldestWaiting)
\* (e) waiting costs no activity: the clock is never frozen by a blocked waiter
InvTimePasses == ~h.frozen
\* ... and nobody is left behind when nothing is scheduled any more
InvServed == (\A w \in W : due[w] = INF) => AllOver
\* liveness form of the same clause
EventuallyServed == <>AllOver
===========================================================================
