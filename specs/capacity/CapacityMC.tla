---------------------------- MODULE CapacityMC ----------------------------
(* Configuration sets for model checking Capacity.tla (one TLC run explores *)
(* every configuration of the chosen set).                                  *)
EXTENDS Capacity

C(kind, cap, qmax, maxamt) == [kind |-> kind, cap |-> cap, qmax |-> qmax, maxamt |-> maxamt]

MCQuick == { C("fifo", 1, 0, 1), C("fifo", 2, 0, 2), C("rwlock", 3, 0, 1), C("rwlock", 2, 0, 1),
             C("bulkhead", 1, 1, 1), C("try", 2, 0, 2) }
MCMore == { C("fifo", 3, 0, 3), C("bulkhead", 2, 1, 1), C("bulkhead", 1, 0, 1), C("bulkhead", 1, 2, 1),
            C("try", 3, 0, 3), C("rwlock", 1, 0, 1) }
MCWide == { C("fifo", 2, 0, 2), C("rwlock", 2, 0, 1), C("bulkhead", 1, 1, 1) }
MCFour == { C("fifo", 2, 0, 2), C("rwlock", 4, 0, 1), C("rwlock", 2, 0, 1), C("bulkhead", 2, 1, 1) }
MCSens == { C("fifo", 2, 0, 2) }
MCLive == { C("fifo", 1, 0, 1), C("bulkhead", 1, 1, 1) }
===========================================================================
