---------------------------- MODULE CapacityMC ----------------------------
(* Configuration sets for model checking Capacity.tla (one TLC run explores *)
(* every configuration of the chosen set).                                  *)
EXTENDS Capacity

C(kind, cap, qmax, maxamt, maxhold) ==
    [kind |-> kind, cap |-> cap, qmax |-> qmax, maxamt |-> maxamt, maxhold |-> maxhold]

\* quick tier: hold times {0,1,2} for the richest configuration, {0,1} for the others
MCQuick == { C("fifo", 1, 0, 1, 1), C("fifo", 2, 0, 2, 2), C("rwlock", 3, 0, 1, 1), C("rwlock", 2, 0, 1, 1),
             C("bulkhead", 1, 1, 1, 1), C("try", 2, 0, 2, 1) }
MCFull == { C("fifo", 1, 0, 1, 2), C("fifo", 2, 0, 2, 2), C("rwlock", 3, 0, 1, 2), C("rwlock", 2, 0, 1, 2),
            C("bulkhead", 1, 1, 1, 2), C("try", 2, 0, 2, 2) }
MCMore == { C("fifo", 3, 0, 3, 2), C("bulkhead", 2, 1, 1, 2), C("bulkhead", 1, 0, 1, 2), C("bulkhead", 1, 2, 1, 2),
            C("try", 3, 0, 3, 2), C("rwlock", 1, 0, 1, 2) }
MCWide == { C("fifo", 2, 0, 2, 3), C("rwlock", 2, 0, 1, 3), C("bulkhead", 1, 1, 1, 3) }
MCFour == { C("fifo", 2, 0, 2, 1), C("rwlock", 2, 0, 1, 1), C("bulkhead", 2, 1, 1, 1) }
MCSens == { C("fifo", 2, 0, 2, 1) }
MCLive == { C("fifo", 1, 0, 1, 2), C("bulkhead", 1, 1, 1, 2), C("fifo", 2, 0, 1, 1) }
===========================================================================
