------------------------------ MODULE CapOps ------------------------------
(* Primitive-level operations of the counted capacity primitives (C09),    *)
(* transcribed from                                                         *)
(*   components/resource.py          Resource.acquire / _do_release /       *)
(*                                   _wake_waiters                           *)
(*   components/sync/semaphore.py    try_acquire / acquire / release /      *)
(*                                   _wake_waiters                           *)
(*   components/sync/mutex.py        try_acquire / acquire / release        *)
(*   components/sync/rwlock.py       try_acquire_read/_write, release_*,    *)
(*                                   _wake_waiters                           *)
(*   components/resilience/bulkhead.py handle_event / _forward_request /    *)
(*                                   _enqueue_request / _handle_response /   *)
(*                                   _try_process_queued / _handle_timeout   *)
(*   components/server/concurrency.py Fixed/Dynamic/WeightedConcurrency     *)
(*   components/industrial/preemptible_resource.py (without preemption)     *)
(*                                                                          *)
(* One record describes a primitive:                                        *)
(*   [kind, cap, qmax, avail, waitq, dev]                                   *)
(*   kind  "fifo"     Resource / Semaphore / Mutex (cap 1) / Preemptible:   *)
(*                    immediate grant whenever the amount fits (a small     *)
(*                    request may overtake queued ones), FIFO wait queue,   *)
(*                    strict head-of-line wake loop on release              *)
(*         "rwlock"   RWLock encoded as a counted resource: cap = max       *)
(*                    readers (or the population when unlimited), a reader  *)
(*                    takes 1, a writer takes cap; a reader is not admitted *)
(*                    while a writer waits (writer preference)              *)
(*         "bulkhead" one slot per request, bounded wait queue, reject      *)
(*         "try"      concurrency limiters: no queue, refuse when full      *)
(*   waitq  sequence of <<w, amount, mode>>   (mode "x" | "r" | "w")        *)
(*   dev    set of deviation names (hypothetical defects used for the       *)
(*          sensitivity runs; "zero_delay_poll" lives in Capacity.tla)      *)
EXTENDS Integers, Sequences, FiniteSets

NewPrim(kind, cap, qmax, dev) ==
    [kind |-> kind, cap |-> cap, qmax |-> qmax, avail |-> cap, waitq |-> <<>>, dev |-> dev]

WriterWaiting(p) == \E i \in 1..Len(p.waitq) : p.waitq[i][3] = "w"

\* the "immediate grant vs enqueue" decision
CanGrantNow(p, a, m) ==
    LET slack == IF "admit_when_full" \in p.dev THEN 1 ELSE 0 IN
    IF p.kind = "rwlock" /\ m = "r"
    THEN p.avail + slack >= 1 /\ ~WriterWaiting(p)
    ELSE p.avail + slack >= a

\* acquire(a) by w: result "grant" | "queue" | "reject"
PAcquire(p, w, a, m) ==
    IF CanGrantNow(p, a, m)
    THEN [p |-> [p EXCEPT !.avail = @ - a], res |-> "grant"]
    ELSE IF p.kind = "try" THEN [p |-> p, res |-> "reject"]
    ELSE IF p.kind = "bulkhead" /\ Len(p.waitq) >= p.qmax THEN [p |-> p, res |-> "reject"]
    ELSE [p |-> [p EXCEPT !.waitq = Append(@, <<w, a, m>>)], res |-> "queue"]

\* strict head-of-line wake loop (_wake_waiters); returns the woken workers in order
RECURSIVE Wake(_, _)
Wake(p, acc) ==
    IF p.waitq = <<>> THEN [p |-> p, woken |-> acc]
    ELSE LET lifo == "wake_lifo" \in p.dev
             n == Len(p.waitq)
             hd == IF lifo THEN p.waitq[n] ELSE Head(p.waitq)
             rest == IF lifo THEN SubSeq(p.waitq, 1, n - 1) ELSE Tail(p.waitq)
         IN IF p.avail >= hd[2]
            THEN Wake([p EXCEPT !.avail = @ - hd[2], !.waitq = rest], Append(acc, hd[1]))
            ELSE [p |-> p, woken |-> acc]

\* release of amount a: capacity returns, then the wake loop runs
PRelease(p, a) ==
    LET p1 == [p EXCEPT !.avail = IF "release_leak" \in p.dev THEN @ ELSE @ + a]
    IN IF "release_no_wake" \in p.dev THEN [p |-> p1, woken |-> <<>>] ELSE Wake(p1, <<>>)

\* a queued request gives up (bulkhead queue timeout)
PWithdraw(p, w) ==
    [p EXCEPT !.waitq = SelectSeq(@, LAMBDA e : e[1] # w)]

InQueue(p, w) == \E i \in 1..Len(p.waitq) : p.waitq[i][1] = w
===========================================================================
