------------------------------ MODULE Barrier ------------------------------
(* C09, sync/barrier.py: Barrier(parties = n).  Worker processes call       *)
(* wait() at chosen instants; the n-th arrival of a generation releases the *)
(* n - 1 waiting parties (they resume at the same instant) and passes       *)
(* itself without yielding; the barrier then serves the next generation.    *)
(*   Arrive(w)  delivery of the worker's start event: wait()                *)
(*   Pass(w)    a released party resumes                                    *)
(*   Poll(w)    deviation "zero_delay_poll" (barrier.py:172-180): a waiting *)
(*              party is re-delivered at the same instant instead of being  *)
(*              parked; with nothing else due the clock is frozen           *)
(*   Tick       the clock jumps to the next due delivery                    *)
(* "barrier_off_by_one" / "barrier_no_wake" are hypothetical defects used   *)
(* only to show that the contract invariants are not vacuous.               *)
EXTENDS Integers, Sequences, FiniteSets, TLC

CONSTANTS NW, Parties, MaxArr, Dev

W == 1..NW
INF == 99
Polling == "zero_delay_poll" \in Dev

VARIABLES sc, now, pc, due, b, h
vars == <<sc, now, pc, due, b, h>>
\* pc: "init" | "waiting" | "released" | "passed";  b: [waiting : Seq(W), gen];
\* h: [order (arrival order), frozen, term]

Init ==
    /\ sc \in [n : Parties, arr : [W -> 0..MaxArr]]
    /\ now = 0
    /\ pc = [w \in W |-> "init"]
    /\ due = [w \in W |-> sc.arr[w]]
    /\ b = [waiting |-> <<>>, gen |-> 0]
    /\ h = [order |-> <<>>, frozen |-> FALSE, term |-> FALSE]

N == sc.n
SeqSet(s) == { s[i] : i \in 1..Len(s) }

Arrive(w) ==
    /\ pc[w] = "init" /\ due[w] = now
    /\ h' = [h EXCEPT !.order = Append(@, w)]
    /\ IF Len(b.waiting) + 1 >= N - (IF "barrier_off_by_one" \in Dev THEN 1 ELSE 0)
       THEN LET ws == IF "barrier_no_wake" \in Dev THEN {} ELSE SeqSet(b.waiting) IN
            \* _break_barrier: wake everybody, next generation
            /\ b' = [waiting |-> <<>>, gen |-> b.gen + 1]
            /\ pc' = [x \in W |-> IF x = w THEN "passed" ELSE IF x \in ws THEN "released" ELSE pc[x]]
            /\ due' = [x \in W |-> IF x = w THEN INF ELSE IF x \in ws THEN now ELSE due[x]]
       ELSE /\ b' = [b EXCEPT !.waiting = Append(@, w)]
            /\ pc' = [pc EXCEPT ![w] = "waiting"]
            /\ due' = [due EXCEPT ![w] = IF Polling THEN now ELSE INF]
    /\ UNCHANGED <<sc, now>>

Pass(w) ==
    /\ pc[w] = "released" /\ due[w] = now
    /\ pc' = [pc EXCEPT ![w] = "passed"] /\ due' = [due EXCEPT ![w] = INF]
    /\ UNCHANGED <<sc, now, b, h>>

Poll(w) ==
    /\ Polling /\ ~h.frozen
    /\ pc[w] = "waiting" /\ due[w] = now
    /\ \A x \in W : due[x] = now => pc[x] = "waiting"
    /\ h' = [h EXCEPT !.frozen = TRUE]
    /\ UNCHANGED <<sc, now, pc, due, b>>

Tick ==
    /\ \A w \in W : due[w] # now
    /\ \E w \in W : due[w] < INF
    /\ now' = CHOOSE t \in { due[w] : w \in W } : \A w \in W : t <= due[w]
    /\ UNCHANGED <<sc, pc, due, b, h>>

Quiet == \A w \in W : due[w] = INF
Term == Quiet /\ ~h.term /\ ~h.frozen /\ h' = [h EXCEPT !.term = TRUE] /\ UNCHANGED <<sc, now, pc, due, b>>

Next == (\E w \in W : Arrive(w) \/ Pass(w) \/ Poll(w)) \/ Tick \/ Term
Spec == Init /\ [][Next]_vars /\ WF_vars(Next)

--------------------------------------------------------------------------
(* Contract: observable = arrival order, who has passed, the public `waiting` count, the clock *)
Arrived == Len(h.order)
Idx(w) == CHOOSE i \in 1..Len(h.order) : h.order[i] = w
Complete == N * (Arrived \div N)            \* arrivals that belong to a complete generation
\* never n or more parties outstanding at the barrier
InvBarrierLimit == Len(b.waiting) < N
\* nobody passes before its generation is complete
InvBarrierNotEarly == \A w \in W : pc[w] \in {"released", "passed"} => Idx(w) <= Complete
\* everybody of a complete generation is released at once (as soon as the last party arrives)
InvBarrierPrompt == \A i \in 1..Len(h.order) : i <= Complete => pc[h.order[i]] \in {"released", "passed"}
\* waiting consumes no activity
InvTimePasses == ~h.frozen
\* when nothing is scheduled any more, only an incomplete generation is still waiting
InvBarrierServed == h.term => \A i \in 1..Len(h.order) : i <= Complete => pc[h.order[i]] = "passed"
EventuallyServed == <>h.term
===========================================================================
