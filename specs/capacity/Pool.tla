------------------------------- MODULE Pool -------------------------------
(* C09, connection pool: clients (acquire; hold d; release) arriving at     *)
(* chosen instants, including during a slow connection set-up.              *)
(* One action = one engine delivery to a client process:                    *)
(*   Start(w)    acquire: idle connection reused (the process goes on in    *)
(*               the same delivery), set-up started (resumes after Lat), or *)
(*               queued (the process re-checks every PollI, at most NPolls  *)
(*               times, then gives up with TimeoutError)                    *)
(*   Created(w)  set-up latency over: connection counted and handed over    *)
(*   PollW(w)    a queued client looks whether a connection was handed to it*)
(*   Finish(w)   hold over: release (hand-off to the oldest waiter or idle) *)
(*   Tick        clock jumps to the next due delivery                       *)
EXTENDS PoolOps, TLC

CONSTANTS NW, Maxes, Lat, PollI, NPolls, MaxArr, MaxHold, Dev

W == 1..NW
INF == 99

VARIABLES sc, now, pc, due, left, pl, h
vars == <<sc, now, pc, due, left, pl, h>>
\* pc: "init" | "creating" | "waiting" | "holding" | "done" | "timedout"
\* left[w]: polls left;  h: [handed (granted by hand-off, not yet noticed), border, granted, term]

Scenarios == [max : Maxes, arr : [W -> 0..MaxArr], hold : [W -> 0..MaxHold]]
Max == sc.max

Init ==
    /\ sc \in Scenarios
    /\ now = 0
    /\ pc = [w \in W |-> "init"]
    /\ due = [w \in W |-> sc.arr[w]]
    /\ left = [w \in W |-> 0]
    /\ pl = NewPool(sc.max, Dev)
    /\ h = [handed |-> {}, border |-> <<>>, granted |-> {}, term |-> FALSE]

Start(w) ==
    /\ pc[w] = "init" /\ due[w] = now
    /\ LET r == PoolAcquire(pl, w) IN
       /\ pl' = r.p
       /\ CASE r.res = "grant" ->
                 /\ pc' = [pc EXCEPT ![w] = "holding"] /\ due' = [due EXCEPT ![w] = now + sc.hold[w]]
                 /\ UNCHANGED <<left, h>>
            [] r.res = "create" ->
                 /\ pc' = [pc EXCEPT ![w] = "creating"] /\ due' = [due EXCEPT ![w] = now + Lat]
                 /\ UNCHANGED <<left, h>>
            [] OTHER ->
                 /\ pc' = [pc EXCEPT ![w] = "waiting"] /\ due' = [due EXCEPT ![w] = now + PollI]
                 /\ left' = [left EXCEPT ![w] = NPolls]
                 /\ h' = [h EXCEPT !.border = Append(@, w)]
    /\ UNCHANGED <<sc, now>>

Created(w) ==
    /\ pc[w] = "creating" /\ due[w] = now
    /\ pl' = PoolCreated(pl)
    /\ pc' = [pc EXCEPT ![w] = "holding"] /\ due' = [due EXCEPT ![w] = now + sc.hold[w]]
    /\ UNCHANGED <<sc, now, left, h>>

PollW(w) ==
    /\ pc[w] = "waiting" /\ due[w] = now
    /\ IF w \in h.handed
       THEN /\ pc' = [pc EXCEPT ![w] = "holding"] /\ due' = [due EXCEPT ![w] = now + sc.hold[w]]
            /\ h' = [h EXCEPT !.handed = @ \ {w}]
            /\ UNCHANGED <<pl, left>>
       ELSE IF left[w] <= 1
       THEN /\ pl' = PoolTimeout(pl, w)
            /\ pc' = [pc EXCEPT ![w] = "timedout"] /\ due' = [due EXCEPT ![w] = INF]
            /\ UNCHANGED <<left, h>>
       ELSE /\ left' = [left EXCEPT ![w] = @ - 1] /\ due' = [due EXCEPT ![w] = now + PollI]
            /\ UNCHANGED <<pl, pc, h>>
    /\ UNCHANGED <<sc, now>>

Finish(w) ==
    /\ pc[w] = "holding" /\ due[w] = now
    /\ LET r == PoolRelease(pl)
           ws == { r.woken[i] : i \in 1..Len(r.woken) }
       IN /\ pl' = r.p
          /\ h' = [h EXCEPT !.handed = @ \cup ws, !.granted = @ \cup ws]
    /\ pc' = [pc EXCEPT ![w] = "done"] /\ due' = [due EXCEPT ![w] = INF]
    /\ UNCHANGED <<sc, now, left>>

Tick ==
    /\ \A w \in W : due[w] # now
    /\ \E w \in W : due[w] < INF
    /\ now' = CHOOSE t \in { due[w] : w \in W } : \A w \in W : t <= due[w]
    /\ UNCHANGED <<sc, pc, due, left, pl, h>>

AllOver == \A w \in W : pc[w] \in {"done", "timedout"}
Term == AllOver /\ ~h.term /\ h' = [h EXCEPT !.term = TRUE] /\ UNCHANGED <<sc, now, pc, due, left, pl>>

Next == (\E w \in W : Start(w) \/ Created(w) \/ PollW(w) \/ Finish(w)) \/ Tick \/ Term
Spec == Init /\ [][Next]_vars /\ WF_vars(Next)

--------------------------------------------------------------------------
(* Contract, over the pool's public counters and the clients' own view *)
Holders == { w \in W : pc[w] = "holding" } \cup h.handed
\* (a) never more connections handed out / open than max_connections
InvPoolLimit == pl.active <= Max /\ pl.total <= Max
\* (b) held plus available equals the pool size; every active connection has exactly one holder
InvPoolConservation == pl.active + pl.idle = pl.total /\ Cardinality(Holders) = pl.active
\* (c) a release never pushes counters out of range
InvPoolBounds == pl.active >= 0 /\ pl.idle >= 0 /\ pl.idle <= pl.total
\* (d) waiters are served in arrival order (those that gave up aside), as soon as a connection is free
Waiting == { w \in W : pc[w] = "waiting" /\ w \notin h.handed }
InvPoolFifo ==
    \A i, j \in 1..Len(h.border) : i < j /\ h.border[j] \in h.granted
        => (h.border[i] \in h.granted \/ pc[h.border[i]] = "timedout")
InvPoolPrompt == Waiting # {} => pl.idle = 0
\* (e) nobody is left waiting when nothing is scheduled any more
InvPoolServed == (\A w \in W : due[w] = INF) => AllOver
EventuallyServed == <>AllOver
===========================================================================
