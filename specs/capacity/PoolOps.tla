------------------------------ MODULE PoolOps ------------------------------
(* Primitive-level operations of client/connection_pool.py (C09).           *)
(*   acquire   _try_get_idle_connection / total < max -> _create_connection *)
(*             (set-up latency, the connection is counted only afterwards)  *)
(*             / enqueue in _waiters and poll                               *)
(*   release   direct hand-off to the oldest waiter, else back to idle      *)
(*   timeout   _remove_waiter                                               *)
(*   idle close  _handle_idle_timeout -> _close_connection                  *)
(* pool record: [max, idle, active, total, creating, waitq, dev]            *)
(* Deviation "pool_counts_after_setup" (what the code does): the admission  *)
(* test looks at `total` only, and `total` grows when the set-up latency is *)
(* over, so every acquirer arriving during a set-up starts another one.     *)
(* Without the deviation the slot is reserved when the set-up starts.       *)
EXTENDS Integers, Sequences, FiniteSets

NewPool(max, dev) == [max |-> max, idle |-> 0, active |-> 0, total |-> 0, creating |-> 0, waitq |-> <<>>, dev |-> dev]

MayCreate(pp) ==
    IF "pool_counts_after_setup" \in pp.dev THEN pp.total < pp.max
    ELSE pp.total + pp.creating < pp.max

\* result "grant" (idle connection reused) | "create" (set-up started) | "queue"
PoolAcquire(pp, w) ==
    IF pp.idle > 0 THEN [p |-> [pp EXCEPT !.idle = @ - 1, !.active = @ + 1], res |-> "grant"]
    ELSE IF MayCreate(pp) THEN [p |-> [pp EXCEPT !.creating = @ + 1], res |-> "create"]
    ELSE [p |-> [pp EXCEPT !.waitq = Append(@, w)], res |-> "queue"]

\* the set-up latency of one creator is over: the connection exists and is handed to its creator
PoolCreated(pp) == [pp EXCEPT !.creating = @ - 1, !.total = @ + 1, !.active = @ + 1]

\* release: hand-off to the oldest waiter (woken = <<w>>) or back to the idle list
PoolRelease(pp) ==
    IF pp.waitq # <<>>
    THEN [p |-> [pp EXCEPT !.waitq = Tail(@)], woken |-> <<Head(pp.waitq)>>]
    ELSE [p |-> [pp EXCEPT !.active = @ - 1, !.idle = @ + 1], woken |-> <<>>]

PoolTimeout(pp, w) == [pp EXCEPT !.waitq = SelectSeq(@, LAMBDA e : e # w)]
PoolIdleClose(pp) == [pp EXCEPT !.idle = @ - 1, !.total = @ - 1]
PoolInQueue(pp, w) == \E i \in 1..Len(pp.waitq) : pp.waitq[i] = w
===========================================================================
