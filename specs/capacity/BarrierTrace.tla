--------------------------- MODULE BarrierTrace ---------------------------
(* Trace validation for C09 (Barrier).  Input: JSON array of                *)
(*   [ id, n (parties), nr, log << <<op, r, a, m, flag, avail, nwait>> >> ] *)
(* recorded by harness/families/c09_world.py (same record shape as the      *)
(* counted primitives): r = arrival index (1..nr), nwait = Barrier.waiting  *)
(* sampled after the step.                                                   *)
(*   "req"  r calls wait(): flag 0 = passed at once (last party), 1 = waits *)
(*   "got"  r continues past wait()       "poll" r re-delivered, still waits *)
(*   "q"    end of an instant             "end"  run over                    *)
(* Verdict <<"V", id, verdict, pos>>: "PROP:.." = a C09 clause is false on   *)
(* the observed run, "MODEL:.." = disagreement with Barrier.tla's counters.  *)
EXTENDS Integers, Sequences, FiniteSets, TLC, Json, IOUtils

Traces == JsonDeserialize(IOEnv.TRACE_FILE)
NT == Len(Traces)
VARIABLES ti, l, o, v
vars == <<ti, l, o, v>>
Tr == Traces[ti]

\* o: [na (arrived), passed (set of r), streak];  v: [prop, ppos, drift, dpos]
O0 == [na |-> 0, passed |-> {}, streak |-> 0]
V0 == [prop |-> "", ppos |-> 0, drift |-> "", dpos |-> 0]
Init == ti = 1 /\ l = 1 /\ o = O0 /\ v = V0

ObsStep(oo, rec) ==
    LET op == rec[1]  r == rec[2]
        o1 == [oo EXCEPT !.streak = IF op = "poll" THEN @ + 1 ELSE 0]
    IN CASE op = "req" -> [o1 EXCEPT !.na = @ + 1]
         [] op = "got" -> [o1 EXCEPT !.passed = @ \cup {r}]
         [] OTHER -> o1

Contract(o0, oo, T, rec) ==
    LET op == rec[1]  r == rec[2]  nwait == rec[7]
        complete == T.n * (oo.na \div T.n)
    IN IF nwait >= T.n THEN "PROP:barrier_too_many_waiting"
       ELSE IF op = "got" /\ r \in o0.passed THEN "PROP:barrier_passed_twice"
       ELSE IF op = "got" /\ r > complete THEN "PROP:barrier_passed_before_generation_complete"
       ELSE IF (op \in {"q", "end"} \/ (op = "poll" /\ oo.streak > 2 * T.nr + 2))
               /\ \E x \in 1..complete : x \notin oo.passed
            THEN "PROP:barrier_not_released_when_full"
       ELSE IF op = "poll" /\ oo.streak > 2 * T.nr + 2 THEN "PROP:clock_frozen_by_waiter"
       ELSE ""

Model(oo, T, rec) ==
    IF rec[7] # oo.na - T.n * (oo.na \div T.n) THEN "MODEL:waiting_counter"
    ELSE IF rec[1] = "req" /\ rec[5] # (IF oo.na % T.n = 0 THEN 0 ELSE 1) THEN "MODEL:pass_or_wait_decision"
    ELSE ""

Finish ==
    /\ PrintT(<<"V", Tr.id, IF v.prop # "" THEN v.prop ELSE IF v.drift # "" THEN v.drift ELSE "ACCEPT",
                IF v.prop # "" THEN v.ppos ELSE IF v.drift # "" THEN v.dpos ELSE l - 1>>)
    /\ ti' = ti + 1 /\ l' = 1 /\ o' = O0 /\ v' = V0

StepRec ==
    LET T == Tr
        rec == T.log[l]
        o1 == ObsStep(o, rec)
        cv == Contract(o, o1, T, rec)
        dv == IF v.drift # "" THEN "" ELSE Model(o1, T, rec)
    IN /\ o' = o1
       /\ v' = [prop |-> cv, ppos |-> IF cv # "" THEN l ELSE 0,
                drift |-> IF v.drift # "" THEN v.drift ELSE dv,
                dpos |-> IF v.drift # "" THEN v.dpos ELSE IF dv # "" THEN l ELSE 0]
       /\ l' = l + 1 /\ ti' = ti

Next == ti <= NT /\ IF v.prop # "" \/ l > Len(Tr.log) THEN Finish ELSE StepRec
Spec == Init /\ [][Next]_vars
===========================================================================
