----------------------------- MODULE PoolTrace -----------------------------
(* Trace validation for C09 (connection pool).                              *)
(* Input: IOEnv.TRACE_FILE = JSON array of                                  *)
(*   [ id, max, nr, dev (deviation names the model is run with),            *)
(*     log << <<op, r, flag, active, idle, total, nwait>>, ... >> ]          *)
(* counters = active_connections, idle_connections, total_connections,      *)
(* pending_requests sampled after the step (public properties).             *)
(*   "req"   r calls acquire: flag 0 = idle connection reused (returned at  *)
(*           once), 1 = queued, 3 = connection set-up started               *)
(*   "made"  the set-up of r is over, r holds the new connection            *)
(*   "hand"  a release handed its connection to queued r (on_acquire        *)
(*           callback during release; r identified by the connection id     *)
(*           the waiter later returns with; 0 = nobody ever claimed it)     *)
(*   "got"   queued r noticed its connection (its acquire returned)         *)
(*   "rel"   r releases      "tmo"  queued r gave up (TimeoutError)         *)
(*   "idlex" an idle connection was closed by the idle timeout              *)
(*   "d" end of an engine delivery, "q" end of an instant, "end" run over   *)
(* Verdict line: <<"V", id, verdict, pos, drift>>: verdict = first false    *)
(* contract clause ("PROP:..") or "ACCEPT"; drift = first disagreement with *)
(* the implementation-shaped model (PoolOps with T.dev) or "".              *)
EXTENDS PoolOps, TLC, Json, IOUtils

Traces == JsonDeserialize(IOEnv.TRACE_FILE)
NT == Len(Traces)

VARIABLES ti, l, pl, o, v
vars == <<ti, l, pl, o, v>>

Tr == Traces[ti]
R(T) == 1..T.nr
DevOf(T) == { T.dev[i] : i \in 1..Len(T.dev) }
P0(T) == NewPool(T.max, DevOf(T))
O0(T) == [ph |-> [r \in R(T) |-> "idle"], border |-> <<>>, orph |-> 0]
V0 == [prop |-> "", ppos |-> 0, drift |-> "", dpos |-> 0]
Dummy == [id |-> 0, max |-> 1, nr |-> 0, dev |-> <<>>, log |-> <<>>]
T1 == IF NT = 0 THEN Dummy ELSE Traces[1]

Init == ti = 1 /\ l = 1 /\ pl = P0(T1) /\ o = O0(T1) /\ v = V0

ObsStep(oo, T, rec) ==
    LET op == rec[1]  r == rec[2] IN
    CASE op = "req" -> [oo EXCEPT !.ph[r] = IF rec[3] = 0 THEN "held" ELSE IF rec[3] = 1 THEN "wait" ELSE "creating",
                                  !.border = IF rec[3] = 1 THEN Append(@, r) ELSE @]
      [] op = "made" -> [oo EXCEPT !.ph[r] = "held"]
      [] op = "hand" -> IF r = 0 THEN [oo EXCEPT !.orph = @ + 1] ELSE [oo EXCEPT !.ph[r] = "held"]
      [] op = "rel" -> [oo EXCEPT !.ph[r] = "done"]
      [] op = "tmo" -> [oo EXCEPT !.ph[r] = "gone"]
      [] OTHER -> oo

WaitingIdx(oo) == { i \in 1..Len(oo.border) : oo.ph[oo.border[i]] = "wait" }
ServedIdx(oo) == { i \in 1..Len(oo.border) : oo.ph[oo.border[i]] \in {"held", "done"} }

Contract(o0, oo, T, rec) ==
    LET op == rec[1]  r == rec[2]
        active == rec[4]  idle == rec[5]  total == rec[6]
        held == Cardinality({ x \in R(T) : oo.ph[x] = "held" }) + oo.orph
        boundary == op \in {"d", "q", "end"}
        ncreating == Cardinality({ x \in R(T) : oo.ph[x] = "creating" })
    IN IF active > T.max \/ total > T.max THEN "PROP:pool_over_max"
       \* a connection whose set-up is still running may or may not be counted in `total` already
       ELSE IF active + idle > total \/ total > active + idle + ncreating
            THEN "PROP:pool_active_plus_idle_not_total"
       ELSE IF held > T.max THEN "PROP:pool_over_admit"
       ELSE IF boundary /\ held # active THEN "PROP:pool_holders_not_active"
       ELSE IF op = "hand" /\ r # 0 /\ o0.ph[r] # "wait" THEN "PROP:pool_granted_twice"
       ELSE IF op = "hand" /\ \E i \in WaitingIdx(oo) : \E j \in ServedIdx(oo) : i < j THEN "PROP:pool_fifo_order"
       ELSE IF boundary /\ WaitingIdx(oo) # {} /\ idle > 0 THEN "PROP:pool_waiter_not_served_with_idle_connection"
       ELSE IF op = "end" /\ oo.orph > 0 THEN "PROP:pool_connection_leaked"
       ELSE IF op = "end" /\ \E x \in R(T) : oo.ph[x] \in {"wait", "creating"} THEN "PROP:pool_waiter_never_served"
       ELSE ""

\* returns [p, d]
ModelStep(pp, T, rec) ==
    LET op == rec[1]  r == rec[2] IN
    CASE op = "req" ->
           LET res == PoolAcquire(pp, r)
               exp == IF res.res = "grant" THEN 0 ELSE IF res.res = "queue" THEN 1 ELSE 3
           IN [p |-> res.p, d |-> IF exp # rec[3] THEN "MODEL:admission_decision" ELSE ""]
      [] op = "made" -> [p |-> PoolCreated(pp), d |-> IF pp.creating = 0 THEN "MODEL:creation_not_predicted" ELSE ""]
      [] op = "rel" ->
           LET res == PoolRelease(pp)
               exp == IF res.woken = <<>> THEN 0 ELSE res.woken[1]
           IN [p |-> res.p, d |-> IF exp # rec[3] THEN "MODEL:hand_off_target" ELSE ""]
      [] op = "tmo" -> [p |-> PoolTimeout(pp, r), d |-> IF PoolInQueue(pp, r) THEN "" ELSE "MODEL:timeout_of_unqueued"]
      [] op = "idlex" -> [p |-> PoolIdleClose(pp), d |-> IF pp.idle = 0 THEN "MODEL:idle_close_without_idle" ELSE ""]
      [] OTHER -> [p |-> pp, d |-> ""]

Counters(pp, rec) ==
    IF pp.active # rec[4] \/ pp.idle # rec[5] \/ rec[6] \notin {pp.total, pp.total + pp.creating}
    THEN "MODEL:connection_counters"
    ELSE IF Len(pp.waitq) # rec[7] THEN "MODEL:pending_counter" ELSE ""

Finish ==
    /\ PrintT(<<"V", Tr.id, IF v.prop # "" THEN v.prop ELSE "ACCEPT",
                IF v.prop # "" THEN v.ppos ELSE l - 1, v.drift>>)
    /\ ti' = ti + 1 /\ l' = 1
    /\ IF ti < NT THEN pl' = P0(Traces[ti + 1]) /\ o' = O0(Traces[ti + 1]) /\ v' = V0
       ELSE UNCHANGED <<pl, o, v>>

StepRec ==
    LET T == Tr
        rec == T.log[l]
        o1 == ObsStep(o, T, rec)
        cv == IF v.prop # "" THEN "" ELSE Contract(o, o1, T, rec)
        \* the model is followed up to the first false contract clause (so that `drift` tells whether the
        \* model with T.dev reproduces the run up to there)
        ms == IF v.drift = "" /\ v.prop = "" THEN ModelStep(pl, T, rec) ELSE [p |-> pl, d |-> ""]
        dv == IF v.drift # "" \/ v.prop # "" THEN "" ELSE IF ms.d # "" THEN ms.d ELSE Counters(ms.p, rec)
    IN /\ o' = o1 /\ pl' = ms.p
       /\ v' = [prop |-> IF v.prop # "" THEN v.prop ELSE cv,
                ppos |-> IF v.prop # "" THEN v.ppos ELSE IF cv # "" THEN l ELSE 0,
                drift |-> IF v.drift # "" THEN v.drift ELSE dv,
                dpos |-> IF v.drift # "" THEN v.dpos ELSE IF dv # "" THEN l ELSE 0]
       /\ l' = l + 1 /\ ti' = ti

Next ==
    /\ ti <= NT
    /\ IF v.prop # "" \/ l > Len(Tr.log) THEN Finish ELSE StepRec

Spec == Init /\ [][Next]_vars
===========================================================================
