--------------------------- MODULE ProcessTrace ---------------------------
(* Trace validation for C02.  Each recorded execution carries its program    *)
(* (start times, resolvers, composite table, complete scripts) and the       *)
(* observation logs taken from the real engine.  The Process machine is run  *)
(* on the program (deterministic once the scripts are complete) and its logs *)
(* are compared with the observed ones; every trace gets one verdict line    *)
(*   <<"V", id, verdict, process, position>>                                 *)
EXTENDS Process, Json, IOUtils

Traces == JsonDeserialize(IOEnv.TRACE_FILE)
NT == Len(Traces)
VARIABLE ti
tvars == <<m, script, prog, ti>>

Load(i) ==
    LET T == Traces[i] IN
    /\ prog' = [nf |-> T.nf, start |-> T.start, res |-> T.res, comps |-> T.comps]
    /\ script' = T.script
    /\ m' = InitM([nf |-> T.nf, start |-> T.start, res |-> T.res, comps |-> T.comps])

Empty == [nf |-> 0, start |-> <<>>, res |-> <<>>, comps |-> <<>>]
TInit ==
    /\ ti = 1
    /\ IF NT = 0 THEN prog = Empty /\ script = <<>> /\ m = InitM(Empty)
       ELSE LET T == Traces[1]
                pr == [nf |-> T.nf, start |-> T.start, res |-> T.res, comps |-> T.comps]
            IN prog = pr /\ script = T.script /\ m = InitM(pr)

\* first differing segment of process p between observed and model logs (0 = equal)
RECURSIVE FirstDiff(_, _, _)
FirstDiff(a, b, i) ==
    IF i > Len(a) /\ i > Len(b) THEN 0
    ELSE IF i > Len(a) \/ i > Len(b) THEN i
    ELSE IF a[i] # b[i] THEN i ELSE FirstDiff(a, b, i + 1)

ClassifyObs(p, n, T) ==
    IF n > Len(m.obs[p]) THEN "PROP:resumed_more_than_the_contract_allows"
    ELSE IF n > Len(T.obs[p]) THEN "PROP:not_resumed"
    ELSE IF n = 1 THEN "PROP:first_segment"
    ELSE LET s == script[p][n - 1] IN
         IF s.k \in {"D", "DE"} THEN "PROP:resume_after_delay"
         ELSE IF IsComp(s.a) THEN "PROP:combinator_resume"
         ELSE "PROP:future_resume"

SeqToSet(s) == { <<i, s[i]>> : i \in 1..Len(s) }
Bag(s) == { <<x, Cardinality({ i \in 1..Len(s) : s[i] = x })>> : x \in { s[i] : i \in 1..Len(s) } }

Verdict(T) ==
    LET badp == { p \in 1..NP : FirstDiff(T.obs[p], m.obs[p], 1) # 0 }
    IN IF badp # {}
       THEN LET p == CHOOSE p \in badp : \A q \in badp : p <= q
                n == FirstDiff(T.obs[p], m.obs[p], 1)
            IN <<ClassifyObs(p, n, T), p, n>>
       ELSE IF Bag(T.marks) # Bag(m.marks) THEN <<"PROP:side_or_returned_event", 0, 0>>
       ELSE IF Bag(T.hooks) # Bag(m.hooks) THEN <<"PROP:completion_hook", 0, 0>>
       ELSE <<"ACCEPT", 0, 0>>

TNext ==
    /\ ti <= NT
    /\ IF m.heap # {}
       THEN Pop /\ ti' = ti
       ELSE /\ LET v == Verdict(Traces[ti]) IN PrintT(<<"V", Traces[ti].id, v[1], v[2], v[3]>>)
            /\ ti' = ti + 1
            /\ IF ti < NT THEN Load(ti + 1) ELSE UNCHANGED <<m, script, prog>>

TSpec == TInit /\ [][TNext]_tvars
===========================================================================
