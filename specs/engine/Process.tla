----------------------------- MODULE Process -----------------------------
(* Generator processes and futures on the event loop (property C02).        *)
(* Transcribed from happysimulator/core/event.py (Event.invoke,             *)
(* _start_process, ProcessContinuation.invoke) and core/sim_future.py        *)
(* (SimFuture._park/resolve/_resume/_add_settle_callback, any_of, all_of).   *)
(*                                                                           *)
(* A program is: start times of the processes, pre-run resolver events       *)
(* <<t, f, v>>, a table of composite futures, and one script per process.    *)
(* In model-checking mode the script of a process is chosen step by step by  *)
(* TLC (every generator body within the bounds is enumerated); in trace mode *)
(* (ProcessTrace.tla) the program is read from a recorded execution and the  *)
(* machine below is the oracle for the per-process observation logs.         *)
(*                                                                           *)
(* Values are encoded as integer sequences: None = <<>>, scalar v = <<v>>,   *)
(* any_of result (i, x) = <<-1, i>> \o x, all_of result = <<-2, n>> \o x1 .. *)
(*                                                                           *)
(* Deviation "anyof_argorder_preresolved": any_of fires the callbacks of     *)
(* already-resolved inputs in argument order (what the code does), so the    *)
(* winner among several pre-resolved inputs is the lowest index, not the     *)
(* input that resolved first.                                                *)
EXTENDS Naturals, Integers, Sequences, FiniteSets, TLC

CONSTANTS Dev

\* step records: [k, a, b]
\*   "D"  a = delay                     yield a
\*   "DE" a = delay, b = mark offset    yield a, [mark event at now + b]
\*   "F"  a = future id (simple 1..NF, composite NF+1..)   yield future
\*   "E"  a = 1 iff the generator returns a mark event at now
None == <<>>

VARIABLES m,        \* machine state (record, see InitM)
          script,   \* [1..NP -> Seq(step)]
          prog      \* [nf, start : Seq(Nat), res : Seq(<<t,f,v>>), comps : Seq([kind, ins])]
vars == <<m, script, prog>>

NP == Len(prog.start)    \* number of processes
NF == prog.nf            \* number of simple futures (ids 1..NF; composites NF+1..)

NC == Len(prog.comps)
IsComp(f) == f > NF
Comp(f) == prog.comps[f - NF]

Fut0 == [res |-> FALSE, val |-> None, park |-> 0, cbs |-> <<>>, rseq |-> 0, built |-> FALSE,
         got |-> <<>>, rem |-> 0]

InitM(pr) ==
    LET NP0 == Len(pr.start)
        starts == { [id |-> p, t |-> pr.start[p], k |-> "start", p |-> p, v |-> None] : p \in 1..NP0 }
        ress == { [id |-> NP0 + r, t |-> pr.res[r][1], k |-> "res", p |-> pr.res[r][2], v |-> <<pr.res[r][3]>>]
                  : r \in 1..Len(pr.res) }
    IN [ heap |-> starts \cup ress, ctr |-> NP0 + Len(pr.res), clock |-> 0, rs |-> 0,
         fut |-> [f \in 1..(pr.nf + Len(pr.comps)) |-> Fut0],
         pc |-> [p \in 1..NP0 |-> 0],            \* segments executed so far
         st |-> [p \in 1..NP0 |-> "idle"],       \* idle / sched / parked / done
         obs |-> [p \in 1..NP0 |-> <<>>],        \* per segment: [t, v]  (time it ran, value received)
         marks |-> <<>>,                        \* sink deliveries [p, tag, t]
         hooks |-> <<>>,                        \* completion-hook calls [p, t]
         rlog |-> <<>> ]                        \* effective resolutions [f, t] in order

Push(mm, t, k, p, v) ==
    [mm EXCEPT !.heap = @ \cup {[id |-> mm.ctr + 1, t |-> t, k |-> k, p |-> p, v |-> v]},
               !.ctr = @ + 1]

EncAny(i, x) == <<-1, i>> \o x
RECURSIVE Flat(_, _)
Flat(seqs, i) == IF i > Len(seqs) THEN <<>> ELSE seqs[i] \o Flat(seqs, i + 1)
EncAll(got) == <<-2, Len(got)>> \o Flat(got, 1)

RECURSIVE ResolveF(_, _, _), FireAll(_, _, _, _), Callback(_, _, _, _)
\* SimFuture.resolve(v) on future f at mm.clock
ResolveF(mm, f, v) ==
    IF mm.fut[f].res THEN mm
    ELSE LET m1 == [mm EXCEPT !.fut[f].res = TRUE, !.fut[f].val = v, !.fut[f].rseq = mm.rs + 1,
                              !.rs = @ + 1, !.rlog = Append(@, <<f, mm.clock>>)]
             pk == m1.fut[f].park
             m2 == IF pk # 0
                   THEN [Push(m1, m1.clock, "cont", pk, v) EXCEPT !.fut[f].park = 0, !.st[pk] = "sched"]
                   ELSE m1
             cbs == m2.fut[f].cbs
         IN FireAll([m2 EXCEPT !.fut[f].cbs = <<>>], cbs, 1, f)
FireAll(mm, cbs, i, f) ==
    IF i > Len(cbs) THEN mm ELSE FireAll(Callback(mm, cbs[i][1], cbs[i][2], f), cbs, i + 1, f)
\* settle callback registered by composite c for its idx-th input f (which is resolved now)
Callback(mm, c, idx, f) ==
    IF Comp(c).kind = "any"
    THEN ResolveF(mm, c, EncAny(idx - 1, mm.fut[f].val))
    ELSE IF mm.fut[c].res THEN mm
         ELSE LET got == [mm.fut[c].got EXCEPT ![idx] = mm.fut[f].val]
                  rem == mm.fut[c].rem - 1
                  m1 == [mm EXCEPT !.fut[c].got = got, !.fut[c].rem = rem]
              IN IF rem = 0 THEN ResolveF(m1, c, EncAll(got)) ELSE m1

\* positions 1..n of ins ordered for the immediate callbacks at construction
RECURSIVE SortByRseq(_, _)
SortByRseq(mm, S) ==   \* S: set of positions whose inputs are resolved; order by rseq
    IF S = {} THEN <<>>
    ELSE LET i == CHOOSE i \in S : \A j \in S : mm.fut[i[2]].rseq <= mm.fut[j[2]].rseq
         IN <<i[1]>> \o SortByRseq(mm, S \ {i})

RECURSIVE Asc(_)
Asc(S) == IF S = {} THEN <<>>
          ELSE LET x == CHOOSE x \in S : \A y \in S : x <= y IN <<x>> \o Asc(S \ {x})

RECURSIVE BuildC(_, _), BuildIns(_, _, _), Register(_, _, _, _)
\* any_of / all_of constructed now: nested composites first (Python evaluates arguments first)
BuildC(mm, c) ==
    IF mm.fut[c].built THEN mm
    ELSE LET ins == Comp(c).ins
             m1 == BuildIns(mm, ins, 1)
             m2 == [m1 EXCEPT !.fut[c].built = TRUE, !.fut[c].rem = Len(ins),
                              !.fut[c].got = [i \in 1..Len(ins) |-> None]]
             order == IF "anyof_argorder_preresolved" \in Dev
                      THEN [i \in 1..Len(ins) |-> i]
                      ELSE LET pre == { <<i, ins[i]>> : i \in { j \in 1..Len(ins) : m2.fut[ins[j]].res } }
                               post == { i \in 1..Len(ins) : ~m2.fut[ins[i]].res }
                           IN SortByRseq(m2, pre) \o Asc(post)
         IN Register(m2, c, order, 1)
BuildIns(mm, ins, i) ==
    IF i > Len(ins) THEN mm
    ELSE BuildIns(IF IsComp(ins[i]) THEN BuildC(mm, ins[i]) ELSE mm, ins, i + 1)
\* f._add_settle_callback(...) for each input, in `order`
Register(mm, c, order, k) ==
    IF k > Len(order) THEN mm
    ELSE LET i == order[k]
             f == Comp(c).ins[i]
         IN Register(IF mm.fut[f].res THEN Callback(mm, c, i, f)
                     ELSE [mm EXCEPT !.fut[f].cbs = Append(@, <<c, i>>)], c, order, k + 1)

\* one generator segment of process p (ProcessContinuation.invoke): gen.send(val) ... next yield
Segment(mm, p, val, step) ==
    LET now == mm.clock
        n == mm.pc[p] + 1
        m0 == [mm EXCEPT !.pc[p] = n, !.obs[p] = Append(@, [t |-> now, v |-> val])]
    IN CASE step.k = "D" ->
              [Push(m0, now + step.a, "cont", p, None) EXCEPT !.st[p] = "sched"]
         [] step.k = "DE" ->   \* the side-effect event is created by the generator before the yield
              [Push(Push(m0, now + step.b, "mark", p, <<n>>), now + step.a, "cont", p, None)
                 EXCEPT !.st[p] = "sched"]
         [] step.k = "F" ->
              LET f == step.a
                  m1 == IF IsComp(f) THEN BuildC(m0, f) ELSE m0
              IN IF m1.fut[f].res            \* _park: already resolved -> _resume at once
                 THEN [Push(m1, now, "cont", p, m1.fut[f].val) EXCEPT !.st[p] = "sched"]
                 ELSE [m1 EXCEPT !.fut[f].park = p, !.st[p] = "parked"]
         [] step.k = "E" ->    \* StopIteration: returned events, then completion hooks, once
              LET m1 == IF step.a = 1 THEN Push(m0, now, "mark", p, <<99>>) ELSE m0
              IN [m1 EXCEPT !.st[p] = "done", !.hooks = Append(@, <<p, now>>)]

Min(S) == CHOOSE x \in S : \A y \in S : x.t < y.t \/ (x.t = y.t /\ x.id <= y.id)

\* steps TLC may choose for process p in the current state (model-checking mode)
CONSTANTS MaxLen, MaxD, MaxT
StepChoices(p) ==
    [k : {"D"}, a : 0..MaxD, b : {0}]
    \cup [k : {"DE"}, a : 0..MaxD, b : 0..1]
    \cup { [k |-> "F", a |-> f, b |-> 0] : f \in { g \in 1..(NF + NC) :
               IF IsComp(g) THEN ~m.fut[g].built /\ \A q \in 1..NP : \A i \in 1..Len(script[q]) :
                                       ~(script[q][i].k = "F" /\ script[q][i].a = g)
               ELSE m.fut[g].park = 0 } }
    \cup [k : {"E"}, a : {0, 1}, b : {0}]

RunSegment(e, val) ==
    LET p == e.p
        n == m.pc[p] + 1
        m0 == [m EXCEPT !.heap = @ \ {e}, !.clock = e.t]
    IN IF n <= Len(script[p])
       THEN /\ m' = Segment(m0, p, val, script[p][n]) /\ UNCHANGED script
       ELSE \E s \in (IF n > MaxLen THEN [k : {"E"}, a : {0, 1}, b : {0}] ELSE StepChoices(p)) :
               /\ script' = [script EXCEPT ![p] = Append(@, s)]
               /\ m' = Segment(m0, p, val, s)

Pop ==
    /\ m.heap # {}
    /\ LET e == Min(m.heap) IN
         CASE e.k = "start" -> RunSegment(e, None)
           [] e.k = "cont" -> RunSegment(e, e.v)
           [] e.k = "res" ->
                /\ m' = ResolveF([m EXCEPT !.heap = @ \ {e}, !.clock = e.t], e.p, e.v)
                /\ UNCHANGED script
           [] e.k = "mark" ->
                /\ m' = [m EXCEPT !.heap = @ \ {e}, !.clock = e.t,
                                  !.marks = Append(@, <<e.p, e.v[1], e.t>>)]
                /\ UNCHANGED script
    /\ UNCHANGED prog

\* ---- model-checking mode: program space -----------------------------------
CONSTANTS MaxRes, CompSpace, MCNP, MCNF
ResSeqs == UNION { [1..k -> (0..MaxT) \X (1..MCNF)] : k \in 0..MaxRes }
SortedRes(rs) == \A i \in 1..(Len(rs) - 1) : rs[i][1] <= rs[i + 1][1]

Init ==
    /\ \E st \in [1..MCNP -> 0..1], rs \in ResSeqs, cs \in CompSpace :
         /\ SortedRes(rs)
         /\ prog = [nf |-> MCNF, start |-> st, res |-> [r \in 1..Len(rs) |-> <<rs[r][1], rs[r][2], 10 + r>>],
                    comps |-> cs]
    /\ script = [p \in 1..MCNP |-> <<>>]
    /\ m = InitM(prog)

Next == Pop
Spec == Init /\ [][Next]_vars
Horizon == m.clock <= MaxT + 2

\* ---- contract C02 over the observation logs --------------------------------
Done == m.heap = {}
\* first effective resolver of a simple future, from the program alone
ResOf(f) == { r \in 1..Len(prog.res) : prog.res[r][2] = f }
FirstRes(f) == CHOOSE r \in ResOf(f) : \A q \in ResOf(f) :
                   prog.res[r][1] < prog.res[q][1] \/ (prog.res[r][1] = prog.res[q][1] /\ r <= q)
Max2(a, b) == IF a >= b THEN a ELSE b

\* (a) after yielding delay d the process resumes exactly d later, receiving None
InvDelay ==
    \A p \in 1..NP : \A n \in 1..Len(script[p]) :
        (script[p][n].k \in {"D", "DE"} /\ Len(m.obs[p]) > n)
        => m.obs[p][n + 1] = [t |-> m.obs[p][n].t + script[p][n].a, v |-> None]
InvDelayLive ==   \* and it does resume (nothing is lost) once the run is over
    Done => \A p \in 1..NP : \A n \in 1..Len(script[p]) :
        (script[p][n].k \in {"D", "DE"} /\ Len(m.obs[p]) >= n) => Len(m.obs[p]) > n

MarkCount(p, tag) == Cardinality({ i \in 1..Len(m.marks) : m.marks[i][1] = p /\ m.marks[i][2] = tag })
\* (b) events yielded alongside a delay are delivered at their own time, once
InvSide ==
    \A i \in 1..Len(m.marks) : m.marks[i][2] # 99 =>
        LET p == m.marks[i][1]  n == m.marks[i][2]
        IN /\ script[p][n].k = "DE" /\ m.marks[i][3] = m.obs[p][n].t + script[p][n].b
           /\ MarkCount(p, n) = 1
InvSideLive ==
    Done => \A p \in 1..NP : \A n \in 1..Len(m.obs[p]) :
        (n <= Len(script[p]) /\ script[p][n].k = "DE") => MarkCount(p, n) = 1

\* (c) returned events and completion hooks: exactly once, at the finishing instant
HookCount(p) == Cardinality({ i \in 1..Len(m.hooks) : m.hooks[i][1] = p })
InvFinish ==
    \A p \in 1..NP :
        /\ HookCount(p) <= 1
        /\ (HookCount(p) = 1) = (m.st[p] = "done")
        /\ m.st[p] = "done" =>
             LET n == Len(m.obs[p]) IN
             /\ script[p][n].k = "E"
             /\ \E i \in 1..Len(m.hooks) : m.hooks[i] = <<p, m.obs[p][n].t>>
             /\ MarkCount(p, 99) <= script[p][n].a
             /\ \A i \in 1..Len(m.marks) : (m.marks[i][1] = p /\ m.marks[i][2] = 99)
                                           => m.marks[i][3] = m.obs[p][n].t
InvFinishLive ==
    Done => \A p \in 1..NP : m.st[p] = "done" => MarkCount(p, 99) = script[p][Len(m.obs[p])].a

\* (d)(e) parked on a simple future: resumed once, at the instant of the first resolve (or at
\* once), with the first resolve's value; later resolves change nothing
InvFuture ==
    \A p \in 1..NP : \A n \in 1..Len(script[p]) :
        (script[p][n].k = "F" /\ ~IsComp(script[p][n].a) /\ Len(m.obs[p]) > n) =>
            LET f == script[p][n].a  r == FirstRes(f)
            IN /\ ResOf(f) # {}
               /\ m.obs[p][n + 1] = [t |-> Max2(prog.res[r][1], m.obs[p][n].t), v |-> <<prog.res[r][3]>>]
InvFutureLive ==
    Done => \A p \in 1..NP : \A n \in 1..Len(script[p]) :
        (script[p][n].k = "F" /\ ~IsComp(script[p][n].a) /\ Len(m.obs[p]) >= n
            /\ ResOf(script[p][n].a) # {}) => Len(m.obs[p]) > n

\* (f) combinators.  RT(f) = instant at which f became resolved (ghost log), RS(f) its order
RT(f) == LET i == CHOOSE i \in 1..Len(m.rlog) : m.rlog[i][1] = f IN m.rlog[i][2]
InvAny ==
    \A c \in (NF + 1)..(NF + NC) : (Comp(c).kind = "any" /\ m.fut[c].res) =>
        LET ins == Comp(c).ins
            w == m.fut[c].val[2] + 1
        IN /\ m.fut[c].val[1] = -1 /\ w \in 1..Len(ins) /\ m.fut[ins[w]].res
           /\ m.fut[c].val = EncAny(w - 1, m.fut[ins[w]].val)
           \* the winner is the first input to resolve
           /\ \A j \in 1..Len(ins) : m.fut[ins[j]].res => m.fut[ins[w]].rseq <= m.fut[ins[j]].rseq
InvAll ==
    \A c \in (NF + 1)..(NF + NC) : Comp(c).kind = "all" =>
        LET ins == Comp(c).ins IN
        /\ m.fut[c].res => /\ \A j \in 1..Len(ins) : m.fut[ins[j]].res
                           /\ m.fut[c].val = EncAll([j \in 1..Len(ins) |-> m.fut[ins[j]].val])
        /\ (m.fut[c].built /\ \A j \in 1..Len(ins) : m.fut[ins[j]].res) => m.fut[c].res
\* a process parked on a composite resumes at the instant the composite resolves, with its value
InvCompResume ==
    \A p \in 1..NP : \A n \in 1..Len(script[p]) :
        (script[p][n].k = "F" /\ IsComp(script[p][n].a)) =>
            LET c == script[p][n].a IN
            /\ Len(m.obs[p]) > n => /\ m.fut[c].res
                                    /\ m.obs[p][n + 1] = [t |-> Max2(RT(c), m.obs[p][n].t), v |-> m.fut[c].val]
            /\ (Done /\ Len(m.obs[p]) >= n /\ m.fut[c].res) => Len(m.obs[p]) > n
\* a resolved future never changes its value (second resolve is a no-op)
ValueStable == [][\A f \in DOMAIN m.fut : m.fut[f].res => (m'.fut[f].res /\ m'.fut[f].val = m.fut[f].val)]_vars
=========================================================================
