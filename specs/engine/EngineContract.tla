------------------------- MODULE EngineContract -------------------------
(* Contract of property C01, stated over observable data only.            *)
(* An event is a record with at least                                     *)
(*   t  : timestamp (Nat)          c : creation sequence number (unique)   *)
(*   d  : daemon flag              x : cancelled flag                      *)
(*   z  : target crashed (by an injected fault) at the event's timestamp   *)
(* "pending" = pushed into the simulation and not yet popped.              *)
EXTENDS Naturals, Sequences, FiniteSets

Inf == 999999          \* "no end_time"

\* creation-order FIFO among equal timestamps, otherwise time order
Before(a, b) == a.t < b.t \/ (a.t = b.t /\ a.c < b.c)

\* events of P that the engine still owes a delivery (live ones)
Eligible(P, clock) == { e \in P : ~e.x /\ e.t >= clock /\ ~e.z }

\* (b),(c): e may be delivered next only if no other live pending event precedes it
IsLegalNext(e, P, clock) ==
    /\ ~e.x                                    \* (e) cancelled events are never delivered
    /\ e.t >= clock                            \* (d) clock never moves backwards
    /\ \A o \in Eligible(P, clock) : o.c = e.c \/ ~Before(o, e)

\* (f) with no end_time a delivery needs a pending non-daemon event (pending is read
\*     permissively: cancelled-but-unpopped events still count, as DESIGN.md section 5 says)
MayDeliver(P, endT) == endT # Inf \/ \E o \in P : ~o.d

\* the run may stop only if nothing live that it owes is left
MayStop(P, clock, endT) ==
    IF endT = Inf THEN \A o \in Eligible(P, clock) : o.d
    ELSE clock > endT \/ \A o \in Eligible(P, clock) : o.t > endT

\* sortedness of a delivery log (sequence of event records)
Sorted(log) == \A i, j \in 1..Len(log) : i < j => ~Before(log[j], log[i])
NoDup(log)  == \A i, j \in 1..Len(log) : i # j => log[i].c # log[j].c
=========================================================================
