---------------------------- MODULE ProcessMC ----------------------------
EXTENDS Process
CAny(ins) == [kind |-> "any", ins |-> ins]
CAll(ins) == [kind |-> "all", ins |-> ins]
\* composite tables explored in model-checking mode (ids NF+1.. refer to earlier table rows)
MCCompsFlat == { <<>>, <<CAny(<<1, 2>>)>>, <<CAny(<<2, 1>>)>>, <<CAll(<<1, 2>>)>>, <<CAll(<<2, 1>>)>> }
MCCompsNested == { <<CAll(<<1, 2>>), CAny(<<3, 4>>)>>, <<CAll(<<1, 2>>), CAny(<<4, 3>>)>>,
                   <<CAny(<<1, 2>>), CAll(<<4, 3>>)>>, <<CAny(<<1, 2>>), CAny(<<3, 4>>)>> }

MCCompsAll == MCCompsFlat \cup MCCompsNested
==========================================================================
