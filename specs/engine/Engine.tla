----------------------------- MODULE Engine -----------------------------
(* Implementation-shaped model of happysimulator.core: Event creation      *)
(* (sort index drawn at creation), EventHeap push/pop with the lazy        *)
(* primary counter, and the pop-invoke-push loop of Simulation._run_loop / *)
(* _execute_until.  Handler results are chosen by TLC, so the reachable    *)
(* terminal states enumerate every program within the bounds.             *)
(*                                                                         *)
(* Deviations (constant Dev):                                              *)
(*  "per_heap_counter_restart": events created inside run() draw their     *)
(*     sort index from the heap's own counter, which starts at 0, while    *)
(*     events created before run() drew theirs from the module counter.    *)
EXTENDS Naturals, Integers, Sequences, FiniteSets, TLC, EngineContract

CONSTANTS Targets,    \* entity names
          MaxEv,      \* bound on events created in one behaviour
          MaxT,       \* largest timestamp
          EndT,       \* end_time, or Inf
          MaxOut,     \* handler fan-out bound
          AllowPast,  \* handlers may emit one tick into the past (user error; engine discards)
          Dev

VARIABLES ev,        \* 1..n -> [t, idx, tgt, d, x, par, cby]; id = creation order (ghost)
          heap,      \* ids in the heap
          nprim,     \* EventHeap._primary_event_count
          clock, phase, gctr, hctr,
          delivered, \* sequence of ids (ghost log)
          primOK     \* ghost: every delivery so far had a non-daemon event pending (EndT = Inf)
vars == <<ev, heap, nprim, clock, phase, gctr, hctr, delivered, primOK>>

N == Len(ev)
Restart == "per_heap_counter_restart" \in Dev

Key(i) == <<ev[i].t, ev[i].idx>>
KeyLess(i, j) == ev[i].t < ev[j].t \/ (ev[i].t = ev[j].t /\ ev[i].idx < ev[j].idx)
\* heapq pops a minimal element; equal keys (possible only under Restart) pop in either order
Minimal(i) == i \in heap /\ \A j \in heap : ~KeyLess(j, i)

Init ==
    /\ ev = <<>> /\ heap = {} /\ nprim = 0 /\ clock = 0 /\ phase = "build"
    /\ gctr = 0 /\ hctr = 0 /\ delivered = <<>> /\ primOK = TRUE

\* ---- model building: Event(...) ; sim.schedule(event) ---------------------
CreatePre(t, g, d) ==
    /\ phase = "build" /\ N < MaxEv
    /\ ev' = Append(ev, [t |-> t, idx |-> gctr, tgt |-> g, d |-> d, x |-> FALSE, par |-> 0, cby |-> 0])
    /\ gctr' = gctr + 1
    /\ heap' = heap \cup {N + 1}
    /\ nprim' = IF d THEN nprim ELSE nprim + 1
    /\ UNCHANGED <<clock, phase, hctr, delivered, primOK>>

StartRun ==
    /\ phase = "build" /\ phase' = "run"
    /\ UNCHANGED <<ev, heap, nprim, clock, gctr, hctr, delivered, primOK>>

\* ---- loop head ------------------------------------------------------------
LoopExit ==
    /\ phase = "run"
    /\ \/ heap = {}
       \/ (EndT # Inf /\ clock > EndT)
       \/ (EndT = Inf /\ nprim = 0)
    /\ phase' = "done"
    /\ UNCHANGED <<ev, heap, nprim, clock, gctr, hctr, delivered, primOK>>

CanPop == phase = "run" /\ heap # {} /\ (EndT = Inf \/ clock <= EndT) /\ (EndT # Inf \/ nprim > 0)

PopDiscard(i) ==     \* cancelled (lazy deletion) or time travel
    /\ CanPop /\ Minimal(i)
    /\ ev[i].x \/ ev[i].t < clock
    /\ heap' = heap \ {i}
    /\ nprim' = IF ev[i].d THEN nprim ELSE nprim - 1
    /\ UNCHANGED <<ev, clock, phase, gctr, hctr, delivered, primOK>>

\* a handler result: sequence of [dt, tgt, d] ; dt = -1 only if AllowPast
OutRec == [dt : (IF AllowPast THEN {-1} ELSE {}) \cup 0..MaxT, tgt : Targets, d : BOOLEAN]
Outs == UNION { [1..k -> OutRec] : k \in 0..MaxOut }

Deliver(i, outs, cancel) ==
    /\ CanPop /\ Minimal(i)
    /\ ~ev[i].x /\ ev[i].t >= clock
    /\ N + Len(outs) <= MaxEv
    /\ \A k \in 1..Len(outs) : ev[i].t + outs[k].dt \in 0..MaxT
    /\ cancel \subseteq (heap \ {i})
    /\ clock' = ev[i].t
    /\ delivered' = Append(delivered, i)
    /\ primOK' = (primOK /\ (EndT # Inf \/ \E j \in heap : ~ev[j].d))
    /\ LET base == IF Restart THEN hctr ELSE gctr
           new(k) == [t |-> ev[i].t + outs[k].dt, idx |-> base + k - 1, tgt |-> outs[k].tgt,
                      d |-> outs[k].d, x |-> FALSE, par |-> i, cby |-> 0]
           ev1 == [j \in 1..N |-> IF j \in cancel THEN [ev[j] EXCEPT !.x = TRUE, !.cby = i] ELSE ev[j]]
       IN /\ ev' = ev1 \o [k \in 1..Len(outs) |-> new(k)]
          /\ heap' = (heap \ {i}) \cup { N + k : k \in 1..Len(outs) }
          /\ nprim' = nprim - (IF ev[i].d THEN 0 ELSE 1)
                            + Cardinality({ k \in 1..Len(outs) : ~outs[k].d })
          /\ IF Restart THEN hctr' = hctr + Len(outs) /\ gctr' = gctr
                        ELSE gctr' = gctr + Len(outs) /\ hctr' = hctr
    /\ UNCHANGED phase

Next ==
    \/ \E t \in 0..MaxT, g \in Targets, d \in BOOLEAN : CreatePre(t, g, d)
    \/ StartRun
    \/ LoopExit
    \/ \E i \in heap : PopDiscard(i)
    \/ \E i \in heap : \E k \in 0..(IF MaxEv - N < MaxOut THEN MaxEv - N ELSE MaxOut) :
          \E outs \in [1..k -> OutRec], c \in {{}} \cup { {j} : j \in heap \ {i} } : Deliver(i, outs, c)

Spec == Init /\ [][Next]_vars

\* ---- contract (C01) evaluated on the model's observable history ------------
Rec(i) == [t |-> ev[i].t, c |-> i, d |-> ev[i].d, x |-> ev[i].x, z |-> FALSE]
Log == [k \in 1..Len(delivered) |-> Rec(delivered[k])]
Pending == { Rec(i) : i \in heap }

InvOrder == Sorted(Log)                                   \* (b) (c)
InvOnce == NoDup(Log)                                     \* (a) at most once
InvNoCancelled == \A k \in 1..Len(delivered) : ~ev[delivered[k]].x   \* (e)
InvClock == delivered # <<>> => clock = ev[delivered[Len(delivered)]].t   \* (d)
InvDone == phase = "done" => MayStop(Pending, clock, EndT)  \* (a) nothing owed, (f) stop rule
InvDaemon == primOK                                       \* (f) daemons alone never advance
ClockMonotone == [][clock' >= clock]_vars
\* the code's lazy counter equals the true number of non-daemon events in the heap
InvPrimCounter == nprim = Cardinality({ i \in heap : ~ev[i].d })

\* every live event that precedes the current clock has been delivered (no loss)
InvNoLoss ==
    \A i \in 1..N : (i \notin heap /\ ~ev[i].x /\ ev[i].par \in {0} \cup {delivered[k] : k \in 1..Len(delivered)}
                     /\ (ev[i].par = 0 \/ ev[i].t >= ev[ev[i].par].t))
                    => \E k \in 1..Len(delivered) : delivered[k] = i
=========================================================================
