--------------------------- MODULE EngineTrace ---------------------------
(* Trace validation for C01 (and the engine clauses reused by C02/C04/C07).  *)
(* Input: IOEnv.TRACE_FILE = JSON array of traces recorded from the real     *)
(* engine by harness/probe.py:                                               *)
(*   [ id |-> n, endT |-> rank | 999999,                                     *)
(*     evs |-> << <<t, daemon, pdaemon>>, ... >>   (index = creation order;   *)
(*              pdaemon = daemon flag of the event whose process a          *)
(*              continuation continues, = daemon for ordinary events),      *)
(*     log |-> << <<"p",e,clk>>, <<"x",e>>, <<"o",e>>, <<"i",e,now>>,         *)
(*                <<"k",e>>, <<"w">>, <<"end",clk>> ... >> ]                  *)
(* The spec is total: every trace gets exactly one verdict line              *)
(*   <<"V", id, verdict, position>>   verdict = "ACCEPT" | "PROP:..." | "MODEL:..." *)
(* PROP: a C01 contract predicate (EngineContract) is false on the observed   *)
(* execution.  MODEL: the log is outside the vocabulary this spec understands.*)
EXTENDS Naturals, Sequences, FiniteSets, TLC, Json, IOUtils, EngineContract

Traces == JsonDeserialize(IOEnv.TRACE_FILE)
NT == Len(Traces)

VARIABLES ti, l, P, X, clock, cur, done, bad
vars == <<ti, l, P, X, clock, cur, done, bad>>

Tr == Traces[ti]
T(e) == Tr.evs[e][1]
D(e) == Tr.evs[e][2]
\* a process started by a daemon event stays daemon: its continuations must not turn into primary
\* events that keep an auto-terminating run alive (C01 clause f)
ProcessFlagOK(e) == Tr.evs[e][3] => Tr.evs[e][2]
Z(e) == Tr.evs[e][4]       \* target crashed at the event's timestamp (fault windows known to the harness)
R(e) == [t |-> T(e), c |-> e, d |-> D(e), x |-> e \in X, z |-> Z(e)]
Recs(S) == { R(e) : e \in S }

Init == ti = 1 /\ l = 1 /\ P = {} /\ X = {} /\ clock = 0 /\ cur = 0 /\ done = {} /\ bad = ""

\* a popped event that never reached invoke was discarded by the engine: it must not be live
LostCur == cur # 0 /\ cur \notin X /\ T(cur) >= clock /\ ~Z(cur)

DeliverVerdict(e, now) ==
    IF e # cur THEN "MODEL:invoke_without_pop"
    ELSE IF e \in X THEN "PROP:cancelled_delivered"
    ELSE IF T(e) < clock THEN "PROP:clock_backwards"
    ELSE IF now # T(e) THEN "PROP:now_mismatch"
    ELSE IF e \in done THEN "PROP:delivered_twice"
    ELSE IF ~IsLegalNext(R(e), Recs(P), clock) THEN "PROP:order"
    ELSE IF ~MayDeliver(Recs(P \cup {e}), Tr.endT) THEN "PROP:daemon_only_delivery"
    ELSE ""

StepRec(r) ==
    CASE r[1] = "p" ->
           /\ bad' = (IF r[2] \in P THEN "MODEL:double_push" ELSE "")
           /\ P' = P \cup {r[2]} /\ UNCHANGED <<X, clock, cur, done>>
      [] r[1] = "x" -> X' = X \cup {r[2]} /\ bad' = "" /\ UNCHANGED <<P, clock, cur, done>>
      [] r[1] = "o" ->
           /\ bad' = (IF LostCur THEN "PROP:live_event_discarded"
                      ELSE IF r[2] \notin P THEN "MODEL:pop_unknown" ELSE "")
           /\ P' = P \ {r[2]} /\ cur' = r[2] /\ UNCHANGED <<X, clock, done>>
      [] r[1] = "i" ->
           /\ bad' = (IF ~ProcessFlagOK(r[2]) /\ Tr.endT = Inf THEN "PROP:daemon_process_turned_primary"
                      ELSE DeliverVerdict(r[2], r[3]))
           /\ clock' = T(r[2]) /\ done' = done \cup {r[2]} /\ cur' = 0 /\ UNCHANGED <<P, X>>
      [] r[1] = "k" ->
           /\ bad' = (IF r[2] # cur THEN "MODEL:invoke_without_pop" ELSE "")
           /\ clock' = (IF T(r[2]) > clock THEN T(r[2]) ELSE clock) /\ cur' = 0
           /\ UNCHANGED <<P, X, done>>
      [] r[1] = "w" -> bad' = "" /\ UNCHANGED <<P, X, clock, cur, done>>
      [] r[1] = "end" ->
           /\ bad' = (IF LostCur THEN "PROP:live_event_discarded"
                      ELSE IF ~MayStop(Recs(P), clock, Tr.endT) THEN "PROP:stopped_with_live_events"
                      ELSE "")
           /\ cur' = 0 /\ UNCHANGED <<P, X, clock, done>>
      [] OTHER -> bad' = "MODEL:unknown_record" /\ UNCHANGED <<P, X, clock, cur, done>>

Finish(verdict, pos) ==
    /\ PrintT(<<"V", Tr.id, verdict, pos>>)
    /\ ti' = ti + 1 /\ l' = 1 /\ P' = {} /\ X' = {} /\ clock' = 0 /\ cur' = 0 /\ done' = {} /\ bad' = ""

Next ==
    /\ ti <= NT
    /\ IF bad # "" THEN Finish(bad, l - 1)
       ELSE IF l > Len(Tr.log) THEN Finish("ACCEPT", l - 1)
       ELSE StepRec(Tr.log[l]) /\ l' = l + 1 /\ ti' = ti

Spec == Init /\ [][Next]_vars
AllDone == ti = NT + 1
=========================================================================
