------------------------------ MODULE Limited ------------------------------
(* Implementation-shaped model of RateLimitedEntity                          *)
(* (happysimulator/components/rate_limiter/rate_limited_entity.py) wrapping   *)
(* a token bucket (P ticks per token, capacity C tokens), inside the engine:  *)
(* events are delivered in time order; a request event that was scheduled     *)
(* before the run carries a smaller creation index than any poll event, so    *)
(* at one instant every such arrival is delivered before the poll of that     *)
(* instant (engine rule, property C01).                                       *)
(*                                                                            *)
(*   Arrive   _handle_request(event)          Poll   _handle_poll(event)      *)
(*   Tick     the clock moves to the next instant (only if no poll is due)    *)
(*                                                                            *)
(* Deviations:                                                                *)
(*   admit_bypasses_queue (REAL, open finding): _handle_request asks the      *)
(*       policy first, so a request that arrives while older requests are     *)
(*       still queued is forwarded ahead of them when the policy has a token  *)
(*       (the arrival instant equals the pending drain-poll instant).         *)
(*       With Dev = {} a request that finds the policy willing while older   *)
(*       requests wait lets the oldest one use the token and queues up itself.*)
(*   poll_pop_before_acquire: _handle_poll pops the head before asking the    *)
(*       policy and loses it when the policy denies.                          *)
(*   poll_pops_newest: the drain takes the newest queued request.             *)
EXTENDS Integers, Sequences, FiniteSets, TLC

CONSTANTS P, C, QCap, MaxReq, MaxT, Dev
None == -1
Min(a, b) == IF a < b THEN a ELSE b
Has(d) == d \in Dev

VARIABLES now, credit, last,    \* clock; token bucket
          queue,                \* FIFO buffer of request ids
          pollAt,               \* instant of the single outstanding poll event (None = _poll_scheduled False)
          polled,               \* a poll already ran at this instant
          nreq,                 \* requests received (ids 1..nreq in arrival order)
          fwd,                  \* observable: <<id, instant>> forwarded downstream, in order
          dropped               \* observable: ids dropped
vars == <<now, credit, last, queue, pollAt, polled, nreq, fwd, dropped>>

\* token bucket (same machine as Limiters.tla "tb"); returns <<credit', last'>>
Refill == IF last = None THEN <<credit, now>>
          ELSE IF now <= last THEN <<credit, last>>
          ELSE <<Min(C * P, credit + (now - last)), now>>
\* time_until_available after the bucket state <<c, l>> (already refilled at `now`)
TuaOf(c) == IF c >= P THEN 0 ELSE P - c

Init == /\ now = 0 /\ credit = C * P /\ last = None /\ queue = <<>> /\ pollAt = None /\ polled = FALSE
        /\ nreq = 0 /\ fwd = <<>> /\ dropped = <<>>

Arrive ==
    /\ nreq < MaxReq /\ ~polled
    /\ LET id == nreq + 1
           r == Refill
           ok == r[1] >= P                                        \* try_acquire(now)
           c1 == IF ok THEN r[1] - P ELSE r[1]
           l1 == r[2]
       IN /\ nreq' = id /\ credit' = c1 /\ last' = l1
          /\ IF ok /\ (Has("admit_bypasses_queue") \/ queue = <<>>)
             THEN /\ fwd' = Append(fwd, <<id, now>>)
                  /\ UNCHANGED <<queue, pollAt, dropped>>
             ELSE IF ok                  \* older requests wait: the oldest uses the token, this one lines up
             THEN /\ fwd' = Append(fwd, <<queue[1], now>>)
                  /\ queue' = Append(Tail(queue), id)
                  /\ UNCHANGED <<pollAt, dropped>>
             ELSE IF Len(queue) < QCap
             THEN /\ queue' = Append(queue, id)
                  /\ pollAt' = IF pollAt = None THEN now + TuaOf(c1) ELSE pollAt   \* _ensure_poll_scheduled
                  /\ UNCHANGED <<fwd, dropped>>
             ELSE /\ dropped' = Append(dropped, id)
                  /\ UNCHANGED <<queue, pollAt, fwd>>
    /\ UNCHANGED <<now, polled>>

PopIdx == IF Has("poll_pops_newest") THEN Len(queue) ELSE 1
Without(q, i) == [k \in 1..(Len(q) - 1) |-> IF k < i THEN q[k] ELSE q[k + 1]]

Poll ==
    /\ pollAt = now
    /\ polled' = TRUE
    /\ IF queue = <<>>
       THEN /\ pollAt' = None /\ UNCHANGED <<credit, last, queue, fwd, dropped>>
       ELSE LET r == Refill
                ok == r[1] >= P
                c1 == IF ok THEN r[1] - P ELSE r[1]
                q1 == Without(queue, PopIdx)
            IN /\ credit' = c1 /\ last' = r[2]
               /\ IF ok
                  THEN /\ fwd' = Append(fwd, <<queue[PopIdx], now>>) /\ queue' = q1
                       /\ pollAt' = IF q1 = <<>> THEN None ELSE now + TuaOf(c1)
                  ELSE /\ fwd' = fwd
                       /\ queue' = IF Has("poll_pop_before_acquire") THEN q1 ELSE queue
                       /\ pollAt' = now + TuaOf(c1)
               /\ UNCHANGED dropped
    /\ UNCHANGED <<now, nreq>>

Tick == /\ now < MaxT /\ (pollAt = None \/ pollAt > now)
        /\ now' = now + 1 /\ polled' = FALSE
        /\ UNCHANGED <<credit, last, queue, pollAt, nreq, fwd, dropped>>

Next == Arrive \/ Poll \/ Tick
Spec == Init /\ [][Next]_vars

-----------------------------------------------------------------------------
\* CONTRACT (C10, entity clause), observables only
Ids(s) == {s[i] : i \in 1..Len(s)}
FwdIds == [i \in 1..Len(fwd) |-> fwd[i][1]]
Occ(s, x) == Cardinality({i \in 1..Len(s) : s[i] = x})
\* every request is forwarded, queued or dropped exactly once
InvExactlyOnce == \A id \in 1..nreq : Occ(FwdIds, id) + Occ(queue, id) + Occ(dropped, id) = 1
InvAccounting == nreq = Len(fwd) + Len(queue) + Len(dropped)
\* requests are forwarded in arrival order
InvOrder == \A i, j \in 1..Len(fwd) : i < j => fwd[i][1] < fwd[j][1]
\* (mechanism sanity, not a clause) a non-empty queue always has its drain poll outstanding
InvPollArmed == queue # <<>> => pollAt # None
=============================================================================
