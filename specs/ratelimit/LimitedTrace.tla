--------------------------- MODULE LimitedTrace ---------------------------
(* Trace validation for property C10, entity level: executions of the REAL   *)
(* RateLimitedEntity (also Inductor / NullRateLimiter / DistributedRate-      *)
(* Limiter for the accounting clauses) inside a real Simulation, recorded by  *)
(* harness/families/c10_entity.py at every handler return.                    *)
(*   [ id, cap (queue capacity), model (1 = replay the RateLimitedEntity      *)
(*     handler model), order (1 = judge the arrival-order clause: only the    *)
(*     RateLimitedEntity, the statement's "rate-limited entity"), spin (0 | 1: the run was aborted because the drain     *)
(*     poll re-ran > K times at one instant and the policy calls do not       *)
(*     explain it),                                                           *)
(*     steps: << <<kind, rid, acq, out, fid, poll, recv, fwd, depth, drop>> >> *)
(*        kind "r" request handler | "p" poll handler                         *)
(*        rid  request id in arrival order (0 for a poll)                     *)
(*        acq  result of policy.try_acquire in this handler (1 | 0 | -1 none) *)
(*        out  "f" forwarded | "q" queued | "d" dropped | "n" nothing |       *)
(*             "x" inconsistent                                               *)
(*        fid  id carried by the returned forward event (0 none)              *)
(*        poll 1 iff the handler returned a poll event                        *)
(*        recv, fwd, depth, drop  the entity's public counters afterwards     *)
(*     sink: ids in the order the downstream entity received them ]           *)
(* Verdict lines: <<"V", id, verdict, pos>> and <<"M", id, modelVerdict, pos>>*)
(*                                                                            *)
(* CONTRACT (observables only):                                               *)
(*   accounting     received = forwarded + queue depth + dropped, always      *)
(*   request_lost   a request handler neither forwarded, queued nor dropped   *)
(*   exactly_once   a request id forwarded twice / forwarded and dropped /    *)
(*                  forwarded without having been received or queued          *)
(*   order          downstream receives ids out of arrival order              *)
(*   order_fresh_overtakes_queued   same, and every overtaking request was    *)
(*                  forwarded by its own request handler while older requests *)
(*                  were queued (open finding admit_bypasses_queue)           *)
(*   drain_spins    the drain poll spins at a frozen clock                    *)
EXTENDS Integers, Sequences, FiniteSets, TLC, Json, IOUtils

CONSTANT Dev
Traces == JsonDeserialize(IOEnv.TRACE_FILE)
NT == Len(Traces)
Bypass == "admit_bypasses_queue" \in Dev

VARIABLES ti, l, Q, armed, done, drp, fresh, cnt, bad, mbad, mpos, kbad, kpos
vars == <<ti, l, Q, armed, done, drp, fresh, cnt, bad, mbad, mpos, kbad, kpos>>
\* Q: ids queued (reconstructed from observed outcomes), armed: model _poll_scheduled,
\* done: ids forwarded so far (sequence), drp: ids dropped, fresh: ids forwarded on arrival past a
\* non-empty queue, cnt: previous counters <<recv, fwd, depth, drop>>

T == Traces[ti]
Ids(s) == {s[i] : i \in 1..Len(s)}
Remove(q, x) == SelectSeq(q, LAMBDA y : y # x)

Init == /\ ti = 1 /\ l = 1 /\ Q = <<>> /\ armed = FALSE /\ done = <<>> /\ drp = {} /\ fresh = {}
        /\ cnt = <<0, 0, 0, 0>> /\ bad = "" /\ mbad = "" /\ mpos = 0 /\ kbad = "" /\ kpos = 0

\* contract verdict for a forward of id x
FwdVerdict(x, isFresh) ==
    IF x \in Ids(done) \/ x \in drp THEN "PROP:exactly_once"
    ELSE LET over == {y \in Ids(done) : y > x} IN
         IF over = {} \/ T.order # 1 THEN ""
         ELSE IF over \subseteq fresh THEN "PROP:order_fresh_overtakes_queued" ELSE "PROP:order"

Step(r) ==
    LET kind == r[1]
        rid == r[2]
        acq == r[3]
        out == r[4]
        fid == r[5]
        poll == r[6]
        c == <<r[7], r[8], r[9], r[10]>>
        isReq == kind = "r"
        fwdNow == fid # 0
        isFresh == isReq /\ fwdNow /\ fid = rid /\ Q # <<>>
        acct == c[1] = c[2] + c[3] + c[4]
        dRecv == c[1] - cnt[1]
        v0 == IF ~acct THEN "PROP:accounting"
              ELSE IF isReq /\ dRecv # 1 THEN "PROP:accounting"
              ELSE IF isReq /\ out \in {"x", "n"} THEN "PROP:request_lost"
              ELSE IF isReq /\ fwdNow /\ fid # rid /\ fid \notin Ids(Q) THEN "PROP:exactly_once"
              ELSE IF ~isReq /\ fwdNow /\ fid \notin Ids(Q) THEN "PROP:exactly_once"
              ELSE IF fwdNow THEN FwdVerdict(fid, isFresh) ELSE ""
        knownCls == v0 = "PROP:order_fresh_overtakes_queued" /\ Bypass
        \* handler model (as the code is; with Bypass off a request admitted while older ones wait
        \* hands the token to the oldest and queues up itself)
        expAsk == IF isReq THEN TRUE ELSE Q # <<>>
        m0 == IF T.model # 1 THEN ""
              ELSE IF expAsk /\ acq = -1 THEN "MODEL:acquire_expected"
              ELSE IF ~expAsk /\ acq # -1 THEN "MODEL:acquire_unexpected"
              ELSE IF isReq THEN
                   (IF acq = 1 /\ (Bypass \/ Q = <<>>)
                    THEN (IF out = "f" /\ fid = rid /\ poll = 0 THEN "" ELSE "MODEL:request_admitted")
                    ELSE IF acq = 1      \* as designed: the oldest queued request is forwarded, this one queues
                    THEN (IF out = "q" /\ fid = Q[1] /\ poll = 0 THEN "" ELSE "MODEL:request_admitted_behind_queue")
                    ELSE IF Len(Q) < T.cap THEN (IF out = "q" /\ fid = 0 /\ poll = (IF armed THEN 0 ELSE 1) THEN "" ELSE "MODEL:request_queued")
                    ELSE (IF out = "d" /\ poll = 0 THEN "" ELSE "MODEL:request_dropped"))
              ELSE (IF Q = <<>> THEN (IF ~fwdNow /\ poll = 0 THEN "" ELSE "MODEL:poll_empty")
                    ELSE IF acq = 1 THEN (IF fid = Q[1] /\ poll = (IF Len(Q) > 1 THEN 1 ELSE 0) THEN "" ELSE "MODEL:poll_forward")
                    ELSE (IF ~fwdNow /\ poll = 1 THEN "" ELSE "MODEL:poll_denied"))
    IN /\ bad' = (IF knownCls THEN "" ELSE v0)
       /\ IF knownCls /\ kbad = "" THEN kbad' = v0 /\ kpos' = l ELSE UNCHANGED <<kbad, kpos>>
       /\ IF m0 # "" /\ mbad = "" THEN mbad' = m0 /\ mpos' = l ELSE UNCHANGED <<mbad, mpos>>
       /\ Q' = (LET q1 == IF fwdNow THEN Remove(Q, fid) ELSE Q
                IN IF isReq /\ out = "q" THEN Append(q1, rid) ELSE q1)
       /\ done' = (IF fwdNow THEN Append(done, fid) ELSE done)
       /\ drp' = (IF isReq /\ out = "d" THEN drp \cup {rid} ELSE drp)
       /\ fresh' = (IF isFresh THEN fresh \cup {fid} ELSE fresh)
       /\ armed' = (IF poll = 1 THEN TRUE ELSE IF isReq THEN armed ELSE FALSE)
       /\ cnt' = c

\* end of trace: exactly-once over the whole run, sink consistency, spin
EndVerdict ==
    LET recv == cnt[1]
        all == 1..recv
        f == Ids(done)
        q == Ids(Q)
    IN IF T.spin = 1 THEN "PROP:drain_spins"
       ELSE IF Len(done) # Cardinality(f) THEN "PROP:exactly_once"
       ELSE IF (f \cup q \cup drp) # all \/ f \cap q # {} \/ f \cap drp # {} \/ q \cap drp # {} THEN "PROP:exactly_once"
       ELSE IF Len(Q) # cnt[3] \/ Len(done) # cnt[2] \/ Cardinality(drp) # cnt[4] THEN "PROP:accounting"
       ELSE ""
\* the downstream log is the forward log, except for a tail still undelivered when the run ended
IsPrefix(a, b) == Len(a) <= Len(b) /\ \A i \in 1..Len(a) : a[i] = b[i]
EndModel == IF ~IsPrefix(T.sink, done) THEN "MODEL:sink_differs_from_forwards" ELSE ""

Finish(verdict, pos, mv, mp) ==
    /\ PrintT(<<"V", T.id, verdict, pos>>)
    /\ PrintT(<<"M", T.id, mv, mp, IF kbad = "" THEN 0 ELSE 1, kpos>>)
    /\ ti' = ti + 1 /\ l' = 1 /\ Q' = <<>> /\ armed' = FALSE /\ done' = <<>> /\ drp' = {} /\ fresh' = {}
    /\ cnt' = <<0, 0, 0, 0>> /\ bad' = "" /\ mbad' = "" /\ mpos' = 0 /\ kbad' = "" /\ kpos' = 0

Next ==
    /\ ti <= NT
    /\ IF bad # "" THEN Finish(bad, l - 1, mbad, mpos)
       ELSE IF l > Len(T.steps)
       THEN LET ev == EndVerdict
                mv == IF mbad # "" THEN mbad ELSE EndModel
                mp == IF mbad # "" THEN mpos ELSE l - 1
            IN IF ev # "" THEN Finish(ev, l - 1, mv, mp)
               ELSE IF kbad # "" THEN Finish(kbad, kpos, mv, mp)
               ELSE IF mv # "" THEN Finish(mv, mp, mv, mp)
               ELSE Finish("ACCEPT", l - 1, "", 0)
       ELSE Step(T.steps[l]) /\ l' = l + 1 /\ ti' = ti

Spec == Init /\ [][Next]_vars
=============================================================================
