--------------------------- MODULE LimiterTrace ---------------------------
(* Trace validation for property C10, policy level.                         *)
(* Input: IOEnv.TRACE_FILE = JSON array of executions of the REAL policy     *)
(* objects (happysimulator/components/rate_limiter/policy.py) recorded by    *)
(* harness/families/c10.py.  Times are integer nanoseconds relative to the   *)
(* trace's base instant (a multiple of the window for "fw", so window -1     *)
(* exists and a boundary admit at relative 0 may belong to it), all < 2^31.   *)
(*   [ id, pol ("tb"|"lb"|"sw"|"fw"|"ad"), mc (1 = run the exact model),     *)
(*     g   guard band in ns (float vs exact arithmetic),                     *)
(*     P   floor(1e9/rate) ns per token (tb, lb),  cc  capacity in ns of     *)
(*     credit (tb), ic initial credit (tb),  W window in ns (sw, fw, ad),    *)
(*     N   max requests (sw, fw),                                            *)
(*     rmin, rmax, r0 (micro-tokens/s), p0 = floor(1e9/initial rate),        *)
(*     step (micro-tokens/s), fn/fd decrease factor (ad),                    *)
(*     ops: << <<"a", t, ok>>, <<"u", t, wait>>, <<"s"|"f", t, rate_u, pf>> >> ] *)
(* One verdict line per trace:                                               *)
(*   <<"V", id, verdict, pos>>  and  <<"M", id, modelVerdict, modelPos,        *)
(*                                        knownSeen (0|1), knownPos>>          *)
(* (a failure of the class named by a deviation in Dev is recorded in        *)
(* knownVerdict and the trace is judged to its end, so that a known finding  *)
(* does not mask a different violation later in the same execution)          *)
(* verdict = "ACCEPT" | "PROP:<clause>" (a clause of the C10 statement is    *)
(* false on the observed execution) | "MODEL:<what>" (the code left the      *)
(* exact model outside the guard band but no clause is false = drift).       *)
(*                                                                           *)
(* CONTRACT (observables only; slack of 1 ns for Duration/Instant            *)
(* truncation, boundary instants of fixed windows may count for either       *)
(* adjacent window within g ns):                                             *)
(*   tb_bound      n admits in [ti,tj]  =>  n <= (cc + (tj-ti) + 1) \div P    *)
(*   lb_spacing    consecutive admits >= P - 1 apart                         *)
(*   sw_window     admits i and i+N are >= W - 1 apart                       *)
(*   fw_aligned    admits can be attributed to aligned windows, <= N each    *)
(*   fw_2n         admits i and i+2N are >= W - 1 apart                      *)
(*   ad_bound      n <= (W + (tj-ti) + 1) \div pmin, pmin = ns per token at   *)
(*                 the largest rate in force during [ti,tj] (the initial     *)
(*                 fill counts for an interval starting at the first call)   *)
(*   ad_rate_range rmin <= rate <= rmax after every feedback                 *)
(*   tua_zero      time_until_available = 0 and the acquire at that instant  *)
(*                 is denied  (tua_zero_fw_boundary: same, fixed window,     *)
(*                 instant within g of an aligned boundary: the open         *)
(*                 finding fixed_window_tua_zero_at_boundary)                *)
(*   tua_early     an acquire succeeded more than 1 ns before a returned     *)
(*                 wait had elapsed (no rate-raising feedback in between)    *)
(*   drain_stall   more than DrainMax consecutive positive waits when        *)
(*                 repeatedly waiting exactly the returned duration          *)
EXTENDS Integers, Sequences, FiniteSets, TLC, Json, IOUtils

CONSTANT Dev      \* deviations the pinned code is known to have (as-code model)

Traces == JsonDeserialize(IOEnv.TRACE_FILE)
NT == Len(Traces)
DrainMax == 5

Min(a, b) == IF a < b THEN a ELSE b
Max(a, b) == IF a > b THEN a ELSE b
Abs(a) == IF a < 0 THEN -a ELSE a

VARIABLES ti, l, S, adm, promise, pz, chain, chainT, bad, mbad, mpos, kbad, kpos,
          curPf, curRu, instT, instMin, firstT, pmin, aw, ac, lastT
vars == <<ti, l, S, adm, promise, pz, chain, chainT, bad, mbad, mpos, kbad, kpos,
          curPf, curRu, instT, instMin, firstT, pmin, aw, ac, lastT>>

T == Traces[ti]
G == T.g
KnownFw == "fw_boundary_floor_tua_zero" \in Dev

-----------------------------------------------------------------------------
\* exact models with guard band: sets of outcomes the model allows
CapAdd(c, e) == IF e >= T.cc - c THEN T.cc ELSE c + e
TbRef(s, t) == IF s.last = -1 THEN [s EXCEPT !.last = t]
               ELSE IF t <= s.last THEN s ELSE [c |-> CapAdd(s.c, t - s.last), last |-> t]
TbAcqSet(s, t) == LET r == TbRef(s, t) IN
    (IF r.c >= T.P - G THEN {<<1, [r EXCEPT !.c = @ - T.P]>>} ELSE {})
    \cup (IF r.c < T.P + G THEN {<<0, r>>} ELSE {})
TbTuaSet(s, t, w) == LET r == TbRef(s, t) IN
    IF w = 0 THEN (IF r.c >= T.P - G THEN {r} ELSE {})
    ELSE (IF r.c < T.P + G /\ Abs(w - Max(1, T.P - r.c)) <= G + 1 THEN {r} ELSE {})

LbAcqSet(s, t) ==
    IF s.last = -1 THEN {<<1, [last |-> t]>>}
    ELSE LET e == t - s.last IN
         (IF e >= T.P - G THEN {<<1, [last |-> t]>>} ELSE {}) \cup (IF e < T.P + G THEN {<<0, s>>} ELSE {})
LbTuaSet(s, t, w) ==
    IF s.last = -1 THEN (IF w = 0 THEN {s} ELSE {})
    ELSE LET rem == T.P - (t - s.last) IN
         IF w = 0 THEN (IF rem <= G THEN {s} ELSE {})
         ELSE (IF rem > -G /\ Abs(w - Max(1, rem)) <= G + 1 THEN {s} ELSE {})

SwPr(log, t) == SelectSeq(log, LAMBDA x : x >= t - T.W - G)
CntMin(lg, t) == Cardinality({i \in 1..Len(lg) : lg[i] > t - T.W + G})
SwAcqSet(s, t) == LET lg == SwPr(s.log, t) IN
    (IF CntMin(lg, t) < T.N THEN {<<1, [log |-> Append(lg, t)]>>} ELSE {})
    \cup (IF Len(lg) >= T.N THEN {<<0, [log |-> lg]>>} ELSE {})
SwTuaSet(s, t, w) == LET lg == SwPr(s.log, t) IN
    IF w = 0 THEN (IF CntMin(lg, t) < T.N THEN {[log |-> lg]} ELSE {})
    ELSE (IF Len(lg) >= T.N /\ \E i \in 1..Len(lg) : Abs(w - Max(1, lg[i] + T.W - t)) <= G + 1
          THEN {[log |-> lg]} ELSE {})

NearB(t) == t % T.W <= G \/ t % T.W >= T.W - G
Ks(t) == LET k == t \div T.W
             r == t % T.W
         IN {k} \cup (IF r <= G THEN {k - 1} ELSE {}) \cup (IF r >= T.W - G THEN {k + 1} ELSE {})
FwRes(s, kk) == IF kk > s.win THEN [win |-> kk, cnt |-> 0] ELSE s
FwAcqSet(s, t) == UNION { LET r == FwRes(s, kk) IN
                          IF r.cnt < T.N THEN {<<1, [r EXCEPT !.cnt = @ + 1]>>} ELSE {<<0, r>>} : kk \in Ks(t) }
FwTuaSet(s, t, w) == UNION { LET r == FwRes(s, kk) IN
        IF r.cnt < T.N THEN (IF w = 0 THEN {r} ELSE {})
        ELSE IF w = 0 THEN (IF KnownFw /\ NearB(t) THEN {r} ELSE {})
        ELSE (IF Abs(w - Max(1, (r.win + 1) * T.W - t)) <= G + 1 THEN {r} ELSE {}) : kk \in Ks(t) }

Dummy == [x |-> 0]
AcqSet(s, t) == CASE T.pol = "tb" -> TbAcqSet(s, t) [] T.pol = "lb" -> LbAcqSet(s, t)
                  [] T.pol = "sw" -> SwAcqSet(s, t) [] T.pol = "fw" -> FwAcqSet(s, t)
                  [] OTHER -> {<<0, Dummy>>, <<1, Dummy>>}
TuaSet(s, t, w) == CASE T.pol = "tb" -> TbTuaSet(s, t, w) [] T.pol = "lb" -> LbTuaSet(s, t, w)
                     [] T.pol = "sw" -> SwTuaSet(s, t, w) [] T.pol = "fw" -> FwTuaSet(s, t, w)
                     [] OTHER -> {Dummy}
\* every state the model could be in after the call, whatever it answered
TuaAny(s, t) == CASE T.pol = "tb" -> {TbRef(s, t)} [] T.pol = "lb" -> {s}
                  [] T.pol = "sw" -> {[log |-> SwPr(s.log, t)]}
                  [] T.pol = "fw" -> {FwRes(s, kk) : kk \in Ks(t)}
                  [] OTHER -> {Dummy}
InitS(tr) == CASE tr.pol = "tb" -> {[c |-> tr.ic, last |-> -1]} [] tr.pol = "lb" -> {[last |-> -1]}
               [] tr.pol = "sw" -> {[log |-> <<>>]} [] tr.pol = "fw" -> {[win |-> -2, cnt |-> 0]}
               [] OTHER -> {Dummy}

-----------------------------------------------------------------------------
Reset(i) ==
    /\ ti' = i /\ l' = 1 /\ adm' = <<>> /\ promise' = 0 /\ pz' = -1 /\ chain' = 0 /\ chainT' = -1
    /\ bad' = "" /\ mbad' = "" /\ mpos' = 0 /\ instT' = -1 /\ firstT' = -1 /\ pmin' = <<>>
    /\ kbad' = "" /\ kpos' = 0
    /\ aw' = -2 /\ ac' = 0 /\ lastT' = 0
    /\ IF i <= NT THEN S' = InitS(Traces[i]) /\ curPf' = Traces[i].p0 /\ curRu' = Traces[i].r0
                       /\ instMin' = Traces[i].p0
       ELSE S' = {} /\ curPf' = 0 /\ curRu' = 0 /\ instMin' = 0

Init ==
    /\ ti = 1 /\ l = 1 /\ adm = <<>> /\ promise = 0 /\ pz = -1 /\ chain = 0 /\ chainT = -1
    /\ bad = "" /\ mbad = "" /\ mpos = 0 /\ instT = -1 /\ firstT = -1 /\ pmin = <<>>
    /\ kbad = "" /\ kpos = 0
    /\ aw = -2 /\ ac = 0 /\ lastT = 0
    /\ IF NT >= 1 THEN S = InitS(Traces[1]) /\ curPf = Traces[1].p0 /\ curRu = Traces[1].r0
                       /\ instMin = Traces[1].p0
       ELSE S = {} /\ curPf = 0 /\ curRu = 0 /\ instMin = 0

\* rate in force at the instant of this call (smallest ns-per-token seen at instant t so far)
InstMinAt(t) == IF t = instT THEN instMin ELSE curPf

\* greedy attribution of an admit at t to an aligned window (earliest window with room)
FwCands(t) == {kk \in Ks(t) : kk > aw \/ (kk = aw /\ ac < T.N)}
FwPick(t) == CHOOSE kk \in FwCands(t) : \A q \in FwCands(t) : kk <= q

AdmitVerdict(t, newAdm, newPmin) ==
    LET j == Len(newAdm) IN
    CASE T.pol = "tb" ->
           IF \E i \in 1..j : (j - i + 1) > (T.cc + (t - newAdm[i]) + 1) \div T.P THEN "PROP:tb_bound" ELSE ""
      [] T.pol = "lb" -> IF j > 1 /\ t - newAdm[j - 1] < T.P - 1 THEN "PROP:lb_spacing" ELSE ""
      [] T.pol = "sw" -> IF j > T.N /\ t - newAdm[j - T.N] < T.W - 1 THEN "PROP:sw_window" ELSE ""
      [] T.pol = "fw" -> IF FwCands(t) = {} THEN "PROP:fw_aligned"
                         ELSE IF j > 2 * T.N /\ t - newAdm[j - 2 * T.N] < T.W - 1 THEN "PROP:fw_2n" ELSE ""
      [] T.pol = "ad" ->
           IF \E i \in 1..j : (j - i + 1) > (T.W + (t - newAdm[i]) + 1) \div newPmin[i] THEN "PROP:ad_bound" ELSE ""
      [] OTHER -> ""

StepAcq(r) ==
    LET t == r[2]
        ok == r[3]
        pairs == UNION {AcqSet(s, t) : s \in S}
        match == {p[2] : p \in {q \in pairs : q[1] = ok}}
        im == IF firstT = -1 \/ firstT = t THEN Min(InstMinAt(t), T.p0) ELSE InstMinAt(t)
        newAdm == IF ok = 1 THEN Append(adm, t) ELSE adm
        newPmin == IF ok = 1 THEN Append(pmin, im) ELSE pmin
        known == ok = 0 /\ pz = t /\ T.pol = "fw" /\ NearB(t) /\ KnownFw
        v == IF known THEN ""
             ELSE IF ok = 0 /\ pz = t
             THEN (IF T.pol = "fw" /\ NearB(t) THEN "PROP:tua_zero_fw_boundary" ELSE "PROP:tua_zero")
             ELSE IF ok = 1 /\ t + 1 < promise THEN "PROP:tua_early"
             ELSE IF ok = 1 THEN AdmitVerdict(t, newAdm, newPmin) ELSE ""
    IN /\ bad' = v
       /\ IF known /\ kbad = "" THEN kbad' = "PROP:tua_zero_fw_boundary" /\ kpos' = l
          ELSE UNCHANGED <<kbad, kpos>>
       /\ adm' = newAdm /\ pmin' = newPmin
       /\ IF T.mc = 1 /\ match = {}
          THEN /\ S' = {p[2] : p \in pairs}
               /\ IF mbad = "" THEN mbad' = (IF ok = 1 THEN "MODEL:admit_not_allowed" ELSE "MODEL:deny_not_allowed") /\ mpos' = l
                  ELSE UNCHANGED <<mbad, mpos>>
          ELSE S' = (IF T.mc = 1 THEN match ELSE S) /\ UNCHANGED <<mbad, mpos>>
       /\ IF ok = 1 /\ T.pol = "fw" /\ FwCands(t) # {}
          THEN LET kk == FwPick(t) IN aw' = kk /\ ac' = (IF kk = aw THEN ac + 1 ELSE 1)
          ELSE UNCHANGED <<aw, ac>>
       /\ pz' = -1 /\ chain' = 0 /\ chainT' = -1
       /\ instT' = t /\ instMin' = InstMinAt(t)
       /\ firstT' = IF firstT = -1 THEN t ELSE firstT
       /\ UNCHANGED <<promise, curPf, curRu>>

StepTua(r) ==
    LET t == r[2]
        w == r[3]
        match == UNION {TuaSet(s, t, w) : s \in S}
        nchain == IF w = 0 THEN 0 ELSE IF chain > 0 /\ t = chainT THEN chain + 1 ELSE 1
    IN /\ bad' = (IF nchain > DrainMax THEN "PROP:drain_stall" ELSE "")
       /\ IF T.mc = 1 /\ match = {}
          THEN /\ S' = UNION {TuaAny(s, t) : s \in S}
               /\ IF mbad = "" THEN mbad' = "MODEL:tua_value" /\ mpos' = l ELSE UNCHANGED <<mbad, mpos>>
          ELSE S' = (IF T.mc = 1 THEN match ELSE S) /\ UNCHANGED <<mbad, mpos>>
       /\ pz' = (IF w = 0 THEN t ELSE -1)
       /\ promise' = (IF w > 0 THEN Max(promise, t + w) ELSE promise)
       /\ chain' = nchain /\ chainT' = (IF w > 0 THEN t + w ELSE -1)
       /\ instT' = t /\ instMin' = InstMinAt(t)
       /\ firstT' = IF firstT = -1 THEN t ELSE firstT
       /\ UNCHANGED <<adm, pmin, aw, ac, curPf, curRu, kbad, kpos>>

StepFb(r) ==
    LET t == r[2]
        ru == r[3]
        pf == r[4]
        up == r[1] = "s"
        expect == IF up THEN Min(T.rmax, curRu + T.step) ELSE Max(T.rmin, (curRu * T.fn) \div T.fd)
        base == InstMinAt(t)
    IN /\ bad' = (IF ru < T.rmin \/ ru > T.rmax THEN "PROP:ad_rate_range" ELSE "")
       /\ IF Abs(ru - expect) > 2 /\ mbad = "" THEN mbad' = "MODEL:ad_rate" /\ mpos' = l
          ELSE UNCHANGED <<mbad, mpos>>
       /\ curRu' = ru /\ curPf' = pf
       /\ instT' = t /\ instMin' = Min(base, pf)
       /\ pmin' = [i \in 1..Len(pmin) |-> Min(pmin[i], pf)]
       /\ pz' = -1 /\ chain' = 0 /\ chainT' = -1
       /\ promise' = (IF up THEN 0 ELSE promise)
       /\ UNCHANGED <<S, adm, aw, ac, firstT, kbad, kpos>>

StepOp(r) ==
    IF r[2] < lastT
    THEN /\ bad' = "MODEL:time_not_monotone"
         /\ UNCHANGED <<S, adm, promise, pz, chain, chainT, mbad, mpos, curPf, curRu, instT, instMin,
                        firstT, pmin, aw, ac, lastT, kbad, kpos>>
    ELSE /\ lastT' = r[2]
         /\ CASE r[1] = "a" -> StepAcq(r)
              [] r[1] = "u" -> StepTua(r)
              [] r[1] \in {"s", "f"} -> StepFb(r)
              [] OTHER -> /\ bad' = "MODEL:unknown_op"
                          /\ UNCHANGED <<S, adm, promise, pz, chain, chainT, mbad, mpos, curPf, curRu,
                                         instT, instMin, firstT, pmin, aw, ac, kbad, kpos>>

Finish(verdict, pos) ==
    /\ PrintT(<<"V", T.id, verdict, pos>>)
    /\ PrintT(<<"M", T.id, mbad, mpos, IF kbad = "" THEN 0 ELSE 1, kpos>>)
    /\ Reset(ti + 1)

Next ==
    /\ ti <= NT
    /\ IF bad # "" THEN Finish(bad, l - 1)
       ELSE IF l > Len(T.ops) THEN (IF kbad # "" THEN Finish(kbad, kpos)
                                    ELSE IF mbad # "" THEN Finish(mbad, mpos) ELSE Finish("ACCEPT", l - 1))
       ELSE StepOp(T.ops[l]) /\ l' = l + 1 /\ ti' = ti

Spec == Init /\ [][Next]_vars
=============================================================================
