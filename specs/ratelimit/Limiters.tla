----------------------------- MODULE Limiters -----------------------------
(* Implementation-shaped model of happysimulator/components/rate_limiter/   *)
(* policy.py (property C10): the five policies as exact integer machines,   *)
(* one pure function per public call (try_acquire, time_until_available,    *)
(* record_success, record_failure), time in abstract ticks.                 *)
(*                                                                          *)
(*   "tb" TokenBucketPolicy   credit in ticks of refill; one token = P       *)
(*        ticks of credit; capacity C tokens, initial fill I tokens.          *)
(*   "lb" LeakyBucketPolicy   last admit instant; admits iff P ticks elapsed. *)
(*   "sw" SlidingWindowPolicy log of admit instants; entries older than      *)
(*        now-W are pruned (an entry exactly W old is kept, as in the code).  *)
(*   "fw" FixedWindowPolicy   window start (now \div W)*W and a counter.      *)
(*   "ad" AdaptivePolicy      token bucket whose refill rate (credit units    *)
(*        per tick, one token = U units, bucket = rate*W units) moves by      *)
(*        AIMD inside [RMin, RMax]; time_until_available truncates            *)
(*        deficit/rate like Duration.from_seconds does and has the 1-tick     *)
(*        progress guard.                                                     *)
(*                                                                          *)
(* Deviations (constant Dev); with Dev = {} the model is the intended       *)
(* design, each deviation alone must break a named contract invariant:      *)
(*   tb_refill_uncapped   _refill does not clip at capacity                  *)
(*   lb_no_stamp          an admit does not stamp _last_leak_time            *)
(*   sw_admit_at_limit    `len(log) <= max` instead of `<`                   *)
(*   fw_reset_ge          _maybe_reset resets when ws >= current start       *)
(*   fw_tua_full_window   time_until_available answers a whole window        *)
(*   ad_rate_unclamped    AIMD steps ignore min_rate / max_rate              *)
(*   ad_refill_uncapped   adaptive _refill does not clip at rate*window      *)
(*   tua_no_progress_guard  a wait that truncates to 0 is returned as 0      *)
(*   fw_boundary_floor_tua_zero  (REAL, open finding) the float floor        *)
(*        division `now_s // window` lands one window low on some exact      *)
(*        boundary instants k*W; the window is then not reset although       *)
(*        `next_window - now <= 0`, and time_until_available answers ZERO    *)
(*        while try_acquire at that instant is denied.  Modelled for odd k.  *)
EXTENDS Integers, Sequences, FiniteSets, TLC

CONSTANTS Policy, P, C, I, W, N, U, RMin, RMax, RInit, RStep, Dev,
          MaxT, MaxOps, MaxStep, DrainK

None == -1
Min(a, b) == IF a < b THEN a ELSE b
Max(a, b) == IF a > b THEN a ELSE b
Has(d) == d \in Dev

VARIABLES now,        \* instant of the latest call
          st,         \* policy object state
          adm,        \* observable: instants at which try_acquire returned True
          nops,
          rates,      \* observable (ad): <<instant, rate>> after every feedback call
          firstCall,  \* instant of the first try_acquire/time_until_available call
          res         \* observable: result of the latest call
vars == <<now, st, adm, nops, rates, firstCall, res>>

-----------------------------------------------------------------------------
\* TokenBucketPolicy
TbRefill(s, t) ==
    IF s.last = None THEN [s EXCEPT !.last = t]
    ELSE IF t <= s.last THEN s
    ELSE [credit |-> IF Has("tb_refill_uncapped") THEN s.credit + (t - s.last)
                     ELSE Min(C * P, s.credit + (t - s.last)),
          last |-> t]
TbAcq(s, t) == LET r == TbRefill(s, t) IN
    IF r.credit >= P THEN <<TRUE, [r EXCEPT !.credit = @ - P]>> ELSE <<FALSE, r>>
TbTua(s, t) == LET r == TbRefill(s, t) IN
    <<IF r.credit >= P THEN 0 ELSE P - r.credit, r>>

\* LeakyBucketPolicy
LbAcq(s, t) ==
    IF s.last = None THEN <<TRUE, [last |-> t]>>
    ELSE IF t - s.last >= P THEN <<TRUE, [last |-> IF Has("lb_no_stamp") THEN s.last ELSE t]>>
    ELSE <<FALSE, s>>
LbTua(s, t) ==
    IF s.last = None THEN <<0, s>>
    ELSE LET rem == P - (t - s.last) IN <<IF rem <= 0 THEN 0 ELSE rem, s>>

\* SlidingWindowPolicy
Prune(log, t) == SelectSeq(log, LAMBDA x : x >= t - W)
SwAcq(s, t) == LET l == Prune(s.log, t) IN
    IF Len(l) < N \/ (Has("sw_admit_at_limit") /\ Len(l) = N)
    THEN <<TRUE, [log |-> Append(l, t)]>> ELSE <<FALSE, [log |-> l]>>
SwTua(s, t) == LET l == Prune(s.log, t) IN
    IF Len(l) < N THEN <<0, [log |-> l]>>
    ELSE LET rem == l[1] + W - t IN
         <<IF rem = 0 THEN (IF Has("tua_no_progress_guard") THEN 0 ELSE 1) ELSE rem, [log |-> l]>>

\* FixedWindowPolicy
LowFloor(t) == Has("fw_boundary_floor_tua_zero") /\ t % W = 0 /\ (t \div W) % 2 = 1
WinStart(t) == IF LowFloor(t) THEN ((t \div W) - 1) * W ELSE (t \div W) * W
FwReset(s, t) == LET ws == WinStart(t) IN
    IF s.start = None \/ ws > s.start \/ (Has("fw_reset_ge") /\ ws >= s.start)
    THEN [start |-> ws, count |-> 0] ELSE s
FwAcq(s, t) == LET r == FwReset(s, t) IN
    IF r.count < N THEN <<TRUE, [r EXCEPT !.count = @ + 1]>> ELSE <<FALSE, r>>
FwTua(s, t) == LET r == FwReset(s, t) IN
    IF r.count < N THEN <<0, r>>
    ELSE LET rem == r.start + W - t IN
         <<IF Has("fw_tua_full_window") THEN W ELSE IF rem <= 0 THEN 0 ELSE rem, r>>

\* AdaptivePolicy
AdRefill(s, t) ==
    IF s.last = None THEN [s EXCEPT !.last = t]
    ELSE IF t <= s.last THEN s
    ELSE [s EXCEPT !.credit = IF Has("ad_refill_uncapped") THEN @ + (t - s.last) * s.rate
                              ELSE Min(s.rate * W, @ + (t - s.last) * s.rate),
                   !.last = t]
AdAcq(s, t) == LET r == AdRefill(s, t) IN
    IF r.credit >= U THEN <<TRUE, [r EXCEPT !.credit = @ - U]>> ELSE <<FALSE, r>>
AdTua(s, t) == LET r == AdRefill(s, t) IN
    IF r.credit >= U THEN <<0, r>>
    ELSE LET w == IF r.rate <= 0 THEN MaxT + 1 ELSE (U - r.credit) \div r.rate IN
         <<IF w = 0 THEN (IF Has("tua_no_progress_guard") THEN 0 ELSE 1) ELSE w, r>>
AdUp(r) == IF Has("ad_rate_unclamped") THEN r + RStep ELSE Min(RMax, r + RStep)
AdDown(r) == IF Has("ad_rate_unclamped") THEN r \div 2 ELSE Max(RMin, r \div 2)

AcqF(s, t) == CASE Policy = "tb" -> TbAcq(s, t) [] Policy = "lb" -> LbAcq(s, t)
                [] Policy = "sw" -> SwAcq(s, t) [] Policy = "fw" -> FwAcq(s, t)
                [] Policy = "ad" -> AdAcq(s, t)
TuaF(s, t) == CASE Policy = "tb" -> TbTua(s, t) [] Policy = "lb" -> LbTua(s, t)
                [] Policy = "sw" -> SwTua(s, t) [] Policy = "fw" -> FwTua(s, t)
                [] Policy = "ad" -> AdTua(s, t)
InitSt == CASE Policy = "tb" -> [credit |-> I * P, last |-> None]
            [] Policy = "lb" -> [last |-> None]
            [] Policy = "sw" -> [log |-> <<>>]
            [] Policy = "fw" -> [start |-> None, count |-> 0]
            [] Policy = "ad" -> [credit |-> RInit * W, last |-> None, rate |-> RInit]

-----------------------------------------------------------------------------
Init == /\ now = 0 /\ st = InitSt /\ adm = <<>> /\ nops = 0
        /\ rates = IF Policy = "ad" THEN << <<0, RInit>> >> ELSE <<>>
        /\ firstCall = None /\ res = <<"init", 0>>

Acquire(d) ==
    /\ nops < MaxOps /\ now + d <= MaxT
    /\ LET t == now + d
           r == AcqF(st, t) IN
       /\ now' = t /\ st' = r[2] /\ nops' = nops + 1
       /\ adm' = IF r[1] THEN Append(adm, t) ELSE adm
       /\ res' = <<"acq", IF r[1] THEN 1 ELSE 0>>
       /\ firstCall' = IF firstCall = None THEN t ELSE firstCall
       /\ UNCHANGED rates

Tua(d) ==
    /\ nops < MaxOps /\ now + d <= MaxT
    /\ LET t == now + d
           r == TuaF(st, t) IN
       /\ now' = t /\ st' = r[2] /\ nops' = nops + 1
       /\ res' = <<"tua", r[1]>>
       /\ firstCall' = IF firstCall = None THEN t ELSE firstCall
       /\ UNCHANGED <<adm, rates>>

Feedback(up) ==
    /\ Policy = "ad" /\ nops < MaxOps
    /\ LET nr == IF up THEN AdUp(st.rate) ELSE AdDown(st.rate) IN
       /\ st' = [st EXCEPT !.rate = nr]
       /\ rates' = Append(rates, <<now, nr>>)
       /\ res' = <<IF up THEN "succ" ELSE "fail", nr>>
    /\ nops' = nops + 1 /\ UNCHANGED <<now, adm, firstCall>>
Success == Feedback(TRUE)
Failure == Feedback(FALSE)

Next == (\E d \in 0..MaxStep : Acquire(d) \/ Tua(d)) \/ Success \/ Failure
Spec == Init /\ [][Next]_vars

-----------------------------------------------------------------------------
\* CONTRACT (property C10), over observables only: the admitted-instants log
\* `adm`, the rate history, and the answers of the public calls.
NA == Len(adm)

\* token bucket: admitted in any interval <= capacity + rate * length
InvBucketBound == Policy = "tb" =>
    \A i, j \in 1..NA : i <= j => (j - i + 1) * P <= C * P + (adm[j] - adm[i])
\* leaky bucket: spacing of at least 1/rate
InvLeakySpacing == Policy = "lb" => \A i \in 1..(NA - 1) : adm[i + 1] - adm[i] >= P
\* sliding window: at most N in any (half-open) window of length W
InvSlidingWindow == Policy = "sw" => \A i \in 1..(NA - N) : adm[i + N] - adm[i] >= W
\* fixed window: at most N per aligned window, at most 2N in any window-length interval
InvFixedAligned == Policy = "fw" =>
    \A k \in 0..(MaxT \div W) : Cardinality({i \in 1..NA : adm[i] \div W = k}) <= N
InvFixed2N == Policy = "fw" => \A i \in 1..(NA - 2 * N) : adm[i + 2 * N] - adm[i] >= W
\* adaptive: the bucket bound of its rate; the largest rate in force at some moment of the
\* closed interval counts, and the bucket's initial fill (RInit*W) counts for an interval that
\* starts at the very first call.  The rate stays within [RMin, RMax].
RatesIn(a, b) ==
    LET before == {k \in 1..Len(rates) : rates[k][1] < a}
        lastB == IF before = {} THEN {} ELSE {rates[CHOOSE k \in before : \A m \in before : m <= k][2]}
    IN lastB \cup {rates[k][2] : k \in {k \in 1..Len(rates) : rates[k][1] >= a /\ rates[k][1] <= b}}
           \cup (IF a = firstCall THEN {RInit} ELSE {})
RMaxIn(a, b) == LET S == RatesIn(a, b) IN CHOOSE r \in S : \A q \in S : q <= r
InvAdaptiveBound == Policy = "ad" =>
    \A i, j \in 1..NA : i <= j =>
        LET R == RMaxIn(adm[i], adm[j]) IN (j - i + 1) * U <= R * W + R * (adm[j] - adm[i])
InvRateRange == Policy = "ad" => \A k \in 1..Len(rates) : rates[k][2] >= RMin /\ rates[k][2] <= RMax

\* time_until_available == 0  =>  an immediate acquire succeeds
InvTuaZero == LET r == TuaF(st, now) IN r[1] = 0 => AcqF(r[2], now)[1]
\* otherwise no acquire can succeed before the returned wait has elapsed
InvTuaTruthful == LET r == TuaF(st, now) IN \A e \in 0..(r[1] - 1) : ~AcqF(r[2], now + e)[1]
\* repeatedly waiting the returned duration reaches an admitting instant within DrainK calls
RECURSIVE Drains(_, _, _)
Drains(s, t, k) == IF k = 0 THEN FALSE
                   ELSE LET r == TuaF(s, t) IN IF r[1] = 0 THEN AcqF(r[2], t)[1] ELSE Drains(r[2], t + r[1], k - 1)
InvDrain == Drains(st, now, DrainK)
=============================================================================
