------------------------------ MODULE PhiTrace ------------------------------
(* C13, last clause: "the phi-accrual suspicion level never decreases while  *)
(* no heartbeat arrives".  Trace-level monitor over samples of the real      *)
(* PhiAccrualDetector: each trace is [id, tol, s] with s a sequence of       *)
(* [k, t, v]: k = 0 a heartbeat was recorded at instant t; k = 1 phi(t) was  *)
(* sampled and v = floor(phi * scale) (infinity = 2^30).  Instants are       *)
(* non-decreasing along s.  Between two heartbeats every sample must be      *)
(* >= the largest earlier sample minus tol (tol = 1 unit absorbs floor()).   *)
(* k = 2: the threshold was queried at t, v = 1 iff is_available() (phi below *)
(* the threshold).  T.hi is the elapsed-time bound Hi the harness derives for *)
(* the configuration (every gap fed to the detector is <= G): a detector     *)
(* still available Hi after its last heartbeat contradicts the envelope the  *)
(* membership model relies on - a model assumption, reported as drift.       *)
(* Verdict line: <<"V", id, "ACCEPT" | "PROP:phi_decreased" |                *)
(*                 "MODEL:envelope_hi_exceeded", position>>.                 *)
EXTENDS Integers, Sequences, TLC, Json, IOUtils

Traces == JsonDeserialize(IOEnv.TRACE_FILE)
NT == Len(Traces)
VARIABLE ti

\* first position whose sample is below the running maximum since the last heartbeat (0: none)
RECURSIVE FirstDrop(_, _, _, _)
FirstDrop(s, i, mx, tol) ==
    IF i > Len(s) THEN 0
    ELSE IF s[i].k = 0 THEN FirstDrop(s, i + 1, -1, tol)
    ELSE IF s[i].k = 2 THEN FirstDrop(s, i + 1, mx, tol)
    ELSE IF s[i].v + tol < mx THEN i
    ELSE FirstDrop(s, i + 1, IF s[i].v > mx THEN s[i].v ELSE mx, tol)

\* first threshold query that is still "available" although >= hi has elapsed since the last heartbeat
RECURSIVE FirstLenient(_, _, _, _)
FirstLenient(s, i, last, hi) ==
    IF i > Len(s) THEN 0
    ELSE IF s[i].k = 0 THEN FirstLenient(s, i + 1, s[i].t, hi)
    ELSE IF s[i].k = 2 /\ s[i].v = 1 /\ last >= 0 /\ s[i].t - last >= hi THEN i
    ELSE FirstLenient(s, i + 1, last, hi)

TimeOrdered(s) == \A i \in 1..(Len(s) - 1) : s[i].t <= s[i + 1].t

Init == ti = 1
Next ==
    /\ ti <= NT
    /\ LET T == Traces[ti]
           d == FirstDrop(T.s, 1, -1, T.tol)
           l == FirstLenient(T.s, 1, -1, T.hi)
       IN PrintT(<<"V", T.id, IF ~TimeOrdered(T.s) THEN "MODEL:grid_not_increasing"
                               ELSE IF d # 0 THEN "PROP:phi_decreased"
                               ELSE IF l # 0 THEN "MODEL:envelope_hi_exceeded" ELSE "ACCEPT",
                  IF d # 0 THEN d ELSE l>>)
    /\ ti' = ti + 1
Spec == Init /\ [][Next]_ti
=============================================================================
