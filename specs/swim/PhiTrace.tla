------------------------------ MODULE PhiTrace ------------------------------
(* C13, last clause: "the phi-accrual suspicion level never decreases while  *)
(* no heartbeat arrives".  Trace-level monitor over samples of the real      *)
(* PhiAccrualDetector: each trace is [id, tol, s] with s a sequence of       *)
(* [k, t, v]: k = 0 a heartbeat was recorded at instant t; k = 1 phi(t) was  *)
(* sampled and v = floor(phi * scale) (infinity = 2^30).  Instants are       *)
(* non-decreasing along s.  Between two heartbeats every sample must be      *)
(* >= the largest earlier sample minus tol (tol = 1 unit absorbs floor()).   *)
(* Verdict line: <<"V", id, "ACCEPT" | "PROP:phi_decreased", position>>.     *)
EXTENDS Integers, Sequences, TLC, Json, IOUtils

Traces == JsonDeserialize(IOEnv.TRACE_FILE)
NT == Len(Traces)
VARIABLE ti

\* first position whose sample is below the running maximum since the last heartbeat (0: none)
RECURSIVE FirstDrop(_, _, _, _)
FirstDrop(s, i, mx, tol) ==
    IF i > Len(s) THEN 0
    ELSE IF s[i].k = 0 THEN FirstDrop(s, i + 1, -1, tol)
    ELSE IF s[i].v + tol < mx THEN i
    ELSE FirstDrop(s, i + 1, IF s[i].v > mx THEN s[i].v ELSE mx, tol)

TimeOrdered(s) == \A i \in 1..(Len(s) - 1) : s[i].t <= s[i + 1].t

Init == ti = 1
Next ==
    /\ ti <= NT
    /\ LET T == Traces[ti]
           d == FirstDrop(T.s, 1, -1, T.tol)
       IN PrintT(<<"V", T.id, IF ~TimeOrdered(T.s) THEN "MODEL:grid_not_increasing"
                               ELSE IF d = 0 THEN "ACCEPT" ELSE "PROP:phi_decreased", d>>)
    /\ ti' = ti + 1
Spec == Init /\ [][Next]_ti
=============================================================================
