------------------------------ MODULE SwimMC ------------------------------
(* Exhaustive timed model of a MembershipProtocol cluster for property C13. *)
(*                                                                          *)
(* Time is explicit (ticks).  Pending things and their due instants:        *)
(*   nt[n]                next probe tick of node n (-1: none / stopped)    *)
(*   nd[n].pend[m][2]     ack timer / suspicion timeout of n for peer m     *)
(*   msgs                 in-flight messages [m, at]; the one-way delay of  *)
(*                        each message is chosen by TLC in 0..D at the send *)
(* Everything due at `now` may happen in any order (a superset of the       *)
(* engine's creation-order tie-break); Advance jumps to the next due        *)
(* instant.  Environment: Stop(m) (m stops for good, any instant up to      *)
(* StopBy), Inject(n, u) (gossip reaching n from outside the model: a ping  *)
(* without sender carrying one update).  A "dead" update about a live       *)
(* member is a falsehood and voids the healthy-network premise (cut); an    *)
(* "alive" update about a stopped member voids the completeness clause      *)
(* (lied).                                                                  *)
EXTENDS Swim

CONSTANTS N, I, SuspT, D, Lo, Hi, K,
          OffStep,        \* start() of node n is called at (n - 1) * OffStep
          MaxStop, StopBy, MaxInj, InjStates, MaxInc, MaxTime,
          MaxSlow,        \* at most MaxSlow messages of a behaviour get a non-zero delay
          AllInit,        \* TRUE: every initial probe order (the shuffle in start()); FALSE: index order only
          Canon           \* TRUE: same-instant events of different nodes are taken in node order (they commute)

Node == 1..N
P == [n |-> N, I |-> I, half |-> I \div 2, S |-> SuspT, D |-> D, Lo |-> Lo, Hi |-> Hi, K |-> K,
      bound |-> D + Hi + I + (N - 1) * OffStep]     \* + the latest start(): rounds count from there
ASSUME 2 * D < P.half

VARIABLES nd, nt, msgs, now, stopped, stopAt, cut, lied, dinc, ninj, nslow, fresh, act
vars == <<nd, nt, msgs, now, stopped, stopAt, cut, lied, dinc, ninj, nslow, fresh, act>>
View == <<nd, nt, msgs, now, stopped, stopAt, cut, lied, dinc, ninj, nslow, fresh>>

Live == Node \ stopped
Offsets == [n \in Node |-> (n - 1) * OffStep]
InjSet == { Upd(m, st, i) : m \in Node, st \in InjStates, i \in 0..MaxInc }
Emb(n, j) == IF j < n THEN j ELSE j + 1      \* j-th peer of n in index order

Init ==
    /\ \E q \in (IF AllInit THEN [Node -> Perms(1..(N - 1))] ELSE {[n \in Node |-> [j \in 1..(N - 1) |-> j]]}) :   \* shuffle in start()
          nd = [n \in Node |-> InitNode(N, n, [j \in 1..(N - 1) |-> Emb(n, q[n][j])],
                                         IF "phi_zero_before_first_heartbeat" \in Dev THEN NoHb ELSE Offsets[n])]
    /\ nt = [n \in Node |-> Offsets[n] + I]
    /\ msgs = {} /\ now = 0 /\ stopped = {} /\ stopAt = -1 /\ cut = FALSE /\ lied = FALSE
    /\ dinc = [n \in Node |-> [m \in Node |-> -1]]
    /\ ninj = 0 /\ nslow = 0 /\ fresh = TRUE
    /\ act = [a |-> "init"]

DueAt(n) == \/ nt[n] = now
            \/ \E x \in msgs : x.at = now /\ x.m.dst = n
            \/ \E m \in Node : nd[n].pend[m][1] # 0 /\ nd[n].pend[m][2] = now
CanAct(n) == Canon => \A k \in Live : k < n => ~DueAt(k)

\* messages addressed to a stopped member are dropped (Event.invoke on a crashed entity)
Sent(out, ds) == { [m |-> out[j], at |-> now + ds[j]] : j \in { j \in 1..Len(out) : out[j].dst \notin stopped } }

Slow(ds) == Cardinality({ j \in DOMAIN ds : ds[j] > 0 })
Finish(nd2, ds) == /\ dinc' = NextDinc(nd2, dinc)
                   /\ nslow + Slow(ds) <= MaxSlow
                   /\ nslow' = IF MaxSlow >= 99 THEN 0 ELSE nslow + Slow(ds)     \* 99 = no budget

Tick(n) ==
    /\ n \in Live /\ nt[n] = now /\ CanAct(n)
    /\ \E sus \in SUBSET MaySus(P, nd[n], n, now) :
         /\ MustSus(P, nd[n], n, now) \subseteq sus
         /\ \E neword \in (IF TickResh(nd[n], sus) THEN Perms(TickAlive(nd[n], sus)) ELSE {<<>>}) :
            \E d \in 0..D :
              LET r == TickFn(P, nd[n], n, now, sus, neword)
                  nd2 == [nd EXCEPT ![n] = r.s]
              IN /\ nd' = nd2
                 /\ msgs' = msgs \cup Sent(r.out, [j \in 1..Len(r.out) |-> d])
                 /\ nt' = [nt EXCEPT ![n] = now + I]
                 /\ Finish(nd2, [j \in 1..Len(r.out) |-> d])
                 /\ act' = [a |-> "tick", n |-> n, sus |-> sus, ord |-> neword, ds |-> <<d>>]
    /\ fresh' = ~Canon
    /\ UNCHANGED <<now, stopped, stopAt, cut, lied, ninj>>

Deliver(x) ==
    /\ x \in msgs /\ x.at = now /\ CanAct(x.m.dst)
    /\ LET n == x.m.dst IN
       \E d \in 0..D :
         LET r == IF x.m.t = "ping" THEN PingFn(nd[n], n, x.m, now) ELSE AckFn(nd[n], n, x.m, now)
             nd2 == [nd EXCEPT ![n] = r.s]
         IN /\ (x.m.t = "ack" => d = 0)
            /\ nd' = nd2
            /\ msgs' = (msgs \ {x}) \cup Sent(r.out, [j \in 1..Len(r.out) |-> d])
            /\ Finish(nd2, [j \in 1..Len(r.out) |-> d])
            /\ act' = [a |-> x.m.t, n |-> n, m |-> x.m, ds |-> <<d>>]
    /\ fresh' = ~Canon
    /\ UNCHANGED <<nt, now, stopped, stopAt, cut, lied, ninj>>

Atmr(n, tg) ==
    /\ n \in Live /\ tg # n /\ nd[n].pend[tg] = <<1, now>> /\ CanAct(n)
    /\ LET c == DelCands(P, nd[n], n, tg)
           k == Min2(K, Cardinality(c)) IN
       \E dels \in InjSeqs(c, k) : \E ds \in [1..k -> 0..D] :
         LET r == AtmrFn(P, nd[n], n, tg, now, dels)
             nd2 == [nd EXCEPT ![n] = r.s]
         IN /\ nd' = nd2
            /\ msgs' = msgs \cup Sent(r.out, ds)
            /\ Finish(nd2, ds)
            /\ act' = [a |-> "atmr", n |-> n, tg |-> tg, dels |-> dels, ds |-> ds]
    /\ fresh' = ~Canon
    /\ UNCHANGED <<nt, now, stopped, stopAt, cut, lied, ninj>>

Stmr(n, tg) ==
    /\ n \in Live /\ tg # n /\ nd[n].pend[tg] = <<2, now>> /\ CanAct(n)
    /\ LET r == StmrFn(nd[n], n, tg, now)
           nd2 == [nd EXCEPT ![n] = r.s]
       IN /\ nd' = nd2 /\ Finish(nd2, <<>>)
          /\ act' = [a |-> "stmr", n |-> n, tg |-> tg]
    /\ fresh' = ~Canon
    /\ UNCHANGED <<nt, msgs, now, stopped, stopAt, cut, lied, ninj>>

\* m stops responding for good: its pending events and everything addressed to it are dropped
Stop(m) ==
    /\ Cardinality(stopped) < MaxStop /\ m \in Live /\ now <= StopBy /\ (Canon => fresh)
    /\ stopped' = stopped \cup {m} /\ stopAt' = now
    /\ nt' = [nt EXCEPT ![m] = -1]
    /\ nd' = [nd EXCEPT ![m].pend = [x \in Node |-> NoPend]]
    /\ msgs' = { x \in msgs : x.m.dst # m }
    /\ act' = [a |-> "stop", n |-> m]
    /\ UNCHANGED <<now, cut, lied, dinc, ninj, nslow, fresh>>

Inject(n, u) ==
    /\ ninj < MaxInj /\ n \in Live /\ UM(u) # n /\ (Canon => fresh)
    /\ LET r == PingFn(nd[n], n, Msg("ping", 0, n, 0, <<u>>), now)
           nd2 == [nd EXCEPT ![n] = r.s]
       IN /\ nd' = nd2 /\ Finish(nd2, <<>>)
    /\ ninj' = ninj + 1
    /\ cut' = (cut \/ (US(u) = "dead" /\ UM(u) \in Live))
    /\ lied' = (lied \/ (US(u) = "alive" /\ UM(u) \in stopped))
    /\ act' = [a |-> "inj", n |-> n, u |-> u]
    /\ UNCHANGED <<nt, msgs, now, stopped, stopAt, fresh>>

DueTimes == { nt[n] : n \in { n \in Node : nt[n] >= 0 } }
            \cup { x.at : x \in msgs }
            \cup { nd[n].pend[m][2] : <<n, m>> \in { <<n, m>> \in Live \X Node : nd[n].pend[m][1] # 0 } }
Advance ==
    /\ DueTimes # {} /\ now \notin DueTimes
    /\ LET t == CHOOSE t \in DueTimes : \A u \in DueTimes : t <= u IN
       /\ t <= MaxTime
       /\ now' = t /\ fresh' = TRUE
       /\ act' = [a |-> "adv", t |-> t]
    /\ UNCHANGED <<nd, nt, msgs, stopped, stopAt, cut, lied, dinc, ninj, nslow>>

Next ==
    \/ \E n \in Node : Tick(n)
    \/ \E x \in msgs : Deliver(x)
    \/ \E n \in Node, tg \in Node : Atmr(n, tg) \/ Stmr(n, tg)
    \/ \E m \in Node : Stop(m)
    \/ \E n \in Node, u \in InjSet : Inject(n, u)
    \/ Advance

Spec == Init /\ [][Next]_vars

-----------------------------------------------------------------------------
(* Contract (the clauses of C13) *)
InvAccuracy == Accuracy(nd, Live, ~cut)
InvCompleteness == Completeness(P, nd, Live, stopped, stopAt, now, ~cut /\ ~lied)
InvNoResurrection == NoResurrection(nd, dinc)

(* Machinery self-checks *)
\* nothing is ever overdue: Advance never jumps over a pending tick, timer or message
InvNoOverdue == \A t \in DueTimes : t >= now
\* under the premise the ack always beats the ack timer: no suspicion timeout is ever armed for a live peer
InvNoSuspTimerOnLive == ~cut => \A n \in Live, m \in Live : nd[n].pend[m][1] # 2
=============================================================================
