------------------------------- MODULE Swim -------------------------------
(* C13 - SWIM-style membership (happysimulator/components/consensus/        *)
(* membership.py) with the phi-accrual detector abstracted to an envelope.  *)
(*                                                                          *)
(* This module holds what the exhaustive model (SwimMC.tla) and the trace   *)
(* specification (SwimTrace.tla) share:                                     *)
(*   - one pure operator per handler of MembershipProtocol                  *)
(*       TickFn  = _handle_probe_tick   (+ _suspect_member, _next_probe_    *)
(*                                         target, _drain_updates)          *)
(*       PingFn  = _handle_ping          AckFn  = _handle_ack               *)
(*       AtmrFn  = _handle_indirect_ping (the ack-timeout timer)            *)
(*       StmrFn  = _handle_suspicion_timeout                                *)
(*       ApplyUps = _apply_updates (incarnation guard)                      *)
(*     each maps (node state, input, environment choices) to (node state,   *)
(*     emitted messages);                                                   *)
(*   - the contract of property C13 as predicates over observable state.    *)
(*                                                                          *)
(* Node state (all per-peer fields are tuples indexed by node id 1..n; the  *)
(* node's own slot is "-" / 0 / NoHb / NoPend):                             *)
(*   view[m]  "A" | "S" | "D"     get_member_state(m)                       *)
(*   inc[m]   incarnation known for m                                       *)
(*   hb[m]    instant of the last heartbeat from m (detector.last_heartbeat)*)
(*   pend[m]  <<k, at>>: the live entry of _pending_acks[m]; k=1 ack timer    *)
(*            (event MembershipIndirectPing), k=2 suspicion timeout         *)
(*   ups      _pending_updates (piggy-back buffer, drained on every send)   *)
(*   order, idx   _probe_order, _probe_index                                *)
(*                                                                          *)
(* Parameters P = [n, I, half, S, D, Lo, Hi, K, bound]: cluster size, probe *)
(* interval, ack timeout (int(I*0.5)), suspicion timeout, one-way delay     *)
(* bound, phi envelope, indirect_probe_count, completeness bound - all in   *)
(* ticks.  Premise of the statement made precise: 2*D < half.               *)
(*                                                                          *)
(* Phi abstraction: at a probe tick "phi >= threshold" for peer m may hold  *)
(* only if now - hb[m] >= Lo and must hold if now - hb[m] >= Hi.            *)
(*                                                                          *)
(* Deviations (Dev):                                                        *)
(*  "phi_zero_before_first_heartbeat"  (as the code is) a peer from which   *)
(*        no heartbeat was ever received has phi = 0 forever and is never   *)
(*        suspected; with the deviation off the design treats the start of  *)
(*        the cluster (t = 0) as the first heartbeat.                       *)
(*  "ack_keeps_timer"  (hypothetical) an ack does not cancel the ack timer. *)
(*  "alive_same_incarnation"  (hypothetical) "alive" gossip is applied when *)
(*        its incarnation is >= (not >) the known one.                      *)
(*  "heartbeat_revives_dead"  (hypothetical) a heartbeat sets any non-ALIVE *)
(*        peer (not only a SUSPECT one) back to ALIVE.                      *)
EXTENDS Integers, Sequences, FiniteSets, TLC

CONSTANT Dev

NoHb == -1
NoPend == <<0, 0>>                 \* pend[m] = <<k, at>>
Max2(a, b) == IF a >= b THEN a ELSE b
Min2(a, b) == IF a <= b THEN a ELSE b
Range(s) == { s[i] : i \in 1..Len(s) }
IsPermOf(q, S) == Len(q) = Cardinality(S) /\ Range(q) = S
Perms(S) == { q \in [1..Cardinality(S) -> S] : Range(q) = S }
\* injective sequences of length k over S
InjSeqs(S, k) == { q \in [1..k -> S] : \A i, j \in 1..k : i # j => q[i] # q[j] }

\* hb0: what a detector knows before the first heartbeat - NoHb as the code is; with the deviation
\* "phi_zero_before_first_heartbeat" off, the instant start() was called (monitoring begins there)
InitNode(n, self, order, hb0) ==
    [view |-> [m \in 1..n |-> IF m = self THEN "-" ELSE "A"],
     inc |-> [m \in 1..n |-> 0],
     hb |-> [m \in 1..n |-> IF m = self THEN NoHb ELSE hb0],
     pend |-> [m \in 1..n |-> NoPend],
     ups |-> <<>>, order |-> order, idx |-> 0]

Upd(m, st, i) == <<m, st, i>>          \* gossip update: member, "suspect" | "dead" | "alive", incarnation
UM(u) == u[1]  US(u) == u[2]  UI(u) == u[3]
Msg(t, src, dst, ind, ups) == [t |-> t, src |-> src, dst |-> dst, ind |-> ind, ups |-> ups]

-----------------------------------------------------------------------------
(* _apply_updates *)
AliveGuard(i, known) ==
    IF "alive_same_incarnation" \in Dev THEN i >= known ELSE i > known

ApplyOne(s, self, u) ==
    LET m == UM(u) st == US(u) i == UI(u) IN
    IF m = self \/ m < 1 \/ m > Len(s.view) THEN s          \* not in _members
    ELSE IF i < s.inc[m] THEN s                                 \* stale incarnation
    ELSE IF st = "suspect" /\ s.view[m] = "A"
         THEN [s EXCEPT !.view[m] = "S", !.inc[m] = Max2(@, i)]
    ELSE IF st = "dead" /\ s.view[m] # "D"
         THEN [s EXCEPT !.view[m] = "D", !.inc[m] = Max2(@, i)]
    ELSE IF st = "alive" /\ AliveGuard(i, s.inc[m])
         THEN [s EXCEPT !.view[m] = "A", !.inc[m] = i]
    ELSE s

RECURSIVE ApplyFrom(_, _, _, _)
ApplyFrom(s, self, ups, k) ==
    IF k > Len(ups) THEN s ELSE ApplyFrom(ApplyOne(s, self, ups[k]), self, ups, k + 1)
ApplyUps(s, self, ups) == ApplyFrom(s, self, ups, 1)

(* detector.heartbeat + SUSPECT -> ALIVE *)
Heartbeat(s, from, now) ==
    [s EXCEPT !.hb[from] = now,
              !.view[from] = IF @ = "S" \/ ("heartbeat_revives_dead" \in Dev /\ @ = "D") THEN "A" ELSE @]

-----------------------------------------------------------------------------
(* phi envelope *)
EffHb(s, m) ==
    IF s.hb[m] # NoHb THEN s.hb[m]
    ELSE IF "phi_zero_before_first_heartbeat" \in Dev THEN NoHb ELSE 0

MaySus(P, s, self, now) ==
    { m \in 1..P.n : m # self /\ s.view[m] = "A" /\ EffHb(s, m) # NoHb /\ now - EffHb(s, m) >= P.Lo }
MustSus(P, s, self, now) ==
    { m \in MaySus(P, s, self, now) : now - EffHb(s, m) >= P.Hi }
SusOK(P, s, self, now, sus) ==
    /\ MustSus(P, s, self, now) \subseteq sus
    /\ sus \subseteq MaySus(P, s, self, now)

(* _suspect_member for the members in dict (= index) order *)
RECURSIVE SuspectFrom(_, _, _)
SuspectFrom(s, sus, m) ==
    IF m > Len(s.view) THEN s
    ELSE SuspectFrom(IF m \in sus /\ s.view[m] = "A"
                     THEN [s EXCEPT !.view[m] = "S", !.ups = Append(@, Upd(m, "suspect", s.inc[m]))]
                     ELSE s, sus, m + 1)

AliveSeq(s) == SelectSeq(s.order, LAMBDA x : s.view[x] # "D")

\* does this tick reshuffle the probe order?
TickResh(s, sus) ==
    LET s1 == SuspectFrom(s, sus, 1) al == AliveSeq(s1)
    IN al # <<>> /\ s1.idx >= Len(al)
TickAlive(s, sus) == Range(AliveSeq(SuspectFrom(s, sus, 1)))

(* _handle_probe_tick.  sus: peers whose phi is over the threshold now;    *)
(* neword: the result of random.shuffle(alive) if the round is over.       *)
TickFn(P, s, self, now, sus, neword) ==
    LET s1 == SuspectFrom(s, sus, 1)
        al == AliveSeq(s1)
    IN IF al = <<>> THEN [s |-> s1, out |-> <<>>]
       ELSE LET resh == s1.idx >= Len(al)
                al2 == IF resh THEN neword ELSE al
                ix == IF resh THEN 0 ELSE s1.idx
                tg == al2[(ix % Len(al2)) + 1]
            IN [s |-> [s1 EXCEPT !.order = IF resh THEN neword ELSE @,
                                 !.idx = ix + 1,
                                 !.ups = <<>>,
                                 !.pend[tg] = <<1, now + P.half>>],
                out |-> << Msg("ping", self, tg, 0, s1.ups) >>]

(* _handle_ping; src = 0 encodes a ping without "from" (gossip only) *)
PingFn(s, self, m, now) ==
    LET s1 == ApplyUps(s, self, m.ups)
    IN IF m.src = 0 THEN [s |-> s1, out |-> <<>>]
       ELSE LET s2 == Heartbeat(s1, m.src, now)
            IN [s |-> [s2 EXCEPT !.ups = <<>>], out |-> << Msg("ack", self, m.src, 0, s2.ups) >>]

(* _handle_ack *)
AckFn(s, self, m, now) ==
    LET s1 == ApplyUps(s, self, m.ups)
        s2 == Heartbeat(s1, m.src, now)
    IN [s |-> IF "ack_keeps_timer" \in Dev THEN s2 ELSE [s2 EXCEPT !.pend[m.src] = NoPend], out |-> <<>>]

(* _handle_indirect_ping: the ack timer for peer tg fired with no ack seen. *)
(* dels: the delegates, in the order they are pinged (shuffle prefix).      *)
DelCands(P, s, self, tg) == { x \in 1..P.n : x # self /\ x # tg /\ s.view[x] # "D" }
DelsOK(P, s, self, tg, dels) ==
    /\ Range(dels) \subseteq DelCands(P, s, self, tg)
    /\ \A i, j \in 1..Len(dels) : i # j => dels[i] # dels[j]
    /\ Len(dels) = Min2(P.K, Cardinality(DelCands(P, s, self, tg)))
AtmrFn(P, s, self, tg, now, dels) ==
    [s |-> [s EXCEPT !.ups = IF Len(dels) > 0 THEN <<>> ELSE @,
                     !.pend[tg] = <<2, now + P.S>>],
     out |-> [j \in 1..Len(dels) |-> Msg("ping", self, dels[j], tg, IF j = 1 THEN s.ups ELSE <<>>)]]

(* _handle_suspicion_timeout *)
StmrFn(s, self, tg, now) ==
    [s |-> IF s.view[tg] = "S"
           THEN [s EXCEPT !.view[tg] = "D", !.ups = Append(@, Upd(tg, "dead", s.inc[tg])), !.pend[tg] = NoPend]
           ELSE [s EXCEPT !.pend[tg] = NoPend],
     out |-> <<>>]

-----------------------------------------------------------------------------
(* The contract of C13, over observable state only.                          *)
(*   st: tuple of node states (only view / inc are read), live: set of nodes *)
(*   that have not stopped, healthy: the premise of the statement holds      *)
(*   (every message within D, 2*D < half, nobody was told a falsehood).      *)

\* "no member ever marks a live member DEAD" - pairs violating it
FalseDeaths(st, live) == { <<n, m>> \in live \X live : n # m /\ st[n].view[m] = "D" }
Accuracy(st, live, healthy) == healthy => FalseDeaths(st, live) = {}

\* "every other live member stops reporting it ALIVE within a bounded number of
\*  probe rounds" - pairs still reporting ALIVE at or after the deadline
StillAlive(st, live, stopped) == { <<n, m>> \in live \X stopped : st[n].view[m] = "A" }
Completeness(P, st, live, stopped, stopAt, now, judged) ==
    (judged /\ stopped # {} /\ now >= stopAt + P.bound) => StillAlive(st, live, stopped) = {}

\* "a member reported DEAD is not reported ALIVE again without a higher
\*  incarnation": dinc[n][m] = highest incarnation at which n reported m DEAD (-1: never)
Resurrected(st, dinc) ==
    { <<n, m>> \in (1..Len(st)) \X (1..Len(st)) :
        n # m /\ st[n].view[m] = "A" /\ dinc[n][m] >= 0 /\ st[n].inc[m] <= dinc[n][m] }
NoResurrection(st, dinc) == Resurrected(st, dinc) = {}
NextDinc(st, dinc) ==
    [n \in 1..Len(st) |-> [m \in 1..Len(st) |->
        IF n # m /\ st[n].view[m] = "D" THEN Max2(dinc[n][m], st[n].inc[m]) ELSE dinc[n][m]]]
=============================================================================
