----------------------------- MODULE SwimTrace -----------------------------
(* Trace validation for C13.  A batch of executions recorded from the real  *)
(* MembershipProtocol objects (inside a real Simulation + Network, or under *)
(* the harness' direct drive) is read from IOEnv.TRACE_FILE.  Each trace:   *)
(*   [id, P, judge, init, steps]                                            *)
(*   P      parameters of the run in ticks (see Swim.tla)                   *)
(*   judge  FALSE: the harness itself voided the completeness clause        *)
(*   init   tuple of projected node states before the first event           *)
(*   steps  one record per handler call / environment event:                *)
(*     a = "tick" | "ping" | "ack" | "inj" | "atmr" | "stmr"  handler of    *)
(*         node n ran at instant t (m: the delivered message, tg: the peer  *)
(*         of the timer); d = the fields of n's projection that changed     *)
(*         (always contains idx), out = the messages it emitted             *)
(*     a = "stop"   node n stopped for good at t                            *)
(*     a = "start"  start() of node n was called at t > 0 (d: what it set:  *)
(*                  the shuffled probe order); environment step, adopted    *)
(*     a = "frame"  node n changed outside any handler call (d)             *)
(*     a = "end"    end of the observation at t                             *)
(*   messages are written compactly as <<type, src, dst, ind, ups>> with    *)
(*   type "p" (ping) / "a" (ack); updates as <<member, state, incarnation>>.*)
(* The observed global state `ob` is assembled from the posts.  For every   *)
(* step the handler operator of Swim.tla is applied to the observed state   *)
(* before the step with the observed environment choices (suspicion set,    *)
(* shuffle result, delegates); a different post/out is drift: MODEL:what.        *)
(* The contract predicates of Swim.tla are evaluated on the observed state  *)
(* after every step: PROP:clause.  One verdict line per trace:                  *)
(*   <<"V", id, verdict, pos, drift, driftpos>>                             *)
(* verdict = first false clause ("PROP:...") or "ACCEPT"; drift = first     *)
(* model disagreement ("MODEL:...") or "".                                  *)
EXTENDS Swim, Json, IOUtils

Traces == JsonDeserialize(IOEnv.TRACE_FILE)
NT == Len(Traces)

VARIABLES ti, pos, ob, fl, stopped, stopAt, cut, lied, dinc, bad, drift
tvars == <<ti, pos, ob, fl, stopped, stopAt, cut, lied, dinc, bad, drift>>

NoBad == <<"", 0>>
Dinc0(n) == [a \in 1..n |-> [b \in 1..n |-> -1]]

\* index of the earliest in-flight copy of message m (0: none)
FlIndex(m) ==
    LET c == { i \in 1..Len(fl) : fl[i].m = m }
    IN IF c = {} THEN 0 ELSE CHOOSE i \in c : \A j \in c : i <= j
Without(s, i) == [j \in 1..(Len(s) - 1) |-> IF j < i THEN s[j] ELSE s[j + 1]]

MsgOf(c) == Msg(IF c[1] = "p" THEN "ping" ELSE IF c[1] = "a" THEN "ack" ELSE c[1], c[2], c[3], c[4], c[5])
MsgsOf(cs) == [j \in 1..Len(cs) |-> MsgOf(cs[j])]
\* observed projection after a step: the previous one with the changed fields replaced
PostOf(s, d) == [f \in DOMAIN s |-> IF f \in DOMAIN d THEN d[f] ELSE s[f]]

\* what the model says about step e from the observed pre-state: [s, out, why]
\* why = "" when the step is explained, else the kind of disagreement
Model(P, e, post, em, eout) ==
    LET n == e.n  s == ob[n]  t == e.t IN
    CASE e.a = "tick" ->
            LET sus == { m \in 1..P.n : m # n /\ s.view[m] = "A" /\ post.view[m] = "S" }
                resh == TickResh(s, sus)
                neword == IF resh THEN post.order ELSE <<>>
            IN IF resh /\ ~IsPermOf(neword, TickAlive(s, sus)) THEN [s |-> s, out |-> <<>>, why |-> "shuffle_not_a_permutation"]
               ELSE LET r == TickFn(P, s, n, t, sus, neword)
                    IN [s |-> r.s, out |-> r.out,
                        why |-> IF r.s # post THEN "tick_state"
                                ELSE IF r.out # eout THEN "tick_out"
                                ELSE IF ~SusOK(P, s, n, t, sus) THEN "phi_envelope" ELSE ""]
      [] e.a \in {"ping", "inj"} ->
            LET r == PingFn(s, n, em, t)
            IN [s |-> r.s, out |-> r.out,
                why |-> IF e.a = "ping" /\ FlIndex(em) = 0 THEN "phantom_message"
                        ELSE IF r.s # post THEN "ping_state" ELSE IF r.out # eout THEN "ping_out" ELSE ""]
      [] e.a = "ack" ->
            LET r == AckFn(s, n, em, t)
            IN [s |-> r.s, out |-> r.out,
                why |-> IF FlIndex(em) = 0 THEN "phantom_message"
                        ELSE IF r.s # post THEN "ack_state" ELSE IF r.out # eout THEN "ack_out" ELSE ""]
      [] e.a = "atmr" ->
            LET dels == [j \in 1..Len(eout) |-> eout[j].dst]
            IN IF s.pend[e.tg] # <<1, t>> THEN [s |-> s, out |-> <<>>, why |-> "ack_timer_not_due"]
               ELSE IF ~DelsOK(P, s, n, e.tg, dels) THEN [s |-> s, out |-> <<>>, why |-> "delegates"]
               ELSE LET r == AtmrFn(P, s, n, e.tg, t, dels)
                    IN [s |-> r.s, out |-> r.out,
                        why |-> IF r.s # post THEN "ack_timer_state" ELSE IF r.out # eout THEN "ack_timer_out" ELSE ""]
      [] e.a = "stmr" ->
            IF s.pend[e.tg] # <<2, t>> THEN [s |-> s, out |-> <<>>, why |-> "suspicion_timer_not_due"]
            ELSE LET r == StmrFn(s, n, e.tg, t)
                 IN [s |-> r.s, out |-> r.out,
                     why |-> IF r.s # post THEN "suspicion_timer_state" ELSE IF r.out # eout THEN "suspicion_timer_out" ELSE ""]
      [] e.a = "frame" -> [s |-> s, out |-> <<>>, why |-> "changed_outside_handler"]
      [] OTHER -> [s |-> s, out |-> <<>>, why |-> ""]

\* first false clause of the contract on the observed state (after the step), "" if none
Clause(P, ob2, live2, stopped2, stopAt2, t, healthy2, judged2) ==
    IF ~Accuracy(ob2, live2, healthy2) THEN "PROP:accuracy"
    ELSE IF ~NoResurrection(ob2, dinc) THEN "PROP:resurrection"
    ELSE IF ~Completeness(P, ob2, live2, stopped2, stopAt2, t, judged2)
         THEN IF \A pr \in StillAlive(ob2, live2, stopped2) : ob2[pr[1]].hb[pr[2]] = NoHb
              THEN "PROP:completeness_never_heard" ELSE "PROP:completeness"
    ELSE ""

Load(i) ==
    LET T == Traces[i] IN
    /\ ob' = T.init /\ fl' = <<>> /\ stopped' = {} /\ stopAt' = -1
    /\ cut' = ~(2 * T.P.D < T.P.half) /\ lied' = FALSE
    /\ dinc' = Dinc0(T.P.n) /\ bad' = NoBad /\ drift' = NoBad /\ pos' = 1

TInit ==
    /\ ti = 1 /\ pos = 1 /\ fl = <<>> /\ stopped = {} /\ stopAt = -1 /\ lied = FALSE
    /\ bad = NoBad /\ drift = NoBad
    /\ IF NT = 0 THEN ob = <<>> /\ cut = FALSE /\ dinc = <<>>
       ELSE ob = Traces[1].init /\ cut = ~(2 * Traces[1].P.D < Traces[1].P.half) /\ dinc = Dinc0(Traces[1].P.n)

Step(T) ==
    LET P == T.P
        e == T.steps[pos]
        isH == e.a \in {"tick", "ping", "ack", "inj", "atmr", "stmr", "frame", "start"}
        post == IF isH THEN PostOf(ob[e.n], e.d) ELSE <<>>
        em == IF e.a \in {"ping", "ack", "inj"} THEN MsgOf(e.m) ELSE Msg("none", 0, 0, 0, <<>>)
        eout == IF isH /\ e.a \notin {"frame", "start"} THEN MsgsOf(e.out) ELSE <<>>
        mo == Model(P, e, post, em, eout)
        ob2 == IF isH THEN [ob EXCEPT ![e.n] = post] ELSE ob
        k == IF e.a \in {"ping", "ack"} THEN FlIndex(em) ELSE 0
        late == k # 0 /\ e.t - fl[k].sent > P.D
        fl1 == IF k # 0 THEN Without(fl, k) ELSE fl
        fl2 == fl1 \o [j \in 1..Len(eout) |-> [m |-> eout[j], sent |-> e.t]]
        stopped2 == IF e.a = "stop" THEN stopped \cup {e.n} ELSE stopped
        stopAt2 == IF e.a = "stop" /\ stopAt < 0 THEN e.t ELSE stopAt
        live2 == (1..P.n) \ stopped2
        falsehood == e.a = "inj" /\ \E j \in 1..Len(em.ups) : US(em.ups[j]) = "dead" /\ UM(em.ups[j]) \in live2
        lie == e.a = "inj" /\ \E j \in 1..Len(em.ups) : US(em.ups[j]) = "alive" /\ UM(em.ups[j]) \in stopped2
        cut2 == cut \/ late \/ falsehood
        lied2 == lied \/ lie
        cl == Clause(P, ob2, live2, stopped2, stopAt2, e.t, ~cut2, T.judge /\ ~cut2 /\ ~lied2)
    IN /\ ob' = ob2 /\ fl' = fl2 /\ stopped' = stopped2 /\ stopAt' = stopAt2 /\ cut' = cut2 /\ lied' = lied2
       /\ dinc' = NextDinc(ob2, dinc)
       /\ bad' = IF bad = NoBad /\ cl # "" THEN <<cl, pos>> ELSE bad
       /\ drift' = IF drift = NoBad /\ mo.why # "" THEN <<"MODEL:" \o mo.why, pos>> ELSE drift
       /\ pos' = pos + 1 /\ ti' = ti

TNext ==
    /\ ti <= NT
    /\ LET T == Traces[ti] IN
       IF pos <= Len(T.steps) THEN Step(T)
       ELSE /\ PrintT(<<"V", T.id, IF bad = NoBad THEN "ACCEPT" ELSE bad[1], bad[2], drift[1], drift[2]>>)
            /\ ti' = ti + 1
            /\ IF ti < NT THEN Load(ti + 1)
               ELSE UNCHANGED <<pos, ob, fl, stopped, stopAt, cut, lied, dinc, bad, drift>>

Spec == TInit /\ [][TNext]_tvars
=============================================================================
