--------------------------- MODULE MultiLeaderMC ---------------------------
(* Model-checking wrapper for MultiLeader.tla: N leaders, NK keys, at most    *)
(* MaxW writes on any leaders (concurrent writers, repeated keys, equal or    *)
(* increasing timestamps), Replicates delivered in any order, at most MaxAE   *)
(* anti-entropy exchanges between distinct pairs at quiescent points.         *)
(* BurstOnly = TRUE restricts equal timestamps to writes that follow each     *)
(* other immediately (a same-instant burst): only those behaviours can be     *)
(* reproduced by the real event loop, which runs the client events of one     *)
(* instant before anything created during the run; used for the replay graph. *)
EXTENDS MultiLeader
CONSTANTS N, NK, MaxW, MaxAE, BurstOnly, Mode
VARIABLES s, nae, lastw

Init == s = MInit(N, NK, Mode) /\ nae = 0 /\ lastw = FALSE

SameInstantOK == ~BurstOnly \/ lastw \/ \A w \in 1..Len(s.wr) : s.wr[w].ts # s.clock

Write(i, k, later) ==
    /\ Len(s.wr) < MaxW
    /\ later \/ SameInstantOK
    /\ s' = MWrite(s, i, k, IF later THEN s.clock + 1 ELSE s.clock) /\ nae' = 0 /\ lastw' = TRUE
Deliver(i, w) == CanMDeliver(s, i, w) /\ s' = MDeliver(s, i, w) /\ UNCHANGED nae /\ lastw' = FALSE
PutDone(i) == CanMPutDone(s, i) /\ s' = MPutDone(s, i) /\ UNCHANGED nae /\ lastw' = FALSE
AE(i, j) == /\ nae < MaxAE /\ CanMAE(s, i, j) /\ {i, j} \notin s.aed
            /\ s' = MAE(s, i, j) /\ nae' = nae + 1 /\ lastw' = FALSE

Next ==
    \/ \E i \in 1..N : \E k \in 1..NK : \E later \in BOOLEAN : Write(i, k, later)
    \/ \E i \in 1..N : \E w \in 1..MaxW : Deliver(i, w)
    \/ \E i \in 1..N : PutDone(i)
    \/ \E i \in 1..N : \E j \in 1..N : AE(i, j)

Spec == Init /\ [][Next]_<<s, nae, lastw>>

ConvergeAE == InvConvergeAE(s)
WitnessNoAE == WitnessConvergeNoAE(s)
=============================================================================
