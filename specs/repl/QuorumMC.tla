------------------------------ MODULE QuorumMC ------------------------------
(* Model-checking wrapper for Quorum.tla: N replicas, NK keys, at most MaxW   *)
(* concurrent puts (keys repeat), every interleaving the pipeline allows.     *)
EXTENDS Quorum
CONSTANTS N, NK, MaxW
VARIABLE s
Init == s = QInit(N, NK)
Write(k) == Len(s.ops) < MaxW /\ s' = QStart(s, k)
Step(o) == CanQStep(s, o) /\ s' = QStep(s, o)
Next == (\E k \in 1..NK : Write(k)) \/ (\E o \in 1..MaxW : Step(o))
Spec == Init /\ [][Next]_s
Converge == InvConverge(s)
=============================================================================
