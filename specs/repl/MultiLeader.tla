---------------------------- MODULE MultiLeader ----------------------------
(* C17, multi-leader part.  Implementation-shaped model of                    *)
(*   happysimulator/components/replication/multi_leader.py (LeaderNode) with  *)
(*   conflict_resolver.LastWriterWins (also the fallback of VectorClockMerge) *)
(* on top of KVStore.put (latency yield, then dict update).                   *)
(*                                                                           *)
(* Actions (one per handler / generator segment):                            *)
(*   MWrite(i, k, t)  Write arrives at leader i at instant t: vector clock    *)
(*                    ticked and snapshotted, timestamp = t, local put starts *)
(*   MDeliver(i, w)   Replicate of write w reaches leader i (ANY order):      *)
(*                    vector clock merged (+1), the incoming version is       *)
(*                    compared with versions[key] AS OF NOW (dominance, else  *)
(*                    resolver); if it is to be applied the put starts        *)
(*   MPutDone(i)      leader i's oldest pending put ends: versions[key] and   *)
(*                    the store take the version UNCONDITIONALLY (the test    *)
(*                    was made before the latency yield: this is the          *)
(*                    suspected "ml_apply_yield_race"; it is part of the      *)
(*                    model, not a switch, because the statement only asks    *)
(*                    for convergence after anti-entropy and the model shows  *)
(*                    that anti-entropy repairs it); a local write then hands *)
(*                    one Replicate per peer to the network and resolves the  *)
(*                    client reply                                            *)
(*   MAE(i, j)        one anti-entropy exchange started by i with peer j,     *)
(*                    run while nothing else is in progress: j reconciles     *)
(*                    i's versions (dominance, else resolver), and unless its *)
(*                    Merkle root (a hash of the key->value map) now equals   *)
(*                    the one i sent, answers with its versions, which i      *)
(*                    reconciles the same way                                 *)
(* A write is identified by its index in the write table wr; its value is     *)
(* that index.  Timestamps are abstract instants: a write is stamped with the *)
(* current instant or a later one, and the instant advances when a local put  *)
(* ends (store and network latencies are positive, so whatever is causally    *)
(* after a write carries a larger timestamp).                                 *)
(*                                                                           *)
(* Deviations (not in the code; sensitivity of the convergence clause):       *)
(*   "conflict_keeps_existing"  concurrent versions: the local one is kept    *)
(*   "merged_winner_dropped"    merging resolver: the synthesised winner (which*)
(*                              is neither input object) is not installed     *)
(*   "ae_one_way"               the peer never answers the requester          *)
EXTENDS Naturals, Sequences, FiniteSets

CONSTANTS Dev

Max2(a, b) == IF a >= b THEN a ELSE b
SetMax(S) == IF S = {} THEN 0 ELSE CHOOSE m \in S : \A x \in S : x <= m

\* A VERSION is the set of write ids whose values it contains: a client write w is {w}; a merging resolver
\* (VectorClockMerge(merge_fn = union of the values, element-wise max of the clocks), or a CustomResolver
\* that builds such a value) turns two concurrent versions into their union.  {} = key absent.
\* mode "lww": pick-one resolver (LastWriterWins & equivalents) -- versions stay singletons.
\* mode "merge": merging resolver.
MInit(n, nk, mode) ==
    [n |-> n, nk |-> nk, mode |-> mode, wr |-> <<>>, clock |-> 1,
     vc |-> [i \in 1..n |-> [j \in 1..n |-> 0]],
     ver |-> [i \in 1..n |-> [k \in 1..nk |-> {}]],
     q |-> [i \in 1..n |-> <<>>],
     msgs |-> {}, acked |-> {}, aed |-> {}]

\* vector clock / timestamp / writer of a version (a merged version carries the element-wise max)
VC(wr, n, S) == [j \in 1..n |-> SetMax({ wr[w].vc[j] : w \in S })]
TS(wr, S) == SetMax({ wr[w].ts : w \in S })
WR(wr, S) == SetMax({ wr[w].n : w \in S })
Dom(a, b, n) == (\A j \in 1..n : a[j] >= b[j]) /\ (\E j \in 1..n : a[j] > b[j])

\* LastWriterWins.resolve(key, [existing, incoming]): max by (timestamp, writer), first on ties
LwwIncomingWins(wr, e, x) ==
    \/ TS(wr, x) > TS(wr, e)
    \/ TS(wr, x) = TS(wr, e) /\ WR(wr, x) > WR(wr, e)

\* A node holding version e meets version x (never {}): which version does it hold afterwards (v), and does
\* it write its store (put)?  The code tests "winner is not existing": a merging resolver returns a NEW
\* object, so the store is written even when the union adds nothing.
Decide(s, e, x) ==
    LET ve == VC(s.wr, s.n, e)
        vx == VC(s.wr, s.n, x)
    IN IF e = {} THEN [v |-> x, put |-> TRUE]
       ELSE IF Dom(vx, ve, s.n) THEN [v |-> x, put |-> TRUE]
       ELSE IF Dom(ve, vx, s.n) THEN [v |-> e, put |-> FALSE]
       ELSE IF "conflict_keeps_existing" \in Dev THEN [v |-> e, put |-> FALSE]
       ELSE IF s.mode = "merge"
       THEN IF "merged_winner_dropped" \in Dev THEN [v |-> e, put |-> FALSE]
            ELSE [v |-> e \cup x, put |-> TRUE]
       ELSE IF LwwIncomingWins(s.wr, e, x) THEN [v |-> x, put |-> TRUE] ELSE [v |-> e, put |-> FALSE]

MWrite(s, i, k, t) ==
    LET v == [s.vc[i] EXCEPT ![i] = @ + 1]
        w == Len(s.wr) + 1
    IN [s EXCEPT !.clock = t, !.vc[i] = v,
                 !.wr = Append(@, [n |-> i, k |-> k, ts |-> t, vc |-> v]),
                 !.q[i] = Append(@, [kind |-> "w", w |-> w, v |-> {w}]),
                 !.aed = {}]

CanMDeliver(s, i, w) == <<i, w>> \in s.msgs
MDeliver(s, i, w) ==
    LET x == s.wr[w]
        v == [j \in 1..s.n |-> IF j = i THEN Max2(s.vc[i][j], x.vc[j]) + 1 ELSE Max2(s.vc[i][j], x.vc[j])]
        d == Decide(s, s.ver[i][x.k], {w})
    IN [s EXCEPT !.msgs = @ \ {<<i, w>>}, !.vc[i] = v,
                 !.q[i] = IF d.put THEN Append(@, [kind |-> "r", w |-> w, v |-> d.v]) ELSE @]

CanMPutDone(s, i) == s.q[i] # <<>>
MPutDone(s, i) ==
    LET p == Head(s.q[i])
        k == s.wr[p.w].k
        s1 == [s EXCEPT !.q[i] = Tail(@), !.ver[i][k] = p.v]
    IN IF p.kind = "w"
       THEN [s1 EXCEPT !.msgs = @ \cup { <<j, p.w>> : j \in (1..s.n) \ {i} },
                       !.acked = @ \cup {p.w},
                       !.clock = IF s.clock = s.wr[p.w].ts THEN @ + 1 ELSE @]
       ELSE s1

MQuiet(s) == s.msgs = {} /\ \A i \in 1..s.n : s.q[i] = <<>>

\* reconcile a whole version map (remote entries only for keys the sender has)
MergeMap(s, mine, theirs) ==
    [k \in 1..s.nk |-> IF theirs[k] = {} THEN mine[k] ELSE Decide(s, mine[k], theirs[k]).v]

CanMAE(s, i, j) == i # j /\ MQuiet(s)
MAE(s, i, j) ==
    LET vj == MergeMap(s, s.ver[j], s.ver[i])
        answer == vj # s.ver[i] /\ "ae_one_way" \notin Dev     \* same key->value map = same Merkle root
        vi == IF answer THEN MergeMap(s, s.ver[i], vj) ELSE s.ver[i]
    IN [s EXCEPT !.ver[j] = vj, !.ver[i] = vi, !.aed = @ \cup {{i, j}}]

\* ---- contract (C17, convergence clause for multi-leader) ------------------
AllPairs(n) == { {i, j} : i \in 1..n, j \in 1..n } \ { {i} : i \in 1..n }
MSame(ver, n, nk) == \A i \in 1..n : \A k \in 1..nk : ver[i][k] = ver[1][k]
\* writes stopped, everything delivered, and since then every pair of leaders has completed
\* an anti-entropy exchange  =>  all replicas hold the same value for every key
InvConvergeAE(s) == (MQuiet(s) /\ AllPairs(s.n) \subseteq s.aed) => MSame(s.ver, s.n, s.nk)
\* NOT part of the contract: without anti-entropy replicas may stay divergent (witness run)
WitnessConvergeNoAE(s) == MQuiet(s) => MSame(s.ver, s.n, s.nk)
=============================================================================
