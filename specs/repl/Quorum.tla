------------------------------- MODULE Quorum -------------------------------
(* C17 extension: happysimulator/components/datastore/replicated_store.py.    *)
(* ReplicatedStore.put(key, value) is a generator that writes the replicas    *)
(* ONE AFTER THE OTHER (for replica in replicas: yield from replica.put),     *)
(* whatever the consistency level, and reports success when at least the      *)
(* required number answered.  Concurrent puts (several client generators)     *)
(* therefore walk the replica list as a pipeline: each replica sees them in   *)
(* the order they started, because all of them wait the same per-replica      *)
(* latencies.                                                                  *)
(*   QStart(k)  a client calls put(k, v): the put at replica 1 starts         *)
(*   QStep(o)   operation o's pending replica put ends (apply), the next      *)
(*              replica's put starts; after the last replica put() returns    *)
(*              and the client is answered                                    *)
(* Deviation (not in the code; sensitivity): "replica_writes_unordered" drops *)
(* the pipeline order (as if the replicas were written in parallel with       *)
(* per-operation latencies).                                                  *)
EXTENDS Naturals, Sequences, FiniteSets

CONSTANTS Dev

QInit(n, nk) ==
    [n |-> n, nk |-> nk, ops |-> <<>>, pos |-> <<>>,
     st |-> [i \in 1..n |-> [k \in 1..nk |-> 0]], acked |-> {}]

QStart(s, k) == [s EXCEPT !.ops = Append(@, k), !.pos = Append(@, 1)]

CanQStep(s, o) ==
    /\ o \in 1..Len(s.ops) /\ s.pos[o] <= s.n
    /\ "replica_writes_unordered" \in Dev \/ \A p \in 1..(o - 1) : s.pos[p] > s.pos[o]
QStep(s, o) ==
    LET i == s.pos[o] IN
    [s EXCEPT !.st[i][s.ops[o]] = o, !.pos[o] = i + 1, !.acked = IF i = s.n THEN @ \cup {o} ELSE @]

QQuiet(s) == \A o \in 1..Len(s.ops) : s.pos[o] = s.n + 1
QSame(st, n, nk) == \A i \in 1..n : \A k \in 1..nk : st[i][k] = st[1][k]
\* once writes stop and every replica put has ended, all replicas hold the same value for every key
InvConverge(s) == QQuiet(s) => QSame(s.st, s.n, s.nk)
=============================================================================
