-------------------------- MODULE PrimaryBackupMC --------------------------
(* Model-checking wrapper for PrimaryBackup.tla: NB backups, NK keys, at most *)
(* MaxW client writes (keys chosen freely, so keys repeat), every mode in     *)
(* ModeSet, every interleaving of put completions and Replicate deliveries.   *)
EXTENDS PrimaryBackup
CONSTANTS NB, NK, MaxW, ModeSet
VARIABLE s

Init == \E m \in ModeSet : s = PBInit(m, NB, NK)

Write(k) == s.seq < MaxW /\ s' = PWrite(s, k)
PrimaryPutDone == CanPPutDone(s) /\ s' = PPutDone(s)
Recv(b, w) == CanBRecv(s, b, w) /\ s' = BRecv(s, b, w)
BackupPutDone(b) == CanBPutDone(s, b) /\ s' = BPutDone(s, b)

Next ==
    \/ \E k \in 1..NK : Write(k)
    \/ PrimaryPutDone
    \/ \E b \in 1..NB : \E w \in 1..MaxW : Recv(b, w)
    \/ \E b \in 1..NB : BackupPutDone(b)

Spec == Init /\ [][Next]_s

AckSync == InvAckSync(s)
AckSemi == InvAckSemi(s)
Converge == InvConverge(s)
=============================================================================
