------------------------------- MODULE Chain -------------------------------
(* C17, chain-replication part.  Implementation-shaped model of               *)
(*   happysimulator/components/replication/chain_replication.py (ChainNode)   *)
(* on top of KVStore.put / KVStore.get (latency yield, then dict access).     *)
(* Node 1 is the HEAD, node n the TAIL, the others MIDDLE.                    *)
(*                                                                           *)
(* Actions (one per handler / generator segment):                            *)
(*   CWrite(k)        Write arrives at the head: seq += 1, local put starts  *)
(*   CPutDone(i)      node i's oldest pending put ends: apply, mark dirty    *)
(*                    (CRAQ); head: register pending future, Propagate to    *)
(*                    node 2; middle: Propagate to i+1; tail: WriteAck to    *)
(*                    the head, CRAQ: unmark, CommitNotify to every upstream *)
(*                    node                                                    *)
(*   CDeliver(m)      a message reaches its destination (ANY order):         *)
(*       "prop"       the node's put starts                                  *)
(*       "wack"       head: pending future resolved -> generator resumes:    *)
(*                    pending popped, key unmarked, client reply resolved    *)
(*       "commit"     node unmarks the key                                   *)
(*       "read"       forwarded read reaches the tail: its get starts        *)
(*   CRead(i, k)      Read arrives at node i (any node with CRAQ, else the   *)
(*                    tail, the documented usage): CRAQ non-tail node with   *)
(*                    the key marked dirty forwards to the tail, otherwise   *)
(*                    the local get starts                                   *)
(*   CGetDone(r)      the get of read r ends: the value now in the store is  *)
(*                    returned (reply future resolved)                       *)
(* A write is identified by its sequence number = its value.                 *)
(*                                                                           *)
(* Deviations (constant set Dev); the first three are the code as it is:     *)
(*   "chain_reorder"      a node stores whatever Propagate arrives last      *)
(*                        (Dev={}: a superseded Propagate spends the store   *)
(*                        latency, stores nothing, and is passed on; the     *)
(*                        node keeps the highest sequence number per key)    *)
(*   "dirty_is_key_set"   the dirty mark is a set of KEYS: the commit / ack  *)
(*                        of write 1 clears the mark while write 2 of the    *)
(*                        same key is still on its way to the tail           *)
(*                        (Dev={}: set of <<key, seq>> marks)                *)
(*   "craq_read_check_before_get"  the dirty test is made when the Read      *)
(*                        arrives, the value is read after the get latency   *)
(*                        (Dev={}: test and read at the same instant)        *)
(*   "mid_forwards_before_apply"   not in the code (sensitivity of the ack   *)
(*                        clause): a middle node forwards on arrival         *)
EXTENDS Naturals, Sequences, FiniteSets

CONSTANTS Dev

Max2(a, b) == IF a >= b THEN a ELSE b

CInit(n, nk, craq) ==
    [n |-> n, nk |-> nk, craq |-> craq, seq |-> 0, wkey |-> <<>>,
     st |-> [i \in 1..n |-> [k \in 1..nk |-> 0]],
     q |-> [i \in 1..n |-> <<>>],
     dirty |-> [i \in 1..n |-> {}],          \* set of <<k, w>> marks (key-set deviation: w = 0)
     pend |-> {}, msgs |-> {}, acked |-> {},
     appl |-> [i \in 1..n |-> {}],
     rd |-> <<>>]                            \* reads: [at, k, ph ("get","fwd","done"), v, ok]

Mark(k, w) == IF "dirty_is_key_set" \in Dev THEN <<k, 0>> ELSE <<k, w>>
IsDirty(s, i, k) == \E d \in s.dirty[i] : d[1] = k
Msg(t, to, w) == [t |-> t, to |-> to, w |-> w]

CWrite(s, k) ==
    [s EXCEPT !.seq = @ + 1, !.wkey = Append(@, k), !.q[1] = Append(@, s.seq + 1)]

Forward(s, i, w) == Msg("prop", i + 1, w)

CanCPutDone(s, i) == s.q[i] # <<>>
CPutDone(s, i) ==
    LET w == Head(s.q[i])
        k == s.wkey[w]
        new == IF i = 1 \/ "chain_reorder" \in Dev THEN w ELSE Max2(w, s.st[i][k])
        s1 == [s EXCEPT !.q[i] = Tail(@), !.st[i][k] = new, !.appl[i] = IF new = w THEN @ \cup {w} ELSE @]
        early == "mid_forwards_before_apply" \in Dev
    IN IF i = 1
       THEN [s1 EXCEPT !.dirty[1] = IF s.craq THEN @ \cup {Mark(k, w)} ELSE @,
                       !.pend = @ \cup {w}, !.msgs = @ \cup {Forward(s, 1, w)}]
       ELSE IF i < s.n
       THEN [s1 EXCEPT !.dirty[i] = IF s.craq THEN @ \cup {Mark(k, w)} ELSE @,
                       !.msgs = IF early THEN @ ELSE @ \cup {Forward(s, i, w)}]
       ELSE [s1 EXCEPT !.msgs = @ \cup {Msg("wack", 1, w)}
                                  \cup (IF s.craq THEN { Msg("commit", j, w) : j \in 1..(s.n - 1) } ELSE {})]

CanCDeliver(s, m) == m \in s.msgs
CDeliver(s, m) ==
    LET s1 == [s EXCEPT !.msgs = @ \ {m}]
        k == IF m.t = "read" THEN 0 ELSE s.wkey[m.w]
    IN CASE m.t = "prop" ->
              IF "mid_forwards_before_apply" \in Dev /\ m.to < s.n
              THEN [s1 EXCEPT !.q[m.to] = Append(@, m.w), !.msgs = @ \cup {Forward(s, m.to, m.w)}]
              ELSE [s1 EXCEPT !.q[m.to] = Append(@, m.w)]
         [] m.t = "wack" ->
              IF m.w \in s.pend
              THEN [s1 EXCEPT !.pend = @ \ {m.w}, !.acked = @ \cup {m.w},
                              !.dirty[1] = IF s.craq THEN @ \ {Mark(k, m.w)} ELSE @]
              ELSE s1
         [] m.t = "commit" -> [s1 EXCEPT !.dirty[m.to] = @ \ {Mark(k, m.w)}]
         [] m.t = "read" -> [s1 EXCEPT !.rd[m.w].ph = "get", !.rd[m.w].at = s.n]

\* may node i serve key k locally right now?
MustForward(s, i, k) == s.craq /\ i # s.n /\ IsDirty(s, i, k)

CRead(s, i, k) ==
    LET r == Len(s.rd) + 1 IN
    IF MustForward(s, i, k)
    THEN [s EXCEPT !.rd = Append(@, [at |-> i, k |-> k, ph |-> "fwd", v |-> 0, ok |-> TRUE]),
                   !.msgs = @ \cup {Msg("read", s.n, r)}]
    ELSE [s EXCEPT !.rd = Append(@, [at |-> i, k |-> k, ph |-> "get", v |-> 0, ok |-> TRUE])]

\* value v is committed at the tail: the tail executed the put of that write, or holds the
\* value of that write or of a later write to the key (reading that admits a tail which
\* drops superseded writes); "no value" (0) is always fine
Committed(appl, st, n, k, v) == v = 0 \/ v \in appl[n] \/ st[n][k] >= v

CanCGetDone(s, r) == r \in 1..Len(s.rd) /\ s.rd[r].ph = "get"
CGetDone(s, r) ==
    LET i == s.rd[r].at
        k == s.rd[r].k
        v == s.st[i][k]
    IN IF "craq_read_check_before_get" \notin Dev /\ MustForward(s, i, k)
       THEN [s EXCEPT !.rd[r].ph = "fwd", !.msgs = @ \cup {Msg("read", s.n, r)}]
       ELSE [s EXCEPT !.rd[r].ph = "done", !.rd[r].v = v,
                      !.rd[r].ok = Committed(s.appl, s.st, s.n, k, v)]

\* ---- contract (C17, chain clauses) ----------------------------------------
\* "applied at node i": the node executed the put of the write, or holds its value or
\* the value of a later write to the key
CHolds(appl, st, wkey, i, w) == w \in appl[i] \/ st[i][wkey[w]] >= w
CAckOK(n, appl, st, wkey, w) == \A i \in 1..n : CHolds(appl, st, wkey, i, w)

CQuiet(s) == s.msgs = {} /\ (\A i \in 1..s.n : s.q[i] = <<>>) /\ s.pend = {}
             /\ \A r \in 1..Len(s.rd) : s.rd[r].ph = "done"
CSame(st, n, nk) == \A i \in 1..n : \A k \in 1..nk : st[i][k] = st[1][k]

InvAckAll(s) == \A w \in s.acked : CAckOK(s.n, s.appl, s.st, s.wkey, w)
InvReadCommitted(s) == \A r \in 1..Len(s.rd) : s.rd[r].ok
InvConverge(s) == CQuiet(s) => CSame(s.st, s.n, s.nk)
=============================================================================
