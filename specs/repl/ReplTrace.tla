----------------------------- MODULE ReplTrace -----------------------------
(* Trace validation for C17.  Input (IOEnv.TRACE_FILE): a JSON array of       *)
(* executions recorded from the real replication components, each             *)
(*   [ id, proto ("pb" | "chain" | "ml" | "rs"), mode ("async"|"semi"|"sync"  *)
(*     |"-"), n (replicas: pb = 1 primary + n-1 backups; chain length;        *)
(*     leaders; rs = replicas of a ReplicatedStore),                          *)
(*     nk, craq (BOOLEAN), conf (BOOLEAN: check conformance to the impl model)*)
(*     ev |-> << [e, n, w, k, m, x, st, snap, vc] ... >> ]                    *)
(* one record per observed handler segment, in engine order:                  *)
(*   e = "w"    client Write arrives at node n (pb: 1, chain: 1), key k; the  *)
(*              write's identity/value w; ml: x = rank of its timestamp       *)
(*        "pd"  node n's put of write w ended; st = that store afterwards     *)
(*        "sd"  node n finished waiting the store latency for a superseded    *)
(*              replicated write w WITHOUT storing it; st = its store         *)
(*        "rv"  message m ("repl","prop","wack","commit","read") for write /  *)
(*              read w reaches node n (pb Replicate / chain Propagate: the    *)
(*              node's put or wait starts); ml "repl": vc = the vector clock  *)
(*        "ack" the client reply future of write w resolved; snap = every     *)
(*              replica's store at that instant                               *)
(*        "rs"  client Read w (read id) of key k arrives at node n            *)
(*        "gd"  the store get of read w ended at node n                       *)
(*        "rr"  the reply future of read w resolved with value x; snap        *)
(*        "ae"  ml: an anti-entropy exchange started by n with peer x has     *)
(*              completed (request reconciled, answer, if any, reconciled);   *)
(*              snap                                                          *)
(*        "end" the run ended; x = 1 iff nothing is in flight (quiescent);    *)
(*              snap                                                          *)
(* Stores are sequences indexed by key number, 0 = key absent, a write's      *)
(* value is its identity (pb/chain: the sequence number the code assigned).   *)
(*                                                                            *)
(* Two verdict lines per trace:                                               *)
(*   <<"V", id, verdict, pos>>  "ACCEPT", or "PROP:<clause>" = a clause of    *)
(*        the C17 statement is false on the OBSERVED execution (only observed *)
(*        stores / reply instants / applied-puts are used), or "MODEL:<what>" *)
(*        = the execution is not a behaviour of the impl model (drift);       *)
(*   <<"C", id, conformance, cpos>> the conformance part alone ("OK" or the   *)
(*        first "MODEL:..."), also when a clause failed.                      *)
EXTENDS Naturals, Sequences, FiniteSets, TLC, Json, IOUtils

CONSTANTS Dev
PB == INSTANCE PrimaryBackup
CH == INSTANCE Chain
ML == INSTANCE MultiLeader
QU == INSTANCE Quorum

Traces == JsonDeserialize(IOEnv.TRACE_FILE)
NT == Len(Traces)

VARIABLES ti, pos, s, o, bad, badpos, drift, driftpos
vars == <<ti, pos, s, o, bad, badpos, drift, driftpos>>

Dummy == [id |-> 0, proto |-> "none", mode |-> "-", n |-> 1, nk |-> 1, craq |-> FALSE, conf |-> FALSE, ev |-> <<>>]
TrOr(i) == IF i <= NT THEN Traces[i] ELSE Dummy

R(st, d) == [s |-> st, d |-> d]
Q(ob, b) == [o |-> ob, b |-> b]

\* ======================= primary-backup ====================================
\* snap[1] = primary, snap[1 + b] = backup b
PBBst(snap, nb) == [b \in 1..nb |-> snap[b + 1]]
PBSnapOK(st, snap) == st.pst = snap[1] /\ \A b \in 1..st.nb : st.bst[b] = snap[b + 1]

PBApplyM(st, r) ==
    CASE r.e = "w" ->
           LET s1 == PB!PWrite(st, r.k) IN
           R(s1, IF r.n # 1 THEN "MODEL:write_not_at_primary" ELSE IF s1.seq # r.w THEN "MODEL:write_seq" ELSE "")
      [] r.e = "rv" /\ r.m = "repl" ->
           IF r.n = 1 \/ ~PB!CanBRecv(st, r.n - 1, r.w) THEN R(st, "MODEL:replicate_unexpected")
           ELSE R(PB!BRecv(st, r.n - 1, r.w), "")
      [] r.e \in {"pd", "sd"} ->
           IF r.n = 1
           THEN IF ~PB!CanPPutDone(st) \/ Head(st.pq) # r.w THEN R(st, "MODEL:primary_put_order")
                ELSE LET s1 == PB!PPutDone(st) IN R(s1, IF s1.pst # r.st THEN "MODEL:primary_store" ELSE "")
           ELSE LET b == r.n - 1 IN
                IF ~PB!CanBPutDone(st, b) \/ Head(st.bq[b]) # r.w THEN R(st, "MODEL:backup_put_order")
                ELSE LET s1 == PB!BPutDone(st, b) IN
                     R(s1, IF s1.bst[b] # r.st THEN "MODEL:backup_store"
                           ELSE IF (r.e = "pd") # (r.w \in s1.appl[b]) THEN "MODEL:backup_stored_or_skipped" ELSE "")
      [] r.e = "ack" ->
           R(st, IF r.w \notin st.acked THEN "MODEL:ack_instant"
                 ELSE IF ~PBSnapOK(st, r.snap) THEN "MODEL:stores_at_ack" ELSE "")
      [] r.e = "end" ->
           R(st, IF r.x = 1 /\ ~PB!PBQuiet(st) THEN "MODEL:pending_work_at_end"
                 ELSE IF r.x = 1 /\ st.acked # 1..st.seq THEN "MODEL:unacked_write_at_end"
                 ELSE IF ~PBSnapOK(st, r.snap) THEN "MODEL:stores_at_end" ELSE "")
      [] r.e = "rv" /\ r.m # "repl" -> R(st, "")          \* ReplicationAck (lag statistics), not modelled
      [] OTHER -> R(st, "MODEL:unknown_record")

PBO0(T) == [wkey |-> <<>>, appl |-> [b \in 1..(T.n - 1) |-> {}]]
PBApplyO(ob, r, T) ==
    LET nb == T.n - 1 IN
    CASE r.e = "w" -> Q([ob EXCEPT !.wkey = Append(@, r.k)], "")
      [] r.e = "pd" /\ r.n > 1 -> Q([ob EXCEPT !.appl[r.n - 1] = @ \cup {r.w}], "")
      [] r.e = "ack" ->
           IF r.w \notin 1..Len(ob.wkey) THEN Q(ob, "")
           ELSE Q(ob, IF PB!PBAckOK(T.mode, nb, ob.appl, PBBst(r.snap, nb), ob.wkey, r.w) THEN ""
                      ELSE IF T.mode = "sync" THEN "PROP:pb_sync_ack_before_every_backup_applied"
                      ELSE "PROP:pb_semi_sync_ack_before_any_backup_applied")
      [] r.e = "end" ->
           Q(ob, IF r.x = 1 /\ ~PB!PBSame(r.snap[1], PBBst(r.snap, nb), nb, T.nk)
                 THEN "PROP:pb_replicas_differ_at_quiescence" ELSE "")
      [] OTHER -> Q(ob, "")

\* ======================= chain ==============================================
CHSnapOK(st, snap) == \A i \in 1..st.n : st.st[i] = snap[i]

CHApplyM(st, r) ==
    CASE r.e = "w" ->
           LET s1 == CH!CWrite(st, r.k) IN
           R(s1, IF r.n # 1 THEN "MODEL:write_not_at_head" ELSE IF s1.seq # r.w THEN "MODEL:write_seq" ELSE "")
      [] r.e \in {"pd", "sd"} ->
           IF ~CH!CanCPutDone(st, r.n) \/ Head(st.q[r.n]) # r.w THEN R(st, "MODEL:put_order")
           ELSE LET s1 == CH!CPutDone(st, r.n) IN
                R(s1, IF s1.st[r.n] # r.st THEN "MODEL:node_store"
                      ELSE IF (r.e = "pd") # (r.w \in s1.appl[r.n]) THEN "MODEL:node_stored_or_skipped" ELSE "")
      [] r.e = "rv" ->
           IF r.m \notin {"prop", "wack", "commit", "read"} THEN R(st, "MODEL:unknown_message")
           ELSE IF ~CH!CanCDeliver(st, CH!Msg(r.m, r.n, r.w)) THEN R(st, "MODEL:message_unexpected")
           ELSE R(CH!CDeliver(st, CH!Msg(r.m, r.n, r.w)), "")
      [] r.e = "rs" ->
           LET s1 == CH!CRead(st, r.n, r.k) IN
           R(s1, IF Len(s1.rd) # r.w THEN "MODEL:read_id" ELSE "")
      [] r.e = "gd" ->
           IF ~CH!CanCGetDone(st, r.w) \/ st.rd[r.w].at # r.n THEN R(st, "MODEL:get_unexpected")
           ELSE R(CH!CGetDone(st, r.w), "")
      [] r.e = "rr" ->
           R(st, IF r.w \notin 1..Len(st.rd) \/ st.rd[r.w].ph # "done" THEN "MODEL:read_reply_instant"
                 ELSE IF st.rd[r.w].v # r.x THEN "MODEL:read_value" ELSE "")
      [] r.e = "ack" ->
           R(st, IF r.w \notin st.acked THEN "MODEL:ack_instant"
                 ELSE IF ~CHSnapOK(st, r.snap) THEN "MODEL:stores_at_ack" ELSE "")
      [] r.e = "end" ->
           R(st, IF r.x = 1 /\ ~CH!CQuiet(st) THEN "MODEL:pending_work_at_end"
                 ELSE IF r.x = 1 /\ st.acked # 1..st.seq THEN "MODEL:unacked_write_at_end"
                 ELSE IF ~CHSnapOK(st, r.snap) THEN "MODEL:stores_at_end" ELSE "")
      [] OTHER -> R(st, "MODEL:unknown_record")

CHO0(T) == [wkey |-> <<>>, appl |-> [i \in 1..T.n |-> {}], rkey |-> <<>>]
CHApplyO(ob, r, T) ==
    CASE r.e = "w" -> Q([ob EXCEPT !.wkey = Append(@, r.k)], "")
      [] r.e = "pd" -> Q([ob EXCEPT !.appl[r.n] = @ \cup {r.w}], "")
      [] r.e = "rs" -> Q([ob EXCEPT !.rkey = Append(@, r.k)], "")
      [] r.e = "ack" ->
           IF r.w \notin 1..Len(ob.wkey) THEN Q(ob, "")
           ELSE Q(ob, IF CH!CAckOK(T.n, ob.appl, r.snap, ob.wkey, r.w) THEN ""
                      ELSE "PROP:chain_ack_before_every_node_applied")
      [] r.e = "rr" ->
           IF r.w \notin 1..Len(ob.rkey) THEN Q(ob, "")
           ELSE Q(ob, IF CH!Committed(ob.appl, r.snap, T.n, ob.rkey[r.w], r.x) THEN ""
                      ELSE "PROP:chain_read_returned_value_not_committed_at_tail")
      [] r.e = "end" ->
           Q(ob, IF r.x = 1 /\ ~CH!CSame(r.snap, T.n, T.nk) THEN "PROP:chain_replicas_differ_at_quiescence" ELSE "")
      [] OTHER -> Q(ob, "")

\* ======================= multi-leader ========================================
\* multi-leader store cells are sorted sequences of write ids (<<>> = absent; <<w>> = write w;
\* longer = value built by a merging resolver); model versions are sets
SeqSet(q) == { q[x] : x \in 1..Len(q) }
MLCells(row) == [k \in 1..Len(row) |-> SeqSet(row[k])]
MLSnapOK(st, snap) == \A i \in 1..st.n : st.ver[i] = MLCells(snap[i])

MLApplyM(st, r) ==
    CASE r.e = "w" ->
           LET s1 == ML!MWrite(st, r.n, r.k, r.x) IN
           R(s1, IF Len(s1.wr) # r.w THEN "MODEL:write_id" ELSE "")
      [] r.e = "rv" ->
           IF r.m # "repl" THEN R(st, "")
           ELSE IF ~ML!CanMDeliver(st, r.n, r.w) THEN R(st, "MODEL:replicate_unexpected")
           ELSE R(ML!MDeliver(st, r.n, r.w), IF st.wr[r.w].vc # r.vc THEN "MODEL:vector_clock" ELSE "")
      [] r.e = "pd" ->
           IF ~ML!CanMPutDone(st, r.n) \/ Head(st.q[r.n]).w # r.w THEN R(st, "MODEL:put_unexpected")
           ELSE LET s1 == ML!MPutDone(st, r.n) IN R(s1, IF s1.ver[r.n] # MLCells(r.st) THEN "MODEL:leader_store" ELSE "")
      [] r.e = "ack" -> R(st, IF r.w \notin st.acked THEN "MODEL:ack_instant" ELSE "")
      [] r.e = "ae" ->
           IF ~ML!CanMAE(st, r.n, r.x) THEN R(st, "MODEL:anti_entropy_while_busy")
           ELSE LET s1 == ML!MAE(st, r.n, r.x) IN R(s1, IF ~MLSnapOK(s1, r.snap) THEN "MODEL:stores_after_anti_entropy" ELSE "")
      [] r.e = "end" ->
           R(st, IF r.x = 1 /\ ~ML!MQuiet(st) THEN "MODEL:pending_work_at_end"
                 ELSE IF ~MLSnapOK(st, r.snap) THEN "MODEL:stores_at_end" ELSE "")
      [] OTHER -> R(st, "")

MLO0(T) == [aed |-> {}]
MLApplyO(ob, r, T) ==
    CASE r.e = "w" -> Q([ob EXCEPT !.aed = {}], "")
      [] r.e = "ae" -> Q([ob EXCEPT !.aed = @ \cup {{r.n, r.x}}], "")
      [] r.e = "end" ->
           Q(ob, IF r.x = 1 /\ ML!AllPairs(T.n) \subseteq ob.aed /\ ~ML!MSame(r.snap, T.n, T.nk)
                 THEN "PROP:ml_replicas_differ_after_anti_entropy" ELSE "")
      [] OTHER -> Q(ob, "")

\* ======================= replicated store (quorum writes) ====================
RSSnapOK(st, snap) == \A i \in 1..st.n : st.st[i] = snap[i]
RSApplyM(st, r) ==
    CASE r.e = "w" ->
           LET s1 == QU!QStart(st, r.k) IN R(s1, IF Len(s1.ops) # r.w THEN "MODEL:write_id" ELSE "")
      [] r.e = "pd" ->
           IF ~QU!CanQStep(st, r.w) \/ st.pos[r.w] # r.n THEN R(st, "MODEL:replica_put_order")
           ELSE LET s1 == QU!QStep(st, r.w) IN R(s1, IF s1.st[r.n] # r.st THEN "MODEL:replica_store" ELSE "")
      [] r.e = "ack" ->
           R(st, IF r.w \notin st.acked THEN "MODEL:ack_instant"
                 ELSE IF ~RSSnapOK(st, r.snap) THEN "MODEL:stores_at_ack" ELSE "")
      [] r.e = "end" ->
           R(st, IF r.x = 1 /\ ~QU!QQuiet(st) THEN "MODEL:pending_work_at_end"
                 ELSE IF ~RSSnapOK(st, r.snap) THEN "MODEL:stores_at_end" ELSE "")
      [] OTHER -> R(st, "")
RSApplyO(ob, r, T) ==
    CASE r.e = "end" ->
           Q(ob, IF r.x = 1 /\ ~QU!QSame(r.snap, T.n, T.nk) THEN "PROP:rs_replicas_differ_at_quiescence" ELSE "")
      [] OTHER -> Q(ob, "")

\* ======================= stepping =============================================
S0(T) == CASE T.proto = "pb" -> PB!PBInit(T.mode, T.n - 1, T.nk)
           [] T.proto = "chain" -> CH!CInit(T.n, T.nk, T.craq)
           [] T.proto = "ml" -> ML!MInit(T.n, T.nk, T.mode)
           [] T.proto = "rs" -> QU!QInit(T.n, T.nk)
           [] OTHER -> [none |-> 0]
O0(T) == CASE T.proto = "pb" -> PBO0(T)
           [] T.proto = "chain" -> CHO0(T)
           [] T.proto = "ml" -> MLO0(T)
           [] T.proto = "rs" -> [none |-> 0]
           [] OTHER -> [none |-> 0]
ApplyM(T, st, r) == CASE T.proto = "pb" -> PBApplyM(st, r)
                      [] T.proto = "chain" -> CHApplyM(st, r)
                      [] T.proto = "ml" -> MLApplyM(st, r)
                      [] T.proto = "rs" -> RSApplyM(st, r)
                      [] OTHER -> R(st, "MODEL:unknown_protocol")
ApplyO(T, ob, r) == CASE T.proto = "pb" -> PBApplyO(ob, r, T)
                      [] T.proto = "chain" -> CHApplyO(ob, r, T)
                      [] T.proto = "ml" -> MLApplyO(ob, r, T)
                      [] T.proto = "rs" -> RSApplyO(ob, r, T)
                      [] OTHER -> Q(ob, "")

Start(i) ==
    /\ ti' = i /\ pos' = 1 /\ s' = S0(TrOr(i)) /\ o' = O0(TrOr(i))
    /\ bad' = "" /\ badpos' = 0 /\ drift' = "" /\ driftpos' = 0

Init ==
    /\ ti = 1 /\ pos = 1 /\ s = S0(TrOr(1)) /\ o = O0(TrOr(1))
    /\ bad = "" /\ badpos = 0 /\ drift = "" /\ driftpos = 0

Step ==
    LET T == Traces[ti]
        r == T.ev[pos]
        follow == T.conf /\ drift = ""        \* the model is stepped until the first drift
        mm == IF follow THEN ApplyM(T, s, r) ELSE R(s, "")
        oo == ApplyO(T, o, r)
    IN /\ pos <= Len(T.ev)
       /\ s' = mm.s /\ o' = oo.o
       /\ drift' = IF follow THEN mm.d ELSE drift
       /\ driftpos' = IF follow /\ mm.d # "" THEN pos ELSE driftpos
       /\ bad' = IF bad = "" THEN oo.b ELSE bad
       /\ badpos' = IF bad = "" /\ oo.b # "" THEN pos ELSE badpos
       /\ pos' = pos + 1 /\ ti' = ti

Finish ==
    LET T == Traces[ti] IN
    /\ pos > Len(T.ev)
    /\ PrintT(<<"V", T.id, IF bad # "" THEN bad ELSE IF drift # "" THEN drift ELSE "ACCEPT",
                IF bad # "" THEN badpos ELSE driftpos>>)
    /\ PrintT(<<"C", T.id, IF drift # "" THEN drift ELSE IF T.conf THEN "OK" ELSE "SKIPPED", driftpos>>)
    /\ Start(ti + 1)

Next == ti <= NT /\ (Step \/ Finish)
Spec == Init /\ [][Next]_vars
=============================================================================
