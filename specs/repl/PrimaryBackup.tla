--------------------------- MODULE PrimaryBackup ---------------------------
(* C17, primary-backup part.  Implementation-shaped model of                 *)
(*   happysimulator/components/replication/primary_backup.py                 *)
(* (PrimaryNode._handle_write, BackupNode._handle_replicate) on top of       *)
(* KVStore.put (a latency yield, then the dict update).                      *)
(*                                                                           *)
(* One action per generator segment:                                         *)
(*   PWrite(k)     Write arrives at the primary: seq += 1, the local put     *)
(*                 starts (store latency yield).                             *)
(*   PPutDone      the primary's oldest pending put ends: local apply, one   *)
(*                 Replicate per backup is handed to the network; ASYNC      *)
(*                 resolves the client reply here.                           *)
(*   BRecv(b, w)   Replicate of write w reaches backup b (ANY order: the     *)
(*                 network may reorder), the backup's put starts.            *)
(*   BPutDone(b)   backup b's oldest pending put ends: apply, last_applied,  *)
(*                 ack future resolved; SEMI_SYNC resolves the client reply  *)
(*                 on the first ack future (any_of), SYNC on the last        *)
(*                 (all_of).  The ReplicationAck message only feeds the lag  *)
(*                 statistics and is not modelled.                           *)
(* Puts of one store end in the order they started (constant latency per     *)
(* store in the code; scripted per put in the harness), hence FIFO queues.   *)
(* A write is identified by its sequence number, which is also its value.    *)
(*                                                                           *)
(* The whole state is one record so that the trace spec can fold the same    *)
(* operators over recorded executions.                                       *)
(*                                                                           *)
(* Deviations (constant set Dev):                                            *)
(*   "backup_applies_in_arrival_order"  the code as it is: a backup stores   *)
(*        whatever arrives last.  With Dev = {} a Replicate that arrives     *)
(*        after a later write to its key still spends the store latency (so  *)
(*        its ack never precedes the newer value) but stores nothing: the    *)
(*        backup keeps the highest sequence number per key.                  *)
(*   "ack_before_apply"   ack future resolved when the Replicate arrives     *)
(*   "sync_waits_for_one" SYNC resumes on the first ack future               *)
(*        (the last two are not in the code; sensitivity of the ack clause). *)
EXTENDS Naturals, Sequences, FiniteSets

CONSTANTS Dev

Max2(a, b) == IF a >= b THEN a ELSE b

PBInit(mode, nb, nk) ==
    [mode |-> mode, nb |-> nb, nk |-> nk, seq |-> 0, wkey |-> <<>>,
     pq |-> <<>>, pst |-> [k \in 1..nk |-> 0],
     bq |-> [b \in 1..nb |-> <<>>], bst |-> [b \in 1..nb |-> [k \in 1..nk |-> 0]],
     last |-> [b \in 1..nb |-> 0],
     msgs |-> {}, got |-> <<>>, acked |-> {}, appl |-> [b \in 1..nb |-> {}]]

\* ---- client write arrives at the primary -------------------------------
PWrite(s, k) ==
    [s EXCEPT !.seq = @ + 1, !.wkey = Append(@, k), !.pq = Append(@, s.seq + 1), !.got = Append(@, {})]

\* ---- primary's put ends ---------------------------------------------------
CanPPutDone(s) == s.pq # <<>>
PPutDone(s) ==
    LET w == Head(s.pq) IN
    [s EXCEPT !.pq = Tail(@), !.pst[s.wkey[w]] = w,
              !.msgs = @ \cup { <<b, w>> : b \in 1..s.nb },
              !.acked = IF s.mode = "async" THEN @ \cup {w} ELSE @]

\* when does the primary's generator resume and resolve the client reply?
AckNow(s, w, gotw) ==
    /\ w \notin s.acked
    /\ \/ s.mode = "semi" /\ gotw # {}
       \/ s.mode = "sync" /\ (gotw = 1..s.nb \/ ("sync_waits_for_one" \in Dev /\ gotw # {}))

\* ---- Replicate reaches a backup --------------------------------------------
CanBRecv(s, b, w) == <<b, w>> \in s.msgs
BRecv(s, b, w) ==
    LET early == "ack_before_apply" \in Dev
        gotw == IF early THEN s.got[w] \cup {b} ELSE s.got[w]
    IN [s EXCEPT !.msgs = @ \ {<<b, w>>}, !.bq[b] = Append(@, w), !.got[w] = gotw,
                 !.acked = IF early /\ AckNow(s, w, gotw) THEN @ \cup {w} ELSE @]

\* ---- backup's put ends ------------------------------------------------------
CanBPutDone(s, b) == s.bq[b] # <<>>
BPutDone(s, b) ==
    LET w == Head(s.bq[b])
        k == s.wkey[w]
        new == IF "backup_applies_in_arrival_order" \in Dev THEN w ELSE Max2(w, s.bst[b][k])
        gotw == s.got[w] \cup {b}
    IN [s EXCEPT !.bq[b] = Tail(@), !.bst[b][k] = new, !.last[b] = w,
                 !.appl[b] = IF new = w THEN @ \cup {w} ELSE @,     \* a superseded write is not stored
                 !.got[w] = gotw,
                 !.acked = IF AckNow(s, w, gotw) THEN @ \cup {w} ELSE @]

\* ---- contract (C17, primary-backup clauses), over observable state --------
\* "applied on backup b": the backup executed the put of this write, or (reading that
\* also admits a backup that drops superseded writes) it holds the value of this write
\* or of a later write to the same key.
PBHolds(appl, st, wkey, b, w) == w \in appl[b] \/ st[b][wkey[w]] >= w

PBAckOK(mode, nb, appl, st, wkey, w) ==
    /\ mode = "sync" => \A b \in 1..nb : PBHolds(appl, st, wkey, b, w)
    /\ mode = "semi" => \E b \in 1..nb : PBHolds(appl, st, wkey, b, w)

PBQuiet(s) == s.pq = <<>> /\ s.msgs = {} /\ \A b \in 1..s.nb : s.bq[b] = <<>>
\* all replicas (primary and backups) hold the same value for every key
PBSame(pst, bst, nb, nk) == \A b \in 1..nb : \A k \in 1..nk : bst[b][k] = pst[k]

InvAckSync(s) == s.mode = "sync" => \A w \in s.acked : PBAckOK(s.mode, s.nb, s.appl, s.bst, s.wkey, w)
InvAckSemi(s) == s.mode = "semi" => \A w \in s.acked : PBAckOK(s.mode, s.nb, s.appl, s.bst, s.wkey, w)
InvConverge(s) == PBQuiet(s) => PBSame(s.pst, s.bst, s.nb, s.nk)
=============================================================================
