------------------------------ MODULE ChainMC ------------------------------
(* Model-checking wrapper for Chain.tla: chain of N nodes, NK keys, at most   *)
(* MaxW writes (keys repeat) and MaxR reads, CRAQ on/off per CraqSet, every   *)
(* interleaving of put/get completions and message deliveries (any order).    *)
EXTENDS Chain
CONSTANTS N, NK, MaxW, MaxR, CraqSet
VARIABLE s

Init == \E c \in CraqSet : s = CInit(N, NK, c)

Write(k) == s.seq < MaxW /\ s' = CWrite(s, k)
PutDone(i) == CanCPutDone(s, i) /\ s' = CPutDone(s, i)
Deliver(t, to, w) == CanCDeliver(s, Msg(t, to, w)) /\ s' = CDeliver(s, Msg(t, to, w))
Read(i, k) == Len(s.rd) < MaxR /\ (s.craq \/ i = N) /\ s' = CRead(s, i, k)
GetDone(r) == CanCGetDone(s, r) /\ s' = CGetDone(s, r)

MaxId == IF MaxW > MaxR THEN MaxW ELSE MaxR
Next ==
    \/ \E k \in 1..NK : Write(k)
    \/ \E i \in 1..N : PutDone(i)
    \/ \E t \in {"prop", "wack", "commit", "read"} : \E to \in 1..N : \E w \in 1..MaxId : Deliver(t, to, w)
    \/ \E i \in 1..N : \E k \in 1..NK : Read(i, k)
    \/ \E r \in 1..MaxR : GetDone(r)

Spec == Init /\ [][Next]_s

AckAll == InvAckAll(s)
ReadCommitted == InvReadCommitted(s)
Converge == InvConverge(s)
=============================================================================
