--------------------------- MODULE PageCacheTrace ---------------------------
(* Trace validation for the PageCache extension of C16.  Input                *)
(* (IOEnv.TRACE_FILE): JSON array of executions recorded by                   *)
(* harness/families/c16_pagecache.py:                                         *)
(*  [id, cap, ra, steps |-> << [p, o, kind, pid, seg, last, ret, t, n,        *)
(*                              pg (OrderedDict order), dirty, wb] ... >>]    *)
(* one step per generator segment, state observed after it (n = pages_cached, *)
(* wb = stats.dirty_writebacks; ret = -1: the call raised).                   *)
(* Per step: conformance against PageCache.tla from the observed pre-state    *)
(* (MODEL:.., drift) and the contract on the observation:                     *)
(*   PROP:capacity     more pages cached than capacity_pages                  *)
(*   PROP:dirty_lost   a dirty page left the cache or turned clean without a  *)
(*                     writeback being counted                                *)
(* Verdicts: <<"V", id, verdict, pos, taint>>  <<"D", id, "MODEL:..", pos>>   *)
(* taint {1} / {2}: the failing step is exactly what the model predicts with  *)
(* the known deviation load_inserts_without_recheck / load_overwrites_dirty.  *)
EXTENDS PageCache, Json, IOUtils

CONSTANTS Dev

Traces == JsonDeserialize(IOEnv.TRACE_FILE)
NT == Len(Traces)

VARIABLES ti, l, acc
tvars == <<ti, l, acc>>

GT(T) == [cap |-> T.cap, ra |-> T.ra, dev |-> Dev]
Acc0(T) == [s |-> InitP, opsf |-> <<>>, prop |-> <<"", 0, {}>>, drift |-> <<"", 0>>]
SeqSet(q) == { q[i] : i \in 1..Len(q) }

Diff(o, r) ==
    IF o.s.pg # r.pg THEN "MODEL:pages"
    ELSE IF o.s.dirty # SeqSet(r.dirty) THEN "MODEL:dirty"
    ELSE IF o.s.wb # r.wb THEN "MODEL:writebacks"
    ELSE IF o.done # r.last THEN "MODEL:segments"
    ELSE IF r.last /\ o.ret # r.ret THEN "MODEL:return"
    ELSE ""

StepF(T, ll, a) ==
    LET g == GT(T)
        r == T.steps[ll]
        s == a.s
        known == r.seg > 1 /\ r.o \in DOMAIN a.opsf
        op0 == IF known THEN a.opsf[r.o] ELSE PNewOp(r.kind, r.pid)
        o == Adv(g, s, op0)
        d == Diff(o, r)
                bad == IF a.prop[1] # "" THEN <<"", {}>>
               ELSE IF Len(r.pg) > T.cap \/ r.n > T.cap
                    THEN <<"PROP:capacity", IF d = "" /\ P1 \in Dev THEN {1} ELSE {}>>
               ELSE IF ~DirtyCovered(s.dirty, s.wb, SeqSet(r.dirty), r.wb)
                    THEN <<"PROP:dirty_lost", IF d = "" /\ P2 \in Dev /\ o.s.lost > s.lost THEN {2} ELSE {}>>
               ELSE <<"", {}>>
        ns == [o.s EXCEPT !.pg = r.pg, !.dirty = SeqSet(r.dirty), !.wb = r.wb]
    IN [s |-> ns,
        opsf |-> IF r.last THEN [x \in DOMAIN a.opsf \ {r.o} |-> a.opsf[x]] ELSE (r.o :> o.op) @@ a.opsf,
        prop |-> IF bad[1] # "" THEN <<bad[1], ll, bad[2]>> ELSE a.prop,
        drift |-> IF a.drift[1] = "" /\ d # "" THEN <<d, ll>> ELSE a.drift]

RECURSIVE Fold(_, _, _, _)
Fold(T, i, hi, a) == IF i > hi THEN a ELSE Fold(T, i + 1, hi, StepF(T, i, a))

Chunk == 8
Dummy == [cap |-> 1, ra |-> 0]
TInit == ti = 1 /\ l = 1 /\ acc = Acc0(Dummy)
TNext ==
    /\ ti <= NT
    /\ LET T == Traces[ti]
           n == Len(T.steps)
       IN IF l > n
          THEN /\ PrintT(<<"V", T.id, IF acc.prop[1] # "" THEN acc.prop[1]
                                      ELSE IF acc.drift[1] # "" THEN acc.drift[1] ELSE "ACCEPT",
                           IF acc.prop[1] # "" THEN acc.prop[2] ELSE acc.drift[2], acc.prop[3]>>)
               /\ (acc.drift[1] # "" => PrintT(<<"D", T.id, acc.drift[1], acc.drift[2]>>))
               /\ ti' = ti + 1 /\ l' = 1 /\ acc' = Acc0(Dummy)
          ELSE LET hi == IF l + Chunk - 1 > n THEN n ELSE l + Chunk - 1
               IN acc' = Fold(T, l, hi, acc) /\ l' = hi + 1 /\ ti' = ti

Spec == TInit /\ [][TNext]_tvars
=============================================================================
