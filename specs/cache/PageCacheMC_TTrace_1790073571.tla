---- MODULE PageCacheMC_TTrace_1790073571 ----
EXTENDS Sequences, TLCExt, Toolbox, Naturals, TLC, PageCacheMC

_expression ==
    LET PageCacheMC_TEExpression == INSTANCE PageCacheMC_TEExpression
    IN PageCacheMC_TEExpression!expression
----

_trace ==
    LET PageCacheMC_TETrace == INSTANCE PageCacheMC_TETrace
    IN PageCacheMC_TETrace!trace
----

_inv ==
    ~(
        TLCGet("level") = Len(_TETrace)
        /\
        ctr = (5)
        /\
        plog = (<<<<[kind |-> "read", pid |-> 1, gap |-> 0], [kind |-> "read", pid |-> 1, gap |-> 0]>>, <<[kind |-> "write", pid |-> 2, gap |-> 1], [kind |-> "read", pid |-> 1, gap |-> 0]>>>>)
        /\
        s = ([pg |-> <<2, 1>>, dirty |-> {2}, wb |-> 0, lost |-> 0])
        /\
        ops = (<<[kind |-> "read", pid |-> 1, i |-> 0, st |-> "new", cont |-> "", victim |-> 0, lst |-> <<>>, cnt |-> 0], [kind |-> "read", pid |-> 1, i |-> 0, st |-> "new", cont |-> "", victim |-> 0, lst |-> <<>>, cnt |-> 0], [kind |-> "none", pid |-> 0, i |-> 0, st |-> "new", cont |-> "", victim |-> 0, lst |-> <<>>, cnt |-> 0]>>)
        /\
        left = (<<1, 1>>)
        /\
        now = (1)
        /\
        fin = (0)
        /\
        heap = ({[p |-> 1, t |-> 1, q |-> 5], [p |-> 2, t |-> 1, q |-> 4]})
    )
----

_init ==
    /\ heap = _TETrace[1].heap
    /\ ctr = _TETrace[1].ctr
    /\ s = _TETrace[1].s
    /\ now = _TETrace[1].now
    /\ left = _TETrace[1].left
    /\ fin = _TETrace[1].fin
    /\ ops = _TETrace[1].ops
    /\ plog = _TETrace[1].plog
----

_next ==
    /\ \E i,j \in DOMAIN _TETrace:
        /\ \/ /\ j = i + 1
              /\ i = TLCGet("level")
        /\ heap  = _TETrace[i].heap
        /\ heap' = _TETrace[j].heap
        /\ ctr  = _TETrace[i].ctr
        /\ ctr' = _TETrace[j].ctr
        /\ s  = _TETrace[i].s
        /\ s' = _TETrace[j].s
        /\ now  = _TETrace[i].now
        /\ now' = _TETrace[j].now
        /\ left  = _TETrace[i].left
        /\ left' = _TETrace[j].left
        /\ fin  = _TETrace[i].fin
        /\ fin' = _TETrace[j].fin
        /\ ops  = _TETrace[i].ops
        /\ ops' = _TETrace[j].ops
        /\ plog  = _TETrace[i].plog
        /\ plog' = _TETrace[j].plog

\* Uncomment the ASSUME below to write the states of the error trace
\* to the given file in Json format. Note that you can pass any tuple
\* to `JsonSerialize`. For example, a sub-sequence of _TETrace.
    \* ASSUME
    \*     LET J == INSTANCE Json
    \*         IN J!JsonSerialize("PageCacheMC_TTrace_1790073571.json", _TETrace)

=============================================================================

 Note that you can extract this module `PageCacheMC_TEExpression`
  to a dedicated file to reuse `expression` (the module in the 
  dedicated `PageCacheMC_TEExpression.tla` file takes precedence 
  over the module `PageCacheMC_TEExpression` below).

---- MODULE PageCacheMC_TEExpression ----
EXTENDS Sequences, TLCExt, Toolbox, Naturals, TLC, PageCacheMC

expression == 
    [
        \* To hide variables of the `PageCacheMC` spec from the error trace,
        \* remove the variables below.  The trace will be written in the order
        \* of the fields of this record.
        heap |-> heap
        ,ctr |-> ctr
        ,s |-> s
        ,now |-> now
        ,left |-> left
        ,fin |-> fin
        ,ops |-> ops
        ,plog |-> plog
        
        \* Put additional constant-, state-, and action-level expressions here:
        \* ,_stateNumber |-> _TEPosition
        \* ,_heapUnchanged |-> heap = heap'
        
        \* Format the `heap` variable as Json value.
        \* ,_heapJson |->
        \*     LET J == INSTANCE Json
        \*     IN J!ToJson(heap)
        
        \* Lastly, you may build expressions over arbitrary sets of states by
        \* leveraging the _TETrace operator.  For example, this is how to
        \* count the number of times a spec variable changed up to the current
        \* state in the trace.
        \* ,_heapModCount |->
        \*     LET F[s \in DOMAIN _TETrace] ==
        \*         IF s = 1 THEN 0
        \*         ELSE IF _TETrace[s].heap # _TETrace[s-1].heap
        \*             THEN 1 + F[s-1] ELSE F[s-1]
        \*     IN F[_TEPosition - 1]
    ]

=============================================================================



Parsing and semantic processing can take forever if the trace below is long.
 In this case, it is advised to uncomment the module below to deserialize the
 trace from a generated binary file.

\*
\*---- MODULE PageCacheMC_TETrace ----
\*EXTENDS IOUtils, TLC, PageCacheMC
\*
\*trace == IODeserialize("PageCacheMC_TTrace_1790073571.bin", TRUE)
\*
\*=============================================================================
\*

---- MODULE PageCacheMC_TETrace ----
EXTENDS TLC, PageCacheMC

trace == 
    <<
    ([ctr |-> 2,plog |-> <<<<[kind |-> "read", pid |-> 1, gap |-> 0]>>, <<[kind |-> "write", pid |-> 2, gap |-> 1]>>>>,s |-> [pg |-> <<>>, dirty |-> {}, wb |-> 0, lost |-> 0],ops |-> <<[kind |-> "read", pid |-> 1, i |-> 0, st |-> "new", cont |-> "", victim |-> 0, lst |-> <<>>, cnt |-> 0], [kind |-> "write", pid |-> 2, i |-> 0, st |-> "new", cont |-> "", victim |-> 0, lst |-> <<>>, cnt |-> 0], [kind |-> "none", pid |-> 0, i |-> 0, st |-> "new", cont |-> "", victim |-> 0, lst |-> <<>>, cnt |-> 0]>>,left |-> <<2, 2>>,now |-> 0,fin |-> 0,heap |-> {[p |-> 1, t |-> 0, q |-> 1], [p |-> 2, t |-> 1, q |-> 2]}]),
    ([ctr |-> 3,plog |-> <<<<[kind |-> "read", pid |-> 1, gap |-> 0]>>, <<[kind |-> "write", pid |-> 2, gap |-> 1]>>>>,s |-> [pg |-> <<>>, dirty |-> {}, wb |-> 0, lost |-> 0],ops |-> <<[kind |-> "read", pid |-> 1, i |-> 0, st |-> "ins", cont |-> "rd", victim |-> 0, lst |-> <<>>, cnt |-> 0], [kind |-> "write", pid |-> 2, i |-> 0, st |-> "new", cont |-> "", victim |-> 0, lst |-> <<>>, cnt |-> 0], [kind |-> "none", pid |-> 0, i |-> 0, st |-> "new", cont |-> "", victim |-> 0, lst |-> <<>>, cnt |-> 0]>>,left |-> <<2, 2>>,now |-> 0,fin |-> 0,heap |-> {[p |-> 1, t |-> 1, q |-> 3], [p |-> 2, t |-> 1, q |-> 2]}]),
    ([ctr |-> 4,plog |-> <<<<[kind |-> "read", pid |-> 1, gap |-> 0]>>, <<[kind |-> "write", pid |-> 2, gap |-> 1], [kind |-> "read", pid |-> 1, gap |-> 0]>>>>,s |-> [pg |-> <<2>>, dirty |-> {2}, wb |-> 0, lost |-> 0],ops |-> <<[kind |-> "read", pid |-> 1, i |-> 0, st |-> "ins", cont |-> "rd", victim |-> 0, lst |-> <<>>, cnt |-> 0], [kind |-> "read", pid |-> 1, i |-> 0, st |-> "new", cont |-> "", victim |-> 0, lst |-> <<>>, cnt |-> 0], [kind |-> "none", pid |-> 0, i |-> 0, st |-> "new", cont |-> "", victim |-> 0, lst |-> <<>>, cnt |-> 0]>>,left |-> <<2, 1>>,now |-> 1,fin |-> 0,heap |-> {[p |-> 1, t |-> 1, q |-> 3], [p |-> 2, t |-> 1, q |-> 4]}]),
    ([ctr |-> 5,plog |-> <<<<[kind |-> "read", pid |-> 1, gap |-> 0], [kind |-> "read", pid |-> 1, gap |-> 0]>>, <<[kind |-> "write", pid |-> 2, gap |-> 1], [kind |-> "read", pid |-> 1, gap |-> 0]>>>>,s |-> [pg |-> <<2, 1>>, dirty |-> {2}, wb |-> 0, lost |-> 0],ops |-> <<[kind |-> "read", pid |-> 1, i |-> 0, st |-> "new", cont |-> "", victim |-> 0, lst |-> <<>>, cnt |-> 0], [kind |-> "read", pid |-> 1, i |-> 0, st |-> "new", cont |-> "", victim |-> 0, lst |-> <<>>, cnt |-> 0], [kind |-> "none", pid |-> 0, i |-> 0, st |-> "new", cont |-> "", victim |-> 0, lst |-> <<>>, cnt |-> 0]>>,left |-> <<1, 1>>,now |-> 1,fin |-> 0,heap |-> {[p |-> 1, t |-> 1, q |-> 5], [p |-> 2, t |-> 1, q |-> 4]}])
    >>
----


=============================================================================

---- CONFIG PageCacheMC_TTrace_1790073571 ----
CONSTANTS
    Cap = 1
    RA = 1
    NPages = 3
    Dev = { "load_inserts_without_recheck" }
    NP = 2
    N1 = 2
    N2 = 2
    N3 = 0
    Gaps = { 0 , 1 }
    Kinds = { "read" , "write" }
    RL = 1
    WL = 2

INVARIANT
    _inv

CHECK_DEADLOCK
    \* CHECK_DEADLOCK off because of PROPERTY or INVARIANT above.
    FALSE

INIT
    _init

NEXT
    _next

CONSTANT
    _TETrace <- _trace

ALIAS
    _expression
=============================================================================
\* Generated on Tue Sep 22 10:39:44 UTC 2026