---------------------------- MODULE TieredTrace ----------------------------
(* Trace validation for C16 / MultiTierCache (two write-through CachedStore  *)
(* tiers over one KVStore).  Input (IOEnv.TRACE_FILE): JSON array of          *)
(* executions recorded by harness/families/c16_tiered.py:                     *)
(*  [id, K, cap1, cap2, pol, par, promo, pre, l2, l2t (warm L2: value, tick), *)
(*   steps |-> << [p, o, kind, k, v, seg, last, ret, t, n1, n2, c1, c2,       *)
(*                 k1, k2 (tracked flags), a1, a2 (policy structures          *)
(*                 <<q1, q2, q3, n>>), back, acc, xk] ... >>]                 *)
(* Per step: model conformance against Tiered.tla from the observed pre-state *)
(* (MODEL:.., drift) and the contract on the observation: PROP:capacity,      *)
(* PROP:policy_keys (either tier), PROP:stale_read.                           *)
(* Verdicts: <<"V", id, verdict, pos, taint>>  <<"D", id, "MODEL:..", pos>>   *)
(* taint {1} = "tier_promotion_overwrites_newer_write" made a difference on   *)
(* the key of the failing read; {2} = "l1_put_rewrites_backing_late".         *)
EXTENDS Tiered, Json, IOUtils

CONSTANTS Dev

Traces == JsonDeserialize(IOEnv.TRACE_FILE)
NT == Len(Traces)

VARIABLES ti, l, acc
tvars == <<ti, l, acc>>

GT(T) == [K |-> T.K, cap1 |-> T.cap1, cap2 |-> T.cap2, pol |-> T.pol, par |-> T.par, promo |-> T.promo, dev |-> Dev]
Acc0(T) == [s |-> InitM(GT(T), T.pre, T.l2, T.l2t), h |-> InitHist([K |-> T.K], T.pre), opsf |-> <<>>, st0 |-> <<>>,
            prop |-> <<"", 0, {}>>, drift |-> <<"", 0>>]
Flags(f) == { k \in 1..Len(f) : f[k] = 1 }
PS(a) == [q1 |-> a[1], q2 |-> a[2], q3 |-> a[3], n |-> a[4]]

Diff(o, r) ==
    IF o.s.t1.cache # r.c1 THEN "MODEL:l1_cache"
    ELSE IF o.s.t2.cache # r.c2 THEN "MODEL:l2_cache"
    ELSE IF o.s.back # r.back THEN "MODEL:backing"
    ELSE IF o.s.t1.ps # PS(r.a1) THEN "MODEL:l1_policy_state"
    ELSE IF o.s.t2.ps # PS(r.a2) THEN "MODEL:l2_policy_state"
    ELSE IF o.s.acc # r.acc THEN "MODEL:access_counts"
    ELSE IF o.done # r.last THEN "MODEL:segments"
    ELSE IF r.last /\ o.ret # r.ret THEN "MODEL:return"
    ELSE ""

HStart(hh, kind, k, v, pos) ==
    IF kind = "put" THEN [hh EXCEPT ![k] = Append(@, [v |-> v, s |-> pos, e |-> 0, done |-> FALSE, kind |-> "put"])]
    ELSE IF kind = "del" THEN [hh EXCEPT ![k] = Append(@, [v |-> 0, s |-> pos, e |-> 0, done |-> FALSE, kind |-> "del"])]
    ELSE hh
HEnd(hh, kind, k, spos, pos) ==
    IF kind \in {"put", "del"}
    THEN [hh EXCEPT ![k] = [i \in 1..Len(@) |-> IF @[i].s = spos /\ ~@[i].done
                                                  THEN [@[i] EXCEPT !.e = pos, !.done = TRUE] ELSE @[i]]]
    ELSE hh

StepF(T, ll, a) ==
    LET g == GT(T)
        r == T.steps[ll]
        s == a.s
        known == r.seg > 1 /\ r.o \in DOMAIN a.opsf
        op0 == IF known THEN a.opsf[r.o] ELSE MNewOp(r.kind, r.k, r.v)
        outs == MSeg(g, s, op0, r.t)
        good == { o \in outs : Diff(o, r) = "" }
        o == IF good # {} THEN CHOOSE x \in good : TRUE ELSE CHOOSE x \in outs : TRUE
        spos == IF r.seg = 1 \/ r.o \notin DOMAIN a.st0 THEN ll ELSE a.st0[r.o]
        h1 == IF r.seg = 1 THEN HStart(a.h, r.kind, r.k, r.v, ll) ELSE a.h
        h2 == IF r.last THEN HEnd(h1, r.kind, r.k, spos, ll) ELSE h1
        cached1 == { k \in 1..T.K : r.c1[k] # 0 }
        cached2 == { k \in 1..T.K : r.c2[k] # 0 }
        ns == [o.s EXCEPT !.t1.cache = r.c1, !.t2.cache = r.c2, !.back = r.back, !.t1.ps = PS(r.a1),
                          !.t2.ps = PS(r.a2), !.acc = r.acc]
        bad == IF a.prop[1] # "" THEN <<"", {}>>
               ELSE IF r.n1 > T.cap1 \/ r.n2 > T.cap2 \/ Cardinality(cached1) > T.cap1 \/ Cardinality(cached2) > T.cap2
                    THEN <<"PROP:capacity", {}>>
               ELSE IF Flags(r.k1) # cached1 \/ Flags(r.k2) # cached2 \/ r.xk > 0 THEN <<"PROP:policy_keys", {}>>
               ELSE IF r.kind = "get" /\ r.last /\ ~ReadOK(h2, r.k, spos, r.ret)
                    THEN <<"PROP:stale_read", (IF T1 \in o.s.taint[r.k] THEN {1} ELSE {}) \cup
                                              (IF T2 \in o.s.taint[r.k] THEN {2} ELSE {})>>
               ELSE <<"", {}>>
    IN [s |-> ns, h |-> h2,
        st0 |-> IF r.seg = 1 THEN (r.o :> ll) @@ a.st0 ELSE a.st0,
        opsf |-> IF r.last THEN [x \in DOMAIN a.opsf \ {r.o} |-> a.opsf[x]] ELSE (r.o :> o.op) @@ a.opsf,
        prop |-> IF bad[1] # "" THEN <<bad[1], ll, bad[2]>> ELSE a.prop,
        drift |-> IF a.drift[1] = "" /\ good = {} THEN <<Diff(o, r), ll>> ELSE a.drift]

RECURSIVE Fold(_, _, _, _)
Fold(T, i, hi, a) == IF i > hi THEN a ELSE Fold(T, i + 1, hi, StepF(T, i, a))

Chunk == 8
Dummy == [K |-> 1, cap1 |-> 1, cap2 |-> 1, pol |-> "LRU", par |-> [ttl |-> 1, ss |-> 1, a1max |-> 1],
          promo |-> "always", pre |-> <<0>>, l2 |-> <<0>>, l2t |-> <<0>>]
TInit == ti = 1 /\ l = 1 /\ acc = Acc0(IF NT = 0 THEN Dummy ELSE Traces[1])
TNext ==
    /\ ti <= NT
    /\ LET T == Traces[ti]
           n == Len(T.steps)
       IN IF l > n
          THEN /\ PrintT(<<"V", T.id, IF acc.prop[1] # "" THEN acc.prop[1]
                                      ELSE IF acc.drift[1] # "" THEN acc.drift[1] ELSE "ACCEPT",
                           IF acc.prop[1] # "" THEN acc.prop[2] ELSE acc.drift[2], acc.prop[3]>>)
               /\ (acc.drift[1] # "" => PrintT(<<"D", T.id, acc.drift[1], acc.drift[2]>>))
               /\ ti' = ti + 1 /\ l' = 1
               /\ acc' = Acc0(IF ti + 1 > NT THEN Dummy ELSE Traces[ti + 1])
          ELSE LET hi == IF l + Chunk - 1 > n THEN n ELSE l + Chunk - 1
               IN acc' = Fold(T, l, hi, acc) /\ l' = hi + 1 /\ ti' = ti

Spec == TInit /\ [][TNext]_tvars
=============================================================================
