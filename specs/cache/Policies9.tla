----------------------------- MODULE Policies9 -----------------------------
(* The nine cache eviction policies of                                       *)
(* happysimulator/components/datastore/eviction_policies.py as explicit      *)
(* sequence machines (property C16, clause "the keys tracked by the eviction *)
(* policy are exactly the keys the cache holds").                            *)
(*                                                                           *)
(* A policy state is one record  [q1, q2, q3 : Seq(Int), n : Int]  whose      *)
(* meaning depends on the policy name (the same projection is taken from the *)
(* real Python object by harness/families/c16_policies.py):                  *)
(*   LRU      q1 = OrderedDict order (head = least recently used)            *)
(*   LFU      q1 = keys in dict order, q2 = counts (aligned)                 *)
(*   TTL      q1 = keys in dict order, q2 = insertion tick (aligned)         *)
(*   FIFO     q1 = queue                                                     *)
(*   RANDOM   q1 = tracked keys, ascending (a set)                           *)
(*   SLRU     q1 = probationary order, q2 = protected order                  *)
(*   SAMPLED  q1 = keys in dict order, q2 = logical access time, n = clock   *)
(*   CLOCK    q1 = circular buffer, q2 = reference bits (0/1), n = hand      *)
(*   TWOQ     q1 = A1in, q2 = A1out (ghosts), q3 = Am                        *)
(*   ANY      q1 = tracked keys ascending; evict() may return any of them    *)
(*            (the abstraction of all nine used by Cache.tla)                *)
(* Keys are positive integers, 0 stands for Python None.                     *)
(* par = [ttl, ss, a1max] : TTL in ticks, SampledLRU sample size, 2Q ghost   *)
(* queue bound.                                                              *)
EXTENDS Naturals, Integers, Sequences, FiniteSets

SeqSet(s) == { s[i] : i \in 1..Len(s) }
Has(s, x) == \E i \in 1..Len(s) : s[i] = x
IdxOf(s, x) == IF Has(s, x)
               THEN CHOOSE i \in 1..Len(s) : s[i] = x /\ \A j \in 1..(i - 1) : s[j] # x
               ELSE 0
RemoveAt(s, i) == SubSeq(s, 1, i - 1) \o SubSeq(s, i + 1, Len(s))
RemoveFirst(s, x) == IF Has(s, x) THEN RemoveAt(s, IdxOf(s, x)) ELSE s
MoveEnd(s, x) == IF Has(s, x) THEN Append(RemoveFirst(s, x), x) ELSE s
SetAt(s, i, v) == [s EXCEPT ![i] = v]
SortedIns(s, x) == IF Has(s, x) THEN s
                   ELSE LET i == Cardinality({ j \in 1..Len(s) : s[j] < x })
                        IN SubSeq(s, 1, i) \o <<x>> \o SubSeq(s, i + 1, Len(s))
MinOf(S) == CHOOSE x \in S : \A y \in S : x <= y
FirstIdx(s, v) == MinOf({ i \in 1..Len(s) : s[i] = v })

PInit == [q1 |-> <<>>, q2 |-> <<>>, q3 |-> <<>>, n |-> 0]
PolicyNames == {"LRU", "LFU", "TTL", "FIFO", "RANDOM", "SLRU", "SAMPLED", "CLOCK", "TWOQ"}

\* ------------------------------------------------------------------ on_access
PAccess(pol, ps, k) ==
    CASE pol = "LRU" -> [ps EXCEPT !.q1 = MoveEnd(@, k)]
      [] pol = "LFU" -> IF Has(ps.q1, k)
                        THEN [ps EXCEPT !.q2 = SetAt(@, IdxOf(ps.q1, k), @[IdxOf(ps.q1, k)] + 1)]
                        ELSE ps
      [] pol = "SLRU" -> IF Has(ps.q1, k)
                         THEN [ps EXCEPT !.q1 = RemoveFirst(@, k),
                                         !.q2 = Append(RemoveFirst(@, k), k)]
                         ELSE [ps EXCEPT !.q2 = MoveEnd(@, k)]
      [] pol = "SAMPLED" -> IF Has(ps.q1, k)
                            THEN [ps EXCEPT !.n = @ + 1, !.q2 = SetAt(@, IdxOf(ps.q1, k), ps.n + 1)]
                            ELSE ps
      [] pol = "CLOCK" -> IF Has(ps.q1, k) THEN [ps EXCEPT !.q2 = SetAt(@, IdxOf(ps.q1, k), 1)] ELSE ps
      [] pol = "TWOQ" -> [ps EXCEPT !.q3 = MoveEnd(@, k)]
      [] OTHER -> ps           \* TTL, FIFO, RANDOM, ANY: no-op

\* ------------------------------------------------------------------ on_insert
PInsert(pol, par, ps, k, now) ==
    CASE pol = "LRU" -> IF Has(ps.q1, k) THEN ps ELSE [ps EXCEPT !.q1 = Append(@, k)]
      [] pol = "LFU" -> IF Has(ps.q1, k) THEN [ps EXCEPT !.q2 = SetAt(@, IdxOf(ps.q1, k), 1)]
                        ELSE [ps EXCEPT !.q1 = Append(@, k), !.q2 = Append(@, 1)]
      [] pol = "TTL" -> IF Has(ps.q1, k) THEN [ps EXCEPT !.q2 = SetAt(@, IdxOf(ps.q1, k), now)]
                        ELSE [ps EXCEPT !.q1 = Append(@, k), !.q2 = Append(@, now)]
      [] pol = "FIFO" -> IF Has(ps.q1, k) THEN ps ELSE [ps EXCEPT !.q1 = Append(@, k)]
      [] pol \in {"RANDOM", "ANY"} -> [ps EXCEPT !.q1 = SortedIns(@, k)]
      [] pol = "SLRU" -> IF Has(ps.q1, k) THEN ps ELSE [ps EXCEPT !.q1 = Append(@, k)]
      [] pol = "SAMPLED" -> IF Has(ps.q1, k)
                            THEN [ps EXCEPT !.n = @ + 1, !.q2 = SetAt(@, IdxOf(ps.q1, k), ps.n + 1)]
                            ELSE [ps EXCEPT !.n = @ + 1, !.q1 = Append(@, k), !.q2 = Append(@, ps.n + 1)]
      [] pol = "CLOCK" -> IF Has(ps.q1, k) THEN ps
                          ELSE [ps EXCEPT !.q1 = Append(@, k), !.q2 = Append(@, 1)]
      [] pol = "TWOQ" -> IF Has(ps.q2, k)
                         THEN [ps EXCEPT !.q2 = RemoveFirst(@, k),
                                         !.q3 = IF Has(@, k) THEN @ ELSE Append(@, k)]
                         ELSE [ps EXCEPT !.q1 = Append(@, k)]

\* ------------------------------------------------------------------ on_remove
ClockRemove(ps, k) ==
    IF ~Has(ps.q1, k) THEN ps
    ELSE LET i == IdxOf(ps.q1, k)
             nk == RemoveAt(ps.q1, i)
         IN [ps EXCEPT !.q1 = nk, !.q2 = RemoveAt(@, i),
                       !.n = IF ps.n >= Len(nk) /\ Len(nk) > 0 THEN 0 ELSE ps.n]

PRemove(pol, ps, k) ==
    CASE pol \in {"LRU", "FIFO", "RANDOM", "ANY"} -> [ps EXCEPT !.q1 = RemoveFirst(@, k)]
      [] pol \in {"LFU", "TTL", "SAMPLED"} ->
            IF Has(ps.q1, k)
            THEN [ps EXCEPT !.q1 = RemoveAt(@, IdxOf(ps.q1, k)), !.q2 = RemoveAt(@, IdxOf(ps.q1, k))]
            ELSE ps
      [] pol = "SLRU" -> [ps EXCEPT !.q1 = RemoveFirst(@, k), !.q2 = RemoveFirst(@, k)]
      [] pol = "CLOCK" -> ClockRemove(ps, k)
      [] pol = "TWOQ" -> [ps EXCEPT !.q1 = RemoveFirst(@, k), !.q2 = RemoveFirst(@, k),
                                    !.q3 = RemoveFirst(@, k)]

\* ------------------------------------------------------------------ evict
\* result records [v |-> victim or 0, ps |-> state after]; a set because RANDOM, SAMPLED and ANY
\* are nondeterministic (the model allows every victim some seed can produce).
None(ps) == [v |-> 0, ps |-> ps]
Cut2(ps, i) == [v |-> ps.q1[i], ps |-> [ps EXCEPT !.q1 = RemoveAt(@, i), !.q2 = RemoveAt(@, i)]]

ClockPop(keys, refs, hand) ==
    LET nk == RemoveAt(keys, hand + 1)
    IN [v |-> keys[hand + 1],
        ps |-> [q1 |-> nk, q2 |-> RemoveAt(refs, hand + 1), q3 |-> <<>>,
                n |-> IF hand >= Len(nk) /\ Len(nk) > 0 THEN 0 ELSE hand]]
RECURSIVE ClockScan(_, _, _, _)
ClockScan(keys, refs, hand, scanned) ==
    IF scanned >= 2 * Len(keys) THEN ClockPop(keys, refs, hand)
    ELSE IF refs[hand + 1] = 1
         THEN ClockScan(keys, SetAt(refs, hand + 1, 0), (hand + 1) % Len(keys), scanned + 1)
         ELSE ClockPop(keys, refs, hand)

RECURSIVE Trim(_, _)
Trim(s, mx) == IF Len(s) > mx THEN Trim(Tail(s), mx) ELSE s

PEvictSet(pol, par, ps, now) ==
    IF ps.q1 = <<>> /\ ~(pol = "SLRU" /\ ps.q2 # <<>>) /\ ~(pol = "TWOQ" /\ ps.q3 # <<>>)
    THEN {None(ps)}
    ELSE
    CASE pol \in {"LRU", "FIFO"} -> {[v |-> Head(ps.q1), ps |-> [ps EXCEPT !.q1 = Tail(@)]]}
      [] pol = "LFU" -> {Cut2(ps, FirstIdx(ps.q2, MinOf(SeqSet(ps.q2))))}
      [] pol = "TTL" ->
            LET exp == { i \in 1..Len(ps.q1) : now - ps.q2[i] >= par.ttl }
            IN {Cut2(ps, IF exp # {} THEN MinOf(exp) ELSE FirstIdx(ps.q2, MinOf(SeqSet(ps.q2))))}
      [] pol \in {"RANDOM", "ANY"} ->
            { [v |-> ps.q1[i], ps |-> [ps EXCEPT !.q1 = RemoveAt(@, i)]] : i \in 1..Len(ps.q1) }
      [] pol = "SLRU" ->
            IF ps.q1 # <<>> THEN {[v |-> Head(ps.q1), ps |-> [ps EXCEPT !.q1 = Tail(@)]]}
            ELSE {[v |-> Head(ps.q2), ps |-> [ps EXCEPT !.q2 = Tail(@)]]}
      [] pol = "SAMPLED" ->
            LET cnt == IF par.ss < Len(ps.q1) THEN par.ss ELSE Len(ps.q1)
                ok == { i \in 1..Len(ps.q1) :
                          Cardinality({ j \in 1..Len(ps.q1) : ps.q2[j] > ps.q2[i] }) >= cnt - 1 }
            IN { Cut2(ps, i) : i \in ok }
      [] pol = "CLOCK" -> {ClockScan(ps.q1, ps.q2, ps.n, 0)}
      [] pol = "TWOQ" ->
            IF ps.q1 # <<>>
            THEN {[v |-> Head(ps.q1),
                   ps |-> [ps EXCEPT !.q1 = Tail(@), !.q2 = Trim(Append(@, Head(ps.q1)), par.a1max)]]}
            ELSE {[v |-> Head(ps.q3), ps |-> [ps EXCEPT !.q3 = Tail(@)]]}

\* ------------------------------------------------------------------ clear
PClear(pol, ps) == PInit

\* the keys the policy believes are in the cache
PTracked(pol, ps) ==
    CASE pol = "SLRU" -> SeqSet(ps.q1) \cup SeqSet(ps.q2)
      [] pol = "TWOQ" -> SeqSet(ps.q1) \cup SeqSet(ps.q3)
      [] OTHER -> SeqSet(ps.q1)
=============================================================================
