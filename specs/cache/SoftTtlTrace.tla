---------------------------- MODULE SoftTtlTrace ----------------------------
(* Trace validation for C16 / SoftTTLCache.  Input (IOEnv.TRACE_FILE): JSON  *)
(* array of executions recorded by harness/families/c16_softttl.py:          *)
(*  [id, K, cap (0 = unbounded), soft, hard, pre,                            *)
(*   steps |-> << [p, o, kind, k, v, seg, last, ret, t, n, val, at, ord,     *)
(*                 rfr, back, br] ... >>]                                    *)
(* one step per generator segment (client operations and the cache's own     *)
(* background refresh handler), observed state after it: n = cache_size,     *)
(* val/at = value and cached_at tick per key, ord = LRU list, rfr = 0/1      *)
(* refreshing flags, back = backing values, br = backing store read counter. *)
(* Per step: model conformance (MODEL:.., drift) against SoftTtl.tla from    *)
(* the observed pre-state, and the contract on the observation:              *)
(*   PROP:capacity  PROP:policy_keys (LRU list = cached keys)                *)
(*   PROP:stale_read (read-after-write)                                      *)
(*   PROP:hard_ttl  a get that did not read the backing store in its final   *)
(*                  segment returned a value whose cache entry (the one      *)
(*                  present when the get was issued or when it returned) was *)
(*                  older than the hard TTL when the get was issued; the age *)
(*                  is counted from the instant the entry was installed (put *)
(*                  landed / backing store read), not from the code's own    *)
(*                  cached_at field (that field is compared as drift only).  *)
(* Verdict lines: <<"V", id, verdict, pos, taint>>, <<"D", id, "MODEL:..", pos>> *)
(* taint {1}: the failing get took the coalesced path of the known deviation *)
(* "coalesced_miss_returns_none" (returned None for a key the backing store  *)
(* holds) and the model with that deviation predicts exactly this.           *)
EXTENDS SoftTtl, Json, IOUtils

CONSTANTS Dev

Traces == JsonDeserialize(IOEnv.TRACE_FILE)
NT == Len(Traces)

VARIABLES ti, l, acc
tvars == <<ti, l, acc>>

GT(T) == [K |-> T.K, cap |-> T.cap, soft |-> T.soft, hard |-> T.hard, dev |-> Dev]
\* born[k]: tick at which the entry now cached for k was installed, derived from the observed operations only
\* (a put that landed, or a get / refresh whose final segment read the backing store), independent of the
\* cached_at field the code maintains
Acc0(T) == [s |-> InitT(GT(T), T.pre), h |-> InitHist(GT(T), T.pre), opsf |-> <<>>, iss |-> <<>>, br |-> 0,
            born |-> [k \in 1..T.K |-> 0],
            prop |-> <<"", 0, {}>>, drift |-> <<"", 0>>]
Flags(f) == { k \in 1..Len(f) : f[k] = 1 }

Diff(o, r) ==
    IF o.s.val # r.val THEN "MODEL:cache"
    ELSE IF o.s.at # r.at THEN "MODEL:cached_at"
    ELSE IF o.s.ord # r.ord THEN "MODEL:lru_order"
    ELSE IF o.s.rfr # Flags(r.rfr) THEN "MODEL:refreshing"
    ELSE IF o.s.back # r.back THEN "MODEL:backing"
    ELSE IF o.done # r.last THEN "MODEL:segments"
    ELSE IF r.last /\ o.ret # r.ret THEN "MODEL:return"
    ELSE ""

HStart(hh, kind, k, v, pos) ==
    IF kind = "put" THEN [hh EXCEPT ![k] = Append(@, [v |-> v, s |-> pos, e |-> 0, done |-> FALSE, kind |-> "put"])]
    ELSE hh
HEnd(hh, kind, k, spos, pos) ==
    IF kind = "put"
    THEN [hh EXCEPT ![k] = [i \in 1..Len(@) |-> IF @[i].s = spos /\ ~@[i].done
                                                  THEN [@[i] EXCEPT !.e = pos, !.done = TRUE] ELSE @[i]]]
    ELSE hh

StepF(T, ll, a) ==
    LET g == GT(T)
        r == T.steps[ll]
        s == a.s
        known == r.seg > 1 /\ r.o \in DOMAIN a.opsf
        op0 == IF known THEN a.opsf[r.o] ELSE NewOp(r.kind, r.k, r.v)
        o == Seg(g, s, op0, r.t)
        d == Diff(o, r)
        \* <<issue position, issue tick, value and cached_at of the entry present at issue>>
        is == IF r.seg = 1 \/ r.o \notin DOMAIN a.iss
              THEN <<ll, r.t, IF r.k > 0 THEN s.val[r.k] ELSE 0, IF r.k > 0 THEN a.born[r.k] ELSE 0>>
              ELSE a.iss[r.o]
        h1 == IF r.seg = 1 THEN HStart(a.h, r.kind, r.k, r.v, ll) ELSE a.h
        h2 == IF r.last THEN HEnd(h1, r.kind, r.k, is[1], ll) ELSE h1
        cached == { k \in 1..T.K : r.val[k] # 0 }
        fromcache == r.kind = "get" /\ r.last /\ r.ret # 0 /\ r.br = a.br
        ttlok == \/ (is[3] = r.ret /\ is[2] - is[4] <= T.hard)
                 \/ (s.val[r.k] = r.ret /\ is[2] - a.born[r.k] <= T.hard)
        installs == r.last /\ r.k > 0 /\ (r.kind = "put" \/ (r.kind \in {"get", "refresh"} /\ r.br > a.br))
        coalnone == op0.kind = "get" /\ op0.st = "coal" /\ r.last /\ r.ret = 0 /\ s.val[r.k] = 0
                    /\ s.back[r.k] # 0 /\ DC \in Dev /\ d = ""
        bad == IF a.prop[1] # "" THEN ""
               ELSE IF T.cap > 0 /\ (r.n > T.cap \/ Cardinality(cached) > T.cap) THEN "PROP:capacity"
               ELSE IF SeqSet(r.ord) # cached \/ Cardinality(SeqSet(r.ord)) # Len(r.ord) THEN "PROP:policy_keys"
               ELSE IF r.kind = "get" /\ r.last /\ ~ReadOK(h2, r.k, is[1], r.ret) THEN "PROP:stale_read"
               ELSE IF fromcache /\ ~ttlok THEN "PROP:hard_ttl"
               ELSE ""
        ns == [o.s EXCEPT !.val = r.val, !.at = r.at, !.ord = r.ord, !.rfr = Flags(r.rfr), !.back = r.back]
    IN [s |-> ns, h |-> h2, br |-> r.br,
        born |-> IF installs /\ r.val[r.k] # 0 THEN [a.born EXCEPT ![r.k] = r.t] ELSE a.born,
        iss |-> IF r.last THEN [x \in DOMAIN a.iss \ {r.o} |-> a.iss[x]] ELSE (r.o :> is) @@ a.iss,
        opsf |-> IF r.last THEN [x \in DOMAIN a.opsf \ {r.o} |-> a.opsf[x]] ELSE (r.o :> o.op) @@ a.opsf,
        prop |-> IF bad # "" THEN <<bad, ll, IF bad = "PROP:stale_read" /\ coalnone THEN {1} ELSE {}>> ELSE a.prop,
        drift |-> IF a.drift[1] = "" /\ d # "" THEN <<d, ll>> ELSE a.drift]

RECURSIVE Fold(_, _, _, _)
Fold(T, i, hi, a) == IF i > hi THEN a ELSE Fold(T, i + 1, hi, StepF(T, i, a))

Chunk == 8
Dummy == [K |-> 1, cap |-> 1, soft |-> 1, hard |-> 1, pre |-> <<0>>]
TInit == ti = 1 /\ l = 1 /\ acc = Acc0(IF NT = 0 THEN Dummy ELSE Traces[1])
TNext ==
    /\ ti <= NT
    /\ LET T == Traces[ti]
           n == Len(T.steps)
       IN IF l > n
          THEN /\ PrintT(<<"V", T.id, IF acc.prop[1] # "" THEN acc.prop[1]
                                      ELSE IF acc.drift[1] # "" THEN acc.drift[1] ELSE "ACCEPT",
                           IF acc.prop[1] # "" THEN acc.prop[2] ELSE acc.drift[2], acc.prop[3]>>)
               /\ (acc.drift[1] # "" => PrintT(<<"D", T.id, acc.drift[1], acc.drift[2]>>))
               /\ ti' = ti + 1 /\ l' = 1
               /\ acc' = Acc0(IF ti + 1 > NT THEN Dummy ELSE Traces[ti + 1])
          ELSE LET hi == IF l + Chunk - 1 > n THEN n ELSE l + Chunk - 1
               IN acc' = Fold(T, l, hi, acc) /\ l' = hi + 1 /\ ti' = ti

Spec == TInit /\ [][TNext]_tvars
=============================================================================
