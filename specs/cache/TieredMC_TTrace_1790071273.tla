---- MODULE TieredMC_TTrace_1790071273 ----
EXTENDS Sequences, TLCExt, Toolbox, TieredMC, Naturals, TLC

_expression ==
    LET TieredMC_TEExpression == INSTANCE TieredMC_TEExpression
    IN TieredMC_TEExpression!expression
----

_trace ==
    LET TieredMC_TETrace == INSTANCE TieredMC_TETrace
    IN TieredMC_TETrace!trace
----

_inv ==
    ~(
        TLCGet("level") = Len(_TETrace)
        /\
        ctr = (17)
        /\
        plog = (<<<<[k |-> 1, kind |-> "put", gap |-> 0]>>, <<[k |-> 2, kind |-> "inv", gap |-> 0], [k |-> 1, kind |-> "inv", gap |-> 2], [k |-> 1, kind |-> "get", gap |-> 0]>>, <<[k |-> 1, kind |-> "put", gap |-> 1]>>>>)
        /\
        reads = ({[k |-> 1, s |-> 6, ret |-> 1], [k |-> 1, s |-> 11, ret |-> 1], [k |-> 2, s |-> 13, ret |-> 102]})
        /\
        nv = (2)
        /\
        h = (<<<<[s |-> 0, kind |-> "init", e |-> 0, v |-> 101, done |-> TRUE], [s |-> 1, kind |-> "put", e |-> 8, v |-> 1, done |-> TRUE], [s |-> 3, kind |-> "put", e |-> 10, v |-> 2, done |-> TRUE]>>, <<[s |-> 0, kind |-> "init", e |-> 0, v |-> 102, done |-> TRUE]>>>>)
        /\
        fin = (2)
        /\
        st0 = (<<1, 6, 3, 13>>)
        /\
        s = ([t1 |-> [back |-> <<0, 0>>, gen |-> <<0, 0>>, taint |-> <<{}, {}>>, cache |-> <<0, 102>>, dirty |-> {}, ps |-> [q1 |-> <<2>>, q2 |-> <<>>, q3 |-> <<>>, n |-> 0], pend |-> <<0, 0>>], t2 |-> [back |-> <<0, 0>>, gen |-> <<0, 0>>, taint |-> <<{}, {}>>, cache |-> <<0, 0>>, dirty |-> {}, ps |-> [q1 |-> <<>>, q2 |-> <<>>, q3 |-> <<>>, n |-> 0], pend |-> <<0, 0>>], back |-> <<2, 102>>, acc |-> <<2, 1>>, gen |-> <<2, 0>>, lwv |-> <<2, 0>>, taint |-> <<{"l1_put_rewrites_backing_late"}, {}>>])
        /\
        ops = (<<[k |-> 0, kind |-> "none", x |-> 0, v |-> 0, st |-> "new", tier |-> 0, g0 |-> 0, ex |-> FALSE], [k |-> 0, kind |-> "none", x |-> 0, v |-> 0, st |-> "new", tier |-> 0, g0 |-> 0, ex |-> FALSE], [k |-> 0, kind |-> "none", x |-> 0, v |-> 0, st |-> "new", g0 |-> 0, ex |-> FALSE, lst |-> <<>>, cnt |-> 0], [k |-> 0, kind |-> "none", x |-> 0, v |-> 0, st |-> "new", tier |-> 0, g0 |-> 0, ex |-> FALSE]>>)
        /\
        left = (<<0, 0, 0>>)
        /\
        now = (18)
        /\
        finalBack = (<<>>)
        /\
        heap = ({})
        /\
        idx = (14)
    )
----

_init ==
    /\ heap = _TETrace[1].heap
    /\ reads = _TETrace[1].reads
    /\ st0 = _TETrace[1].st0
    /\ ctr = _TETrace[1].ctr
    /\ nv = _TETrace[1].nv
    /\ h = _TETrace[1].h
    /\ s = _TETrace[1].s
    /\ now = _TETrace[1].now
    /\ finalBack = _TETrace[1].finalBack
    /\ left = _TETrace[1].left
    /\ fin = _TETrace[1].fin
    /\ idx = _TETrace[1].idx
    /\ ops = _TETrace[1].ops
    /\ plog = _TETrace[1].plog
----

_next ==
    /\ \E i,j \in DOMAIN _TETrace:
        /\ \/ /\ j = i + 1
              /\ i = TLCGet("level")
        /\ heap  = _TETrace[i].heap
        /\ heap' = _TETrace[j].heap
        /\ reads  = _TETrace[i].reads
        /\ reads' = _TETrace[j].reads
        /\ st0  = _TETrace[i].st0
        /\ st0' = _TETrace[j].st0
        /\ ctr  = _TETrace[i].ctr
        /\ ctr' = _TETrace[j].ctr
        /\ nv  = _TETrace[i].nv
        /\ nv' = _TETrace[j].nv
        /\ h  = _TETrace[i].h
        /\ h' = _TETrace[j].h
        /\ s  = _TETrace[i].s
        /\ s' = _TETrace[j].s
        /\ now  = _TETrace[i].now
        /\ now' = _TETrace[j].now
        /\ finalBack  = _TETrace[i].finalBack
        /\ finalBack' = _TETrace[j].finalBack
        /\ left  = _TETrace[i].left
        /\ left' = _TETrace[j].left
        /\ fin  = _TETrace[i].fin
        /\ fin' = _TETrace[j].fin
        /\ idx  = _TETrace[i].idx
        /\ idx' = _TETrace[j].idx
        /\ ops  = _TETrace[i].ops
        /\ ops' = _TETrace[j].ops
        /\ plog  = _TETrace[i].plog
        /\ plog' = _TETrace[j].plog

\* Uncomment the ASSUME below to write the states of the error trace
\* to the given file in Json format. Note that you can pass any tuple
\* to `JsonSerialize`. For example, a sub-sequence of _TETrace.
    \* ASSUME
    \*     LET J == INSTANCE Json
    \*         IN J!JsonSerialize("TieredMC_TTrace_1790071273.json", _TETrace)

=============================================================================

 Note that you can extract this module `TieredMC_TEExpression`
  to a dedicated file to reuse `expression` (the module in the 
  dedicated `TieredMC_TEExpression.tla` file takes precedence 
  over the module `TieredMC_TEExpression` below).

---- MODULE TieredMC_TEExpression ----
EXTENDS Sequences, TLCExt, Toolbox, TieredMC, Naturals, TLC

expression == 
    [
        \* To hide variables of the `TieredMC` spec from the error trace,
        \* remove the variables below.  The trace will be written in the order
        \* of the fields of this record.
        heap |-> heap
        ,reads |-> reads
        ,st0 |-> st0
        ,ctr |-> ctr
        ,nv |-> nv
        ,h |-> h
        ,s |-> s
        ,now |-> now
        ,finalBack |-> finalBack
        ,left |-> left
        ,fin |-> fin
        ,idx |-> idx
        ,ops |-> ops
        ,plog |-> plog
        
        \* Put additional constant-, state-, and action-level expressions here:
        \* ,_stateNumber |-> _TEPosition
        \* ,_heapUnchanged |-> heap = heap'
        
        \* Format the `heap` variable as Json value.
        \* ,_heapJson |->
        \*     LET J == INSTANCE Json
        \*     IN J!ToJson(heap)
        
        \* Lastly, you may build expressions over arbitrary sets of states by
        \* leveraging the _TETrace operator.  For example, this is how to
        \* count the number of times a spec variable changed up to the current
        \* state in the trace.
        \* ,_heapModCount |->
        \*     LET F[s \in DOMAIN _TETrace] ==
        \*         IF s = 1 THEN 0
        \*         ELSE IF _TETrace[s].heap # _TETrace[s-1].heap
        \*             THEN 1 + F[s-1] ELSE F[s-1]
        \*     IN F[_TEPosition - 1]
    ]

=============================================================================



Parsing and semantic processing can take forever if the trace below is long.
 In this case, it is advised to uncomment the module below to deserialize the
 trace from a generated binary file.

\*
\*---- MODULE TieredMC_TETrace ----
\*EXTENDS IOUtils, TieredMC, TLC
\*
\*trace == IODeserialize("TieredMC_TTrace_1790071273.bin", TRUE)
\*
\*=============================================================================
\*

---- MODULE TieredMC_TETrace ----
EXTENDS TieredMC, TLC

trace == 
    <<
    ([ctr |-> 3,plog |-> <<<<[k |-> 1, kind |-> "put", gap |-> 0]>>, <<[k |-> 2, kind |-> "inv", gap |-> 0]>>, <<[k |-> 1, kind |-> "put", gap |-> 1]>>>>,reads |-> {},nv |-> 0,h |-> <<<<[s |-> 0, kind |-> "init", e |-> 0, v |-> 101, done |-> TRUE]>>, <<[s |-> 0, kind |-> "init", e |-> 0, v |-> 102, done |-> TRUE]>>>>,fin |-> 0,st0 |-> <<0, 0, 0, 0>>,s |-> [t1 |-> [back |-> <<0, 0>>, gen |-> <<0, 0>>, taint |-> <<{}, {}>>, cache |-> <<0, 0>>, dirty |-> {}, ps |-> [q1 |-> <<>>, q2 |-> <<>>, q3 |-> <<>>, n |-> 0], pend |-> <<0, 0>>], t2 |-> [back |-> <<0, 0>>, gen |-> <<0, 0>>, taint |-> <<{}, {}>>, cache |-> <<101, 0>>, dirty |-> {}, ps |-> [q1 |-> <<1>>, q2 |-> <<>>, q3 |-> <<>>, n |-> 0], pend |-> <<0, 0>>], back |-> <<101, 102>>, acc |-> <<0, 0>>, gen |-> <<0, 0>>, lwv |-> <<0, 0>>, taint |-> <<{}, {}>>],ops |-> <<[k |-> 1, kind |-> "put", x |-> 0, v |-> 0, st |-> "new", tier |-> 0, g0 |-> 0, ex |-> FALSE], [k |-> 2, kind |-> "inv", x |-> 0, v |-> 0, st |-> "new", tier |-> 0, g0 |-> 0, ex |-> FALSE], [k |-> 1, kind |-> "put", x |-> 0, v |-> 0, st |-> "new", tier |-> 0, g0 |-> 0, ex |-> FALSE], [k |-> 0, kind |-> "none", x |-> 0, v |-> 0, st |-> "new", tier |-> 0, g0 |-> 0, ex |-> FALSE]>>,left |-> <<1, 3, 1>>,now |-> 0,finalBack |-> <<>>,heap |-> {[p |-> 1, q |-> 1, t |-> 0], [p |-> 2, q |-> 2, t |-> 0], [p |-> 3, q |-> 3, t |-> 1]},idx |-> 0]),
    ([ctr |-> 4,plog |-> <<<<[k |-> 1, kind |-> "put", gap |-> 0]>>, <<[k |-> 2, kind |-> "inv", gap |-> 0]>>, <<[k |-> 1, kind |-> "put", gap |-> 1]>>>>,reads |-> {},nv |-> 1,h |-> <<<<[s |-> 0, kind |-> "init", e |-> 0, v |-> 101, done |-> TRUE], [s |-> 1, kind |-> "put", e |-> 0, v |-> 1, done |-> FALSE]>>, <<[s |-> 0, kind |-> "init", e |-> 0, v |-> 102, done |-> TRUE]>>>>,fin |-> 0,st0 |-> <<1, 0, 0, 0>>,s |-> [t1 |-> [back |-> <<0, 0>>, gen |-> <<0, 0>>, taint |-> <<{}, {}>>, cache |-> <<0, 0>>, dirty |-> {}, ps |-> [q1 |-> <<>>, q2 |-> <<>>, q3 |-> <<>>, n |-> 0], pend |-> <<0, 0>>], t2 |-> [back |-> <<0, 0>>, gen |-> <<0, 0>>, taint |-> <<{}, {}>>, cache |-> <<101, 0>>, dirty |-> {}, ps |-> [q1 |-> <<1>>, q2 |-> <<>>, q3 |-> <<>>, n |-> 0], pend |-> <<0, 0>>], back |-> <<101, 102>>, acc |-> <<0, 0>>, gen |-> <<0, 0>>, lwv |-> <<0, 0>>, taint |-> <<{}, {}>>],ops |-> <<[k |-> 1, kind |-> "put", x |-> 0, v |-> 1, st |-> "bput", tier |-> 0, g0 |-> 0, ex |-> FALSE], [k |-> 2, kind |-> "inv", x |-> 0, v |-> 0, st |-> "new", tier |-> 0, g0 |-> 0, ex |-> FALSE], [k |-> 1, kind |-> "put", x |-> 0, v |-> 0, st |-> "new", tier |-> 0, g0 |-> 0, ex |-> FALSE], [k |-> 0, kind |-> "none", x |-> 0, v |-> 0, st |-> "new", tier |-> 0, g0 |-> 0, ex |-> FALSE]>>,left |-> <<1, 3, 1>>,now |-> 0,finalBack |-> <<>>,heap |-> {[p |-> 1, q |-> 4, t |-> 2], [p |-> 2, q |-> 2, t |-> 0], [p |-> 3, q |-> 3, t |-> 1]},idx |-> 1]),
    ([ctr |-> 5,plog |-> <<<<[k |-> 1, kind |-> "put", gap |-> 0]>>, <<[k |-> 2, kind |-> "inv", gap |-> 0], [k |-> 1, kind |-> "inv", gap |-> 2]>>, <<[k |-> 1, kind |-> "put", gap |-> 1]>>>>,reads |-> {},nv |-> 1,h |-> <<<<[s |-> 0, kind |-> "init", e |-> 0, v |-> 101, done |-> TRUE], [s |-> 1, kind |-> "put", e |-> 0, v |-> 1, done |-> FALSE]>>, <<[s |-> 0, kind |-> "init", e |-> 0, v |-> 102, done |-> TRUE]>>>>,fin |-> 0,st0 |-> <<1, 2, 0, 0>>,s |-> [t1 |-> [back |-> <<0, 0>>, gen |-> <<0, 0>>, taint |-> <<{}, {}>>, cache |-> <<0, 0>>, dirty |-> {}, ps |-> [q1 |-> <<>>, q2 |-> <<>>, q3 |-> <<>>, n |-> 0], pend |-> <<0, 0>>], t2 |-> [back |-> <<0, 0>>, gen |-> <<0, 0>>, taint |-> <<{}, {}>>, cache |-> <<101, 0>>, dirty |-> {}, ps |-> [q1 |-> <<1>>, q2 |-> <<>>, q3 |-> <<>>, n |-> 0], pend |-> <<0, 0>>], back |-> <<101, 102>>, acc |-> <<0, 0>>, gen |-> <<0, 0>>, lwv |-> <<0, 0>>, taint |-> <<{}, {}>>],ops |-> <<[k |-> 1, kind |-> "put", x |-> 0, v |-> 1, st |-> "bput", tier |-> 0, g0 |-> 0, ex |-> FALSE], [k |-> 1, kind |-> "inv", x |-> 0, v |-> 0, st |-> "new", tier |-> 0, g0 |-> 0, ex |-> FALSE], [k |-> 1, kind |-> "put", x |-> 0, v |-> 0, st |-> "new", tier |-> 0, g0 |-> 0, ex |-> FALSE], [k |-> 0, kind |-> "none", x |-> 0, v |-> 0, st |-> "new", tier |-> 0, g0 |-> 0, ex |-> FALSE]>>,left |-> <<1, 2, 1>>,now |-> 0,finalBack |-> <<>>,heap |-> {[p |-> 1, q |-> 4, t |-> 2], [p |-> 2, q |-> 5, t |-> 2], [p |-> 3, q |-> 3, t |-> 1]},idx |-> 2]),
    ([ctr |-> 6,plog |-> <<<<[k |-> 1, kind |-> "put", gap |-> 0]>>, <<[k |-> 2, kind |-> "inv", gap |-> 0], [k |-> 1, kind |-> "inv", gap |-> 2]>>, <<[k |-> 1, kind |-> "put", gap |-> 1]>>>>,reads |-> {},nv |-> 2,h |-> <<<<[s |-> 0, kind |-> "init", e |-> 0, v |-> 101, done |-> TRUE], [s |-> 1, kind |-> "put", e |-> 0, v |-> 1, done |-> FALSE], [s |-> 3, kind |-> "put", e |-> 0, v |-> 2, done |-> FALSE]>>, <<[s |-> 0, kind |-> "init", e |-> 0, v |-> 102, done |-> TRUE]>>>>,fin |-> 0,st0 |-> <<1, 2, 3, 0>>,s |-> [t1 |-> [back |-> <<0, 0>>, gen |-> <<0, 0>>, taint |-> <<{}, {}>>, cache |-> <<0, 0>>, dirty |-> {}, ps |-> [q1 |-> <<>>, q2 |-> <<>>, q3 |-> <<>>, n |-> 0], pend |-> <<0, 0>>], t2 |-> [back |-> <<0, 0>>, gen |-> <<0, 0>>, taint |-> <<{}, {}>>, cache |-> <<101, 0>>, dirty |-> {}, ps |-> [q1 |-> <<1>>, q2 |-> <<>>, q3 |-> <<>>, n |-> 0], pend |-> <<0, 0>>], back |-> <<101, 102>>, acc |-> <<0, 0>>, gen |-> <<0, 0>>, lwv |-> <<0, 0>>, taint |-> <<{}, {}>>],ops |-> <<[k |-> 1, kind |-> "put", x |-> 0, v |-> 1, st |-> "bput", tier |-> 0, g0 |-> 0, ex |-> FALSE], [k |-> 1, kind |-> "inv", x |-> 0, v |-> 0, st |-> "new", tier |-> 0, g0 |-> 0, ex |-> FALSE], [k |-> 1, kind |-> "put", x |-> 0, v |-> 2, st |-> "bput", tier |-> 0, g0 |-> 0, ex |-> FALSE], [k |-> 0, kind |-> "none", x |-> 0, v |-> 0, st |-> "new", tier |-> 0, g0 |-> 0, ex |-> FALSE]>>,left |-> <<1, 2, 1>>,now |-> 1,finalBack |-> <<>>,heap |-> {[p |-> 1, q |-> 4, t |-> 2], [p |-> 2, q |-> 5, t |-> 2], [p |-> 3, q |-> 6, t |-> 3]},idx |-> 3]),
    ([ctr |-> 7,plog |-> <<<<[k |-> 1, kind |-> "put", gap |-> 0]>>, <<[k |-> 2, kind |-> "inv", gap |-> 0], [k |-> 1, kind |-> "inv", gap |-> 2]>>, <<[k |-> 1, kind |-> "put", gap |-> 1]>>>>,reads |-> {},nv |-> 2,h |-> <<<<[s |-> 0, kind |-> "init", e |-> 0, v |-> 101, done |-> TRUE], [s |-> 1, kind |-> "put", e |-> 0, v |-> 1, done |-> FALSE], [s |-> 3, kind |-> "put", e |-> 0, v |-> 2, done |-> FALSE]>>, <<[s |-> 0, kind |-> "init", e |-> 0, v |-> 102, done |-> TRUE]>>>>,fin |-> 0,st0 |-> <<1, 2, 3, 0>>,s |-> [t1 |-> [back |-> <<0, 0>>, gen |-> <<0, 0>>, taint |-> <<{}, {}>>, cache |-> <<1, 0>>, dirty |-> {}, ps |-> [q1 |-> <<1>>, q2 |-> <<>>, q3 |-> <<>>, n |-> 0], pend |-> <<0, 0>>], t2 |-> [back |-> <<0, 0>>, gen |-> <<0, 0>>, taint |-> <<{}, {}>>, cache |-> <<0, 0>>, dirty |-> {}, ps |-> [q1 |-> <<>>, q2 |-> <<>>, q3 |-> <<>>, n |-> 0], pend |-> <<0, 0>>], back |-> <<1, 102>>, acc |-> <<0, 0>>, gen |-> <<1, 0>>, lwv |-> <<1, 0>>, taint |-> <<{}, {}>>],ops |-> <<[k |-> 1, kind |-> "put", x |-> 0, v |-> 1, st |-> "l1bput", tier |-> 0, g0 |-> 0, ex |-> FALSE], [k |-> 1, kind |-> "inv", x |-> 0, v |-> 0, st |-> "new", tier |-> 0, g0 |-> 0, ex |-> FALSE], [k |-> 1, kind |-> "put", x |-> 0, v |-> 2, st |-> "bput", tier |-> 0, g0 |-> 0, ex |-> FALSE], [k |-> 0, kind |-> "none", x |-> 0, v |-> 0, st |-> "new", tier |-> 0, g0 |-> 0, ex |-> FALSE]>>,left |-> <<1, 2, 1>>,now |-> 2,finalBack |-> <<>>,heap |-> {[p |-> 1, q |-> 7, t |-> 4], [p |-> 2, q |-> 5, t |-> 2], [p |-> 3, q |-> 6, t |-> 3]},idx |-> 4]),
    ([ctr |-> 8,plog |-> <<<<[k |-> 1, kind |-> "put", gap |-> 0]>>, <<[k |-> 2, kind |-> "inv", gap |-> 0], [k |-> 1, kind |-> "inv", gap |-> 2], [k |-> 1, kind |-> "get", gap |-> 0]>>, <<[k |-> 1, kind |-> "put", gap |-> 1]>>>>,reads |-> {},nv |-> 2,h |-> <<<<[s |-> 0, kind |-> "init", e |-> 0, v |-> 101, done |-> TRUE], [s |-> 1, kind |-> "put", e |-> 0, v |-> 1, done |-> FALSE], [s |-> 3, kind |-> "put", e |-> 0, v |-> 2, done |-> FALSE]>>, <<[s |-> 0, kind |-> "init", e |-> 0, v |-> 102, done |-> TRUE]>>>>,fin |-> 0,st0 |-> <<1, 5, 3, 0>>,s |-> [t1 |-> [back |-> <<0, 0>>, gen |-> <<0, 0>>, taint |-> <<{}, {}>>, cache |-> <<0, 0>>, dirty |-> {}, ps |-> [q1 |-> <<>>, q2 |-> <<>>, q3 |-> <<>>, n |-> 0], pend |-> <<0, 0>>], t2 |-> [back |-> <<0, 0>>, gen |-> <<0, 0>>, taint |-> <<{}, {}>>, cache |-> <<0, 0>>, dirty |-> {}, ps |-> [q1 |-> <<>>, q2 |-> <<>>, q3 |-> <<>>, n |-> 0], pend |-> <<0, 0>>], back |-> <<1, 102>>, acc |-> <<0, 0>>, gen |-> <<1, 0>>, lwv |-> <<1, 0>>, taint |-> <<{}, {}>>],ops |-> <<[k |-> 1, kind |-> "put", x |-> 0, v |-> 1, st |-> "l1bput", tier |-> 0, g0 |-> 0, ex |-> FALSE], [k |-> 1, kind |-> "get", x |-> 0, v |-> 0, st |-> "new", tier |-> 0, g0 |-> 0, ex |-> FALSE], [k |-> 1, kind |-> "put", x |-> 0, v |-> 2, st |-> "bput", tier |-> 0, g0 |-> 0, ex |-> FALSE], [k |-> 0, kind |-> "none", x |-> 0, v |-> 0, st |-> "new", tier |-> 0, g0 |-> 0, ex |-> FALSE]>>,left |-> <<1, 1, 1>>,now |-> 2,finalBack |-> <<>>,heap |-> {[p |-> 1, q |-> 7, t |-> 4], [p |-> 2, q |-> 8, t |-> 2], [p |-> 3, q |-> 6, t |-> 3]},idx |-> 5]),
    ([ctr |-> 9,plog |-> <<<<[k |-> 1, kind |-> "put", gap |-> 0]>>, <<[k |-> 2, kind |-> "inv", gap |-> 0], [k |-> 1, kind |-> "inv", gap |-> 2], [k |-> 1, kind |-> "get", gap |-> 0]>>, <<[k |-> 1, kind |-> "put", gap |-> 1]>>>>,reads |-> {},nv |-> 2,h |-> <<<<[s |-> 0, kind |-> "init", e |-> 0, v |-> 101, done |-> TRUE], [s |-> 1, kind |-> "put", e |-> 0, v |-> 1, done |-> FALSE], [s |-> 3, kind |-> "put", e |-> 0, v |-> 2, done |-> FALSE]>>, <<[s |-> 0, kind |-> "init", e |-> 0, v |-> 102, done |-> TRUE]>>>>,fin |-> 0,st0 |-> <<1, 6, 3, 0>>,s |-> [t1 |-> [back |-> <<0, 0>>, gen |-> <<0, 0>>, taint |-> <<{}, {}>>, cache |-> <<0, 0>>, dirty |-> {}, ps |-> [q1 |-> <<>>, q2 |-> <<>>, q3 |-> <<>>, n |-> 0], pend |-> <<0, 0>>], t2 |-> [back |-> <<0, 0>>, gen |-> <<0, 0>>, taint |-> <<{}, {}>>, cache |-> <<0, 0>>, dirty |-> {}, ps |-> [q1 |-> <<>>, q2 |-> <<>>, q3 |-> <<>>, n |-> 0], pend |-> <<0, 0>>], back |-> <<1, 102>>, acc |-> <<1, 0>>, gen |-> <<1, 0>>, lwv |-> <<1, 0>>, taint |-> <<{}, {}>>],ops |-> <<[k |-> 1, kind |-> "put", x |-> 0, v |-> 1, st |-> "l1bput", tier |-> 0, g0 |-> 0, ex |-> FALSE], [k |-> 1, kind |-> "get", x |-> 0, v |-> 0, st |-> "fetch", tier |-> 0, g0 |-> 0, ex |-> FALSE], [k |-> 1, kind |-> "put", x |-> 0, v |-> 2, st |-> "bput", tier |-> 0, g0 |-> 0, ex |-> FALSE], [k |-> 0, kind |-> "none", x |-> 0, v |-> 0, st |-> "new", tier |-> 0, g0 |-> 0, ex |-> FALSE]>>,left |-> <<1, 1, 1>>,now |-> 2,finalBack |-> <<>>,heap |-> {[p |-> 1, q |-> 7, t |-> 4], [p |-> 2, q |-> 9, t |-> 4], [p |-> 3, q |-> 6, t |-> 3]},idx |-> 6]),
    ([ctr |-> 10,plog |-> <<<<[k |-> 1, kind |-> "put", gap |-> 0]>>, <<[k |-> 2, kind |-> "inv", gap |-> 0], [k |-> 1, kind |-> "inv", gap |-> 2], [k |-> 1, kind |-> "get", gap |-> 0]>>, <<[k |-> 1, kind |-> "put", gap |-> 1]>>>>,reads |-> {},nv |-> 2,h |-> <<<<[s |-> 0, kind |-> "init", e |-> 0, v |-> 101, done |-> TRUE], [s |-> 1, kind |-> "put", e |-> 0, v |-> 1, done |-> FALSE], [s |-> 3, kind |-> "put", e |-> 0, v |-> 2, done |-> FALSE]>>, <<[s |-> 0, kind |-> "init", e |-> 0, v |-> 102, done |-> TRUE]>>>>,fin |-> 0,st0 |-> <<1, 6, 3, 0>>,s |-> [t1 |-> [back |-> <<0, 0>>, gen |-> <<0, 0>>, taint |-> <<{}, {}>>, cache |-> <<2, 0>>, dirty |-> {}, ps |-> [q1 |-> <<1>>, q2 |-> <<>>, q3 |-> <<>>, n |-> 0], pend |-> <<0, 0>>], t2 |-> [back |-> <<0, 0>>, gen |-> <<0, 0>>, taint |-> <<{}, {}>>, cache |-> <<0, 0>>, dirty |-> {}, ps |-> [q1 |-> <<>>, q2 |-> <<>>, q3 |-> <<>>, n |-> 0], pend |-> <<0, 0>>], back |-> <<2, 102>>, acc |-> <<1, 0>>, gen |-> <<2, 0>>, lwv |-> <<2, 0>>, taint |-> <<{}, {}>>],ops |-> <<[k |-> 1, kind |-> "put", x |-> 0, v |-> 1, st |-> "l1bput", tier |-> 0, g0 |-> 0, ex |-> FALSE], [k |-> 1, kind |-> "get", x |-> 0, v |-> 0, st |-> "fetch", tier |-> 0, g0 |-> 0, ex |-> FALSE], [k |-> 1, kind |-> "put", x |-> 0, v |-> 2, st |-> "l1bput", tier |-> 0, g0 |-> 0, ex |-> FALSE], [k |-> 0, kind |-> "none", x |-> 0, v |-> 0, st |-> "new", tier |-> 0, g0 |-> 0, ex |-> FALSE]>>,left |-> <<1, 1, 1>>,now |-> 3,finalBack |-> <<>>,heap |-> {[p |-> 1, q |-> 7, t |-> 4], [p |-> 2, q |-> 9, t |-> 4], [p |-> 3, q |-> 10, t |-> 5]},idx |-> 7]),
    ([ctr |-> 11,plog |-> <<<<[k |-> 1, kind |-> "put", gap |-> 0]>>, <<[k |-> 2, kind |-> "inv", gap |-> 0], [k |-> 1, kind |-> "inv", gap |-> 2], [k |-> 1, kind |-> "get", gap |-> 0]>>, <<[k |-> 1, kind |-> "put", gap |-> 1]>>>>,reads |-> {},nv |-> 2,h |-> <<<<[s |-> 0, kind |-> "init", e |-> 0, v |-> 101, done |-> TRUE], [s |-> 1, kind |-> "put", e |-> 8, v |-> 1, done |-> TRUE], [s |-> 3, kind |-> "put", e |-> 0, v |-> 2, done |-> FALSE]>>, <<[s |-> 0, kind |-> "init", e |-> 0, v |-> 102, done |-> TRUE]>>>>,fin |-> 0,st0 |-> <<1, 6, 3, 0>>,s |-> [t1 |-> [back |-> <<0, 0>>, gen |-> <<0, 0>>, taint |-> <<{}, {}>>, cache |-> <<2, 0>>, dirty |-> {}, ps |-> [q1 |-> <<1>>, q2 |-> <<>>, q3 |-> <<>>, n |-> 0], pend |-> <<0, 0>>], t2 |-> [back |-> <<0, 0>>, gen |-> <<0, 0>>, taint |-> <<{}, {}>>, cache |-> <<0, 0>>, dirty |-> {}, ps |-> [q1 |-> <<>>, q2 |-> <<>>, q3 |-> <<>>, n |-> 0], pend |-> <<0, 0>>], back |-> <<1, 102>>, acc |-> <<1, 0>>, gen |-> <<2, 0>>, lwv |-> <<2, 0>>, taint |-> <<{"l1_put_rewrites_backing_late"}, {}>>],ops |-> <<[k |-> 0, kind |-> "none", x |-> 0, v |-> 0, st |-> "new", tier |-> 0, g0 |-> 0, ex |-> FALSE], [k |-> 1, kind |-> "get", x |-> 0, v |-> 0, st |-> "fetch", tier |-> 0, g0 |-> 0, ex |-> FALSE], [k |-> 1, kind |-> "put", x |-> 0, v |-> 2, st |-> "l1bput", tier |-> 0, g0 |-> 0, ex |-> FALSE], [k |-> 0, kind |-> "none", x |-> 0, v |-> 0, st |-> "new", tier |-> 0, g0 |-> 0, ex |-> FALSE]>>,left |-> <<0, 1, 1>>,now |-> 4,finalBack |-> <<>>,heap |-> {[p |-> 2, q |-> 9, t |-> 4], [p |-> 3, q |-> 10, t |-> 5]},idx |-> 8]),
    ([ctr |-> 12,plog |-> <<<<[k |-> 1, kind |-> "put", gap |-> 0]>>, <<[k |-> 2, kind |-> "inv", gap |-> 0], [k |-> 1, kind |-> "inv", gap |-> 2], [k |-> 1, kind |-> "get", gap |-> 0]>>, <<[k |-> 1, kind |-> "put", gap |-> 1]>>>>,reads |-> {[k |-> 1, s |-> 6, ret |-> 1]},nv |-> 2,h |-> <<<<[s |-> 0, kind |-> "init", e |-> 0, v |-> 101, done |-> TRUE], [s |-> 1, kind |-> "put", e |-> 8, v |-> 1, done |-> TRUE], [s |-> 3, kind |-> "put", e |-> 0, v |-> 2, done |-> FALSE]>>, <<[s |-> 0, kind |-> "init", e |-> 0, v |-> 102, done |-> TRUE]>>>>,fin |-> 0,st0 |-> <<1, 6, 3, 0>>,s |-> [t1 |-> [back |-> <<0, 0>>, gen |-> <<0, 0>>, taint |-> <<{}, {}>>, cache |-> <<1, 0>>, dirty |-> {}, ps |-> [q1 |-> <<1>>, q2 |-> <<>>, q3 |-> <<>>, n |-> 0], pend |-> <<0, 0>>], t2 |-> [back |-> <<0, 0>>, gen |-> <<0, 0>>, taint |-> <<{}, {}>>, cache |-> <<0, 0>>, dirty |-> {}, ps |-> [q1 |-> <<>>, q2 |-> <<>>, q3 |-> <<>>, n |-> 0], pend |-> <<0, 0>>], back |-> <<1, 102>>, acc |-> <<1, 0>>, gen |-> <<2, 0>>, lwv |-> <<2, 0>>, taint |-> <<{"l1_put_rewrites_backing_late"}, {}>>],ops |-> <<[k |-> 0, kind |-> "none", x |-> 0, v |-> 0, st |-> "new", tier |-> 0, g0 |-> 0, ex |-> FALSE], [k |-> 0, kind |-> "none", x |-> 0, v |-> 0, st |-> "new", tier |-> 0, g0 |-> 0, ex |-> FALSE], [k |-> 1, kind |-> "put", x |-> 0, v |-> 2, st |-> "l1bput", tier |-> 0, g0 |-> 0, ex |-> FALSE], [k |-> 0, kind |-> "none", x |-> 0, v |-> 0, st |-> "new", tier |-> 0, g0 |-> 0, ex |-> FALSE]>>,left |-> <<0, 0, 1>>,now |-> 4,finalBack |-> <<>>,heap |-> {[p |-> 3, q |-> 10, t |-> 5]},idx |-> 9]),
    ([ctr |-> 13,plog |-> <<<<[k |-> 1, kind |-> "put", gap |-> 0]>>, <<[k |-> 2, kind |-> "inv", gap |-> 0], [k |-> 1, kind |-> "inv", gap |-> 2], [k |-> 1, kind |-> "get", gap |-> 0]>>, <<[k |-> 1, kind |-> "put", gap |-> 1]>>>>,reads |-> {[k |-> 1, s |-> 6, ret |-> 1]},nv |-> 2,h |-> <<<<[s |-> 0, kind |-> "init", e |-> 0, v |-> 101, done |-> TRUE], [s |-> 1, kind |-> "put", e |-> 8, v |-> 1, done |-> TRUE], [s |-> 3, kind |-> "put", e |-> 10, v |-> 2, done |-> TRUE]>>, <<[s |-> 0, kind |-> "init", e |-> 0, v |-> 102, done |-> TRUE]>>>>,fin |-> 1,st0 |-> <<1, 6, 3, 0>>,s |-> [t1 |-> [back |-> <<0, 0>>, gen |-> <<0, 0>>, taint |-> <<{}, {}>>, cache |-> <<1, 0>>, dirty |-> {}, ps |-> [q1 |-> <<1>>, q2 |-> <<>>, q3 |-> <<>>, n |-> 0], pend |-> <<0, 0>>], t2 |-> [back |-> <<0, 0>>, gen |-> <<0, 0>>, taint |-> <<{}, {}>>, cache |-> <<0, 0>>, dirty |-> {}, ps |-> [q1 |-> <<>>, q2 |-> <<>>, q3 |-> <<>>, n |-> 0], pend |-> <<0, 0>>], back |-> <<2, 102>>, acc |-> <<1, 0>>, gen |-> <<2, 0>>, lwv |-> <<2, 0>>, taint |-> <<{"l1_put_rewrites_backing_late"}, {}>>],ops |-> <<[k |-> 0, kind |-> "none", x |-> 0, v |-> 0, st |-> "new", tier |-> 0, g0 |-> 0, ex |-> FALSE], [k |-> 0, kind |-> "none", x |-> 0, v |-> 0, st |-> "new", tier |-> 0, g0 |-> 0, ex |-> FALSE], [k |-> 0, kind |-> "none", x |-> 0, v |-> 0, st |-> "new", g0 |-> 0, ex |-> FALSE, lst |-> <<>>, cnt |-> 0], [k |-> 1, kind |-> "get", x |-> 0, v |-> 0, st |-> "new", tier |-> 0, g0 |-> 0, ex |-> FALSE]>>,left |-> <<0, 0, 0>>,now |-> 5,finalBack |-> <<>>,heap |-> {[p |-> 4, q |-> 13, t |-> 15]},idx |-> 10]),
    ([ctr |-> 14,plog |-> <<<<[k |-> 1, kind |-> "put", gap |-> 0]>>, <<[k |-> 2, kind |-> "inv", gap |-> 0], [k |-> 1, kind |-> "inv", gap |-> 2], [k |-> 1, kind |-> "get", gap |-> 0]>>, <<[k |-> 1, kind |-> "put", gap |-> 1]>>>>,reads |-> {[k |-> 1, s |-> 6, ret |-> 1]},nv |-> 2,h |-> <<<<[s |-> 0, kind |-> "init", e |-> 0, v |-> 101, done |-> TRUE], [s |-> 1, kind |-> "put", e |-> 8, v |-> 1, done |-> TRUE], [s |-> 3, kind |-> "put", e |-> 10, v |-> 2, done |-> TRUE]>>, <<[s |-> 0, kind |-> "init", e |-> 0, v |-> 102, done |-> TRUE]>>>>,fin |-> 1,st0 |-> <<1, 6, 3, 11>>,s |-> [t1 |-> [back |-> <<0, 0>>, gen |-> <<0, 0>>, taint |-> <<{}, {}>>, cache |-> <<1, 0>>, dirty |-> {}, ps |-> [q1 |-> <<1>>, q2 |-> <<>>, q3 |-> <<>>, n |-> 0], pend |-> <<0, 0>>], t2 |-> [back |-> <<0, 0>>, gen |-> <<0, 0>>, taint |-> <<{}, {}>>, cache |-> <<0, 0>>, dirty |-> {}, ps |-> [q1 |-> <<>>, q2 |-> <<>>, q3 |-> <<>>, n |-> 0], pend |-> <<0, 0>>], back |-> <<2, 102>>, acc |-> <<2, 0>>, gen |-> <<2, 0>>, lwv |-> <<2, 0>>, taint |-> <<{"l1_put_rewrites_backing_late"}, {}>>],ops |-> <<[k |-> 0, kind |-> "none", x |-> 0, v |-> 0, st |-> "new", tier |-> 0, g0 |-> 0, ex |-> FALSE], [k |-> 0, kind |-> "none", x |-> 0, v |-> 0, st |-> "new", tier |-> 0, g0 |-> 0, ex |-> FALSE], [k |-> 0, kind |-> "none", x |-> 0, v |-> 0, st |-> "new", g0 |-> 0, ex |-> FALSE, lst |-> <<>>, cnt |-> 0], [k |-> 1, kind |-> "get", x |-> 1, v |-> 0, st |-> "thit", tier |-> 1, g0 |-> 2, ex |-> FALSE]>>,left |-> <<0, 0, 0>>,now |-> 15,finalBack |-> <<>>,heap |-> {[p |-> 4, q |-> 14, t |-> 16]},idx |-> 11]),
    ([ctr |-> 15,plog |-> <<<<[k |-> 1, kind |-> "put", gap |-> 0]>>, <<[k |-> 2, kind |-> "inv", gap |-> 0], [k |-> 1, kind |-> "inv", gap |-> 2], [k |-> 1, kind |-> "get", gap |-> 0]>>, <<[k |-> 1, kind |-> "put", gap |-> 1]>>>>,reads |-> {[k |-> 1, s |-> 6, ret |-> 1], [k |-> 1, s |-> 11, ret |-> 1]},nv |-> 2,h |-> <<<<[s |-> 0, kind |-> "init", e |-> 0, v |-> 101, done |-> TRUE], [s |-> 1, kind |-> "put", e |-> 8, v |-> 1, done |-> TRUE], [s |-> 3, kind |-> "put", e |-> 10, v |-> 2, done |-> TRUE]>>, <<[s |-> 0, kind |-> "init", e |-> 0, v |-> 102, done |-> TRUE]>>>>,fin |-> 2,st0 |-> <<1, 6, 3, 11>>,s |-> [t1 |-> [back |-> <<0, 0>>, gen |-> <<0, 0>>, taint |-> <<{}, {}>>, cache |-> <<1, 0>>, dirty |-> {}, ps |-> [q1 |-> <<1>>, q2 |-> <<>>, q3 |-> <<>>, n |-> 0], pend |-> <<0, 0>>], t2 |-> [back |-> <<0, 0>>, gen |-> <<0, 0>>, taint |-> <<{}, {}>>, cache |-> <<0, 0>>, dirty |-> {}, ps |-> [q1 |-> <<>>, q2 |-> <<>>, q3 |-> <<>>, n |-> 0], pend |-> <<0, 0>>], back |-> <<2, 102>>, acc |-> <<2, 0>>, gen |-> <<2, 0>>, lwv |-> <<2, 0>>, taint |-> <<{"l1_put_rewrites_backing_late"}, {}>>],ops |-> <<[k |-> 0, kind |-> "none", x |-> 0, v |-> 0, st |-> "new", tier |-> 0, g0 |-> 0, ex |-> FALSE], [k |-> 0, kind |-> "none", x |-> 0, v |-> 0, st |-> "new", tier |-> 0, g0 |-> 0, ex |-> FALSE], [k |-> 0, kind |-> "none", x |-> 0, v |-> 0, st |-> "new", g0 |-> 0, ex |-> FALSE, lst |-> <<>>, cnt |-> 0], [k |-> 2, kind |-> "get", x |-> 0, v |-> 0, st |-> "new", tier |-> 0, g0 |-> 0, ex |-> FALSE]>>,left |-> <<0, 0, 0>>,now |-> 16,finalBack |-> <<>>,heap |-> {[p |-> 4, q |-> 15, t |-> 16]},idx |-> 12]),
    ([ctr |-> 16,plog |-> <<<<[k |-> 1, kind |-> "put", gap |-> 0]>>, <<[k |-> 2, kind |-> "inv", gap |-> 0], [k |-> 1, kind |-> "inv", gap |-> 2], [k |-> 1, kind |-> "get", gap |-> 0]>>, <<[k |-> 1, kind |-> "put", gap |-> 1]>>>>,reads |-> {[k |-> 1, s |-> 6, ret |-> 1], [k |-> 1, s |-> 11, ret |-> 1]},nv |-> 2,h |-> <<<<[s |-> 0, kind |-> "init", e |-> 0, v |-> 101, done |-> TRUE], [s |-> 1, kind |-> "put", e |-> 8, v |-> 1, done |-> TRUE], [s |-> 3, kind |-> "put", e |-> 10, v |-> 2, done |-> TRUE]>>, <<[s |-> 0, kind |-> "init", e |-> 0, v |-> 102, done |-> TRUE]>>>>,fin |-> 2,st0 |-> <<1, 6, 3, 13>>,s |-> [t1 |-> [back |-> <<0, 0>>, gen |-> <<0, 0>>, taint |-> <<{}, {}>>, cache |-> <<1, 0>>, dirty |-> {}, ps |-> [q1 |-> <<1>>, q2 |-> <<>>, q3 |-> <<>>, n |-> 0], pend |-> <<0, 0>>], t2 |-> [back |-> <<0, 0>>, gen |-> <<0, 0>>, taint |-> <<{}, {}>>, cache |-> <<0, 0>>, dirty |-> {}, ps |-> [q1 |-> <<>>, q2 |-> <<>>, q3 |-> <<>>, n |-> 0], pend |-> <<0, 0>>], back |-> <<2, 102>>, acc |-> <<2, 1>>, gen |-> <<2, 0>>, lwv |-> <<2, 0>>, taint |-> <<{"l1_put_rewrites_backing_late"}, {}>>],ops |-> <<[k |-> 0, kind |-> "none", x |-> 0, v |-> 0, st |-> "new", tier |-> 0, g0 |-> 0, ex |-> FALSE], [k |-> 0, kind |-> "none", x |-> 0, v |-> 0, st |-> "new", tier |-> 0, g0 |-> 0, ex |-> FALSE], [k |-> 0, kind |-> "none", x |-> 0, v |-> 0, st |-> "new", g0 |-> 0, ex |-> FALSE, lst |-> <<>>, cnt |-> 0], [k |-> 2, kind |-> "get", x |-> 0, v |-> 0, st |-> "fetch", tier |-> 0, g0 |-> 0, ex |-> FALSE]>>,left |-> <<0, 0, 0>>,now |-> 16,finalBack |-> <<>>,heap |-> {[p |-> 4, q |-> 16, t |-> 18]},idx |-> 13]),
    ([ctr |-> 17,plog |-> <<<<[k |-> 1, kind |-> "put", gap |-> 0]>>, <<[k |-> 2, kind |-> "inv", gap |-> 0], [k |-> 1, kind |-> "inv", gap |-> 2], [k |-> 1, kind |-> "get", gap |-> 0]>>, <<[k |-> 1, kind |-> "put", gap |-> 1]>>>>,reads |-> {[k |-> 1, s |-> 6, ret |-> 1], [k |-> 1, s |-> 11, ret |-> 1], [k |-> 2, s |-> 13, ret |-> 102]},nv |-> 2,h |-> <<<<[s |-> 0, kind |-> "init", e |-> 0, v |-> 101, done |-> TRUE], [s |-> 1, kind |-> "put", e |-> 8, v |-> 1, done |-> TRUE], [s |-> 3, kind |-> "put", e |-> 10, v |-> 2, done |-> TRUE]>>, <<[s |-> 0, kind |-> "init", e |-> 0, v |-> 102, done |-> TRUE]>>>>,fin |-> 2,st0 |-> <<1, 6, 3, 13>>,s |-> [t1 |-> [back |-> <<0, 0>>, gen |-> <<0, 0>>, taint |-> <<{}, {}>>, cache |-> <<0, 102>>, dirty |-> {}, ps |-> [q1 |-> <<2>>, q2 |-> <<>>, q3 |-> <<>>, n |-> 0], pend |-> <<0, 0>>], t2 |-> [back |-> <<0, 0>>, gen |-> <<0, 0>>, taint |-> <<{}, {}>>, cache |-> <<0, 0>>, dirty |-> {}, ps |-> [q1 |-> <<>>, q2 |-> <<>>, q3 |-> <<>>, n |-> 0], pend |-> <<0, 0>>], back |-> <<2, 102>>, acc |-> <<2, 1>>, gen |-> <<2, 0>>, lwv |-> <<2, 0>>, taint |-> <<{"l1_put_rewrites_backing_late"}, {}>>],ops |-> <<[k |-> 0, kind |-> "none", x |-> 0, v |-> 0, st |-> "new", tier |-> 0, g0 |-> 0, ex |-> FALSE], [k |-> 0, kind |-> "none", x |-> 0, v |-> 0, st |-> "new", tier |-> 0, g0 |-> 0, ex |-> FALSE], [k |-> 0, kind |-> "none", x |-> 0, v |-> 0, st |-> "new", g0 |-> 0, ex |-> FALSE, lst |-> <<>>, cnt |-> 0], [k |-> 0, kind |-> "none", x |-> 0, v |-> 0, st |-> "new", tier |-> 0, g0 |-> 0, ex |-> FALSE]>>,left |-> <<0, 0, 0>>,now |-> 18,finalBack |-> <<>>,heap |-> {},idx |-> 14])
    >>
----


=============================================================================

---- CONFIG TieredMC_TTrace_1790071273 ----
CONSTANTS
    K = 2
    Cap1 = 1
    Cap2 = 2
    Pol = "ANY"
    Promo = "always"
    Dev = { "l1_put_rewrites_backing_late" }
    NP = 3
    N1 = 1
    N2 = 3
    N3 = 1
    Kinds = { "get" , "put" , "del" , "inv" }
    Gaps = { 0 , 1 , 2 }
    Pre = { 1 , 2 }
    L2Pre = { 1 }
    CL1 = 1
    CL2 = 2
    RL = 2
    WL = 2
    DL = 2
    TTLv = 2
    SS = 2
    UseScript = "rewrite"

INVARIANT
    _inv

CHECK_DEADLOCK
    \* CHECK_DEADLOCK off because of PROPERTY or INVARIANT above.
    FALSE

INIT
    _init

NEXT
    _next

CONSTANT
    _TETrace <- _trace

ALIAS
    _expression
=============================================================================
\* Generated on Tue Sep 22 10:01:25 UTC 2026