---------------------------- MODULE PageCacheMC ----------------------------
(* Timed exhaustive exploration of PageCache.tla: NP client processes with   *)
(* read_page / write_page operations chosen by TLC (page, think time), the   *)
(* discrete-event scheduler of CacheMC (equal times: creation order), then a *)
(* final flush() at quiescence.  Contract: InvCapacity, InvDirtyDurable.     *)
EXTENDS PageCache

CONSTANTS Cap, RA, NPages, Dev, NP, N1, N2, N3, Gaps, Kinds, RL, WL

G == [cap |-> Cap, ra |-> RA, dev |-> Dev]
NOps == <<N1, N2, N3>>
Procs == 1..NP
FIN == NP + 1

VARIABLES s, ops, heap, now, ctr, left, fin, plog
vars == <<s, ops, heap, now, ctr, left, fin, plog>>
View == <<s, ops, heap, now, ctr, left, fin>>

Lat(l) == CASE l = "RL" -> RL [] l = "WL" -> WL [] OTHER -> 0
Choices == [kind : Kinds, pid : 1..NPages, gap : Gaps]

Init ==
    /\ s = InitP /\ now = 0 /\ ctr = NP /\ fin = 0
    /\ left = [p \in Procs |-> NOps[p]]
    /\ \E c \in [Procs -> Choices] :
          /\ ops = [p \in Procs \cup {FIN} |-> IF p = FIN THEN PNoOp ELSE PNewOp(c[p].kind, c[p].pid)]
          /\ heap = { [t |-> c[p].gap, q |-> p, p |-> p] : p \in Procs }
          /\ plog = [p \in Procs |-> <<c[p]>>]

MinEntry == CHOOSE e \in heap : \A f \in heap : e.t < f.t \/ (e.t = f.t /\ e.q <= f.q)

Run ==
    /\ heap # {}
    /\ LET e == MinEntry
           p == e.p
           o == Adv(G, s, ops[p])
       IN /\ now' = e.t /\ s' = o.s
          /\ IF ~o.done
             THEN /\ ops' = [ops EXCEPT ![p] = o.op]
                  /\ heap' = (heap \ {e}) \cup {[t |-> e.t + Lat(o.lat), q |-> ctr + 1, p |-> p]}
                  /\ ctr' = ctr + 1 /\ UNCHANGED <<left, fin, plog>>
             ELSE IF p = FIN
                  THEN /\ ops' = [ops EXCEPT ![p] = PNoOp] /\ heap' = heap \ {e} /\ ctr' = ctr
                       /\ UNCHANGED <<left, fin, plog>>
                  ELSE LET l1 == [left EXCEPT ![p] = @ - 1]
                           alldone == (\A q \in Procs : l1[q] = 0) /\ (heap \ {e}) = {}
                       IN /\ left' = l1 /\ ctr' = ctr + 1
                          /\ IF l1[p] > 0
                             THEN /\ \E c \in Choices :
                                        /\ ops' = [ops EXCEPT ![p] = PNewOp(c.kind, c.pid)]
                                        /\ plog' = [plog EXCEPT ![p] = Append(@, c)]
                                        /\ heap' = (heap \ {e}) \cup {[t |-> e.t + c.gap, q |-> ctr + 1, p |-> p]}
                                  /\ fin' = fin
                             ELSE /\ plog' = plog
                                  /\ IF alldone
                                     THEN /\ fin' = 1
                                          /\ ops' = [ops EXCEPT ![p] = PNoOp, ![FIN] = PNewOp("flush", 0)]
                                          /\ heap' = {[t |-> e.t + 10, q |-> ctr + 1, p |-> FIN]}
                                     ELSE /\ fin' = fin /\ ops' = [ops EXCEPT ![p] = PNoOp]
                                          /\ heap' = heap \ {e}

Next == Run
Spec == Init /\ [][Next]_vars

InvCapacity == InvCapacityP(G, s)
InvDirtyDurable == InvDirtyDurableP(G, s)
=============================================================================
