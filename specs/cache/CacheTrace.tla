----------------------------- MODULE CacheTrace -----------------------------
(* Trace validation for C16 / CachedStore.                                   *)
(* Input: IOEnv.TRACE_FILE = JSON array of executions recorded from the real *)
(* CachedStore inside a real Simulation by harness/families/c16_world.py:    *)
(*  [id, K, cap, wt, pol, par |-> [ttl, ss, a1max], pre |-> <<v1..vK>>,      *)
(*   steps |-> << [p, o, kind, k, v, seg, last, ret, t, ford, fin,           *)
(*                 n, cache, dirty, trk, back, q1, q2, q3, pn, xk] ... >>]   *)
(* One step per generator segment, in execution order, with the state        *)
(* observed after it (n = cache_size, cache/back = values per key, 0 absent, *)
(* dirty/trk = 0/1 flags per key: get_dirty_keys(), keys the policy tracks,  *)
(* q1..pn = the policy's structure as in Policies9, xk = cached or tracked   *)
(* keys outside 1..K).                                                       *)
(*                                                                           *)
(* For every step the spec (1) runs the Cache.tla segment on the model state *)
(* and compares the prediction with the observation (mismatch = MODEL:...,   *)
(* drift, not an alarm), then continues from the OBSERVED state, and (2)     *)
(* evaluates the C16 contract on the observation alone:                      *)
(*   PROP:capacity        cache_size / cached keys exceed the capacity       *)
(*   PROP:policy_keys     keys tracked by the policy # keys cached           *)
(*   PROP:stale_read      a get returned a value outside Allowed(history)    *)
(*   PROP:writeback_lost  after the final flush the backing store holds a    *)
(*                        superseded value                                   *)
(* One total verdict line per trace (plus a "D" line if the model drifted):   *)
(*   <<"V", id, verdict, position, taint>>      <<"D", id, "MODEL:..", pos>>  *)
(* taint = the deviations of Dev whose difference-making branch the model    *)
(* took on the key concerned before the failure (known-finding matching, R4).*)
EXTENDS Cache, Json, IOUtils

CONSTANTS Dev

Traces == JsonDeserialize(IOEnv.TRACE_FILE)
NT == Len(Traces)

VARIABLES ti, l, s, opsf, h, st0, prop, drift
tvars == <<ti, l, s, opsf, h, st0, prop, drift>>

Tr == Traces[ti]
GT(T) == [K |-> T.K, cap |-> T.cap, wt |-> T.wt, pol |-> T.pol, par |-> T.par, dev |-> Dev]

NoProp == <<"", 0, {}>>
NoDrift == <<"", 0>>
Start(i) ==
    IF i > NT THEN /\ s = InitS([K |-> 1], <<0>>) /\ h = <<>>
    ELSE /\ s = InitS(GT(Traces[i]), Traces[i].pre) /\ h = InitHist(GT(Traces[i]), Traces[i].pre)

TInit == ti = 1 /\ l = 1 /\ opsf = <<>> /\ st0 = <<>> /\ prop = NoProp /\ drift = NoDrift /\ Start(1)

Flags(f) == { k \in 1..Len(f) : f[k] = 1 }
ObsPS(r) == [q1 |-> r.q1, q2 |-> r.q2, q3 |-> r.q3, n |-> r.pn]

\* which observable differs between a predicted outcome and the observation
Diff(o, r) ==
    IF o.s.cache # r.cache THEN "MODEL:cache"
    ELSE IF o.s.dirty # Flags(r.dirty) THEN "MODEL:dirty"
    ELSE IF o.s.back # r.back THEN "MODEL:backing"
    ELSE IF o.s.ps # ObsPS(r) THEN "MODEL:policy_state"
    ELSE IF o.done # r.last THEN "MODEL:segments"
    ELSE IF r.last /\ o.ret # r.ret THEN "MODEL:return"
    ELSE ""

HStart(hh, kind, k, v, pos) ==
    IF kind = "put" THEN [hh EXCEPT ![k] = Append(@, [v |-> v, s |-> pos, e |-> 0, done |-> FALSE, kind |-> "put"])]
    ELSE IF kind = "del" THEN [hh EXCEPT ![k] = Append(@, [v |-> 0, s |-> pos, e |-> 0, done |-> FALSE, kind |-> "del"])]
    ELSE hh
HEnd(hh, kind, k, spos, pos) ==
    IF kind \in {"put", "del"}
    THEN [hh EXCEPT ![k] = [i \in 1..Len(@) |-> IF @[i].s = spos /\ ~@[i].done
                                                  THEN [@[i] EXCEPT !.e = pos, !.done = TRUE] ELSE @[i]]]
    ELSE hh

Step ==
    LET T == Tr
        g == GT(T)
        r == T.steps[l]
        known == r.seg > 1 /\ r.o \in DOMAIN opsf
        op0 == IF known THEN opsf[r.o] ELSE NewOp(r.kind, r.k, r.v, r.ford)
        outs == Seg(g, s, op0, r.t)
        good == { o \in outs : Diff(o, r) = "" }
        o == IF good # {} THEN CHOOSE x \in good : TRUE ELSE CHOOSE x \in outs : TRUE
        spos == IF r.seg = 1 \/ r.o \notin DOMAIN st0 THEN l ELSE st0[r.o]
        h1 == IF r.seg = 1 THEN HStart(h, r.kind, r.k, r.v, l) ELSE h
        h2 == IF r.last THEN HEnd(h1, r.kind, r.k, spos, l) ELSE h1
        cached == { k \in 1..T.K : r.cache[k] # 0 }
        ns == [o.s EXCEPT !.cache = r.cache, !.dirty = Flags(r.dirty), !.back = r.back, !.ps = ObsPS(r)]
        bad == IF r.n > T.cap \/ Cardinality(cached) + r.xk > T.cap THEN <<"PROP:capacity", {}>>
               ELSE IF Flags(r.trk) # cached \/ r.xk > 0 THEN <<"PROP:policy_keys", {}>>
               ELSE IF r.kind = "get" /\ r.last /\ ~ReadOK(h2, r.k, spos, r.ret)
                    THEN <<"PROP:stale_read", o.s.taint[r.k]>>
               ELSE IF r.fin = 1 /\ ~BackingOK(h2, r.back)
                    THEN <<"PROP:writeback_lost",
                           UNION { o.s.taint[k] : k \in { k \in 1..T.K : r.back[k] \notin Allowed(h2[k], Infinity) } }>>
               ELSE <<"", {}>>
    IN /\ s' = ns
       /\ h' = h2
       /\ st0' = IF r.seg = 1 THEN (r.o :> l) @@ st0 ELSE st0
       /\ opsf' = IF r.last THEN [x \in DOMAIN opsf \ {r.o} |-> opsf[x]] ELSE (r.o :> o.op) @@ opsf
       /\ prop' = IF prop[1] = "" /\ bad[1] # "" THEN <<bad[1], l, bad[2]>> ELSE prop
       /\ drift' = IF drift[1] = "" /\ good = {} THEN <<Diff(o, r), l>> ELSE drift
       /\ l' = l + 1 /\ ti' = ti

DevCode(d) == CASE d = D1 -> 1 [] d = D2 -> 2 [] d = D3 -> 3 [] d = D4 -> 4 [] d = D5 -> 5 [] d = D6 -> 6 [] OTHER -> 9
Finish ==
    /\ PrintT(<<"V", Tr.id, IF prop[1] # "" THEN prop[1] ELSE IF drift[1] # "" THEN drift[1] ELSE "ACCEPT",
               IF prop[1] # "" THEN prop[2] ELSE drift[2], { DevCode(d) : d \in prop[3] }>>)
    /\ (drift[1] # "" => PrintT(<<"D", Tr.id, drift[1], drift[2]>>))
    /\ ti' = ti + 1 /\ l' = 1 /\ opsf' = <<>> /\ st0' = <<>> /\ prop' = NoProp /\ drift' = NoDrift
    /\ IF ti + 1 > NT THEN UNCHANGED <<s, h>>
       ELSE /\ s' = InitS(GT(Traces[ti + 1]), Traces[ti + 1].pre)
            /\ h' = InitHist(GT(Traces[ti + 1]), Traces[ti + 1].pre)

TNext == /\ ti <= NT
         /\ IF l > Len(Tr.steps) THEN Finish ELSE Step

Spec == TInit /\ [][TNext]_tvars
=============================================================================
