----------------------------- MODULE CacheTrace -----------------------------
(* Trace validation for C16 / CachedStore.                                   *)
(* Input: IOEnv.TRACE_FILE = JSON array of executions recorded from the real *)
(* CachedStore inside a real Simulation by harness/families/c16_world.py:    *)
(*  [id, K, cap, wt, pol, par |-> [ttl, ss, a1max], pre |-> <<v1..vK>>,      *)
(*   steps |-> << [p, o, kind, k, v, seg, last, ret, t, ford, fin,           *)
(*                 n, cache, dirty, trk, back, q1, q2, q3, pn, xk] ... >>]   *)
(* One step per generator segment, in execution order, with the state        *)
(* observed after it (n = cache_size, cache/back = values per key, 0 absent, *)
(* dirty/trk = 0/1 flags per key: get_dirty_keys(), keys the policy tracks,  *)
(* q1..pn = the policy's structure as in Policies9, xk = cached or tracked   *)
(* keys outside 1..K).                                                       *)
(*                                                                           *)
(* One TLC step folds Chunk recorded segments of the current trace.           *)
(* For every step the spec (1) runs the Cache.tla segment on the model state *)
(* and compares the prediction with the observation (mismatch = MODEL:...,   *)
(* drift, not an alarm), then continues from the OBSERVED state, and (2)     *)
(* evaluates the C16 contract on the observation alone:                      *)
(*   PROP:capacity        cache_size / cached keys exceed the capacity       *)
(*   PROP:policy_keys     keys tracked by the policy # keys cached           *)
(*   PROP:stale_read      a get returned a value outside Allowed(history)    *)
(*   PROP:writeback_lost  after the final flush the backing store holds a    *)
(*                        superseded value                                   *)
(* One total verdict line per trace (plus a "D" line if the model drifted):   *)
(*   <<"V", id, verdict, position, taint>>      <<"D", id, "MODEL:..", pos>>  *)
(* taint = the deviations of Dev whose difference-making branch the model    *)
(* took on the key concerned before the failure (known-finding matching, R4).*)
EXTENDS Cache, Json, IOUtils

CONSTANTS Dev

Traces == JsonDeserialize(IOEnv.TRACE_FILE)
NT == Len(Traces)

VARIABLES ti, l, acc
tvars == <<ti, l, acc>>

GT(T) == [K |-> T.K, cap |-> T.cap, wt |-> T.wt, pol |-> T.pol, par |-> T.par, dev |-> Dev]

NoProp == <<"", 0, {}>>
NoDrift == <<"", 0>>
\* accumulator of the fold over the steps of one trace
Acc0(T) == [s |-> InitS(GT(T), T.pre), h |-> InitHist(GT(T), T.pre), opsf |-> <<>>, st0 |-> <<>>,
            prop |-> NoProp, drift |-> NoDrift]

Flags(f) == { k \in 1..Len(f) : f[k] = 1 }
ObsPS(r) == [q1 |-> r.q1, q2 |-> r.q2, q3 |-> r.q3, n |-> r.pn]

\* which observable differs between a predicted outcome and the observation
Diff(o, r) ==
    IF o.s.cache # r.cache THEN "MODEL:cache"
    ELSE IF o.s.dirty # Flags(r.dirty) THEN "MODEL:dirty"
    ELSE IF o.s.back # r.back THEN "MODEL:backing"
    ELSE IF o.s.ps # ObsPS(r) THEN "MODEL:policy_state"
    ELSE IF o.done # r.last THEN "MODEL:segments"
    ELSE IF r.last /\ o.ret # r.ret THEN "MODEL:return"
    ELSE ""

HStart(hh, kind, k, v, pos) ==
    IF kind = "put" THEN [hh EXCEPT ![k] = Append(@, [v |-> v, s |-> pos, e |-> 0, done |-> FALSE, kind |-> "put"])]
    ELSE IF kind = "del" THEN [hh EXCEPT ![k] = Append(@, [v |-> 0, s |-> pos, e |-> 0, done |-> FALSE, kind |-> "del"])]
    ELSE hh
HEnd(hh, kind, k, spos, pos) ==
    IF kind \in {"put", "del"}
    THEN [hh EXCEPT ![k] = [i \in 1..Len(@) |-> IF @[i].s = spos /\ ~@[i].done
                                                  THEN [@[i] EXCEPT !.e = pos, !.done = TRUE] ELSE @[i]]]
    ELSE hh

StepF(T, ll, a) ==
    LET g == GT(T)
        r == T.steps[ll]
        s == a.s
        known == r.seg > 1 /\ r.o \in DOMAIN a.opsf
        op0 == IF known THEN a.opsf[r.o] ELSE NewOp(r.kind, r.k, r.v, r.ford)
        outs == Seg(g, s, op0, r.t)
        good == { o \in outs : Diff(o, r) = "" }
        o == IF good # {} THEN CHOOSE x \in good : TRUE ELSE CHOOSE x \in outs : TRUE
        spos == IF r.seg = 1 \/ r.o \notin DOMAIN a.st0 THEN ll ELSE a.st0[r.o]
        h1 == IF r.seg = 1 THEN HStart(a.h, r.kind, r.k, r.v, ll) ELSE a.h
        h2 == IF r.last THEN HEnd(h1, r.kind, r.k, spos, ll) ELSE h1
        cached == { k \in 1..T.K : r.cache[k] # 0 }
        ns == [o.s EXCEPT !.cache = r.cache, !.dirty = Flags(r.dirty), !.back = r.back, !.ps = ObsPS(r)]
        bad == IF a.prop[1] # "" THEN <<"", {}>>
               ELSE IF r.n > T.cap \/ Cardinality(cached) + r.xk > T.cap THEN <<"PROP:capacity", {}>>
               ELSE IF Flags(r.trk) # cached \/ r.xk > 0 THEN <<"PROP:policy_keys", {}>>
               ELSE IF r.kind = "get" /\ r.last /\ ~ReadOK(h2, r.k, spos, r.ret)
                    THEN <<"PROP:stale_read", o.s.taint[r.k]>>
               ELSE IF r.fin = 1 /\ ~BackingOK(h2, r.back)
                    THEN <<"PROP:writeback_lost",
                           UNION { o.s.taint[k] : k \in { k \in 1..T.K : r.back[k] \notin Allowed(h2[k], Infinity) } }>>
               ELSE <<"", {}>>
    IN [s |-> ns, h |-> h2,
        st0 |-> IF r.seg = 1 THEN (r.o :> ll) @@ a.st0 ELSE a.st0,
        opsf |-> IF r.last THEN [x \in DOMAIN a.opsf \ {r.o} |-> a.opsf[x]] ELSE (r.o :> o.op) @@ a.opsf,
        prop |-> IF bad[1] # "" THEN <<bad[1], ll, bad[2]>> ELSE a.prop,
        drift |-> IF a.drift[1] = "" /\ good = {} THEN <<Diff(o, r), ll>> ELSE a.drift]

RECURSIVE Fold(_, _, _, _)
Fold(T, i, hi, a) == IF i > hi THEN a ELSE Fold(T, i + 1, hi, StepF(T, i, a))

DevCode(d) == CASE d = D1 -> 1 [] d = D2 -> 2 [] d = D3 -> 3 [] d = D4 -> 4 [] d = D5 -> 5 [] d = D6 -> 6 [] OTHER -> 9

Chunk == 8      \* recorded segments folded per TLC step (bounds the evaluation depth)
Dummy == [K |-> 1, cap |-> 1, wt |-> TRUE, pol |-> "LRU", par |-> [ttl |-> 1, ss |-> 1, a1max |-> 1], pre |-> <<0>>]
TInit == ti = 1 /\ l = 1 /\ acc = Acc0(IF NT = 0 THEN Dummy ELSE Traces[1])
TNext ==
    /\ ti <= NT
    /\ LET T == Traces[ti]
           n == Len(T.steps)
       IN IF l > n
          THEN /\ PrintT(<<"V", T.id, IF acc.prop[1] # "" THEN acc.prop[1]
                                      ELSE IF acc.drift[1] # "" THEN acc.drift[1] ELSE "ACCEPT",
                           IF acc.prop[1] # "" THEN acc.prop[2] ELSE acc.drift[2],
                           { DevCode(d) : d \in acc.prop[3] }>>)
               /\ (acc.drift[1] # "" => PrintT(<<"D", T.id, acc.drift[1], acc.drift[2]>>))
               /\ ti' = ti + 1 /\ l' = 1
               /\ acc' = Acc0(IF ti + 1 > NT THEN Dummy ELSE Traces[ti + 1])
          ELSE LET hi == IF l + Chunk - 1 > n THEN n ELSE l + Chunk - 1
               IN acc' = Fold(T, l, hi, acc) /\ l' = hi + 1 /\ ti' = ti

Spec == TInit /\ [][TNext]_tvars
=============================================================================
