----------------------------- MODULE PageCache -----------------------------
(* Implementation-shaped model of                                            *)
(*   happysimulator/components/infrastructure/page_cache.py (PageCache),     *)
(* the extension of property C16 to the OS page cache: "holds at most its    *)
(* capacity" and "write-back data (dirty pages) is never discarded before it *)
(* reaches the disk".  Pages are ids; the cache is an OrderedDict in LRU     *)
(* order.  One operator (Adv) runs a generator from its current stage to the *)
(* next yield or to completion:                                              *)
(*   read_page   hit: touch, return (no yield) | miss: _ensure_space (evict  *)
(*               LRU pages until there is room; a dirty victim costs one     *)
(*               write latency BEFORE it is deleted), yield the read latency,*)
(*               insert a clean page, then read-ahead of pid+1..pid+ra while *)
(*               the cache is not full (each: yield read latency, insert)    *)
(*   write_page  hit: mark dirty, touch | miss: _ensure_space, insert dirty  *)
(*   flush       for each dirty page: yield write latency, clear dirty       *)
(* s = [pg : Seq(page) (head = LRU), dirty : SUBSET page, wb : dirty         *)
(*      writebacks so far, lost : dirty flags dropped without a writeback]   *)
(* g = [cap, ra, dev].  Deviations (what the pinned code does):              *)
(*  "load_inserts_without_recheck"  _load_page / read-ahead make room, then  *)
(*      wait the disk read latency, then insert without looking at the size  *)
(*      again: two overlapping misses both insert and the cache exceeds its  *)
(*      capacity.  Design without it: _ensure_space runs again after the     *)
(*      read latency, immediately before the insertion.                      *)
(*  "load_overwrites_dirty_page"  the insert after the read latency replaces *)
(*      an entry that a concurrent write_page created meanwhile by a clean   *)
(*      page object: the dirty flag is dropped without a writeback.  Design  *)
(*      without it: an existing entry is kept.                               *)
(*  "evict_double_delete"  (no contract clause concerned, crash only) a      *)
(*      dirty victim that another evictor already deleted during the write   *)
(*      latency is counted as written back and `del` raises KeyError.        *)
(*      Design without it: the evictor notices that the victim is gone and   *)
(*      looks at the cache size again.                                       *)
EXTENDS Naturals, Integers, Sequences, FiniteSets, TLC

P1 == "load_inserts_without_recheck"
P2 == "load_overwrites_dirty_page"
P3 == "evict_double_delete"

Has(q, x) == \E i \in 1..Len(q) : q[i] = x
Without(q, x) == LET F[i \in 0..Len(q)] == IF i = 0 THEN <<>> ELSE IF q[i] = x THEN F[i - 1] ELSE Append(F[i - 1], q[i])
                 IN F[Len(q)]
Touch(q, x) == IF Has(q, x) THEN Append(Without(q, x), x) ELSE q

InitP == [pg |-> <<>>, dirty |-> {}, wb |-> 0, lost |-> 0]
Drop(s, v) == [s EXCEPT !.pg = Without(@, v), !.dirty = @ \ {v}]

PNoOp == [kind |-> "none", pid |-> 0, st |-> "new", cont |-> "", victim |-> 0, i |-> 0, lst |-> <<>>, cnt |-> 0]
PNewOp(kind, pid) == [PNoOp EXCEPT !.kind = kind, !.pid = pid]
POut(s, op, done, ret, lat) == [s |-> s, op |-> op, done |-> done, ret |-> ret, lat |-> lat]

\* the page a load-insert stage is about to insert, and the stage that follows it
Tgt(op) == IF op.st \in {"ins", "ins2"} THEN op.pid ELSE op.pid + op.i
After(op) == IF op.st \in {"ins", "ins2"} THEN [op EXCEPT !.st = "ra", !.i = 1] ELSE [op EXCEPT !.st = "ra", !.i = @ + 1]
\* an entry for the page exists already (a concurrent operation cached it during the read latency)
KeepOrClobber(g, s, p) ==
    IF P2 \in g.dev THEN [s EXCEPT !.dirty = @ \ {p}, !.lost = IF p \in s.dirty THEN @ + 1 ELSE @] ELSE s

RECURSIVE Adv(_, _, _)
Adv(g, s, op) ==
    CASE op.st = "new" /\ op.kind = "read" ->
            IF Has(s.pg, op.pid) THEN POut([s EXCEPT !.pg = Touch(@, op.pid)], op, TRUE, 0, "-")
            ELSE Adv(g, s, [op EXCEPT !.st = "ens", !.cont = "rd"])
      [] op.st = "new" /\ op.kind = "write" ->
            IF Has(s.pg, op.pid)
            THEN POut([s EXCEPT !.pg = Touch(@, op.pid), !.dirty = @ \cup {op.pid}], op, TRUE, 0, "-")
            ELSE Adv(g, s, [op EXCEPT !.st = "ens", !.cont = "wins"])
      [] op.st = "new" /\ op.kind = "flush" -> Adv(g, s, [op EXCEPT !.st = "fl", !.lst = s.pg])
      [] op.st = "ens" ->
            IF Len(s.pg) < g.cap \/ s.pg = <<>> THEN Adv(g, s, [op EXCEPT !.st = op.cont])
            ELSE LET v == Head(s.pg)
                 IN IF v \in s.dirty THEN POut(s, [op EXCEPT !.st = "evwb", !.victim = v], FALSE, 0, "WL")
                    ELSE Adv(g, Drop(s, v), op)
      [] op.st = "evwb" ->
            LET s1 == [s EXCEPT !.wb = @ + 1]
            IN IF Has(s.pg, op.victim) THEN Adv(g, Drop(s1, op.victim), [op EXCEPT !.st = "ens"])
               ELSE IF P3 \in g.dev THEN POut(s1, op, TRUE, -1, "-")   \* KeyError: someone else deleted the victim
               ELSE Adv(g, s, [op EXCEPT !.st = "ens"])
      [] op.st = "rd" -> POut(s, [op EXCEPT !.st = "ins"], FALSE, 0, "RL")
      [] op.st \in {"ins", "rains"} ->
            LET p == Tgt(op) IN
            IF Has(s.pg, p) THEN Adv(g, KeepOrClobber(g, s, p), After(op))
            ELSE IF P1 \in g.dev THEN Adv(g, [s EXCEPT !.pg = Append(@, p)], After(op))
            ELSE Adv(g, s, [op EXCEPT !.st = "ens", !.cont = IF op.st = "ins" THEN "ins2" ELSE "rains2"])
      [] op.st \in {"ins2", "rains2"} ->          \* design without P1: room was made again just now
            LET p == Tgt(op) IN
            Adv(g, IF Has(s.pg, p) THEN KeepOrClobber(g, s, p) ELSE [s EXCEPT !.pg = Append(@, p)], After(op))
      [] op.st = "ra" ->
            IF op.i > g.ra THEN POut(s, op, TRUE, 0, "-")
            ELSE IF ~Has(s.pg, op.pid + op.i) /\ Len(s.pg) < g.cap
                 THEN POut(s, [op EXCEPT !.st = "rains"], FALSE, 0, "RL")
                 ELSE Adv(g, s, [op EXCEPT !.i = @ + 1])
      [] op.st = "wins" ->
            POut(IF Has(s.pg, op.pid) THEN [s EXCEPT !.dirty = @ \cup {op.pid}]
                 ELSE [s EXCEPT !.pg = Append(@, op.pid), !.dirty = @ \cup {op.pid}], op, TRUE, 0, "-")
      [] op.st = "fl" ->
            IF op.lst = <<>> THEN POut(s, op, TRUE, op.cnt, "-")
            ELSE IF Head(op.lst) \in s.dirty /\ Has(s.pg, Head(op.lst))
                 THEN POut(s, [op EXCEPT !.st = "flw", !.victim = Head(op.lst), !.lst = Tail(@)], FALSE, 0, "WL")
                 ELSE Adv(g, s, [op EXCEPT !.lst = Tail(@)])
      [] op.st = "flw" ->
            Adv(g, [s EXCEPT !.dirty = @ \ {op.victim}, !.wb = @ + 1], [op EXCEPT !.st = "fl", !.cnt = @ + 1])
      [] OTHER -> POut(s, op, TRUE, 0, "-")

InvCapacityP(g, s) == Len(s.pg) <= g.cap
InvDirtyDurableP(g, s) == s.lost = 0
\* observation-only form used on recorded traces: dirty pages that stopped being dirty (left the cache or
\* turned clean) between two observations are covered by writebacks counted in between
DirtyCovered(d0, wb0, d1, wb1) == Cardinality(d0 \ d1) <= wb1 - wb0
=============================================================================
