---- MODULE TieredMC_TTrace_1790071526 ----
EXTENDS Sequences, TLCExt, Toolbox, TieredMC, Naturals, TLC

_expression ==
    LET TieredMC_TEExpression == INSTANCE TieredMC_TEExpression
    IN TieredMC_TEExpression!expression
----

_trace ==
    LET TieredMC_TETrace == INSTANCE TieredMC_TETrace
    IN TieredMC_TETrace!trace
----

_inv ==
    ~(
        TLCGet("level") = Len(_TETrace)
        /\
        ctr = (9)
        /\
        plog = (<<<<[k |-> 1, kind |-> "get", gap |-> 1], [k |-> 1, kind |-> "get", gap |-> 1]>>, <<[k |-> 1, kind |-> "put", gap |-> 0]>>>>)
        /\
        reads = ({[k |-> 1, s |-> 2, ret |-> 101], [k |-> 1, s |-> 6, ret |-> 101]})
        /\
        nv = (1)
        /\
        h = (<<<<[s |-> 0, kind |-> "init", e |-> 0, v |-> 101, done |-> TRUE], [s |-> 1, kind |-> "put", e |-> 5, v |-> 1, done |-> TRUE]>>, <<[s |-> 0, kind |-> "init", e |-> 0, v |-> 102, done |-> TRUE]>>>>)
        /\
        fin = (1)
        /\
        st0 = (<<6, 1, 0>>)
        /\
        s = ([t1 |-> [back |-> <<0, 0>>, gen |-> <<0, 0>>, taint |-> <<{}, {}>>, cache |-> <<101, 0>>, dirty |-> {}, ps |-> [q1 |-> <<1>>, q2 |-> <<>>, q3 |-> <<>>, n |-> 0], pend |-> <<0, 0>>], t2 |-> [back |-> <<0, 0>>, gen |-> <<0, 0>>, taint |-> <<{}, {}>>, cache |-> <<0, 0>>, dirty |-> {}, ps |-> [q1 |-> <<>>, q2 |-> <<>>, q3 |-> <<>>, n |-> 0], pend |-> <<0, 0>>], back |-> <<1, 102>>, acc |-> <<2, 0>>, gen |-> <<1, 0>>, taint |-> <<{"tier_promotion_overwrites_newer_write"}, {}>>])
        /\
        ops = (<<[k |-> 0, kind |-> "none", x |-> 0, v |-> 0, st |-> "new", g0 |-> 0, ex |-> FALSE, lst |-> <<>>, cnt |-> 0], [k |-> 0, kind |-> "none", x |-> 0, v |-> 0, st |-> "new", tier |-> 0, g0 |-> 0, ex |-> FALSE], [k |-> 1, kind |-> "get", x |-> 0, v |-> 0, st |-> "new", tier |-> 0, g0 |-> 0, ex |-> FALSE]>>)
        /\
        left = (<<0, 0>>)
        /\
        now = (5)
        /\
        finalBack = (<<>>)
        /\
        heap = ({[q |-> 9, p |-> 3, t |-> 15]})
        /\
        idx = (7)
    )
----

_init ==
    /\ heap = _TETrace[1].heap
    /\ reads = _TETrace[1].reads
    /\ st0 = _TETrace[1].st0
    /\ ctr = _TETrace[1].ctr
    /\ nv = _TETrace[1].nv
    /\ h = _TETrace[1].h
    /\ s = _TETrace[1].s
    /\ now = _TETrace[1].now
    /\ finalBack = _TETrace[1].finalBack
    /\ left = _TETrace[1].left
    /\ fin = _TETrace[1].fin
    /\ idx = _TETrace[1].idx
    /\ ops = _TETrace[1].ops
    /\ plog = _TETrace[1].plog
----

_next ==
    /\ \E i,j \in DOMAIN _TETrace:
        /\ \/ /\ j = i + 1
              /\ i = TLCGet("level")
        /\ heap  = _TETrace[i].heap
        /\ heap' = _TETrace[j].heap
        /\ reads  = _TETrace[i].reads
        /\ reads' = _TETrace[j].reads
        /\ st0  = _TETrace[i].st0
        /\ st0' = _TETrace[j].st0
        /\ ctr  = _TETrace[i].ctr
        /\ ctr' = _TETrace[j].ctr
        /\ nv  = _TETrace[i].nv
        /\ nv' = _TETrace[j].nv
        /\ h  = _TETrace[i].h
        /\ h' = _TETrace[j].h
        /\ s  = _TETrace[i].s
        /\ s' = _TETrace[j].s
        /\ now  = _TETrace[i].now
        /\ now' = _TETrace[j].now
        /\ finalBack  = _TETrace[i].finalBack
        /\ finalBack' = _TETrace[j].finalBack
        /\ left  = _TETrace[i].left
        /\ left' = _TETrace[j].left
        /\ fin  = _TETrace[i].fin
        /\ fin' = _TETrace[j].fin
        /\ idx  = _TETrace[i].idx
        /\ idx' = _TETrace[j].idx
        /\ ops  = _TETrace[i].ops
        /\ ops' = _TETrace[j].ops
        /\ plog  = _TETrace[i].plog
        /\ plog' = _TETrace[j].plog

\* Uncomment the ASSUME below to write the states of the error trace
\* to the given file in Json format. Note that you can pass any tuple
\* to `JsonSerialize`. For example, a sub-sequence of _TETrace.
    \* ASSUME
    \*     LET J == INSTANCE Json
    \*         IN J!JsonSerialize("TieredMC_TTrace_1790071526.json", _TETrace)

=============================================================================

 Note that you can extract this module `TieredMC_TEExpression`
  to a dedicated file to reuse `expression` (the module in the 
  dedicated `TieredMC_TEExpression.tla` file takes precedence 
  over the module `TieredMC_TEExpression` below).

---- MODULE TieredMC_TEExpression ----
EXTENDS Sequences, TLCExt, Toolbox, TieredMC, Naturals, TLC

expression == 
    [
        \* To hide variables of the `TieredMC` spec from the error trace,
        \* remove the variables below.  The trace will be written in the order
        \* of the fields of this record.
        heap |-> heap
        ,reads |-> reads
        ,st0 |-> st0
        ,ctr |-> ctr
        ,nv |-> nv
        ,h |-> h
        ,s |-> s
        ,now |-> now
        ,finalBack |-> finalBack
        ,left |-> left
        ,fin |-> fin
        ,idx |-> idx
        ,ops |-> ops
        ,plog |-> plog
        
        \* Put additional constant-, state-, and action-level expressions here:
        \* ,_stateNumber |-> _TEPosition
        \* ,_heapUnchanged |-> heap = heap'
        
        \* Format the `heap` variable as Json value.
        \* ,_heapJson |->
        \*     LET J == INSTANCE Json
        \*     IN J!ToJson(heap)
        
        \* Lastly, you may build expressions over arbitrary sets of states by
        \* leveraging the _TETrace operator.  For example, this is how to
        \* count the number of times a spec variable changed up to the current
        \* state in the trace.
        \* ,_heapModCount |->
        \*     LET F[s \in DOMAIN _TETrace] ==
        \*         IF s = 1 THEN 0
        \*         ELSE IF _TETrace[s].heap # _TETrace[s-1].heap
        \*             THEN 1 + F[s-1] ELSE F[s-1]
        \*     IN F[_TEPosition - 1]
    ]

=============================================================================



Parsing and semantic processing can take forever if the trace below is long.
 In this case, it is advised to uncomment the module below to deserialize the
 trace from a generated binary file.

\*
\*---- MODULE TieredMC_TETrace ----
\*EXTENDS IOUtils, TieredMC, TLC
\*
\*trace == IODeserialize("TieredMC_TTrace_1790071526.bin", TRUE)
\*
\*=============================================================================
\*

---- MODULE TieredMC_TETrace ----
EXTENDS TieredMC, TLC

trace == 
    <<
    ([ctr |-> 2,plog |-> <<<<[k |-> 1, kind |-> "get", gap |-> 1]>>, <<[k |-> 1, kind |-> "put", gap |-> 0]>>>>,reads |-> {},nv |-> 0,h |-> <<<<[s |-> 0, kind |-> "init", e |-> 0, v |-> 101, done |-> TRUE]>>, <<[s |-> 0, kind |-> "init", e |-> 0, v |-> 102, done |-> TRUE]>>>>,fin |-> 0,st0 |-> <<0, 0, 0>>,s |-> [t1 |-> [back |-> <<0, 0>>, gen |-> <<0, 0>>, taint |-> <<{}, {}>>, cache |-> <<0, 0>>, dirty |-> {}, ps |-> [q1 |-> <<>>, q2 |-> <<>>, q3 |-> <<>>, n |-> 0], pend |-> <<0, 0>>], t2 |-> [back |-> <<0, 0>>, gen |-> <<0, 0>>, taint |-> <<{}, {}>>, cache |-> <<101, 0>>, dirty |-> {}, ps |-> [q1 |-> <<1>>, q2 |-> <<>>, q3 |-> <<>>, n |-> 0], pend |-> <<0, 0>>], back |-> <<101, 102>>, acc |-> <<0, 0>>, gen |-> <<0, 0>>, taint |-> <<{}, {}>>],ops |-> <<[k |-> 1, kind |-> "get", x |-> 0, v |-> 0, st |-> "new", tier |-> 0, g0 |-> 0, ex |-> FALSE], [k |-> 1, kind |-> "put", x |-> 0, v |-> 0, st |-> "new", tier |-> 0, g0 |-> 0, ex |-> FALSE], [k |-> 0, kind |-> "none", x |-> 0, v |-> 0, st |-> "new", tier |-> 0, g0 |-> 0, ex |-> FALSE]>>,left |-> <<2, 1>>,now |-> 0,finalBack |-> <<>>,heap |-> {[q |-> 1, p |-> 1, t |-> 1], [q |-> 2, p |-> 2, t |-> 0]},idx |-> 0]),
    ([ctr |-> 3,plog |-> <<<<[k |-> 1, kind |-> "get", gap |-> 1]>>, <<[k |-> 1, kind |-> "put", gap |-> 0]>>>>,reads |-> {},nv |-> 1,h |-> <<<<[s |-> 0, kind |-> "init", e |-> 0, v |-> 101, done |-> TRUE], [s |-> 1, kind |-> "put", e |-> 0, v |-> 1, done |-> FALSE]>>, <<[s |-> 0, kind |-> "init", e |-> 0, v |-> 102, done |-> TRUE]>>>>,fin |-> 0,st0 |-> <<0, 1, 0>>,s |-> [t1 |-> [back |-> <<0, 0>>, gen |-> <<0, 0>>, taint |-> <<{}, {}>>, cache |-> <<0, 0>>, dirty |-> {}, ps |-> [q1 |-> <<>>, q2 |-> <<>>, q3 |-> <<>>, n |-> 0], pend |-> <<0, 0>>], t2 |-> [back |-> <<0, 0>>, gen |-> <<0, 0>>, taint |-> <<{}, {}>>, cache |-> <<101, 0>>, dirty |-> {}, ps |-> [q1 |-> <<1>>, q2 |-> <<>>, q3 |-> <<>>, n |-> 0], pend |-> <<0, 0>>], back |-> <<101, 102>>, acc |-> <<0, 0>>, gen |-> <<0, 0>>, taint |-> <<{}, {}>>],ops |-> <<[k |-> 1, kind |-> "get", x |-> 0, v |-> 0, st |-> "new", tier |-> 0, g0 |-> 0, ex |-> FALSE], [k |-> 1, kind |-> "put", x |-> 0, v |-> 1, st |-> "bput", tier |-> 0, g0 |-> 0, ex |-> FALSE], [k |-> 0, kind |-> "none", x |-> 0, v |-> 0, st |-> "new", tier |-> 0, g0 |-> 0, ex |-> FALSE]>>,left |-> <<2, 1>>,now |-> 0,finalBack |-> <<>>,heap |-> {[q |-> 1, p |-> 1, t |-> 1], [q |-> 3, p |-> 2, t |-> 2]},idx |-> 1]),
    ([ctr |-> 4,plog |-> <<<<[k |-> 1, kind |-> "get", gap |-> 1]>>, <<[k |-> 1, kind |-> "put", gap |-> 0]>>>>,reads |-> {},nv |-> 1,h |-> <<<<[s |-> 0, kind |-> "init", e |-> 0, v |-> 101, done |-> TRUE], [s |-> 1, kind |-> "put", e |-> 0, v |-> 1, done |-> FALSE]>>, <<[s |-> 0, kind |-> "init", e |-> 0, v |-> 102, done |-> TRUE]>>>>,fin |-> 0,st0 |-> <<2, 1, 0>>,s |-> [t1 |-> [back |-> <<0, 0>>, gen |-> <<0, 0>>, taint |-> <<{}, {}>>, cache |-> <<0, 0>>, dirty |-> {}, ps |-> [q1 |-> <<>>, q2 |-> <<>>, q3 |-> <<>>, n |-> 0], pend |-> <<0, 0>>], t2 |-> [back |-> <<0, 0>>, gen |-> <<0, 0>>, taint |-> <<{}, {}>>, cache |-> <<101, 0>>, dirty |-> {}, ps |-> [q1 |-> <<1>>, q2 |-> <<>>, q3 |-> <<>>, n |-> 0], pend |-> <<0, 0>>], back |-> <<101, 102>>, acc |-> <<1, 0>>, gen |-> <<0, 0>>, taint |-> <<{}, {}>>],ops |-> <<[k |-> 1, kind |-> "get", x |-> 101, v |-> 0, st |-> "thit", tier |-> 2, g0 |-> 0, ex |-> FALSE], [k |-> 1, kind |-> "put", x |-> 0, v |-> 1, st |-> "bput", tier |-> 0, g0 |-> 0, ex |-> FALSE], [k |-> 0, kind |-> "none", x |-> 0, v |-> 0, st |-> "new", tier |-> 0, g0 |-> 0, ex |-> FALSE]>>,left |-> <<2, 1>>,now |-> 1,finalBack |-> <<>>,heap |-> {[q |-> 3, p |-> 2, t |-> 2], [q |-> 4, p |-> 1, t |-> 3]},idx |-> 2]),
    ([ctr |-> 5,plog |-> <<<<[k |-> 1, kind |-> "get", gap |-> 1]>>, <<[k |-> 1, kind |-> "put", gap |-> 0]>>>>,reads |-> {},nv |-> 1,h |-> <<<<[s |-> 0, kind |-> "init", e |-> 0, v |-> 101, done |-> TRUE], [s |-> 1, kind |-> "put", e |-> 0, v |-> 1, done |-> FALSE]>>, <<[s |-> 0, kind |-> "init", e |-> 0, v |-> 102, done |-> TRUE]>>>>,fin |-> 0,st0 |-> <<2, 1, 0>>,s |-> [t1 |-> [back |-> <<0, 0>>, gen |-> <<0, 0>>, taint |-> <<{}, {}>>, cache |-> <<1, 0>>, dirty |-> {}, ps |-> [q1 |-> <<1>>, q2 |-> <<>>, q3 |-> <<>>, n |-> 0], pend |-> <<0, 0>>], t2 |-> [back |-> <<0, 0>>, gen |-> <<0, 0>>, taint |-> <<{}, {}>>, cache |-> <<0, 0>>, dirty |-> {}, ps |-> [q1 |-> <<>>, q2 |-> <<>>, q3 |-> <<>>, n |-> 0], pend |-> <<0, 0>>], back |-> <<1, 102>>, acc |-> <<1, 0>>, gen |-> <<1, 0>>, taint |-> <<{}, {}>>],ops |-> <<[k |-> 1, kind |-> "get", x |-> 101, v |-> 0, st |-> "thit", tier |-> 2, g0 |-> 0, ex |-> FALSE], [k |-> 1, kind |-> "put", x |-> 0, v |-> 1, st |-> "l1bput", tier |-> 0, g0 |-> 0, ex |-> FALSE], [k |-> 0, kind |-> "none", x |-> 0, v |-> 0, st |-> "new", tier |-> 0, g0 |-> 0, ex |-> FALSE]>>,left |-> <<2, 1>>,now |-> 2,finalBack |-> <<>>,heap |-> {[q |-> 4, p |-> 1, t |-> 3], [q |-> 5, p |-> 2, t |-> 4]},idx |-> 3]),
    ([ctr |-> 6,plog |-> <<<<[k |-> 1, kind |-> "get", gap |-> 1], [k |-> 1, kind |-> "get", gap |-> 1]>>, <<[k |-> 1, kind |-> "put", gap |-> 0]>>>>,reads |-> {[k |-> 1, s |-> 2, ret |-> 101]},nv |-> 1,h |-> <<<<[s |-> 0, kind |-> "init", e |-> 0, v |-> 101, done |-> TRUE], [s |-> 1, kind |-> "put", e |-> 0, v |-> 1, done |-> FALSE]>>, <<[s |-> 0, kind |-> "init", e |-> 0, v |-> 102, done |-> TRUE]>>>>,fin |-> 0,st0 |-> <<2, 1, 0>>,s |-> [t1 |-> [back |-> <<0, 0>>, gen |-> <<0, 0>>, taint |-> <<{}, {}>>, cache |-> <<101, 0>>, dirty |-> {}, ps |-> [q1 |-> <<1>>, q2 |-> <<>>, q3 |-> <<>>, n |-> 0], pend |-> <<0, 0>>], t2 |-> [back |-> <<0, 0>>, gen |-> <<0, 0>>, taint |-> <<{}, {}>>, cache |-> <<0, 0>>, dirty |-> {}, ps |-> [q1 |-> <<>>, q2 |-> <<>>, q3 |-> <<>>, n |-> 0], pend |-> <<0, 0>>], back |-> <<1, 102>>, acc |-> <<1, 0>>, gen |-> <<1, 0>>, taint |-> <<{"tier_promotion_overwrites_newer_write"}, {}>>],ops |-> <<[k |-> 1, kind |-> "get", x |-> 0, v |-> 0, st |-> "new", tier |-> 0, g0 |-> 0, ex |-> FALSE], [k |-> 1, kind |-> "put", x |-> 0, v |-> 1, st |-> "l1bput", tier |-> 0, g0 |-> 0, ex |-> FALSE], [k |-> 0, kind |-> "none", x |-> 0, v |-> 0, st |-> "new", tier |-> 0, g0 |-> 0, ex |-> FALSE]>>,left |-> <<1, 1>>,now |-> 3,finalBack |-> <<>>,heap |-> {[q |-> 5, p |-> 2, t |-> 4], [q |-> 6, p |-> 1, t |-> 4]},idx |-> 4]),
    ([ctr |-> 7,plog |-> <<<<[k |-> 1, kind |-> "get", gap |-> 1], [k |-> 1, kind |-> "get", gap |-> 1]>>, <<[k |-> 1, kind |-> "put", gap |-> 0]>>>>,reads |-> {[k |-> 1, s |-> 2, ret |-> 101]},nv |-> 1,h |-> <<<<[s |-> 0, kind |-> "init", e |-> 0, v |-> 101, done |-> TRUE], [s |-> 1, kind |-> "put", e |-> 5, v |-> 1, done |-> TRUE]>>, <<[s |-> 0, kind |-> "init", e |-> 0, v |-> 102, done |-> TRUE]>>>>,fin |-> 0,st0 |-> <<2, 1, 0>>,s |-> [t1 |-> [back |-> <<0, 0>>, gen |-> <<0, 0>>, taint |-> <<{}, {}>>, cache |-> <<101, 0>>, dirty |-> {}, ps |-> [q1 |-> <<1>>, q2 |-> <<>>, q3 |-> <<>>, n |-> 0], pend |-> <<0, 0>>], t2 |-> [back |-> <<0, 0>>, gen |-> <<0, 0>>, taint |-> <<{}, {}>>, cache |-> <<0, 0>>, dirty |-> {}, ps |-> [q1 |-> <<>>, q2 |-> <<>>, q3 |-> <<>>, n |-> 0], pend |-> <<0, 0>>], back |-> <<1, 102>>, acc |-> <<1, 0>>, gen |-> <<1, 0>>, taint |-> <<{"tier_promotion_overwrites_newer_write"}, {}>>],ops |-> <<[k |-> 1, kind |-> "get", x |-> 0, v |-> 0, st |-> "new", tier |-> 0, g0 |-> 0, ex |-> FALSE], [k |-> 0, kind |-> "none", x |-> 0, v |-> 0, st |-> "new", tier |-> 0, g0 |-> 0, ex |-> FALSE], [k |-> 0, kind |-> "none", x |-> 0, v |-> 0, st |-> "new", tier |-> 0, g0 |-> 0, ex |-> FALSE]>>,left |-> <<1, 0>>,now |-> 4,finalBack |-> <<>>,heap |-> {[q |-> 6, p |-> 1, t |-> 4]},idx |-> 5]),
    ([ctr |-> 8,plog |-> <<<<[k |-> 1, kind |-> "get", gap |-> 1], [k |-> 1, kind |-> "get", gap |-> 1]>>, <<[k |-> 1, kind |-> "put", gap |-> 0]>>>>,reads |-> {[k |-> 1, s |-> 2, ret |-> 101]},nv |-> 1,h |-> <<<<[s |-> 0, kind |-> "init", e |-> 0, v |-> 101, done |-> TRUE], [s |-> 1, kind |-> "put", e |-> 5, v |-> 1, done |-> TRUE]>>, <<[s |-> 0, kind |-> "init", e |-> 0, v |-> 102, done |-> TRUE]>>>>,fin |-> 0,st0 |-> <<6, 1, 0>>,s |-> [t1 |-> [back |-> <<0, 0>>, gen |-> <<0, 0>>, taint |-> <<{}, {}>>, cache |-> <<101, 0>>, dirty |-> {}, ps |-> [q1 |-> <<1>>, q2 |-> <<>>, q3 |-> <<>>, n |-> 0], pend |-> <<0, 0>>], t2 |-> [back |-> <<0, 0>>, gen |-> <<0, 0>>, taint |-> <<{}, {}>>, cache |-> <<0, 0>>, dirty |-> {}, ps |-> [q1 |-> <<>>, q2 |-> <<>>, q3 |-> <<>>, n |-> 0], pend |-> <<0, 0>>], back |-> <<1, 102>>, acc |-> <<2, 0>>, gen |-> <<1, 0>>, taint |-> <<{"tier_promotion_overwrites_newer_write"}, {}>>],ops |-> <<[k |-> 1, kind |-> "get", x |-> 101, v |-> 0, st |-> "thit", tier |-> 1, g0 |-> 1, ex |-> FALSE], [k |-> 0, kind |-> "none", x |-> 0, v |-> 0, st |-> "new", tier |-> 0, g0 |-> 0, ex |-> FALSE], [k |-> 0, kind |-> "none", x |-> 0, v |-> 0, st |-> "new", tier |-> 0, g0 |-> 0, ex |-> FALSE]>>,left |-> <<1, 0>>,now |-> 4,finalBack |-> <<>>,heap |-> {[q |-> 8, p |-> 1, t |-> 5]},idx |-> 6]),
    ([ctr |-> 9,plog |-> <<<<[k |-> 1, kind |-> "get", gap |-> 1], [k |-> 1, kind |-> "get", gap |-> 1]>>, <<[k |-> 1, kind |-> "put", gap |-> 0]>>>>,reads |-> {[k |-> 1, s |-> 2, ret |-> 101], [k |-> 1, s |-> 6, ret |-> 101]},nv |-> 1,h |-> <<<<[s |-> 0, kind |-> "init", e |-> 0, v |-> 101, done |-> TRUE], [s |-> 1, kind |-> "put", e |-> 5, v |-> 1, done |-> TRUE]>>, <<[s |-> 0, kind |-> "init", e |-> 0, v |-> 102, done |-> TRUE]>>>>,fin |-> 1,st0 |-> <<6, 1, 0>>,s |-> [t1 |-> [back |-> <<0, 0>>, gen |-> <<0, 0>>, taint |-> <<{}, {}>>, cache |-> <<101, 0>>, dirty |-> {}, ps |-> [q1 |-> <<1>>, q2 |-> <<>>, q3 |-> <<>>, n |-> 0], pend |-> <<0, 0>>], t2 |-> [back |-> <<0, 0>>, gen |-> <<0, 0>>, taint |-> <<{}, {}>>, cache |-> <<0, 0>>, dirty |-> {}, ps |-> [q1 |-> <<>>, q2 |-> <<>>, q3 |-> <<>>, n |-> 0], pend |-> <<0, 0>>], back |-> <<1, 102>>, acc |-> <<2, 0>>, gen |-> <<1, 0>>, taint |-> <<{"tier_promotion_overwrites_newer_write"}, {}>>],ops |-> <<[k |-> 0, kind |-> "none", x |-> 0, v |-> 0, st |-> "new", g0 |-> 0, ex |-> FALSE, lst |-> <<>>, cnt |-> 0], [k |-> 0, kind |-> "none", x |-> 0, v |-> 0, st |-> "new", tier |-> 0, g0 |-> 0, ex |-> FALSE], [k |-> 1, kind |-> "get", x |-> 0, v |-> 0, st |-> "new", tier |-> 0, g0 |-> 0, ex |-> FALSE]>>,left |-> <<0, 0>>,now |-> 5,finalBack |-> <<>>,heap |-> {[q |-> 9, p |-> 3, t |-> 15]},idx |-> 7])
    >>
----


=============================================================================

---- CONFIG TieredMC_TTrace_1790071526 ----
CONSTANTS
    K = 2
    Cap1 = 1
    Cap2 = 2
    Pol = "ANY"
    Promo = "always"
    Dev = { "tier_promotion_overwrites_newer_write" }
    NP = 2
    N1 = 2
    N2 = 1
    N3 = 0
    Kinds = { "get" , "put" , "del" , "inv" }
    Gaps = { 0 , 1 }
    Pre = { 1 , 2 }
    L2Pre = { 1 }
    CL1 = 1
    CL2 = 2
    RL = 2
    WL = 2
    DL = 2
    TTLv = 2
    SS = 2

INVARIANT
    _inv

CHECK_DEADLOCK
    \* CHECK_DEADLOCK off because of PROPERTY or INVARIANT above.
    FALSE

INIT
    _init

NEXT
    _next

CONSTANT
    _TETrace <- _trace

ALIAS
    _expression
=============================================================================
\* Generated on Tue Sep 22 10:06:01 UTC 2026