------------------------------ MODULE TieredMC ------------------------------
(* Timed exhaustive exploration of Tiered.tla (MultiTierCache with two       *)
(* write-through CachedStore tiers): NP client processes with operations     *)
(* chosen by TLC, discrete-event scheduler as in CacheMC.  Finale: get(k)    *)
(* for every key.  Contract: InvCapacity and InvPolicyKeys for both tiers,   *)
(* InvReadFresh through MultiTierCache.get.                                  *)
EXTENDS Tiered

CONSTANTS K, Cap1, Cap2, Pol, Promo, Dev, NP, N1, N2, N3, Kinds, Gaps, Pre, L2Pre, CL1, CL2, RL, WL, DL, TTLv, SS,
          UseScript    \* "none": TLC chooses the programs; "rewrite": the directed program below

NOps == <<N1, N2, N3>>
Back0 == [k \in 1..K |-> IF k \in Pre THEN 100 + k ELSE 0]
L2Fill == [k \in 1..K |-> IF k \in L2Pre THEN 100 + k ELSE 0]     \* L2 warm with the backing store's values
G == [K |-> K, cap1 |-> Cap1, cap2 |-> Cap2, pol |-> Pol, promo |-> Promo, dev |-> Dev,
      par |-> [ttl |-> TTLv, ss |-> SS, a1max |-> 50]]
Keys == 1..K
Procs == 1..NP
FIN == NP + 1

VARIABLES s,      \* Tiered.tla state
          ops,    \* [Procs \cup {FIN} -> op record]
          heap,   \* set of [t, q, p]: process p resumes at time t (q = creation counter)
          now, ctr,
          left,   \* [Procs -> operations still to start]
          h,      \* write history (contract ghost)
          st0,    \* [Procs \cup {FIN} -> position at which the op in flight was invoked]
          idx,    \* number of segments executed so far
          reads,  \* completed reads [k, s, ret]
          nv,     \* values written so far (values are 1, 2, ...; initial backing values are 100+k)
          fin,    \* finale script position (0 = not started)
          finalBack,
          plog    \* [Procs -> Seq(choice)]: the program chosen so far (read back by the harness)
vars == <<s, ops, heap, now, ctr, left, h, st0, idx, reads, nv, fin, finalBack, plog>>
View == <<s, ops, heap, now, ctr, left, h, st0, idx, reads, nv, fin, finalBack>>

Lat(l) == CASE l = "CL1" -> CL1 [] l = "CL2" -> CL2 [] l = "RL" -> RL [] l = "WL" -> WL [] l = "DL" -> DL
            [] OTHER -> 0
Choices == { c \in [kind : Kinds, k : Keys, gap : Gaps] : c.kind = "invall" => c.k = 1 }
C(kind, k, gap) == [kind |-> kind, k |-> k, gap |-> gap]
\* directed program for "l1_put_rewrites_backing_late" (five operations in three processes, beyond the
\* exhaustive bounds): put A lands at 2 and rewrites the backing store at 4, put B lands at 3; the third
\* client invalidates key 1 after A landed and fetches it so that the fetch lands right after A's late write.
Script == << <<C("put", 1, 0)>>, <<C("inv", 2, 0), C("inv", 1, 2), C("get", 1, 0)>>, <<C("put", 1, 1)>> >>
Pick(p, i) == IF UseScript = "none" THEN Choices ELSE {Script[p][i]}
RECURSIVE Perms(_)
Perms(S) == IF S = {} THEN {<<>>} ELSE UNION { { <<x>> \o q : q \in Perms(S \ {x}) } : x \in S }

Init ==
    /\ s = InitM(G, Back0, L2Fill, [k \in 1..K |-> 0]) /\ now = 0 /\ ctr = NP /\ idx = 0 /\ reads = {} /\ nv = 0 /\ fin = 0
    /\ finalBack = <<>>
    /\ h = InitHist([K |-> K], Back0)
    /\ left = [p \in Procs |-> NOps[p]]
    /\ st0 = [p \in Procs \cup {FIN} |-> 0]
    /\ \E c \in { f \in [Procs -> Choices \cup UNION { Pick(p, 1) : p \in Procs }] : \A p \in Procs : f[p] \in Pick(p, 1) } :
          /\ ops = [p \in Procs \cup {FIN} |-> IF p = FIN THEN MNoOp ELSE MNewOp(c[p].kind, c[p].k, 0)]
          /\ heap = { [t |-> c[p].gap, q |-> p, p |-> p] : p \in Procs }
          /\ plog = [p \in Procs |-> <<c[p]>>]

MinEntry == CHOOSE e \in heap : \A f \in heap : e.t < f.t \/ (e.t = f.t /\ e.q <= f.q)

FinScript == [i \in 1..K |-> "get"]
FinOp(i) == MNewOp("get", i, 0)

\* history updates at invocation / completion of an operation
HStart(hh, op, v, pos) ==
    IF op.kind = "put" THEN [hh EXCEPT ![op.k] = Append(@, [v |-> v, s |-> pos, e |-> 0, done |-> FALSE, kind |-> "put"])]
    ELSE IF op.kind = "del" THEN [hh EXCEPT ![op.k] = Append(@, [v |-> 0, s |-> pos, e |-> 0, done |-> FALSE, kind |-> "del"])]
    ELSE hh
HEnd(hh, op, v, spos, pos) ==
    IF op.kind \in {"put", "del"}
    THEN [hh EXCEPT ![op.k] = [i \in 1..Len(@) |-> IF @[i].s = spos /\ ~@[i].done
                                                     THEN [@[i] EXCEPT !.e = pos, !.done = TRUE] ELSE @[i]]]
    ELSE hh

Run ==
    /\ heap # {}
    /\ LET e == MinEntry
           p == e.p
           pos == idx + 1
           op0 == ops[p]
           starting == op0.st = "new"
           v == IF starting /\ op0.kind = "put" THEN nv + 1 ELSE op0.v
       IN \E o \in MSeg(G, s, [op0 EXCEPT !.v = v], e.t) :
            LET spos == IF starting THEN pos ELSE st0[p]
                h1 == IF starting THEN HStart(h, op0, v, pos) ELSE h
                h2 == IF o.done THEN HEnd(h1, op0, v, spos, pos) ELSE h1
            IN
            /\ now' = e.t /\ idx' = pos /\ s' = o.s
            /\ nv' = IF starting /\ op0.kind = "put" THEN nv + 1 ELSE nv
            /\ h' = h2
            /\ st0' = [st0 EXCEPT ![p] = spos]
            /\ reads' = IF o.done /\ op0.kind = "get" THEN reads \cup {[k |-> op0.k, s |-> spos, ret |-> o.ret]}
                        ELSE reads
            /\ finalBack' = finalBack
            /\ IF ~o.done
               THEN /\ ops' = [ops EXCEPT ![p] = o.op]
                    /\ heap' = (heap \ {e}) \cup {[t |-> e.t + Lat(o.lat), q |-> ctr + 1, p |-> p]}
                    /\ ctr' = ctr + 1 /\ UNCHANGED <<left, fin, plog>>
               ELSE IF p = FIN
                    THEN /\ left' = left /\ ctr' = ctr + 1 /\ plog' = plog
                         /\ IF fin < Len(FinScript)
                            THEN /\ fin' = fin + 1 /\ ops' = [ops EXCEPT ![p] = FinOp(fin + 1)]
                                 /\ heap' = (heap \ {e}) \cup {[t |-> e.t, q |-> ctr + 1, p |-> p]}
                            ELSE /\ fin' = fin /\ ops' = [ops EXCEPT ![p] = MNoOp] /\ heap' = heap \ {e}
                    ELSE LET l1 == [left EXCEPT ![p] = @ - 1]
                             alldone == (\A q \in Procs : l1[q] = 0) /\ (heap \ {e}) = {}
                         IN /\ left' = l1 /\ ctr' = ctr + 1
                            /\ IF l1[p] > 0
                               THEN /\ \E c \in Pick(p, Len(plog[p]) + 1) :
                                          /\ ops' = [ops EXCEPT ![p] = MNewOp(c.kind, c.k, 0)]
                                          /\ plog' = [plog EXCEPT ![p] = Append(@, c)]
                                          /\ heap' = (heap \ {e}) \cup {[t |-> e.t + c.gap, q |-> ctr + 1, p |-> p]}
                                    /\ fin' = fin
                               ELSE /\ plog' = plog
                                    /\ IF alldone
                                       THEN /\ fin' = 1
                                            /\ ops' = [ops EXCEPT ![p] = NoOp, ![FIN] = FinOp(1)]
                                            /\ heap' = {[t |-> e.t + 10, q |-> ctr + 1, p |-> FIN]}
                                       ELSE /\ fin' = fin /\ ops' = [ops EXCEPT ![p] = MNoOp]
                                            /\ heap' = heap \ {e}

Next == Run
Spec == Init /\ [][Next]_vars

InvCapacity == InvCapacityM(G, s)
InvPolicyKeys == InvPolicyKeysM(G, s)
InvReadFresh == \A r \in reads : ReadOK(h, r.k, r.s, r.ret)
Done == heap = {}
=============================================================================
