------------------------------- MODULE Cache -------------------------------
(* Implementation-shaped model of                                            *)
(*   happysimulator/components/datastore/cached_store.py  (CachedStore)      *)
(* in front of kv_store.py (KVStore, unbounded), property C16.               *)
(*                                                                           *)
(* One operator per generator segment of the Python code (a segment = the    *)
(* code between two yields, executed atomically by the event loop):          *)
(*   get     GetStart  (hit: on_access, capture value, yield cache latency | *)
(*                      miss: yield backing read latency)                    *)
(*           GetEnd    (hit: return captured | miss: read backing at the END *)
(*                      of the latency as KVStore.get does, fill, return)    *)
(*   put     PutStart  (_cache_put; write-through: yield backing write       *)
(*                      latency | write-back: mark dirty, yield cache lat.)  *)
(*           PutEnd    (write-through: backing[k] := v)                      *)
(*   delete  DelStart  (_cache_remove, yield delete latency)  DelEnd         *)
(*   invalidate, invalidate_all   (plain calls, one segment)                 *)
(*   flush   FlushStart (snapshot list(dirty)), then per key in the cache:   *)
(*           capture value, yield write latency, FlushLand (backing := value,*)
(*           dirty.discard)                                                  *)
(* _cache_put's evict-until-fits loop calls the eviction policy (Policies9). *)
(*                                                                           *)
(* All operators are pure functions of a configuration record g and a state  *)
(* record s so that CacheMC.tla (timed exhaustive exploration) and           *)
(* CacheTrace.tla (validation of executions recorded from the real code)     *)
(* share them.                                                               *)
(*   g = [K, cap, wt, pol, par, dev]                                         *)
(*   s = [cache, back : [1..K -> Nat] (0 = absent), dirty : SUBSET 1..K,     *)
(*        ps : policy state, gen, pend : [1..K -> Nat], taint]               *)
(* gen[k] counts put() calls started on k, pend[k] the write-through puts of *)
(* k whose backing write has not landed.  The code as it is does not have    *)
(* them; they are what the repaired design needs and what identifies the     *)
(* situations in which a deviation makes a difference (taint).               *)
(*                                                                           *)
(* Deviations (g.dev), each reproducing what the pinned code does:           *)
(*  "dirty_evicted_without_writeback"   _cache_put drops an evicted dirty    *)
(*       key (dirty.discard) without writing it to the backing store.        *)
(*       Design without it: the victim's value is written back first.        *)
(*  "miss_fill_overwrites_newer_write"  get() fills the cache with the value *)
(*       it fetched even if a put() to the key started after the get did or  *)
(*       a write-through put's backing write is still in flight.             *)
(*       Design without it: such a fetch result is returned but not cached.  *)
(*  "flush_clears_dirty_of_concurrent_write"  flush() writes the value it    *)
(*       captured before the write latency and then clears the dirty flag    *)
(*       unconditionally.  Design without it: at landing time the current    *)
(*       cached value is written if the key is still dirty.                  *)
(*  "wb_delete_exposes_stale_backing"  delete() removes the cached entry (and *)
(*       its dirty flag) before the delete latency; until the backing delete *)
(*       lands a get() misses and reads the value the backing store held     *)
(*       before the unflushed write-back put.  Design without it: the cached *)
(*       entry is removed when the backing delete lands.                     *)
(*  "evict_none_breaks_capacity" (hypothetical) the policy may return None   *)
(*       while it tracks keys; _cache_put then breaks and inserts anyway.    *)
(*  "remove_skips_policy" (hypothetical) _cache_remove forgets on_remove.    *)
EXTENDS Policies9, TLC

D1 == "dirty_evicted_without_writeback"
D2 == "miss_fill_overwrites_newer_write"
D3 == "flush_clears_dirty_of_concurrent_write"
D4 == "evict_none_breaks_capacity"
D5 == "remove_skips_policy"
D6 == "wb_delete_exposes_stale_backing"

KeysOf(g) == 1..g.K
InitS(g, back0) ==
    [cache |-> [k \in KeysOf(g) |-> 0], back |-> back0, dirty |-> {}, ps |-> PInit,
     gen |-> [k \in KeysOf(g) |-> 0], pend |-> [k \in KeysOf(g) |-> 0],
     taint |-> [k \in KeysOf(g) |-> {}]]

CachedKeys(s) == { k \in DOMAIN s.cache : s.cache[k] # 0 }
Taint(s, k, d) == [s EXCEPT !.taint[k] = @ \cup {d}]

\* ---------------------------------------------------------------- _cache_put
EvictChoices(g, s, now) ==
    PEvictSet(g.pol, g.par, s.ps, now) \cup (IF D4 \in g.dev THEN {[v |-> 0, ps |-> s.ps]} ELSE {})

\* the body of the while loop for victim v (policy state already advanced)
EvictOne(g, s, v) ==
    LET val == IF v \in DOMAIN s.cache THEN s.cache[v] ELSE 0
        wb == v \in s.dirty /\ val # 0
        s1 == IF wb /\ D1 \notin g.dev THEN [s EXCEPT !.back[v] = val] ELSE s
        s2 == IF wb /\ D1 \in g.dev /\ s.back[v] # val THEN Taint(s1, v, D1) ELSE s1
    IN IF v \in DOMAIN s.cache THEN [s2 EXCEPT !.cache[v] = 0, !.dirty = @ \ {v}] ELSE s2

RECURSIVE EvictLoop(_, _, _, _)
EvictLoop(g, s, now, fuel) ==
    IF Cardinality(CachedKeys(s)) < g.cap \/ fuel = 0 THEN {s}
    ELSE UNION { IF r.v = 0 THEN {s}
                 ELSE EvictLoop(g, EvictOne(g, [s EXCEPT !.ps = r.ps], r.v), now, fuel - 1)
                 : r \in EvictChoices(g, s, now) }

CachePut(g, s, k, v, now) ==
    IF s.cache[k] = 0
    THEN { [x EXCEPT !.ps = PInsert(g.pol, g.par, x.ps, k, now), !.cache[k] = v]
           : x \in EvictLoop(g, s, now, g.K + 2) }
    ELSE { [s EXCEPT !.ps = PAccess(g.pol, s.ps, k), !.cache[k] = v] }

CacheRemove(g, s, k) ==
    [s EXCEPT !.cache[k] = 0, !.dirty = @ \ {k},
              !.ps = IF D5 \in g.dev THEN @ ELSE PRemove(g.pol, @, k)]

\* ---------------------------------------------------------------- operations
\* an operation in flight
NoOp == [kind |-> "none", k |-> 0, v |-> 0, st |-> "new", g0 |-> 0, x |-> 0, lst |-> <<>>, cnt |-> 0,
         ex |-> FALSE]
NewOp(kind, k, v, lst) == [NoOp EXCEPT !.kind = kind, !.k = k, !.v = v, !.lst = lst]

\* outcome of one segment: new state, op record, finished?, returned value, which latency is yielded
Out(s, op, done, ret, lat) == [s |-> s, op |-> op, done |-> done, ret |-> ret, lat |-> lat]

RECURSIVE FlushNext(_, _, _)
FlushNext(g, s, op) ==
    IF op.lst = <<>> THEN Out(s, op, TRUE, op.cnt, "-")
    ELSE LET k == Head(op.lst) IN
         IF s.cache[k] # 0
         THEN Out(s, [op EXCEPT !.k = k, !.x = s.cache[k], !.lst = Tail(@), !.st = "fland"], FALSE, 0, "WL")
         ELSE FlushNext(g, s, [op EXCEPT !.lst = Tail(@)])

Seg(g, s, op, now) ==
    LET k == op.k IN
    CASE op.kind = "get" /\ op.st = "new" ->
            IF s.cache[k] # 0
            THEN {Out([s EXCEPT !.ps = PAccess(g.pol, @, k)], [op EXCEPT !.st = "hit", !.x = s.cache[k]],
                      FALSE, 0, "CL")}
            ELSE {Out(s, [op EXCEPT !.st = "fetch", !.g0 = s.gen[k]], FALSE, 0, "RL")}
      [] op.kind = "get" /\ op.st = "hit" -> {Out(s, op, TRUE, op.x, "-")}
      [] op.kind = "get" /\ op.st = "fetch" ->
            LET val == s.back[k]
                stale == s.gen[k] # op.g0 \/ s.pend[k] > 0
            IN IF val = 0 THEN {Out(s, op, TRUE, 0, "-")}
               ELSE IF D2 \in g.dev
                    THEN { Out(IF stale THEN Taint(x, k, D2) ELSE x, op, TRUE, val, "-")
                           : x \in CachePut(g, s, k, val, now) }
                    ELSE IF stale THEN {Out(s, op, TRUE, val, "-")}
                         ELSE { Out(x, op, TRUE, val, "-") : x \in CachePut(g, s, k, val, now) }
      [] op.kind = "put" /\ op.st = "new" ->
            { IF g.wt
              THEN Out([x EXCEPT !.gen[k] = @ + 1, !.pend[k] = @ + 1], [op EXCEPT !.st = "bput"], FALSE, 0, "WL")
              ELSE Out([x EXCEPT !.gen[k] = @ + 1, !.dirty = @ \cup {k}], [op EXCEPT !.st = "cwait"],
                       FALSE, 0, "CL")
              : x \in CachePut(g, s, k, op.v, now) }
      [] op.kind = "put" /\ op.st = "bput" ->
            {Out([s EXCEPT !.back[k] = op.v, !.pend[k] = @ - 1], op, TRUE, 0, "-")}
      [] op.kind = "put" /\ op.st = "cwait" -> {Out(s, op, TRUE, 0, "-")}
      [] op.kind = "del" /\ op.st = "new" ->
            IF D6 \in g.dev
            THEN LET exposes == k \in s.dirty /\ s.cache[k] # 0 /\ s.back[k] # s.cache[k]
                     s1 == IF s.cache[k] # 0 THEN CacheRemove(g, s, k) ELSE s
                 IN {Out(IF exposes THEN Taint(s1, k, D6) ELSE s1,
                         [op EXCEPT !.st = "bdel", !.ex = (s.cache[k] # 0)], FALSE, 0, "DL")}
            ELSE {Out(s, [op EXCEPT !.st = "bdel", !.ex = (s.cache[k] # 0)], FALSE, 0, "DL")}
      [] op.kind = "del" /\ op.st = "bdel" ->
            IF D6 \in g.dev
            THEN {Out([s EXCEPT !.back[k] = 0], op, TRUE, IF op.ex \/ s.back[k] # 0 THEN 1 ELSE 0, "-")}
            ELSE LET s1 == IF s.cache[k] # 0 THEN CacheRemove(g, s, k) ELSE s
                 IN {Out([s1 EXCEPT !.back[k] = 0], op, TRUE,
                         IF op.ex \/ s.back[k] # 0 THEN 1 ELSE 0, "-")}
      [] op.kind = "inv" ->
            {Out(IF s.cache[k] # 0 THEN CacheRemove(g, s, k) ELSE s, op, TRUE, 0, "-")}
      [] op.kind = "invall" ->
            {Out([s EXCEPT !.cache = [j \in DOMAIN s.cache |-> 0], !.dirty = {},
                           !.ps = PClear(g.pol, s.ps)], op, TRUE, 0, "-")}
      [] op.kind = "flush" /\ op.st = "new" -> {FlushNext(g, s, op)}
      [] op.kind = "flush" /\ op.st = "fland" ->
            LET cur == IF s.cache[k] # 0 THEN s.cache[k] ELSE s.back[k]
                s1 == IF D3 \in g.dev
                      THEN LET w == [s EXCEPT !.back[k] = op.x, !.dirty = @ \ {k}]
                           IN IF cur # op.x THEN Taint(w, k, D3) ELSE w
                      ELSE IF k \in s.dirty /\ s.cache[k] # 0
                           THEN [s EXCEPT !.back[k] = s.cache[k], !.dirty = @ \ {k}]
                           ELSE s
                written == D3 \in g.dev \/ (k \in s.dirty /\ s.cache[k] # 0)
            IN {FlushNext(g, s1, [op EXCEPT !.cnt = IF written THEN @ + 1 ELSE @])}
      [] OTHER -> {Out(s, op, TRUE, 0, "-")}

\* ---------------------------------------------------------------- contract
\* History of writes: records [k, v, s, e, done, kind] with kind in {"init","put","del"}; s / e are
\* positions in the global order of segments at which the operation was invoked / completed.
\* A delete is a write of "absent" (0) that never supersedes a put (the statement only speaks of
\* writes; a delete is admitted as "a later one").
InitHist(g, back0) == [k \in KeysOf(g) |-> <<[v |-> back0[k], s |-> 0, e |-> 0, done |-> TRUE, kind |-> "init"]>>]

\* values a read of k issued at position `issue` may return
Allowed(hk, issue) ==
    LET W == 1..Len(hk)
        before == { j \in W : hk[j].kind = "put" /\ hk[j].done /\ hk[j].e < issue }
        \* write i is older than the completed put j: it completed before j was invoked, or (puts only) it was
        \* invoked earlier AND completed earlier than j - two overlapping puts are ordered when both ends agree;
        \* a delete overlapping a put may take effect on either side of it
        Superseded(i) == \E j \in before : /\ hk[i].done
                                            /\ \/ hk[i].e < hk[j].s
                                               \/ (hk[i].kind # "del" /\ hk[i].s < hk[j].s /\ hk[i].e < hk[j].e)
    IN { hk[i].v : i \in { i \in W : ~Superseded(i) } }

ReadOK(h, k, issue, ret) == ret \in Allowed(h[k], issue)
Infinity == 1000000
\* "write-back data reaches the backing store": after a flush at quiescence the backing store holds,
\* for every key, a value that no completed write has superseded
BackingOK(h, back) == \A k \in DOMAIN back : back[k] \in Allowed(h[k], Infinity)

InvCapacityS(g, s) == Cardinality(CachedKeys(s)) <= g.cap
InvPolicyKeysS(g, s) == PTracked(g.pol, s.ps) = CachedKeys(s)
=============================================================================
