------------------------------ MODULE CacheMC ------------------------------
(* Timed exhaustive exploration of Cache.tla: NP client processes, each      *)
(* performing NOps[p] operations chosen by TLC (kind, key, think time before *)
(* the operation), run by a discrete-event scheduler with the latencies CL   *)
(* (cache), RL/WL/DL (backing read/write/delete).  Events at equal times run *)
(* in creation order (the engine's rule, C01), so every behaviour explored   *)
(* here is the execution of a concrete program on the real engine.           *)
(* After all clients are done a finale runs alone: flush(), then get(k) for  *)
(* every key (observation point "backing store contents after flush").       *)
(*                                                                           *)
(* Contract (C16):                                                           *)
(*   InvCapacity      (a) the cache never holds more than its capacity       *)
(*   InvPolicyKeys    (b) keys tracked by the eviction policy = keys cached  *)
(*   InvReadFresh     (c) a read issued after a write to the key completed   *)
(*                        returns that write's value or a later one          *)
(*   InvBackingFinal  (d) after the final flush the backing store holds an   *)
(*                        unsuperseded value for every key                   *)
EXTENDS Cache

CONSTANTS K, Cap, Pol, Dev, NP, N1, N2, N3, Kinds, Pre, TTLv, SS,
          Scens     \* scenario ids explored (write mode + latencies + think times), chosen in Init

NOps == <<N1, N2, N3>>
Back0 == [k \in 1..K |-> IF k \in Pre THEN 100 + k ELSE 0]   \* keys in Pre are in the backing store initially

\* mirrored by SCENARIOS in harness/families/c16.py
Scen(i) ==
    CASE i = 1 -> [wt |-> FALSE, CL |-> 1, RL |-> 2, WL |-> 2, DL |-> 2, gaps |-> {0, 1}]
      [] i = 2 -> [wt |-> TRUE,  CL |-> 1, RL |-> 2, WL |-> 2, DL |-> 2, gaps |-> {0, 1}]
      [] i = 3 -> [wt |-> FALSE, CL |-> 1, RL |-> 1, WL |-> 3, DL |-> 3, gaps |-> {0, 2}]
      [] i = 4 -> [wt |-> TRUE,  CL |-> 1, RL |-> 1, WL |-> 3, DL |-> 3, gaps |-> {0, 2}]
      [] i = 5 -> [wt |-> FALSE, CL |-> 1, RL |-> 3, WL |-> 1, DL |-> 2, gaps |-> {0, 1, 2}]
      [] i = 6 -> [wt |-> TRUE,  CL |-> 1, RL |-> 3, WL |-> 1, DL |-> 2, gaps |-> {0, 1, 2}]
      [] i = 7 -> [wt |-> FALSE, CL |-> 0, RL |-> 2, WL |-> 2, DL |-> 1, gaps |-> {0, 1}]
      [] i = 8 -> [wt |-> TRUE,  CL |-> 0, RL |-> 2, WL |-> 2, DL |-> 1, gaps |-> {0, 1}]
      \* 9: the window of two overlapping write-through puts (landing at 3 and 4), a removal and a fetch of 1 tick
      [] i = 9 -> [wt |-> TRUE,  CL |-> 1, RL |-> 1, WL |-> 3, DL |-> 3, gaps |-> {0, 1}]
Keys == 1..K
Procs == 1..NP
FIN == NP + 1

VARIABLES sc,     \* scenario (constant along a behaviour)
          s,      \* Cache.tla state
          ops,    \* [Procs \cup {FIN} -> op record]
          heap,   \* set of [t, q, p]: process p resumes at time t (q = creation counter)
          now, ctr,
          left,   \* [Procs -> operations still to start]
          h,      \* write history (contract ghost)
          st0,    \* [Procs \cup {FIN} -> position at which the op in flight was invoked]
          idx,    \* number of segments executed so far
          reads,  \* completed reads [k, s, ret]
          nv,     \* values written so far (values are 1, 2, ...; initial backing values are 100+k)
          fin,    \* finale script position (0 = not started)
          finalBack,
          plog    \* [Procs -> Seq(choice)]: the program chosen so far (read back by the harness)
vars == <<sc, s, ops, heap, now, ctr, left, h, st0, idx, reads, nv, fin, finalBack, plog>>
View == <<sc, s, ops, heap, now, ctr, left, h, st0, idx, reads, nv, fin, finalBack>>

G == [K |-> K, cap |-> Cap, wt |-> Scen(sc).wt, pol |-> Pol, dev |-> Dev,
      par |-> [ttl |-> TTLv, ss |-> SS, a1max |-> 50]]
WT == Scen(sc).wt
Lat(l) == CASE l = "CL" -> Scen(sc).CL [] l = "RL" -> Scen(sc).RL [] l = "WL" -> Scen(sc).WL
            [] l = "DL" -> Scen(sc).DL [] OTHER -> 0

\* a WB-mode invalidate of a dirty key (an explicit request to drop unflushed data) is outside the
\* statement; clients do not issue it
ChoicesOf(i) == { c \in [kind : Kinds, k : Keys, gap : Scen(i).gaps] :
                    /\ (c.kind \in {"flush", "invall"} => c.k = 1)
                    /\ (c.kind = "flush" => ~Scen(i).wt) }
Choices == ChoicesOf(sc)

RECURSIVE Perms(_)
Perms(S) == IF S = {} THEN {<<>>} ELSE UNION { { <<x>> \o q : q \in Perms(S \ {x}) } : x \in S }

Init ==
    /\ sc \in Scens
    /\ s = InitS([K |-> K], Back0) /\ now = 0 /\ ctr = NP /\ idx = 0 /\ reads = {} /\ nv = 0 /\ fin = 0
    /\ finalBack = <<>>
    /\ h = InitHist([K |-> K], Back0)
    /\ left = [p \in Procs |-> NOps[p]]
    /\ st0 = [p \in Procs \cup {FIN} |-> 0]
    /\ \E c \in [Procs -> Choices] :
          /\ ops = [p \in Procs \cup {FIN} |-> IF p = FIN THEN NoOp ELSE NewOp(c[p].kind, c[p].k, 0, <<>>)]
          /\ heap = { [t |-> c[p].gap, q |-> p, p |-> p] : p \in Procs }
          /\ plog = [p \in Procs |-> <<c[p]>>]

MinEntry == CHOOSE e \in heap : \A f \in heap : e.t < f.t \/ (e.t = f.t /\ e.q <= f.q)

FinScript == <<"flush">> \o [i \in 1..K |-> "get"]
FinOp(i) == IF i = 1 THEN NewOp("flush", 1, 0, <<>>) ELSE NewOp("get", i - 1, 0, <<>>)

\* history updates at invocation / completion of an operation
HStart(hh, op, v, pos) ==
    IF op.kind = "put" THEN [hh EXCEPT ![op.k] = Append(@, [v |-> v, s |-> pos, e |-> 0, done |-> FALSE, kind |-> "put"])]
    ELSE IF op.kind = "del" THEN [hh EXCEPT ![op.k] = Append(@, [v |-> 0, s |-> pos, e |-> 0, done |-> FALSE, kind |-> "del"])]
    ELSE hh
HEnd(hh, op, v, spos, pos) ==
    IF op.kind \in {"put", "del"}
    THEN [hh EXCEPT ![op.k] = [i \in 1..Len(@) |-> IF @[i].s = spos /\ ~@[i].done
                                                     THEN [@[i] EXCEPT !.e = pos, !.done = TRUE] ELSE @[i]]]
    ELSE hh

Run ==
    /\ heap # {}
    /\ LET e == MinEntry
           p == e.p
           pos == idx + 1
           op0 == ops[p]
           starting == op0.st = "new"
           skip == starting /\ ~WT /\ ((op0.kind = "inv" /\ op0.k \in s.dirty) \/ (op0.kind = "invall" /\ s.dirty # {}))
           v == IF starting /\ op0.kind = "put" THEN nv + 1 ELSE op0.v
           lsts == IF starting /\ op0.kind = "flush" THEN Perms(s.dirty) ELSE {op0.lst}
       IN \E l \in lsts :
          \E o \in (IF skip THEN {Out(s, op0, TRUE, 0, "-")} ELSE Seg(G, s, [op0 EXCEPT !.v = v, !.lst = l], e.t)) :
            LET spos == IF starting THEN pos ELSE st0[p]
                h1 == IF starting /\ ~skip THEN HStart(h, op0, v, pos) ELSE h
                h2 == IF o.done /\ ~skip THEN HEnd(h1, op0, v, spos, pos) ELSE h1
            IN
            /\ sc' = sc /\ now' = e.t /\ idx' = pos /\ s' = o.s
            /\ nv' = IF starting /\ op0.kind = "put" THEN nv + 1 ELSE nv
            /\ h' = h2
            /\ st0' = [st0 EXCEPT ![p] = spos]
            /\ reads' = IF o.done /\ op0.kind = "get" THEN reads \cup {[k |-> op0.k, s |-> spos, ret |-> o.ret]}
                        ELSE reads
            /\ finalBack' = IF o.done /\ p = FIN /\ op0.kind = "flush" THEN o.s.back ELSE finalBack
            /\ IF ~o.done
               THEN /\ ops' = [ops EXCEPT ![p] = o.op]
                    /\ heap' = (heap \ {e}) \cup {[t |-> e.t + Lat(o.lat), q |-> ctr + 1, p |-> p]}
                    /\ ctr' = ctr + 1 /\ UNCHANGED <<left, fin, plog>>
               ELSE IF p = FIN
                    THEN /\ left' = left /\ ctr' = ctr + 1 /\ plog' = plog
                         /\ IF fin < Len(FinScript)
                            THEN /\ fin' = fin + 1 /\ ops' = [ops EXCEPT ![p] = FinOp(fin + 1)]
                                 /\ heap' = (heap \ {e}) \cup {[t |-> e.t, q |-> ctr + 1, p |-> p]}
                            ELSE /\ fin' = fin /\ ops' = [ops EXCEPT ![p] = NoOp] /\ heap' = heap \ {e}
                    ELSE LET l1 == [left EXCEPT ![p] = @ - 1]
                             alldone == (\A q \in Procs : l1[q] = 0) /\ (heap \ {e}) = {}
                         IN /\ left' = l1 /\ ctr' = ctr + 1
                            /\ IF l1[p] > 0
                               THEN /\ \E c \in Choices :
                                          /\ ops' = [ops EXCEPT ![p] = NewOp(c.kind, c.k, 0, <<>>)]
                                          /\ plog' = [plog EXCEPT ![p] = Append(@, c)]
                                          /\ heap' = (heap \ {e}) \cup {[t |-> e.t + c.gap, q |-> ctr + 1, p |-> p]}
                                    /\ fin' = fin
                               ELSE /\ plog' = plog
                                    /\ IF alldone
                                       THEN /\ fin' = 1
                                            /\ ops' = [ops EXCEPT ![p] = NoOp, ![FIN] = FinOp(1)]
                                            /\ heap' = {[t |-> e.t + 10, q |-> ctr + 1, p |-> FIN]}
                                       ELSE /\ fin' = fin /\ ops' = [ops EXCEPT ![p] = NoOp]
                                            /\ heap' = heap \ {e}

Next == Run
Spec == Init /\ [][Next]_vars

InvCapacity == InvCapacityS(G, s)
InvPolicyKeys == InvPolicyKeysS(G, s)
InvReadFresh == \A r \in reads : ReadOK(h, r.k, r.s, r.ret)
InvBackingFinal == finalBack # <<>> => BackingOK(h, finalBack)
Done == heap = {}
=============================================================================
