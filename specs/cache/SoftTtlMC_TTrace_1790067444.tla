---- MODULE SoftTtlMC_TTrace_1790067444 ----
EXTENDS Sequences, TLCExt, Toolbox, Naturals, TLC, SoftTtlMC

_expression ==
    LET SoftTtlMC_TEExpression == INSTANCE SoftTtlMC_TEExpression
    IN SoftTtlMC_TEExpression!expression
----

_trace ==
    LET SoftTtlMC_TETrace == INSTANCE SoftTtlMC_TETrace
    IN SoftTtlMC_TETrace!trace
----

_inv ==
    ~(
        TLCGet("level") = Len(_TETrace)
        /\
        ctr = (5)
        /\
        plog = (<<<<[k |-> 1, kind |-> "get", gap |-> 0], [k |-> 1, kind |-> "inv", gap |-> 0]>>, <<[k |-> 1, kind |-> "get", gap |-> 3]>>>>)
        /\
        reads = ({[k |-> 1, s |-> 1, ret |-> 101]})
        /\
        nv = (0)
        /\
        h = (<<<<[s |-> 0, kind |-> "init", e |-> 0, v |-> 101, done |-> TRUE]>>, <<[s |-> 0, kind |-> "init", e |-> 0, v |-> 0, done |-> TRUE]>>>>)
        /\
        fin = (0)
        /\
        st0 = (<<<<3, 2>>, <<0, 0>>, <<0, 0>>>>)
        /\
        s = ([val |-> <<0, 0>>, at |-> <<0, 0>>, ord |-> <<1>>, rfr |-> {}, back |-> <<101, 0>>])
        /\
        ops = (<<[k |-> 0, kind |-> "none", v |-> 0, st |-> "new", x |-> 0, xat |-> 0], [k |-> 1, kind |-> "get", v |-> 0, st |-> "new", x |-> 0, xat |-> 0], [k |-> 0, kind |-> "none", v |-> 0, st |-> "new", x |-> 0, xat |-> 0]>>)
        /\
        left = (<<0, 1>>)
        /\
        now = (2)
        /\
        served = ({})
        /\
        heap = ({[p |-> 2, t |-> 3, q |-> 2]})
        /\
        idx = (3)
    )
----

_init ==
    /\ heap = _TETrace[1].heap
    /\ reads = _TETrace[1].reads
    /\ st0 = _TETrace[1].st0
    /\ ctr = _TETrace[1].ctr
    /\ nv = _TETrace[1].nv
    /\ h = _TETrace[1].h
    /\ s = _TETrace[1].s
    /\ now = _TETrace[1].now
    /\ left = _TETrace[1].left
    /\ served = _TETrace[1].served
    /\ fin = _TETrace[1].fin
    /\ idx = _TETrace[1].idx
    /\ ops = _TETrace[1].ops
    /\ plog = _TETrace[1].plog
----

_next ==
    /\ \E i,j \in DOMAIN _TETrace:
        /\ \/ /\ j = i + 1
              /\ i = TLCGet("level")
        /\ heap  = _TETrace[i].heap
        /\ heap' = _TETrace[j].heap
        /\ reads  = _TETrace[i].reads
        /\ reads' = _TETrace[j].reads
        /\ st0  = _TETrace[i].st0
        /\ st0' = _TETrace[j].st0
        /\ ctr  = _TETrace[i].ctr
        /\ ctr' = _TETrace[j].ctr
        /\ nv  = _TETrace[i].nv
        /\ nv' = _TETrace[j].nv
        /\ h  = _TETrace[i].h
        /\ h' = _TETrace[j].h
        /\ s  = _TETrace[i].s
        /\ s' = _TETrace[j].s
        /\ now  = _TETrace[i].now
        /\ now' = _TETrace[j].now
        /\ left  = _TETrace[i].left
        /\ left' = _TETrace[j].left
        /\ served  = _TETrace[i].served
        /\ served' = _TETrace[j].served
        /\ fin  = _TETrace[i].fin
        /\ fin' = _TETrace[j].fin
        /\ idx  = _TETrace[i].idx
        /\ idx' = _TETrace[j].idx
        /\ ops  = _TETrace[i].ops
        /\ ops' = _TETrace[j].ops
        /\ plog  = _TETrace[i].plog
        /\ plog' = _TETrace[j].plog

\* Uncomment the ASSUME below to write the states of the error trace
\* to the given file in Json format. Note that you can pass any tuple
\* to `JsonSerialize`. For example, a sub-sequence of _TETrace.
    \* ASSUME
    \*     LET J == INSTANCE Json
    \*         IN J!JsonSerialize("SoftTtlMC_TTrace_1790067444.json", _TETrace)

=============================================================================

 Note that you can extract this module `SoftTtlMC_TEExpression`
  to a dedicated file to reuse `expression` (the module in the 
  dedicated `SoftTtlMC_TEExpression.tla` file takes precedence 
  over the module `SoftTtlMC_TEExpression` below).

---- MODULE SoftTtlMC_TEExpression ----
EXTENDS Sequences, TLCExt, Toolbox, Naturals, TLC, SoftTtlMC

expression == 
    [
        \* To hide variables of the `SoftTtlMC` spec from the error trace,
        \* remove the variables below.  The trace will be written in the order
        \* of the fields of this record.
        heap |-> heap
        ,reads |-> reads
        ,st0 |-> st0
        ,ctr |-> ctr
        ,nv |-> nv
        ,h |-> h
        ,s |-> s
        ,now |-> now
        ,left |-> left
        ,served |-> served
        ,fin |-> fin
        ,idx |-> idx
        ,ops |-> ops
        ,plog |-> plog
        
        \* Put additional constant-, state-, and action-level expressions here:
        \* ,_stateNumber |-> _TEPosition
        \* ,_heapUnchanged |-> heap = heap'
        
        \* Format the `heap` variable as Json value.
        \* ,_heapJson |->
        \*     LET J == INSTANCE Json
        \*     IN J!ToJson(heap)
        
        \* Lastly, you may build expressions over arbitrary sets of states by
        \* leveraging the _TETrace operator.  For example, this is how to
        \* count the number of times a spec variable changed up to the current
        \* state in the trace.
        \* ,_heapModCount |->
        \*     LET F[s \in DOMAIN _TETrace] ==
        \*         IF s = 1 THEN 0
        \*         ELSE IF _TETrace[s].heap # _TETrace[s-1].heap
        \*             THEN 1 + F[s-1] ELSE F[s-1]
        \*     IN F[_TEPosition - 1]
    ]

=============================================================================



Parsing and semantic processing can take forever if the trace below is long.
 In this case, it is advised to uncomment the module below to deserialize the
 trace from a generated binary file.

\*
\*---- MODULE SoftTtlMC_TETrace ----
\*EXTENDS IOUtils, TLC, SoftTtlMC
\*
\*trace == IODeserialize("SoftTtlMC_TTrace_1790067444.bin", TRUE)
\*
\*=============================================================================
\*

---- MODULE SoftTtlMC_TETrace ----
EXTENDS TLC, SoftTtlMC

trace == 
    <<
    ([ctr |-> 2,plog |-> <<<<[k |-> 1, kind |-> "get", gap |-> 0]>>, <<[k |-> 1, kind |-> "get", gap |-> 3]>>>>,reads |-> {},nv |-> 0,h |-> <<<<[s |-> 0, kind |-> "init", e |-> 0, v |-> 101, done |-> TRUE]>>, <<[s |-> 0, kind |-> "init", e |-> 0, v |-> 0, done |-> TRUE]>>>>,fin |-> 0,st0 |-> <<<<0, 0>>, <<0, 0>>, <<0, 0>>>>,s |-> [val |-> <<0, 0>>, at |-> <<0, 0>>, ord |-> <<>>, rfr |-> {}, back |-> <<101, 0>>],ops |-> <<[k |-> 1, kind |-> "get", v |-> 0, st |-> "new", x |-> 0, xat |-> 0], [k |-> 1, kind |-> "get", v |-> 0, st |-> "new", x |-> 0, xat |-> 0], [k |-> 0, kind |-> "none", v |-> 0, st |-> "new", x |-> 0, xat |-> 0]>>,left |-> <<2, 1>>,now |-> 0,served |-> {},heap |-> {[p |-> 1, t |-> 0, q |-> 1], [p |-> 2, t |-> 3, q |-> 2]},idx |-> 0]),
    ([ctr |-> 3,plog |-> <<<<[k |-> 1, kind |-> "get", gap |-> 0]>>, <<[k |-> 1, kind |-> "get", gap |-> 3]>>>>,reads |-> {},nv |-> 0,h |-> <<<<[s |-> 0, kind |-> "init", e |-> 0, v |-> 101, done |-> TRUE]>>, <<[s |-> 0, kind |-> "init", e |-> 0, v |-> 0, done |-> TRUE]>>>>,fin |-> 0,st0 |-> <<<<1, 0>>, <<0, 0>>, <<0, 0>>>>,s |-> [val |-> <<0, 0>>, at |-> <<0, 0>>, ord |-> <<>>, rfr |-> {}, back |-> <<101, 0>>],ops |-> <<[k |-> 1, kind |-> "get", v |-> 0, st |-> "fetch", x |-> 0, xat |-> 0], [k |-> 1, kind |-> "get", v |-> 0, st |-> "new", x |-> 0, xat |-> 0], [k |-> 0, kind |-> "none", v |-> 0, st |-> "new", x |-> 0, xat |-> 0]>>,left |-> <<2, 1>>,now |-> 0,served |-> {},heap |-> {[p |-> 1, t |-> 2, q |-> 3], [p |-> 2, t |-> 3, q |-> 2]},idx |-> 1]),
    ([ctr |-> 4,plog |-> <<<<[k |-> 1, kind |-> "get", gap |-> 0], [k |-> 1, kind |-> "inv", gap |-> 0]>>, <<[k |-> 1, kind |-> "get", gap |-> 3]>>>>,reads |-> {[k |-> 1, s |-> 1, ret |-> 101]},nv |-> 0,h |-> <<<<[s |-> 0, kind |-> "init", e |-> 0, v |-> 101, done |-> TRUE]>>, <<[s |-> 0, kind |-> "init", e |-> 0, v |-> 0, done |-> TRUE]>>>>,fin |-> 0,st0 |-> <<<<1, 0>>, <<0, 0>>, <<0, 0>>>>,s |-> [val |-> <<101, 0>>, at |-> <<2, 0>>, ord |-> <<1>>, rfr |-> {}, back |-> <<101, 0>>],ops |-> <<[k |-> 1, kind |-> "inv", v |-> 0, st |-> "new", x |-> 0, xat |-> 0], [k |-> 1, kind |-> "get", v |-> 0, st |-> "new", x |-> 0, xat |-> 0], [k |-> 0, kind |-> "none", v |-> 0, st |-> "new", x |-> 0, xat |-> 0]>>,left |-> <<1, 1>>,now |-> 2,served |-> {},heap |-> {[p |-> 1, t |-> 2, q |-> 4], [p |-> 2, t |-> 3, q |-> 2]},idx |-> 2]),
    ([ctr |-> 5,plog |-> <<<<[k |-> 1, kind |-> "get", gap |-> 0], [k |-> 1, kind |-> "inv", gap |-> 0]>>, <<[k |-> 1, kind |-> "get", gap |-> 3]>>>>,reads |-> {[k |-> 1, s |-> 1, ret |-> 101]},nv |-> 0,h |-> <<<<[s |-> 0, kind |-> "init", e |-> 0, v |-> 101, done |-> TRUE]>>, <<[s |-> 0, kind |-> "init", e |-> 0, v |-> 0, done |-> TRUE]>>>>,fin |-> 0,st0 |-> <<<<3, 2>>, <<0, 0>>, <<0, 0>>>>,s |-> [val |-> <<0, 0>>, at |-> <<0, 0>>, ord |-> <<1>>, rfr |-> {}, back |-> <<101, 0>>],ops |-> <<[k |-> 0, kind |-> "none", v |-> 0, st |-> "new", x |-> 0, xat |-> 0], [k |-> 1, kind |-> "get", v |-> 0, st |-> "new", x |-> 0, xat |-> 0], [k |-> 0, kind |-> "none", v |-> 0, st |-> "new", x |-> 0, xat |-> 0]>>,left |-> <<0, 1>>,now |-> 2,served |-> {},heap |-> {[p |-> 2, t |-> 3, q |-> 2]},idx |-> 3])
    >>
----


=============================================================================

---- CONFIG SoftTtlMC_TTrace_1790067444 ----
CONSTANTS
    K = 2
    Cap = 1
    Soft = 2
    Hard = 4
    Dev = { "lru_order_leak" }
    NP = 2
    N1 = 2
    N2 = 1
    Gaps = { 0 , 1 , 3 , 5 }
    Kinds = { "get" , "put" , "inv" }
    CL = 1
    RL = 2
    WL = 2
    Pre = { 1 }

INVARIANT
    _inv

CHECK_DEADLOCK
    \* CHECK_DEADLOCK off because of PROPERTY or INVARIANT above.
    FALSE

INIT
    _init

NEXT
    _next

CONSTANT
    _TETrace <- _trace

ALIAS
    _expression
=============================================================================
\* Generated on Tue Sep 22 08:57:53 UTC 2026