------------------------------- MODULE Tiered -------------------------------
(* Implementation-shaped model of                                            *)
(*   happysimulator/components/datastore/multi_tier_cache.py (MultiTierCache)*)
(* with two write-through CachedStore tiers (L1, L2) over one KVStore, as in *)
(* the module's own example.  Tier internals (_cache_put, _cache_remove, the *)
(* eviction policy) are the operators of Cache.tla.  Segments:               *)
(*   get    GetStart: access_counts[k]++, first tier that holds k -> that    *)
(*          tier's get() hit path (on_access, capture value, yield its cache *)
(*          latency) | no tier holds it -> yield backing read latency.       *)
(*          GetEnd: tier hit: if the hit was below L1 and the promotion      *)
(*          policy allows, L1._cache_put(k, captured value); return it |     *)
(*          backing: read at the end of the latency, L1._cache_put, return.  *)
(*   put    yield backing write latency; PutLand: backing := v, invalidate k *)
(*          in every tier, L1.put(k, v) = L1._cache_put + (write-through) a  *)
(*          second backing write one write latency later; PutEnd.            *)
(*   delete invalidate k in every tier, yield delete latency; DelEnd.        *)
(*   invalidate / invalidate_all.                                            *)
(* State s = [t1, t2 : Cache.tla states (cache, ps, ...), back, acc,         *)
(*            gen : puts landed per key, taint].                             *)
(* g = [K, cap1, cap2, pol, par, promo in {"always","second","never"}, dev]. *)
(* Deviations (what the pinned code does):                                   *)
(*  "tier_promotion_overwrites_newer_write"  a get that hit L2 promotes the  *)
(*      value it captured before its cache latency into L1 even if a put of  *)
(*      the key landed meanwhile (the put invalidated L2 and wrote L1).      *)
(*      Design without it: no promotion if the tier no longer holds k.       *)
(*  "l1_put_rewrites_backing_late"  put() ends with L1.put(), a write-through *)
(*      CachedStore.put over the SAME backing store: the value is written a  *)
(*      second time one write latency after the first write.  When two puts  *)
(*      overlap, the older put's second write lands after the newer put's    *)
(*      first write and rolls the backing store back until the newer put's   *)
(*      own second write; a fetch in that window caches the older value in   *)
(*      L1, which keeps serving it after the newer put completed.            *)
(*      Design without it: L1 is updated (_cache_put) without a second write.*)
EXTENDS Cache

T1 == "tier_promotion_overwrites_newer_write"
T2 == "l1_put_rewrites_backing_late"

TierG(g, i) == [K |-> g.K, cap |-> IF i = 1 THEN g.cap1 ELSE g.cap2, wt |-> TRUE, pol |-> g.pol, par |-> g.par,
                dev |-> {}]
ZeroBack(g) == [k \in 1..g.K |-> 0]
\* l2[k] # 0: L2 is warm with that value, inserted at tick l2t[k] (a client read it through L2 directly)
InitM(g, back0, l2, l2t) ==
    LET e == InitS([K |-> g.K], ZeroBack(g))
        RECURSIVE Fill(_, _)
        Fill(s, ks) == IF ks = {} THEN s
                       ELSE LET k == CHOOSE x \in ks : \A y \in ks : x <= y
                            IN Fill(CHOOSE x \in CachePut(TierG(g, 2), s, k, l2[k], l2t[k]) : TRUE, ks \ {k})
    IN [t1 |-> e, t2 |-> Fill(e, { k \in 1..g.K : l2[k] # 0 }), back |-> back0,
        acc |-> [k \in 1..g.K |-> 0], gen |-> [k \in 1..g.K |-> 0],
        taint |-> [k \in 1..g.K |-> {}]]

MNoOp == [kind |-> "none", k |-> 0, v |-> 0, st |-> "new", x |-> 0, tier |-> 0, g0 |-> 0, ex |-> FALSE]
MNewOp(kind, k, v) == [MNoOp EXCEPT !.kind = kind, !.k = k, !.v = v]
MOut(s, op, done, ret, lat) == [s |-> s, op |-> op, done |-> done, ret |-> ret, lat |-> lat]
MTaint(s, k, d) == [s EXCEPT !.taint[k] = @ \cup {d}]

InvTier(g, t, i, k) == IF t.cache[k] # 0 THEN CacheRemove(TierG(g, i), t, k) ELSE t
InvBoth(g, s, k) == [s EXCEPT !.t1 = InvTier(g, @, 1, k), !.t2 = InvTier(g, @, 2, k)]
ClearTier(g, t) == [t EXCEPT !.cache = [j \in DOMAIN t.cache |-> 0], !.dirty = {}, !.ps = PClear(g.pol, t.ps)]

ShouldPromote(g, s, k) == g.promo = "always" \/ (g.promo = "second" /\ s.acc[k] >= 2)

\* set of outcomes (the tier policies may be nondeterministic)
MSeg(g, s, op, now) ==
    LET k == op.k IN
    CASE op.kind = "get" /\ op.st = "new" ->
            LET s0 == [s EXCEPT !.acc[k] = @ + 1] IN
            IF s.t1.cache[k] # 0
            THEN {MOut([s0 EXCEPT !.t1.ps = PAccess(g.pol, @, k)],
                       [op EXCEPT !.st = "thit", !.tier = 1, !.x = s.t1.cache[k], !.g0 = s.gen[k]], FALSE, 0, "CL1")}
            ELSE IF s.t2.cache[k] # 0
            THEN {MOut([s0 EXCEPT !.t2.ps = PAccess(g.pol, @, k)],
                       [op EXCEPT !.st = "thit", !.tier = 2, !.x = s.t2.cache[k], !.g0 = s.gen[k]], FALSE, 0, "CL2")}
            ELSE {MOut(s0, [op EXCEPT !.st = "fetch"], FALSE, 0, "RL")}
      [] op.kind = "get" /\ op.st = "thit" ->
            IF op.tier = 2 /\ ShouldPromote(g, s, k)
            THEN LET stale == s.t2.cache[k] = 0 IN      \* the tier dropped the key during its latency
                 IF stale /\ T1 \notin g.dev THEN {MOut(s, op, TRUE, op.x, "-")}
                 ELSE { MOut(IF stale THEN MTaint([s EXCEPT !.t1 = x], k, T1) ELSE [s EXCEPT !.t1 = x],
                             op, TRUE, op.x, "-")
                        : x \in CachePut(TierG(g, 1), s.t1, k, op.x, now) }
            ELSE {MOut(s, op, TRUE, op.x, "-")}
      [] op.kind = "get" /\ op.st = "fetch" ->
            IF s.back[k] = 0 THEN {MOut(s, op, TRUE, 0, "-")}
            ELSE { MOut([s EXCEPT !.t1 = x], op, TRUE, s.back[k], "-")
                   : x \in CachePut(TierG(g, 1), s.t1, k, s.back[k], now) }
      [] op.kind = "put" /\ op.st = "new" -> {MOut(s, [op EXCEPT !.st = "bput"], FALSE, 0, "WL")}
      [] op.kind = "put" /\ op.st = "bput" ->
            LET s1 == InvBoth(g, [s EXCEPT !.back[k] = op.v, !.gen[k] = @ + 1], k)
            IN { IF T2 \in g.dev THEN MOut([s1 EXCEPT !.t1 = x], [op EXCEPT !.st = "l1bput"], FALSE, 0, "WL")
                 ELSE MOut([s1 EXCEPT !.t1 = x], op, TRUE, 0, "-")
                 : x \in CachePut(TierG(g, 1), s1.t1, k, op.v, now) }
      [] op.kind = "put" /\ op.st = "l1bput" ->
            \* the late second write: if it changes the backing store it rolls a newer put back
            {MOut(IF s.back[k] # op.v THEN MTaint([s EXCEPT !.back[k] = op.v], k, T2) ELSE s, op, TRUE, 0, "-")}
      [] op.kind = "del" /\ op.st = "new" -> {MOut(InvBoth(g, s, k), [op EXCEPT !.st = "bdel"], FALSE, 0, "DL")}
      [] op.kind = "del" /\ op.st = "bdel" ->
            {MOut([s EXCEPT !.back[k] = 0, !.acc[k] = 0], op, TRUE, 1, "-")}
      [] op.kind = "inv" -> {MOut(InvBoth(g, s, k), op, TRUE, 0, "-")}
      [] op.kind = "invall" ->
            {MOut([s EXCEPT !.t1 = ClearTier(g, @), !.t2 = ClearTier(g, @), !.acc = [j \in DOMAIN s.acc |-> 0]],
                  op, TRUE, 0, "-")}
      [] OTHER -> {MOut(s, op, TRUE, 0, "-")}

InvCapacityM(g, s) == Cardinality(CachedKeys(s.t1)) <= g.cap1 /\ Cardinality(CachedKeys(s.t2)) <= g.cap2
InvPolicyKeysM(g, s) == PTracked(g.pol, s.t1.ps) = CachedKeys(s.t1) /\ PTracked(g.pol, s.t2.ps) = CachedKeys(s.t2)
=============================================================================
