------------------------------ MODULE SoftTtl ------------------------------
(* Implementation-shaped model of                                            *)
(*   happysimulator/components/datastore/soft_ttl_cache.py (SoftTTLCache)    *)
(* in front of an unbounded KVStore (property C16: capacity, LRU bookkeeping *)
(* = cached keys, read-after-write, never serve an entry older than the hard *)
(* TTL).  One operator per generator segment:                                *)
(*   get    GetStart: entry present -> touch LRU; fresh (age < soft): capture*)
(*          the value, yield cache latency; stale (soft <= age < hard):      *)
(*          capture, start a background refresh unless one is in flight      *)
(*          (side-effect event at the same instant), yield cache latency;    *)
(*          expired or absent: hard miss -> if a refresh of the key is in    *)
(*          flight wait one backing read latency (coalesced) else fetch.     *)
(*          GetEnd: return captured | return whatever the cache holds now    *)
(*          (coalesced) | read backing at the end of the latency, _store.    *)
(*   put    yield backing write latency; PutEnd: backing := v, _store(k, v)  *)
(*   invalidate / invalidate_all (plain calls)                               *)
(*   refresh (the cache's own handle_event): yield backing read latency;     *)
(*          RefreshEnd: read backing, _store, refreshing.discard             *)
(* State s = [val, at : [1..K -> Nat] (value 0 = absent, cached_at tick),    *)
(*            ord : LRU list (head = least recent), rfr : refreshing keys,   *)
(*            back].   g = [K, cap (0 = unbounded), soft, hard, dev].        *)
(* Deviations:                                                               *)
(*   "coalesced_miss_returns_none"  (what the pinned code does) a get that   *)
(*        joined an in-flight refresh returns None when the key is not in    *)
(*        the cache after the wait (refreshed entry invalidated or evicted   *)
(*        meanwhile) although the backing store holds it.  Design without    *)
(*        it: such a get falls back to a blocking fetch.                     *)
(*   hypothetical:                                                           *)
(*   "serve_expired"     get serves a present entry whatever its age         *)
(*   "lru_order_leak"    invalidate forgets the access-order list            *)
(*   "store_skips_evict" _store inserts without evicting                     *)
EXTENDS Naturals, Integers, Sequences, FiniteSets, TLC

DC == "coalesced_miss_returns_none"
SeqSet(q) == { q[i] : i \in 1..Len(q) }
Has(q, x) == \E i \in 1..Len(q) : q[i] = x
RemoveFirst(q, x) ==
    IF ~Has(q, x) THEN q
    ELSE LET i == CHOOSE i \in 1..Len(q) : q[i] = x /\ \A j \in 1..(i - 1) : q[j] # x
         IN SubSeq(q, 1, i - 1) \o SubSeq(q, i + 1, Len(q))

InitT(g, back0) == [val |-> [k \in 1..g.K |-> 0], at |-> [k \in 1..g.K |-> 0], ord |-> <<>>, rfr |-> {},
                    back |-> back0]
Cached(s) == { k \in DOMAIN s.val : s.val[k] # 0 }

RECURSIVE EvictUntil(_, _, _)
EvictUntil(g, s, fuel) ==
    IF Cardinality(Cached(s)) < g.cap \/ s.ord = <<>> \/ fuel = 0 THEN s
    ELSE LET k == Head(s.ord)
         IN EvictUntil(g, [s EXCEPT !.ord = Tail(@), !.val[k] = 0, !.at[k] = 0], fuel - 1)

Store(g, s, k, v, now) ==
    LET s1 == IF g.cap > 0 /\ s.val[k] = 0 /\ "store_skips_evict" \notin g.dev THEN EvictUntil(g, s, g.K + 2) ELSE s
    IN [s1 EXCEPT !.ord = Append(RemoveFirst(@, k), k), !.val[k] = v, !.at[k] = now]

Touch(s, k) == IF Has(s.ord, k) THEN [s EXCEPT !.ord = Append(RemoveFirst(@, k), k)] ELSE s

NoOp == [kind |-> "none", k |-> 0, v |-> 0, st |-> "new", x |-> 0, xat |-> 0]
NewOp(kind, k, v) == [NoOp EXCEPT !.kind = kind, !.k = k, !.v = v]
\* outcome: state, op, finished, returned value, latency yielded, refresh spawned for key (0 = none),
\* entry served from the cache <<value, cached_at>> (<<0, 0>> = none)
Out(s, op, done, ret, lat, spawn, served) ==
    [s |-> s, op |-> op, done |-> done, ret |-> ret, lat |-> lat, spawn |-> spawn, served |-> served]

Seg(g, s, op, now) ==
    LET k == op.k IN
    CASE op.kind = "get" /\ op.st = "new" ->
            LET present == s.val[k] # 0
                s1 == IF present THEN Touch(s, k) ELSE s
                age == now - s.at[k]
                miss == IF k \in s.rfr THEN Out(s1, [op EXCEPT !.st = "coal"], FALSE, 0, "RL", 0, <<0, 0>>)
                        ELSE Out(s1, [op EXCEPT !.st = "fetch"], FALSE, 0, "RL", 0, <<0, 0>>)
                hit == [op EXCEPT !.st = "chit", !.x = s.val[k], !.xat = s.at[k]]
            IN IF present /\ age < g.soft THEN Out(s1, hit, FALSE, 0, "CL", 0, <<0, 0>>)
               ELSE IF present /\ (age < g.hard \/ "serve_expired" \in g.dev)
                    THEN IF k \in s.rfr THEN Out(s1, hit, FALSE, 0, "CL", 0, <<0, 0>>)
                         ELSE Out([s1 EXCEPT !.rfr = @ \cup {k}], hit, FALSE, 0, "CL", k, <<0, 0>>)
               ELSE miss
      [] op.kind = "get" /\ op.st = "chit" -> Out(s, op, TRUE, op.x, "-", 0, <<op.x, op.xat>>)
      [] op.kind = "get" /\ op.st = "coal" ->
            IF s.val[k] = 0 /\ DC \notin g.dev
            THEN Out(s, [op EXCEPT !.st = "fetch"], FALSE, 0, "RL", 0, <<0, 0>>)
            ELSE Out(s, op, TRUE, s.val[k], "-", 0, <<s.val[k], s.at[k]>>)
      [] op.kind = "get" /\ op.st = "fetch" ->
            Out(IF s.back[k] # 0 THEN Store(g, s, k, s.back[k], now) ELSE s, op, TRUE, s.back[k], "-", 0, <<0, 0>>)
      [] op.kind = "put" /\ op.st = "new" -> Out(s, [op EXCEPT !.st = "bput"], FALSE, 0, "WL", 0, <<0, 0>>)
      [] op.kind = "put" /\ op.st = "bput" ->
            Out(Store(g, [s EXCEPT !.back[k] = op.v], k, op.v, now), op, TRUE, 0, "-", 0, <<0, 0>>)
      [] op.kind = "inv" ->
            Out(IF s.val[k] # 0
                THEN [s EXCEPT !.val[k] = 0, !.at[k] = 0,
                               !.ord = IF "lru_order_leak" \in g.dev THEN @ ELSE RemoveFirst(@, k)]
                ELSE s, op, TRUE, 0, "-", 0, <<0, 0>>)
      [] op.kind = "invall" ->
            Out([s EXCEPT !.val = [j \in DOMAIN s.val |-> 0], !.at = [j \in DOMAIN s.val |-> 0],
                          !.ord = <<>>, !.rfr = {}], op, TRUE, 0, "-", 0, <<0, 0>>)
      [] op.kind = "refresh" /\ op.st = "new" -> Out(s, [op EXCEPT !.st = "rget"], FALSE, 0, "RL", 0, <<0, 0>>)
      [] op.kind = "refresh" /\ op.st = "rget" ->
            LET s1 == IF s.back[k] # 0 THEN Store(g, s, k, s.back[k], now) ELSE s
            IN Out([s1 EXCEPT !.rfr = @ \ {k}], op, TRUE, 0, "-", 0, <<0, 0>>)
      [] OTHER -> Out(s, op, TRUE, 0, "-", 0, <<0, 0>>)

\* ---------------------------------------------------------------- contract
\* write history per key: [v, s, e, done, kind]; only puts here (SoftTTLCache has no delete)
InitHist(g, back0) == [k \in 1..g.K |-> <<[v |-> back0[k], s |-> 0, e |-> 0, done |-> TRUE, kind |-> "init"]>>]
Allowed(hk, issue) ==
    LET W == 1..Len(hk)
        before == { j \in W : hk[j].kind = "put" /\ hk[j].done /\ hk[j].e < issue }
        Superseded(i) == \E j \in before : hk[i].done /\ hk[i].s < hk[j].s /\ hk[i].e < hk[j].e
    IN { hk[i].v : i \in { i \in W : ~Superseded(i) } }
ReadOK(h, k, issue, ret) == ret \in Allowed(h[k], issue)

InvCapacityT(g, s) == g.cap > 0 => Cardinality(Cached(s)) <= g.cap
InvOrderKeysT(g, s) == SeqSet(s.ord) = Cached(s) /\ Cardinality(SeqSet(s.ord)) = Len(s.ord)
\* an entry served from the cache was at most hard-TTL old when the get was issued
ServedOK(g, issueT, served) == served[1] = 0 \/ issueT - served[2] <= g.hard
=============================================================================
