----------------------------- MODULE SoftTtlMC -----------------------------
(* Timed exhaustive exploration of SoftTtl.tla: NP client processes whose    *)
(* operations (get/put/invalidate, key, think time) TLC chooses, plus the    *)
(* background refresh tasks the cache spawns itself, run by a discrete-event *)
(* scheduler (equal times: creation order).  Finale: get(k) for every key.   *)
(* Contract: InvCapacity, InvOrderKeys, InvReadFresh, InvHardTtl.            *)
EXTENDS SoftTtl

CONSTANTS K, Cap, Soft, Hard, Dev, NP, N1, N2, Gaps, Kinds, CL, RL, WL, Pre

G == [K |-> K, cap |-> Cap, soft |-> Soft, hard |-> Hard, dev |-> Dev]
NOps == <<N1, N2>>
Back0 == [k \in 1..K |-> IF k \in Pre THEN 100 + k ELSE 0]
Keys == 1..K
Procs == 1..NP
FIN == NP + 1
IsTask(p) == p > 100

VARIABLES s, ops, heap, now, ctr, left, h, st0, idx, reads, served, nv, fin, plog
vars == <<s, ops, heap, now, ctr, left, h, st0, idx, reads, served, nv, fin, plog>>
View == <<s, ops, heap, now, ctr, left, h, st0, idx, reads, served, nv, fin>>

Lat(l) == CASE l = "CL" -> CL [] l = "RL" -> RL [] l = "WL" -> WL [] OTHER -> 0
Choices == { c \in [kind : Kinds, k : Keys, gap : Gaps] : c.kind = "invall" => c.k = 1 }

Init ==
    /\ s = InitT(G, Back0) /\ now = 0 /\ ctr = NP /\ idx = 0 /\ reads = {} /\ served = {} /\ nv = 0 /\ fin = 0
    /\ h = InitHist(G, Back0)
    /\ left = [p \in Procs |-> NOps[p]]
    /\ st0 = [p \in Procs \cup {FIN} |-> <<0, 0>>]
    /\ \E c \in [Procs -> Choices] :
          /\ ops = [p \in Procs \cup {FIN} |-> IF p = FIN THEN NoOp ELSE NewOp(c[p].kind, c[p].k, 0)]
          /\ heap = { [t |-> c[p].gap, q |-> p, p |-> p] : p \in Procs }
          /\ plog = [p \in Procs |-> <<c[p]>>]

MinEntry == CHOOSE e \in heap : \A f \in heap : e.t < f.t \/ (e.t = f.t /\ e.q <= f.q)

HStart(hh, op, v, pos) ==
    IF op.kind = "put" THEN [hh EXCEPT ![op.k] = Append(@, [v |-> v, s |-> pos, e |-> 0, done |-> FALSE, kind |-> "put"])]
    ELSE hh
HEnd(hh, op, spos, pos) ==
    IF op.kind = "put"
    THEN [hh EXCEPT ![op.k] = [i \in 1..Len(@) |-> IF @[i].s = spos /\ ~@[i].done
                                                     THEN [@[i] EXCEPT !.e = pos, !.done = TRUE] ELSE @[i]]]
    ELSE hh

Run ==
    /\ heap # {}
    /\ LET e == MinEntry
           p == e.p
           pos == idx + 1
           op0 == ops[p]
           starting == op0.st = "new"
           v == IF starting /\ op0.kind = "put" THEN nv + 1 ELSE op0.v
           o == Seg(G, s, [op0 EXCEPT !.v = v], e.t)
           sp == IF starting THEN <<pos, e.t>> ELSE st0[p]
           h1 == IF starting THEN HStart(h, op0, v, pos) ELSE h
           h2 == IF o.done THEN HEnd(h1, op0, sp[1], pos) ELSE h1
           \* a refresh spawned by this segment: new task id, scheduled at the same instant, created
           \* before the continuation
           tid == 100 + ctr + 1
           spawned == o.spawn # 0
           c1 == IF spawned THEN ctr + 1 ELSE ctr
           heap1 == IF spawned THEN (heap \ {e}) \cup {[t |-> e.t, q |-> c1, p |-> tid]} ELSE heap \ {e}
           ops1 == IF spawned THEN (tid :> NewOp("refresh", o.spawn, 0)) @@ ops ELSE ops
           st1 == IF spawned THEN (tid :> <<0, 0>>) @@ st0 ELSE st0
       IN
       /\ now' = e.t /\ idx' = pos /\ s' = o.s /\ h' = h2
       /\ nv' = IF starting /\ op0.kind = "put" THEN nv + 1 ELSE nv
       /\ reads' = IF o.done /\ op0.kind = "get" THEN reads \cup {[k |-> op0.k, s |-> sp[1], ret |-> o.ret]} ELSE reads
       /\ served' = IF o.done /\ op0.kind = "get" /\ o.served[1] # 0
                    THEN served \cup {<<sp[2], o.served[1], o.served[2]>>} ELSE served
       /\ IF ~o.done
          THEN /\ ops' = [ops1 EXCEPT ![p] = o.op]
               /\ st0' = [st1 EXCEPT ![p] = sp]
               /\ heap' = heap1 \cup {[t |-> e.t + Lat(o.lat), q |-> c1 + 1, p |-> p]}
               /\ ctr' = c1 + 1 /\ UNCHANGED <<left, fin, plog>>
          ELSE IF IsTask(p)
               THEN LET rest == [x \in DOMAIN ops1 \ {p} |-> ops1[x]]
                        startfin == (\A q \in Procs : left[q] = 0) /\ heap1 = {} /\ fin = 0
                    IN /\ ops' = IF startfin THEN [rest EXCEPT ![FIN] = NewOp("get", 1, 0)] ELSE rest
                       /\ st0' = [x \in DOMAIN st1 \ {p} |-> st1[x]]
                       /\ ctr' = c1 + 1 /\ UNCHANGED <<left, plog>>
                       /\ IF startfin
                          THEN /\ fin' = 1 /\ heap' = {[t |-> e.t + 10, q |-> c1 + 1, p |-> FIN]}
                          ELSE /\ fin' = fin /\ heap' = heap1
               ELSE IF p = FIN
                    THEN /\ st0' = [st1 EXCEPT ![p] = sp] /\ ctr' = c1 + 1 /\ UNCHANGED <<left, plog>>
                         /\ IF fin < K
                            THEN /\ fin' = fin + 1 /\ ops' = [ops1 EXCEPT ![p] = NewOp("get", fin + 1, 0)]
                                 /\ heap' = heap1 \cup {[t |-> e.t, q |-> c1 + 1, p |-> p]}
                            ELSE /\ fin' = fin /\ ops' = [ops1 EXCEPT ![p] = NoOp] /\ heap' = heap1
                    ELSE LET l1 == [left EXCEPT ![p] = @ - 1]
                             alldone == (\A q \in Procs : l1[q] = 0) /\ heap1 = {}
                         IN /\ left' = l1 /\ ctr' = c1 + 1 /\ st0' = [st1 EXCEPT ![p] = sp]
                            /\ IF l1[p] > 0
                               THEN /\ \E c \in Choices :
                                          /\ ops' = [ops1 EXCEPT ![p] = NewOp(c.kind, c.k, 0)]
                                          /\ plog' = [plog EXCEPT ![p] = Append(@, c)]
                                          /\ heap' = heap1 \cup {[t |-> e.t + c.gap, q |-> c1 + 1, p |-> p]}
                                    /\ fin' = fin
                               ELSE /\ plog' = plog
                                    /\ IF alldone
                                       THEN /\ fin' = 1
                                            /\ ops' = [ops1 EXCEPT ![p] = NoOp, ![FIN] = NewOp("get", 1, 0)]
                                            /\ heap' = {[t |-> e.t + 10, q |-> c1 + 1, p |-> FIN]}
                                       ELSE /\ fin' = fin /\ ops' = [ops1 EXCEPT ![p] = NoOp]
                                            /\ heap' = heap1

Next == Run
Spec == Init /\ [][Next]_vars

InvCapacity == InvCapacityT(G, s)
InvOrderKeys == InvOrderKeysT(G, s)
InvReadFresh == \A r \in reads : ReadOK(h, r.k, r.s, r.ret)
InvHardTtl == \A x \in served : ServedOK(G, x[1], <<x[2], x[3]>>)
=============================================================================
