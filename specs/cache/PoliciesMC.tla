---------------------------- MODULE PoliciesMC ----------------------------
(* Model-checking wrapper for Policies9: every sequence of calls a cache can *)
(* make on its eviction policy (Strict = TRUE: on_insert only for a key that *)
(* is not held, on_access only for a held key) over a small key space, for   *)
(* every policy in Pols.  H is the set of keys the *cache* holds according   *)
(* to the calls it made (insert adds, remove removes, evict removes the      *)
(* victim, clear empties).                                                   *)
(* Contract (C16 clause b, policy half):                                     *)
(*   InvTracked    the keys the policy tracks are exactly H                  *)
(*   InvVictim     evict() returns a held key, and None only when H is empty *)
(* With Strict = FALSE arbitrary call sequences are explored (no invariant); *)
(* that graph is only used to state-check the model against the real objects.*)
EXTENDS Policies9, TLC

CONSTANTS Pols, NKeys, MaxT, MaxCnt, MaxN, MaxLen, Strict, TTLv, SS, A1Max

VARIABLES pol, ps, H, now
vars == <<pol, ps, H, now>>

Keys == 1..NKeys
Par == [ttl |-> TTLv, ss |-> SS, a1max |-> A1Max]

Init == pol \in Pols /\ ps = PInit /\ H = {} /\ now = 0

Insert(k) == /\ (Strict => k \notin H)
             /\ ps' = PInsert(pol, Par, ps, k, now) /\ H' = H \cup {k} /\ UNCHANGED <<pol, now>>
Access(k) == /\ (Strict => k \in H)
             /\ ps' = PAccess(pol, ps, k) /\ UNCHANGED <<pol, H, now>>
Remove(k) == /\ ps' = PRemove(pol, ps, k) /\ H' = H \ {k} /\ UNCHANGED <<pol, now>>
Evict(v) == /\ \E r \in PEvictSet(pol, Par, ps, now) : r.v = v /\ ps' = r.ps
            /\ H' = H \ {v} /\ UNCHANGED <<pol, now>>
Clear == ps' = PClear(pol, ps) /\ H' = {} /\ UNCHANGED <<pol, now>>
Tick == pol = "TTL" /\ now < MaxT /\ now' = now + 1 /\ UNCHANGED <<pol, ps, H>>

Next == \/ \E k \in Keys : Insert(k) \/ Access(k) \/ Remove(k)
        \/ \E v \in 0..NKeys : Evict(v)
        \/ Clear \/ Tick

Spec == Init /\ [][Next]_vars

Bound == /\ Len(ps.q1) <= MaxLen /\ Len(ps.q2) <= MaxLen /\ Len(ps.q3) <= MaxLen
         /\ ps.n <= MaxN
         /\ (pol = "LFU" => \A i \in 1..Len(ps.q2) : ps.q2[i] <= MaxCnt)

InvTracked == Strict => PTracked(pol, ps) = H
InvVictim == Strict => \A r \in PEvictSet(pol, Par, ps, now) :
                          IF H = {} THEN r.v = 0 ELSE r.v \in H
===========================================================================
