------------------------------- MODULE Merkle -------------------------------
(* C20 clause 7: MerkleTree.update / remove on two trees, diff() as a state  *)
(* function (SketchOps!MkDiff transcribes _build_tree and _diff_nodes).      *)
(* The reachable states are ALL pairs of maps over NK keys and NV values.    *)
EXTENDS SketchOps

CONSTANTS NK, NV
VARIABLES A, B
vars == <<A, B>>
Keys == 1..NK

Init == A = [k \in Keys |-> 0] /\ B = [k \in Keys |-> 0]

Put(t, k, v) ==      \* tree_t.update(key_k, value_v)
    /\ IF t = 1 THEN A' = [A EXCEPT ![k] = v] /\ B' = B ELSE B' = [B EXCEPT ![k] = v] /\ A' = A
Del(t, k) ==         \* tree_t.remove(key_k)
    /\ IF t = 1 THEN A[k] # 0 /\ A' = [A EXCEPT ![k] = 0] /\ B' = B
                ELSE B[k] # 0 /\ B' = [B EXCEPT ![k] = 0] /\ A' = A

Next == \/ \E t \in 1..2, k \in Keys, v \in 1..NV : Put(t, k, v)
        \/ \E t \in 1..2, k \in Keys : Del(t, k)
Spec == Init /\ [][Next]_vars

InvMerkleEmptyIffEqual == MerkleEmptyIffEqual(A, B, MkDiff(A, B)) /\ MerkleEmptyIffEqual(B, A, MkDiff(B, A))
InvMerkleCovers == MerkleCovers(A, B, MkDiff(A, B)) /\ MerkleCovers(B, A, MkDiff(B, A))
\* model sanity: ranges are well formed and ordered
InvRangesSane == LET d == MkDiff(A, B) IN \A i \in 1..Len(d) : d[i][1] <= d[i][2]
=============================================================================
