------------------------------ MODULE Sketches ------------------------------
(* C20 model-checking wrapper for the stream sketches of                    *)
(* happysimulator/sketching (BloomFilter, CountMinSketch, HyperLogLog, TopK,*)
(* ReservoirSampler).  Two sketch instances of one Kind with the same        *)
(* configuration and the same (TLC-chosen) hash table H receive add() calls  *)
(* and merge() calls; ghost variables keep the exact streams.               *)
(*   cnt[s][x]  true weight of item x in the stream represented by sketch s  *)
(*   seq[s]     that stream as a sequence of <<item, count>> (hidden by VIEW *)
(*              for the order-free kinds)                                    *)
(* Every initial state is one hash table: TLC explores ALL tables, i.e. all  *)
(* collision patterns, for the given dimensions.                            *)
EXTENDS SketchOps

CONSTANTS Kind,      \* "bloom" | "cms" | "hll" | "topk" | "res"
          NI,        \* items 1..NI
          P1, P2,    \* bloom: bits, hashes; cms: width, depth; hll: registers, max run; topk/res: k, -
          MaxTotal,  \* bound on the weight of one (possibly merged) stream
          MaxW,      \* largest count argument of one add()
          AllowMerge

VARIABLES H, sk, cnt, seq
vars == <<H, sk, cnt, seq>>
View == <<H, sk, cnt>>

Items == 1..NI
S == 1..2
P == <<P1, P2>>

HashSpace ==
    CASE Kind = "bloom" -> [Items -> [1..P2 -> 1..P1]]
      [] Kind = "cms" -> [Items -> [1..P2 -> 1..P1]]
      [] Kind = "hll" -> [Items -> { <<i, r>> : i \in 1..P1, r \in 1..P2 }]
      [] OTHER -> { [x \in Items |-> <<>>] }

Init ==
    /\ H \in HashSpace
    /\ sk = [s \in S |-> Empty(Kind, P)]
    /\ cnt = [s \in S |-> [x \in Items |-> 0]]
    /\ seq = [s \in S |-> <<>>]

\* sketch.add(item, count)
Add(s, x, c) ==
    /\ Kind # "res"
    /\ Total(cnt[s]) + c <= MaxTotal
    /\ sk' = [sk EXCEPT ![s] = AddOp(Kind, @, H[x], x, c, <<>>, P)]
    /\ cnt' = [cnt EXCEPT ![s][x] = @ + c]
    /\ seq' = [seq EXCEPT ![s] = Append(@, <<x, c>>)]
    /\ UNCHANGED H

\* reservoir.add(item, count = Len(js)) with the RNG draws js
AddRes(s, x, js) ==
    /\ Kind = "res"
    /\ Total(cnt[s]) + Len(js) <= MaxTotal
    /\ ResJsOk(sk[s], js, 1, P1)
    /\ sk' = [sk EXCEPT ![s] = ResAdd(@, x, js, P1)]
    /\ cnt' = [cnt EXCEPT ![s][x] = @ + Len(js)]
    /\ seq' = [seq EXCEPT ![s] = Append(@, <<x, Len(js)>>)]
    /\ UNCHANGED H

\* sk[s].merge(sk[t])   (statement clause 4: Bloom, Count-Min, HyperLogLog)
Merge(s, t) ==
    /\ AllowMerge /\ Kind \in {"bloom", "cms", "hll"}
    /\ Total(cnt[s]) + Total(cnt[t]) <= MaxTotal
    /\ sk' = [sk EXCEPT ![s] = MergeOp(Kind, sk[s], sk[t])]
    /\ cnt' = [cnt EXCEPT ![s] = [x \in Items |-> cnt[s][x] + cnt[t][x]]]
    /\ seq' = [seq EXCEPT ![s] = seq[s] \o seq[t]]
    /\ UNCHANGED H

\* (the js domain is empty for the other kinds so that TLC does not enumerate draws in vain)
Draws(c) == IF Kind = "res" THEN [1..c -> 0..MaxTotal] ELSE {}
\* TopK and the reservoir have no merge clause: a second instance would only square the state space
Active == IF Kind \in {"bloom", "cms", "hll"} THEN S ELSE {1}
Next ==
    \/ \E s \in Active, x \in Items, c \in 1..MaxW : Add(s, x, c)
    \/ \E s \in Active, x \in Items, c \in 1..MaxW : \E js \in Draws(c) : AddRes(s, x, js)
    \/ \E s \in Active, t \in Active : Merge(s, t)

Spec == Init /\ [][Next]_vars

\* ---- contract (SketchContract) on the model's observable query results ------
Has(s) == [x \in Items |-> BloomContains(sk[s], H[x])]
Est(s) == [x \in Items |-> CmsEstimate(sk[s], H[x])]
Tracked(s) == [x \in Items |-> TopKTracked(sk[s], x)]
Report(s) == [x \in Items |-> TopKReport(sk[s], x)]

InvBloomNoFalseNeg == Kind = "bloom" => \A s \in S : NoFalseNegative(cnt[s], Has(s))
InvCmsNeverUnder == Kind = "cms" => \A s \in S : NeverUnder(cnt[s], Est(s))
InvTopKBounded == Kind = "topk" => \A s \in S : TopKBounded(cnt[s], Tracked(s), Report(s))
InvTopKHeavy == Kind = "topk" => \A s \in S : TopKHeavyTracked(cnt[s], Total(cnt[s]), P1, Tracked(s))
\* merge(S(a), S(b)) = S(a \o b), also for merges of merged sketches: the state of every sketch
\* is the adds of its concatenated stream folded from the empty sketch
InvMergeIsConcat == Kind \in {"bloom", "cms", "hll"} =>
                        \A s \in S : MergeIsConcat(sk[s], SketchOf(Kind, seq[s], H, P))
InvResHolds == Kind = "res" => \A s \in S : ResHolds(sk[s].res, P1, Total(cnt[s]))
InvResFromStream == Kind = "res" => \A s \in S : ResFromStream(sk[s].res, cnt[s])

\* ---- model sanity (not contract): closed-form reference, bookkeeping counters ----
InvRef ==
    \A s \in S :
        CASE Kind = "bloom" -> sk[s] = BloomRef(cnt[s], H)
          [] Kind = "cms" -> sk[s] = CmsRef(cnt[s], H, P1, P2)
          [] Kind = "hll" -> sk[s] = HllRef(cnt[s], H, P1)
          [] Kind = "topk" -> /\ sk[s].total = Total(cnt[s])
                              /\ Total([i \in 1..Len(sk[s].ctr) |-> sk[s].ctr[i][2]]) = Total(cnt[s])
                              /\ Len(sk[s].ctr) <= P1
          [] Kind = "res" -> sk[s].n = Total(cnt[s])
=============================================================================
