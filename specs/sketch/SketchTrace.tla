---------------------------- MODULE SketchTrace ----------------------------
(* Trace validation for C20.  Input: IOEnv.TRACE_FILE = JSON array of        *)
(* executions of the REAL classes recorded by harness/families/c20.py.       *)
(*                                                                           *)
(* stream sketches  kind \in {"bloom","cms","hll","topk","res"}               *)
(*   [id, kind, p |-> <<p1,p2>>, ni, H |-> <<hash values of item 1..ni>>,     *)
(*    ops |-> << [op |-> "add", s, x, c, js] | [op |-> "merge", s, x (= other), c, js] >>, *)
(*    obs |-> << [st |-> projected state of sketch s after the op,            *)
(*                q  |-> query answers of sketch s after the op,              *)
(*                ref |-> projected state of a fresh real sketch fed with the *)
(*                        concatenated stream (merge ops; = st otherwise)] >>]*)
(* t-digest  kind = "td": [vs |-> scaled quantile values for increasing q,    *)
(*                         lo, hi |-> scaled observed min / max, tol, e0, e1] *)
(* Merkle    kind = "mk": [nk, init |-> <<A0, B0>>, ops |-> build/put/del,    *)
(*                         obs |-> << [a, b, d12, d21] >>]                    *)
(*                                                                           *)
(* Every step: (1) the CONTRACT (SketchContract) is evaluated on the observed *)
(* answers against the exact ghost counts derived from the ops -> "PROP:..."  *)
(* (2) the implementation-shaped operator (SketchOps, hash values as logged)  *)
(* is applied to the previously observed state and compared with the observed *)
(* next state -> "MODEL:..." (drift; the trace continues).                    *)
(* One verdict line per trace: <<"V", id, verdict, position>>.               *)
EXTENDS SketchOps, Json, IOUtils

Traces == JsonDeserialize(IOEnv.TRACE_FILE)
NT == Len(Traces)

VARIABLES ti, l, m, cnt, bad, drift, dpos
vars == <<ti, l, m, cnt, bad, drift, dpos>>

Stream == {"bloom", "cms", "hll", "topk", "res"}
Mergeable == {"bloom", "cms", "hll"}

\* ---- observed state -> model representation --------------------------------
Conv(kind, st) ==
    IF kind = "bloom"
    THEN [bits |-> { i \in 1..Len(st.bits) : st.bits[i] = 1 }, nset |-> st.nset, total |-> st.total]
    ELSE st

ZeroCnt(T) == [x \in 1..T.ni |-> 0]
InitM(T) ==
    IF T.kind \in Stream THEN <<Empty(T.kind, T.p), Empty(T.kind, T.p)>>
    ELSE IF T.kind = "mk" THEN T.init
    ELSE <<>>
InitCnt(T) == IF T.kind \in Stream THEN <<ZeroCnt(T), ZeroCnt(T)>> ELSE <<>>
NSteps(T) == IF T.kind = "td" THEN 1 ELSE Len(T.ops)

\* ---- stream sketches --------------------------------------------------------
TopListOk(c, top) ==        \* every reported <<item, count, error>> of top() obeys clause (3a)
    \A i \in 1..Len(top) : c[top[i][1]] <= top[i][2] /\ top[i][2] - top[i][3] <= c[top[i][1]]
TopListHasHeavy(c, n, k, top) ==
    \A x \in DOMAIN c : c[x] * k > n => \E i \in 1..Len(top) : top[i][1] = x

StreamStep(T, op, ob) ==
    LET kind == T.kind
        s == op.s
        isMerge == op.op = "merge"
        c1 == IF isMerge THEN [x \in 1..T.ni |-> cnt[s][x] + cnt[op.x][x]]
              ELSE [cnt[s] EXCEPT ![op.x] = @ + op.c]
        got == Conv(kind, ob.st)
        exp == IF isMerge THEN MergeOp(kind, m[s], m[op.x])
               ELSE AddOp(kind, m[s], T.H[op.x], op.x, op.c, op.js, T.p)
        n1 == Total(c1)
        prop ==
            CASE kind = "bloom" ->
                   IF ~NoFalseNegative(c1, ob.q.has) THEN "PROP:bloom_false_negative"
                   ELSE IF isMerge /\ ~MergeIsConcat(got, Conv(kind, ob.ref)) THEN "PROP:bloom_merge_not_concat"
                   ELSE ""
              [] kind = "cms" ->
                   IF ~NeverUnder(c1, ob.q.est) THEN "PROP:cms_underestimate"
                   ELSE IF isMerge /\ ~MergeIsConcat(got, ob.ref) THEN "PROP:cms_merge_not_concat"
                   ELSE ""
              [] kind = "hll" ->
                   IF isMerge /\ ~MergeIsConcat(got, ob.ref) THEN "PROP:hll_merge_not_concat" ELSE ""
              [] kind = "topk" ->
                   IF ~TopKBounded(c1, ob.q.has, ob.q.rep) \/ ~TopListOk(c1, ob.q.top)
                   THEN "PROP:topk_error_bound"
                   ELSE IF ~TopKHeavyTracked(c1, n1, T.p[1], ob.q.has) \/ ~TopListHasHeavy(c1, n1, T.p[1], ob.q.top)
                   THEN "PROP:topk_heavy_untracked"
                   ELSE ""
              [] kind = "res" ->
                   IF ~ResHolds(ob.q.sample, T.p[1], n1) THEN "PROP:res_size"
                   ELSE IF ~ResFromStream(ob.q.sample, c1) THEN "PROP:res_not_from_stream"
                   ELSE ""
        model ==
            IF got # exp THEN "MODEL:" \o kind \o "_state"
            ELSE CASE kind = "bloom" ->
                        IF ob.q.has # [x \in 1..T.ni |-> BloomContains(got, T.H[x])] THEN "MODEL:bloom_query" ELSE ""
                   [] kind = "cms" ->
                        IF ob.q.est # [x \in 1..T.ni |-> CmsEstimate(got, T.H[x])] THEN "MODEL:cms_query" ELSE ""
                   [] kind = "hll" -> ""
                   [] kind = "topk" ->
                        IF \/ ob.q.has # [x \in 1..T.ni |-> TopKTracked(got, x)]
                           \/ ob.q.rep # [x \in 1..T.ni |-> TopKReport(got, x)]
                           \/ SeqRange(ob.q.top) # SeqRange(got.ctr) \/ Len(ob.q.top) # Len(got.ctr)
                           \/ \E i \in 1..(Len(ob.q.top) - 1) : ob.q.top[i][2] < ob.q.top[i + 1][2]
                        THEN "MODEL:topk_query" ELSE ""
                   [] kind = "res" ->
                        IF ob.q.sample # got.res \/ ob.q.len # Len(got.res) THEN "MODEL:res_query" ELSE ""
    IN [prop |-> prop, model |-> model,
        m |-> [m EXCEPT ![s] = got], cnt |-> [cnt EXCEPT ![s] = c1]]

\* ---- t-digest monitor -------------------------------------------------------
TdStep(T) ==
    LET prop == IF ~TdWithin(T.vs, T.lo, T.hi, T.tol) THEN "PROP:td_outside_min_max"
                ELSE IF ~TdMonotone(T.vs, T.tol) THEN "PROP:td_not_monotone"
                ELSE ""
        \* quantile(0) / quantile(1) are documented to be the observed extremes (model detail)
        model == IF T.e0 # T.lo \/ T.e1 # T.hi THEN "MODEL:td_extremes" ELSE ""
    IN [prop |-> prop, model |-> model, m |-> m, cnt |-> cnt]

\* ---- Merkle -----------------------------------------------------------------
MkStep(T, op, ob) ==
    LET cur == m[op.s]
        new == CASE op.op = "put" -> [cur EXCEPT ![op.x] = op.c]
                 [] op.op = "del" -> [cur EXCEPT ![op.x] = 0]
                 [] OTHER -> cur
        m1 == IF op.op = "build" THEN T.init ELSE [m EXCEPT ![op.s] = new]
        A == m1[1]
        B == m1[2]
        prop == IF ~MerkleEmptyIffEqual(A, B, ob.d12) \/ ~MerkleEmptyIffEqual(B, A, ob.d21)
                THEN "PROP:merkle_empty_iff_equal"
                ELSE IF ~MerkleCovers(A, B, ob.d12) \/ ~MerkleCovers(B, A, ob.d21)
                THEN "PROP:merkle_uncovered_key"
                ELSE ""
        model == IF ob.a # A \/ ob.b # B THEN "MODEL:merkle_content"
                 ELSE IF ob.d12 # MkDiff(A, B) \/ ob.d21 # MkDiff(B, A) THEN "MODEL:merkle_diff"
                 ELSE ""
    IN [prop |-> prop, model |-> model, m |-> m1, cnt |-> cnt]

\* ---- driver -----------------------------------------------------------------
Tr == Traces[ti]

StepResult ==
    IF Tr.kind \in Stream THEN StreamStep(Tr, Tr.ops[l], Tr.obs[l])
    ELSE IF Tr.kind = "td" THEN TdStep(Tr)
    ELSE IF Tr.kind = "mk" THEN MkStep(Tr, Tr.ops[l], Tr.obs[l])
    ELSE [prop |-> "", model |-> "MODEL:unknown_kind", m |-> m, cnt |-> cnt]

Init ==
    /\ ti = 1 /\ l = 1 /\ bad = "" /\ drift = "" /\ dpos = 0
    /\ m = IF NT = 0 THEN <<>> ELSE InitM(Traces[1])
    /\ cnt = IF NT = 0 THEN <<>> ELSE InitCnt(Traces[1])

Finish(verdict, pos) ==
    /\ PrintT(<<"V", Tr.id, verdict, pos>>)
    /\ ti' = ti + 1 /\ l' = 1 /\ bad' = "" /\ drift' = "" /\ dpos' = 0
    /\ m' = IF ti < NT THEN InitM(Traces[ti + 1]) ELSE <<>>
    /\ cnt' = IF ti < NT THEN InitCnt(Traces[ti + 1]) ELSE <<>>

Next ==
    /\ ti <= NT
    /\ IF bad # "" THEN Finish(bad, l - 1)
       ELSE IF l > NSteps(Tr)
       THEN Finish(IF drift # "" THEN drift ELSE "ACCEPT", IF drift # "" THEN dpos ELSE l - 1)
       ELSE LET r == StepResult
            IN /\ bad' = r.prop
               /\ drift' = (IF drift = "" THEN r.model ELSE drift)
               /\ dpos' = (IF drift = "" /\ r.model # "" THEN l ELSE dpos)
               /\ m' = r.m /\ cnt' = r.cnt
               /\ l' = l + 1 /\ ti' = ti

Spec == Init /\ [][Next]_vars
=============================================================================
