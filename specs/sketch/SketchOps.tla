----------------------------- MODULE SketchOps -----------------------------
(* Implementation-shaped operators for happysimulator/sketching: one        *)
(* operator per public call of the Python classes, written the way the code *)
(* is written (loops over hash indices / rows, dict insertion order of the  *)
(* space-saving counters, evict-first-minimum, Algorithm R replacement,     *)
(* balanced Merkle build by len//2 and pairwise top-down diff).             *)
(*                                                                          *)
(* Hash functions are UNINTERPRETED: every operator takes the hash values   *)
(* of the item as an argument h                                             *)
(*    bloom  h = <<pos_1..pos_K>>   (1-based bit positions, _hash(item,i)+1) *)
(*    cms    h = <<col_1..col_D>>   (1-based column per row)                *)
(*    hll    h = <<register index (1-based), run length>>                   *)
(* In model-checking mode TLC chooses the table, in trace mode the harness  *)
(* logs what the real _hash returned.                                       *)
(*                                                                          *)
(* Deviations (constant Dev) = realistic wrong implementations; with        *)
(* Dev = {} the operators describe the code as it is.                       *)
(*   bloom_add_skips_last_hash   add() sets only K-1 bits, contains() tests K *)
(*   bloom_merge_and             merge() ANDs the bit arrays                *)
(*   bloom_merge_stale_nset      merge() does not recount _bits_set         *)
(*   cms_merge_max               merge() takes max instead of +             *)
(*   cms_conservative_update     add() raises only the minimal counters     *)
(*   cms_merge_drops_total       merge() forgets other._total_count         *)
(*   hll_merge_overwrite         merge() copies other's non-zero registers  *)
(*   hll_add_no_max              add() overwrites the register              *)
(*   topk_error_not_inherited    evicting add() records error 0             *)
(*   topk_evict_resets_count     evicting add() starts the count at `count` *)
(*   topk_evict_max              evicting add() replaces the maximum        *)
(*   topk_evict_min_guaranteed   evicting add() replaces the counter with   *)
(*                               the least count - error (needs 9 adds)     *)
(*   res_capacity_off_by_one     reservoir appends while len <= size        *)
(*   res_replace_appends         replacement appends instead of overwriting *)
(*   merkle_leaf_range_self      leaf-level divergence reports a's range only *)
(*   merkle_diff_stops_after_left  recursion skips the right child when the *)
(*                               left one already produced a difference     *)
EXTENDS Naturals, Integers, Sequences, FiniteSets, TLC, SketchContract

CONSTANT Dev

D(name) == name \in Dev
SeqRange(s) == { s[i] : i \in 1..Len(s) }
RemoveAt(s, i) == SubSeq(s, 1, i - 1) \o SubSeq(s, i + 1, Len(s))

RECURSIVE SumTo(_, _)
SumTo(f, n) == IF n = 0 THEN 0 ELSE f[n] + SumTo(f, n - 1)
Total(c) == SumTo(c, Len(c))            \* c : 1..n -> Nat  (true counts per item index)

SetMin(S) == CHOOSE v \in S : \A w \in S : v <= w

\* ------------------------------------------------------------------ Bloom
\* state [bits : set of positions, nset : _bits_set, total : _total_count]
BloomEmpty == [bits |-> {}, nset |-> 0, total |-> 0]

RECURSIVE BloomSet(_, _, _)
BloomSet(b, h, i) ==                      \* for i in range(num_hashes): if _set_bit(): _bits_set += 1
    IF i > Len(h) THEN b
    ELSE BloomSet(IF h[i] \in b.bits THEN b
                  ELSE [bits |-> b.bits \cup {h[i]}, nset |-> b.nset + 1, total |-> b.total], h, i + 1)

BloomAdd(b, h, c) ==
    IF c = 0 THEN b
    ELSE BloomSet([b EXCEPT !.total = @ + c],
                  IF D("bloom_add_skips_last_hash") /\ Len(h) > 1 THEN SubSeq(h, 1, Len(h) - 1) ELSE h, 1)

BloomContains(b, h) == \A i \in 1..Len(h) : h[i] \in b.bits

BloomMerge(a, o) ==
    LET bits == IF D("bloom_merge_and") THEN a.bits \cap o.bits ELSE a.bits \cup o.bits
    IN [bits |-> bits,
        nset |-> IF D("bloom_merge_stale_nset") THEN a.nset ELSE Cardinality(bits),
        total |-> a.total + o.total]

\* ------------------------------------------------------------------ Count-Min
\* state [ctr : 1..depth -> (1..width -> Nat), total]
CmsEmpty(w, d) == [ctr |-> [r \in 1..d |-> [c \in 1..w |-> 0]], total |-> 0]

CmsEstimate(s, h) == SetMin({ s.ctr[r][h[r]] : r \in 1..Len(h) })

CmsAdd(s, h, c) ==
    IF c = 0 THEN s
    ELSE IF D("cms_conservative_update")
         THEN LET tgt == CmsEstimate(s, h) + c
              IN [ctr |-> [r \in DOMAIN s.ctr |-> [s.ctr[r] EXCEPT ![h[r]] = MaxI(@, tgt)]],
                  total |-> s.total + c]
         ELSE [ctr |-> [r \in DOMAIN s.ctr |-> [s.ctr[r] EXCEPT ![h[r]] = @ + c]],
               total |-> s.total + c]

CmsMerge(a, o) ==
    [ctr |-> [r \in DOMAIN a.ctr |-> [c \in DOMAIN a.ctr[r] |->
                 IF D("cms_merge_max") THEN MaxI(a.ctr[r][c], o.ctr[r][c]) ELSE a.ctr[r][c] + o.ctr[r][c]]],
     total |-> IF D("cms_merge_drops_total") THEN a.total ELSE a.total + o.total]

\* ------------------------------------------------------------------ HyperLogLog
\* state [reg : 1..m -> Nat, total]
HllEmpty(m) == [reg |-> [i \in 1..m |-> 0], total |-> 0]

HllAdd(s, h, c) ==
    IF c = 0 THEN s
    ELSE [reg |-> [s.reg EXCEPT ![h[1]] = IF D("hll_add_no_max") THEN h[2] ELSE MaxI(@, h[2])],
          total |-> s.total + c]

HllMerge(a, o) ==
    [reg |-> [i \in DOMAIN a.reg |->
                 IF D("hll_merge_overwrite") THEN (IF o.reg[i] # 0 THEN o.reg[i] ELSE a.reg[i])
                 ELSE MaxI(a.reg[i], o.reg[i])],
     total |-> a.total + o.total]

\* ------------------------------------------------------------------ TopK (space-saving)
\* state [ctr : sequence of <<item, count, error>> in dict insertion order, total]
TopKEmpty == [ctr |-> <<>>, total |-> 0]
TopKIdx(s, x) == { i \in 1..Len(s.ctr) : s.ctr[i][1] = x }
\* Python's min()/max() return the first extremal element in iteration order
FirstMin(ctr) == CHOOSE i \in 1..Len(ctr) :
                    /\ \A j \in 1..Len(ctr) : ctr[j][2] >= ctr[i][2]
                    /\ \A j \in 1..(i - 1) : ctr[j][2] > ctr[i][2]
FirstMax(ctr) == CHOOSE i \in 1..Len(ctr) :
                    /\ \A j \in 1..Len(ctr) : ctr[j][2] <= ctr[i][2]
                    /\ \A j \in 1..(i - 1) : ctr[j][2] < ctr[i][2]
\* first minimum of the guaranteed count (count - error)
FirstMinG(ctr) == CHOOSE i \in 1..Len(ctr) :
                    /\ \A j \in 1..Len(ctr) : ctr[j][2] - ctr[j][3] >= ctr[i][2] - ctr[i][3]
                    /\ \A j \in 1..(i - 1) : ctr[j][2] - ctr[j][3] > ctr[i][2] - ctr[i][3]

TopKAdd(s, x, c, k) ==
    IF c = 0 THEN s
    ELSE IF TopKIdx(s, x) # {}
    THEN LET i == CHOOSE i \in TopKIdx(s, x) : TRUE
         IN [ctr |-> [s.ctr EXCEPT ![i] = <<x, @[2] + c, @[3]>>], total |-> s.total + c]
    ELSE IF Len(s.ctr) < k
    THEN [ctr |-> Append(s.ctr, <<x, c, 0>>), total |-> s.total + c]
    ELSE LET m == IF D("topk_evict_max") THEN FirstMax(s.ctr)
                  ELSE IF D("topk_evict_min_guaranteed") THEN FirstMinG(s.ctr)
                  ELSE FirstMin(s.ctr)
             mc == s.ctr[m][2]
         IN [ctr |-> Append(RemoveAt(s.ctr, m),
                            <<x, IF D("topk_evict_resets_count") THEN c ELSE mc + c,
                              IF D("topk_error_not_inherited") THEN 0 ELSE mc>>),
             total |-> s.total + c]

TopKTracked(s, x) == TopKIdx(s, x) # {}
TopKMaxError(s) == IF s.ctr = <<>> THEN 0 ELSE SetMin({ s.ctr[i][2] : i \in 1..Len(s.ctr) })
\* estimate_with_error(): <<count, error>>
TopKReport(s, x) ==
    IF TopKTracked(s, x) THEN LET i == CHOOSE i \in TopKIdx(s, x) : TRUE IN <<s.ctr[i][2], s.ctr[i][3]>>
    ELSE <<0, TopKMaxError(s)>>

\* ------------------------------------------------------------------ Reservoir (Algorithm R)
\* state [res : sequence of items, n : _total_count];  j = rng.randint(0, n_after - 1)
ResEmpty == [res |-> <<>>, n |-> 0]
ResRoom(s, k) == IF D("res_capacity_off_by_one") THEN Len(s.res) <= k ELSE Len(s.res) < k

ResAddOne(s, x, j, k) ==
    IF ResRoom(s, k) THEN [res |-> Append(s.res, x), n |-> s.n + 1]
    ELSE IF j < k
         THEN [res |-> IF D("res_replace_appends") THEN Append(s.res, x) ELSE [s.res EXCEPT ![j + 1] = x],
               n |-> s.n + 1]
         ELSE [res |-> s.res, n |-> s.n + 1]

RECURSIVE ResAddAll(_, _, _, _, _)
ResAddAll(s, x, js, i, k) == IF i > Len(js) THEN s ELSE ResAddAll(ResAddOne(s, x, js[i], k), x, js, i + 1, k)
ResAdd(s, x, js, k) == ResAddAll(s, x, js, 1, k)      \* add(item, count = Len(js))

\* js is a legal sequence of RNG draws: no draw (logged 0) while there is room, else 0..n
RECURSIVE ResJsOk(_, _, _, _)
ResJsOk(s, js, i, k) ==
    IF i > Len(js) THEN TRUE
    ELSE /\ (IF ResRoom(s, k) THEN js[i] = 0 ELSE js[i] \in 0..s.n)
         /\ ResJsOk(ResAddOne(s, 0, js[i], k), js, i + 1, k)

\* ------------------------------------------------------------------ uniform interface
Empty(kind, p) ==
    CASE kind = "bloom" -> BloomEmpty
      [] kind = "cms" -> CmsEmpty(p[1], p[2])
      [] kind = "hll" -> HllEmpty(p[1])
      [] kind = "topk" -> TopKEmpty
      [] kind = "res" -> ResEmpty

\* add(item x with hash values h, count c);  js only for the reservoir (Len(js) = c)
AddOp(kind, s, h, x, c, js, p) ==
    CASE kind = "bloom" -> BloomAdd(s, h, c)
      [] kind = "cms" -> CmsAdd(s, h, c)
      [] kind = "hll" -> HllAdd(s, h, c)
      [] kind = "topk" -> TopKAdd(s, x, c, p[1])
      [] kind = "res" -> ResAdd(s, x, js, p[1])

MergeOp(kind, a, o) ==
    CASE kind = "bloom" -> BloomMerge(a, o)
      [] kind = "cms" -> CmsMerge(a, o)
      [] kind = "hll" -> HllMerge(a, o)

\* the sketch of a stream = the adds folded from the empty sketch (statement clause 4)
RECURSIVE FoldFrom(_, _, _, _, _, _)
FoldFrom(kind, s, stream, i, H, p) ==
    IF i > Len(stream) THEN s
    ELSE FoldFrom(kind, AddOp(kind, s, H[stream[i][1]], stream[i][1], stream[i][2], <<>>, p), stream, i + 1, H, p)
SketchOf(kind, stream, H, p) == FoldFrom(kind, Empty(kind, p), stream, 1, H, p)

\* closed-form reference semantics from the true counts (order-free sketches only)
BloomRef(cnt, H) ==
    LET bits == UNION { SeqRange(H[x]) : x \in { y \in DOMAIN cnt : cnt[y] > 0 } }
    IN [bits |-> bits, nset |-> Cardinality(bits), total |-> Total(cnt)]
CmsRef(cnt, H, w, d) ==
    [ctr |-> [r \in 1..d |-> [c \in 1..w |->
        LET hit == { x \in DOMAIN cnt : H[x][r] = c }
            f == [i \in 1..Len(cnt) |-> IF i \in hit THEN cnt[i] ELSE 0]
        IN Total(f)]],
     total |-> Total(cnt)]
HllRef(cnt, H, m) ==
    [reg |-> [i \in 1..m |->
        LET rs == { H[x][2] : x \in { y \in DOMAIN cnt : cnt[y] > 0 /\ H[y][1] = i } }
        IN IF rs = {} THEN 0 ELSE CHOOSE v \in rs : \A w \in rs : w <= v],
     total |-> Total(cnt)]

\* ------------------------------------------------------------------ Merkle tree
\* maps: key index (1..nk, in key order) -> value id, 0 = absent.
\* A subtree hash is modelled by the item sequence it covers: _build_tree's shape is a function
\* of the length, so hash equality <=> equal item sequences (SHA-256 assumed collision free).
MkItems(A) ==
    LET ks == { k \in DOMAIN A : A[k] # 0 }
        RECURSIVE Asc(_)
        Asc(S) == IF S = {} THEN <<>> ELSE LET k == SetMin(S) IN <<<<k, A[k]>>>> \o Asc(S \ {k})
    IN Asc(ks)

RECURSIVE MkBuild(_)
MkBuild(items) ==
    IF Len(items) = 1
    THEN [h |-> items, lo |-> items[1][1], hi |-> items[1][1], leaf |-> TRUE]
    ELSE LET mid == Len(items) \div 2
             l == MkBuild(SubSeq(items, 1, mid))
             r == MkBuild(SubSeq(items, mid + 1, Len(items)))
         IN [h |-> items, lo |-> l.lo, hi |-> r.hi, leaf |-> FALSE, l |-> l, r |-> r]

RECURSIVE MkDiffNodes(_, _)
MkDiffNodes(a, b) ==
    IF a.h = b.h THEN <<>>
    ELSE IF a.leaf \/ b.leaf
    THEN IF D("merkle_leaf_range_self") THEN << <<a.lo, a.hi>> >>
         ELSE << <<MinI(a.lo, b.lo), MaxI(a.hi, b.hi)>> >>
    ELSE LET dl == MkDiffNodes(a.l, b.l)
         IN IF D("merkle_diff_stops_after_left") /\ dl # <<>> THEN dl
            ELSE dl \o MkDiffNodes(a.r, b.r)

MkDiff(A, B) ==                                  \* tree(A).diff(tree(B))
    LET ia == MkItems(A)
        ib == MkItems(B)
    IN IF ia = <<>> /\ ib = <<>> THEN <<>>
       ELSE IF ia = <<>> THEN << <<ib[1][1], ib[Len(ib)][1]>> >>
       ELSE IF ib = <<>> THEN << <<ia[1][1], ia[Len(ia)][1]>> >>
       ELSE IF ia = ib THEN <<>>
       ELSE MkDiffNodes(MkBuild(ia), MkBuild(ib))
=============================================================================
