--------------------------- MODULE SketchContract ---------------------------
(* C20 -- the property, clause by clause, as predicates over OBSERVABLE      *)
(* values only (query results, projected sketch state) and the exact ghost   *)
(* data of the input stream (true counts cnt[x], stream weight n).  No       *)
(* mechanism: nothing here knows how a sketch is implemented.                *)
(*                                                                           *)
(* Statement (properties.jsonl, C20):                                        *)
(*  (1) a Bloom filter reports every inserted item as present                *)
(*  (2) a Count-Min sketch never underestimates a count                      *)
(*  (3) space-saving TopK estimates exceed true counts by at most the        *)
(*      reported error (3a) while tracking every item more frequent than     *)
(*      N/k (3b)                                                             *)
(*  (4) merging two Bloom, Count-Min or HyperLogLog sketches gives exactly   *)
(*      the sketch of the concatenated streams                               *)
(*  (5) t-digest quantiles are non-decreasing in q (5a) and lie within the   *)
(*      observed minimum and maximum (5b)                                    *)
(*  (6) a reservoir holds min(k, n) items of the stream                      *)
(*  (7) a Merkle-tree diff is empty exactly when the two maps are equal (7a) *)
(*      and otherwise its ranges cover every key whose value differs (7b)    *)
EXTENDS Naturals, Integers, Sequences, FiniteSets

MinI(a, b) == IF a <= b THEN a ELSE b
MaxI(a, b) == IF a >= b THEN a ELSE b

\* (1) cnt: item -> true number of insertions;  has: item -> answer of contains()
NoFalseNegative(cnt, has) == \A x \in DOMAIN cnt : cnt[x] > 0 => has[x]

\* (2) est: item -> answer of estimate()
NeverUnder(cnt, est) == \A x \in DOMAIN cnt : est[x] >= cnt[x]

\* (3a) tracked: item -> item reported as tracked;  rep: item -> <<count, error>> as reported
\*      "estimates exceed true counts by at most the reported error":
\*      true <= count  and  count - true <= error      (for the items the sketch reports on)
TopKBounded(cnt, tracked, rep) ==
    \A x \in DOMAIN cnt : tracked[x] => (cnt[x] <= rep[x][1] /\ rep[x][1] - rep[x][2] <= cnt[x])
\* (3b) n = total weight of the stream, k = number of counters
TopKHeavyTracked(cnt, n, k, tracked) == \A x \in DOMAIN cnt : cnt[x] * k > n => tracked[x]

\* (4) projected state of merge(S(a), S(b))  vs  projected state of S(a \o b)
MergeIsConcat(mergedState, rebuiltState) == mergedState = rebuiltState

\* (5) vs: quantile values for an increasing sequence of q, as scaled integers; tol = guard band
\*     (DESIGN.md section 7: floating point is monitored over scaled integers)
TdMonotone(vs, tol) == \A i \in 1..(Len(vs) - 1) : vs[i] <= vs[i + 1] + tol
TdWithin(vs, lo, hi, tol) == \A i \in 1..Len(vs) : lo - tol <= vs[i] /\ vs[i] <= hi + tol

\* (6) sample: sequence held by the reservoir; k capacity; n stream length; cnt true multiplicities
Occ(s, x) == Cardinality({ i \in 1..Len(s) : s[i] = x })
ResHolds(sample, k, n) == Len(sample) = MinI(k, n)
ResFromStream(sample, cnt) ==
    \A i \in 1..Len(sample) : sample[i] \in DOMAIN cnt /\ Occ(sample, sample[i]) <= cnt[sample[i]]

\* (7) A, B: key -> value (0 = absent); ranges: sequence of <<lo, hi>> (inclusive, key order)
MerkleEmptyIffEqual(A, B, ranges) == (ranges = <<>>) <=> (A = B)
MerkleCovers(A, B, ranges) ==
    \A k \in DOMAIN A : A[k] # B[k] => \E i \in 1..Len(ranges) : ranges[i][1] <= k /\ k <= ranges[i][2]
=============================================================================
