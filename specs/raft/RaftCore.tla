----------------------------- MODULE RaftCore -----------------------------
(* Node-local handlers of happysimulator/components/consensus/raft.py,       *)
(* transcribed one operator per Python handler (NOT from the Raft paper).     *)
(* Every operator is a pure function  (node record, self, argument) ->        *)
(*     [s |-> node record after the handler,                                  *)
(*      out |-> sequence of messages handed to Network.send, in code order,   *)
(*      res |-> sequence of <<op, index, result>> submit futures resolved]    *)
(* so that RaftImpl.tla (state machine explored by TLC) and RaftTrace.tla     *)
(* (validation of executions recorded from the real RaftNode objects) share   *)
(* one source of truth.                                                       *)
(*                                                                            *)
(* node record  (projection of a RaftNode, see harness/families/c11.py):      *)
(*   role  "F" | "C" | "L"          _state                                    *)
(*   term, voted (0 = None)         _current_term, _voted_for                 *)
(*   log   seq of [i, t, c]         _log._entries (LogEntry index/term/cmd)   *)
(*   ci, la                         _log.commit_index, _last_applied          *)
(*   app   seq of commands          calls of state_machine.apply, in order    *)
(*   votes set of nodes             _votes_received_set   (only while "C")    *)
(*   ni, mi seq over nodes          _next_index/_match_index (only while "L") *)
(*   et, hb 0 | 1                   live (scheduled, not cancelled, not yet   *)
(*                                  fired) election-timeout / heartbeat event *)
(*   pend  set of <<index, op>>     _pending_futures (positive keys)          *)
(*                                                                            *)
(* Named deviations (constant set Dev): the code as it IS has all of          *)
(* KnownOpen switched on; the code as the property needs it has Dev = {}.     *)
(*   "same_term_ae_clears_vote"      _handle_append_entries calls             *)
(*        _step_down(term) for term >= current_term, which forgets the vote   *)
(*        already cast in the *same* term                                     *)
(*   "match_is_follower_last_index"  a successful AppendEntriesResponse       *)
(*        reports match_index = follower's last log index instead of          *)
(*        prev_log_index + len(entries)                                       *)
(*   "future_keyed_by_index_only"    _apply_committed resolves the pending    *)
(*        submit future stored under the applied *index*, whatever command    *)
(*        now sits at that index                                              *)
(*   "stale_term_ae_response"        _handle_append_entries_response accepts  *)
(*        responses whose term is lower than the leader's current term        *)
(* Plausible regressions kept as deviations (never part of the code so far):  *)
(*   "commit_counts_old_term_entry"  _try_advance_commit takes the quorum-th  *)
(*        highest replicated index; the current-term rule only guards the     *)
(*        leader's LAST entry, not the entry being committed                  *)
(*   "vote_tally_survives_retry"     _start_election adds self to the tally   *)
(*        instead of resetting it (cleared only by _step_down): a candidate   *)
(*        that retries keeps the votes of its previous term                   *)
(*   "ae_replaces_suffix"            _handle_append_entries truncates from    *)
(*        prev_log_index+1 and appends all entries instead of reconciling     *)
(*        entry by entry: a reordered older request cuts the log back         *)
(*   "vote_prefers_longer_log"       the up-to-date test compares             *)
(*        (last_log_index, last_log_term) lexicographically: the longer log   *)
(*        wins, the last term only breaks ties                                *)
EXTENDS Naturals, Sequences, FiniteSets, TLC

CONSTANTS Nodes,  \* node ids: 1..N for traces and replayed behaviours, model values under SYMMETRY
          Nil,    \* "no vote" (0 with integer node ids)
          Dev     \* set of deviation names switched on

N == Cardinality(Nodes)
Quorum == (N \div 2) + 1
Has(d) == d \in Dev

Min2(a, b) == IF a < b THEN a ELSE b
Max2(a, b) == IF a > b THEN a ELSE b
SetMax(S) == CHOOSE x \in S : \A y \in S : y <= x

Zero == [p \in Nodes |-> 0]

LastTerm(l) == IF Len(l) = 0 THEN 0 ELSE l[Len(l)].t

InitNode == [role |-> "F", term |-> 0, voted |-> Nil, log |-> <<>>, ci |-> 0, la |-> 0, app |-> <<>>,
             votes |-> {}, ni |-> Zero, mi |-> Zero, et |-> 1, hb |-> 0, pend |-> {}]

R(s, out, res) == [s |-> s, out |-> out, res |-> res]

\* peers in the order of RaftNode._peers (set_peers keeps cluster order minus self)
RECURSIVE SetSeq(_)
SetSeq(S) == IF S = {} THEN <<>> ELSE LET x == CHOOSE y \in S : TRUE IN <<x>> \o SetSeq(S \ {x})
PeerSeq(self) == SetSeq(Nodes \ {self})

RECURSIVE MapSeq(_, _)
MapSeq(F(_), q) == IF q = <<>> THEN <<>> ELSE <<F(Head(q))>> \o MapSeq(F, Tail(q))

-----------------------------------------------------------------------------
\* _step_down(new_term)
StepDown(s, t) == [s EXCEPT !.term = t, !.role = "F", !.voted = Nil, !.hb = 0,
                            !.votes = {}, !.ni = Zero, !.mi = Zero]

\* the AppendEntries message built by _send_append_entries / the retry branch for one peer
AEMsg(s, self, p) ==
    LET pli == s.ni[p] - 1
        plt == IF pli > 0 /\ pli <= Len(s.log) THEN s.log[pli].t ELSE 0
        ents == IF pli >= Len(s.log) THEN <<>> ELSE SubSeq(s.log, pli + 1, Len(s.log))
    IN [type |-> "AE", src |-> self, dst |-> p, term |-> s.term, pli |-> pli, plt |-> plt,
        ents |-> ents, lc |-> s.ci]

AEAll(s, self) == LET F(p) == AEMsg(s, self, p) IN MapSeq(F, PeerSeq(self))

AERMsg(self, to, term, ok, mi) ==
    [type |-> "AER", src |-> self, dst |-> to, term |-> term, success |-> ok, mi |-> mi]

\* _become_leader
BecomeLeader(s, self) ==
    LET s1 == [s EXCEPT !.role = "L", !.votes = {},
                        !.ni = [p \in Nodes |-> IF p = self THEN 0 ELSE Len(s.log) + 1],
                        !.mi = Zero, !.et = 0, !.hb = 1]
    IN R(s1, AEAll(s1, self), <<>>)

\* _handle_election_timeout + _start_election
OnTimeout(s, self) ==
    IF s.role = "L" THEN R([s EXCEPT !.et = 1], <<>>, <<>>)
    ELSE LET s1 == [s EXCEPT !.role = "C", !.term = s.term + 1, !.voted = self,
                             !.votes = IF Has("vote_tally_survives_retry") THEN s.votes \cup {self} ELSE {self},
                             !.et = 1]
             F(p) == [type |-> "RV", src |-> self, dst |-> p, term |-> s1.term,
                      lli |-> Len(s1.log), llt |-> LastTerm(s1.log)]
             rvs == MapSeq(F, PeerSeq(self))
         IN IF 1 >= Quorum
            THEN LET b == BecomeLeader(s1, self) IN R(b.s, rvs \o b.out, <<>>)
            ELSE R(s1, rvs, <<>>)

\* _handle_heartbeat_tick
OnHeartbeat(s, self) ==
    IF s.role # "L" THEN R([s EXCEPT !.hb = 0, !.et = 1], <<>>, <<>>)
    ELSE R([s EXCEPT !.hb = 1], AEAll(s, self), <<>>)

\* _handle_request_vote
OnRV(s, self, m) ==
    LET s1 == IF m.term > s.term THEN StepDown(s, m.term) ELSE s
        utd == IF Has("vote_prefers_longer_log")
               THEN \/ m.lli > Len(s1.log)
                    \/ m.lli = Len(s1.log) /\ m.llt >= LastTerm(s1.log)
               ELSE \/ m.llt > LastTerm(s1.log)
                    \/ m.llt = LastTerm(s1.log) /\ m.lli >= Len(s1.log)
        grant == m.term >= s1.term /\ (s1.voted = Nil \/ s1.voted = m.src) /\ utd
        s2 == IF grant THEN [s1 EXCEPT !.voted = m.src, !.term = m.term, !.et = 1] ELSE s1
    IN R(s2, <<[type |-> "RVR", src |-> self, dst |-> m.src, term |-> s2.term, granted |-> grant]>>, <<>>)

\* _handle_vote_response
OnRVR(s, self, m) ==
    IF m.term > s.term THEN R([StepDown(s, m.term) EXCEPT !.et = 1], <<>>, <<>>)
    ELSE IF s.role # "C" \/ m.term # s.term THEN R(s, <<>>, <<>>)
    ELSE LET v == IF m.granted THEN s.votes \cup {m.src} ELSE s.votes
             s1 == [s EXCEPT !.votes = v]
         IN IF Cardinality(v) >= Quorum THEN BecomeLeader(s1, self) ELSE R(s1, <<>>, <<>>)

\* the entry loop of _handle_append_entries (Log.get / truncate_from / append)
RECURSIVE AppendEnts(_, _, _)
AppendEnts(log, ci, ents) ==
    IF ents = <<>> THEN [log |-> log, ci |-> ci]
    ELSE LET e == Head(ents) IN
         IF e.i >= 1 /\ e.i <= Len(log)
         THEN IF log[e.i].t # e.t
              THEN LET l1 == SubSeq(log, 1, e.i - 1)
                       c1 == IF ci >= e.i THEN e.i - 1 ELSE ci      \* Log.truncate_from lowers commit_index
                   IN AppendEnts(Append(l1, [i |-> Len(l1) + 1, t |-> e.t, c |-> e.c]), c1, Tail(ents))
              ELSE AppendEnts(log, ci, Tail(ents))
         ELSE AppendEnts(Append(log, [i |-> Len(log) + 1, t |-> e.t, c |-> e.c]), ci, Tail(ents))

\* _apply_committed over the entries returned by Log.advance_commit
RECURSIVE ApplyRange(_, _, _, _)
ApplyRange(s, i, hi, res) ==
    IF i > hi THEN R(s, <<>>, res)
    ELSE IF i <= s.la THEN ApplyRange(s, i + 1, hi, res)
    ELSE LET cmd == s.log[i].c
             pe == { x \in s.pend : x[1] = i }
             s1 == [s EXCEPT !.app = Append(s.app, cmd), !.la = i, !.pend = s.pend \ pe]
             hit == { x \in pe : Has("future_keyed_by_index_only") \/ x[2] = cmd }
             r1 == IF hit = {} THEN res
                   ELSE Append(res, <<(CHOOSE x \in hit : TRUE)[2], i, cmd>>)
         IN ApplyRange(s1, i + 1, hi, r1)

\* Log.advance_commit(new) followed by _apply_committed
Commit(s, new) ==
    IF new <= s.ci THEN R(s, <<>>, <<>>)
    ELSE LET nc == Min2(new, Len(s.log))
         IN ApplyRange([s EXCEPT !.ci = nc], s.ci + 1, nc, <<>>)

\* _handle_append_entries
OnAE(s, self, m) ==
    IF m.term < s.term THEN R(s, <<AERMsg(self, m.src, s.term, FALSE, 0)>>, <<>>)
    ELSE
    LET keep == m.term = s.term /\ ~Has("same_term_ae_clears_vote")
        s1 == [s EXCEPT !.term = m.term, !.role = "F", !.voted = IF keep THEN s.voted ELSE Nil,
                        !.hb = 0, !.votes = {}, !.ni = Zero, !.mi = Zero, !.et = 1]
    IN IF m.pli > 0 /\ (m.pli > Len(s1.log) \/ s1.log[m.pli].t # m.plt)
       THEN R(s1, <<AERMsg(self, m.src, s1.term, FALSE, 0)>>, <<>>)
       ELSE LET a == IF Has("ae_replaces_suffix") /\ m.ents # <<>>
                     THEN AppendEnts(SubSeq(s1.log, 1, Min2(m.pli, Len(s1.log))),
                                     IF m.pli + 1 <= Len(s1.log) /\ s1.ci >= m.pli + 1 THEN m.pli ELSE s1.ci,
                                     [k \in 1..Len(m.ents) |-> [i |-> m.pli + k, t |-> m.ents[k].t, c |-> m.ents[k].c]])
                     ELSE AppendEnts(s1.log, s1.ci, m.ents)
                s2 == [s1 EXCEPT !.log = a.log, !.ci = a.ci]
                c == IF m.lc > s2.ci THEN Commit(s2, Min2(m.lc, Len(s2.log))) ELSE R(s2, <<>>, <<>>)
                mi == IF Has("match_is_follower_last_index") THEN Len(c.s.log)
                      ELSE m.pli + Len(m.ents)
            IN R(c.s, <<AERMsg(self, m.src, c.s.term, TRUE, mi)>>, c.res)

\* _try_advance_commit
TryAdvance(s, self) ==
    IF Has("commit_counts_old_term_entry")
    THEN LET Q == { n \in 0..Len(s.log) : 1 + Cardinality({ p \in Nodes \ {self} : s.mi[p] >= n }) >= Quorum }
         IN IF LastTerm(s.log) # s.term \/ SetMax(Q) <= s.ci THEN R(s, <<>>, <<>>) ELSE Commit(s, SetMax(Q))
    ELSE
    LET C == { n \in (s.ci + 1)..Len(s.log) :
                 /\ s.log[n].t = s.term
                 /\ 1 + Cardinality({ p \in Nodes \ {self} : s.mi[p] >= n }) >= Quorum }
    IN IF C = {} THEN R(s, <<>>, <<>>) ELSE Commit(s, SetMax(C))

\* _handle_append_entries_response
OnAER(s, self, m) ==
    IF m.term > s.term THEN R([StepDown(s, m.term) EXCEPT !.et = 1], <<>>, <<>>)
    ELSE IF s.role # "L" THEN R(s, <<>>, <<>>)
    ELSE IF m.term < s.term /\ ~Has("stale_term_ae_response") THEN R(s, <<>>, <<>>)
    ELSE IF m.success
    THEN TryAdvance([s EXCEPT !.ni[m.src] = m.mi + 1, !.mi[m.src] = m.mi], self)
    ELSE LET s1 == [s EXCEPT !.ni[m.src] = Max2(1, s.ni[m.src] - 1)]
         IN R(s1, <<AEMsg(s1, self, m.src)>>, <<>>)

\* handle_event dispatch for a message delivered by the network
OnMsg(s, self, m) ==
    CASE m.type = "RV" -> OnRV(s, self, m)
      [] m.type = "RVR" -> OnRVR(s, self, m)
      [] m.type = "AE" -> OnAE(s, self, m)
      [] m.type = "AER" -> OnAER(s, self, m)

\* submit(command) with command = op
OnSubmit(s, op) ==
    IF s.role # "L" THEN R(s, <<>>, <<>>)
    ELSE LET idx == Len(s.log) + 1
         IN R([s EXCEPT !.log = Append(s.log, [i |-> idx, t |-> s.term, c |-> op]),
                        !.pend = { x \in s.pend : x[1] # idx } \cup {<<idx, op>>}], <<>>, <<>>)

\* one recorded step (RaftTrace vocabulary) that runs code of node self
OnStep(s, self, st) ==
    CASE st.a = "T" -> OnTimeout(s, self)
      [] st.a = "H" -> OnHeartbeat(s, self)
      [] st.a = "S" -> OnSubmit(s, st.op)
      [] st.a = "D" -> OnMsg(s, self, st.m)
=============================================================================
