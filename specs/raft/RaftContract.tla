--------------------------- MODULE RaftContract ---------------------------
(* Property C11 as predicates over OBSERVABLE state only:                     *)
(*   per node: role/term (RaftNode.state, .current_term), log (RaftNode.log:  *)
(*   index/term/command), ci (log.commit_index), app (sequence of commands    *)
(*   passed to the node's state machine), and resolved submit futures.        *)
(* No mechanism (votes, next/match index, timers, messages) appears here.     *)
(* These operators are the only thing whose falsity can become a VIOLATION.   *)
(*                                                                            *)
(* History carried along an execution (updated after every step):             *)
(*   ldr   set of <<term, node>>  : node was observed as LEADER in term       *)
(*   cmt   set of [i, t, c, ct]   : entry (i,t,c) was observed committed      *)
(*                                  (i <= commit_index) on a node whose       *)
(*                                  current_term was ct (minimal ct kept)     *)
(*   futs  set of <<op, i, cmdAt>>: submit future of op resolved with index   *)
(*                                  i, cmdAt = command committed at i on the  *)
(*                                  resolving node at that moment (0 = none)  *)
EXTENDS Naturals, Sequences, FiniteSets

\* "at most one node is leader in any term"
ElectionSafetyP(ldr) == \A p, q \in ldr : p[1] = q[1] => p[2] = q[2]

\* "two logs that contain an entry with the same index and term are identical up to that index"
LogMatchingP(nd) ==
    \A a, b \in DOMAIN nd :
        \A i \in 1..(IF Len(nd[a].log) < Len(nd[b].log) THEN Len(nd[a].log) ELSE Len(nd[b].log)) :
            nd[a].log[i].t = nd[b].log[i].t =>
                \A j \in 1..i : nd[a].log[j].t = nd[b].log[j].t /\ nd[a].log[j].c = nd[b].log[j].c

\* "an entry once committed is present in the log of every later leader"
\* (later = leader of a term higher than the term in which the entry was seen committed)
LeaderCompletenessP(nd, cmt) ==
    \A e \in cmt : \A n \in DOMAIN nd :
        (nd[n].role = "L" /\ nd[n].term > e.ct) =>
            /\ Len(nd[n].log) >= e.i
            /\ nd[n].log[e.i].t = e.t
            /\ nd[n].log[e.i].c = e.c

\* "no two nodes ever apply different commands at the same log index"
\* (the k-th command a node applies is the one it applies at index k, see AppliedInOrderP)
StateMachineSafetyP(nd) ==
    \A a, b \in DOMAIN nd :
        \A i \in 1..(IF Len(nd[a].app) < Len(nd[b].app) THEN Len(nd[a].app) ELSE Len(nd[b].app)) :
            nd[a].app[i] = nd[b].app[i]

\* "each node applying indices in order without gaps": a step only extends a node's applied
\* sequence, and the k-th applied command is the command at index k of its own log at that moment
AppliedInOrderP(old, new) ==
    \A n \in DOMAIN new :
        LET a == Len(old[n].app)
            b == Len(new[n].app)
        IN /\ b >= a
           /\ \A k \in 1..a : new[n].app[k] = old[n].app[k]
           /\ \A k \in (a + 1)..b : k <= Len(new[n].log) /\ new[n].log[k].c = new[n].app[k]

\* "a client's submit future resolves only with the index at which exactly its command was committed"
FutureTruthP(futs) == \A f \in futs : f[3] = f[1]

-----------------------------------------------------------------------------
\* history updates
LdrUpd(ldr, nd) == ldr \cup { <<nd[n].term, n>> : n \in { x \in DOMAIN nd : nd[x].role = "L" } }

CmtUpd(cmt, old, new) ==
    LET fresh == UNION { { [i |-> k, t |-> new[n].log[k].t, c |-> new[n].log[k].c, ct |-> new[n].term] :
                           k \in { j \in (old[n].ci + 1)..new[n].ci : j <= Len(new[n].log) } } : n \in DOMAIN new }
        add == { e \in fresh : ~\E f \in cmt : f.i = e.i /\ f.t = e.t /\ f.c = e.c /\ f.ct <= e.ct }
        add2 == { e \in add : ~\E f \in add : f.i = e.i /\ f.t = e.t /\ f.c = e.c /\ f.ct < e.ct }
        keep == { f \in cmt : ~\E e \in add2 : f.i = e.i /\ f.t = e.t /\ f.c = e.c }
    IN keep \cup add2

\* res = sequence of <<op, index, result>> resolved during the step by node n (state new)
FutUpd(futs, res, s) ==
    futs \cup { <<res[k][1], res[k][2],
                  IF res[k][2] >= 1 /\ res[k][2] <= s.ci /\ res[k][2] <= Len(s.log)
                  THEN s.log[res[k][2]].c ELSE 0>> : k \in 1..Len(res) }
=============================================================================
