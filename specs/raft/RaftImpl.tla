----------------------------- MODULE RaftImpl -----------------------------
(* Implementation-shaped model of a happysimulator Raft cluster:             *)
(* N RaftNode objects (handlers in RaftCore.tla), the Network as a bag of     *)
(* in-flight messages with arbitrary delay / reordering / loss, CrashNode     *)
(* faults (the _crashed flag: state retained, every event that targets the    *)
(* node - messages AND its own timers - is dropped), timers as                *)
(* enabled-whenever actions (any timeout draw is allowed), client submits.    *)
(* One action per handler / API call; parameters are the environment's        *)
(* choices; the harness replays behaviours of this model (state-graph dump,   *)
(* error traces) on the real objects.                                         *)
EXTENDS RaftCore, RaftContract, Bags

CONSTANTS MaxTerm,     \* elections are started only below this term
          MaxLog,      \* submit only while the leader's log is shorter
          MaxOps,      \* number of client commands (op ids 1..MaxOps; command = op id)
          MaxMsgs,     \* state constraint: messages in flight
          MaxCrash,    \* number of Crash actions
          Loss,        \* TRUE: the network may lose any message in flight
          TOCode,      \* 0: any node may time out; else decimal digits d1 d2 ..: the k-th election
                       \* timeout overall is by node dk (scenario-guided bounded runs)
          Guide        \* <<>>: free; else the k-th step overall must match Guide[k] (directed search
                       \* for deep scenarios): <<"T",n>> <<"H",n>> <<"S",n>> <<"D",type,src,dst>>

VARIABLES nd,        \* node -> node record (RaftCore)
          msgs,      \* bag of in-flight messages
          crashed,   \* set of crashed nodes
          nops,      \* client commands submitted so far
          ncrash,
          gk,        \* guide position: timeouts so far (TOCode) / steps so far (Guide); else 0
          ldr, cmt, futs    \* contract history (RaftContract)

vars == <<nd, msgs, crashed, nops, ncrash, gk, ldr, cmt, futs>>

RECURSIVE Digits(_)
Digits(x) == IF x = 0 THEN <<>> ELSE Append(Digits(x \div 10), x % 10)
TOSeq == Digits(TOCode)

RECURSIVE SeqBag(_)
SeqBag(q) == IF q = <<>> THEN EmptyBag ELSE SetToBag({Head(q)}) (+) SeqBag(Tail(q))

\* d = descriptor of the step being taken
G(d) == IF Guide # <<>> THEN gk < Len(Guide) /\ Guide[gk + 1] = d /\ gk' = gk + 1
        ELSE IF TOSeq # <<>> /\ d[1] = "T" THEN gk < Len(TOSeq) /\ TOSeq[gk + 1] = d[2] /\ gk' = gk + 1
        ELSE gk' = gk

\* message steps may also name the term of the message: <<"D", type, src, dst, term>>
GD(m) == IF Guide # <<>>
         THEN /\ gk < Len(Guide)
              /\ Guide[gk + 1] \in {<<"D", m.type, m.src, m.dst>>, <<"D", m.type, m.src, m.dst, m.term>>}
              /\ gk' = gk + 1
         ELSE gk' = gk

Init ==
    /\ nd = [n \in Nodes |-> InitNode]
    /\ msgs = EmptyBag
    /\ crashed = {}
    /\ nops = 0 /\ ncrash = 0 /\ gk = 0
    /\ ldr = {} /\ cmt = {} /\ futs = {}

\* node n ran a handler with result r (RaftCore result record)
Step(n, r, bag) ==
    LET nd2 == [nd EXCEPT ![n] = r.s] IN
    /\ nd' = nd2
    /\ msgs' = bag (+) SeqBag(r.out)
    /\ ldr' = LdrUpd(ldr, nd2)
    /\ cmt' = CmtUpd(cmt, nd, nd2)
    /\ futs' = FutUpd(futs, r.res, r.s)

Timeout(n) ==
    /\ n \notin crashed /\ nd[n].et = 1
    /\ nd[n].role # "L" /\ nd[n].term < MaxTerm
    /\ G(<<"T", n>>)
    /\ Step(n, OnTimeout(nd[n], n), msgs)
    /\ UNCHANGED <<crashed, nops, ncrash>>

Heartbeat(n) ==
    /\ n \notin crashed /\ nd[n].hb = 1
    /\ G(<<"H", n>>)
    /\ Step(n, OnHeartbeat(nd[n], n), msgs)
    /\ UNCHANGED <<crashed, nops, ncrash>>

Deliver(m) ==
    /\ BagIn(m, msgs) /\ m.dst \notin crashed
    /\ GD(m)
    /\ Step(m.dst, OnMsg(nd[m.dst], m.dst, m), msgs (-) SetToBag({m}))
    /\ UNCHANGED <<crashed, nops, ncrash>>

\* lost in the network (link loss / partition at send time)
Drop(m) ==
    /\ Loss /\ BagIn(m, msgs)
    /\ G(<<"X", m.type, m.src, m.dst>>)
    /\ msgs' = msgs (-) SetToBag({m})
    /\ UNCHANGED <<nd, crashed, nops, ncrash, ldr, cmt, futs>>

\* delivered to a crashed node: Event.invoke drops it
DeliverCrashed(m) ==
    /\ BagIn(m, msgs) /\ m.dst \in crashed
    /\ GD(m)
    /\ msgs' = msgs (-) SetToBag({m})
    /\ UNCHANGED <<nd, crashed, nops, ncrash, ldr, cmt, futs>>

\* a timer of a crashed node fires: Event.invoke drops it, nothing re-arms it
LoseTimer(n, w) ==
    /\ n \in crashed
    /\ G(<<"L", n>>)
    /\ \/ w = "et" /\ nd[n].et = 1 /\ nd' = [nd EXCEPT ![n].et = 0]
       \/ w = "hb" /\ nd[n].hb = 1 /\ nd' = [nd EXCEPT ![n].hb = 0]
    /\ UNCHANGED <<msgs, crashed, nops, ncrash, ldr, cmt, futs>>

\* RaftNode.submit is a direct call on the object: it works whether or not the node is "crashed"
Submit(n) ==
    /\ nops < MaxOps /\ nd[n].role = "L" /\ Len(nd[n].log) < MaxLog
    /\ G(<<"S", n>>)
    /\ nops' = nops + 1
    /\ Step(n, OnSubmit(nd[n], nops + 1), msgs)
    /\ UNCHANGED <<crashed, ncrash>>

Crash(n) ==
    /\ ncrash < MaxCrash /\ n \notin crashed
    /\ G(<<"C", n>>)
    /\ crashed' = crashed \cup {n} /\ ncrash' = ncrash + 1
    /\ UNCHANGED <<nd, msgs, nops, ldr, cmt, futs>>

Restart(n) ==
    /\ n \in crashed
    /\ G(<<"R", n>>)
    /\ crashed' = crashed \ {n}
    /\ UNCHANGED <<nd, msgs, nops, ncrash, ldr, cmt, futs>>

Next ==
    \/ \E n \in Nodes : Timeout(n) \/ Heartbeat(n) \/ Submit(n) \/ Crash(n) \/ Restart(n)
                        \/ LoseTimer(n, "et") \/ LoseTimer(n, "hb")
    \/ \E m \in BagToSet(msgs) : Deliver(m) \/ Drop(m) \/ DeliverCrashed(m)

Spec == Init /\ [][Next]_vars

Bounded == BagCardinality(msgs) <= MaxMsgs
Perms == Permutations(Nodes)
NoGuide == <<>>

-----------------------------------------------------------------------------
\* contract (RaftContract) instantiated on the model state
ElectionSafety == ElectionSafetyP(ldr)
LogMatching == LogMatchingP(nd)
LeaderCompleteness == LeaderCompletenessP(nd, cmt)
StateMachineSafety == StateMachineSafetyP(nd)
FutureTruth == FutureTruthP(futs)
AppliedInOrder == [][AppliedInOrderP(nd, nd')]_vars

\* model sanity (not part of the contract): shapes the harness projection relies on
TypeOK ==
    \A n \in Nodes :
        /\ nd[n].role \in {"F", "C", "L"}
        /\ nd[n].ci <= Len(nd[n].log)
        /\ \A k \in 1..Len(nd[n].log) : nd[n].log[k].i = k
        /\ (nd[n].role = "L" => nd[n].et = 0)
        /\ (nd[n].role # "L" => nd[n].hb = 0)

-----------------------------------------------------------------------------
(* Fault-free clause: "on a fault-free network whose delays are well below    *)
(* the election timeout every command submitted to the single established     *)
(* leader is committed and applied, in submission order, by every node".      *)
(* Fault-free sub-behaviours: one node times out once, nothing is lost, no    *)
(* crash, every message is delivered before the next heartbeat tick (delays   *)
(* below the heartbeat interval, which is below the election timeout).        *)
FFNext ==
    \/ \E n \in Nodes : Timeout(n) /\ \A k \in Nodes : nd[k].term = 0
    \/ \E m \in BagToSet(msgs) : Deliver(m)
    \/ \E n \in Nodes : Heartbeat(n) /\ msgs = EmptyBag
    \/ \E n \in Nodes : Submit(n)
FFSpec == Init /\ [][FFNext]_vars
              /\ WF_vars(\E m \in BagToSet(msgs) : Deliver(m))
              /\ WF_vars(\E n \in Nodes : Heartbeat(n) /\ msgs = EmptyBag)
              /\ WF_vars(\E n \in Nodes : Timeout(n) /\ \A k \in Nodes : nd[k].term = 0)

RECURSIVE Iota(_)
Iota(k) == IF k = 0 THEN <<>> ELSE Append(Iota(k - 1), k)
\* all submitted commands applied everywhere in submission order, futures resolved with their index
Settled == /\ \A n \in Nodes : nd[n].app = Iota(nops)
           /\ \A op \in 1..nops : <<op, op, op>> \in futs
Progress == <>[]Settled

-----------------------------------------------------------------------------
(* Directed scenario (5 nodes) for "stale_term_ae_response": an AppendEntries  *)
(* success answered to n1 while it led term 1 is delivered after n1 has been  *)
(* re-elected in term 3 with a rewritten log; it counts towards the commit of  *)
(* a term-3 entry that only 2 of 5 nodes hold; n3 is then elected in term 4    *)
(* without it.                                                                 *)
StaleGuide == <<
    <<"T", 1>>, <<"D", "RV", 1, 2>>, <<"D", "RV", 1, 3>>, <<"D", "RVR", 2, 1>>, <<"D", "RVR", 3, 1>>,
    <<"S", 1>>, <<"S", 1>>, <<"H", 1>>, <<"D", "AE", 1, 2>>,
    <<"T", 3>>, <<"D", "RV", 3, 4>>, <<"D", "RV", 3, 5>>, <<"D", "RVR", 4, 3>>, <<"D", "RVR", 5, 3>>,
    <<"S", 3>>, <<"H", 3>>, <<"D", "AE", 3, 1>>, <<"D", "AE", 3, 4>>, <<"D", "AER", 1, 3>>, <<"D", "AER", 4, 3>>,
    <<"T", 1>>, <<"D", "RV", 1, 4>>, <<"D", "RV", 1, 5>>, <<"D", "RVR", 4, 1>>, <<"D", "RVR", 5, 1>>,
    <<"S", 1>>, <<"D", "AER", 2, 1>>, <<"H", 1>>, <<"D", "AE", 1, 4>>, <<"D", "AER", 4, 1>>,
    <<"D", "RV", 1, 3>>, <<"T", 3>>, <<"D", "RV", 3, 2>>, <<"D", "RV", 3, 5>>,
    <<"D", "RVR", 2, 3>>, <<"D", "RVR", 5, 3>> >>

(* Directed scenario (5 nodes), the "figure 8" history with a twist: n1      *)
(* (term 1) replicates A to n2 only; n5 wins term 2 with n3,n4 and appends B  *)
(* locally; n1 wins term 3 with n2,n3, brings n2 and n3 up to A through the   *)
(* back-off re-send while it has already appended C (term 3) locally: A      *)
(* (term 1) is now on 3 of 5 nodes but must NOT be committed by counting;     *)
(* n5 wins term 4 with n2,n3,n4, overwrites index 1 with B and commits.       *)
(* Every "D" step ranges over all in-flight messages of that class, so the    *)
(* graph also contains the variants with the older/newer message delivered.   *)
Fig8Guide == <<
    <<"T", 1>>, <<"D", "RV", 1, 2>>, <<"D", "RV", 1, 3>>, <<"D", "RV", 1, 4>>, <<"D", "RV", 1, 5>>,
    <<"D", "RVR", 2, 1>>, <<"D", "RVR", 3, 1>>,
    <<"S", 1>>, <<"H", 1>>, <<"D", "AE", 1, 2>>,
    <<"T", 5>>, <<"D", "RV", 5, 3>>, <<"D", "RV", 5, 4>>, <<"D", "RVR", 3, 5>>, <<"D", "RVR", 4, 5>>, <<"S", 5>>,
    <<"D", "AE", 5, 1>>, <<"T", 1>>, <<"D", "RV", 1, 2, 3>>, <<"D", "RV", 1, 3, 3>>,
    <<"D", "RVR", 2, 1, 3>>, <<"D", "RVR", 3, 1, 3>>,
    <<"D", "AE", 1, 2, 3>>, <<"D", "AER", 2, 1, 3>>, <<"D", "AE", 1, 3, 3>>, <<"D", "AER", 3, 1, 3>>,
    <<"S", 1>>, <<"D", "AE", 1, 3, 3>>, <<"D", "AER", 3, 1, 3>>,
    <<"D", "AE", 1, 5, 3>>, <<"T", 5>>, <<"D", "RV", 5, 2, 4>>, <<"D", "RV", 5, 3, 4>>, <<"D", "RV", 5, 4, 4>>,
    <<"D", "RVR", 2, 5, 4>>, <<"D", "RVR", 3, 5, 4>>,
    <<"D", "AE", 5, 2, 4>>, <<"D", "AER", 2, 5, 4>>, <<"D", "AE", 5, 3, 4>>, <<"D", "AER", 3, 5, 4>>,
    <<"S", 5>>, <<"H", 5>>, <<"D", "AE", 5, 2, 4>>, <<"D", "AER", 2, 5, 4>>, <<"D", "AE", 5, 3, 4>>,
    <<"D", "AER", 3, 5, 4>>, <<"H", 5>>, <<"D", "AE", 5, 2, 4>>, <<"D", "AE", 5, 3, 4>>, <<"D", "AE", 5, 1, 4>> >>

(* Directed scenario (5 nodes), split vote and retry: n1 and n2 campaign in   *)
(* term 1 and each get one foreign vote (n3 -> n1, n5 -> n2), n4 is silent;   *)
(* both time out again WITHOUT stepping down (candidate -> candidate, term 2);*)
(* n3 and n5 now vote n2 (leader of term 2 with 3 votes), n4 votes n1: n1 has *)
(* two votes of term 2 and must not count n3's vote of term 1.                *)
SplitVoteGuide == <<
    <<"T", 1>>, <<"T", 2>>, <<"D", "RV", 1, 3>>, <<"D", "RV", 2, 5>>, <<"D", "RVR", 3, 1>>, <<"D", "RVR", 5, 2>>,
    <<"T", 2>>, <<"T", 1>>, <<"D", "RV", 2, 3, 2>>, <<"D", "RV", 2, 5, 2>>, <<"D", "RVR", 3, 2, 2>>,
    <<"D", "RVR", 5, 2, 2>>, <<"D", "RV", 1, 4>>, <<"D", "RVR", 4, 1>>, <<"S", 2>>, <<"H", 2>>, <<"D", "AE", 2, 1>>, <<"D", "AER", 1, 2>> >>

(* Directed scenario (3 nodes), AppendEntries of ONE term reordered to one     *)
(* follower, then a leader change: n1 leads term 1, appends X1, heartbeat (#1  *)
(* carries X1), appends X2, heartbeat (#2 carries X1,X2); the three requests   *)
(* n1 -> n2 in flight (initial empty one, #1, #2) are delivered in every order *)
(* (the graph has all of them), n2 answers, n1 commits; n2 then wins term 2    *)
(* with the vote of n3 (empty log), appends Y and commits it with n3.          *)
ReorderGuide == <<
    <<"T", 1>>, <<"D", "RV", 1, 2>>, <<"D", "RVR", 2, 1>>,
    <<"S", 1>>, <<"H", 1>>, <<"S", 1>>, <<"H", 1>>,
    <<"D", "AE", 1, 2>>, <<"D", "AER", 2, 1>>, <<"D", "AE", 1, 2>>, <<"D", "AE", 1, 2>>,
    <<"T", 2>>, <<"D", "RV", 2, 3, 2>>, <<"D", "RVR", 3, 2, 2>>,
    <<"S", 2>>, <<"H", 2>>, <<"D", "AE", 2, 3>>, <<"D", "AER", 3, 2>>, <<"D", "AE", 2, 3>>, <<"D", "AER", 3, 2>> >>

(* Directed scenario (3 nodes), partitioned leader with a longer, older log:   *)
(* n1 leads term 1 and, cut off, appends X1,X2,X3 (uncommitted); n2 wins term  *)
(* 2 with n3, appends Y, commits it with n3; after the heal n1 learns of term 2*)
(* from the refusal of its own heartbeat, steps down, times out first and asks *)
(* for votes in term 3 with (last index 3, last term 1) against (1, term 2):   *)
(* it must be refused.                                                         *)
PartitionGuide == <<
    <<"T", 1>>, <<"D", "RV", 1, 2>>, <<"D", "RVR", 2, 1>>,
    <<"S", 1>>, <<"S", 1>>, <<"S", 1>>,
    <<"T", 2>>, <<"D", "RV", 2, 3, 2>>, <<"D", "RVR", 3, 2, 2>>,
    <<"S", 2>>, <<"H", 2>>, <<"D", "AE", 2, 3, 2>>, <<"D", "AER", 3, 2, 2>>, <<"D", "AE", 2, 3, 2>>, <<"D", "AER", 3, 2, 2>>,
    <<"H", 2>>, <<"D", "AE", 2, 3, 2>>,
    <<"H", 1>>, <<"D", "AE", 1, 3, 1>>, <<"D", "AER", 3, 1, 2>>,
    <<"T", 1>>, <<"D", "RV", 1, 3, 3>>, <<"D", "RVR", 3, 1, 3>>, <<"D", "RV", 1, 2, 3>>, <<"D", "RVR", 2, 1, 3>>,
    <<"S", 1>>, <<"H", 1>>, <<"D", "AE", 1, 3, 3>>, <<"D", "AER", 3, 1, 3>>, <<"D", "AE", 1, 3, 3>>, <<"D", "AER", 3, 1, 3>> >>
=============================================================================
