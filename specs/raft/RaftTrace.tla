----------------------------- MODULE RaftTrace -----------------------------
(* Trace validation for C11.  Input: IOEnv.TRACE_FILE = JSON array of         *)
(* executions of REAL RaftNode objects (direct drive by the harness or a real *)
(* Simulation with the real Network), all with the same cluster size          *)
(* (constant Nodes = 1..N):                                                   *)
(*   [ id |-> k, init |-> << node records >>,                                 *)
(*     steps |-> << [a |-> "T"|"H", n, post, out, res]        timer fired     *)
(*                  [a |-> "D", n, m, post, out, res]          message m delivered to n *)
(*                  [a |-> "S", n, op, post, out, res]         submit(op) called on n   *)
(*                  [a |-> "X"|"R", n]                         crash / restart          *)
(*                  [a |-> "LT", n, w, post]                   timer of crashed n lost  *)
(*                  [a |-> "DC", n, m] | [a |-> "DR", m]       message dropped          *)
(*                  [a |-> "F", n, post]                       node changed outside a step *)
(*               >> ]                                                         *)
(* post = projection of node n after the step (RaftCore node record with      *)
(* votes/pend as sequences), out = messages the handler handed to the network,*)
(* res = <<op, index, result>> of submit futures resolved during the step.    *)
(*                                                                            *)
(* For every step the RaftCore handler is evaluated on the OBSERVED pre-state *)
(* and compared with the observed post-state / outputs (model conformance),   *)
(* and every RaftContract predicate is evaluated on the observed states.      *)
(* The spec is total.  Exactly one line per trace:                            *)
(*      <<"V", id, verdict, pos, mpos, fails, fired>>                         *)
(*   verdict "ACCEPT" | "PROP:<clause>" (contract false on the observed       *)
(*   execution, first such step = pos) | "MODEL:<what>" (code and model       *)
(*   disagree, no contract clause false).  mpos = first step at which model   *)
(*   and code disagreed (0 = never): a contract failure at a step before mpos *)
(*   (or with mpos = 0) belongs to an execution this model (with its Dev)     *)
(*   reproduces exactly.  fails = <<clause, first step>> for EVERY clause     *)
(*   that became false somewhere in the trace (the walk does not stop at the  *)
(*   first one, so that a known failure does not hide a different one).       *)
(*   fired = <<deviation, first step>> for every deviation of Dev that made a  *)
(*   difference in this execution (attribution of reproduced failures).        *)
EXTENDS RaftCore, RaftContract, Bags, Json, IOUtils

Traces == JsonDeserialize(IOEnv.TRACE_FILE)
NT == Len(Traces)

VARIABLES ti, k, cur, bag, down, ldr, cmt, futs, fails, fired, mv, mpos
tvars == <<ti, k, cur, bag, down, ldr, cmt, futs, fails, fired, mv, mpos>>

\* the same handlers with one deviation of Dev switched off: a deviation "fires" at a step when
\* switching it off changes what the model computes from the observed pre-state of that step
NoVote == INSTANCE RaftCore WITH Dev <- Dev \ {"same_term_ae_clears_vote"}
NoMatch == INSTANCE RaftCore WITH Dev <- Dev \ {"match_is_follower_last_index"}
NoFut == INSTANCE RaftCore WITH Dev <- Dev \ {"future_keyed_by_index_only"}
NoStale == INSTANCE RaftCore WITH Dev <- Dev \ {"stale_term_ae_response"}
NoOldCommit == INSTANCE RaftCore WITH Dev <- Dev \ {"commit_counts_old_term_entry"}
NoTally == INSTANCE RaftCore WITH Dev <- Dev \ {"vote_tally_survives_retry"}
NoSplice == INSTANCE RaftCore WITH Dev <- Dev \ {"ae_replaces_suffix"}
NoLonger == INSTANCE RaftCore WITH Dev <- Dev \ {"vote_prefers_longer_log"}
DevOrder == <<"same_term_ae_clears_vote", "match_is_follower_last_index", "future_keyed_by_index_only",
              "stale_term_ae_response", "commit_counts_old_term_entry", "vote_tally_survives_retry",
              "ae_replaces_suffix", "vote_prefers_longer_log">>
Firing(s, self, st, r) ==
    (IF NoVote!OnStep(s, self, st) # r THEN {DevOrder[1]} ELSE {})
    \cup (IF NoMatch!OnStep(s, self, st) # r THEN {DevOrder[2]} ELSE {})
    \cup (IF NoFut!OnStep(s, self, st) # r THEN {DevOrder[3]} ELSE {})
    \cup (IF NoStale!OnStep(s, self, st) # r THEN {DevOrder[4]} ELSE {})
    \cup (IF NoOldCommit!OnStep(s, self, st) # r THEN {DevOrder[5]} ELSE {})
    \cup (IF NoTally!OnStep(s, self, st) # r THEN {DevOrder[6]} ELSE {})
    \cup (IF NoSplice!OnStep(s, self, st) # r THEN {DevOrder[7]} ELSE {})
    \cup (IF NoLonger!OnStep(s, self, st) # r THEN {DevOrder[8]} ELSE {})

ToSet(q) == { q[j] : j \in 1..Len(q) }
RECURSIVE SeqBag(_)
SeqBag(q) == IF q = <<>> THEN EmptyBag ELSE SetToBag({Head(q)}) (+) SeqBag(Tail(q))

Canon(o) == [role |-> o.role, term |-> o.term, voted |-> o.voted, log |-> o.log, ci |-> o.ci, la |-> o.la,
             app |-> o.app, votes |-> ToSet(o.votes), ni |-> [p \in Nodes |-> o.ni[p]],
             mi |-> [p \in Nodes |-> o.mi[p]], et |-> o.et, hb |-> o.hb, pend |-> ToSet(o.pend)]

Load(T) == [n \in Nodes |-> Canon(T.init[n])]
Dummy == [n \in Nodes |-> InitNode]

Init ==
    /\ ti = 1 /\ k = 1
    /\ cur = IF NT = 0 THEN Dummy ELSE Load(Traces[1])
    /\ bag = EmptyBag /\ down = {}
    /\ ldr = IF NT = 0 THEN {} ELSE LdrUpd({}, Load(Traces[1]))
    /\ cmt = {} /\ futs = {}
    /\ fails = <<>> /\ fired = <<>> /\ mv = "" /\ mpos = 0

Order == <<"ElectionSafety", "LogMatching", "LeaderCompleteness", "AppliedInOrder", "StateMachineSafety",
           "FutureTruth">>
Seen == { fails[j][1] : j \in 1..Len(fails) }

\* contract clauses false on the step cur -> new
Bad(new, l2, c2, f2) ==
    (IF ElectionSafetyP(l2) THEN {} ELSE {"ElectionSafety"})
    \cup (IF LogMatchingP(new) THEN {} ELSE {"LogMatching"})
    \cup (IF LeaderCompletenessP(new, c2) THEN {} ELSE {"LeaderCompleteness"})
    \cup (IF AppliedInOrderP(cur, new) THEN {} ELSE {"AppliedInOrder"})
    \cup (IF StateMachineSafetyP(new) THEN {} ELSE {"StateMachineSafety"})
    \cup (IF FutureTruthP(f2) THEN {} ELSE {"FutureTruth"})

RECURSIVE Note(_, _, _, _)
Note(ord, fs, b, j) == IF j > Len(ord) THEN fs
                       ELSE IF ord[j] \in b THEN Note(ord, Append(fs, <<ord[j], k>>), b, j + 1)
                       ELSE Note(ord, fs, b, j + 1)

Judge(new, l2, c2, f2) == fails' = Note(Order, fails, Bad(new, l2, c2, f2) \ Seen, 1)
FiredSeen == { fired[j][1] : j \in 1..Len(fired) }
Mis(mm) == mv' = (IF mv = "" THEN mm ELSE mv) /\ mpos' = (IF mv = "" /\ mm # "" THEN k ELSE mpos)

\* a step that ran code on node n: model result r, observed post/out/res
Ran(st, what, bag1, pre) ==
    LET r == OnStep(cur[st.n], st.n, st)
        post == Canon(st.post)
        new == [cur EXCEPT ![st.n] = post]
        l2 == LdrUpd(ldr, new)
        c2 == CmtUpd(cmt, cur, new)
        f2 == FutUpd(futs, st.res, post)
        mm == IF pre # "" THEN pre
              ELSE IF st.n \in down /\ what # "submit" THEN "MODEL:crashed_node_ran"
              ELSE IF r.s # post THEN "MODEL:state_" \o what
              ELSE IF SeqBag(r.out) # SeqBag(st.out) THEN "MODEL:out_" \o what
              ELSE IF r.res # st.res THEN "MODEL:futures_" \o what
              ELSE ""
    IN /\ cur' = new /\ ldr' = l2 /\ cmt' = c2 /\ futs' = f2
       /\ bag' = bag1 (+) SeqBag(st.out)
       /\ Judge(new, l2, c2, f2) /\ Mis(mm)
       /\ fired' = Note(DevOrder, fired, Firing(cur[st.n], st.n, st, r) \ FiredSeen, 1)
       /\ UNCHANGED down

Quiet(mm) == Mis(mm) /\ UNCHANGED <<cur, ldr, cmt, futs, fails, fired>>

StepRec(st) ==
    CASE st.a = "T" -> Ran(st, "timeout", bag, "")
      [] st.a = "H" -> Ran(st, "heartbeat", bag, "")
      [] st.a = "S" -> Ran(st, "submit", bag, "")
      [] st.a = "D" -> Ran(st, "deliver_" \o st.m.type, bag (-) SetToBag({st.m}),
                           IF BagIn(st.m, bag) THEN "" ELSE "MODEL:deliver_unsent")
      [] st.a = "X" -> down' = down \cup {st.n} /\ Quiet("") /\ UNCHANGED bag
      [] st.a = "R" -> down' = down \ {st.n} /\ Quiet("") /\ UNCHANGED bag
      [] st.a = "LT" ->
           LET post == Canon(st.post)
               exp == IF st.w = "et" THEN [cur[st.n] EXCEPT !.et = 0] ELSE [cur[st.n] EXCEPT !.hb = 0]
               mm == IF st.n \notin down THEN "MODEL:timer_lost_on_live_node"
                     ELSE IF post # exp THEN "MODEL:state_timer_lost" ELSE ""
           IN /\ cur' = [cur EXCEPT ![st.n] = post] /\ Mis(mm)
              /\ UNCHANGED <<bag, down, ldr, cmt, futs, fails, fired>>
      [] st.a = "DC" ->
           /\ bag' = bag (-) SetToBag({st.m}) /\ UNCHANGED down
           /\ Quiet(IF st.n \notin down THEN "MODEL:message_dropped_at_live_node"
                    ELSE IF ~BagIn(st.m, bag) THEN "MODEL:deliver_unsent" ELSE "")
      [] st.a = "DR" ->
           /\ bag' = bag (-) SetToBag({st.m}) /\ UNCHANGED down
           /\ Quiet(IF ~BagIn(st.m, bag) THEN "MODEL:deliver_unsent" ELSE "")
      [] st.a = "F" ->
           \* a node's observable state changed although no handler of that node ran: evaluate the
           \* contract on what was observed, report the frame violation as model mismatch
           LET post == Canon(st.post)
               new == [cur EXCEPT ![st.n] = post]
               l2 == LdrUpd(ldr, new)
               c2 == CmtUpd(cmt, cur, new)
           IN /\ cur' = new /\ ldr' = l2 /\ cmt' = c2 /\ UNCHANGED <<futs, bag, down, fired>>
              /\ Judge(new, l2, c2, futs) /\ Mis("MODEL:frame")
      [] OTHER -> Quiet("MODEL:unknown_step") /\ UNCHANGED <<bag, down>>

RECURSIVE FailStr(_)
FailStr(fs) == IF fs = <<>> THEN ""
               ELSE fs[1][1] \o ":" \o ToString(fs[1][2]) \o ";" \o FailStr(Tail(fs))

Finish ==
    LET verdict == IF fails # <<>> THEN "PROP:" \o fails[1][1] ELSE IF mv # "" THEN mv ELSE "ACCEPT"
        pos == IF fails # <<>> THEN fails[1][2] ELSE IF mv # "" THEN mpos ELSE k - 1
    IN /\ PrintT(<<"V", Traces[ti].id, verdict, pos, mpos, FailStr(fails), FailStr(fired)>>)
       /\ ti' = ti + 1 /\ k' = 1
       /\ cur' = IF ti < NT THEN Load(Traces[ti + 1]) ELSE Dummy
       /\ ldr' = IF ti < NT THEN LdrUpd({}, Load(Traces[ti + 1])) ELSE {}
       /\ bag' = EmptyBag /\ down' = {} /\ cmt' = {} /\ futs' = {}
       /\ fails' = <<>> /\ fired' = <<>> /\ mv' = "" /\ mpos' = 0

Next ==
    /\ ti <= NT
    /\ IF k > Len(Traces[ti].steps) THEN Finish
       ELSE StepRec(Traces[ti].steps[k]) /\ k' = k + 1 /\ ti' = ti

Spec == Init /\ [][Next]_tvars
=============================================================================
