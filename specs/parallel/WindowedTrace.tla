--------------------------- MODULE WindowedTrace ---------------------------
(* Trace validation for C05.  Input: IOEnv.TRACE_FILE = JSON array of         *)
(* executions of the REAL code: the same program built twice, once as a       *)
(* ParallelSimulation and once as one sequential Simulation (coordinated      *)
(* traces) or as one Simulation per partition (independent traces).           *)
(*   [ id, mode ("coord" | "indep"), ep, np, links << <<p,q,lat>>.. >>, w,    *)
(*     endT, n0, s0 (first window end),                                        *)
(*     evs << <<t, tgt, par, cby, d>>.. >>  the program (ticks; cby = canceller,  *)
(*                                          d = 1 for a daemon event)           *)
(*     seq << per entity: << <<i, t>>.. >> >>  reference run, observed         *)
(*     log << record.. >> ]                 partitioned run, observed:         *)
(*   <<"d", p, i, t>>  partition p delivered event i, entity clock read t       *)
(*   <<"s", p, i>>     partition p logged "Time travel detected" for event i    *)
(*   <<"x", p, c>>     the handler just delivered in partition p called c.cancel()*)
(*   <<"k", p, c>>     partition p popped the cancelled event c (lazy deletion)  *)
(*   <<"D", p>>        _run_window of partition p returned                      *)
(*   <<"X", << <<i, q>>.. >> >>  barrier: events injected into partition q     *)
(*   <<"A", n, s>>     next window end (n ticks, s short) | <<"A", -1, 0>> stop *)
(*   <<"I", p, i, t>>  independent mode delivery                               *)
(*   <<"C">>           run() raised during the barrier exchange                 *)
(*   optional fields: ovl << <<p,q>>.. >> links declaring a LatencyDistribution, *)
(*   err "" | "no_sample" | "other" how run() ended                             *)
(*   <<"end">>                                                                 *)
(* One verdict line per trace: <<"V", id, verdict, pos>>                       *)
(*   "ACCEPT"                                                                  *)
(*   "PROP:<clause>"   a clause of the C05 statement is false on the OBSERVED   *)
(*                     logs (never on model state); the suffixes                *)
(*                     ":window_overshoot" / ":link_latency_no_sample" name the *)
(*                     shape of the failing execution (computed from observed   *)
(*                     data only, whether or not the finding is still open)     *)
(*   "MODEL:<what>"    the run is not a behaviour of Windowed.tla (drift)       *)
EXTENDS Windowed, Json, IOUtils

Traces == JsonDeserialize(IOEnv.TRACE_FILE)
NT == Len(Traces)

VARIABLES ti, l,
          conform, mis,      \* the observed run still follows Windowed.tla / first mismatch
          olog,              \* observed: per entity << <<i, t>>.. >>
          oclk, oend, oovr, wild,   \* observed per partition clock, current window end, overshoot ghost
          known,             \* cross events discarded as past, shape = window_overshoot
          oinj,              \* observed barrier injections <<event, partition>>
          bad, badpos        \* first unexplained contract failure
tvars == <<vars, ti, l, conform, mis, olog, oclk, oend, oovr, wild, known, oinj, bad, badpos>>

Tr == Traces[ti]
Rng(s) == { s[k] : k \in 1..Len(s) }
TLinks(T) == { <<x[1], x[2]>> : x \in Rng(T.links) }
TLat(T) == [k \in TLinks(T) |-> (CHOOSE x \in Rng(T.links) : <<x[1], x[2]>> = k)[3]]
TEv(T) == [k \in 1..Len(T.evs) |-> [t |-> T.evs[k][1], tgt |-> T.evs[k][2], par |-> T.evs[k][3],
                                      cby |-> IF Len(T.evs[k]) >= 4 THEN T.evs[k][4] ELSE 0,
                                      d |-> Len(T.evs[k]) >= 5 /\ T.evs[k][5] = 1]]

\* state of Windowed.tla at the first window of the partitioned run of trace T
LoadState(T) ==
    LET c == [ep |-> T.ep, np |-> T.np, links |-> TLinks(T), endT |-> T.endT,
              ovl |-> IF "ovl" \in DOMAIN T THEN { <<x[1], x[2]>> : x \in Rng(T.ovl) } ELSE {}]
        e == TEv(T)
        P == 1..T.np
    IN [conf |-> c, lat |-> TLat(T), w |-> T.w, ev |-> e,
        heap |-> [p \in P |-> { i \in 1..Len(e) : e[i].par = 0 /\ T.ep[e[i].tgt] = p }],
        sub |-> IF T.mode = "indep" THEN "indep" ELSE "exec",
        endN |-> T.n0, endS |-> T.s0, P |-> P, E |-> 1..Len(T.ep)]

Load(T) ==
    LET S == LoadState(T) IN
    /\ conf' = S.conf /\ lat' = S.lat /\ w' = S.w /\ ev' = S.ev /\ phase' = "par"
    /\ sheap' = {} /\ slog' = [e \in S.E |-> <<>>]
    /\ heap' = S.heap /\ clock' = [p \in S.P |-> 0] /\ outbox' = [p \in S.P |-> {}]
    /\ pdone' = [p \in S.P |-> FALSE] /\ curN' = 0 /\ curS' = 0 /\ endN' = S.endN /\ endS' = S.endS
    /\ sub' = S.sub /\ plog' = [e \in S.E |-> <<>>] /\ dropped' = {} /\ late' = {}
    /\ pcx' = {} /\ drain' = [p \in S.P |-> FALSE]
    /\ ovr' = [p \in S.P |-> -1] /\ shist' = <<S.endS>>
    /\ conform' = TRUE /\ mis' = "" /\ olog' = [e \in S.E |-> <<>>]
    /\ oclk' = [p \in S.P |-> 0] /\ oend' = S.endN - S.endS /\ oovr' = [p \in S.P |-> -1]
    /\ wild' = [p \in S.P |-> FALSE] /\ known' = {} /\ oinj' = {} /\ bad' = "" /\ badpos' = 0

TInit ==
    /\ ti = 1 /\ l = 1
    /\ IF NT = 0
       THEN /\ conf = [ep |-> <<1>>, np |-> 1, links |-> {}, endT |-> Inf] /\ lat = <<>> /\ w = 0 /\ ev = <<>>
            /\ heap = <<{}>> /\ sub = "-" /\ endN = 0 /\ endS = 0
            /\ clock = <<0>> /\ outbox = <<{}>> /\ pdone = <<FALSE>> /\ slog = <<<<>>>> /\ plog = <<<<>>>>
            /\ drain = <<FALSE>>
            /\ ovr = <<-1>> /\ shist = <<>> /\ olog = <<<<>>>> /\ oclk = <<0>> /\ oend = 0 /\ oovr = <<-1>>
            /\ wild = <<FALSE>>
       ELSE LET S == LoadState(Traces[1]) IN
            /\ conf = S.conf /\ lat = S.lat /\ w = S.w /\ ev = S.ev /\ heap = S.heap /\ sub = S.sub
            /\ endN = S.endN /\ endS = S.endS
            /\ clock = [p \in S.P |-> 0] /\ outbox = [p \in S.P |-> {}] /\ pdone = [p \in S.P |-> FALSE]
            /\ slog = [e \in S.E |-> <<>>] /\ plog = [e \in S.E |-> <<>>]
            /\ drain = [p \in S.P |-> FALSE]
            /\ ovr = [p \in S.P |-> -1] /\ shist = <<S.endS>> /\ olog = [e \in S.E |-> <<>>]
            /\ oclk = [p \in S.P |-> 0] /\ oend = S.endN - S.endS /\ oovr = [p \in S.P |-> -1]
            /\ wild = [p \in S.P |-> FALSE]
    /\ phase = "par" /\ sheap = {} /\ curN = 0 /\ curS = 0 /\ dropped = {} /\ late = {} /\ pcx = {}
    /\ conform = TRUE /\ mis = "" /\ known = {} /\ oinj = {} /\ bad = "" /\ badpos = 0

\* ---- following the implementation model -------------------------------------
Mismatch(what) ==
    /\ conform' = FALSE /\ mis' = (IF conform THEN what ELSE mis)
    /\ UNCHANGED vars
Follow(ok, A, what) == IF conform /\ ok THEN A /\ UNCHANGED <<conform, mis>> ELSE Mismatch(what)

\* ---- observed data ------------------------------------------------------------
OIds(e) == { olog[e][k][1] : k \in 1..Len(olog[e]) }
ODelivered == UNION { OIds(e) : e \in DOMAIN olog }
TCross(i) == Tr.evs[i][3] # 0 /\ Tr.ep[Tr.evs[Tr.evs[i][3]][2]] # Tr.ep[Tr.evs[i][2]]
Flag(v) == IF bad = "" THEN bad' = v /\ badpos' = l ELSE UNCHANGED <<bad, badpos>>
NoFlag == UNCHANGED <<bad, badpos>>
KnownIds == { k \in 1..Len(Tr.evs) : k \in known }

\* a delivery record: contract clauses that can be judged on the spot
DeliverVerdict(i, t) ==
    LET e == Tr.evs[i][2] IN
    IF i \in ODelivered THEN "PROP:duplicated"
    ELSE IF Len(olog[e]) > 0 /\ olog[e][Len(olog[e])][2] > t THEN "PROP:time_order"
    ELSE ""

ObsDeliver(p, i, t) ==
    /\ olog' = [olog EXCEPT ![Tr.evs[i][2]] = Append(@, <<i, t>>)]
    /\ LET v == DeliverVerdict(i, t) IN IF v # "" THEN Flag(v) ELSE NoFlag
    \* observation-level shape of the as-code loop: a partition whose clock is inside the window may
    \* deliver ONE event beyond the window end (oovr); delivering while the clock is already beyond
    \* the end is not the known loop (wild)
    /\ wild' = [wild EXCEPT ![p] = @ \/ oclk[p] > oend]
    /\ oovr' = [oovr EXCEPT ![p] = IF t > oend THEN oend ELSE -1]
    /\ oclk' = [oclk EXCEPT ![p] = t]
    /\ UNCHANGED <<oend, known, oinj>>

\* "Time travel detected": a cross-partition event discarded as past is a contract failure;
\* it has the known shape iff the partition's clock stands beyond a window end only because of one
\* as-code overshoot delivery and the discarded event is not earlier than that window end
ObsSkip(p, i) ==
    /\ IF ~TCross(i) THEN NoFlag /\ UNCHANGED known
       ELSE IF oovr[p] >= 0 /\ ~wild[p] /\ Tr.evs[i][1] >= oovr[p]
            THEN known' = known \cup {i} /\ NoFlag
            ELSE Flag("PROP:discarded_past") /\ UNCHANGED known
    /\ UNCHANGED <<olog, oclk, oend, oovr, wild, oinj>>

ObsNone == UNCHANGED <<olog, oclk, oend, oovr, wild, known, oinj>> /\ NoFlag

ValidEv(i) == i \in 1..Len(Tr.evs)
ValidP(p) == p \in 1..Tr.np

StepRec(r) ==
    CASE r[1] = "d" /\ ValidEv(r[3]) /\ ValidP(r[2]) ->
           /\ ObsDeliver(r[2], r[3], r[4])
           /\ Follow(ExecGuard(r[2], r[3]) /\ r[3] \notin pcx /\ ev[r[3]].t >= clock[r[2]] /\ r[4] = ev[r[3]].t,
                     ExecStep(r[2], r[3]), "deliver")
      [] r[1] = "s" /\ ValidEv(r[3]) /\ ValidP(r[2]) ->
           /\ ObsSkip(r[2], r[3])
           /\ Follow(ExecGuard(r[2], r[3]) /\ r[3] \notin pcx /\ ev[r[3]].t < clock[r[2]],
                     ExecStep(r[2], r[3]), "skip")
      [] r[1] = "k" /\ ValidEv(r[3]) /\ ValidP(r[2]) ->
           /\ ObsNone
           /\ IF Tr.mode = "indep"
              THEN Follow(IndepGuard(r[2], r[3]) /\ r[3] \in pcx, IndepStep(r[2], r[3]), "cancelled_pop")
              ELSE Follow(ExecGuard(r[2], r[3]) /\ r[3] \in pcx, ExecStep(r[2], r[3]), "cancelled_pop")
      [] r[1] = "x" /\ ValidEv(r[3]) /\ ValidP(r[2]) ->
           \* the model cancels inside the delivery step; here only: was that a timer the model disarmed?
           /\ ObsNone
           /\ Follow(r[3] \in pcx, UNCHANGED vars, "cancel")
      [] r[1] = "D" /\ ValidP(r[2]) ->
           /\ ObsNone
           /\ Follow(DoneGuard(r[2]), ExecDone(r[2]), "window_return")
      [] r[1] = "X" ->
           /\ UNCHANGED <<olog, oclk, oend, oovr, wild, known>> /\ NoFlag
           /\ oinj' = oinj \cup { <<x[1], x[2]>> : x \in Rng(r[2]) }
           /\ Follow(ExchangeGuard /\ { <<x[1], x[2]>> : x \in Rng(r[2]) } = { <<c, PartEv(c)>> : c \in Arriving }
                        /\ Len(r[2]) = Cardinality(Arriving),
                     Exchange, "exchange")
      [] r[1] = "C" ->
           /\ ObsNone
           /\ Follow(ExchangeGuard /\ Crashes, ExchangeCrash, "crash")
      [] r[1] = "A" ->
           /\ UNCHANGED <<olog, oclk, oovr, wild, known, oinj>> /\ NoFlag
           /\ oend' = (IF r[2] = -1 THEN oend ELSE r[2] - r[3])
           /\ LET S == { s \in {endS, 1} : WinEnd(endN, s) = <<r[2], r[3]>> } IN
              Follow(AdvanceGuard /\ (IF r[2] = -1 THEN Terminating ELSE ~Terminating /\ S # {}),
                     Advance(IF r[2] = -1 \/ S = {} THEN 0 ELSE CHOOSE s \in S : TRUE), "advance")
      [] r[1] = "I" /\ ValidEv(r[3]) /\ ValidP(r[2]) ->
           /\ ObsDeliver(r[2], r[3], r[4])
           /\ Follow(IndepGuard(r[2], r[3]) /\ r[3] \notin pcx /\ r[4] = ev[r[3]].t,
                     IndepStep(r[2], r[3]), "indep_deliver")
      [] r[1] = "end" ->
           /\ ObsNone
           /\ Follow(IF Tr.mode = "indep" THEN phase = "par" /\ \A p \in Parts : ~IndepCanPop(p)
                     ELSE Over, UNCHANGED vars, "termination")
      [] OTHER -> ObsNone /\ Mismatch("unknown_record")

\* ---- verdict at the end of a trace: the C05 contract on the two observed logs -------
Anc(i) == LET RECURSIVE A(_)
              A(k) == IF k = 0 THEN {} ELSE {k} \cup A(Tr.evs[k][3])
          IN A(i)
\* With an end_time the same overshoot has a second face: the partition's clock stands beyond
\* end_time, it never pops again, and a cross event injected behind its clock stays in the heap
\* (it would be discarded as past at the next pop) until the run is over.
Stranded ==
         { i \in 1..Len(Tr.evs) :
             /\ i \notin ODelivered /\ TCross(i)
             /\ \E q \in 1..Tr.np : /\ <<i, q>> \in oinj /\ ValidP(q)
                                    /\ oovr[q] >= 0 /\ ~wild[q]
                                    /\ Tr.evs[i][1] >= oovr[q] /\ Tr.evs[i][1] < oclk[q] }
Explained(i) == Anc(i) \cap (known \cup Stranded) # {}
JudgedT(t) == Tr.endT = Inf \/ t < Tr.endT
\* every missing delivery is a daemon event or exists only through one (names the shape of the failure)
TDaemon(i) == \E k \in Anc(i) : Len(Tr.evs[k]) >= 5 /\ Tr.evs[k][5] = 1
TErr == IF "err" \in DOMAIN Tr THEN Tr.err ELSE ""
ObsSet(lg) == UNION { { <<e, lg[e][k][1], lg[e][k][2]>> : k \in 1..Len(lg[e]) } : e \in DOMAIN lg }
FinalVerdict ==
    LET OD == { x \in ObsSet(olog) : JudgedT(x[3]) }
        SD == { x \in ObsSet(Tr.seq) : JudgedT(x[3]) }
        missing == { x \in SD \ OD : ~Explained(x[2]) }
        retimed == { x \in missing : \E y \in ObsSet(olog) : y[2] = x[2] }
        extra == OD \ SD
    IN IF bad # "" THEN <<bad, badpos>>
       ELSE IF TErr = "no_sample" /\ missing # {}
            THEN <<"PROP:run_aborted:link_latency_no_sample", 0>>
       ELSE IF TErr # "" /\ missing # {} THEN <<"PROP:run_raised", 0>>
       ELSE IF Tr.mode = "indep" /\ \E e \in DOMAIN olog : olog[e] # Tr.seq[e]
            THEN <<"PROP:independent_differs", 0>>
       ELSE IF retimed # {} THEN <<"PROP:delivery_time", 0>>
       ELSE IF missing # {} /\ \A x \in missing : TDaemon(x[2])
            THEN <<IF \E x \in missing : TCross(x[2]) THEN "PROP:cross_event_lost:daemon_events"
                   ELSE "PROP:missing_delivery:daemon_events", 0>>
       ELSE IF \E x \in missing : TCross(x[2]) THEN <<"PROP:cross_event_lost", 0>>
       ELSE IF missing # {} THEN <<"PROP:missing_delivery", 0>>
       ELSE IF extra # {} THEN <<"PROP:extra_delivery", 0>>
       ELSE IF known # {} THEN <<"PROP:discarded_past:window_overshoot", 0>>
       ELSE IF \E x \in SD \ OD : x[2] \in Stranded THEN <<"PROP:cross_event_lost:window_overshoot", 0>>
       ELSE IF ~conform THEN <<"MODEL:" \o mis, 0>>
       ELSE <<"ACCEPT", 0>>

TNext ==
    /\ ti <= NT
    /\ IF l > Len(Tr.log)
       THEN /\ LET v == FinalVerdict IN PrintT(<<"V", Tr.id, v[1], v[2]>>)
            /\ ti' = ti + 1 /\ l' = 1
            /\ IF ti < NT THEN Load(Traces[ti + 1])
               ELSE UNCHANGED <<vars, conform, mis, olog, oclk, oend, oovr, wild, known, oinj, bad, badpos>>
       ELSE StepRec(Tr.log[l]) /\ l' = l + 1 /\ ti' = ti

TSpec == TInit /\ [][TNext]_tvars
=============================================================================
