------------------------------ MODULE Windowed ------------------------------
(* Implementation-shaped model of happysimulator.parallel (C05).              *)
(*                                                                           *)
(*   ParallelSimulation.__init__   -> Init (partitioning conf, link latencies *)
(*                                    lat, window size w; validate_partitions *)
(*                                    rule 7 restricts w to 1..min(lat))       *)
(*   WindowedCoordinator.run       -> StartPar / Exchange / Advance(s)          *)
(*   Simulation._run_window ->                                                *)
(*     Simulation._execute_until   -> ExecStep(p, i) (one pop of the loop:     *)
(*                                    time-travel discard or deliver + route), *)
(*                                    ExecDone(p) (loop exit)                  *)
(*   routing.make_event_router     -> local children to heap[p], remote ones   *)
(*                                    to outbox[p] (inside ExecStep)           *)
(*   ParallelSimulation._run_independent -> IndepStep(p, i) (no links)         *)
(*   Simulation.run (sequential reference on the same program)                *)
(*                                 -> CreatePre / SeqDeliver                   *)
(*                                                                           *)
(* The sequential reference engine runs first and, as in Engine.tla, TLC      *)
(* chooses every handler result; the events it creates ARE the program        *)
(* (handler output is a function of the event, not of the engine), which the  *)
(* partitioned run then executes.  Time is in ticks.  Every event is          *)
(* delivered at its own timestamp, so ev[i].t is also the delivery time.      *)
(*                                                                           *)
(* Window ends are computed by the code through float seconds,                *)
(*   Instant.from_seconds(current.to_seconds() + w)   (int() truncation),     *)
(* so an end may fall a few ns short of the nominal tick: a position is a     *)
(* pair (n, s) = "n ticks minus s*delta", s in {0,1}, sticky once 1.          *)
(*                                                                           *)
(* Deviations (constant Dev):                                                 *)
(*  "window_overshoot"      AS CODE: _execute_until tests the partition clock *)
(*                          before the pop, so the popped event may lie       *)
(*                          beyond the window end and is delivered anyway.    *)
(*                          Without it _run_window peeks (stop_at_bound): the  *)
(*                          loop stops when the next event is later than the  *)
(*                          window end.                                        *)
(*  "no_window_validation"  hypothetical: window size min(lat)+1 accepted.    *)
(*  "no_outbox_clear"       hypothetical: outboxes not cleared at the barrier.*)
(*  "outbox_cleared_before_push" hypothetical: exchange loses the events.     *)
(*  "exchange_late"         hypothetical: events produced in a window are     *)
(*                          exchanged one barrier later.                      *)
(*  "cancelled_run_skips_bound" hypothetical: after popping a cancelled event   *)
(*                          the loop pops on without re-testing the window    *)
(*                          bound, so the first live event after a run of     *)
(*                          cancelled ones is delivered even beyond the end.  *)
(*  "stop_without_primary" hypothetical: the coordinator's early exit after the *)
(*                          barrier tests "no primary (non-daemon) event      *)
(*                          pending" instead of "all heaps empty".            *)
(*  "link_latency_no_sample" AS CODE: for a link that declares a latency      *)
(*                          distribution the exchange calls                   *)
(*                          link.latency.sample(), which LatencyDistribution  *)
(*                          does not have: run() raises at the first barrier  *)
(*                          that carries an event over such a link.           *)
EXTENDS Naturals, Integers, Sequences, FiniteSets, TLC

CONSTANTS Confs,     \* set of configurations [ep : Seq(partition), np : Nat, links : SUBSET (P \X P), endT]
                     \* (optional field ovl: links that declare a LatencyDistribution)
          MaxLat,    \* link minimum latencies range over 1..MaxLat
          MaxEv, MaxT, MaxOut,
          Cancels,   \* TRUE: handlers may cancel pending timers (Event.cancel())
          Daemons,   \* TRUE: events may be daemon events (only chosen with a finite end_time: with
                     \* end_time = Infinity the sequential engine auto-terminates on "no primary event",
                     \* the statement does not say what the partitioned run owes then)
          ShortWin,  \* window ends falling short of the nominal tick (float truncation):
                     \* "never" | "fixed" (all windows or none) | "any" (from any window on)
          Interleave,\* TRUE: partitions' loop iterations interleave freely (thread pool)
          Dev

Inf == 999999

VARIABLES conf, lat, w,          \* configuration
          ev,                    \* program: 1..N -> [t, tgt, par, cby, d]; id = creation order in the reference
                                 \* run; cby = the event whose handler cancels this one (a timer), or 0;
                                 \* d = daemon flag
          phase,                 \* "build" | "seq" | "par" | "done" | "crashed" (run() raised)
          sheap, slog,           \* sequential reference: heap (ids), per-entity delivery log (ids)
          heap, clock, outbox,   \* per partition
          pdone,                 \* per partition: _run_window returned
          curN, curS, endN, endS,\* coordinator: current_time and window_end as (ticks, short)
          sub,                   \* "exec" | "advance" | "indep" | "-"
          plog,                  \* per entity: ids delivered by the partitioned run, in order
          dropped,               \* ids discarded as "time travel" by a partition
          late,                  \* outbox entries held back (only with "exchange_late")
          pcx,                   \* ids on which Event.cancel() was called in the partitioned run
          drain,                 \* per partition: inside a run of cancelled pops ("cancelled_run_skips_bound")
          ovr,                   \* ghost, per partition: window end in force when the clock was moved
                                 \* beyond it (overshoot), else -1
          shist                  \* ghost: short flag of every window so far
vars == <<conf, lat, w, ev, phase, sheap, slog, heap, clock, outbox, pdone, curN, curS, endN, endS,
          sub, plog, dropped, late, pcx, drain, ovr, shist>>

Overshoot == "window_overshoot" \in Dev
DrainDev == "cancelled_run_skips_bound" \in Dev

N == Len(ev)
Ents == 1..Len(conf.ep)
Parts == 1..conf.np
PartOf(e) == conf.ep[e]
EndT == conf.endT
PartEv(i) == PartOf(ev[i].tgt)
Cross(i) == ev[i].par # 0 /\ PartEv(ev[i].par) # PartEv(i)
Children(i) == { c \in 1..N : ev[c].par = i }
MinT(S) == CHOOSE t \in { ev[i].t : i \in S } : \A j \in S : t <= ev[j].t
MinOf(S) == CHOOSE m \in S : \A x \in S : m <= x
LexLE(a, b) == a[1] < b[1] \/ (a[1] = b[1] /\ a[2] <= b[2])
E == endN - endS                 \* last tick inside the current window
OvlLinks == IF "ovl" \in DOMAIN conf THEN conf.ovl ELSE {}

Empty(f) == [x \in DOMAIN f |-> {}]

WChoices(c, l) ==
    IF c.links = {} THEN {0}
    ELSE LET m == MinOf({ l[k] : k \in c.links })
         IN 1..(IF "no_window_validation" \in Dev THEN m + 1 ELSE m)

InitRest ==
    /\ phase = "build"
    /\ sheap = {} /\ slog = [e \in Ents |-> <<>>]
    /\ heap = [p \in Parts |-> {}] /\ clock = [p \in Parts |-> 0] /\ outbox = [p \in Parts |-> {}]
    /\ pdone = [p \in Parts |-> FALSE]
    /\ curN = 0 /\ curS = 0 /\ endN = 0 /\ endS = 0 /\ sub = "-"
    /\ plog = [e \in Ents |-> <<>>] /\ dropped = {} /\ late = {}
    /\ pcx = {} /\ drain = [p \in Parts |-> FALSE]
    /\ ovr = [p \in Parts |-> -1] /\ shist = <<>>

Init ==
    /\ conf \in Confs
    /\ lat \in [conf.links -> 1..MaxLat]
    /\ w \in WChoices(conf, lat)
    /\ ev = <<>>
    /\ InitRest

parVars == <<heap, clock, outbox, pdone, curN, curS, endN, endS, sub, plog, dropped, late, pcx, drain, ovr, shist>>

\* ---- building the model: Event(...); sim.schedule(event) ---------------------
DFlags == IF Daemons /\ EndT # Inf THEN BOOLEAN ELSE {FALSE}

CreatePre(t, g, d) ==
    /\ phase = "build" /\ N < MaxEv
    /\ N > 0 => LexLE(<<ev[N].t, ev[N].tgt>>, <<t, g>>)        \* canonical order (symmetry)
    /\ ev' = Append(ev, [t |-> t, tgt |-> g, par |-> 0, cby |-> 0, d |-> d])
    /\ UNCHANGED <<conf, lat, w, phase, sheap, slog>> /\ UNCHANGED parVars

StartSeq ==
    /\ phase = "build" /\ N > 0
    /\ phase' = "seq" /\ sheap' = 1..N
    /\ UNCHANGED <<conf, lat, w, ev, slog>> /\ UNCHANGED parVars

\* ---- sequential reference: Simulation.run() over the union of all entities ----
SMin == CHOOSE i \in sheap : \A j \in sheap : ev[i].t < ev[j].t \/ (ev[i].t = ev[j].t /\ i <= j)

OutRec == [dt : 0..MaxT, tgt : Ents, d : DFlags]
\* a handler may address another partition only over a link and with the declared minimum delay
OutOK(i, o) ==
    /\ ev[i].t + o.dt <= MaxT
    /\ PartOf(o.tgt) # PartEv(i) =>
          /\ <<PartEv(i), PartOf(o.tgt)>> \in conf.links
          /\ o.dt >= lat[<<PartEv(i), PartOf(o.tgt)>>]

\* Event.cancel() by a handler: the handler of event i may disarm a timer c of its own entity that
\* is still pending.  To mean the same under every engine the choice must not hinge on the order of
\* equal timestamps: c is due strictly later than i and was created strictly before i, by the same
\* entity (or before the run), so it never crosses a partition boundary.
Cancellable(i) ==
    { c \in sheap : /\ ev[c].tgt = ev[i].tgt /\ ev[c].t > ev[i].t
                    /\ (ev[c].par = 0 \/ (ev[ev[c].par].tgt = ev[i].tgt /\ ev[ev[c].par].t < ev[i].t)) }

SeqDeliver(outs, c) ==
    /\ phase = "seq" /\ sheap # {}
    /\ LET i == SMin IN
       /\ N + Len(outs) <= MaxEv
       /\ \A k \in 1..Len(outs) : OutOK(i, outs[k])
       /\ \A k \in 1..(Len(outs) - 1) : LexLE(<<outs[k].dt, outs[k].tgt>>, <<outs[k+1].dt, outs[k+1].tgt>>)
       /\ c = 0 \/ (Cancels /\ c \in Cancellable(i))
       /\ ev' = [j \in 1..N |-> IF j = c THEN [ev[j] EXCEPT !.cby = i] ELSE ev[j]]
                \o [k \in 1..Len(outs) |-> [t |-> ev[i].t + outs[k].dt, tgt |-> outs[k].tgt, par |-> i, cby |-> 0,
                                              d |-> outs[k].d]]
       \* a cancelled event is never delivered by the reference engine (lazy deletion at pop)
       /\ sheap' = (sheap \ {i, c}) \cup { N + k : k \in 1..Len(outs) }
       /\ slog' = [slog EXCEPT ![ev[i].tgt] = Append(@, i)]
    /\ UNCHANGED <<conf, lat, w, phase>> /\ UNCHANGED parVars

\* ---- coordinator ---------------------------------------------------------------
\* window_end = from_seconds(current.to_seconds() + w), clamped to end_time
WinEnd(n, s) == IF EndT # Inf /\ n + w > EndT THEN <<EndT, 0>> ELSE <<n + w, s>>
ShortChoices(s, first) ==
    IF ShortWin = "any" THEN {s, 1}
    ELSE IF ShortWin = "fixed" /\ first THEN {0, 1}
    ELSE {s}
\* current_time < end_time
BeforeEnd(n, s) == EndT = Inf \/ n < EndT \/ (n = EndT /\ s = 1)

InitialHeaps == [p \in Parts |-> { i \in 1..N : ev[i].par = 0 /\ PartEv(i) = p }]

StartPar ==
    /\ phase = "seq" /\ sheap = {}
    /\ phase' = "par"
    /\ heap' = InitialHeaps
    /\ IF conf.links = {}
       THEN /\ sub' = "indep"
            /\ UNCHANGED <<endN, endS, shist>>
       ELSE \E s \in ShortChoices(0, TRUE) :
            /\ endN' = WinEnd(0, s)[1] /\ endS' = WinEnd(0, s)[2]
            /\ shist' = <<WinEnd(0, s)[2]>>
            /\ sub' = "exec"
    /\ UNCHANGED <<conf, lat, w, ev, sheap, slog, clock, outbox, pdone, curN, curS, plog, dropped, late, pcx,
                   drain, ovr>>

\* ---- Simulation._execute_until(window_end), one loop iteration ------------------
\* loop head:  while heap_has_events() and current_time <= window_end:
\*                 if stop_at_bound and heap.peek().time > window_end: break      (since b47002b)
\* ("window_overshoot" = the code before that repair: only the clock was tested, before the pop)
CanPop(p) == heap[p] # {} /\ clock[p] <= E /\ (Overshoot \/ MinT(heap[p]) <= E)
\* "cancelled_run_skips_bound": inside a run of cancelled pops the head is not evaluated again
MayPop(p) == CanPop(p) \/ (drain[p] /\ heap[p] # {})
\* partitions below p have returned (only when interleavings are not explored)
Turn(p) == Interleave \/ \A q \in Parts : q < p => pdone[q]

ExecGuard(p, i) ==
    /\ phase = "par" /\ sub = "exec" /\ ~pdone[p] /\ Turn(p)
    /\ MayPop(p)
    /\ i \in heap[p] /\ ev[i].t = MinT(heap[p])         \* heapq pops a minimal timestamp; ties: any

ExecStep(p, i) ==
    /\ ExecGuard(p, i)
    /\ IF i \in pcx
       THEN \* lazy deletion of a cancelled event: "if event._cancelled: continue"
            /\ heap' = [heap EXCEPT ![p] = @ \ {i}]
            /\ drain' = [drain EXCEPT ![p] = DrainDev]
            /\ UNCHANGED <<clock, outbox, plog, ovr, dropped, pcx>>
       ELSE IF ev[i].t < clock[p]
       THEN \* "Time travel detected ... Skipping event"
            /\ heap' = [heap EXCEPT ![p] = @ \ {i}]
            /\ dropped' = dropped \cup {i}
            /\ drain' = [drain EXCEPT ![p] = FALSE]
            /\ UNCHANGED <<clock, outbox, plog, ovr, pcx>>
       ELSE LET kids == Children(i)
                loc == { c \in kids : PartEv(c) = p }
            IN /\ clock' = [clock EXCEPT ![p] = ev[i].t]
               /\ plog' = [plog EXCEPT ![ev[i].tgt] = Append(@, i)]
               /\ heap' = [heap EXCEPT ![p] = (@ \ {i}) \cup loc]          \* router: local
               /\ outbox' = [outbox EXCEPT ![p] = @ \cup (kids \ loc)]     \* router: outbox
               \* the handler disarms its timers that exist and are still pending
               /\ pcx' = pcx \cup { c \in heap[p] : ev[c].cby = i }
               /\ ovr' = [ovr EXCEPT ![p] = IF ev[i].t > E THEN E ELSE -1]
               /\ drain' = [drain EXCEPT ![p] = FALSE]
               /\ UNCHANGED dropped
    /\ UNCHANGED <<conf, lat, w, ev, phase, sheap, slog, pdone, curN, curS, endN, endS, sub, late, shist>>

DoneGuard(p) == phase = "par" /\ sub = "exec" /\ ~pdone[p] /\ Turn(p) /\ ~MayPop(p)

ExecDone(p) ==
    /\ DoneGuard(p)
    /\ pdone' = [pdone EXCEPT ![p] = TRUE]
    /\ drain' = [drain EXCEPT ![p] = FALSE]
    /\ UNCHANGED <<conf, lat, w, ev, phase, sheap, slog, heap, clock, outbox, curN, curS, endN, endS, sub,
                   plog, dropped, late, pcx, ovr, shist>>

\* ---- WindowedCoordinator._exchange_events ----------------------------------------
\* (the min_latency validation cannot fail: OutOK only builds programs that respect it)
Outgoing == UNION { outbox[p] : p \in Parts }
Arriving ==
    IF "outbox_cleared_before_push" \in Dev THEN {}
    ELSE IF "exchange_late" \in Dev THEN late
    ELSE Outgoing

ExchangeGuard == phase = "par" /\ sub = "exec" /\ \A p \in Parts : pdone[p]
\* link.latency.sample() -> AttributeError
Crashes == /\ "link_latency_no_sample" \in Dev
           /\ \E c \in Arriving : <<PartEv(ev[c].par), PartEv(c)>> \in OvlLinks

ExchangeCrash ==
    /\ ExchangeGuard /\ Crashes
    /\ phase' = "crashed" /\ sub' = "-"
    /\ UNCHANGED <<conf, lat, w, ev, sheap, slog, heap, clock, outbox, pdone, curN, curS, endN, endS, plog,
                   dropped, late, pcx, drain, ovr, shist>>

Exchange ==
    /\ ExchangeGuard /\ ~Crashes
    /\ heap' = [q \in Parts |-> heap[q] \cup { c \in Arriving : PartEv(c) = q }]   \* dest.schedule(event)
    /\ outbox' = IF "no_outbox_clear" \in Dev THEN outbox ELSE Empty(outbox)
    /\ late' = IF "exchange_late" \in Dev THEN Outgoing ELSE late
    /\ sub' = "advance"
    /\ UNCHANGED <<conf, lat, w, ev, phase, sheap, slog, clock, pdone, curN, curS, endN, endS, plog, dropped,
                   pcx, drain, ovr, shist>>

\* ---- current_time = window_end; heaps-exhausted test; loop head --------------------
\* all(not sim._event_heap.has_events() ...)   ("stop_without_primary": has_primary_events())
AllEmpty == IF "stop_without_primary" \in Dev THEN \A p \in Parts : \A i \in heap[p] : ev[i].d
            ELSE \A p \in Parts : heap[p] = {}

Terminating == AllEmpty \/ ~BeforeEnd(endN, endS)
AdvanceGuard == phase = "par" /\ sub = "advance"

Advance(s) ==
    /\ AdvanceGuard
    /\ curN' = endN /\ curS' = endS
    /\ IF Terminating
       THEN /\ phase' = "done" /\ sub' = "-"
            /\ UNCHANGED <<endN, endS, pdone, shist>>
       ELSE /\ endN' = WinEnd(endN, s)[1] /\ endS' = WinEnd(endN, s)[2]
            /\ shist' = Append(shist, WinEnd(endN, s)[2])
            /\ pdone' = [p \in Parts |-> FALSE]
            /\ UNCHANGED phase /\ sub' = "exec"
    /\ UNCHANGED <<conf, lat, w, ev, sheap, slog, heap, clock, outbox, plog, dropped, late, pcx, drain, ovr>>

\* ---- ParallelSimulation._run_independent: every partition is a plain Simulation.run() ---
\* (a plain Simulation.run tests its clock against end_time before the pop and so delivers one event
\*  beyond end_time; that is the sequential engine's own behaviour (C01), not the window deviation)
IndepCanPop(p) == heap[p] # {} /\ (EndT = Inf \/ clock[p] <= EndT)
TurnI(p) == Interleave \/ \A q \in Parts : q < p => ~IndepCanPop(q)
IndepGuard(p, i) ==
    /\ phase = "par" /\ sub = "indep" /\ IndepCanPop(p) /\ TurnI(p)
    /\ i \in heap[p] /\ \A j \in heap[p] : ev[i].t < ev[j].t \/ (ev[i].t = ev[j].t /\ i <= j)

IndepStep(p, i) ==
    /\ IndepGuard(p, i)
    /\ IF i \in pcx
       THEN /\ heap' = [heap EXCEPT ![p] = @ \ {i}]
            /\ UNCHANGED <<clock, plog, pcx>>
       ELSE /\ clock' = [clock EXCEPT ![p] = ev[i].t]
            /\ plog' = [plog EXCEPT ![ev[i].tgt] = Append(@, i)]
            /\ heap' = [heap EXCEPT ![p] = (@ \ {i}) \cup Children(i)]
            /\ pcx' = pcx \cup { c \in heap[p] : ev[c].cby = i }
    /\ UNCHANGED <<conf, lat, w, ev, phase, sheap, slog, outbox, pdone, curN, curS, endN, endS, sub, dropped, late,
                   drain, ovr, shist>>

IndepFinish ==
    /\ phase = "par" /\ sub = "indep" /\ \A p \in Parts : ~IndepCanPop(p)
    /\ phase' = "done" /\ sub' = "-"
    /\ UNCHANGED <<conf, lat, w, ev, sheap, slog, heap, clock, outbox, pdone, curN, curS, endN, endS, plog,
                   dropped, late, pcx, drain, ovr, shist>>

Outs(k) == [1..k -> OutRec]

Next ==
    \/ \E t \in 0..MaxT, g \in Ents, d \in DFlags : CreatePre(t, g, d)
    \/ StartSeq
    \/ \E k \in 0..(IF MaxEv - N < MaxOut THEN MaxEv - N ELSE MaxOut) : \E outs \in Outs(k) :
          \E c \in {0} \cup (IF Cancels /\ phase = "seq" /\ sheap # {} THEN Cancellable(SMin) ELSE {}) : SeqDeliver(outs, c)
    \/ StartPar
    \/ \E p \in Parts : \E i \in heap[p] : ExecStep(p, i)
    \/ \E p \in Parts : ExecDone(p)
    \/ Exchange
    \/ ExchangeCrash
    \/ \E s \in ShortChoices(endS, FALSE) : Advance(s)
    \/ \E p \in Parts : \E i \in heap[p] : IndepStep(p, i)
    \/ IndepFinish
    \/ (phase \in {"done", "crashed"} /\ UNCHANGED vars)

Spec == Init /\ [][Next]_vars

\* ============================ contract (C05) ==================================
\* Observable data only: the two delivery logs (entity -> sequence of (time, type); the type of
\* event i is its id, its time ev[i].t), the discarded-as-past records, the partitioning.
\* With an end_time the comparison covers deliveries strictly before it (the statement does not
\* speak about end_time; both engines deliver one event beyond it, C01).
Judged(i) == EndT = Inf \/ ev[i].t < EndT
Delivered == UNION { { plog[e][k] : k \in 1..Len(plog[e]) } : e \in Ents }
SeqDelivered(e) == { slog[e][k] : k \in 1..Len(slog[e]) }
ParDelivered(e) == { plog[e][k] : k \in 1..Len(plog[e]) }

\* "no cross-partition event is ... discarded as being in the past"
InvNoPastDiscard == \A i \in dropped : ~Cross(i)
\* "... duplicated" (and no delivery at all happens twice)
InvNoDup == \A e \in Ents : \A j, k \in 1..Len(plog[e]) : j # k => plog[e][j] # plog[e][k]
\* "... in the same time order"
InvTimeOrder == \A e \in Ents : \A j, k \in 1..Len(plog[e]) : j < k => ev[plog[e][j]].t <= ev[plog[e][k]].t
\* "no cross-partition event is lost": once the run is over, every cross event a delivered handler
\* produced has been delivered
Over == phase \in {"done", "crashed"}        \* run() returned or raised
InvNoLoss ==
    Over => \A i \in 1..N : (Cross(i) /\ Judged(i) /\ ev[i].par \in Delivered) => i \in Delivered
\* "delivers to every entity the same deliveries (time, event type) ... as the sequential run"
InvSameDeliveries ==
    Over => \A e \in Ents :
        { i \in ParDelivered(e) : Judged(i) } = { i \in SeqDelivered(e) : Judged(i) }
\* "independent partitions (no links) behave exactly like separate simulations": same sequence,
\* ties included (a separate Simulation of partition p is the reference run restricted to p)
InvIndependent ==
    (phase = "done" /\ conf.links = {}) => \A e \in Ents :
        SelectSeq(plog[e], Judged) = SelectSeq(slog[e], Judged)
=============================================================================
