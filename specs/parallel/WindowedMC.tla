----------------------------- MODULE WindowedMC -----------------------------
(* Model-checking wrapper: named sets of configurations (partitionings, link  *)
(* topologies, end_time) for Windowed.tla.                                     *)
EXTENDS Windowed

C(ep, np, links, endT) == [ep |-> ep, np |-> np, links |-> links, endT |-> endT]

\* two partitions, one entity each
OneWay == C(<<1, 2>>, 2, {<<1, 2>>}, Inf)
BothWays == C(<<1, 2>>, 2, {<<1, 2>>, <<2, 1>>}, Inf)
\* two entities in the receiving partition
TwoInB == C(<<1, 2, 2>>, 2, {<<1, 2>>, <<2, 1>>}, Inf)
\* three partitions: chain and cycle
Chain3 == C(<<1, 2, 3>>, 3, {<<1, 2>>, <<2, 3>>}, Inf)
Cycle3 == C(<<1, 2, 3>>, 3, {<<1, 2>>, <<2, 3>>, <<3, 1>>}, Inf)
\* finite end_time
BothEnd(t) == C(<<1, 2>>, 2, {<<1, 2>>, <<2, 1>>}, t)
\* independent partitions
Indep2 == C(<<1, 2>>, 2, {}, Inf)
Indep3 == C(<<1, 1, 2>>, 2, {}, Inf)
IndepEnd(t) == C(<<1, 1, 2>>, 2, {}, t)

ConfsA == {OneWay, BothWays}
ConfsB == {TwoInB}
ConfsC == {Chain3, Cycle3}
ConfsE == {BothEnd(2), BothEnd(3)}
ConfsI == {Indep2, Indep3, IndepEnd(2)}
ConfsOne == {OneWay}
\* finite end_time, daemon events allowed
ConfsD == {C(<<1, 2>>, 2, {<<1, 2>>}, 3), C(<<1, 2>>, 2, {}, 3)}
\* the one-way link declares a latency distribution
ConfsOv == {[ep |-> <<1, 2>>, np |-> 2, links |-> {<<1, 2>>}, endT |-> Inf, ovl |-> {<<1, 2>>}]}
OneEnd(t) == C(<<1, 2>>, 2, {<<1, 2>>}, t)
\* quick tier: everything that shares one set of bounds, in one TLC run
ConfsQ == {OneWay, BothWays, OneEnd(2), Indep2, Indep3, IndepEnd(2)}
ConfsT == {OneWay, BothWays, BothEnd(2), BothEnd(3), Indep2, Indep3, IndepEnd(2)}

\* ---- a fixed set of pre-run events (sensitivity run of "cancelled_run_skips_bound") ----
\* partition 2: event 1 (t=0) may disarm the timer 3 (t=1, the last entry inside window 1), its next
\* live event 4 is due at t=3; partition 1: event 2 (t=1) may send to partition 2 for t=2.
\* TLC still chooses every handler result (outputs, cancels).
P0(t, g) == [t |-> t, tgt |-> g, par |-> 0, cby |-> 0, d |-> FALSE]
InitTimers ==
    /\ conf = OneWay /\ lat = [k \in {<<1, 2>>} |-> 1] /\ w = 1
    /\ ev = <<P0(0, 2), P0(1, 1), P0(1, 2), P0(3, 2)>>
    /\ InitRest
\* only the model-building and reference phases: terminal states enumerate the programs
NextProg == Next /\ phase' # "par"
NextRun == Next /\ (phase = "build" => phase' = "seq")       \* no further pre-run events
=============================================================================
