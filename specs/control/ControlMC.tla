----------------------------- MODULE ControlMC -----------------------------
(* Model-checking wrapper: TLC builds every program within the bounds (build  *)
(* phase), then issues every sequence of at most MaxCmd controller commands.  *)
EXTENDS Control

CONSTANTS MaxEv, TSet, EndTs, AllowDaemon, AllowCancel, MaxCmd, Alphabet, Scheds

VARIABLES ncmd, cmds
mcvars == <<vars, ncmd, cmds>>

EmptyProg == [ev |-> <<>>, endT |-> Inf, sched |-> <<>>]

MCInit ==
    /\ prog = EmptyProg /\ pc = "build" /\ e = [heap |-> {}] /\ k = K0 /\ pend = NoPend
    /\ obs = <<>> /\ runs = <<>> /\ ncmd = 0 /\ cmds = <<>>

AddEv(t, d, par, cby) ==
    /\ pc = "build" /\ NE < MaxEv
    /\ par <= NE /\ cby # NE + 1
    /\ par # 0 => t + 1 >= T(par)                 \* a handler may emit one tick into the past
    /\ par = 0 => \A j \in L : prog.ev[j].par = 0  \* pre-run events carry the first labels
    /\ prog' = [prog EXCEPT !.ev = Append(@, [t |-> t, d |-> d, par |-> par, cby |-> cby])]
    /\ UNCHANGED <<pc, e, k, pend, obs, runs, ncmd, cmds>>

RECURSIVE Rev(_)
Rev(s) == IF s = <<>> THEN <<>> ELSE Append(Rev(Tail(s)), Head(s))

EndBuild(endT, rev) ==
    /\ pc = "build" /\ NE >= 1 /\ PreSet # {}
    /\ \A j \in L : prog.ev[j].cby <= NE
    /\ prog' = [prog EXCEPT !.endT = endT,
                            !.sched = IF rev THEN Rev(SortedSeq(PreSet)) ELSE SortedSeq(PreSet)]
    /\ pc' = "cmd"
    /\ e' = LET p == prog' IN
            \* Built, evaluated on the finished program
            Make([heap |-> {}, idx |-> [i \in 1..Len(p.ev) |-> 0], made |-> {}, ctr |-> 0, clock |-> 0,
                  proc |-> 0, ncan |-> 0, x |-> {}, delivered |-> <<>>, nprim |-> 0, running |-> FALSE,
                  paused |-> FALSE, last |-> 0], SortedSeq(PreSet))
    /\ UNCHANGED <<k, pend, obs, runs, ncmd, cmds>>

Legal(cmd) ==      \* grammar of meaningful scripts (the harness generates the same)
    /\ cmd.op = "run" => (~e.running /\ e.proc = 0) \/ e.paused
    /\ cmd.op = "reset" => (e.paused \/ ~e.running)

MCCmd(cmd) ==
    /\ pc = "cmd" /\ ncmd < MaxCmd /\ Legal(cmd)
    /\ DoCmd(cmd)
    /\ ncmd' = ncmd + 1 /\ cmds' = Append(cmds, cmd)

MCNext ==
    \/ \E t \in TSet, d \in (IF AllowDaemon THEN BOOLEAN ELSE {FALSE}), par \in 0..MaxEv,
          cby \in (IF AllowCancel THEN 0..MaxEv ELSE {0}) : AddEv(t, d, par, cby)
    \/ \E endT \in EndTs, rev \in Scheds : EndBuild(endT, rev)
    \/ \E cmd \in Alphabet : MCCmd(cmd)
    \/ (LoopStep /\ UNCHANGED <<ncmd, cmds>>)

MCSpec == MCInit /\ [][MCNext]_mcvars

\* history hidden from the fingerprint
MCView == <<prog, pc, e, k, pend, ncmd, runs # <<>>,
            IF obs = <<>> THEN "" ELSE obs[Len(obs)].op>>

Ready == pc # "build"
MInvPrefix == Ready => InvPrefix
MInvSameRun == (Ready /\ runs = <<>>) => InvSameRun
MInvReset == Ready => InvReset
MInvFastSlow == Ready => InvFastSlow
MInvRefLoops == Ready => InvRefLoops

C(op, a, b) == [op |-> op, a |-> a, b |-> b]
AlphaFull == { C("run", 0, 0), C("attach", 0, 0), C("pause", 0, 0), C("resume", 0, 0), C("step", 1, 0),
               C("step", 2, 0), C("bp_count", 2, 1), C("bp_count", 1, 0), C("bp_time", 1, 1),
               C("bp_label", 2, 0), C("bp_metric", 0, 1), C("clear", 0, 0), C("hook", 1, 0), C("reset", 0, 0) }
AlphaCore == { C("run", 0, 0), C("pause", 0, 0), C("resume", 0, 0), C("step", 1, 0), C("step", 2, 0),
               C("bp_count", 2, 1), C("bp_time", 1, 0), C("hook", 1, 0), C("reset", 0, 0) }
=============================================================================
