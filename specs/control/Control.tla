------------------------------ MODULE Control ------------------------------
(* Implementation-shaped model of Simulation.run()/_run_loop/_execute_until  *)
(* together with SimulationControl (pause, step, resume, breakpoints, event  *)
(* hooks, reset), for property C04.                                          *)
(*                                                                           *)
(* A *program* fixes everything the entities do (they are stateless):        *)
(*   prog.ev[i] = [t, d, par, cby]  event with label i: timestamp, daemon,   *)
(*      par = label whose handler creates it (0 = scheduled before run()),   *)
(*      cby = label whose handler cancels it (0 = never)                     *)
(*   prog.endT = end_time or Inf;  prog.sched = order in which the pre-run   *)
(*      events are passed to sim.schedule() (a permutation of their labels;  *)
(*      they are *created* in label order).                                  *)
(* The engine is then deterministic; the controller commands are the only    *)
(* other input.  The loop body exists twice, as in the code: SlowIter        *)
(* (_run_loop: control surface attached, tracer, or no end_time) and         *)
(* FastIter (_execute_until).                                                *)
(*                                                                           *)
(* Deviations (constant Dev):                                                *)
(*  "reset_replays_in_schedule_order": reset() re-creates the pre-run events *)
(*     in the order they were passed to schedule(), not in the order they    *)
(*     were created, so equal-timestamp ties can swap after a reset.         *)
EXTENDS Naturals, Integers, Sequences, FiniteSets, TLC

Inf  == 999999
None == -1

CONSTANT Dev

VARIABLES prog,   \* the program (constant during a behaviour once built)
          pc,     \* "cmd": between run() calls, "loop": inside run()
          e,      \* engine state (record)
          k,      \* SimulationControl state (record)
          pend,   \* ghost: the command that started the current run() call
          obs,    \* history: one record per command / per return of run()
          runs    \* history: delivered logs of the runs ended by reset()
vars == <<prog, pc, e, k, pend, obs, runs>>

NE == Len(prog.ev)
L  == 1..NE
T(i) == prog.ev[i].t
D(i) == prog.ev[i].d
Auto == prog.endT = Inf

\* ---------------------------------------------------------------------------
\* engine state as a record; the operators below are pure functions of it
E0 == [heap |-> {}, idx |-> [i \in L |-> 0], made |-> {}, ctr |-> 0, clock |-> 0, proc |-> 0,
       ncan |-> 0, x |-> {}, delivered |-> <<>>, nprim |-> 0, running |-> FALSE, paused |-> FALSE,
       last |-> 0]

K0 == [att |-> FALSE, pauseReq |-> FALSE, steps |-> None, bps |-> {}, hp |-> {}]

Less(s, i, j) == T(i) < T(j) \/ (T(i) = T(j) /\ s.idx[i] < s.idx[j])
MinOf(s) == CHOOSE i \in s.heap : \A j \in s.heap \ {i} : Less(s, i, j)

\* create the events in sequence q (labels), in that order, and push them
RECURSIVE Make(_, _)
Make(s, q) ==
    IF q = <<>> THEN s
    ELSE LET i == Head(q) IN
         Make([s EXCEPT !.idx[i] = s.ctr, !.ctr = s.ctr + 1, !.made = @ \cup {i}, !.heap = @ \cup {i},
                        !.nprim = IF D(i) THEN @ ELSE @ + 1, !.x = @ \ {i}], Tail(q))

RECURSIVE SortedSeq(_)
SortedSeq(S) == IF S = {} THEN <<>>
                ELSE LET m == CHOOSE a \in S : \A b \in S : a <= b IN <<m>> \o SortedSeq(S \ {m})

PreSet == { i \in L : prog.ev[i].par = 0 }
Kids(i) == SortedSeq({ j \in L : prog.ev[j].par = i })

PopOut(s, i) == [s EXCEPT !.heap = @ \ {i}, !.nprim = IF D(i) THEN @ ELSE @ - 1]

\* the handler of label i: create its children (in label order), then cancel what it cancels
Handle(s, i) ==
    LET s1 == Make(s, Kids(i))
        cx == { j \in L : prog.ev[j].cby = i /\ j \in s1.made }
    IN [s1 EXCEPT !.x = @ \cup cx]

Deliver(s, i) ==
    LET s0 == PopOut(s, i)
        s1 == [s0 EXCEPT !.clock = T(i), !.proc = @ + 1, !.last = i, !.delivered = Append(@, i)]
    IN Handle(s1, i)

Completed(s) == [s EXCEPT !.running = FALSE, !.paused = FALSE]

\* ---- _execute_until (fast loop): one iteration; st = "go" | "done" ---------
FastIter(s) ==
    IF ~(s.heap # {} /\ s.clock <= prog.endT) THEN [e |-> Completed(s), st |-> "done"]
    ELSE LET i == MinOf(s) IN
         IF i \in s.x THEN [e |-> [PopOut(s, i) EXCEPT !.ncan = @ + 1], st |-> "go"]
         ELSE IF T(i) < s.clock THEN [e |-> PopOut(s, i), st |-> "go"]
         ELSE [e |-> Deliver(s, i), st |-> "go"]

\* ---- breakpoints (evaluated after a delivery) -----------------------------------
BpTrue(b, s) ==
    CASE b.kind = "count" -> s.proc >= b.arg
      [] b.kind = "time"  -> s.clock >= b.arg
      [] b.kind = "label" -> s.last = b.arg
      \* MetricBreakpoint on an entity attribute; the scripted entities expose
      \* level = (deliveries so far) mod 3 and the breakpoint asks level <= arg
      [] b.kind = "metric" -> (s.proc % 3) <= b.arg
      [] OTHER -> FALSE

\* ---- _run_loop (instrumented loop): one iteration --------------------------------
\* st = "go" | "done" | "paused";  why = reason of a pause (ghost)
SlowIter(s, c) ==
    IF ~(s.heap # {} /\ prog.endT >= s.clock)
    THEN [e |-> Completed(s), k |-> c, st |-> "done", why |-> "done"]
    ELSE IF c.att /\ c.pauseReq
    THEN [e |-> [s EXCEPT !.paused = TRUE], k |-> c, st |-> "paused", why |-> "request"]
    ELSE IF c.att /\ c.steps # None /\ c.steps <= 0
    THEN [e |-> [s EXCEPT !.paused = TRUE], k |-> c, st |-> "paused", why |-> "steps"]
    ELSE IF Auto /\ s.nprim <= 0
    THEN [e |-> Completed(s), k |-> c, st |-> "done", why |-> "done"]
    ELSE LET i == MinOf(s) IN
         IF i \in s.x THEN [e |-> [PopOut(s, i) EXCEPT !.ncan = @ + 1], k |-> c, st |-> "go", why |-> ""]
         ELSE IF T(i) < s.clock THEN [e |-> PopOut(s, i), k |-> c, st |-> "go", why |-> ""]
         ELSE LET s1 == Deliver(s, i) IN
              IF ~c.att THEN [e |-> s1, k |-> c, st |-> "go", why |-> ""]
              ELSE LET c1 == [c EXCEPT !.steps = IF @ # None THEN @ - 1 ELSE @,
                                       !.pauseReq = @ \/ (s1.proc \in c.hp)]
                       hit == { b \in c1.bps : BpTrue(b, s1) }
                   IN IF hit = {} THEN [e |-> s1, k |-> c1, st |-> "go", why |-> ""]
                      ELSE [e |-> [s1 EXCEPT !.paused = TRUE],
                            k |-> [c1 EXCEPT !.bps = @ \ { b \in hit : b.one }], st |-> "paused",
                            why |-> "bp"]

UsesFast(c) == ~c.att /\ ~Auto      \* no control surface, explicit end_time (tracer off)

Iter(s, c) == IF UsesFast(c) THEN LET f == FastIter(s) IN [e |-> f.e, k |-> c, st |-> f.st, why |-> "done"]
              ELSE SlowIter(s, c)

\* ---- reference: the uninterrupted run of the same program ----------------------
Built == Make(E0, SortedSeq(PreSet))          \* creation order = label order
Started(s) == [s EXCEPT !.running = TRUE, !.proc = 0]

RECURSIVE RunFast(_)
RunFast(s) == LET r == FastIter(s) IN IF r.st = "done" THEN r.e ELSE RunFast(r.e)
RECURSIVE RunSlow(_)
RunSlow(s) == LET r == SlowIter(s, K0) IN IF r.st = "done" THEN r.e ELSE RunSlow(r.e)
Ref == IF Auto THEN RunSlow(Started(Built)) ELSE RunFast(Started(Built))
RefSlow == RunSlow(Started(Built))

\* ---------------------------------------------------------------------------
\* controller commands, issued between run() calls.  cmd = [op, a, b]
Snap(op, a, err, s, why) ==
    [op |-> op, a |-> a, err |-> err, proc |-> s.proc, heap |-> Cardinality(s.heap), nprim |-> s.nprim,
     paused |-> s.paused, running |-> s.running, clock |-> s.clock, nd |-> Len(s.delivered), why |-> why,
     by |-> pend.op, clean |-> pend.clean, nd0 |-> pend.nd0, n |-> pend.n]

Attach(c) == [c EXCEPT !.att = TRUE]
Quiet(c) == c.bps = {} /\ c.hp = {}
NoPend == [op |-> "", n |-> 0, nd0 |-> 0, clean |-> TRUE]

BpKind(op) == CASE op = "bp_count" -> "count" [] op = "bp_time" -> "time" [] op = "bp_label" -> "label"
                   [] op = "bp_metric" -> "metric"

\* the pre-run events as reset() re-creates them
ResetOrder == IF "reset_replays_in_schedule_order" \in Dev THEN prog.sched ELSE SortedSeq(PreSet)

Same(cmd, c1) ==      \* a command that only changes control state
    /\ k' = c1 /\ e' = e /\ pc' = "cmd" /\ obs' = Append(obs, Snap(cmd.op, cmd.a, FALSE, e, ""))
    /\ UNCHANGED <<runs, pend>>
Err(cmd) ==           \* the API raises; nothing changes except that the control surface now exists
    /\ k' = Attach(k) /\ e' = e /\ pc' = "cmd" /\ obs' = Append(obs, Snap(cmd.op, cmd.a, TRUE, e, ""))
    /\ UNCHANGED <<runs, pend>>
Enter(cmd, s1, c1) == \* the command calls run()
    /\ k' = c1 /\ e' = s1 /\ pc' = "loop"
    /\ pend' = [op |-> cmd.op, n |-> cmd.a, nd0 |-> Len(e.delivered), clean |-> Quiet(c1)]
    /\ UNCHANGED <<obs, runs>>

DoCmd(cmd) ==
    /\ pc = "cmd"
    /\ CASE cmd.op = "run" ->  Enter(cmd, IF e.running THEN e ELSE Started(e), k)
         [] cmd.op = "attach" -> Same(cmd, Attach(k))
         [] cmd.op = "pause" -> Same(cmd, [Attach(k) EXCEPT !.pauseReq = TRUE])
         [] cmd.op = "resume" ->
              IF ~e.paused THEN Err(cmd)
              ELSE Enter(cmd, [e EXCEPT !.paused = FALSE],
                         [Attach(k) EXCEPT !.pauseReq = FALSE, !.steps = None])
         [] cmd.op = "step" ->
              IF ~e.running THEN Err(cmd)
              ELSE Enter(cmd, [e EXCEPT !.paused = FALSE],
                         [Attach(k) EXCEPT !.pauseReq = FALSE, !.steps = cmd.a])
         [] cmd.op \in {"bp_count", "bp_time", "bp_label", "bp_metric"} ->
              Same(cmd, [Attach(k) EXCEPT !.bps = @ \cup {[kind |-> BpKind(cmd.op), arg |-> cmd.a,
                                                            one |-> cmd.b = 1]}])
         [] cmd.op = "clear" -> Same(cmd, [Attach(k) EXCEPT !.bps = {}])
         [] cmd.op = "hook" -> Same(cmd, [Attach(k) EXCEPT !.hp = @ \cup {cmd.a}])
         [] cmd.op = "reset" ->
              LET s1 == [Make([E0 EXCEPT !.ctr = e.ctr], ResetOrder) EXCEPT !.ncan = e.ncan] IN
              /\ e' = s1
              /\ k' = [Attach(k) EXCEPT !.pauseReq = FALSE, !.steps = None]
              /\ runs' = Append(runs, e.delivered)
              /\ pc' = "cmd" /\ obs' = Append(obs, Snap("reset", 0, FALSE, s1, "")) /\ pend' = pend
         [] OTHER -> FALSE
    /\ prog' = prog

LoopStep ==
    /\ pc = "loop"
    /\ LET r == Iter(e, k) IN
          /\ e' = r.e /\ k' = r.k
          /\ IF r.st = "go" THEN pc' = "loop" /\ obs' = obs
             ELSE pc' = "cmd" /\ obs' = Append(obs, Snap("ret", 0, FALSE, r.e, r.why))
    /\ UNCHANGED <<prog, runs, pend>>

\* ---------------------------------------------------------------------------
\* contract (C04), over observable data only
IsPrefix(a, b) == Len(a) <= Len(b) /\ \A i \in 1..Len(a) : a[i] = b[i]
\* (a) at every moment the (possibly interrupted) run has delivered a prefix of what the
\*     uninterrupted run delivers, and when it has run to completion, all of it
InvPrefix == IsPrefix(e.delivered, Ref.delivered)
InvSameRun == (pc = "cmd" /\ ~e.running /\ obs # <<>> /\ obs[Len(obs)].op = "ret")
                 => /\ e.delivered = Ref.delivered
                    /\ e.clock = Ref.clock /\ e.proc = Ref.proc
\* (b) step(n) delivers exactly n events unless the run ends first (no breakpoints/hooks around)
StepExact == [][ (pc = "loop" /\ pc' = "cmd" /\ pend.op = "step" /\ pend.clean)
                   => IF e'.running THEN Len(e'.delivered) = pend.nd0 + pend.n /\ e'.paused
                      ELSE Len(e'.delivered) <= pend.nd0 + pend.n ]_vars
\* (c) a breakpoint pauses right after the first delivery that satisfies it: a delivery whose
\*     post-state satisfies a registered breakpoint is followed by a pause, and one-shot
\*     breakpoints that fired are gone
BpExact == [][ (pc = "loop" /\ Len(e'.delivered) > Len(e.delivered)
                  /\ \E b \in k.bps : BpTrue(b, e'))
                => (e'.paused /\ pc' = "cmd" /\ \A b \in k.bps : (BpTrue(b, e') /\ b.one) => b \notin k'.bps) ]_vars
\* a pause only ever happens for a reason
NoSpuriousPause == [][ (pc = "loop" /\ ~e.paused /\ e'.paused) =>
                         \/ k.pauseReq \/ (k.steps # None /\ k.steps <= 0)
                         \/ (Len(e'.delivered) > Len(e.delivered) /\
                              (\E b \in k.bps : BpTrue(b, e'))) ]_vars
\* (d) reset(); run() repeats the original delivery sequence
InvReset == (pc = "cmd" /\ ~e.running /\ obs # <<>> /\ obs[Len(obs)].op = "ret" /\ runs # <<>>)
               => e.delivered = Ref.delivered
\* the two loop transcriptions agree on every reachable engine state
InvFastSlow == (~Auto /\ pc = "loop") =>
                 LET f == FastIter(e) s == SlowIter(e, K0) IN f.e = s.e /\ f.st = s.st
InvRefLoops == Ref.delivered = RefSlow.delivered /\ Ref.clock = RefSlow.clock
============================================================================
