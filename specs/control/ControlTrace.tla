---------------------------- MODULE ControlTrace ----------------------------
(* Trace validation for C04.  Each recorded execution carries its program, the *)
(* controller commands that were issued, the snapshot taken from the real      *)
(* sim.control.get_state() after every command and every return of run(), the  *)
(* delivery log of the controlled run, the delivery log of the uninterrupted   *)
(* run of the same program on the real engine (ref) and the delivery logs of   *)
(* the same program under the other observation modes (modes).                 *)
(* The Control machine is run on (program, commands); one verdict per trace:   *)
(*   <<"V", id, verdict, position>>                                            *)
(* PROP:* = a clause of C04 is false on the observed execution;                *)
(* MODEL:* = the code disagrees with Control.tla but no clause is false.       *)
EXTENDS Control, Json, IOUtils

Traces == JsonDeserialize(IOEnv.TRACE_FILE)
NT == Len(Traces)
VARIABLES ti, ci
tvars == <<vars, ti, ci>>

ProgOf(tr) == [ev |-> tr.ev, endT |-> tr.endT, sched |-> tr.sched]

Load(i) ==
    LET p == ProgOf(Traces[i])
        pre == { j \in 1..Len(p.ev) : p.ev[j].par = 0 }
    IN /\ prog' = p /\ pc' = "build" /\ k' = K0 /\ pend' = NoPend /\ obs' = <<>> /\ runs' = <<>>
       /\ ci' = 1
       /\ e' = LET base == [heap |-> {}, idx |-> [j \in 1..Len(p.ev) |-> 0], made |-> {}, ctr |-> 0,
                            clock |-> 0, proc |-> 0, ncan |-> 0, x |-> {}, delivered |-> <<>>, nprim |-> 0,
                            running |-> FALSE, paused |-> FALSE, last |-> 0]
               IN base      \* events are made in TBuild (needs prog' in place)

TInit ==
    /\ ti = 0 /\ ci = 1 /\ prog = [ev |-> <<>>, endT |-> Inf, sched |-> <<>>] /\ pc = "load"
    /\ e = [heap |-> {}] /\ k = K0 /\ pend = NoPend /\ obs = <<>> /\ runs = <<>>

\* fields of a snapshot that the real get_state() exposes
Proj(o) == [op |-> o.op, a |-> o.a, err |-> o.err, proc |-> o.proc, heap |-> o.heap, nprim |-> o.nprim,
            paused |-> o.paused, running |-> o.running, clock |-> o.clock, nd |-> o.nd]

RECURSIVE FirstDiff(_, _, _)
FirstDiff(a, b, i) ==
    IF i > Len(a) /\ i > Len(b) THEN 0
    ELSE IF i > Len(a) \/ i > Len(b) THEN i
    ELSE IF Proj(a[i]) # Proj(b[i]) THEN i ELSE FirstDiff(a, b, i + 1)

\* the command that entered the run() call which returned at obs position j (model side)
EnterBefore(tr, j) == \* number of "ret" records among obs[1..j] = index of the entering command among
                     \* the commands that call run(); find that command
    LET nret == Cardinality({ i \in 1..j : obs[i].op = "ret" })
        enters == SelectSeq(tr.cmds, LAMBDA c : c.op \in {"run", "resume", "step"})
    IN IF nret = 0 \/ nret > Len(enters) THEN [op |-> "", a |-> 0, b |-> 0] ELSE enters[nret]

CompletedRun(tr) == tr.final.running = FALSE

Verdict(tr) ==
    LET d == IF tr.strict THEN FirstDiff(obs, tr.obs, 1) ELSE 0
        hasReset == \E i \in 1..Len(tr.cmds) : tr.cmds[i].op = "reset"
        badModes == { m \in 1..Len(tr.modes) : tr.modes[m] # tr.ref }
    IN
    \* (a) real controlled run vs real uninterrupted run of the same program
    IF CompletedRun(tr) /\ ~hasReset /\ tr.delivered # tr.ref THEN <<"PROP:run_changed_by_control", 0>>
    ELSE IF CompletedRun(tr) /\ hasReset /\ tr.delivered # tr.ref THEN <<"PROP:reset_changes_sequence", 0>>
    ELSE IF ~IsPrefix(tr.delivered, tr.ref) /\ ~hasReset THEN <<"PROP:run_changed_by_control", 0>>
    ELSE IF badModes # {} THEN <<"PROP:run_changed_by_observation", CHOOSE m \in badModes : TRUE>>
    ELSE IF tr.refstats # tr.stats THEN <<"PROP:final_state_changed", 0>>
    ELSE IF d = 0 THEN (IF tr.strict /\ tr.ref # Ref.delivered THEN <<"MODEL:engine_order", 0>> ELSE <<"ACCEPT", 0>>)
    ELSE IF d > Len(obs) \/ d > Len(tr.obs) THEN <<"MODEL:obs_length", d>>
    ELSE LET mo == obs[d] ro == tr.obs[d] IN
         IF mo.op # ro.op THEN <<"MODEL:obs_kind", d>>
         ELSE IF mo.err # ro.err THEN <<"MODEL:api_error", d>>
         ELSE IF mo.op = "ret" THEN
              \* mo.by / mo.clean: the command that entered this run() call and whether any breakpoint
              \* or hook was registered at that moment (ghost fields of the model's record)
              IF mo.by = "step" /\ mo.clean /\ (mo.nd # ro.nd \/ mo.running # ro.running)
                 THEN <<"PROP:step_count", d>>
              ELSE IF mo.why = "bp" /\ (mo.nd # ro.nd \/ mo.paused # ro.paused)
                 THEN <<"PROP:breakpoint_pause", d>>
              ELSE IF ~mo.clean /\ mo.nd < ro.nd /\ mo.why = "bp" THEN <<"PROP:breakpoint_pause", d>>
              \* no pause request or pausing hook anywhere in the script and the run was not entered by
              \* step(): the only thing that may pause it is a breakpoint, right after the first delivery
              \* that satisfies it (Control.tla computes exactly that point)
              ELSE IF (\A i \in 1..Len(tr.cmds) : tr.cmds[i].op \notin {"pause", "hook"}) /\ mo.by # "step"
                      /\ (mo.nd # ro.nd \/ mo.paused # ro.paused)
                 THEN <<"PROP:breakpoint_pause", d>>
              ELSE <<"MODEL:pause_point", d>>
         ELSE <<"MODEL:snapshot", d>>

TNext ==
    \/ /\ pc = "load" /\ ti < NT
       /\ ti' = ti + 1 /\ Load(ti + 1)
    \/ /\ pc = "build"
       /\ e' = Built /\ pc' = "cmd" /\ UNCHANGED <<prog, k, pend, obs, runs, ti, ci>>
    \/ /\ pc = "loop" /\ LoopStep /\ UNCHANGED <<ti, ci>>
    \/ /\ pc = "cmd" /\ ci <= Len(Traces[ti].cmds)
       /\ DoCmd(Traces[ti].cmds[ci]) /\ ci' = ci + 1 /\ ti' = ti
    \/ /\ pc = "cmd" /\ ci > Len(Traces[ti].cmds)
       /\ LET v == Verdict(Traces[ti]) IN PrintT(<<"V", Traces[ti].id, v[1], v[2]>>)
       /\ pc' = "load" /\ UNCHANGED <<prog, e, k, pend, obs, runs, ti, ci>>

TSpec == TInit /\ [][TNext]_tvars
=============================================================================
