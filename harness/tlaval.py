"""Parser for TLA+ values as printed by TLC (error traces, dot dumps, PrintT).

Python mapping:
  integers -> int, TRUE/FALSE -> bool, "s" -> str, model values -> MV(name)
  <<a, b>> -> tuple, {a, b} -> frozenset, [f |-> v, ...] -> dict (str keys)
  (k :> v @@ k2 :> v2) -> dict (keys are parsed values; tuples/strs/ints hashable)
"""
from __future__ import annotations


class MV(str):
    """A TLC model value (printed as a bare identifier)."""

    def __repr__(self):
        return f"MV({str.__repr__(self)})"


class ParseError(ValueError):
    pass


def _freeze(v):
    if isinstance(v, dict):
        return tuple(sorted(((_freeze(k), _freeze(x)) for k, x in v.items()), key=repr))
    if isinstance(v, (set, frozenset)):
        return frozenset(_freeze(x) for x in v)
    if isinstance(v, (list, tuple)):
        return tuple(_freeze(x) for x in v)
    return v


class _P:
    def __init__(self, s: str):
        self.s = s
        self.i = 0
        self.n = len(s)

    def ws(self):
        s, n = self.s, self.n
        while self.i < n and s[self.i] in " \t\r\n":
            self.i += 1

    def peek(self, k=1):
        return self.s[self.i:self.i + k]

    def expect(self, tok):
        self.ws()
        if not self.s.startswith(tok, self.i):
            raise ParseError(f"expected {tok!r} at {self.i}: {self.s[self.i:self.i+40]!r}")
        self.i += len(tok)

    def value(self):
        self.ws()
        s = self.s
        c = s[self.i] if self.i < self.n else ""
        if c == "<" and self.peek(2) == "<<":
            self.i += 2
            items = self.items(">>")
            return tuple(items)
        if c == "{":
            self.i += 1
            items = self.items("}")
            return frozenset(_freeze(x) if isinstance(x, dict) else x for x in items)
        if c == "[":
            self.i += 1
            return self.record()
        if c == "(":
            self.i += 1
            return self.function()
        if c == '"':
            return self.string()
        if c == "-" or c.isdigit():
            j = self.i + 1
            while j < self.n and s[j].isdigit():
                j += 1
            # a..b interval
            v = int(s[self.i:j])
            self.i = j
            if self.peek(2) == "..":
                self.i += 2
                hi = self.value()
                return frozenset(range(v, hi + 1))
            return v
        if c.isalpha() or c == "_":
            j = self.i
            while j < self.n and (s[j].isalnum() or s[j] == "_"):
                j += 1
            w = s[self.i:j]
            self.i = j
            if w == "TRUE":
                return True
            if w == "FALSE":
                return False
            return MV(w)
        raise ParseError(f"unexpected {c!r} at {self.i}: {s[self.i:self.i+40]!r}")

    def items(self, close):
        out = []
        self.ws()
        if self.s.startswith(close, self.i):
            self.i += len(close)
            return out
        while True:
            out.append(self.value())
            self.ws()
            if self.s.startswith(close, self.i):
                self.i += len(close)
                return out
            self.expect(",")

    def record(self):
        d = {}
        self.ws()
        if self.peek() == "]":
            self.i += 1
            return d
        while True:
            self.ws()
            j = self.i
            while j < self.n and (self.s[j].isalnum() or self.s[j] == "_"):
                j += 1
            key = self.s[self.i:j]
            self.i = j
            self.expect("|->")
            d[key] = self.value()
            self.ws()
            if self.peek() == "]":
                self.i += 1
                return d
            self.expect(",")

    def function(self):
        d = {}
        while True:
            k = self.value()
            self.expect(":>")
            v = self.value()
            d[_freeze(k) if isinstance(k, (dict, list)) else k] = v
            self.ws()
            if self.peek() == ")":
                self.i += 1
                return d
            self.expect("@@")

    def string(self):
        assert self.s[self.i] == '"'
        j = self.i + 1
        out = []
        s = self.s
        while s[j] != '"':
            if s[j] == "\\":
                j += 1
                out.append({"n": "\n", "t": "\t"}.get(s[j], s[j]))
            else:
                out.append(s[j])
            j += 1
        self.i = j + 1
        return "".join(out)


def parse_value(s: str):
    p = _P(s)
    v = p.value()
    p.ws()
    if p.i != p.n:
        raise ParseError(f"trailing input at {p.i}: {s[p.i:p.i+40]!r}")
    return v


def parse_state(text: str) -> dict:
    """Parse a TLC state printed as `/\\ x = v\\n/\\ y = w` into {var: value}."""
    p = _P(text)
    st = {}
    while True:
        p.ws()
        if p.i >= p.n:
            return st
        if p.peek(2) == "/\\":
            p.i += 2
        p.ws()
        j = p.i
        while j < p.n and (p.s[j].isalnum() or p.s[j] == "_"):
            j += 1
        var = p.s[p.i:j]
        p.i = j
        p.expect("=")
        st[var] = p.value()


def to_tla(v) -> str:
    """Render a Python value as a TLA+ expression (inverse of parse_value)."""
    if isinstance(v, bool):
        return "TRUE" if v else "FALSE"
    if isinstance(v, MV):
        return str(v)
    if isinstance(v, int):
        return str(v)
    if isinstance(v, str):
        return '"' + v.replace("\\", "\\\\").replace('"', '\\"') + '"'
    if isinstance(v, (list, tuple)):
        return "<<" + ", ".join(to_tla(x) for x in v) + ">>"
    if isinstance(v, (set, frozenset)):
        return "{" + ", ".join(sorted(to_tla(x) for x in v)) + "}"
    if isinstance(v, dict):
        if not v:
            return "<<>>"
        if all(isinstance(k, str) and (k[:1].isalpha() and k.replace("_", "a").isalnum()) for k in v):
            return "[" + ", ".join(f"{k} |-> {to_tla(x)}" for k, x in v.items()) + "]"
        return "(" + " @@ ".join(f"{to_tla(k)} :> {to_tla(x)}" for k, x in v.items()) + ")"
    raise TypeError(type(v))
