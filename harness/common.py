"""Check context: collects TLC results, real-code executions, verdicts; writes evidence; exit code.

Verdict rules (DESIGN.md section 3):
  * VIOLATION is printed only for a concrete real-code execution on which a contract predicate
    is false, saved as a replay file.
  * DRIFT (real code disagrees with the implementation-shaped model but no contract predicate is
    false) is informational.
  * Known findings (known_findings.json) matched by (property, key) are printed as KNOWN-FINDING.
  * Machinery failures exit 2.
"""
from __future__ import annotations

import json
import os
import sys
import time
import traceback
from pathlib import Path

VERIF = Path(__file__).resolve().parent.parent
REPO = Path(os.environ.get("VERIF_REPO", "/repo"))
EVID = Path(os.environ.get("VERIF_EVIDENCE_DIR", str(VERIF / "evidence")))
REPLAYS = Path(os.environ.get("VERIF_REPLAYS_DIR", str(VERIF / "replays")))
KNOWN = Path(os.environ.get("VERIF_KNOWN", str(VERIF / "known_findings.json")))

LEVELS = {"exploration", "fault_enumeration", "model_checking", "proof", "translation_validation", "other"}


def load_known():
    if not KNOWN.exists():
        return {"open": [], "fixed": []}
    return json.loads(KNOWN.read_text())


class Check:
    def __init__(self, prop: str, tier: str, seed: int, level: str = "model_checking"):
        assert level in LEVELS
        self.prop, self.tier, self.seed, self.level = prop, tier, seed, level
        self.t0 = time.time()
        self.states = 0
        self.transitions = 0
        self.tlc_runs = []          # dicts
        self.impl_traces = 0        # real-code executions validated
        self.impl_steps = 0
        self.replays = 0            # spec behaviours replayed into the code
        self.drift = []             # informational
        self.samples = []
        self.violations = []        # (key, description, replay_path)
        self.known_hits = {}        # key -> description
        self.assumptions = []
        self.extra = {}
        self.exhaustive = False
        self.explanation = ""
        self.sensitivity = {}       # deviation -> caught invariant
        known = load_known()
        self.known_open = {e["key"]: e for e in known.get("open", []) if e["property"] == prop}
        self.quick = tier == "quick"

    # -- bookkeeping -------------------------------------------------------
    def add_tlc(self, name: str, res, *, count=True, note: str = ""):
        self.tlc_runs.append({"name": name, "generated": res.generated, "distinct": res.distinct,
                              "depth": res.depth, "violated": res.violated, "wall_s": round(res.wall, 2),
                              "note": note})
        if count:
            self.states += res.distinct
            self.transitions += res.generated

    def sample(self, s, cap=6):
        if len(self.samples) < cap:
            self.samples.append(s)

    def note_drift(self, desc: str):
        if len(self.drift) < 50:
            self.drift.append(desc)

    def violation(self, key: str, desc: str, replay: dict):
        """A contract predicate was false on a real-code execution."""
        if key in self.known_open:
            if key not in self.known_hits:
                self.known_hits[key] = desc
            return
        # de-duplicate by key
        if any(v[0] == key for v in self.violations):
            return
        REPLAYS.mkdir(exist_ok=True)
        path = REPLAYS / f"{self.prop}_{len(self.violations)}_{_slug(key)}.json"
        path.write_text(json.dumps({"property": self.prop, "key": key, "what": desc, "replay": replay},
                                   indent=1, default=str))
        self.violations.append((key, desc, str(path)))

    def require(self, cond: bool, msg: str):
        """Machinery self-check (e.g. model must be clean with Dev={}, deviation must be caught)."""
        if not cond:
            raise MachineryError(msg)

    # -- finish ------------------------------------------------------------
    def finish(self) -> int:
        wall = time.time() - self.t0
        for key, desc in self.known_hits.items():
            print(f"KNOWN-FINDING: property={self.prop} {key}: {desc}")
        for key, desc, path in self.violations:
            print(f"VIOLATION property={self.prop} replay={path}")
            print(f"  what: {key}: {desc}")
        if self.drift:
            print(f"DRIFT property={self.prop} count={len(self.drift)} first={self.drift[0]}")
        cov = {
            "states": max(self.states, 0),
            "transitions": max(self.transitions, 0),
            "traces_validated_against_impl": self.impl_traces,
            "samples": self.samples or ["(none)"],
            "impl_steps": self.impl_steps,
            "spec_behaviours_replayed_into_code": self.replays,
            "tlc_runs": self.tlc_runs,
            "drift": self.drift[:10],
            "drift_count": len(self.drift),
            "sensitivity": self.sensitivity,
            "known_findings_seen": sorted(self.known_hits),
            "exhaustive": self.exhaustive,
            "explanation": self.explanation,
        }
        if self.level != "model_checking":
            cov["evaluations"] = max(self.impl_traces, 1)
            cov["distinct_nontrivial"] = self.extra.get("distinct_nontrivial", 0)
            cov["rule"] = self.extra.get("rule", "")
        cov.update({k: v for k, v in self.extra.items() if k not in cov})
        ev = {
            "property_id": self.prop, "tier": self.tier, "seed": self.seed, "level": self.level,
            "coverage": cov, "assumptions": self.assumptions, "wall_s": round(wall, 2),
            "violations": len(self.violations),
        }
        EVID.mkdir(exist_ok=True)
        (EVID / f"{self.prop}.json").write_text(json.dumps(ev, indent=1, default=str) + "\n")
        print(f"{self.prop} {self.tier}: states={self.states} transitions={self.transitions} "
              f"impl_traces={self.impl_traces} impl_steps={self.impl_steps} replays={self.replays} "
              f"violations={len(self.violations)} known={len(self.known_hits)} drift={len(self.drift)} "
              f"wall={wall:.1f}s")
        return 1 if self.violations else 0


class MachineryError(RuntimeError):
    pass


def _slug(s: str) -> str:
    return "".join(c if c.isalnum() else "_" for c in s)[:60]


def main_wrapper(fn, prop: str, argv=None):
    """Standard CLI: --tier quick|thorough  --seed N  --replay path"""
    import argparse
    ap = argparse.ArgumentParser()
    ap.add_argument("--tier", default=os.environ.get("VERIF_TIER", "quick"))
    ap.add_argument("--seed", type=int, default=int(os.environ.get("VERIF_SEED", "0")))
    ap.add_argument("--replay", default=None)
    a = ap.parse_args(argv)
    if a.tier not in ("quick", "thorough"):
        a.tier = "quick"
    try:
        return fn(a.tier, a.seed, a.replay)
    except MachineryError as e:
        print(f"MACHINERY-ERROR property={prop}: {e}", file=sys.stderr)
        return 2
    except Exception:
        traceback.print_exc()
        print(f"MACHINERY-ERROR property={prop}: unexpected exception", file=sys.stderr)
        return 2
