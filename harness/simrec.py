"""Process-wide recorder for every Simulation executed in this interpreter (used by C03 and C07).

Installed only inside harness child processes.  Class-level wrappers (no repository edits):
  * Simulation.__init__          -> assigns an ordinal, opens a per-simulation record
  * Simulation.run/_run_window   -> marks which simulation the current thread is executing
  * Event.invoke / ProcessContinuation.invoke (top level only) -> delivery log, per-instant counter,
                                    spin guard
  * EventHeap._push_single        -> emission check: event.time < the heap's current time while a
                                    delivery is in progress = emission into the past
  * logging handler               -> "Time travel detected" discards

Per simulation it keeps: the delivery log (time_ns, event_type, target name), a running sha256 of it,
the number of deliveries, the largest number of deliveries at one instant, the past emissions
(emitter class/module, event type, delta), the time-travel discards and, at the end of run(), a digest
of the public `stats` of every entity.
"""
from __future__ import annotations

import dataclasses
import hashlib
import json
import logging
import threading

from happysimulator.core.event import Event, ProcessContinuation
from happysimulator.core.event_heap import EventHeap
from happysimulator.core.simulation import Simulation


class SpinAbort(BaseException):
    """Raised by the spin guard to stop a run that keeps delivering at one instant."""


class SimRec:
    __slots__ = ("ordinal", "log", "n", "h", "cur_t", "cur_n", "max_inst", "max_inst_t", "past", "tt",
                 "spin", "stats", "types", "last_emitter", "heap_id", "max_inst_types", "inst_types")

    def __init__(self, ordinal, keep):
        self.ordinal = ordinal
        self.log = []
        self.n = 0
        self.h = hashlib.sha256()
        self.cur_t = None
        self.cur_n = 0
        self.max_inst = 0
        self.max_inst_t = 0
        self.past = []
        self.tt = 0
        self.spin = None
        self.stats = None
        self.inst_types = {}
        self.max_inst_types = {}


class Recorder:
    def __init__(self, keep_log=400, spin_limit=200_000, want_log=True):
        self.keep_log = keep_log
        self.spin_limit = spin_limit
        self.want_log = want_log
        self.sims = []             # SimRec in construction order
        self._by_heap = {}
        self.classes = set()       # classes of delivery targets (coverage)
        self._tls = threading.local()
        self._orig = {}
        self._lock = threading.Lock()

    # -- helpers -----------------------------------------------------------
    def _rec_of(self, sim):
        r = getattr(sim, "_verif_rec", None)
        if r is None:
            with self._lock:
                r = SimRec(len(self.sims), self.keep_log)
                self.sims.append(r)
            try:
                sim._verif_rec = r
            except Exception:
                pass
        return r

    def _stack(self):
        st = getattr(self._tls, "stack", None)
        if st is None:
            st = self._tls.stack = []
        return st

    # -- install -----------------------------------------------------------
    def install(self):
        rec = self
        o = self._orig
        o["init"] = Simulation.__init__
        o["run"] = Simulation.run
        o["win"] = Simulation._run_window
        o["ev"] = Event.invoke
        o["pc"] = ProcessContinuation.invoke
        o["push"] = EventHeap._push_single

        def init(self, *a, **kw):
            o["init"](self, *a, **kw)
            rec._rec_of(self)

        def wrap_run(orig):
            def run(self, *a, **kw):
                r = rec._rec_of(self)
                st = rec._stack()
                st.append((self, r))
                try:
                    return orig(self, *a, **kw)
                except SpinAbort:
                    return None
                finally:
                    st.pop()
                    if orig is o["run"] and not getattr(self, "_is_paused", False):
                        r.stats = stats_digest(self)
            return run

        def wrap_invoke(orig):
            def invoke(self):
                tls = rec._tls
                depth = getattr(tls, "depth", 0)
                if depth == 0:
                    st = rec._stack()
                    if st:
                        sim, r = st[-1]
                        t = self.time.nanoseconds
                        tgt = self.target
                        rec.classes.add(type(tgt))
                        name = getattr(tgt, "name", None) or type(tgt).__name__
                        et = self.event_type
                        if rec.want_log:
                            item = f"{t}|{et}|{name}\n".encode()
                            r.h.update(item)
                            if r.n < rec.keep_log:
                                r.log.append((t, et, name))
                        r.n += 1
                        if t != r.cur_t:
                            r.cur_t, r.cur_n, r.inst_types = t, 0, {}
                        r.cur_n += 1
                        if r.cur_n > 1000:
                            key = f"{et}@{type(tgt).__name__}"
                            r.inst_types[key] = r.inst_types.get(key, 0) + 1
                        if r.cur_n > r.max_inst:
                            r.max_inst, r.max_inst_t = r.cur_n, t
                            if r.cur_n > 1000:
                                r.max_inst_types = r.inst_types
                        if r.cur_n > rec.spin_limit:
                            r.spin = {"t": t, "n": r.cur_n, "type": et, "target": type(tgt).__name__,
                                      "module": type(tgt).__module__}
                            r.spin.update(_innermost_frame(self))
                            raise SpinAbort()
                        tls.emitter = tgt
                tls.depth = depth + 1
                try:
                    return orig(self)
                finally:
                    tls.depth = depth
            return invoke

        def push(self, event):
            o["push"](self, event)
            st = rec._stack()
            if st and getattr(rec._tls, "depth", 0) >= 0:
                sim, r = st[-1]
                if self is sim._event_heap:
                    now = sim._clock.now.nanoseconds if getattr(rec._tls, "emitter", None) is not None \
                        else None
                    if now is not None and event.time.nanoseconds < now and len(r.past) < 50:
                        em = getattr(rec._tls, "emitter", None)
                        r.past.append({"emitter": type(em).__name__, "module": type(em).__module__,
                                       "etype": str(event.event_type), "late_ns": now - event.time.nanoseconds,
                                       "target": type(event.target).__name__})

        Simulation.__init__ = init
        Simulation.run = wrap_run(o["run"])
        Simulation._run_window = wrap_run(o["win"])
        Event.invoke = wrap_invoke(o["ev"])
        ProcessContinuation.invoke = wrap_invoke(o["pc"])
        EventHeap._push_single = push

        class H(logging.Handler):
            def emit(self, record):
                try:
                    if "Time travel detected" in str(record.msg):
                        st = rec._stack()
                        if st:
                            st[-1][1].tt += 1
                except Exception:
                    pass
        self._h = H(level=logging.WARNING)
        lg = logging.getLogger("happysimulator.core.simulation")
        lg.addHandler(self._h)
        if lg.getEffectiveLevel() > logging.WARNING:
            lg.setLevel(logging.WARNING)
        return self

    def uninstall(self):
        o = self._orig
        Simulation.__init__ = o["init"]
        Simulation.run = o["run"]
        Simulation._run_window = o["win"]
        Event.invoke = o["ev"]
        ProcessContinuation.invoke = o["pc"]
        EventHeap._push_single = o["push"]
        logging.getLogger("happysimulator.core.simulation").removeHandler(self._h)

    # -- output ------------------------------------------------------------
    def class_names(self):
        return sorted(f"{c.__module__}.{c.__name__}" for c in self.classes
                      if c.__module__.startswith("happysimulator."))

    def digest(self):
        out = []
        for r in self.sims:
            out.append({"n": r.n, "hash": r.h.hexdigest(), "log": [list(x) for x in r.log], "stats": r.stats,
                        "max_inst": r.max_inst, "max_inst_t": r.max_inst_t, "past": r.past, "tt": r.tt,
                        "spin": r.spin, "max_inst_types": r.max_inst_types if r.max_inst > 1000 else {}})
        return out


def _innermost_frame(ev):
    """For a process continuation: the innermost suspended generator (following `yield from`)."""
    g = getattr(ev, "process", None) or getattr(ev, "_process", None)
    seen = 0
    while g is not None and seen < 50:
        nxt = getattr(g, "gi_yieldfrom", None)
        if nxt is None or not hasattr(nxt, "gi_code"):
            break
        g, seen = nxt, seen + 1
    code = getattr(g, "gi_code", None)
    if code is None:
        return {"frame": "", "file": ""}
    return {"frame": getattr(code, "co_qualname", code.co_name), "file": code.co_filename}


def _canon(v, depth=0):
    if depth > 6:
        return "..."
    if dataclasses.is_dataclass(v) and not isinstance(v, type):
        return {f.name: _canon(getattr(v, f.name), depth + 1) for f in dataclasses.fields(v)}
    if isinstance(v, dict):
        return {str(k): _canon(x, depth + 1) for k, x in sorted(v.items(), key=lambda kv: str(kv[0]))}
    if isinstance(v, (list, tuple)):
        return [_canon(x, depth + 1) for x in v]
    if isinstance(v, (set, frozenset)):
        return sorted(str(_canon(x, depth + 1)) for x in v)
    if isinstance(v, (int, str, bool)) or v is None:
        return v
    if isinstance(v, float):
        return repr(v)
    ns = getattr(v, "nanoseconds", None)
    if isinstance(ns, int):
        return f"t{ns}"
    if hasattr(v, "name") and hasattr(v, "value") and type(v).__module__ != "builtins":
        try:
            return f"{type(v).__name__}.{v.name}"
        except Exception:
            pass
    return f"<{type(v).__name__}>"


def stats_digest(sim):
    """sha256 of the canonical JSON of every entity's public `stats` (dataclass or dict), in entity order."""
    items = []
    try:
        ents = list(getattr(sim, "_entities", [])) + list(getattr(sim, "_sources", []))
    except Exception:
        ents = []
    for e in ents:
        try:
            s = getattr(e, "stats", None)
            if callable(s):
                s = s()
        except Exception:
            continue
        if s is None:
            continue
        items.append([getattr(e, "name", type(e).__name__), _canon(s)])
    txt = json.dumps(items, sort_keys=True, default=str)
    return {"sha": hashlib.sha256(txt.encode()).hexdigest(), "n": len(items), "text": txt[:3000]}
