"""Regenerates seeded/INDEX.md from seeded/*/meta.json."""
import json
from pathlib import Path

VERIF = Path(__file__).resolve().parent.parent


def main():
    rows = []
    for m in sorted((VERIF / "seeded").glob("*/meta.json")):
        d = json.loads(m.read_text())
        notes = (d.get("needs_to_manifest") or "").strip().splitlines()
        first = next((l.strip("# ").strip() for l in notes if l.strip()), "")
        checks = d.get("checks", {})
        keys = []
        for c, r in checks.items():
            for l in r.get("lines", []):
                if l.strip().startswith("what:"):
                    keys.append(l.strip()[5:].strip().split(":")[0])
        caught = ", ".join(d.get("caught_by", []))
        rc = d.get("recheck_after_strengthening") or {}
        if not caught and rc.get("caught_by_scenarios"):
            caught = d["property"] + " (scenario library, see meta.json)"
        rows.append((d["id"], d["property"], caught or "MISSED",
                     "; ".join(sorted(set(keys)))[:120], first[:140]))
    out = ["# Seeded changes", "",
           "Each directory holds `patch.diff` (the change), `demo.py` (fails with the change, passes without),",
           "`notes.md` (from the independent sub-agent that wrote it) and `meta.json` (what was run to confirm it",
           "and which checks reported a VIOLATION on the patched tree).", "",
           "| id | property | caught by (quick tier) | violation keys | what it is |", "|---|---|---|---|---|"]
    out += [f"| {a} | {b} | {c} | {d} | {e} |" for a, b, c, d, e in rows]
    (VERIF / "seeded" / "INDEX.md").write_text("\n".join(out) + "\n")
    print(f"{len(rows)} seeded changes")


if __name__ == "__main__":
    main()
