"""C06 real-code side: a schedule (fault windows + workload) -> real Simulation with real FaultSchedule,
Network/NetworkLink, Resource, QueuedResource; observation logs in the vocabulary of specs/faults/Faults.tla.

Time: fine tick f = 3K + off  <->  ns = K * T + off (off in {-1, 0, 1}): the ticks around a window edge are the
instants 1 ns before / at / 1 ns after it.  All delays are multiples of 3 ticks (whole multiples of T).
"""
from __future__ import annotations

import random

from happysimulator.components.network.link import NetworkLink
from happysimulator.components.network.network import Network
from happysimulator.components.queued_resource import QueuedResource
from happysimulator.components.resource import Resource
from happysimulator.core.entity import Entity
from happysimulator.core.event import Event
from happysimulator.core.simulation import Simulation
from happysimulator.core.temporal import Instant
from happysimulator.distributions.constant import ConstantLatency
from happysimulator.faults import (CrashNode, FaultSchedule, InjectLatency, InjectPacketLoss, NetworkPartition,
                                   PauseNode, ReduceCapacity)

INF = 999999
QID = 9
BAD = 777777


def ns_of(f: int, T: int) -> int:
    k = (f + 1) // 3
    return k * T + (f - 3 * k)


def tick_of(ns: int, T: int) -> int:
    k = (ns + 1) // T
    off = ns - k * T
    return 3 * k + off if off in (-1, 0, 1) else BAD


def sec(ns: int) -> float:
    """A float number of seconds that the repository's int(seconds * 1e9) conversion maps to exactly ns."""
    for x in (ns / 1e9, (ns + 0.5) / 1e9, (ns + 0.25) / 1e9):
        if int(x * 1_000_000_000) == ns:
            return x
    raise ValueError(f"no exact float for {ns} ns")


def tick_ok(T: int, max_stack: int = 3) -> bool:
    """Pure float arithmetic (no repository code): do the latency values used by the harness survive the
    Duration -> seconds -> Instant round trips of link.py / network_faults.py exactly?  Checked for the base
    latency alone and for every stack of up to max_stack compounded extras of 1..3 coarse ticks."""
    import itertools
    try:
        b = int(sec(T) * 1_000_000_000)                              # ConstantLatency.get_latency -> Duration
        if int((float(b) / 1e9) * 1_000_000_000) != T:                # .to_seconds() -> Instant + float
            return False
        for n in range(1, max_stack + 1):
            for extras in itertools.product((1, 2, 3), repeat=n):
                cur = b
                for x in extras:
                    e = int(((x * T / 1e6) / 1000.0) * 1_000_000_000)            # ConstantLatency(extra_ms / 1000)
                    cur = int((float(cur) / 1e9 + float(e) / 1e9) * 1_000_000_000)  # _CompoundLatency
                if int((float(cur) / 1e9) * 1_000_000_000) != (1 + sum(extras)) * T:
                    return False
        return True
    except ValueError:
        return False


TICKS = [t for t in (1_000_000, 1_000, 10_000_000, 250_000, 1_000_000_000) if tick_ok(t)]


class _Rec(Entity):
    """Plain node / network endpoint: runs job scripts, receives probe messages."""

    def __init__(self, eid, w):
        super().__init__(f"e{eid}")
        self.eid = eid
        self.w = w

    def handle_event(self, event):
        w = self.w
        md = event.context["metadata"]
        if event.event_type == "probe":
            w.msgs.append([md["p"], w.tick(self.now.nanoseconds)])
            return None
        j = md["j"]
        J = w.sch["jobs"][j - 1]
        if not J["ds"] and not J.get("g"):
            w.act.append([self.eid, j, 0, w.tick(self.now.nanoseconds)])
            return [w.emit(self, j, 0)] if J["em"][0] else None
        return w.script(self, j, J, None)


class _QServer(QueuedResource):
    """Queue-fronted target: one job in service at a time."""

    def __init__(self, w):
        super().__init__(f"e{QID}")
        self.eid = QID
        self.w = w
        self.busy = 0

    def has_capacity(self):
        return self.busy < 1

    def handle_queued_event(self, event):
        j = event.context["metadata"]["j"]
        return self.w.script(self, j, self.w.sch["jobs"][j - 1], self)


class _Sink(Entity):
    def __init__(self, w):
        super().__init__("sink")
        self.w = w

    def handle_event(self, event):
        md = event.context["metadata"]
        self.w.snk.append([md["e"], md["j"], md["i"], self.w.tick(self.now.nanoseconds)])
        return None


class _Holder(Entity):
    def __init__(self, w):
        super().__init__("holder")
        self.w = w

    def handle_event(self, event):
        w = self.w
        h = event.context["metadata"]["h"]
        H = w.sch["holds"][h - 1]
        try:
            g = w.cpu.try_acquire(H["a"])
        except ValueError:
            g = None
        if g is None:
            w.hlog.append([h, 0, w.tick(self.now.nanoseconds)])
            return None
        w.held += H["a"]
        w.hlog.append([h, 1, w.tick(self.now.nanoseconds)])
        yield w.delay(H["d"])
        w.held -= H["a"]
        try:
            g.release()
            w.hlog.append([h, 2, w.tick(self.now.nanoseconds)])
        except ValueError:
            w.hlog.append([h, 3, w.tick(self.now.nanoseconds)])
        return None


class World:
    def __init__(self, sch: dict, T: int, loop: str = "fast", form_seed: int = 0):
        self.sch, self.T, self.loop = sch, T, loop
        self.frng = random.Random(form_seed)
        self.act, self.snk, self.obs, self.msgs, self.hlog = [], [], [], [], []
        self.held = 0
        self.err = None
        self.handles = []

    # -- helpers -------------------------------------------------------------
    def tick(self, ns):
        return tick_of(ns, self.T)

    def at(self, f):
        return Instant(ns_of(f, self.T))

    def delay(self, d):
        assert d % 3 == 0
        return sec((d // 3) * self.T) if d else 0.0

    def emit(self, ent, j, i):
        return Event(time=ent.now, event_type="emit", target=self.sink,
                     context={"metadata": {"e": ent.eid, "j": j, "i": i}})

    def script(self, ent, j, J, q):
        """Generator following the job script: segment i logs, emits (em[i]), waits ds[i]."""
        n = len(J["ds"])
        if q is not None:
            q.busy += 1
        for i in range(n + 1):
            self.act.append([ent.eid, j, i, self.tick(ent.now.nanoseconds)])
            ev = self.emit(ent, j, i) if J["em"][i] else None
            if i < n:
                d = self.delay(J["ds"][i])
                if ev is None:
                    if self.frng.random() < 0.5:
                        yield d
                    else:
                        yield d, None
                else:
                    yield (d, [ev]) if self.frng.random() < 0.5 else (d, ev)
            else:
                if q is not None:
                    q.busy -= 1
                return ([ev] if self.frng.random() < 0.5 else ev) if ev is not None else None

    # -- construction --------------------------------------------------------
    def build(self):
        sch, T = self.sch, self.T
        ids = set()
        for w in sch["wins"]:
            if w["k"] in ("crash", "pause"):
                ids.add(w["tg"][0])
            elif w["k"] in ("lat", "loss"):
                ids.update(w["tg"])
        for g in sch["groups"]:
            ids.update(g["a"])
            ids.update(g["b"])
        for J in sch["jobs"]:
            ids.add(J["e"])
        for p in sch["probes"]:
            if p["x"]:
                ids.update((p["x"], p["y"]))
        self.sink = _Sink(self)
        self.holder = _Holder(self)
        self.cpu = Resource("cpu", sch["C"])
        self.ents = {i: (_QServer(self) if i == QID else _Rec(i, self)) for i in sorted(ids)}
        self.net = Network("net")
        eps = sorted(i for i in ids if i >= 11)
        self.links = {}
        base = sec((sch["L0"] // 3) * T)
        for x in eps:
            for y in eps:
                if x != y:
                    link = NetworkLink(f"l{x}_{y}", latency=ConstantLatency(base))
                    self.net.add_link(self.ents[x], self.ents[y], link)
                    self.links[(x, y)] = link
        fs = FaultSchedule()
        nm = lambda i: self.ents[i].name
        for w in sch["wins"]:
            k, s, e = w["k"], sec(ns_of(w["s"], T)), (None if w["e"] == INF else sec(ns_of(w["e"], T)))
            if k == "crash":
                f = CrashNode(nm(w["tg"][0]), at=s, restart_at=e)
            elif k == "pause":
                f = PauseNode(nm(w["tg"][0]), start=s, end=e)
            elif k == "part":
                g = sch["groups"][w["tg"][0] - 1]
                f = NetworkPartition([nm(i) for i in g["a"]], [nm(i) for i in g["b"]], start=s, end=e,
                                     asymmetric=bool(w["x"]))
            elif k == "lat":
                f = InjectLatency(nm(w["tg"][0]), nm(w["tg"][1]), (w["x"] // 3) * T / 1e6, start=s, end=e)
            elif k == "loss":
                f = InjectPacketLoss(nm(w["tg"][0]), nm(w["tg"][1]), 1.0, start=s, end=e)
            elif k == "cap":
                fac = w["x"] / sch["C"]
                assert sch["C"] * fac == w["x"]
                f = ReduceCapacity("cpu", fac, start=s, end=e)
            else:
                raise ValueError(k)
            h = fs.add(f)
            self.handles.append(h)
            if w["cm"] == 1:
                h.cancel()                                  # before FaultSchedule.start()
        ents = [*self.ents.values(), self.sink, self.holder, self.cpu, self.net]
        sim = Simulation(entities=ents, fault_schedule=fs, end_time=self.at(sch["H"]))
        for w, h in zip(sch["wins"], self.handles):
            if w["cm"] == 2:
                h.cancel()                                  # after construction, before run()
        evs = []
        for w, h in zip(sch["wins"], self.handles):
            if w["cm"] == 3:
                evs.append(Event.once(time=self.at(w["ct"]), event_type="cancel", fn=lambda e, h=h: h.cancel()))
        for j, J in enumerate(sch["jobs"], start=1):
            evs.append(Event(time=self.at(J["t"]), event_type="job", target=self.ents[J["e"]],
                             context={"metadata": {"j": j}}))
        for p, P in enumerate(sch["probes"], start=1):
            evs.append(Event.once(time=self.at(P["t"]), event_type="obs", fn=lambda e, p=p, P=P: self._observe(p, P)))
        for h, H in enumerate(sch["holds"], start=1):
            evs.append(Event(time=self.at(H["t"]), event_type="acq", target=self.holder,
                             context={"metadata": {"h": h}}))
        # absorbs the one event the run loops deliver beyond end_time
        evs.append(Event.once(time=Instant(ns_of(sch["H"], T) + 1), event_type="sentinel", fn=lambda e: None))
        for ev in evs:
            sim.schedule(ev)
        if self.loop == "control":
            sim.control                                      # general loop instead of the fast one
        self.sim = sim
        return sim

    def _observe(self, p, P):
        sch = self.sch
        now = self.net.now
        c = self.cpu.capacity
        a = self.cpu.available
        ci = int(c) if c == int(c) else BAD
        ai = int(a) if a == int(a) else BAD
        x, y = P["x"], P["y"]
        if not x:
            self.obs.append([self.tick(now.nanoseconds), 0, 0, 0, 0, 0, ci, ai, self.held])
            return None
        link = self.net.get_link(self.ents[x].name, self.ents[y].name)
        bl = int(self.net.is_partitioned(self.ents[x].name, self.ents[y].name))
        lo = int(link.packet_loss_rate > 0)
        sl = int(link.latency.get_latency(now).nanoseconds > (sch["L0"] // 3) * self.T)
        self.obs.append([self.tick(now.nanoseconds), x, y, bl, lo, sl, ci, ai, self.held])
        return [self.net.send(self.ents[x], self.ents[y], "probe", payload={"p": p})]

    def run(self):
        try:
            self.build()
            self.sim.run()
        except Exception as ex:                              # recorded, judged through the truncated logs
            self.err = f"{type(ex).__name__}: {ex}"
        return self

    def trace(self, tid):
        s = self.sch
        return {"id": tid, "C": s["C"], "L0": s["L0"], "H": s["H"], "wins": s["wins"], "groups": s["groups"],
                "jobs": s["jobs"], "probes": s["probes"], "holds": s["holds"],
                "act": self.act, "snk": self.snk, "obs": self.obs, "msgs": self.msgs, "hlog": self.hlog}


def run_schedule(sch, T, loop="fast", form_seed=0):
    return World(sch, T, loop, form_seed).run()


# ---------------------------------------------------------------------------
# schedules from TLC state dumps

def sch_from_state(st, flip=0):
    s = st["sch"]
    wins = []
    for n, w in enumerate(s["wins"]):
        k = w["k"]
        if k == "crash" and w["e"] != INF and (n + flip) % 2 == 1:
            k = "pause"                                      # same closure pair in node_faults.py
        wins.append({"k": k, "tg": list(w["tg"]), "s": w["s"], "e": w["e"], "x": w["x"], "cm": w["cm"],
                     "ct": w["ct"]})
    return {"C": s["C"], "L0": s["L0"], "H": s["H"], "wins": wins,
            "groups": [{"a": list(g["a"]), "b": list(g["b"])} for g in s["groups"]],
            "jobs": [{"e": J["e"], "t": J["t"], "ds": list(J["ds"]), "em": list(J["em"]), "g": (i + flip) % 2}
                     for i, J in enumerate(s["jobs"])],
            "probes": [{"t": p["t"], "x": p["x"], "y": p["y"]} for p in s["probes"]],
            "holds": [{"t": h["t"], "a": h["a"], "d": h["d"]} for h in s["holds"]]}


# ---------------------------------------------------------------------------
# random schedules beyond the model's bounds

def random_schedule(rng: random.Random):
    nodes = [1, 2, 3]
    eps = [11, 12, 13, 14][:rng.choice((2, 3, 3, 4))]
    C = rng.choice((4, 8))
    tmax = rng.choice((4, 6, 9))
    groups = []
    for _ in range(rng.randint(1, 3)):
        k = rng.randint(1, len(eps) - 1)
        sh = rng.sample(eps, len(eps))
        a = sh[:k]
        b = sh[k:k + rng.randint(1, len(eps) - k)]
        groups.append({"a": a, "b": b})
    focus = rng.choice(("any", "any", "node", "net", "cap", "queue"))
    kinds = {"any": ["crash", "pause", "part", "lat", "loss", "cap", "qcrash"], "node": ["crash", "pause"],
             "net": ["part", "lat", "loss"], "cap": ["cap"], "queue": ["qcrash", "crash"]}[focus]
    wins = []
    shared_edges = []
    for _ in range(rng.randint(1, 6)):
        k = rng.choice(kinds)
        # coincident boundaries are likely: reuse earlier edges half of the time
        def edge():
            if shared_edges and rng.random() < 0.5:
                return rng.choice(shared_edges)
            return rng.randint(1, tmax)
        a, b = edge(), edge()
        if a == b:
            b = a + rng.randint(1, 3)
        s, e = 3 * min(a, b), 3 * max(a, b)
        shared_edges += [s // 3, e // 3]
        x = 0
        if k == "qcrash":
            k, tg = rng.choice(("crash", "pause")), [QID]
        elif k in ("crash", "pause"):
            tg = [rng.choice(nodes + ([eps[1]] if rng.random() < 0.2 else []))]
        elif k == "part":
            tg, x = [rng.randint(1, len(groups))], int(rng.random() < 0.3)
        elif k in ("lat", "loss"):
            tg = rng.sample(eps, 2) if rng.random() < 0.3 else [eps[0], eps[1]]
            if k == "lat" and sum(1 for w in wins if w["k"] == "lat" and w["tg"] == tg) >= 3:
                k = "loss"                                   # float exactness is checked for stacks of <= 3 extras
            x = 3 * rng.randint(1, 3) if k == "lat" else 0
        else:
            tg, x = [0], rng.choice([v for v in (1, 2, 3, 4, 6) if v < C and C * (v / C) == v])
        if k == "crash" and rng.random() < 0.15:
            e = INF
        cm, ct = 0, 0
        r = rng.random()
        if r < 0.08:
            cm = 1
        elif r < 0.16:
            cm = 2
        elif r < 0.24:
            cm, ct = 3, rng.choice((s - 1, s - 2, s - 3, 0, 1))
        wins.append({"k": k, "tg": tg, "s": s, "e": e, "x": x, "cm": cm, "ct": ct})
    edges = sorted({v for w in wins for v in (w["s"], w["e"]) if v != INF})
    last = max(edges)
    around = sorted({v + o for v in edges for o in (-1, 0, 1)} | {last + 4, last + 7}
                    | {(a + b) // 2 for a, b in zip(edges, edges[1:])})
    crash_t = sorted({w["tg"][0] for w in wins if w["k"] in ("crash", "pause")})
    jobs = []
    job_nodes = sorted({t for t in crash_t if t < QID} | {rng.choice(nodes)})
    for e_ in job_nodes:
        for t in around:
            if rng.random() < 0.7:
                jobs.append({"e": e_, "t": t, "ds": [], "em": [rng.randint(0, 1)], "g": rng.randint(0, 1)})
        for _ in range(rng.randint(1, 4)):
            n = rng.randint(1, 6)
            ds = [3 * rng.choice((0, 1, 1, 1, 2, 3)) for _ in range(n)]
            jobs.append({"e": e_, "t": rng.randint(0, last + 3), "ds": ds,
                         "em": [rng.randint(0, 1) for _ in range(n + 1)], "g": 1})
    if QID in crash_t or rng.random() < 0.15:
        for t in around:
            if rng.random() < 0.6:
                n = rng.randint(0, 2)
                jobs.append({"e": QID, "t": t, "ds": [3 * rng.choice((0, 1, 2)) for _ in range(n)],
                             "em": [rng.randint(0, 1) for _ in range(n + 1)], "g": 1})
    rng.shuffle(jobs)                                       # creation order is independent of time order
    pairs = set()
    for w in wins:
        if w["k"] == "part":
            g = groups[w["tg"][0] - 1]
            for a in g["a"]:
                for b in g["b"]:
                    pairs.update({(a, b), (b, a)})
        elif w["k"] in ("lat", "loss"):
            pairs.update({tuple(w["tg"]), tuple(reversed(w["tg"]))})
    if pairs or rng.random() < 0.2:
        pairs.add(tuple(rng.sample(eps, 2)))               # a bystander pair
    pairs = sorted(pairs)
    if len(pairs) > 4:
        pairs = rng.sample(pairs, 4)
    has_cap = any(w["k"] == "cap" for w in wins)
    probes = []
    for t in around:
        for (x, y) in pairs:
            probes.append({"t": t, "x": x, "y": y})
        if has_cap or not pairs:
            probes.append({"t": t, "x": 0, "y": 0})
    holds = []
    if has_cap or rng.random() < 0.1:
        for _ in range(rng.randint(0, 5)):
            holds.append({"t": rng.choice(around + [1, 2]), "a": rng.randint(1, C), "d": 3 * rng.randint(1, tmax + 2)})
    qtotal = sum(sum(J["ds"]) + 3 for J in jobs if J["e"] == QID)
    longest = max([sum(J["ds"]) for J in jobs] + [0])
    hmax = max([h["t"] + h["d"] for h in holds] + [0])
    latsum = sum(w["x"] for w in wins if w["k"] == "lat")     # stacked latency windows add up
    H = max(last + 7 + longest, hmax, last + 7 + 3 + latsum) + qtotal + 9
    H += (-H) % 3
    return {"C": C, "L0": 3, "H": H, "wins": wins, "groups": groups, "jobs": jobs, "probes": probes,
            "holds": holds}
