"""C19 — messaging delivers until acknowledged, to the right consumers, in offset order.

Specs: specs/msg/{MQueue,MQueueMC,MQueueTrace,Topic,TopicMC,TopicTrace,Assign,AssignMC,Stream,StreamMC,
StreamTrace}.tla.  Real-code drivers: c19_mq.py, c19_topic.py, c19_stream.py (everything runs inside a real
Simulation).  See reports/C19.md."""
from __future__ import annotations

import json
import os
import random
from concurrent.futures import ThreadPoolExecutor

from .. import tlc
from ..common import Check, load_known
from ..probe import quiet_logging
from . import c19_mq as MQ
from . import c19_stream as ST
from . import c19_topic as TP

SPEC = tlc.SPECS / "msg"
PROP = "C19"

MQ_INVS = ["InvAccounted", "InvReach", "InvNoPhantom", "InvSubscribed", "InvRedeliver", "InvFirstOrder",
           "InvLimit", "InvAfterAck", "InvShape"]
MQ_DEVS = {"stale_now_after_yield": "InvReach", "settle_leaves_pending_id": "InvAccounted",
           "requeue_at_limit": "InvLimit", "poll_lifo": "InvFirstOrder",
           "reject_forgets_requeue": "InvAccounted", "ack_keeps_message": "InvAfterAck",
           "unsubscribe_ignored": "InvSubscribed", "timer_dropped": "InvRedeliver"}
TP_INVS = ["InvAtMostOnce", "InvAllReached"]
TP_DEVS = {"stale_now_after_yield": "InvAllReached", "fanout_skips_last": "InvAllReached",
           "resubscribe_duplicates": "InvAtMostOnce"}
ST_INVS = ["InvOffsets", "InvKey", "InvOwner", "InvCommit", "InvRead", "InvSuffix"]
_TINY = dict(nc=1, nk=1, alat=0, rlat=0, plat=0, rdelay=0, ret="none", maxt=1)
ST_DEVS = {"offset_from_length": ("InvOffsets", dict(_TINY, np_=1, maxops=3, maxapp=3, ret="size", every=1, maxt=2)),
           "key_hash_unstable": ("InvKey", dict(_TINY, maxops=4, maxapp=2)),
           "join_resets_offsets": ("InvCommit", dict(_TINY, maxops=5, maxapp=1, maxt=2)),
           "range_drops_remainder": ("InvOwner", dict(_TINY, np_=3, nc=2, maxops=3, maxapp=1)),
           "sticky_keeps_departed": ("InvOwner", dict(_TINY, nc=2, maxops=4, maxapp=1, strat="sticky"))}
AS_INVS = ["InvRange", "InvRoundRobin", "InvSticky", "InvKeys"]
AS_DEVS = {"range_drops_remainder": "InvRange", "sticky_keeps_departed": "InvSticky"}

# Violation keys are computed from what fails: the trace specs report the signature of the two confirmed
# defects (a delivery event dropped by the engine because it carries the pre-latency instant) as a clause of
# its own; every other failing clause gets the key "<family>:<clause>".
SIGNATURE_KEYS = {("mq", "delivery_discarded_stale_stamp"): "mq_delivery_event_stamped_pre_latency",
                  ("mq", "settled_message_left_in_pending"): "mq_settled_message_left_in_pending",
                  ("topic", "topic_delivery_discarded_stale_stamp"): "topic_delivery_event_stamped_pre_latency"}
# deviations of the implementation-shaped models that describe the code as it is (open known findings)
MODEL_DEVS = {"mq": {"stale_now_after_yield", "settle_leaves_pending_id"}, "topic": {"stale_now_after_yield"},
              "stream": set()}
TRACE_MODULE = {"mq": "MQueueTrace.tla", "topic": "TopicTrace.tla", "stream": "StreamTrace.tla"}
DRIVER = {"mq": MQ, "topic": TP, "stream": ST}
TICKS = (10**6, 10**9, 10**3)


def devset(devs):
    return "{" + ",".join(f'"{d}"' for d in devs) + "}"


def open_devs(fam=None):
    """Deviations of the open known findings (of one family: both confirmed defects carry the same deviation
    name, the finding's key tells which component's model has to run with it)."""
    keys = {k for (f, _c), k in SIGNATURE_KEYS.items() if fam is None or f == fam}
    return sorted({e["deviation"] for e in load_known().get("open", [])
                   if e["property"] == PROP and e.get("deviation") and e["key"] in keys})


def tla_bool(b):
    return "TRUE" if b else "FALSE"


def mq_consts(nc=2, maxmsg=2, maxops=6, maxt=3, lat=1, rdel=1, maxr=2, cap=0, dlq=True, dev=()):
    return {"NC": nc, "MaxMsg": maxmsg, "MaxOps": maxops, "MaxT": maxt, "Lat": lat, "RDel": rdel, "MaxR": maxr,
            "Cap": cap, "HasDLQ": tla_bool(dlq), "Dev": devset(dev)}


def tp_consts(nc=2, maxpub=2, maxops=6, maxt=3, lat=1, dev=()):
    return {"NC": nc, "MaxPub": maxpub, "MaxOps": maxops, "MaxT": maxt, "Lat": lat, "Dev": devset(dev)}


def st_consts(np_=2, nc=2, nk=2, maxops=6, maxapp=3, maxt=3, strat="range", ret="size", retn=1, every=2,
              alat=1, rlat=0, plat=0, rdelay=1, dev=()):
    return {"NP": np_, "NC": nc, "NK": nk, "MaxOps": maxops, "MaxApp": maxapp, "MaxT": maxt,
            "Strat": f'"{strat}"', "RetKind": f'"{ret}"', "RetN": retn, "RetEvery": every, "ALat": alat,
            "RLat": rlat, "PLat": plat, "RDelay": rdelay, "Dev": devset(dev)}


def as_consts(nc=3, maxnp=5, maxsteps=4, dev=()):
    return {"NC": nc, "MaxNP": maxnp, "MaxSteps": maxsteps, "Dev": devset(dev)}


class Job:
    def __init__(self, name, module, consts, invs, kind, expect=None, workers=2, dot=False, fam=None, meta=None,
                 timeout=600):
        self.name, self.module, self.consts, self.invs = name, module, consts, invs
        self.kind, self.expect, self.workers, self.dot, self.fam, self.meta = kind, expect, workers, dot, fam, meta
        self.timeout = timeout
        self.label = "C19_" + "".join(ch if ch.isalnum() else "_" for ch in name)

    def run(self):
        wd = tlc.workdir(self.label)
        view = "View" if (self.kind != "dump" and self.module != "AssignMC.tla") else None
        cfg = tlc.write_cfg(wd / "mc.cfg", constants=self.consts, invariants=self.invs, view=view)
        return tlc.run(SPEC / self.module, cfg, label=self.label, workers=self.workers, timeout=self.timeout,
                       dump_dot=(wd / "graph") if self.dot else None, heap="3g",
                       env=JVM_SMALL if self.kind != "clean" else JVM_BIG)

    def dot_path(self):
        return tlc.WORK / self.label / "graph.dot"


# many short TLC processes run side by side: keep each JVM's helper threads (GC, JIT) few
JVM_SMALL = {"JAVA_TOOL_OPTIONS": "-XX:TieredStopAtLevel=1 -XX:ParallelGCThreads=2 -XX:CICompilerCount=1"}
JVM_BIG = {"JAVA_TOOL_OPTIONS": "-XX:ParallelGCThreads=4"}


def jobs_for(tier, seed=0):
    J = all_jobs(tier)
    if tier != "quick":
        return J
    # quick tier: fewer JVMs.  Both real deviations and four of the hypothetical ones (rotating with the seed)
    # are exercised; the thorough tier runs all 17 sensitivity runs and all configurations.
    keep_clean = {"mq clean lat1", "mq clean lat0 cap nodlq", "topic clean lat1", "stream clean rr time",
                  "stream clean sticky size", "assign clean"}
    keep_dump = {"mq tour lat0", "mq tour lat1", "topic tour lat0", "stream tour"}
    devs = [j for j in J if j.kind == "dev"]
    real = [j for j in devs if "stale_now_after_yield" in j.name or "settle_leaves_pending_id" in j.name]
    rest = [j for j in devs if j not in real]
    pick = random.Random(seed).sample(rest, 4)
    out = []
    for j in J:
        if (j.kind == "clean" and j.name in keep_clean) or (j.kind == "dump" and j.name in keep_dump) \
                or j in real or j in pick:
            out.append(j)
    return out


def all_jobs(tier):
    q = tier == "quick"
    big = max(2, tlc.DEFAULT_WORKERS // 4)
    J = []
    # --- exhaustive, Dev = {} ---------------------------------------------------
    if q:
        J += [Job("mq clean lat1", "MQueueMC.tla", mq_consts(), MQ_INVS, "clean", workers=big),
              Job("mq clean lat0 cap nodlq", "MQueueMC.tla",
                  mq_consts(maxops=6, maxt=2, lat=0, maxr=1, cap=1, dlq=False), MQ_INVS, "clean", workers=big)]
    else:
        J += [Job("mq clean lat1 3msg", "MQueueMC.tla", mq_consts(maxmsg=3, maxops=8, maxt=3), MQ_INVS, "clean",
                  workers=big, timeout=3000),
              Job("mq clean lat0 cap nodlq", "MQueueMC.tla",
                  mq_consts(maxmsg=3, maxops=8, maxt=2, lat=0, maxr=1, cap=2, dlq=False), MQ_INVS, "clean",
                  workers=big, timeout=3000),
              Job("mq clean lat2 rdel2", "MQueueMC.tla",
                  mq_consts(maxops=7, maxt=5, lat=2, rdel=2, maxr=2), MQ_INVS, "clean", workers=big, timeout=3000),
              Job("mq clean maxr0 nodlq", "MQueueMC.tla",
                  mq_consts(maxmsg=3, maxops=8, maxt=3, lat=1, rdel=1, maxr=0, dlq=False), MQ_INVS, "clean",
                  workers=big, timeout=3000),
              Job("mq clean 3 consumers maxr3", "MQueueMC.tla",
                  mq_consts(nc=3, maxops=7, maxt=3, lat=1, rdel=1, maxr=3), MQ_INVS, "clean", workers=big,
                  timeout=3000)]
    J += [Job("topic clean lat1", "TopicMC.tla", tp_consts(maxops=6 if q else 8, maxpub=2 if q else 3),
              TP_INVS, "clean", workers=big, timeout=3000),
          Job("topic clean lat0", "TopicMC.tla", tp_consts(nc=3 if not q else 2, maxops=5 if q else 7, maxt=1, lat=0),
              TP_INVS, "clean", workers=big, timeout=3000)]
    for strat, ret in (("rr", "time"), ("sticky", "size"), ("range", "none")):
        J.append(Job(f"stream clean {strat} {ret}", "StreamMC.tla",
                     st_consts(strat=strat, ret=ret, nk=2 if (not q and strat == "rr") else 1,
                               maxops=4 if q else 5, maxapp=2, maxt=2),
                     ST_INVS, "clean", workers=big, timeout=3000))
    J.append(Job("assign clean", "AssignMC.tla", as_consts(maxsteps=4 if q else 6), AS_INVS, "clean", workers=2,
                 dot=True, fam="assign"))
    # --- sensitivity: each deviation alone must break its invariant -------------
    for d, inv in MQ_DEVS.items():
        J.append(Job(f"mq dev {d}", "MQueueMC.tla", mq_consts(dev=[d]), [inv], "dev", expect=inv, workers=1))
    for d, inv in TP_DEVS.items():
        J.append(Job(f"topic dev {d}", "TopicMC.tla", tp_consts(dev=[d]), TP_INVS, "dev", expect=inv, workers=1))
    for d, (inv, kw) in ST_DEVS.items():
        J.append(Job(f"stream dev {d}", "StreamMC.tla", st_consts(dev=[d], **kw), ST_INVS, "dev", expect=inv,
                     workers=1))
    for d, inv in AS_DEVS.items():
        J.append(Job(f"assign dev {d}", "AssignMC.tla", as_consts(dev=[d]), AS_INVS, "dev", expect=inv, workers=1))
    # --- state graphs for the transition tours (spec -> code) --------------------
    J += [Job("mq tour lat0", "MQueueMC.tla", mq_consts(maxops=4, maxt=1, lat=0, maxr=1), [], "dump", dot=True,
              fam="mq", workers=2, meta={"nc": 2, "lat": 0, "rdel": 1, "maxr": 1, "cap": 0, "dlq": True}),
          Job("mq tour lat1", "MQueueMC.tla", mq_consts(maxops=4, maxt=2, lat=1, maxr=2), [], "dump", dot=True,
              fam="mq", workers=2, meta={"nc": 2, "lat": 1, "rdel": 1, "maxr": 2, "cap": 0, "dlq": True}),
          Job("topic tour lat0", "TopicMC.tla", tp_consts(maxops=3, maxt=1, lat=0), [], "dump", dot=True,
              fam="topic", workers=2, meta={"nc": 2, "lat": 0}),
          Job("topic tour lat1", "TopicMC.tla", tp_consts(maxops=3, maxt=2, lat=1), [], "dump", dot=True,
              fam="topic", workers=2, meta={"nc": 2, "lat": 1}),
          Job("stream tour", "StreamMC.tla",
              st_consts(nk=1, strat="sticky", ret="size", maxops=3, maxapp=2, maxt=2), [],
              "dump", dot=True, fam="stream", workers=2,
              meta={"np": 2, "nc": 2, "nk": 1, "alat": 1, "rlat": 0, "plat": 0, "rdelay": 1, "strat": "sticky",
                    "ret": {"kind": "size", "n": 1, "every": 2}})]
    return J


# ---------------------------------------------------------------------------
# trace validation (code -> spec)

def _validate_chunk(fam, part, dev, label):
    wd = tlc.workdir(label)
    cfg = tlc.write_cfg(wd / "trace.cfg", spec="Spec", constants={"Dev": devset(dev)})
    f = wd / "traces.json"
    f.write_text(json.dumps(part, separators=(",", ":")))
    res = tlc.run(SPEC / TRACE_MODULE[fam], cfg, label=label, workers=1, timeout=3000, heap="3g",
                  env={"TRACE_FILE": str(f), "JAVA_TOOL_OPTIONS": "-XX:ParallelGCThreads=2"})
    vv, cc, verdicts = {}, {}, {}
    for v in res.printed:
        if isinstance(v, tuple) and len(v) == 4 and v[0] == "V":
            vv[v[1]] = (v[2], v[3])
        elif isinstance(v, tuple) and len(v) == 4 and v[0] == "C":
            cc[v[1]] = (v[2], v[3])
    for tid in vv:
        if tid in cc:
            verdicts[tid] = vv[tid] + cc[tid]
    miss = [t["id"] for t in part if t["id"] not in verdicts]
    if miss:
        raise tlc.TLCFailure(f"{label}: no verdict for traces {miss[:3]} (see {wd / 'tlc.out'})")
    f.unlink()
    return verdicts, res


def validate(fam, traces, dev, label, chunks=1):
    """-> {id: (verdict, pos, conformance, cpos)}, [TLCResult]; the batch is split into `chunks` TLC
    processes (one worker each) that run side by side."""
    chunks = max(1, min(chunks, (len(traces) + 199) // 200))
    parts = [traces[k::chunks] for k in range(chunks)]
    verdicts, results = {}, []
    with ThreadPoolExecutor(max_workers=len(parts)) as p:
        for v, r in p.map(lambda ip: _validate_chunk(fam, ip[1], dev, f"{label}_{ip[0]}"), enumerate(parts)):
            verdicts.update(v)
            results.append(r)
    return verdicts, results


class Family:
    def __init__(self, fam):
        self.fam, self.traces, self.meta = fam, [], {}
        self.steps = 0

    def execute(self, chk, sc, tick, origin):
        w = DRIVER[self.fam].run_scenario(sc, tick)
        tid = len(self.traces) + 1
        self.traces.append(DRIVER[self.fam].to_trace(tid, sc, w))
        self.meta[tid] = {"family": self.fam, "origin": origin, "tick_ns": tick, "scenario": sc}
        self.steps += len(w.records)
        if w.error:
            chk.violation(f"{self.fam}:exception:{w.error.split(':')[0]}", f"the real code raised {w.error}",
                          self.meta[tid])
        return tid


def judge_tlc(F: Family, chunks=1):
    """(thread) Validate all traces with Dev = {}; re-validate contract failures with the open known
    deviations switched on (R4)."""
    fam = F.fam
    if not F.traces:
        return None
    devs = [d for d in open_devs(fam) if d in MODEL_DEVS[fam]]      # the model of the code as it is
    v0, r0 = validate(fam, F.traces, devs, f"C19_trace_{fam}", chunks)
    return v0, r0, devs


def judge(chk, F: Family, out):
    """Classify the verdicts of one family (main thread)."""
    fam = F.fam
    if out is None:
        return
    v0, r0, devs = out
    for r in r0:
        chk.add_tlc(f"{TRACE_MODULE[fam]} batch Dev={devs}", r, note="trace validation of real executions")
    conform = failing = 0
    for tid, v in sorted(v0.items()):
        if v[2] == "OK":
            conform += 1
        else:     # R3: the code left the implementation-shaped model; informational
            chk.note_drift(f"{fam} trace {tid} ({F.meta[tid]['origin']}): {v[2]} at record {v[3]}")
        if not v[0].startswith("PROP:"):
            continue
        failing += 1
        clause = v[0][5:]
        key = SIGNATURE_KEYS.get((fam, clause), f"{fam}:{clause}")
        chk.violation(key, f"{v[0]} at record {v[1]} of a {fam} execution (origin {F.meta[tid]['origin']}; "
                           f"conformance with the model Dev={devs}: {v[2]})",
                      dict(F.meta[tid], verdict=list(v), trace=F.traces[tid - 1]))
    chk.extra[f"{fam}_traces"] = len(F.traces)
    chk.extra[f"{fam}_traces_conforming_to_model"] = conform
    chk.extra[f"{fam}_traces_with_false_clause"] = failing


# ---------------------------------------------------------------------------
# spec -> code

def tour(job, cap, rng):
    """Root paths covering every edge of the dumped state graph; each step is (act, dst) where act is the
    value of the history variable `act` in the destination state, e.g. ("EAck", 1)."""
    g = tlc.parse_dot(job.dot_path())
    paths = list(tlc.edge_tour(g, max_paths=None))
    total = len(paths)
    if cap is not None and len(paths) > cap:
        paths = rng.sample(paths, cap)
    paths = [(root, [(tuple(g.nodes[dst]["act"]), dst) for _lab, dst in path]) for root, path in paths]
    return g, paths, total


def assign_replay(chk, job, cap, rng):
    """Every edge of the AssignMC state graph: call the three real strategies along the path, compare with
    the model's assignment (drift) and evaluate the one-owner clause on the real result (violation)."""
    g, paths, total = tour(job, cap, rng)
    calls = mism = 0
    for i, (root, path) in enumerate(paths):
        np_ = g.nodes[root]["np"]
        real = {"r": ST.RangeAssignment(), "rr": ST.RoundRobinAssignment(), "st": ST.StickyAssignment()}
        for _act, dst in path:
            node = g.nodes[dst]
            members = sorted(node["members"])
            for k, strat in real.items():
                got = ST.call_strategy(strat, np_, members, shuffle_rng=rng if i % 2 else None)
                calls += 1
                model = node["last"][k]
                if isinstance(model, tuple):      # TLC prints a function on 1..n as a sequence
                    model = {i + 1: v for i, v in enumerate(model)}
                model = {m: sorted(ps) for m, ps in model.items()}
                if {m: sorted(v) for m, v in got.items()} != model:
                    mism += 1
                    chk.note_drift(f"assign {k}: np={np_} members={members} code={got} model={model}")
                if not ST.one_owner(np_, set(members), got):
                    chk.violation(f"assign:{k}:partition_without_single_owner",
                                  f"{type(strat).__name__}.assign({np_} partitions, members {members}) = {got}",
                                  {"family": "assign", "strategy": k, "np": np_,
                                   "history": [f"{a[0]}({a[1]})" if len(a) > 1 else a[0] for a, _ in path]})
        chk.replays += 1
    chk.extra["assign_calls"] = calls
    chk.extra["assign_model_mismatches"] = mism
    chk.extra["assign_paths_total"] = total
    return total == len(paths)


def random_assign(chk, rng, n):
    """Beyond the bounds: random membership histories with up to 9 names and 40 partitions."""
    for _ in range(n):
        np_ = rng.randint(1, 40)
        names = list(range(1, rng.randint(2, 9) + 1))
        real = {"r": ST.RangeAssignment(), "rr": ST.RoundRobinAssignment(), "st": ST.StickyAssignment()}
        members, hist = set(), []
        for _ in range(rng.randint(1, 12)):
            c = rng.choice(names)
            if c in members and rng.random() < 0.6:
                members.discard(c)
                hist.append(f"Leave({c})")
            else:
                members.add(c)
                hist.append(f"Join({c})")
            for k, strat in real.items():
                got = ST.call_strategy(strat, np_, sorted(members), shuffle_rng=rng)
                if not ST.one_owner(np_, set(members), got):
                    chk.violation(f"assign:{k}:partition_without_single_owner",
                                  f"{type(strat).__name__}.assign({np_} partitions, members {sorted(members)}) = {got}",
                                  {"family": "assign", "strategy": k, "np": np_, "history": list(hist)})
        chk.impl_traces += 1


# ---------------------------------------------------------------------------

def replay_case(chk, path):
    data = json.loads(open(path).read())
    rp = data["replay"]
    fam = rp.get("family")
    if fam == "assign":
        real = {"r": ST.RangeAssignment(), "rr": ST.RoundRobinAssignment(), "st": ST.StickyAssignment()}[rp["strategy"]]
        members = set()
        for h in rp["history"]:
            name, args = tlc.parse_action(h)
            if name == "Join":
                members.add(args[0])
            elif name == "Leave":
                members.discard(args[0])
            got = ST.call_strategy(real, rp["np"], sorted(members))
            if not ST.one_owner(rp["np"], members, got):
                chk.violation(data["key"], f"still fails: assign -> {got}", rp)
        return chk.finish()
    F = Family(fam)
    F.execute(chk, rp["scenario"], rp["tick_ns"], "replay")
    judge(chk, F, judge_tlc(F))
    chk.impl_traces = 1
    return chk.finish()


def run(tier, seed, replay=None):
    quiet_logging()
    chk = Check(PROP, tier, seed)
    if replay:
        return replay_case(chk, replay)
    rng = random.Random(seed)
    quick = tier == "quick"
    jobs = jobs_for(tier, seed)
    if os.environ.get("VERIF_C19_SKIP_MC"):     # development aid (mutation runs): only the tour graphs
        jobs = [j for j in jobs if j.dot]
    if quick:
        ran = {j.name for j in jobs}
        chk.extra["sensitivity_runs_left_to_thorough_tier"] = sorted(
            j.name for j in all_jobs(tier) if j.kind == "dev" and j.name not in ran)
    pool = ThreadPoolExecutor(max_workers=6)
    order = sorted(jobs, key=lambda j: {"dump": 0, "clean": 1, "dev": 2}[j.kind])
    futs = {j.name: pool.submit(j.run) for j in order}

    fams = {f: Family(f) for f in ("mq", "topic", "stream")}
    # code -> spec: seeded random / adversarial scenarios beyond the model's bounds (runs while TLC works)
    n_rand = {"mq": 350, "topic": 150, "stream": 150} if quick else {"mq": 5000, "topic": 2000, "stream": 2500}
    for fam, n in n_rand.items():
        gen = DRIVER[fam].random_scenario
        for i in range(n):
            fams[fam].execute(chk, gen(rng), TICKS[i % 3], "random")
    random_assign(chk, rng, 300 if quick else 6000)

    # spec -> code: transition tours of the small state graphs
    cap = 150 if quick else None
    complete = True
    for j in jobs:
        res = futs[j.name].result()
        if j.kind == "clean":
            chk.add_tlc(j.name + " Dev={}", res)
            chk.require(res.ok, f"{j.module} ({j.name}) with Dev={{}} violates {res.violated}: the model is wrong")
        elif j.kind == "dev":
            chk.add_tlc(j.name, res, count=False, note="sensitivity run, must violate " + j.expect)
            chk.require(res.violated == j.expect, f"{j.name}: expected {j.expect}, got {res.violated}")
            chk.sensitivity[j.name] = res.violated
        else:
            chk.add_tlc(j.name, res, count=False, note="state graph for the transition tour")
            chk.require(res.ok, f"{j.name}: {res.violated}")
        if j.dot and j.fam == "assign":
            complete &= assign_replay(chk, j, 1500 if quick else None, rng)
        elif j.dot:
            g, paths, total = tour(j, cap, rng)
            complete &= total == len(paths)
            chk.extra[f"tour_paths_{j.name.replace(' ', '_')}"] = f"{len(paths)}/{total}"
            for i, (root, path) in enumerate(paths):
                cfg = dict(j.meta, loop=("auto", "fast", "control")[i % 3])
                if j.fam == "stream":
                    sc = ST.scenario_from_path(path, cfg)
                else:
                    sc = DRIVER[j.fam].scenario_from_path(g.nodes[root], path, cfg)
                fams[j.fam].execute(chk, sc, TICKS[i % 3], "tour:" + j.name)
                chk.replays += 1
    pool.shutdown(wait=True)

    # judge every recorded execution with the trace specs (three TLC batches in parallel)
    chunks = 1 if quick else 4
    with ThreadPoolExecutor(max_workers=3) as p2:
        outs = list(p2.map(lambda F: judge_tlc(F, chunks), fams.values()))
    for F, out in zip(fams.values(), outs):
        judge(chk, F, out)
    chk.impl_traces += sum(len(F.traces) for F in fams.values())
    chk.impl_steps = sum(F.steps for F in fams.values())
    chk.exhaustive = complete      # every edge of every dumped state graph was replayed on the real code
    chk.extra["model_bounds"] = {j.name: {k: v for k, v in j.consts.items() if k != "Dev"}
                                 for j in jobs if j.kind in ("clean", "dump")}
    for F in fams.values():
        if F.traces:
            t = F.traces[min(len(F.traces) - 1, 3)]
            chk.sample({"family": F.fam, "config": {k: v for k, v in t.items() if k not in ("log", "id")},
                        "first_records": [{k: v for k, v in r.items() if k != "o"} for r in t["log"][:12]]})
    chk.assumptions = [
        "message ids (uuid4) are canonicalised to publish ordinals; consumers/keys/partitions to small integers",
        "latencies and delays are exact multiples of a tick (1 us, 1 ms, 1 s) chosen so that the engine's "
        "float-to-nanosecond truncation is exact",
        "accounted-for is read as 'in at least one of pending / in flight / acknowledged / dead-lettered' "
        "(without a DLQ a terminally rejected message counts as discarded by design); stale or duplicate ids "
        "the code leaves in its pending deque are modelled, not judged",
        "the redelivery limit is the code's: a requeue request (reject(requeue=True) / schedule_redelivery) on a "
        "message whose delivery_count >= max_redeliveries must dead-letter it",
        "committed offsets are judged per (consumer name, partition) as the code stores them; consumers commit "
        "non-decreasing offsets, so any decrease is the group's doing",
        "same-instant ordering of engine events is the engine's (C01); the trace specs follow the observed order",
    ]
    chk.explanation = (
        "TLC exhaustively checks the C19 clauses on implementation-shaped models of MessageQueue(+DLQ), Topic, "
        "EventLog+ConsumerGroup and the three assignment strategies (small bounds, every interleaving of "
        "environment calls with the engine's internal events, every tick), and shows each invariant can fail "
        "(one deviation per run).  Every edge of small state graphs is replayed as an environment schedule on the "
        "real objects inside a real Simulation, seeded random schedules go beyond the bounds, and every recorded "
        "execution is judged by the TLA+ trace specs: contract clauses on the observed states (PROP) and "
        "step-by-step conformance with the model (MODEL drift).")
    return chk.finish()
